(* C30 proofs, reader side (1): what the reader can rely on at every time t (number of writer operations
   performed so far), derived from the writer invariant. *)
From Coq Require Import List ZArith NArith Bool Arith Lia Sorted.
From GoProbe.Base Require Import CorrLib.
From GoProbe.C04 Require Import Model.
From GoProbe.C30 Require Import C04P1 C04P2 C04P3 C04P4 C04P5 C04PC.
From GoProbe.C30 Require Import Model Corr Proofs WInv WInv2 WInv3 WInv4 RSpec.
Import ListNotations.

Lemma in_lookup {A} (l : list (dkey * A)) k v : ksorted l -> In (k, v) l -> lookup k l = Some v.
Proof.
  induction 1 as [|k2 v2 r F S IH]; intros I; [contradiction|]. cbn.
  destruct I as [E|I].
  - injection E as -> ->. now rewrite keqb_refl.
  - rewrite Forall_forall in F. specialize (F _ I). cbn in F. apply kltb_neq in F. rewrite keqb_sym, F. auto.
Qed.

Lemma find_day_flat (F : dkey * dayfs -> bool) k days : (forall d, F (k, d) = true) ->
  find_day k (flat_map (fun kd => if F kd then [(fst kd, d_suf (snd kd))] else []) days) = option_map d_suf (lookup k days).
Proof.
  intros HF. unfold find_day. induction days as [|[k' d'] r IH]; cbn; auto.
  destruct (keqb k k') eqn:E.
  - apply keqb_eq in E; subst k'. rewrite HF. cbn. now rewrite keqb_refl.
  - destruct (F (k', d')); cbn; [rewrite E|]; exact IH.
Qed.

Lemma in_flat_days (F : dkey * dayfs -> bool) key suf days :
  In (key, suf) (flat_map (fun kd => if F kd then [(fst kd, d_suf (snd kd))] else []) days) ->
  exists d, In (key, d) days /\ suf = d_suf d /\ F (key, d) = true.
Proof.
  intros I. apply in_flat_map in I as ([k d] & I1 & I2). destruct (F (k, d)) eqn:E; [|contradiction].
  destruct I2 as [E2|[]]. cbn in E2. injection E2 as E3 E4. subst. eauto.
Qed.

(* ------------------------------------------------------------------ pure facts used by the query proof *)
Lemma read_col_slice d c f off len : d_cols d c = Some f -> len <> 0 -> read_col d c off len = slice f off len.
Proof. intros E N. unfold read_col, slice. apply Nat.eqb_neq in N. now rewrite N, E. Qed.
Lemma nth_mid {A B} (f : A -> B) pre x post d : nth (length pre) (map f (pre ++ x :: post)) d = f x.
Proof. rewrite map_app, app_nth2 by (rewrite map_length; lia). rewrite map_length, Nat.sub_diag. reflexivity. Qed.
Lemma firstn_mid {A B} (f : A -> B) pre z : firstn (length pre) (map f (pre ++ z)) = map f pre.
Proof. rewrite map_app. rewrite <- (map_length f pre). rewrite firstn_app, firstn_all, Nat.sub_diag. cbn. now rewrite app_nil_r. Qed.

Definition outspec (tcov : Z) (l : list writeout) : list (Z * nat) :=
  map (fun w => (w_ts w, w_id w))
      (filter (fun w => negb (Nat.eqb (w_len w 0) 0)) (filter (fun w => negb (Z.ltb tcov (w_ts w))) l)).
Lemma outspec_snoc tcov l w : outspec tcov (l ++ [w]) =
  outspec tcov l ++ (if Z.ltb tcov (w_ts w) then [] else if Nat.eqb (w_len w 0) 0 then [] else [(w_ts w, w_id w)]).
Proof.
  unfold outspec. rewrite !filter_app, map_app. f_equal. cbn [filter].
  destruct (Z.ltb tcov (w_ts w)); cbn; auto. destruct (Nat.eqb (w_len w 0) 0); reflexivity.
Qed.

Definition ts_sorted (l : list writeout) : Prop := Sorted.StronglySorted (fun a b => (w_ts a < w_ts b)%Z) l.
Lemma filter_ts_prefix tcov l : ts_sorted l -> exists n, filter (fun w => negb (Z.ltb tcov (w_ts w))) l = firstn n l.
Proof.
  induction 1 as [|w l SS0 IH F]; [exists 0; reflexivity|]. cbn [filter].
  destruct (Z.ltb tcov (w_ts w)) eqn:E; cbn [negb].
  - exists 0. cbn. apply Z.ltb_lt in E.
    clear IH SS0. induction l as [|x l IHl]; [reflexivity|]. inversion F; subst. cbn.
    assert ((tcov <? w_ts x)%Z = true) as -> by (apply Z.ltb_lt; lia). cbn. auto.
  - destruct IH as [n ->]. exists (Datatypes.S n). reflexivity.
Qed.
Lemma sorted_prefix l l' : prefix_of l l' -> ts_sorted l' -> ts_sorted l.
Proof.
  intros [r ->]. induction l as [|x l IH]; intros S; [constructor|]. inversion S; subst. constructor.
  - now apply IH.
  - apply Forall_app in H2. tauto.
Qed.
Lemma spec_blocks_daylist ws k j : spec_blocks ws k j =
  map (fun w => (w_ts w, w_id w)) (filter (fun w => negb (Nat.eqb (w_len w 0) 0)) (daylist (spec_db [] (firstn j ws)) k)).
Proof. unfold spec_blocks, daylist. rewrite db_at_spec. destruct (lookup k _); reflexivity. Qed.

Section Env.
Variable ws : list writeout.
Variables (jf : nat -> nat) (nff : nat -> dkey -> nat).
Definition HH := hist_ops fs_empty ws.
Definition SS (t : nat) : fs := St fs_empty HH t.
Definition AA (t : nat) : adb := spec_db [] (firstn (jf t) ws).
Definition FL (k : dkey) : list writeout := daylist (spec_db [] ws) k.
Definition dl (t : nat) (k : dkey) : list writeout := daylist (AA t) k.
Definition Vis (k : dkey) (t : nat) : Prop := dl t k <> [].

Hypothesis Mj : forall t t', t <= t' -> jf t <= jf t'.
Hypothesis Bj : forall t, jf t <= length ws.
Hypothesis Mn : forall t t' k, t <= t' -> nff t k <= nff t' k.
Hypothesis HG : forall t, GoodS (SS t) (AA t) (nff t) /\ bounded (AA t) (nff t).
(* the totals of a day never return to an earlier value (they only grow unless a 64-bit counter wraps) *)
Hypothesis NR : forall k n1 n2 n3, n1 <= n2 -> n2 <= n3 ->
  sufx (firstn n1 (FL k)) = sufx (firstn n3 (FL k)) -> sufx (firstn n2 (FL k)) = sufx (firstn n1 (FL k)).

Lemma dl_mono t t' k : t <= t' -> prefix_of (dl t k) (dl t' k).
Proof. intros L. apply db_prefix. now apply Mj. Qed.
Lemma dl_FL t k : prefix_of (dl t k) (FL k).
Proof. unfold dl, AA, FL. rewrite <- (firstn_all ws) at 2. apply db_prefix. apply Bj. Qed.
Lemma Vis_mono k t t' : t <= t' -> Vis k t -> Vis k t'.
Proof. intros L V. destruct (dl_mono t t' k L) as [r E]. unfold Vis in *. rewrite E. destruct (dl t k); [contradiction|discriminate]. Qed.

Lemma day_suf t k d : lookup k (f_days (SS t)) = Some d -> d_suf d = sufx (firstn (nff t k) (FL k)).
Proof.
  intros L. destruct (HG t) as [[_ G] B]. specialize (G k). specialize (B k). rewrite L in G.
  fold (dl t k) in B. unfold GoodD in G. unfold dl, daylist in B.
  destruct (lookup k (AA t)) as [bl|] eqn:La.
  - destruct G as (_ & _ & Ln & HS & _). rewrite HS. f_equal. symmetry. apply prefix_firstn; auto.
    pose proof (dl_FL t k) as P. unfold dl, daylist in P. now rewrite La in P.
  - destruct G as [_ HS]. cbn in B. replace (nff t k) with 0 by lia. exact HS.
Qed.
Lemma vis_day t k : Vis k t -> exists d, lookup k (f_days (SS t)) = Some d /\ d_meta d = Some (Some (meta_of (dl t k))).
Proof.
  intros V. destruct (HG t) as [[_ G] _]. specialize (G k). unfold Vis, dl, daylist in *.
  destruct (lookup k (f_days (SS t))) as [d|].
  - exists d. split; auto. destruct (lookup k (AA t)); [|contradiction]. now destruct G as (_ & HM & _).
  - rewrite G in V. contradiction.
Qed.
Lemma day_vis t k d : lookup k (f_days (SS t)) = Some d -> d_suf d <> None \/ d_meta d <> None -> Vis k t.
Proof.
  intros L N. destruct (HG t) as [[_ G] _]. specialize (G k). rewrite L in G. unfold Vis, dl, daylist.
  destruct (lookup k (AA t)).
  - now destruct G.
  - destruct G as [E1 E2]. destruct N; congruence.
Qed.
Lemma vis_cols t k : Vis k t -> exists d, lookup k (f_days (SS t)) = Some d /\ cols_ok d (dl t k) /\ Forall wf_w (dl t k).
Proof.
  intros V. destruct (HG t) as [[_ G] _]. specialize (G k). unfold Vis, dl, daylist in *.
  destruct (lookup k (f_days (SS t))) as [d|].
  - exists d. split; auto. destruct (lookup k (AA t)); [|contradiction]. now destruct G as (_ & _ & _ & _ & CO & WF).
  - rewrite G in V. contradiction.
Qed.
Lemma SS_split t t' : t <= t' -> exists X, SS t' = apply_all (SS t) X.
Proof.
  intros L. destruct (firstn_le_split HH t t' L) as [X E]. exists X. unfold SS, St. now rewrite E, apply_all_app.
Qed.
Lemma exists_mono t t' k : t <= t' -> lookup k (f_days (SS t)) <> None -> lookup k (f_days (SS t')) <> None.
Proof. intros L N. destruct (SS_split t t' L) as [X ->]. now apply apply_all_keeps. Qed.

Lemma norec t1 t2 t3 k d1 d2 d3 : t1 <= t2 -> t2 <= t3 ->
  lookup k (f_days (SS t1)) = Some d1 -> lookup k (f_days (SS t2)) = Some d2 -> lookup k (f_days (SS t3)) = Some d3 ->
  d_suf d1 = d_suf d3 -> d_suf d2 = d_suf d1.
Proof.
  intros L1 L2 D1 D2 D3 E. rewrite (day_suf _ _ _ D1), (day_suf _ _ _ D2) in *. rewrite (day_suf _ _ _ D3) in E.
  apply (NR k _ _ (nff t3 k)); auto.
Qed.

(* the observations *)
Lemma obs_meta t g : observe (cal_of ws) (SS t) (QOpenMeta (gpath g)) =
  AMeta (match lookup (gk g) (f_days (SS t)) with
         | Some d => if otot_eqb (d_suf d) (gp g) then d_meta d else None
         | None => None end).
Proof.
  unfold observe, day_dir, day_at, gpath; cbn [dp_key dp_suf].
  destruct (lookup (gk g) (f_days (SS t))) as [d|]; auto. destruct (otot_eqb (d_suf d) (gp g)); auto.
Qed.
Lemma obs_col t k hp c : observe (cal_of ws) (SS t) (QOpenCol {| dp_key := k; dp_suf := hp |} c) =
  ACol (match lookup k (f_days (SS t)) with
        | Some d => if otot_eqb (d_suf d) hp then d_cols d c else None
        | None => None end).
Proof.
  unfold observe, day_dir, day_at; cbn [dp_key dp_suf].
  destruct (lookup k (f_days (SS t))) as [d|]; auto. destruct (otot_eqb (d_suf d) hp); auto.
Qed.
Lemma obs_month t k : exists l, observe (cal_of ws) (SS t) (month_of (cal_of ws) k) = ADays l /\
  find_day k l = option_map d_suf (lookup k (f_days (SS t))).
Proof.
  unfold month_of, observe. eexists. split; [reflexivity|].
  apply (find_day_flat (fun kd => N.eqb (fst (fst kd)) (fst k) &&
     ym_eqb (cal_get (cal_of ws) (snd (fst kd))) (fst (cal_get (cal_of ws) (snd k)), snd (cal_get (cal_of ws) (snd k))))).
  intros d. cbn. rewrite N.eqb_refl. unfold ym_eqb. cbn. now rewrite !Z.eqb_refl.
Qed.
Lemma obs_listing t i y m key suf l : observe (cal_of ws) (SS t) (QMonth i y m) = ADays l -> In (key, suf) l ->
  exists d, lookup key (f_days (SS t)) = Some d /\ d_suf d = suf.
Proof.
  unfold observe. intros E I. injection E as <-.
  apply in_flat_days in I as (d & I & -> & _). exists d. split; auto.
  apply in_lookup; auto. destruct (HG t) as [[S _] _]. exact S.
Qed.

(* ------------------------------------------------------------------ weakest preconditions over time *)
Variable good : result -> Prop.
Definition sufAt (t : nat) (k : dkey) : option (option totals) := option_map d_suf (lookup k (f_days (SS t))).
(* the path a GPDir holds was the name of its day at some earlier time *)
Definition Was (g : gdir) (t : nat) : Prop := exists tp, tp <= t /\ sufAt tp (gk g) = Some (gp g).
Definition Gone (g : gdir) (t : nat) : Prop :=
  exists tp ta, tp <= ta /\ ta <= t /\ sufAt tp (gk g) = Some (gp g) /\ sufAt ta (gk g) <> Some (gp g) /\ sufAt ta (gk g) <> None.
Definition Mk (t : nat) (k : dkey) : option meta :=
  match lookup k (f_days (SS t)) with
  | Some d => match d_meta d with Some (Some m) => Some m | _ => None end
  | None => None end.
Definition OpenPre (ph : ophase) (g : gdir) (t : nat) : Prop :=
  Was g t /\ Vis (gk g) t /\ match ph with OTry => True | ORec => Gone g t | OTry2 failed => gp g <> failed end.

(* the name hp was the name of day k at some earlier time *)
Definition WasN (k : dkey) (hp : option totals) (t : nat) : Prop := exists tp, tp <= t /\ sufAt tp k = Some hp.
Definition colAt (t : nat) (k : dkey) (c : nat) : option (list abyte) :=
  match lookup k (f_days (SS t)) with Some d => d_cols d c | None => None end.
(* some committed block of day k has data in column c: the column file exists from then on *)
Definition Live (k : dkey) (c : nat) (t : nat) : Prop :=
  exists t0 w, t0 <= t /\ In w (dl t0 k) /\ w_len w c <> 0 /\ c < ncols.
Definition ReadPre (ph : rphase) (g : gdir) (col : nat) (t : nat) : Prop :=
  Was g t /\ Vis (gk g) t /\ Live (gk g) col t /\
  match ph with RTry hp => WasN (gk g) hp t | RTry2 failed => gp g <> failed end.

Fixpoint wp (p : prog) (t : nat) : Prop :=
  match p with
  | Ret r => good r
  | Ask q k => forall t', t <= t' -> wp (k (observe (cal_of ws) (SS t') q)) t'
  | OpenM ph g k =>
    OpenPre ph g t /\
    forall t' g' m, t <= t' -> gk g' = gk g ->
      (exists t0, t <= t0 /\ t0 <= t' /\ Mk t0 (gk g) = Some m /\ sufAt t0 (gk g) = Some (gp g')) ->
      wp (k (Some (g', m))) t'
  | ReadC ph g m col k =>
    ReadPre ph g col t /\
    forall t' g' m' f, t <= t' -> gk g' = gk g -> Was g' t' ->
      (m' = m \/ exists tm, t <= tm /\ tm <= t' /\ Mk tm (gk g) = Some m') ->
      (exists tf, t <= tf /\ tf <= t' /\ colAt tf (gk g) col = Some f) ->
      wp (k (Some (g', m', f))) t'
  end.

Lemma Was_mono g t t' : t <= t' -> Was g t -> Was g t'.
Proof. intros L (tp & L1 & E). exists tp. split; [lia|auto]. Qed.

Lemma Vis_lookup t k : Vis k t -> lookup k (f_days (SS t)) <> None.
Proof. intros V. destruct (vis_day t k V) as (d & L & _). congruence. Qed.
Lemma norec_suf tp ta tb k x : tp <= ta -> ta <= tb -> sufAt tp k = Some x -> sufAt tb k = Some x ->
  sufAt ta k <> None -> sufAt ta k = Some x.
Proof.
  unfold sufAt. intros L1 L2 E1 E3 N2.
  destruct (lookup k (f_days (SS tp))) as [d1|] eqn:D1; [|discriminate].
  destruct (lookup k (f_days (SS ta))) as [d2|] eqn:D2; [|contradiction].
  destruct (lookup k (f_days (SS tb))) as [d3|] eqn:D3; [|discriminate].
  cbn in *. injection E1 as E1. injection E3 as E3. f_equal.
  rewrite (norec tp ta tb k d1 d2 d3); auto. congruence.
Qed.
Lemma Live_mono k c t t' : t <= t' -> Live k c t -> Live k c t'.
Proof. intros L (t0 & w & L0 & R). exists t0, w. split; [lia|auto]. Qed.
Lemma live_col k c t t' d : Live k c t -> t <= t' -> lookup k (f_days (SS t')) = Some d -> d_cols d c <> None.
Proof.
  intros (t0 & w & L0 & I & NZ & Hc) L Ld.
  destruct (dl_mono t0 t' k ltac:(lia)) as [r E].
  assert (I' : In w (dl t' k)) by (rewrite E; apply in_or_app; now left).
  assert (V : Vis k t') by (unfold Vis; destruct (dl t' k); [contradiction|discriminate]).
  destruct (vis_cols t' k V) as (d' & Ld' & CO & _). rewrite Ld in Ld'. injection Ld' as <-.
  apply in_split in I' as (pre & post & EP). specialize (CO pre w post EP c Hc).
  unfold read_col in CO. apply Nat.eqb_neq in NZ. rewrite NZ in CO. destruct (d_cols d c); [discriminate|discriminate].
Qed.

Lemma to_rec g k t t' : t <= t' -> Was g t -> Vis (gk g) t' ->
  (forall d, lookup (gk g) (f_days (SS t')) = Some d -> otot_eqb (d_suf d) (gp g) = false) ->
  (forall t2 g' m, t <= t2 -> gk g' = gk g ->
      (exists t0, t <= t0 /\ t0 <= t2 /\ Mk t0 (gk g) = Some m /\ sufAt t0 (gk g) = Some (gp g')) -> wp (k (Some (g', m))) t2) ->
  wp (OpenM ORec g k) t'.
Proof.
  intros L W V NE Post. cbn [wp]. split.
  - split; [eapply Was_mono; eauto|]. split; auto.
    destruct W as (tp & L1 & E). exists tp, t'. repeat split; auto; try lia.
    + destruct (vis_day t' _ V) as (d & Ld & _). unfold sufAt. rewrite Ld. cbn. intros [= E2].
      specialize (NE d Ld). rewrite E2, otot_eqb_refl in NE. discriminate.
    + destruct (vis_day t' _ V) as (d & Ld & _). unfold sufAt. rewrite Ld. discriminate.
  - intros t2 g' m L2 K (t0 & A1 & A2 & A3 & A4). apply Post; auto; try lia. exists t0. repeat split; auto; lia.
Qed.

Definition PostR (k : option (gdir * meta * list abyte) -> prog) (key : dkey) (col : nat) (te : nat) (m : meta) : Prop :=
  forall t' g' m' f, te <= t' -> gk g' = key -> Was g' t' ->
    (m' = m \/ exists tm, te <= tm /\ tm <= t' /\ Mk tm key = Some m') ->
    (exists tf, te <= tf /\ tf <= t' /\ colAt tf key col = Some f) ->
    wp (k (Some (g', m', f))) t'.

Lemma wp_reopen failed g col k m t te : te <= t -> Was g t -> Vis (gk g) t -> Live (gk g) col t ->
  WasN (gk g) failed t -> sufAt t (gk g) <> Some failed -> PostR k (gk g) col te m ->
  wp (reopen failed g col k) t.
Proof.
  intros Le W V LV (tp & Lp & Ep) NE Post. unfold reopen. cbn [wp]. split; [repeat split; auto|].
  intros t2 g' m' L2 K (t0 & A1 & A2 & A3 & A4). cbn [wp]. split.
  - split; [exists t0; split; [auto|now rewrite K]|]. split; [rewrite K; eapply Vis_mono; [|eauto]; lia|].
    split; [rewrite K; eapply Live_mono; [|eauto]; lia|].
    intros E. apply NE. apply (norec_suf tp t t0); auto.
    + now rewrite <- E.
    + unfold sufAt. destruct (lookup (gk g) (f_days (SS t))) eqn:Lk; [discriminate|]. now apply Vis_lookup in V.
  - intros t3 g'' m'' f L3 K2 W2 HM HF. rewrite K in *. apply Post; auto; try lia.
    + destruct HM as [->|(tm & B1 & B2 & B3)].
      * right. exists t0. repeat split; auto; lia.
      * right. exists tm. repeat split; auto; lia.
    + destruct HF as (tf & B1 & B2 & B3). exists tf. repeat split; auto; lia.
Qed.

Lemma wp_step p t t' : wp p t -> t <= t' ->
  match rstep (cal_of ws) (SS t') p with inl p' => wp p' t' | inr out => good out end.
Proof.
  intros W L. destruct p as [r|q k|ph g k|ph g m col k]; cbn [wp] in W.
  - exact W.
  - unfold rstep; cbn. now apply W.
  - destruct W as ((Ws & V & PH) & Post).
    pose proof (Vis_mono _ _ _ L V) as V'. destruct (vis_day t' _ V') as (d & Ld & Md).
    assert (OK : forall g0, gk g0 = gk g -> gp g0 = gp g -> otot_eqb (d_suf d) (gp g) = true ->
                 wp (k (Some (g0, meta_of (dl t' (gk g))))) t').
    { intros g0 K0 P0 EQ. apply Post; auto. exists t'. repeat split; auto.
      - unfold Mk. now rewrite Ld, Md.
      - unfold sufAt. rewrite Ld. cbn. apply otot_eqb_eq in EQ. now rewrite EQ, P0. }
    destruct ph as [| |failed]; unfold rstep; cbn [step_obs rstep_ans].
    + rewrite obs_meta, Ld. destruct (otot_eqb (d_suf d) (gp g)) eqn:EQ.
      * rewrite Md. apply OK; auto.
      * apply (to_rec g k t t'); auto. intros d0 Ld0. rewrite Ld in Ld0. now injection Ld0 as <-.
    + destruct (obs_month t' (gk g)) as (l & El & Fl). rewrite El, Fl, Ld. cbn [option_map].
      cbn [wp]. split.
      * split; [exists t'; split; auto; unfold sufAt; cbn [gk gp]; now rewrite Ld|]. split; [exact V'|].
        cbn [gp]. intros E.
        destruct PH as (tp & ta & L1 & L2 & E1 & E2 & E3).
        apply E2. apply (norec_suf tp ta t'); auto; try lia.
        unfold sufAt. rewrite Ld. cbn. now rewrite E.
      * intros t2 g' m0 L2 K (t0 & A1 & A2 & A3 & A4). apply Post; auto; try lia. exists t0. repeat split; auto; lia.
    + rewrite obs_meta, Ld. destruct (otot_eqb (d_suf d) (gp g)) eqn:EQ.
      * rewrite Md. apply OK; auto.
      * destruct (otot_eqb (gp g) failed) eqn:EF; [apply otot_eqb_eq in EF; contradiction|].
        apply (to_rec g k t t'); auto. intros d0 Ld0. rewrite Ld in Ld0. now injection Ld0 as <-.
  - destruct W as ((Ws & V & LV & PH) & Post).
    pose proof (Vis_mono _ _ _ L V) as V'. destruct (vis_day t' _ V') as (d & Ld & Md).
    pose proof (live_col _ _ _ _ _ LV L Ld) as DC.
    assert (OK : forall f, d_cols d col = Some f -> wp (k (Some (g, m, f))) t').
    { intros f Ef. apply Post; auto.
      - eapply Was_mono; eauto.
      - exists t'. repeat split; auto. unfold colAt. now rewrite Ld. }
    assert (RE : forall failed, WasN (gk g) failed t -> otot_eqb (d_suf d) failed = false -> wp (reopen failed g col k) t').
    { intros failed (tp & Lp & Ep) EQ. apply (wp_reopen failed g col k m t' t); auto.
      - eapply Was_mono; eauto.
      - eapply Live_mono; eauto.
      - exists tp. split; [lia|auto].
      - unfold sufAt. rewrite Ld. cbn. intros [= E]. rewrite E, otot_eqb_refl in EQ. discriminate. }
    destruct ph as [hp|failed]; unfold rstep; cbn [step_obs rstep_ans].
    + rewrite obs_col, Ld. destruct (otot_eqb (d_suf d) hp) eqn:EQ.
      * destruct (d_cols d col) as [f|] eqn:Ef; [|contradiction]. now apply OK.
      * now apply RE.
    + unfold gpath. rewrite obs_col, Ld. destruct (otot_eqb (d_suf d) (gp g)) eqn:EQ.
      * destruct (d_cols d col) as [f|] eqn:Ef; [|contradiction]. now apply OK.
      * destruct (otot_eqb (gp g) failed) eqn:EF; [apply otot_eqb_eq in EF; contradiction|].
        apply RE; auto.
Qed.

Theorem wp_sound_gen : forall s ops p out, conc (cal_of ws) s ops p out ->
  forall t, s = SS t -> ops = skipn t HH -> (exists t0, t0 <= t /\ wp p t0) -> good out.
Proof.
  induction 1 as [s o ops p out C IH | s ops p p' out R C IH | s ops p out R]; intros t Es Eo (t0 & L0 & W).
  - symmetry in Eo. destruct (skipn_cons_nth _ _ _ _ Eo) as (N & K & LT).
    apply (IH (S t)); auto.
    + subst s. symmetry. now apply St_S.
    + exists t0. split; [lia|auto].
  - pose proof (wp_step p t0 t W L0) as ST. subst s. rewrite R in ST. apply (IH t); auto. exists t. split; auto.
  - pose proof (wp_step p t0 t W L0) as ST. subst s. now rewrite R in ST.
Qed.
Corollary wp_sound p out : wp p 0 -> conc (cal_of ws) fs_empty HH p out -> good out.
Proof. intros W C. apply (wp_sound_gen _ _ _ _ C 0); auto. exists 0. split; auto. Qed.

(* ------------------------------------------------------------------ loops and the directory walk *)
Lemma wp_each {A S : Type} (Inv : S -> nat -> Prop) (body : A -> S -> (S -> prog) -> prog) (l : list A) :
  forall st k t,
  (forall x st t1 kk, t <= t1 -> In x l -> Inv st t1 ->
       (forall st' t', t1 <= t' -> Inv st' t' -> wp (kk st') t') -> wp (body x st kk) t1) ->
  Inv st t -> (forall st' t', t <= t' -> Inv st' t' -> wp (k st') t') -> wp (each l st body k) t.
Proof.
  induction l as [|x r IH]; intros st k t HB I HK; cbn [each].
  - apply HK; auto.
  - apply HB; [lia|now left|auto|]. intros st' t' L I'. apply IH; auto.
    + intros y st2 t2 kk L2 Iy. apply HB; [lia|now right].
    + intros st2 t2 L2 I2. apply HK; auto. lia.
Qed.

Lemma Mk_meta t k m : Mk t k = Some m -> m = meta_of (dl t k) /\ Vis k t.
Proof.
  unfold Mk. destruct (lookup k (f_days (SS t))) as [d|] eqn:Ld; [|discriminate].
  destruct (d_meta d) as [[m0|]|] eqn:Md; try discriminate. intros [= ->].
  assert (V : Vis k t) by (apply (day_vis t k d); auto; right; congruence).
  destruct (vis_day t k V) as (d' & Ld' & Md'). rewrite Ld in Ld'. injection Ld' as <-. split; auto. congruence.
Qed.
Lemma meta_nonempty t k : Vis k t -> is_nil (m_blocks (meta_of (dl t k))) = false.
Proof. intros V. rewrite meta_of_blocks. unfold Vis in V. destruct (dl t k); [contradiction|reflexivity]. Qed.

Lemma wp_walk {S : Type} (Inv : S -> nat -> Prop) i (fn : dkey -> option totals -> S -> (S -> prog) -> prog) :
  (forall st t t', t <= t' -> Inv st t -> Inv st t') ->
  (forall key suf st t1 kk, Inv st t1 -> Was {| gk := key; gp := suf |} t1 -> Vis key t1 ->
       (forall st' t', t1 <= t' -> Inv st' t' -> wp (kk st') t') -> wp (fn key suf st kk) t1) ->
  forall st k t, Inv st t -> (forall st' t', t <= t' -> Inv st' t' -> wp (k st') t') -> wp (walk i st fn k) t.
Proof.
  intros IM HF st k t I HK. unfold walk. cbn [wp]. intros t1 L1. cbn [observe].
  apply (wp_each Inv); [|eauto|intros; apply HK; auto; lia].
  intros y st1 t2 k1 L2 _ I1 HK1. cbn [wp]. intros t3 L3. cbn [observe].
  apply (wp_each Inv); [|eauto|intros; apply HK1; auto; lia].
  intros m st2 t4 k2 L4 _ I2 HK2. cbn [wp]. intros t5 L5. cbn [observe].
  apply (wp_each Inv); [|eauto|intros; apply HK2; auto; lia].
  intros [key suf] st3 t6 k3 L6 IN I3 HK3. cbn [fst snd].
  destruct (obs_listing t5 i y m key suf _ eq_refl IN) as (d5 & L5d & S5).
  assert (W5 : forall t', t5 <= t' -> Was {| gk := key; gp := suf |} t').
  { intros t' Lt. exists t5. split; auto. unfold sufAt. cbn [gk gp]. rewrite L5d. cbn. now rewrite S5. }
  destruct suf as [tt|].
  - apply HF; auto.
    apply (Vis_mono key t5); auto. apply (day_vis t5 key d5); auto. left. rewrite S5. discriminate.
  - cbn [wp]. intros t7 L7. cbn [observe]. unfold day_dir.
    destruct (day_at (SS t7) {| dp_key := key; dp_suf := None |}) as [d7|] eqn:D7.
    + destruct (d_meta d7) eqn:M7.
      * apply HF; eauto. { apply W5; lia. } { apply day_at_some in D7 as [L7d _]. apply (day_vis t7 key d7); auto. right. cbn in L7d. congruence. }
        intros; apply HK3; auto; lia.
      * cbn [wp]. intros t8 L8. cbn [observe]. unfold day_dir.
        destruct (day_at (SS t8) {| dp_key := key; dp_suf := None |}) as [d8|] eqn:D8.
        -- apply HK3; eauto; lia.
        -- apply HF; eauto. { apply W5; lia. }
           { assert (EX : lookup key (f_days (SS t8)) <> None) by (apply (exists_mono t5); [lia|congruence]).
             destruct (lookup key (f_days (SS t8))) as [d8|] eqn:L8d; [|contradiction].
             apply (day_vis t8 key d8); auto. left. intros E.
             unfold day_at in D8. cbn [dp_key dp_suf] in D8. rewrite L8d, E in D8. cbn in D8. discriminate. }
           intros; apply HK3; auto; lia.
    + cbn [wp]. intros t8 L8. cbn [observe]. unfold day_dir.
      destruct (day_at (SS t8) {| dp_key := key; dp_suf := None |}) as [d8|] eqn:D8.
      * apply HK3; eauto; lia.
      * apply HF; eauto. { apply W5; lia. }
        { assert (EX : lookup key (f_days (SS t8)) <> None) by (apply (exists_mono t5); [lia|congruence]).
          destruct (lookup key (f_days (SS t8))) as [d8|] eqn:L8d; [|contradiction].
          apply (day_vis t8 key d8); auto. left. intros E.
          unfold day_at in D8. cbn [dp_key dp_suf] in D8. rewrite L8d, E in D8. cbn in D8. discriminate. }
        intros; apply HK3; auto; lia.
Qed.

(* ------------------------------------------------------------------ ReadMetadata *)
Definition tot_ok (e : dkey * totals) : Prop := exists j, j <= length ws /\ snd e = spec_tot ws (fst e) j.
Hypothesis good_list : forall acc, Forall tot_ok acc -> good (Ok {| o_days := []; o_tots := acc; o_broken := 0 |}).

Lemma meta_tot_ok t k : Vis k t -> tot_ok (k, m_tot (meta_of (dl t k))).
Proof.
  intros V. exists (jf t). split; [apply Bj|]. cbn [fst snd]. rewrite meta_of_tot. symmetry. apply spec_tot_daylist. exact V.
Qed.
Lemma name_tot_ok key tt t : Was {| gk := key; gp := Some tt |} t -> tot_ok (key, tt).
Proof.
  intros (tp & _ & E). unfold sufAt in E. cbn [gk gp] in E.
  destruct (lookup key (f_days (SS tp))) as [d|] eqn:Ld; [|discriminate]. cbn in E. injection E as E.
  pose proof (day_suf tp key d Ld) as DS. rewrite E in DS.
  destruct (HG tp) as [_ B]. specialize (B key). fold (dl tp key) in B.
  assert (EF : firstn (nff tp key) (FL key) = firstn (nff tp key) (dl tp key)) by (apply prefix_firstn; [apply dl_FL|auto]).
  rewrite EF in DS.
  destruct (db_prefix_is_db ws key (jf tp) (nff tp key) B) as (j' & Lj & Ej).
  fold (AA tp) in Ej. fold (dl tp key) in Ej. rewrite <- Ej in DS.
  exists j'. split; [specialize (Bj tp); lia|]. cbn [fst snd].
  unfold sufx in DS. destruct (daylist (spec_db [] (firstn j' ws)) key) eqn:EL; [discriminate|].
  injection DS as ->. symmetry. rewrite <- EL. apply spec_tot_daylist. rewrite EL. discriminate.
Qed.

Definition LInv (st : list (dkey * totals) * option gdir * bool) (t : nat) : Prop :=
  Forall tot_ok (fst (fst st)) /\ match snd (fst st) with Some g => Was g t /\ Vis (gk g) t | None => True end.
Lemma LInv_mono st t t' : t <= t' -> LInv st t -> LInv st t'.
Proof.
  intros L [A B]. split; auto. destruct (snd (fst st)); auto. destruct B. split; [eapply Was_mono|eapply Vis_mono]; eauto.
Qed.

(* opening a visible directory and checking TimeRange never fails *)
Lemma wp_open_check g (kk : meta -> prog) t :
  Was g t -> Vis (gk g) t ->
  (forall t' m, t <= t' -> (exists t0, t <= t0 /\ t0 <= t' /\ m = meta_of (dl t0 (gk g)) /\ Vis (gk g) t0) -> wp (kk m) t') ->
  wp (OpenM OTry g (fun r => match r with
                            | None => Ret Err
                            | Some (_, m) => if is_nil (m_blocks m) then Ret Panic else kk m end)) t.
Proof.
  intros W V HK. cbn [wp]. split; [repeat split; auto|].
  intros t' g' m L K (t0 & A1 & A2 & A3 & A4). destruct (Mk_meta _ _ _ A3) as [-> V0].
  rewrite meta_nonempty by auto. apply HK; auto. exists t0. repeat split; auto.
Qed.

Lemma wp_list_iface i acc k t : Forall tot_ok acc ->
  (forall acc' t', t <= t' -> Forall tot_ok acc' -> wp (k acc') t') -> wp (list_iface i acc k) t.
Proof.
  intros AO HK. unfold list_iface.
  apply (wp_walk LInv); [intros; eapply LInv_mono; eauto| |split; cbn; auto|].
  - intros key suf [[acc0 lg] first] t1 kw [A0 _] W V HKW. cbn [fst snd] in A0.
    assert (FIN : forall tot (opened : option meta) t2, t1 <= t2 -> tot_ok (key, tot) ->
              (forall m, opened = Some m -> is_nil (m_blocks m) = false) ->
              wp (let acc' := acc0 ++ [(key, tot)] in
                  if first
                  then match opened with
                       | Some m => if is_nil (m_blocks m) then Ret Panic else kw (acc', Some {| gk := key; gp := suf |}, false)
                       | None => OpenM OTry {| gk := key; gp := suf |} (fun r => match r with
                                   | None => Ret Err
                                   | Some (_, m) => if is_nil (m_blocks m) then Ret Panic else kw (acc', Some {| gk := key; gp := suf |}, false)
                                   end)
                       end
                  else kw (acc', Some {| gk := key; gp := suf |}, false)) t2).
    { intros tot opened t2 L2 TO NN. cbv zeta.
      assert (KW : forall t3, t2 <= t3 -> wp (kw (acc0 ++ [(key, tot)], Some {| gk := key; gp := suf |}, false)) t3).
      { intros t3 L3. apply HKW; [lia|]. split; cbn [fst snd].
        - apply Forall_app; split; auto.
        - split; [eapply Was_mono; [|eauto]; lia | eapply Vis_mono; [|eauto]; lia]. }
      destruct first; [|apply KW; auto].
      destruct opened as [m|].
      - rewrite (NN m eq_refl). apply KW; auto.
      - apply (wp_open_check {| gk := key; gp := suf |} (fun _ => kw (acc0 ++ [(key, tot)], Some {| gk := key; gp := suf |}, false))).
        + eapply Was_mono; [|eauto]; lia.
        + eapply Vis_mono; [|eauto]; lia.
        + intros t' m L' _. apply KW; auto. }
    destruct suf as [tt|].
    + apply (FIN tt None t1); auto. { eapply name_tot_ok; eauto. } discriminate.
    + cbn [wp]. split; [repeat split; auto|].
      intros t' g' m L K (t0 & A1 & A2 & A3 & A4). destruct (Mk_meta _ _ _ A3) as [-> V0].
      apply (FIN _ (Some (meta_of (dl t0 key))) t'); auto.
      * now apply meta_tot_ok.
      * intros m [= <-]. now apply meta_nonempty.
  - intros [[acc1 lg] first] t' L [A1 B1]. cbn [fst snd] in *.
    destruct lg as [g|].
    + destruct B1 as [W V]. apply (wp_open_check g (fun _ => k acc1)); auto.
      intros t2 m L2 _. apply HK; auto. lia.
    + apply HK; auto.
Qed.

Theorem wp_reader_list : wp (reader_prog false) 0.
Proof.
  unfold reader_prog. cbn [wp]. intros t L. cbn [observe].
  apply (wp_each (fun acc _ => Forall tot_ok acc)); auto.
  - intros i acc t1 kk _ _ A HK. apply wp_list_iface; auto.
  - intros acc t' _ A. cbn [wp]. now apply good_list.
Qed.
(* ------------------------------------------------------------------ the query: reading one column block *)
Definition dflt_mb : mblock := {| mb_ts := 0; mb_lens := [] |}.
Lemma blk_len_at k T0 tm pre x post c : dl T0 k = pre ++ x :: post -> T0 <= tm -> c < ncols ->
  nth c (mb_lens (nth (length pre) (m_blocks (meta_of (dl tm k))) dflt_mb)) 0 = w_len x c.
Proof.
  intros E L Hc. destruct (dl_mono T0 tm k L) as [r Er]. rewrite Er, E, <- app_assoc, <- app_comm_cons.
  rewrite meta_of_blocks, nth_mid. now apply mbw_len.
Qed.
Lemma blk_off_at k T0 tm pre x post c : dl T0 k = pre ++ x :: post -> T0 <= tm ->
  offs_upto c (firstn (length pre) (m_blocks (meta_of (dl tm k)))) = clen c pre.
Proof.
  intros E L. destruct (dl_mono T0 tm k L) as [r Er]. rewrite Er, E, <- app_assoc.
  rewrite meta_of_blocks, firstn_mid. reflexivity.
Qed.
Lemma snap_read k T0 tf pre x post c f : dl T0 k = pre ++ x :: post -> T0 <= tf -> c < ncols -> w_len x c <> 0 ->
  colAt tf k c = Some f -> slice f (clen c pre) (w_len x c) = Some (blk x c).
Proof.
  intros E L Hc NZ CA. unfold colAt in CA. destruct (lookup k (f_days (SS tf))) as [d|] eqn:Ld; [|discriminate].
  destruct (dl_mono T0 tf k L) as [r Er].
  assert (V : Vis k tf) by (unfold Vis; rewrite Er, E; destruct pre; discriminate).
  destruct (vis_cols tf k V) as (d' & Ld' & CO & _). rewrite Ld in Ld'. injection Ld' as <-.
  rewrite <- (read_col_slice d c f) by auto. apply (CO pre x (post ++ r)); auto.
  rewrite Er, E, <- app_assoc. reflexivity.
Qed.

Definition WOK (k : dkey) (T0 : nat) (w : wdir) (t : nat) : Prop :=
  wd_open w = true /\ gk (wd_g w) = k /\ Was (wd_g w) t /\
  (exists tm, T0 <= tm /\ tm <= t /\ wd_m w = meta_of (dl tm k)) /\
  (forall c hp, col_get c (wd_cols w) = Some (hp, None) -> WasN k hp t) /\
  (forall c hp f, col_get c (wd_cols w) = Some (hp, Some f) -> exists tf, T0 <= tf /\ tf <= t /\ colAt tf k c = Some f).
Lemma WasN_mono k hp t t' : t <= t' -> WasN k hp t -> WasN k hp t'.
Proof. intros L (tp & L1 & E). exists tp. split; [lia|auto]. Qed.
Lemma WOK_mono k T0 w t t' : t <= t' -> WOK k T0 w t -> WOK k T0 w t'.
Proof.
  intros L (A1 & A2 & A3 & (tm & B1 & B2 & B3) & A5 & A6). repeat split; auto.
  - eapply Was_mono; eauto.
  - exists tm. repeat split; auto; lia.
  - intros c hp E. eapply WasN_mono; eauto.
  - intros c hp f E. destruct (A6 c hp f E) as (tf & C1 & C2 & C3). exists tf. repeat split; auto; lia.
Qed.

Lemma wp_read_block k T0 pre x post w c (kk : wdir -> option (list abyte) -> prog) t :
  dl T0 k = pre ++ x :: post -> T0 <= t -> c < ncols -> WOK k T0 w t ->
  (forall w' t', t <= t' -> WOK k T0 w' t' -> wp (kk w' (Some (blk x c))) t') ->
  wp (read_block w (length pre) c kk) t.
Proof.
  intros E LT Hc (O & K & W & (tm & B1 & B2 & B3) & HN & HS) HK.
  assert (WK : WOK k T0 w t) by (repeat split; auto; exists tm; auto).
  assert (V0 : Vis k T0) by (unfold Vis; rewrite E; destruct pre; discriminate).
  unfold read_block. rewrite O. cbn [negb]. cbv zeta. fold dflt_mb.
  rewrite B3, (blk_len_at k T0 tm pre x post c E B1 Hc).
  destruct (Nat.eqb (w_len x c) 0) eqn:Z.
  - (* empty column block: the handle is created, the file is not opened *)
    apply Nat.eqb_eq in Z. replace (Some []) with (Some (blk x c)) by (unfold blk; now rewrite Z).
    apply HK; auto. destruct (col_get c (wd_cols w)) as [h|] eqn:CG; [exact WK|].
    repeat split; auto; cbn [wd_cols wd_g wd_m].
    + exists tm; auto.
    + intros c' hp. cbn [col_get]. destruct (Nat.eqb c' c); [|apply HN].
      intros [= <-]. rewrite <- K. exact W.
    + intros c' hp f. cbn [col_get]. destruct (Nat.eqb c' c); [discriminate|apply HS].
  - apply Nat.eqb_neq in Z.
    assert (RD : forall hp, WasN k hp t ->
      wp (ReadC (RTry hp) (wd_g w) (meta_of (dl tm k)) c (fun r => match r with
             | None => kk {| wd_g := wd_g w; wd_m := meta_of (dl tm k); wd_cols := []; wd_open := false |} None
             | Some (g', m', f) =>
               kk {| wd_g := g'; wd_m := m'; wd_cols := (c, (gp g', Some f)) :: wd_cols w; wd_open := true |}
                 (slice f (offs_upto c (firstn (length pre) (m_blocks m')))
                          (nth c (mb_lens (nth (length pre) (m_blocks m') dflt_mb)) 0))
             end)) t).
    { intros hp WN. cbn [wp]. split.
      - repeat split; auto; rewrite K; auto.
        + eapply Vis_mono; [|exact V0]; auto.
        + exists tm, x. repeat split; auto. destruct (dl_mono T0 tm k B1) as [r ->]. rewrite E.
          apply in_or_app. left. apply in_or_app. right. now left.
      - intros t' g' m' f L K' W' HM HF. rewrite K in *.
        assert (MM : exists tm', T0 <= tm' /\ tm' <= t' /\ m' = meta_of (dl tm' k)).
        { destruct HM as [->|(tm' & C1 & C2 & C3)]; [exists tm; repeat split; auto; lia|].
          destruct (Mk_meta _ _ _ C3) as [-> _]. exists tm'. repeat split; auto; lia. }
        destruct MM as (tm' & C1 & C2 & ->). destruct HF as (tf & D1 & D2 & D3).
        rewrite (blk_len_at k T0 tm' pre x post c E C1 Hc), (blk_off_at k T0 tm' pre x post c E C1).
        rewrite (snap_read k T0 tf pre x post c f E ltac:(lia) Hc Z D3).
        apply HK; auto. repeat split; auto; cbn [wd_cols wd_g wd_m].
        + exists tm'. repeat split; auto.
        + intros c' hp'. cbn [col_get]. destruct (Nat.eqb c' c); [discriminate|].
          intros E'. eapply WasN_mono; [|eapply HN; eauto]; auto.
        + intros c' hp' f'. cbn [col_get]. destruct (Nat.eqb c' c) eqn:EC.
          * intros [= <- <-]. apply Nat.eqb_eq in EC. subst c'. exists tf. repeat split; auto; lia.
          * intros E'. destruct (HS c' hp' f' E') as (tf' & F1 & F2 & F3). exists tf'. repeat split; auto; lia. }
    destruct (col_get c (wd_cols w)) as [[hp [f|]]|] eqn:CG.
    + destruct (HS c hp f CG) as (tf & F1 & F2 & F3).
      rewrite (blk_off_at k T0 tm pre x post c E B1), (snap_read k T0 tf pre x post c f E F1 Hc Z F3).
      apply HK; auto.
    + apply RD. eapply HN; eauto.
    + apply RD. rewrite <- K. exact W.
Qed.
(* ------------------------------------------------------------------ the query: the loops of readBlocksAndEvaluate *)
Definition col_body (i : nat) :=
  fun (c : nat) (st2 : wdir * list (list abyte) * bool) (kc : wdir * list (list abyte) * bool -> prog) =>
    let '(w2, datas, good) := st2 in
    if good then read_block w2 i c (fun w3 r => match r with
                                                | Some d => kc (w3, datas ++ [d], true)
                                                | None => kc (w3, datas, false) end)
    else kc st2.
Definition col_fin (ib : nat * mblock) (out : list (Z * nat)) (broken : nat) (kb : wdir * list (Z * nat) * nat -> prog) :=
  fun (st2 : wdir * list (list abyte) * bool) =>
    let '(w2, datas, good) := st2 in
    if negb good then kb (w2, out, S broken)
    else if Nat.eqb (nth 0 (mb_lens (snd ib)) 0) 0 then kb (w2, out, broken)
    else match decode_block datas (mb_lens (snd ib)) with
         | Some id => kb (w2, out ++ [(mb_ts (snd ib), id)], broken)
         | None => kb (w2, out ++ [(mb_ts (snd ib), 999)], broken)
         end.
Definition blk_body (tcov : Z) :=
  fun (ib : nat * mblock) (st : wdir * list (Z * nat) * nat) (kb : wdir * list (Z * nat) * nat -> prog) =>
    let '(w, out, broken) := st in
    if Z.ltb tcov (mb_ts (snd ib)) then kb st
    else each cols (w, ([] : list (list abyte)), true) (col_body (fst ib)) (col_fin ib out broken kb).
Lemma work_dir_eq tcov g acc k : work_dir tcov g acc k =
  OpenM OTry g (fun r => match r with
  | None => Ret Err
  | Some (g', m) =>
    each (combine (seq 0 (length (m_blocks m))) (m_blocks m))
         ({| wd_g := g'; wd_m := m; wd_cols := []; wd_open := true |}, ([] : list (Z * nat)), snd acc)
         (blk_body tcov)
         (fun st => let '(_, out, broken) := st in k (fst acc ++ [(gk g, out)], broken))
  end).
Proof. reflexivity. Qed.

Lemma wp_cols_loop k T0 pre x post kfin : dl T0 k = pre ++ x :: post ->
  forall cpost cpre, (forall c, In c cpost -> c < ncols) ->
  forall w t, T0 <= t -> WOK k T0 w t ->
  (forall w' t', t <= t' -> WOK k T0 w' t' -> wp (kfin (w', map (blk x) (cpre ++ cpost), true)) t') ->
  wp (each cpost (w, map (blk x) cpre, true) (col_body (length pre)) kfin) t.
Proof.
  intros E. induction cpost as [|c cpost IH]; intros cpre HC w t LT WK HK; cbn [each].
  - rewrite app_nil_r in HK. apply HK; auto.
  - unfold col_body at 1. cbv beta iota.
    apply (wp_read_block k T0 pre x post w c _ t E LT (HC c (or_introl eq_refl)) WK).
    intros w' t' L' WK'. replace (map (blk x) cpre ++ [blk x c]) with (map (blk x) (cpre ++ [c])) by (now rewrite map_app).
    apply IH; auto; try lia.
    + intros c' I. apply HC. now right.
    + intros w2 t2 L2 WK2. rewrite <- app_assoc. apply HK; auto. lia.
Qed.

Lemma wp_blocks_loop k T0 tcov kfin : Vis k T0 ->
  forall post pre, dl T0 k = pre ++ post ->
  forall w broken t, T0 <= t -> WOK k T0 w t ->
  (forall w' t', t <= t' -> wp (kfin (w', outspec tcov (pre ++ post), broken)) t') ->
  wp (each (combine (seq (length pre) (length post)) (map mbw post)) (w, outspec tcov pre, broken) (blk_body tcov) kfin) t.
Proof.
  intros V0. destruct (vis_cols T0 k V0) as (d0 & _ & _ & WF).
  induction post as [|x post IH]; intros pre E w broken t LT WK HK.
  - cbn. rewrite app_nil_r in HK. apply HK; auto.
  - cbn [length seq map combine each].
    assert (WFx : wf_w x). { rewrite Forall_forall in WF. apply WF. rewrite E. apply in_or_app. right. now left. }
    assert (NEXT : forall w' t', t <= t' -> WOK k T0 w' t' ->
              wp (each (combine (seq (S (length pre)) (length post)) (map mbw post)) (w', outspec tcov (pre ++ [x]), broken)
                       (blk_body tcov) kfin) t').
    { intros w' t' L' WK'. replace (S (length pre)) with (length (pre ++ [x])) by (rewrite app_length; cbn; lia).
      apply IH; auto; try lia.
      - rewrite <- app_assoc. exact E.
      - intros w2 t2 L2. rewrite <- app_assoc. apply HK. lia. }
    unfold blk_body at 1. cbv beta iota. cbn [snd fst mbw mb_ts].
    destruct (Z.ltb tcov (w_ts x)) eqn:ET.
    + pose proof (NEXT w t (le_n _) WK) as N. rewrite outspec_snoc, ET, app_nil_r in N. exact N.
    + apply (wp_cols_loop k T0 pre x post _ E cols []); auto.
      * intros c. apply in_cols.
      * intros w' t' L' WK'. cbn [app]. unfold col_fin. cbv beta iota. cbn [negb snd].
        change (mb_lens {| mb_ts := w_ts x; mb_lens := map (w_len x) cols |}) with (mb_lens (mbw x)).
        rewrite mbw_len by (unfold ncols; lia).
        pose proof (NEXT w' t' L' WK') as N. rewrite outspec_snoc, ET in N.
        destruct (Nat.eqb (w_len x 0) 0).
        -- rewrite app_nil_r in N. exact N.
        -- rewrite decode_ok by auto. exact N.
Qed.
(* ------------------------------------------------------------------ the query of an interface, of all interfaces *)
Definition day_ok (e : dkey * list (Z * nat)) : Prop := exists j, j <= length ws /\ snd e = spec_blocks ws (fst e) j.
Definition QOK (acc : list (dkey * list (Z * nat)) * nat) : Prop := Forall day_ok (fst acc) /\ snd acc = 0.
(* the block timestamps of a day increase strictly (DBWriter rejects any other block) *)
Hypothesis TS : forall k, ts_sorted (FL k).
Hypothesis good_query : forall acc, QOK acc -> good (Ok {| o_days := fst acc; o_tots := []; o_broken := snd acc |}).

Lemma outspec_ok tcov t k : day_ok (k, outspec tcov (dl t k)).
Proof.
  assert (SO : ts_sorted (dl t k)) by (eapply sorted_prefix; [apply dl_FL|apply TS]).
  destruct (filter_ts_prefix tcov _ SO) as [n En].
  assert (EN : exists n', n' <= length (dl t k) /\ firstn n (dl t k) = firstn n' (dl t k)).
  { destruct (Nat.le_gt_cases n (length (dl t k))); [eauto|].
    exists (length (dl t k)). split; auto. now rewrite firstn_all, firstn_all2 by lia. }
  destruct EN as (n' & Ln & E2).
  destruct (db_prefix_is_db ws k (jf t) n' Ln) as (j' & Lj & Ej).
  exists j'. split; [specialize (Bj t); lia|]. cbn [fst snd].
  rewrite spec_blocks_daylist, Ej. unfold outspec. rewrite En, E2. reflexivity.
Qed.

Lemma wp_work_dir tcov g acc kk t : Was g t -> Vis (gk g) t -> QOK acc ->
  (forall acc' t', t <= t' -> QOK acc' -> wp (kk acc') t') -> wp (work_dir tcov g acc kk) t.
Proof.
  intros W V [QA QB] HK. rewrite work_dir_eq. cbn [wp]. split; [repeat split; auto|].
  intros t' g' m L K (t0 & A1 & A2 & A3 & A4). destruct (Mk_meta _ _ _ A3) as [-> V0].
  rewrite meta_of_blocks, map_length.
  apply (wp_blocks_loop (gk g) t0 tcov _ V0 (dl t0 (gk g)) []); auto.
  - repeat split; auto; cbn [wd_g wd_m wd_cols wd_open].
    + exists t0. split; [auto|]. now rewrite K.
    + exists t0. repeat split; auto.
    + intros c hp; discriminate.
    + intros c hp f; discriminate.
  - intros w' t2 L2. cbn [app]. apply HK; [lia|]. split; cbn [fst snd]; auto.
    apply Forall_app; split; auto. constructor; auto. apply outspec_ok.
Qed.

Lemma in_set_last {A} (l : list A) y x : In x (set_last l y) -> In x l \/ x = y.
Proof.
  induction l as [|a l IH]; cbn; [tauto|]. destruct l as [|b l]; cbn in *.
  - intros [<-|[]]. now right.
  - intros [<-|I]; [left; now left|]. destruct (IH I) as [H|H]; [left; now right|now right].
Qed.

Definition DInv (dirs : list gdir) (t : nat) : Prop := Forall (fun g => Was g t /\ Vis (gk g) t) dirs.
Lemma DInv_mono dirs t t' : t <= t' -> DInv dirs t -> DInv dirs t'.
Proof.
  intros L. apply Forall_impl. intros g [W V]. split; [eapply Was_mono|eapply Vis_mono]; eauto.
Qed.

Lemma wp_query_iface i acc k t : QOK acc ->
  (forall acc' t', t <= t' -> QOK acc' -> wp (k acc') t') -> wp (query_iface i acc k) t.
Proof.
  intros Q HK. unfold query_iface.
  apply (wp_walk DInv); [intros; eapply DInv_mono; eauto| |constructor|].
  - intros key suf dirs t1 kw I W V HKW. cbv beta zeta.
    destruct dirs as [|g0 r]; cbn [is_nil].
    + cbn [wp]. split; [repeat split; auto|].
      intros t' g' m L K (t0 & A1 & A2 & A3 & A4). destruct (Mk_meta _ _ _ A3) as [-> V0].
      rewrite meta_nonempty by auto. apply HKW; auto. constructor; [|constructor].
      cbn [gk] in *. split; [exists t0; split; [auto|now rewrite K]|rewrite K; eapply Vis_mono; [|eauto]; auto].
    + apply HKW; auto. apply Forall_app. split; auto.
  - intros dirs t' L I. destruct (rev dirs) as [|gl rest] eqn:ER; [apply HK; auto|].
    assert (IG : In gl dirs) by (apply in_rev; rewrite ER; now left).
    unfold DInv in I. rewrite Forall_forall in I. destruct (I gl IG) as [W V].
    cbn [wp]. split; [repeat split; auto|].
    intros t2 g' m L2 K (t0 & A1 & A2 & A3 & A4). destruct (Mk_meta _ _ _ A3) as [-> V0].
    rewrite meta_nonempty by auto.
    apply (wp_each (fun a (_ : nat) => QOK a)); auto.
    + intros g acc1 t3 kk L3 IN Q1 HK3. apply wp_work_dir; auto.
      * destruct (in_set_last _ _ _ IN) as [I0| ->].
        -- destruct (I g I0) as [W0 _]. eapply Was_mono; [|eauto]; lia.
        -- exists t0. split; [lia|now rewrite K].
      * destruct (in_set_last _ _ _ IN) as [I0| ->].
        -- destruct (I g I0) as [_ V1]. eapply Vis_mono; [|eauto]; lia.
        -- rewrite K. eapply Vis_mono; [|eauto]; lia.
    + intros acc' t3 L3 Q3. apply HK; auto. lia.
Qed.

Theorem wp_reader_query : wp (reader_prog true) 0.
Proof.
  unfold reader_prog. cbn [wp]. intros t L. cbn [observe].
  apply (wp_each (fun a (_ : nat) => QOK a)).
  - intros i acc t1 kk _ _ A HK. apply wp_query_iface; auto.
  - split; [constructor|reflexivity].
  - intros acc t' _ A. cbn [wp]. now apply good_query.
Qed.
End Env.
