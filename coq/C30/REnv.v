(* C30 proofs, reader side (1): what the reader can rely on at every time t (number of writer operations
   performed so far), derived from the writer invariant. *)
From Coq Require Import List ZArith NArith Bool Arith Lia.
From GoProbe.Base Require Import CorrLib.
From GoProbe.C04 Require Import Model.
From GoProbe.C30 Require Import C04P1 C04P2 C04P3 C04P4 C04P5.
From GoProbe.C30 Require Import Model Corr Proofs WInv WInv2 WInv3 WInv4 RSpec.
Import ListNotations.

Lemma in_lookup {A} (l : list (dkey * A)) k v : ksorted l -> In (k, v) l -> lookup k l = Some v.
Proof.
  induction 1 as [|k2 v2 r F S IH]; intros I; [contradiction|]. cbn.
  destruct I as [E|I].
  - injection E as -> ->. now rewrite keqb_refl.
  - rewrite Forall_forall in F. specialize (F _ I). cbn in F. apply kltb_neq in F. rewrite keqb_sym, F. auto.
Qed.

Lemma find_day_flat (F : dkey * dayfs -> bool) k days : (forall d, F (k, d) = true) ->
  find_day k (flat_map (fun kd => if F kd then [(fst kd, d_suf (snd kd))] else []) days) = option_map d_suf (lookup k days).
Proof.
  intros HF. unfold find_day. induction days as [|[k' d'] r IH]; cbn; auto.
  destruct (keqb k k') eqn:E.
  - apply keqb_eq in E; subst k'. rewrite HF. cbn. now rewrite keqb_refl.
  - destruct (F (k', d')); cbn; [rewrite E|]; exact IH.
Qed.

Lemma in_flat_days (F : dkey * dayfs -> bool) key suf days :
  In (key, suf) (flat_map (fun kd => if F kd then [(fst kd, d_suf (snd kd))] else []) days) ->
  exists d, In (key, d) days /\ suf = d_suf d /\ F (key, d) = true.
Proof.
  intros I. apply in_flat_map in I as ([k d] & I1 & I2). destruct (F (k, d)) eqn:E; [|contradiction].
  destruct I2 as [E2|[]]. cbn in E2. injection E2 as E3 E4. subst. eauto.
Qed.

Section Env.
Variable ws : list writeout.
Variables (jf : nat -> nat) (nff : nat -> dkey -> nat).
Definition HH := hist_ops fs_empty ws.
Definition SS (t : nat) : fs := St fs_empty HH t.
Definition AA (t : nat) : adb := spec_db [] (firstn (jf t) ws).
Definition FL (k : dkey) : list writeout := daylist (spec_db [] ws) k.
Definition dl (t : nat) (k : dkey) : list writeout := daylist (AA t) k.
Definition Vis (k : dkey) (t : nat) : Prop := dl t k <> [].

Hypothesis Mj : forall t t', t <= t' -> jf t <= jf t'.
Hypothesis Bj : forall t, jf t <= length ws.
Hypothesis Mn : forall t t' k, t <= t' -> nff t k <= nff t' k.
Hypothesis HG : forall t, GoodS (SS t) (AA t) (nff t) /\ bounded (AA t) (nff t).
(* the totals of a day never return to an earlier value (they only grow unless a 64-bit counter wraps) *)
Hypothesis NR : forall k n1 n2 n3, n1 <= n2 -> n2 <= n3 ->
  sufx (firstn n1 (FL k)) = sufx (firstn n3 (FL k)) -> sufx (firstn n2 (FL k)) = sufx (firstn n1 (FL k)).

Lemma dl_mono t t' k : t <= t' -> prefix_of (dl t k) (dl t' k).
Proof. intros L. apply db_prefix. now apply Mj. Qed.
Lemma dl_FL t k : prefix_of (dl t k) (FL k).
Proof. unfold dl, AA, FL. rewrite <- (firstn_all ws) at 2. apply db_prefix. apply Bj. Qed.
Lemma Vis_mono k t t' : t <= t' -> Vis k t -> Vis k t'.
Proof. intros L V. destruct (dl_mono t t' k L) as [r E]. unfold Vis in *. rewrite E. destruct (dl t k); [contradiction|discriminate]. Qed.

Lemma day_suf t k d : lookup k (f_days (SS t)) = Some d -> d_suf d = sufx (firstn (nff t k) (FL k)).
Proof.
  intros L. destruct (HG t) as [[_ G] B]. specialize (G k). specialize (B k). rewrite L in G.
  fold (dl t k) in B. unfold GoodD in G. unfold dl, daylist in B.
  destruct (lookup k (AA t)) as [bl|] eqn:La.
  - destruct G as (_ & _ & Ln & HS). rewrite HS. f_equal. symmetry. apply prefix_firstn; auto.
    pose proof (dl_FL t k) as P. unfold dl, daylist in P. now rewrite La in P.
  - destruct G as [_ HS]. cbn in B. replace (nff t k) with 0 by lia. exact HS.
Qed.
Lemma vis_day t k : Vis k t -> exists d, lookup k (f_days (SS t)) = Some d /\ d_meta d = Some (Some (meta_of (dl t k))).
Proof.
  intros V. destruct (HG t) as [[_ G] _]. specialize (G k). unfold Vis, dl, daylist in *.
  destruct (lookup k (f_days (SS t))) as [d|].
  - exists d. split; auto. destruct (lookup k (AA t)); [|contradiction]. now destruct G as (_ & HM & _).
  - rewrite G in V. contradiction.
Qed.
Lemma day_vis t k d : lookup k (f_days (SS t)) = Some d -> d_suf d <> None \/ d_meta d <> None -> Vis k t.
Proof.
  intros L N. destruct (HG t) as [[_ G] _]. specialize (G k). rewrite L in G. unfold Vis, dl, daylist.
  destruct (lookup k (AA t)).
  - now destruct G.
  - destruct G as [E1 E2]. destruct N; congruence.
Qed.
Lemma SS_split t t' : t <= t' -> exists X, SS t' = apply_all (SS t) X.
Proof.
  intros L. destruct (firstn_le_split HH t t' L) as [X E]. exists X. unfold SS, St. now rewrite E, apply_all_app.
Qed.
Lemma exists_mono t t' k : t <= t' -> lookup k (f_days (SS t)) <> None -> lookup k (f_days (SS t')) <> None.
Proof. intros L N. destruct (SS_split t t' L) as [X ->]. now apply apply_all_keeps. Qed.

Lemma norec t1 t2 t3 k d1 d2 d3 : t1 <= t2 -> t2 <= t3 ->
  lookup k (f_days (SS t1)) = Some d1 -> lookup k (f_days (SS t2)) = Some d2 -> lookup k (f_days (SS t3)) = Some d3 ->
  d_suf d1 = d_suf d3 -> d_suf d2 = d_suf d1.
Proof.
  intros L1 L2 D1 D2 D3 E. rewrite (day_suf _ _ _ D1), (day_suf _ _ _ D2) in *. rewrite (day_suf _ _ _ D3) in E.
  apply (NR k _ _ (nff t3 k)); auto.
Qed.

(* the observations *)
Lemma obs_meta t g : observe (cal_of ws) (SS t) (QOpenMeta (gpath g)) =
  AMeta (match lookup (gk g) (f_days (SS t)) with
         | Some d => if otot_eqb (d_suf d) (gp g) then d_meta d else None
         | None => None end).
Proof.
  unfold observe, day_dir, day_at, gpath; cbn [dp_key dp_suf].
  destruct (lookup (gk g) (f_days (SS t))) as [d|]; auto. destruct (otot_eqb (d_suf d) (gp g)); auto.
Qed.
Lemma obs_month t k : exists l, observe (cal_of ws) (SS t) (month_of (cal_of ws) k) = ADays l /\
  find_day k l = option_map d_suf (lookup k (f_days (SS t))).
Proof.
  unfold month_of, observe. eexists. split; [reflexivity|].
  apply (find_day_flat (fun kd => N.eqb (fst (fst kd)) (fst k) &&
     ym_eqb (cal_get (cal_of ws) (snd (fst kd))) (fst (cal_get (cal_of ws) (snd k)), snd (cal_get (cal_of ws) (snd k))))).
  intros d. cbn. rewrite N.eqb_refl. unfold ym_eqb. cbn. now rewrite !Z.eqb_refl.
Qed.
Lemma obs_listing t i y m key suf l : observe (cal_of ws) (SS t) (QMonth i y m) = ADays l -> In (key, suf) l ->
  exists d, lookup key (f_days (SS t)) = Some d /\ d_suf d = suf.
Proof.
  unfold observe. intros E I. injection E as <-.
  apply in_flat_days in I as (d & I & -> & _). exists d. split; auto.
  apply in_lookup; auto. destruct (HG t) as [[S _] _]. exact S.
Qed.

(* ------------------------------------------------------------------ weakest preconditions over time *)
Variable good : result -> Prop.
Definition sufAt (t : nat) (k : dkey) : option (option totals) := option_map d_suf (lookup k (f_days (SS t))).
(* the path a GPDir holds was the name of its day at some earlier time *)
Definition Was (g : gdir) (t : nat) : Prop := exists tp, tp <= t /\ sufAt tp (gk g) = Some (gp g).
Definition Gone (g : gdir) (t : nat) : Prop :=
  exists tp ta, tp <= ta /\ ta <= t /\ sufAt tp (gk g) = Some (gp g) /\ sufAt ta (gk g) <> Some (gp g) /\ sufAt ta (gk g) <> None.
Definition Mk (t : nat) (k : dkey) : option meta :=
  match lookup k (f_days (SS t)) with
  | Some d => match d_meta d with Some (Some m) => Some m | _ => None end
  | None => None end.
Definition OpenPre (ph : ophase) (g : gdir) (t : nat) : Prop :=
  Was g t /\ Vis (gk g) t /\ match ph with OTry => True | ORec => Gone g t | OTry2 failed => gp g <> failed end.

Fixpoint wp (p : prog) (t : nat) : Prop :=
  match p with
  | Ret r => good r
  | Ask q k => forall t', t <= t' -> wp (k (observe (cal_of ws) (SS t') q)) t'
  | OpenM ph g k =>
    OpenPre ph g t /\
    forall t' g' m, t <= t' -> gk g' = gk g -> Was g' t' ->
      (exists t0, t <= t0 /\ t0 <= t' /\ Mk t0 (gk g) = Some m) -> wp (k (Some (g', m))) t'
  | ReadC _ _ _ _ _ => False
  end.

Lemma Was_mono g t t' : t <= t' -> Was g t -> Was g t'.
Proof. intros L (tp & L1 & E). exists tp. split; [lia|auto]. Qed.

Lemma to_rec g k t t' : t <= t' -> Was g t -> Vis (gk g) t' ->
  (forall d, lookup (gk g) (f_days (SS t')) = Some d -> otot_eqb (d_suf d) (gp g) = false) ->
  (forall t2 g' m, t <= t2 -> gk g' = gk g -> Was g' t2 ->
      (exists t0, t <= t0 /\ t0 <= t2 /\ Mk t0 (gk g) = Some m) -> wp (k (Some (g', m))) t2) ->
  wp (OpenM ORec g k) t'.
Proof.
  intros L W V NE Post. cbn [wp]. split.
  - split; [eapply Was_mono; eauto|]. split; auto.
    destruct W as (tp & L1 & E). exists tp, t'. repeat split; auto; try lia.
    + destruct (vis_day t' _ V) as (d & Ld & _). unfold sufAt. rewrite Ld. cbn. intros [= E2].
      specialize (NE d Ld). rewrite E2, otot_eqb_refl in NE. discriminate.
    + destruct (vis_day t' _ V) as (d & Ld & _). unfold sufAt. rewrite Ld. discriminate.
  - intros t2 g' m L2 K W' (t0 & A1 & A2 & A3). apply Post; auto; try lia. exists t0. repeat split; auto; lia.
Qed.

Lemma wp_step p t t' : wp p t -> t <= t' ->
  match rstep (cal_of ws) (SS t') p with inl p' => wp p' t' | inr out => good out end.
Proof.
  intros W L. destruct p as [r|q k|ph g k|ph g m col k]; cbn [wp] in W.
  - exact W.
  - unfold rstep; cbn. now apply W.
  - destruct W as ((Ws & V & PH) & Post).
    pose proof (Vis_mono _ _ _ L V) as V'. destruct (vis_day t' _ V') as (d & Ld & Md).
    assert (OK : forall g0, gk g0 = gk g -> gp g0 = gp g -> Was g0 t' -> otot_eqb (d_suf d) (gp g) = true ->
                 wp (k (Some (g0, meta_of (dl t' (gk g))))) t').
    { intros g0 K0 P0 W0 _. apply Post; auto. exists t'. repeat split; auto. unfold Mk. now rewrite Ld, Md. }
    destruct ph as [| |failed]; unfold rstep; cbn [step_obs rstep_ans].
    + rewrite obs_meta, Ld. destruct (otot_eqb (d_suf d) (gp g)) eqn:EQ.
      * rewrite Md. apply OK; auto. eapply Was_mono; eauto.
      * apply (to_rec g k t t'); auto. intros d0 Ld0. rewrite Ld in Ld0. now injection Ld0 as <-.
    + destruct (obs_month t' (gk g)) as (l & El & Fl). rewrite El, Fl, Ld. cbn [option_map].
      cbn [wp]. split.
      * split; [exists t'; split; auto; unfold sufAt; cbn [gk gp]; now rewrite Ld|]. split; [exact V'|].
        cbn [gp]. intros E.
        destruct PH as (tp & ta & L1 & L2 & E1 & E2 & E3). unfold sufAt in E1, E2, E3.
        destruct (lookup (gk g) (f_days (SS tp))) as [d1|] eqn:D1; [|discriminate].
        destruct (lookup (gk g) (f_days (SS ta))) as [d2|] eqn:D2; [|now apply E3].
        cbn in E1, E2. injection E1 as E1.
        assert (d_suf d2 = d_suf d1) by (apply (norec tp ta t' (gk g) d1 d2 d); auto; try lia; congruence).
        apply E2. congruence.
      * intros t2 g' m0 L2 K W' (t0 & A1 & A2 & A3). apply Post; auto; try lia. exists t0. repeat split; auto; lia.
    + rewrite obs_meta, Ld. destruct (otot_eqb (d_suf d) (gp g)) eqn:EQ.
      * rewrite Md. apply OK; auto. eapply Was_mono; eauto.
      * destruct (otot_eqb (gp g) failed) eqn:EF; [apply otot_eqb_eq in EF; contradiction|].
        apply (to_rec g k t t'); auto. intros d0 Ld0. rewrite Ld in Ld0. now injection Ld0 as <-.
  - contradiction.
Qed.

Theorem wp_sound_gen : forall s ops p out, conc (cal_of ws) s ops p out ->
  forall t, s = SS t -> ops = skipn t HH -> (exists t0, t0 <= t /\ wp p t0) -> good out.
Proof.
  induction 1 as [s o ops p out C IH | s ops p p' out R C IH | s ops p out R]; intros t Es Eo (t0 & L0 & W).
  - symmetry in Eo. destruct (skipn_cons_nth _ _ _ _ Eo) as (N & K & LT).
    apply (IH (S t)); auto.
    + subst s. symmetry. now apply St_S.
    + exists t0. split; [lia|auto].
  - pose proof (wp_step p t0 t W L0) as ST. subst s. rewrite R in ST. apply (IH t); auto. exists t. split; auto.
  - pose proof (wp_step p t0 t W L0) as ST. subst s. now rewrite R in ST.
Qed.
Corollary wp_sound p out : wp p 0 -> conc (cal_of ws) fs_empty HH p out -> good out.
Proof. intros W C. apply (wp_sound_gen _ _ _ _ C 0); auto. exists 0. split; auto. Qed.

(* ------------------------------------------------------------------ loops and the directory walk *)
Lemma wp_each {A S : Type} (Inv : S -> nat -> Prop) (body : A -> S -> (S -> prog) -> prog) (l : list A) :
  forall st k t,
  (forall x st t1 kk, t <= t1 -> In x l -> Inv st t1 ->
       (forall st' t', t1 <= t' -> Inv st' t' -> wp (kk st') t') -> wp (body x st kk) t1) ->
  Inv st t -> (forall st' t', t <= t' -> Inv st' t' -> wp (k st') t') -> wp (each l st body k) t.
Proof.
  induction l as [|x r IH]; intros st k t HB I HK; cbn [each].
  - apply HK; auto.
  - apply HB; [lia|now left|auto|]. intros st' t' L I'. apply IH; auto.
    + intros y st2 t2 kk L2 Iy. apply HB; [lia|now right].
    + intros st2 t2 L2 I2. apply HK; auto. lia.
Qed.

Lemma Mk_meta t k m : Mk t k = Some m -> m = meta_of (dl t k) /\ Vis k t.
Proof.
  unfold Mk. destruct (lookup k (f_days (SS t))) as [d|] eqn:Ld; [|discriminate].
  destruct (d_meta d) as [[m0|]|] eqn:Md; try discriminate. intros [= ->].
  assert (V : Vis k t) by (apply (day_vis t k d); auto; right; congruence).
  destruct (vis_day t k V) as (d' & Ld' & Md'). rewrite Ld in Ld'. injection Ld' as <-. split; auto. congruence.
Qed.
Lemma meta_nonempty t k : Vis k t -> is_nil (m_blocks (meta_of (dl t k))) = false.
Proof. intros V. rewrite meta_of_blocks. unfold Vis in V. destruct (dl t k); [contradiction|reflexivity]. Qed.

Lemma wp_walk {S : Type} (Inv : S -> nat -> Prop) i (fn : dkey -> option totals -> S -> (S -> prog) -> prog) :
  (forall st t t', t <= t' -> Inv st t -> Inv st t') ->
  (forall key suf st t1 kk, Inv st t1 -> Was {| gk := key; gp := suf |} t1 -> Vis key t1 ->
       (forall st' t', t1 <= t' -> Inv st' t' -> wp (kk st') t') -> wp (fn key suf st kk) t1) ->
  forall st k t, Inv st t -> (forall st' t', t <= t' -> Inv st' t' -> wp (k st') t') -> wp (walk i st fn k) t.
Proof.
  intros IM HF st k t I HK. unfold walk. cbn [wp]. intros t1 L1. cbn [observe].
  apply (wp_each Inv); [|eauto|intros; apply HK; auto; lia].
  intros y st1 t2 k1 L2 _ I1 HK1. cbn [wp]. intros t3 L3. cbn [observe].
  apply (wp_each Inv); [|eauto|intros; apply HK1; auto; lia].
  intros m st2 t4 k2 L4 _ I2 HK2. cbn [wp]. intros t5 L5. cbn [observe].
  apply (wp_each Inv); [|eauto|intros; apply HK2; auto; lia].
  intros [key suf] st3 t6 k3 L6 IN I3 HK3. cbn [fst snd].
  destruct (obs_listing t5 i y m key suf _ eq_refl IN) as (d5 & L5d & S5).
  assert (W5 : forall t', t5 <= t' -> Was {| gk := key; gp := suf |} t').
  { intros t' Lt. exists t5. split; auto. unfold sufAt. cbn [gk gp]. rewrite L5d. cbn. now rewrite S5. }
  destruct suf as [tt|].
  - apply HF; auto.
    apply (Vis_mono key t5); auto. apply (day_vis t5 key d5); auto. left. rewrite S5. discriminate.
  - cbn [wp]. intros t7 L7. cbn [observe]. unfold day_dir.
    destruct (day_at (SS t7) {| dp_key := key; dp_suf := None |}) as [d7|] eqn:D7.
    + destruct (d_meta d7) eqn:M7.
      * apply HF; eauto. { apply W5; lia. } { apply day_at_some in D7 as [L7d _]. apply (day_vis t7 key d7); auto. right. cbn in L7d. congruence. }
        intros; apply HK3; auto; lia.
      * cbn [wp]. intros t8 L8. cbn [observe]. unfold day_dir.
        destruct (day_at (SS t8) {| dp_key := key; dp_suf := None |}) as [d8|] eqn:D8.
        -- apply HK3; eauto; lia.
        -- apply HF; eauto. { apply W5; lia. }
           { assert (EX : lookup key (f_days (SS t8)) <> None) by (apply (exists_mono t5); [lia|congruence]).
             destruct (lookup key (f_days (SS t8))) as [d8|] eqn:L8d; [|contradiction].
             apply (day_vis t8 key d8); auto. left. intros E.
             unfold day_at in D8. cbn [dp_key dp_suf] in D8. rewrite L8d, E in D8. cbn in D8. discriminate. }
           intros; apply HK3; auto; lia.
    + cbn [wp]. intros t8 L8. cbn [observe]. unfold day_dir.
      destruct (day_at (SS t8) {| dp_key := key; dp_suf := None |}) as [d8|] eqn:D8.
      * apply HK3; eauto; lia.
      * apply HF; eauto. { apply W5; lia. }
        { assert (EX : lookup key (f_days (SS t8)) <> None) by (apply (exists_mono t5); [lia|congruence]).
          destruct (lookup key (f_days (SS t8))) as [d8|] eqn:L8d; [|contradiction].
          apply (day_vis t8 key d8); auto. left. intros E.
          unfold day_at in D8. cbn [dp_key dp_suf] in D8. rewrite L8d, E in D8. cbn in D8. discriminate. }
        intros; apply HK3; auto; lia.
Qed.

(* ------------------------------------------------------------------ ReadMetadata *)
Definition tot_ok (e : dkey * totals) : Prop := exists j, j <= length ws /\ snd e = spec_tot ws (fst e) j.
Hypothesis good_list : forall acc, Forall tot_ok acc -> good (Ok {| o_days := []; o_tots := acc; o_broken := 0 |}).

Lemma meta_tot_ok t k : Vis k t -> tot_ok (k, m_tot (meta_of (dl t k))).
Proof.
  intros V. exists (jf t). split; [apply Bj|]. cbn [fst snd]. rewrite meta_of_tot. symmetry. apply spec_tot_daylist. exact V.
Qed.
Lemma name_tot_ok key tt t : Was {| gk := key; gp := Some tt |} t -> tot_ok (key, tt).
Proof.
  intros (tp & _ & E). unfold sufAt in E. cbn [gk gp] in E.
  destruct (lookup key (f_days (SS tp))) as [d|] eqn:Ld; [|discriminate]. cbn in E. injection E as E.
  pose proof (day_suf tp key d Ld) as DS. rewrite E in DS.
  destruct (HG tp) as [_ B]. specialize (B key). fold (dl tp key) in B.
  assert (EF : firstn (nff tp key) (FL key) = firstn (nff tp key) (dl tp key)) by (apply prefix_firstn; [apply dl_FL|auto]).
  rewrite EF in DS.
  destruct (db_prefix_is_db ws key (jf tp) (nff tp key) B) as (j' & Lj & Ej).
  fold (AA tp) in Ej. fold (dl tp key) in Ej. rewrite <- Ej in DS.
  exists j'. split; [specialize (Bj tp); lia|]. cbn [fst snd].
  unfold sufx in DS. destruct (daylist (spec_db [] (firstn j' ws)) key) eqn:EL; [discriminate|].
  injection DS as ->. symmetry. rewrite <- EL. apply spec_tot_daylist. rewrite EL. discriminate.
Qed.

Definition LInv (st : list (dkey * totals) * option gdir * bool) (t : nat) : Prop :=
  Forall tot_ok (fst (fst st)) /\ match snd (fst st) with Some g => Was g t /\ Vis (gk g) t | None => True end.
Lemma LInv_mono st t t' : t <= t' -> LInv st t -> LInv st t'.
Proof.
  intros L [A B]. split; auto. destruct (snd (fst st)); auto. destruct B. split; [eapply Was_mono|eapply Vis_mono]; eauto.
Qed.

(* opening a visible directory and checking TimeRange never fails *)
Lemma wp_open_check g (kk : meta -> prog) t :
  Was g t -> Vis (gk g) t ->
  (forall t' m, t <= t' -> (exists t0, t <= t0 /\ t0 <= t' /\ m = meta_of (dl t0 (gk g)) /\ Vis (gk g) t0) -> wp (kk m) t') ->
  wp (OpenM OTry g (fun r => match r with
                            | None => Ret Err
                            | Some (_, m) => if is_nil (m_blocks m) then Ret Panic else kk m end)) t.
Proof.
  intros W V HK. cbn [wp]. split; [repeat split; auto|].
  intros t' g' m L K W' (t0 & A1 & A2 & A3). destruct (Mk_meta _ _ _ A3) as [-> V0].
  rewrite meta_nonempty by auto. apply HK; auto. exists t0. repeat split; auto.
Qed.

Lemma wp_list_iface i acc k t : Forall tot_ok acc ->
  (forall acc' t', t <= t' -> Forall tot_ok acc' -> wp (k acc') t') -> wp (list_iface i acc k) t.
Proof.
  intros AO HK. unfold list_iface.
  apply (wp_walk LInv); [intros; eapply LInv_mono; eauto| |split; cbn; auto|].
  - intros key suf [[acc0 lg] first] t1 kw [A0 _] W V HKW. cbn [fst snd] in A0.
    assert (FIN : forall tot (opened : option meta) t2, t1 <= t2 -> tot_ok (key, tot) ->
              (forall m, opened = Some m -> is_nil (m_blocks m) = false) ->
              wp (let acc' := acc0 ++ [(key, tot)] in
                  if first
                  then match opened with
                       | Some m => if is_nil (m_blocks m) then Ret Panic else kw (acc', Some {| gk := key; gp := suf |}, false)
                       | None => OpenM OTry {| gk := key; gp := suf |} (fun r => match r with
                                   | None => Ret Err
                                   | Some (_, m) => if is_nil (m_blocks m) then Ret Panic else kw (acc', Some {| gk := key; gp := suf |}, false)
                                   end)
                       end
                  else kw (acc', Some {| gk := key; gp := suf |}, false)) t2).
    { intros tot opened t2 L2 TO NN. cbv zeta.
      assert (KW : forall t3, t2 <= t3 -> wp (kw (acc0 ++ [(key, tot)], Some {| gk := key; gp := suf |}, false)) t3).
      { intros t3 L3. apply HKW; [lia|]. split; cbn [fst snd].
        - apply Forall_app; split; auto.
        - split; [eapply Was_mono; [|eauto]; lia | eapply Vis_mono; [|eauto]; lia]. }
      destruct first; [|apply KW; auto].
      destruct opened as [m|].
      - rewrite (NN m eq_refl). apply KW; auto.
      - apply (wp_open_check {| gk := key; gp := suf |} (fun _ => kw (acc0 ++ [(key, tot)], Some {| gk := key; gp := suf |}, false))).
        + eapply Was_mono; [|eauto]; lia.
        + eapply Vis_mono; [|eauto]; lia.
        + intros t' m L' _. apply KW; auto. }
    destruct suf as [tt|].
    + apply (FIN tt None t1); auto. { eapply name_tot_ok; eauto. } discriminate.
    + cbn [wp]. split; [repeat split; auto|].
      intros t' g' m L K W' (t0 & A1 & A2 & A3). destruct (Mk_meta _ _ _ A3) as [-> V0].
      apply (FIN _ (Some (meta_of (dl t0 key))) t'); auto.
      * now apply meta_tot_ok.
      * intros m [= <-]. now apply meta_nonempty.
  - intros [[acc1 lg] first] t' L [A1 B1]. cbn [fst snd] in *.
    destruct lg as [g|].
    + destruct B1 as [W V]. apply (wp_open_check g (fun _ => k acc1)); auto.
      intros t2 m L2 _. apply HK; auto. lia.
    + apply HK; auto.
Qed.

Theorem wp_reader_list : wp (reader_prog false) 0.
Proof.
  unfold reader_prog. cbn [wp]. intros t L. cbn [observe].
  apply (wp_each (fun acc _ => Forall tot_ok acc)); auto.
  - intros i acc t1 kk _ _ A HK. apply wp_list_iface; auto.
  - intros acc t' _ A. cbn [wp]. now apply good_list.
Qed.
End Env.
