(* C30 correspondence: case type, corr (model run on the same schedule = observed), holds (the observed
   reader result satisfies the specification: per day the blocks / totals of some committed prefix). *)
From Coq Require Import List ZArith NArith Bool Arith.
From GoProbe.Base Require Import CorrLib.
From GoProbe.C04 Require Import Model.
From GoProbe.C30 Require Import Model.
Import ListNotations.

(* observed reader result: flat view (interface, block timestamp, write-out id), per-interface listing *)
Definition obs_read := res (view * listing).

(* one scheduled run of the REAL reader and writer processes: history, reader kind (true = query,
   false = ReadMetadata), schedule (writer calls, reader calls, writer calls, ...), the reader's observed
   file-system calls, its result, the number of blocks it reported as broken *)
Inductive case :=
| CSched (ws : list writeout) (query : bool) (sched : list nat) (rtrace : list rlabel) (rd : obs_read) (broken : nat).

Definition flat_view (days : list (dkey * list (Z * nat))) : view :=
  flat_map (fun e => map (fun b => (fst (fst e), fst b, snd b)) (snd e)) days.
Definition flat_listing (ifs : list N) (tots : list (dkey * totals)) : listing :=
  map (fun i => (i, fold_left (fun acc e => if N.eqb (fst (fst e)) i then tot_add acc (snd e) else acc) tots tot_zero)) ifs.

Definition label_eqb (a b : rlabel) : bool :=
  let '(k1, a1, b1, o1) := a in let '(k2, a2, b2, o2) := b in
  Nat.eqb k1 k2 && Nat.eqb a1 a2 && Nat.eqb b1 b2 && Bool.eqb o1 o2.

Definition ifaces_of (ws : list writeout) : list N := sortN (map w_if ws).
Definition listing_get (l : listing) (i : N) : totals :=
  match find (fun e => N.eqb (fst e) i) l with Some e => snd e | None => tot_zero end.
Definition listing_sem_eqb (ifs : list N) (a b : listing) : bool :=
  forallb (fun i => tot_eqb (listing_get a i) (listing_get b i)) ifs
  && forallb (fun e => existsb (N.eqb (fst e)) ifs) (a ++ b).

Definition corr (c : case) : bool :=
  match c with
  | CSched ws query sched rtrace rd broken =>
    let (r, log) := model_run ws query sched in
    list_eqb label_eqb log rtrace
    && match r, rd with
       | Ok o, Ok (v, l) =>
         view_eqb (flat_view (o_days o)) v
         && listing_sem_eqb (ifaces_of ws) (flat_listing (ifaces_of ws) (o_tots o)) l
         && Nat.eqb (o_broken o) broken
       | Err, Err => true
       | Panic, Panic => true
       | _, _ => false
       end
  end.

(* ------------------------------------------------------------------ the specification *)
Definition db_at (ws : list writeout) (j : nat) : adb := fold_left adb_put (firstn j ws) [].
Definition spec_blocks (ws : list writeout) (k : dkey) (j : nat) : list (Z * nat) :=
  match lookup k (db_at ws j) with
  | Some bl => map (fun w => (w_ts w, w_id w)) (filter (fun w => negb (Nat.eqb (w_len w 0) 0)) bl)
  | None => []
  end.
Definition spec_tot (ws : list writeout) (k : dkey) (j : nat) : totals :=
  match lookup k (db_at ws j) with Some bl => tots_of bl | None => tot_zero end.

Definition blk_eqb (a b : Z * nat) : bool := Z.eqb (fst a) (fst b) && Nat.eqb (snd a) (snd b).
(* the day a block timestamp of interface i belongs to *)
Definition day_of (ws : list writeout) (i : N) (ts : Z) : option Z :=
  match find (fun w => N.eqb (w_if w) i && Z.eqb (w_ts w) ts) ws with Some w => Some (w_day w) | None => None end.
Definition view_day (ws : list writeout) (v : view) (k : dkey) : list (Z * nat) :=
  flat_map (fun e => let '(i, ts, id) := e in
                     match day_of ws i ts with
                     | Some d => if keqb k (i, d) then [(ts, id)] else []
                     | None => []
                     end) v.
Definition js (ws : list writeout) : list nat := seq 0 (S (length ws)).

(* query: every day shows exactly the blocks of some committed prefix, nothing else is shown *)
Definition holds_query (ws : list writeout) (v : view) : bool :=
  forallb (fun k => existsb (fun j => list_eqb blk_eqb (view_day ws v k) (spec_blocks ws k j)) (js ws)) (keys_of ws)
  && Nat.eqb (length v) (fold_left (fun n k => n + length (view_day ws v k)) (keys_of ws) 0).

(* listing: the totals of an interface are the sum over its days of the totals of some committed prefix *)
Fixpoint add_tot (t : totals) (l : list totals) : list totals :=
  match l with [] => [t] | u :: r => if tot_eqb t u then l else u :: add_tot t r end.
Definition cand_sums (ws : list writeout) (i : N) : list totals :=
  fold_left (fun cands k =>
               if N.eqb (fst k) i
               then fold_left (fun acc c => fold_left (fun acc j => add_tot (tot_add c (spec_tot ws k j)) acc) (js ws) acc) cands []
               else cands)
            (keys_of ws) [tot_zero].
Definition holds_list (ws : list writeout) (l : listing) : bool :=
  forallb (fun i => existsb (tot_eqb (listing_get l i)) (cand_sums ws i)) (ifaces_of ws)
  && forallb (fun e => existsb (N.eqb (fst e)) (ifaces_of ws)) l.

Definition holds (c : case) : bool :=
  match c with
  | CSched ws query sched rtrace rd broken =>
    match rd with
    | Ok (v, l) => Nat.eqb broken 0 && (if query then holds_query ws v else holds_list ws l)
    | _ => false
    end
  end.
