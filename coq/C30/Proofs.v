(* C30 proofs.
   Part 1: every interleaving (`conc`) of the reader with a writer operation list is a choice of
   non-decreasing times t1 <= t2 <= ... at which the reader's observations are made in the prefix states
   S t = apply_all s0 (firstn t H) (the reader never writes).  `safe p t`: whatever times >= t are chosen, the
   program ends in a good result.  safe_sound: safe implies good for EVERY interleaving.
   Part 2: a decision procedure for `safe` (`explore`): at every step the possible times are grouped by the
   answer the observation gets; only the earliest time of each group has to be followed (a later time with
   the same answer allows a subset of the futures).  explore_sound lifts its `true` to `safe`. *)
From Coq Require Import List ZArith NArith Bool Arith Lia Sorted.
From GoProbe.Base Require Import CorrLib.
From GoProbe.C04 Require Import Model.
From GoProbe.C30 Require Import Model.
Import ListNotations.

Lemma conc_ret c s ops r out : conc c s ops (Ret r) out -> out = r.
Proof.
  remember (Ret r) as p eqn:E. induction 1; subst; auto.
  - cbn in H. discriminate.
  - cbn in H. now injection H.
Qed.

Fixpoint states_from (s : fs) (l : list fsop) : list fs :=
  match l with [] => [s] | o :: r => s :: states_from (fst (apply s o)) r end.
Lemma states_from_nth : forall l s d t, t <= length l -> nth t (states_from s l) d = apply_all s (firstn t l).
Proof.
  induction l as [|o l IH]; intros s d t L.
  - destruct t; [reflexivity | cbn in L; lia].
  - destruct t as [|t]; [reflexivity|]. cbn [states_from nth firstn]. cbn in L. rewrite IH by lia. reflexivity.
Qed.

Section Safe.
Variables (c : cal) (s0 : fs) (H : list fsop) (good : result -> bool).
Definition St (t : nat) : fs := apply_all s0 (firstn t H).

Inductive safe : prog -> nat -> Prop :=
| safe_i p t :
    (forall t' p', t <= t' -> t' <= length H -> rstep c (St t') p = inl p' -> safe p' t') ->
    (forall t' out, t <= t' -> t' <= length H -> rstep c (St t') p = inr out -> good out = true) ->
    safe p t.

Lemma safe_mono p t1 t2 : safe p t1 -> t1 <= t2 -> safe p t2.
Proof.
  intros S L. inversion S as [? ? A B]; subst. constructor.
  - intros t' p' L1 L2 R. apply (A t' p'); auto. lia.
  - intros t' out L1 L2 R. apply (B t' out); auto. lia.
Qed.

Lemma St_S t o : nth_error H t = Some o -> St (S t) = fst (apply (St t) o).
Proof.
  intros E. unfold St.
  assert (firstn (S t) H = firstn t H ++ [o]) as ->.
  { clear -E. revert t E. induction H as [|x l IH]; intros [|t] E; cbn in *; try discriminate.
    - now injection E as ->.
    - f_equal. now apply IH. }
  unfold apply_all. rewrite fold_left_app. reflexivity.
Qed.
Lemma skipn_cons_nth {A} (l : list A) t o r : skipn t l = o :: r -> nth_error l t = Some o /\ skipn (S t) l = r /\ t < length l.
Proof.
  revert t. induction l as [|x l IH]; intros [|t] E; cbn in *; try discriminate.
  - injection E as -> ->. repeat split; auto. lia.
  - destruct (IH _ E) as (A1 & A2 & A3). repeat split; auto. lia.
Qed.

(* every interleaving from time t on ends in a good result *)
Theorem safe_sound : forall s ops p out, conc c s ops p out ->
  forall t, t <= length H -> s = St t -> ops = skipn t H -> safe p t -> good out = true.
Proof.
  induction 1 as [s o ops p out C IH | s ops p p' out R C IH | s ops p out R]; intros t L Es Eo Sf.
  - symmetry in Eo. destruct (skipn_cons_nth _ _ _ _ Eo) as (N & K & LT).
    apply (IH (S t)); try lia; auto.
    + subst s. symmetry. now apply St_S.
    + eapply safe_mono; eauto.
  - inversion Sf as [? ? A B]; subst. apply (IH t); auto; apply (A t p'); auto.
  - inversion Sf as [? ? A B]; subst. apply (B t out); auto.
Qed.

(* ------------------------------------------------------------------ the decision procedure *)
Variable ans_dec : forall a b : ans, {a = b} + {a <> b}.
Definition states : list fs := states_from s0 H.
Definition state_at (t : nat) : fs := nth t states s0.

Lemma states_nth : forall t, t <= length H -> state_at t = St t.
Proof. intros t L. unfold state_at, states, St. now apply states_from_nth. Qed.

Definition next_ok (chk : prog -> nat -> bool) (p : prog) (a : ans) (t : nat) : bool :=
  match rstep_ans p a with inl p' => chk p' t | inr out => good out end.

Fixpoint scan (chk : prog -> nat -> bool) (p : prog) (q : obs) (ts : list nat) (seen : list ans) : bool :=
  match ts with
  | [] => true
  | t' :: r =>
    let a := observe c (state_at t') q in
    if existsb (fun b => if ans_dec a b then true else false) seen then scan chk p q r seen
    else next_ok chk p a t' && scan chk p q r (a :: seen)
  end.

Fixpoint explore (fuel : nat) (p : prog) (t : nat) : bool :=
  match fuel with
  | 0 => false
  | S f =>
    match step_obs c p with
    | None => match p with Ret r => good r | _ => false end
    | Some q => scan (explore f) p q (seq t (S (length H) - t)) []
    end
  end.

Definition checked (p : prog) (a : ans) (t : nat) : Prop :=
  match rstep_ans p a with inl p' => safe p' t | inr out => good out = true end.
Lemma checked_mono p a t1 t2 : checked p a t1 -> t1 <= t2 -> checked p a t2.
Proof. unfold checked. destruct (rstep_ans p a); auto. intros; eapply safe_mono; eauto. Qed.

Lemma scan_sound chk p q : (forall p' t, chk p' t = true -> safe p' t) ->
  forall ts seen lo,
    (forall b, In b seen -> exists tb, tb <= lo /\ checked p b tb) ->
    (forall x, In x ts -> lo <= x /\ x <= length H) -> Sorted.StronglySorted le ts ->
    scan chk p q ts seen = true ->
    forall t', In t' ts -> checked p (observe c (St t') q) t'.
Proof.
  intros CH. induction ts as [|x r IH]; intros seen lo Hseen Hr Hs Hscan t' Hin; [contradiction|].
  cbn [scan] in Hscan. inversion Hs as [|? ? Hs' Hall]; subst.
  assert (Lx : lo <= x /\ x <= length H) by (apply Hr; now left).
  rewrite states_nth in Hscan by lia.
  cbv zeta in Hscan. remember (observe c (St x) q) as a eqn:Ea.
  destruct (existsb _ seen) eqn:EX.
  - (* an earlier time gave the same answer *)
    destruct Hin as [<-|Hin].
    + apply existsb_exists in EX as (b & Hb & E). destruct (ans_dec a b) as [->|]; [|discriminate].
      destruct (Hseen b Hb) as (tb & Ltb & Cb). rewrite <- Ea. apply (checked_mono p b tb); auto. lia.
    + eapply (IH seen x); eauto.
      * intros b Hb. destruct (Hseen b Hb) as (tb & ? & ?). exists tb. split; auto. lia.
      * intros y Hy. split; [|apply Hr; now right]. rewrite Forall_forall in Hall. now apply Hall.
  - apply andb_true_iff in Hscan as [N Sc].
    assert (Ca : checked p a x).
    { unfold checked, next_ok in *. destruct (rstep_ans p a); auto. }
    destruct Hin as [<-|Hin]; [subst a; exact Ca|].
    eapply (IH (a :: seen) x); eauto.
    + intros b [<-|Hb]; [exists x; split; auto|].
      destruct (Hseen b Hb) as (tb & ? & ?). exists tb. split; auto. lia.
    + intros y Hy. split; [|apply Hr; now right]. rewrite Forall_forall in Hall. now apply Hall.
Qed.

Lemma seq_sorted : forall n a, Sorted.StronglySorted le (seq a n).
Proof.
  induction n; intros a; cbn; constructor; auto.
  apply Forall_forall. intros x Hx. apply in_seq in Hx. lia.
Qed.

Lemma rstep_split s p : rstep c s p =
  match step_obs c p with Some q => rstep_ans p (observe c s q) | None => match p with Ret r => inr r | _ => inr Err end end.
Proof. reflexivity. Qed.

Theorem explore_sound : forall fuel p t, explore fuel p t = true -> safe p t.
Proof.
  induction fuel as [|f IH]; intros p t E; [discriminate|]. cbn [explore] in E.
  assert (G : forall t', t <= t' -> t' <= length H ->
             match rstep c (St t') p with inl p' => safe p' t' | inr out => good out = true end).
  { intros t' L1 L2. rewrite rstep_split.
    destruct (step_obs c p) as [q|] eqn:SO.
    - assert (C : checked p (observe c (St t') q) t').
      { eapply (scan_sound (explore f) p q IH (seq t (S (length H) - t)) [] t); eauto.
        - intros b [].
        - intros x Hx. apply in_seq in Hx. lia.
        - apply seq_sorted.
        - apply in_seq. lia. }
      exact C.
    - destruct p; try discriminate; auto.
      all: cbn in SO; try discriminate.
      all: destruct ph; discriminate. }
  constructor; intros t' x L1 L2 R; specialize (G t' L1 L2); rewrite R in G; exact G.
Qed.

Corollary explore_all_interleavings fuel p out :
  explore fuel p 0 = true -> conc c s0 H p out -> good out = true.
Proof.
  intros E C. eapply (safe_sound _ _ _ _ C 0); auto.
  - lia.
  - now apply (explore_sound fuel).
Qed.
End Safe.
