(* C30 proofs, part 3: the exhaustive explorations (vm_compute of the sound decision procedure). *)
From Coq Require Import List ZArith NArith Bool Arith Lia.
From GoProbe.Base Require Import CorrLib.
From GoProbe.C04 Require Import Model.
From GoProbe.C30 Require Import Model Corr Proofs Proofs2.
Import ListNotations.

Lemma explored_query : forallb (fun ws => explore_ws ws true) [hist1; hist2] = true.
Proof. vm_compute. reflexivity. Qed.
Lemma explored_list : forallb (fun ws => explore_ws ws false) [hist1; hist2; hist3] = true.
Proof. vm_compute. reflexivity. Qed.

Lemma snapshot_bounded ws out : In ws [hist1; hist2] ->
  conc (cal_of ws) fs_empty (hist_ops fs_empty ws) (reader_prog true) out -> good_query ws out = true.
Proof.
  intros I C. pose proof explored_query as E. rewrite forallb_forall in E.
  apply (explore_ws_sound ws true out (E ws I) C).
Qed.
Lemma listing_bounded ws out : In ws [hist1; hist2; hist3] ->
  conc (cal_of ws) fs_empty (hist_ops fs_empty ws) (reader_prog false) out -> good_list ws out = true.
Proof.
  intros I C. pose proof explored_list as E. rewrite forallb_forall in E.
  apply (explore_ws_sound ws false out (E ws I) C).
Qed.
