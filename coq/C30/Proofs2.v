(* C30 proofs, part 2: decidable equality of observation answers, the specification as a boolean, and the
   exhaustive exploration of ALL interleavings for concrete histories (every run is covered: explore_sound). *)
From Coq Require Import List ZArith NArith Bool Arith Lia.
From GoProbe.Base Require Import CorrLib.
From GoProbe.C04 Require Import Model.
From GoProbe.C30 Require Import Model Corr Proofs.
Import ListNotations.

Definition totals_dec (a b : totals) : {a = b} + {a <> b}.
Proof. decide equality; apply N.eq_dec. Defined.
Definition mblock_dec (a b : mblock) : {a = b} + {a <> b}.
Proof. decide equality; [apply (list_eq_dec Nat.eq_dec) | apply Z.eq_dec]. Defined.
Definition meta_dec (a b : meta) : {a = b} + {a <> b}.
Proof. decide equality; [apply totals_dec | apply (list_eq_dec Nat.eq_dec) | apply (list_eq_dec mblock_dec)]. Defined.
Definition abyte_dec (a b : abyte) : {a = b} + {a <> b}.
Proof. repeat decide equality. Defined.
Definition opt_dec {A} (d : forall a b : A, {a = b} + {a <> b}) (a b : option A) : {a = b} + {a <> b}.
Proof. decide equality. Defined.
Definition dkey_dec (a b : dkey) : {a = b} + {a <> b}.
Proof. decide equality; [apply Z.eq_dec | apply N.eq_dec]. Defined.
Definition dayent_dec (a b : dkey * option totals) : {a = b} + {a <> b}.
Proof. decide equality; [apply (opt_dec totals_dec) | apply dkey_dec]. Defined.
Definition ans_dec (a b : ans) : {a = b} + {a <> b}.
Proof.
  decide equality.
  - apply (list_eq_dec N.eq_dec).
  - apply (list_eq_dec Z.eq_dec).
  - apply (list_eq_dec dayent_dec).
  - apply Bool.bool_dec.
  - apply (opt_dec (opt_dec meta_dec)).
  - apply (opt_dec (list_eq_dec abyte_dec)).
Defined.

(* the specification on a model result (Corr.holds_query / holds_list on the flattened result) *)
Definition good_query (ws : list writeout) (r : result) : bool :=
  match r with
  | Ok o => Nat.eqb (o_broken o) 0 && holds_query ws (flat_view (o_days o))
  | _ => false
  end.
Definition good_list (ws : list writeout) (r : result) : bool :=
  match r with
  | Ok o => holds_list ws (flat_listing (ifaces_of ws) (o_tots o))
  | _ => false
  end.

Definition explore_ws (ws : list writeout) (query : bool) : bool :=
  explore (cal_of ws) fs_empty (hist_ops fs_empty ws) (if query then good_query ws else good_list ws) ans_dec
          200 (reader_prog query) 0.

Lemma explore_ws_sound ws query out :
  explore_ws ws query = true ->
  conc (cal_of ws) fs_empty (hist_ops fs_empty ws) (reader_prog query) out ->
  (if query then good_query ws else good_list ws) out = true.
Proof. intros E C. eapply explore_all_interleavings; eauto. Qed.

(* ------------------------------------------------------------------ the explored histories *)
Definition mk_tot (n : N) : totals := {| t_v4 := n; t_v6 := 1; t_dr := n; t_br := 100 * n; t_bs := n; t_pr := n; t_ps := 2 * n |}.
Definition mk_w (id : nat) (i : N) (y m : Z) (day ts : Z) (lens : list nat) (tot : totals) : writeout :=
  {| w_id := id; w_if := i; w_year := y; w_month := m; w_day := day; w_ts := ts;
     w_lens := lens; w_renc := [false; true; false; false; false; false; false; false]; w_tot := tot |}.
(* H1: three write-outs to one day: the first creates it, the second renames it, the third has no flows and
   unchanged totals (no directory rename) *)
Definition hist1 : list writeout :=
  [ mk_w 0 0 2023 11 1699920000 1700000100 [8; 8; 1; 2; 3; 2; 2; 2] (mk_tot 3);
    mk_w 1 0 2023 11 1699920000 1700000400 [4; 4; 1; 2; 3; 2; 2; 2] (mk_tot 1);
    mk_w 2 0 2023 11 1699920000 1700000700 [0; 0; 0; 0; 1; 1; 1; 1] tot_zero ].
(* H2: two interfaces, a day change and a month change *)
Definition hist2 : list writeout :=
  [ mk_w 0 1 2023 11 1701216000 1701302100 [4; 4; 1; 2; 3; 2; 2; 2] (mk_tot 1);
    mk_w 1 0 2023 11 1701216000 1701302100 [32; 32; 2; 4; 3; 2; 2; 2] (mk_tot 2);
    mk_w 2 1 2023 12 1701388800 1701388800 [24; 24; 3; 6; 7; 4; 4; 4] (mk_tot 4) ].
(* H3: three consecutive renames of the same day directory *)
Definition hist3 : list writeout :=
  [ mk_w 0 0 2023 11 1699920000 1700000100 [8; 8; 1; 2; 3; 2; 2; 2] (mk_tot 3);
    mk_w 1 0 2023 11 1699920000 1700000400 [4; 4; 1; 2; 3; 2; 2; 2] (mk_tot 1);
    mk_w 2 0 2023 11 1699920000 1700000700 [4; 4; 1; 2; 3; 2; 2; 2] (mk_tot 5) ].
