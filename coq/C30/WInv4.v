(* C30 proofs, writer side (4): one write-out from any good state, then histories. *)
From Coq Require Import List ZArith NArith Bool Arith Lia.
From GoProbe.Base Require Import CorrLib.
From GoProbe.C04 Require Import Model.
From GoProbe.C30 Require Import C04P1 C04P2 C04P3 C04P4 C04P5.
From GoProbe.C30 Require Import WInv WInv2 WInv3.
Import ListNotations.

Ltac pre_tac := repeat (apply Forall_app; split);
  auto using pre_month, pre_mkdir, pre_colops, pre_closes;
  try unfold col_ops;
  repeat first [ match goal with |- Forall _ (if ?c then _ else _) => destruct c end
               | apply Forall_app; split | constructor ].

Lemma wo_good s a nf w : GoodS s a nf -> clean a nf -> WoSpec s (writeout_ops s w) a nf w.
Proof.
  intros G C. pose proof (proj2 G (w_key w)) as IL.
  unfold writeout_ops, writeout_run.
  destruct (lookup (w_key w) (f_days s)) as [d|] eqn:L.
  - assert (DA : day_at s {| dp_key := w_key w; dp_suf := d_suf d |} = Some d).
    { unfold day_at; cbn [dp_key dp_suf]. now rewrite L, otot_eqb_refl. }
    destruct (d_meta d) as [[m|]|] eqn:M.
    + destruct (lookup (w_key w) a) as [bl|] eqn:La.
      2:{ destruct IL as [HM _]. congruence. }
      destruct IL as (NE & HM & _). rewrite M in HM. injection HM as ->.
      rewrite meta_has_ts_of. destruct (existsb _ bl) eqn:EX; cbn [fst].
      * apply wo_rejected; auto.
        -- pre_tac.
        -- unfold adb_put. now rewrite La, EX.
      * replace (meta_of bl) with (cur_meta a (w_key w)) by (unfold cur_meta; now rewrite La).
        rewrite !app_assoc.
        apply wo_split_good; auto.
        -- pre_tac.
        -- eapply run_day_at in DA as (d' & D' & _); eauto. pre_tac.
        -- unfold put_ok. now rewrite La, EX.
    + exfalso. destruct (lookup (w_key w) a).
      * destruct IL as (_ & HM & _). congruence.
      * destruct IL as [HM _]. congruence.
    + destruct (lookup (w_key w) a) as [bl|] eqn:La.
      { destruct IL as (_ & HM & _). congruence. }
      cbn [fst]. replace new_meta with (cur_meta a (w_key w)) by (unfold cur_meta; now rewrite La).
      rewrite !app_assoc.
      apply wo_split_good; auto.
      * pre_tac.
      * eapply run_day_at in DA as (d' & D' & _); eauto. pre_tac.
      * unfold put_ok. now rewrite La.
  - cbn [fst]. replace new_meta with (cur_meta a (w_key w)) by (unfold cur_meta; now rewrite IL).
    rewrite !app_assoc.
    apply wo_split_good; auto.
    + pre_tac.
    + destruct (mkdir_creates s w L) as [d0 D0].
      rewrite <- !app_assoc. rewrite app_assoc. rewrite apply_all_app.
      eapply run_day_at in D0 as (d' & D' & _); eauto. pre_tac.
    + unfold put_ok. now rewrite IL.
Qed.

Lemma wo_final s a nf w : GoodS s a nf -> clean a nf ->
  GoodS (apply_all s (writeout_ops s w)) (adb_put a w) (nf_put a w nf).
Proof.
  intros G C. destruct (wo_good s a nf w G C) as (k1 & k2 & _ & _ & _ & H3).
  specialize (H3 (S (k2 + length (writeout_ops s w))) ltac:(lia)).
  now rewrite firstn_all2 in H3 by lia.
Qed.

(* ------------------------------------------------------------------ histories: a monotone labelling of time *)
Definition bounded (a : adb) (nf : dkey -> nat) : Prop := forall k, nf k <= length (daylist a k).
Lemma clean_bounded a nf : clean a nf -> bounded a nf.
Proof. intros C k. rewrite C. lia. Qed.

Definition prefix_of {A} (l l' : list A) : Prop := exists r, l' = l ++ r.
Lemma daylist_put a w k : prefix_of (daylist a k) (daylist (adb_put a w) k).
Proof.
  destruct (keqb k (w_key w)) eqn:E.
  - apply keqb_eq in E; subst k. unfold adb_put, daylist.
    destruct (lookup (w_key w) a) as [bl|] eqn:L.
    + destruct (existsb _ bl); [rewrite L; exists []; now rewrite app_nil_r|].
      rewrite lookup_upd_same, L. cbn. now exists [w].
    + rewrite lookup_ins_same by auto. now exists [w].
  - apply keqb_neq in E. unfold daylist. rewrite lookup_put_other by auto. exists []. now rewrite app_nil_r.
Qed.
Lemma bounded_put a w nf : bounded a nf -> bounded (adb_put a w) nf.
Proof. intros B k. destruct (daylist_put a w k) as [r ->]. rewrite app_length. specialize (B k). lia. Qed.

(* Hist s ws a nf: there is a labelling of every time t (number of operations performed) with the number jf t
   of committed write-outs and the name counters nff t, both monotone, such that the state satisfies GoodS *)
Definition Hist (s : fs) (ws : list writeout) (a : adb) (nf : dkey -> nat) : Prop :=
  exists (jf : nat -> nat) (nff : nat -> dkey -> nat),
    (forall t t', t <= t' -> jf t <= jf t') /\ (forall t, jf t <= length ws) /\
    (forall t t' k, t <= t' -> nff t k <= nff t' k) /\ (forall k, nff 0 k = nf k) /\
    (forall t, GoodS (apply_all s (firstn t (hist_ops s ws))) (spec_db a (firstn (jf t) ws)) (nff t) /\
               bounded (spec_db a (firstn (jf t) ws)) (nff t)).

Lemma nf_put_ge a w nf k : bounded a nf -> nf k <= nf_put a w nf k.
Proof.
  intros B. unfold nf_put. destruct (keqb k (w_key w)) eqn:E; auto.
  destruct (daylist_put a w k) as [r ->]. rewrite app_length. specialize (B k). lia.
Qed.

Lemma wo_nonempty s w : 0 < length (writeout_ops s w).
Proof.
  unfold writeout_ops, writeout_run, month_ops.
  destruct (lookup (w_key w) (f_days s)) as [d|]; [destruct (d_meta d) as [[m|]|]; [destruct (meta_has_ts m (w_ts w))| |]|];
    cbn [fst app length]; lia.
Qed.

Lemma hist_good ws : forall s a nf, GoodS s a nf -> clean a nf -> Hist s ws a nf.
Proof.
  induction ws as [|w r IH]; intros s a nf G C.
  - exists (fun _ => 0), (fun _ => nf). split; [auto|]. split; [intros; cbn; lia|]. split; [auto|]. split; [auto|].
    intros t. split; [|now apply clean_bounded]. cbn. destruct t; cbn; exact G.
  - destruct (wo_good s a nf w G C) as (k1 & k2 & L12 & H1 & H2 & H3).
    pose proof (wo_final s a nf w G C) as GF. pose proof (clean_put a w nf C) as CF.
    pose proof (wo_nonempty s w) as NZ.
    set (O := writeout_ops s w) in *. set (n := length O) in *.
    destruct (IH _ _ _ GF CF) as (jr & nr & Mj & Bj & Mn & N0 & Gr).
    pose proof (clean_bounded _ _ C) as B0.
    exists (fun t => if t <? n then (if t <=? k1 then 0 else 1) else S (jr (t - n))),
           (fun t => if t <? n then (if t <=? k2 then nf else nf_put a w nf) else nr (t - n)).
    split; [|split; [|split; [|split]]].
    + intros t t' L. destruct (Nat.ltb_spec t n), (Nat.ltb_spec t' n); try lia.
      * destruct (Nat.leb_spec t k1), (Nat.leb_spec t' k1); lia.
      * destruct (t <=? k1); lia.
      * specialize (Mj (t - n) (t' - n) ltac:(lia)). lia.
    + intros t. cbn [length]. destruct (t <? n); [destruct (t <=? k1); lia|]. specialize (Bj (t - n)). lia.
    + intros t t' k L. destruct (Nat.ltb_spec t n), (Nat.ltb_spec t' n); try lia.
      * destruct (Nat.leb_spec t k2), (Nat.leb_spec t' k2); try lia. now apply nf_put_ge.
      * apply Nat.le_trans with (nr 0 k); [|apply Mn; lia]. rewrite N0.
        destruct (t <=? k2); auto. now apply nf_put_ge.
      * apply Mn. lia.
    + intros k. destruct (Nat.ltb_spec 0 n); [|lia]. reflexivity.
    + intros t. cbn [hist_ops]. fold O.
      destruct (Nat.ltb_spec t n) as [LT|GE].
      * rewrite firstn_app_le by (fold n; lia).
        destruct (Nat.leb_spec t k1) as [A1|A1].
        -- assert (t <= k2) as -> %Nat.leb_le by lia. cbn [firstn spec_db fold_left]. split; auto.
        -- cbn [firstn spec_db fold_left]. destruct (Nat.leb_spec t k2) as [A2|A2].
           ++ split; [now apply H2|]. now apply bounded_put.
           ++ split; [now apply H3|]. now apply clean_bounded.
      * rewrite firstn_app, firstn_all2, apply_all_app by (fold n; lia). fold n.
        cbn [firstn spec_db fold_left]. apply (Gr (t - n)).
Qed.

Lemma good_empty : GoodS fs_empty [] (fun _ => 0).
Proof. split; [constructor|]. intros k. reflexivity. Qed.
Lemma hist_from_empty ws : Hist fs_empty ws [] (fun _ => 0).
Proof. apply (hist_good ws _ _ _ good_empty). intros k. reflexivity. Qed.
