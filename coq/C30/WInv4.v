(* C30 proofs, writer side (4): one write-out from any good state, then histories. *)
From Coq Require Import List ZArith NArith Bool Arith Lia.
From GoProbe.Base Require Import CorrLib.
From GoProbe.C04 Require Import Model.
From GoProbe.C30 Require Import C04P1 C04P2 C04P3 C04P4 C04P5 C04PC.
From GoProbe.C30 Require Import WInv WInv2 WInv3.
Import ListNotations.

(* ------------------------------------------------------------------ offsets and the column phase *)
Lemma m_cur_clen bl : forall c, c < ncols -> nth c (m_cur (meta_of bl)) 0 = clen c bl.
Proof.
  induction bl as [|w bl IH] using rev_ind; intros c Hc.
  - cbn. do 8 (destruct c as [|c]; [reflexivity|]). unfold ncols in Hc. lia.
  - rewrite meta_of_snoc. cbn [meta_add m_cur]. rewrite nth_cols by auto. rewrite IH by auto.
    rewrite clen_app, clen_one by auto. reflexivity.
Qed.

Lemma ok_month a s w : Forall (op_ok a) (month_ops s w).
Proof. unfold month_ops. destruct (has_up _ _); repeat constructor. Qed.
Lemma ok_mkdir a s w : Forall (op_ok a) (mkdir_ops s w).
Proof. unfold mkdir_ops. repeat (apply Forall_app; split); try (destruct (has_up _ _)); repeat constructor. Qed.
Lemma ok_closes a p w : Forall (op_ok a) (col_closes p w).
Proof. apply Forall_flat_map; intros c. destruct (Nat.eqb _ _); repeat constructor. Qed.
Lemma ok_colops a p w : dp_key p = w_key w -> Forall (op_ok a) (flat_map (col_ops p (cur_meta a (w_key w)) w) cols).
Proof.
  intros K. assert (G : forall l, (forall c, In c l -> c < ncols) -> Forall (op_ok a) (flat_map (col_ops p (cur_meta a (w_key w)) w) l)).
  { induction l as [|c l IH]; intros Hl; cbn [flat_map]; [constructor|]. apply Forall_app; split; [|apply IH; intros; apply Hl; now right].
    unfold col_ops. destruct (Nat.eqb _ _); [constructor|].
    assert (O : op_ok a (OWrite (RCol p c) (nth c (m_cur (cur_meta a (w_key w))) 0) (WBytes (pbytes (w_id w) c (w_len w c))))).
    { cbn. rewrite K, cur_meta_daylist. apply m_cur_clen. apply Hl. now left. }
    destruct (nth c (w_renc w) false); repeat constructor; exact O. }
  apply G. intros c. apply in_cols.
Qed.
Lemma ok_nr a l : Forall (op_ok a) l -> Forall not_rename l.
Proof. apply Forall_impl. apply op_ok_not_rename. Qed.

Lemma apply_closes p w s : apply_all s (col_closes p w) = s.
Proof.
  unfold col_closes. generalize cols. intros l. revert s. induction l as [|c l IH]; intros s; cbn [flat_map]; [reflexivity|].
  rewrite apply_all_app, IH. destruct (Nat.eqb _ _); reflexivity.
Qed.

Lemma col_step p m w c s d bl : day_at s p = Some d -> c < ncols -> nth c (m_cur m) 0 = clen c bl ->
  exists d', day_at (apply_all s (col_ops p m w c)) p = Some d' /\
    read_col d' c (clen c bl) (w_len w c) = Some (blk w c) /\
    (forall c', c' <> c -> d_cols d' c' = d_cols d c') /\ d_suf d' = d_suf d.
Proof.
  intros D Hc OFF. unfold col_ops. destruct (Nat.eqb (w_len w c) 0) eqn:Z.
  - exists d. cbn. repeat split; auto. apply Nat.eqb_eq in Z. unfold blk. rewrite Z. reflexivity.
  - rewrite OFF. set (off := clen c bl). set (b := pbytes (w_id w) c (w_len w c)).
    (* the state after OpenFile *)
    assert (S1 : exists d1 old, day_at (fst (apply s (OOpenW (RCol p c)))) p = Some d1 /\ d_cols d1 c = Some old /\
                 (forall c', c' <> c -> d_cols d1 c' = d_cols d c') /\ d_suf d1 = d_suf d).
    { cbn [apply]. rewrite D. destruct (d_cols d c) as [old|] eqn:DC; cbn [fst].
      - exists d, old. auto.
      - exists (set_col d c (Some [])), []. split; [apply (day_at_upd s p (fun d0 => set_col d0 c (Some [])) d); auto|]. cbn. rewrite Nat.eqb_refl.
        repeat split; auto. intros c' N. apply Nat.eqb_neq in N. now rewrite N. }
    destruct S1 as (d1 & old & D1 & O1 & F1 & U1).
    set (s1 := fst (apply s (OOpenW (RCol p c)))) in *.
    assert (E : apply_all s ([OOpenW (RCol p c); OSeek (RCol p c) off] ++
                 (if nth c (w_renc w) false then [OSeek (RCol p c) off] else []) ++ [OWrite (RCol p c) off (WBytes b)])
                = fst (apply s1 (OWrite (RCol p c) off (WBytes b)))).
    { destruct (nth c (w_renc w) false); reflexivity. }
    rewrite E. cbn [apply]. rewrite D1, O1. cbn [fst].
    exists (set_col d1 c (Some (write_at old off b))).
    split; [apply (day_at_upd s1 p (fun d0 => set_col d0 c (Some (write_at old off b))) d1); auto|].
    split; [|split].
    + unfold read_col. rewrite Z. cbn [set_col d_cols]. rewrite Nat.eqb_refl.
      assert (LB : length b = w_len w c) by apply pbytes_len.
      assert (R : firstn (w_len w c) (skipn off (write_at old off b)) = b) by (rewrite <- LB at 1; apply read_at_written).
      cbv zeta. rewrite R, LB, Nat.eqb_refl. reflexivity.
    + intros c' N. pose proof (F1 c' N) as F. cbn. apply Nat.eqb_neq in N. rewrite N. exact F.
    + exact U1.
Qed.

Lemma cols_run p m w bl : (forall c, c < ncols -> nth c (m_cur m) 0 = clen c bl) ->
  forall cs s d, day_at s p = Some d -> (forall c, In c cs -> c < ncols) -> NoDup cs ->
  exists d', day_at (apply_all s (flat_map (col_ops p m w) cs)) p = Some d' /\
     (forall c, In c cs -> read_col d' c (clen c bl) (w_len w c) = Some (blk w c)) /\
     (forall c, ~ In c cs -> d_cols d' c = d_cols d c) /\ d_suf d' = d_suf d.
Proof.
  intros OFF. induction cs as [|c r IH]; intros s d D HC ND.
  - exists d. cbn. repeat split; auto. intros c [].
  - cbn [flat_map]. rewrite apply_all_app. inversion ND as [|? ? NI ND']; subst.
    destruct (col_step p m w c s d bl D (HC c (or_introl eq_refl)) (OFF c (HC c (or_introl eq_refl)))) as (d1 & D1 & R1 & F1 & U1).
    destruct (IH _ _ D1 (fun c' H' => HC c' (or_intror H')) ND') as (d2 & D2 & R2 & F2 & U2).
    exists d2. split; auto. split; [|split].
    + intros c' [<-|I]; [|now apply R2]. rewrite <- R1. apply read_col_ext. now apply F2.
    + intros c' N. rewrite F2 by (intros I; apply N; now right). apply F1. intros ->. apply N. now left.
    + congruence.
Qed.

(* after the column phase of a write-out the new block can be read at the committed end of every column *)
Lemma cols_phase p a w s d : dp_key p = w_key w -> day_at s p = Some d ->
  exists d', day_at (apply_all s (flat_map (col_ops p (cur_meta a (w_key w)) w) cols ++ col_closes p w)) p = Some d' /\
    forall c, c < ncols -> read_col d' c (clen c (daylist a (w_key w))) (w_len w c) = Some (blk w c).
Proof.
  intros K D. rewrite apply_all_app, apply_closes.
  destruct (cols_run p (cur_meta a (w_key w)) w (daylist a (w_key w))
              ltac:(intros c Hc; rewrite cur_meta_daylist; now apply m_cur_clen) cols s d D) as (d' & D' & R & _).
  - intros c. apply in_cols.
  - apply seq_NoDup.
  - exists d'. split; auto. intros c Hc. apply R. now apply in_cols.
Qed.

Ltac ok_tac :=
  repeat first [ apply ok_month | apply ok_mkdir | apply ok_closes | (apply ok_colops; reflexivity)
               | (apply Forall_app; split) | constructor ].

Lemma wo_good s a nf w : GoodS s a nf -> clean a nf -> wf_w w -> WoSpec s (writeout_ops s w) a nf w.
Proof.
  intros G C WFw. pose proof (proj2 G (w_key w)) as IL.
  unfold writeout_ops, writeout_run.
  destruct (lookup (w_key w) (f_days s)) as [d|] eqn:L.
  - assert (DA : day_at s {| dp_key := w_key w; dp_suf := d_suf d |} = Some d).
    { unfold day_at; cbn [dp_key dp_suf]. now rewrite L, otot_eqb_refl. }
    destruct (d_meta d) as [[m|]|] eqn:M.
    + destruct (lookup (w_key w) a) as [bl|] eqn:La.
      2:{ destruct IL as [HM _]. congruence. }
      destruct IL as (NE & HM & _). rewrite M in HM. injection HM as ->.
      rewrite meta_has_ts_of. destruct (existsb _ bl) eqn:EX; cbn [fst].
      * apply wo_rejected; auto.
        -- ok_tac.
        -- unfold adb_put. now rewrite La, EX.
      * replace (meta_of bl) with (cur_meta a (w_key w)) by (unfold cur_meta; now rewrite La).
        rewrite !app_assoc.
        apply wo_split_good; auto.
        -- ok_tac.
        -- rewrite <- !app_assoc. rewrite (app_assoc (month_ops s w)). rewrite apply_all_app.
           match goal with |- context [apply_all s (month_ops s w ++ ?X)] =>
             eapply (run_day_at (month_ops s w ++ X)) in DA as (d2 & D2 & _); [|apply (ok_nr a); ok_tac] end.
           apply (cols_phase _ a w _ d2); auto.
        -- unfold put_ok. now rewrite La, EX.
    + exfalso. destruct (lookup (w_key w) a).
      * destruct IL as (_ & HM & _). congruence.
      * destruct IL as [HM _]. congruence.
    + destruct (lookup (w_key w) a) as [bl|] eqn:La.
      { destruct IL as (_ & HM & _). congruence. }
      cbn [fst]. replace new_meta with (cur_meta a (w_key w)) by (unfold cur_meta; now rewrite La).
      rewrite !app_assoc.
      apply wo_split_good; auto.
      * ok_tac.
      * rewrite <- !app_assoc. rewrite (app_assoc (month_ops s w)). rewrite apply_all_app.
        match goal with |- context [apply_all s (month_ops s w ++ ?X)] =>
             eapply (run_day_at (month_ops s w ++ X)) in DA as (d2 & D2 & _); [|apply (ok_nr a); ok_tac] end.
        apply (cols_phase _ a w _ d2); auto.
      * unfold put_ok. now rewrite La.
  - cbn [fst]. replace new_meta with (cur_meta a (w_key w)) by (unfold cur_meta; now rewrite IL).
    rewrite !app_assoc.
    apply wo_split_good; auto.
    + ok_tac.
    + destruct (mkdir_creates s w L) as [d0 D0].
      rewrite <- !app_assoc. rewrite (app_assoc (month_ops s w)). rewrite apply_all_app.
      rewrite apply_all_app.
      eapply (run_day_at [OOpenR (RMeta {| dp_key := w_key w; dp_suf := None |})]) in D0 as (d2 & D2 & _); [|repeat constructor].
      apply (cols_phase _ a w _ d2); auto.
    + unfold put_ok. now rewrite IL.
Qed.

Lemma wo_final s a nf w : GoodS s a nf -> clean a nf -> wf_w w ->
  GoodS (apply_all s (writeout_ops s w)) (adb_put a w) (nf_put a w nf).
Proof.
  intros G C WFw. destruct (wo_good s a nf w G C WFw) as (k1 & k2 & _ & _ & _ & H3).
  specialize (H3 (S (k2 + length (writeout_ops s w))) ltac:(lia)).
  now rewrite firstn_all2 in H3 by lia.
Qed.

(* ------------------------------------------------------------------ histories: a monotone labelling of time *)
Definition bounded (a : adb) (nf : dkey -> nat) : Prop := forall k, nf k <= length (daylist a k).
Lemma clean_bounded a nf : clean a nf -> bounded a nf.
Proof. intros C k. rewrite C. lia. Qed.

Definition prefix_of {A} (l l' : list A) : Prop := exists r, l' = l ++ r.
Lemma daylist_put a w k : prefix_of (daylist a k) (daylist (adb_put a w) k).
Proof.
  destruct (keqb k (w_key w)) eqn:E.
  - apply keqb_eq in E; subst k. unfold adb_put, daylist.
    destruct (lookup (w_key w) a) as [bl|] eqn:L.
    + destruct (existsb _ bl); [rewrite L; exists []; now rewrite app_nil_r|].
      rewrite lookup_upd_same, L. cbn. now exists [w].
    + rewrite lookup_ins_same by auto. now exists [w].
  - apply keqb_neq in E. unfold daylist. rewrite lookup_put_other by auto. exists []. now rewrite app_nil_r.
Qed.
Lemma bounded_put a w nf : bounded a nf -> bounded (adb_put a w) nf.
Proof. intros B k. destruct (daylist_put a w k) as [r ->]. rewrite app_length. specialize (B k). lia. Qed.

(* Hist s ws a nf: there is a labelling of every time t (number of operations performed) with the number jf t
   of committed write-outs and the name counters nff t, both monotone, such that the state satisfies GoodS *)
Definition Hist (s : fs) (ws : list writeout) (a : adb) (nf : dkey -> nat) : Prop :=
  exists (jf : nat -> nat) (nff : nat -> dkey -> nat),
    (forall t t', t <= t' -> jf t <= jf t') /\ (forall t, jf t <= length ws) /\
    (forall t t' k, t <= t' -> nff t k <= nff t' k) /\ (forall k, nff 0 k = nf k) /\
    (forall t, GoodS (apply_all s (firstn t (hist_ops s ws))) (spec_db a (firstn (jf t) ws)) (nff t) /\
               bounded (spec_db a (firstn (jf t) ws)) (nff t)).

Lemma nf_put_ge a w nf k : bounded a nf -> nf k <= nf_put a w nf k.
Proof.
  intros B. unfold nf_put. destruct (keqb k (w_key w)) eqn:E; auto.
  destruct (daylist_put a w k) as [r ->]. rewrite app_length. specialize (B k). lia.
Qed.

Lemma wo_nonempty s w : 0 < length (writeout_ops s w).
Proof.
  unfold writeout_ops, writeout_run, month_ops.
  destruct (lookup (w_key w) (f_days s)) as [d|]; [destruct (d_meta d) as [[m|]|]; [destruct (meta_has_ts m (w_ts w))| |]|];
    cbn [fst app length]; lia.
Qed.

Lemma hist_good ws : Forall wf_w ws -> forall s a nf, GoodS s a nf -> clean a nf -> Hist s ws a nf.
Proof.
  induction 1 as [|w r WFw WFr IH]; intros s a nf G C.
  - exists (fun _ => 0), (fun _ => nf). split; [auto|]. split; [intros; cbn; lia|]. split; [auto|]. split; [auto|].
    intros t. split; [|now apply clean_bounded]. cbn. destruct t; cbn; exact G.
  - destruct (wo_good s a nf w G C WFw) as (k1 & k2 & L12 & H1 & H2 & H3).
    pose proof (wo_final s a nf w G C WFw) as GF. pose proof (clean_put a w nf C) as CF.
    pose proof (wo_nonempty s w) as NZ.
    set (O := writeout_ops s w) in *. set (n := length O) in *.
    destruct (IH _ _ _ GF CF) as (jr & nr & Mj & Bj & Mn & N0 & Gr).
    pose proof (clean_bounded _ _ C) as B0.
    exists (fun t => if t <? n then (if t <=? k1 then 0 else 1) else S (jr (t - n))),
           (fun t => if t <? n then (if t <=? k2 then nf else nf_put a w nf) else nr (t - n)).
    split; [|split; [|split; [|split]]].
    + intros t t' L. destruct (Nat.ltb_spec t n), (Nat.ltb_spec t' n); try lia.
      * destruct (Nat.leb_spec t k1), (Nat.leb_spec t' k1); lia.
      * destruct (t <=? k1); lia.
      * specialize (Mj (t - n) (t' - n) ltac:(lia)). lia.
    + intros t. cbn [length]. destruct (t <? n); [destruct (t <=? k1); lia|]. specialize (Bj (t - n)). lia.
    + intros t t' k L. destruct (Nat.ltb_spec t n), (Nat.ltb_spec t' n); try lia.
      * destruct (Nat.leb_spec t k2), (Nat.leb_spec t' k2); try lia. now apply nf_put_ge.
      * apply Nat.le_trans with (nr 0 k); [|apply Mn; lia]. rewrite N0.
        destruct (t <=? k2); auto. now apply nf_put_ge.
      * apply Mn. lia.
    + intros k. destruct (Nat.ltb_spec 0 n); [|lia]. reflexivity.
    + intros t. cbn [hist_ops]. fold O.
      destruct (Nat.ltb_spec t n) as [LT|GE].
      * rewrite firstn_app_le by (fold n; lia).
        destruct (Nat.leb_spec t k1) as [A1|A1].
        -- assert (t <= k2) as -> %Nat.leb_le by lia. cbn [firstn spec_db fold_left]. split; auto.
        -- cbn [firstn spec_db fold_left]. destruct (Nat.leb_spec t k2) as [A2|A2].
           ++ split; [now apply H2|]. now apply bounded_put.
           ++ split; [now apply H3|]. now apply clean_bounded.
      * rewrite firstn_app, firstn_all2, apply_all_app by (fold n; lia). fold n.
        cbn [firstn spec_db fold_left]. apply (Gr (t - n)).
Qed.

Lemma good_empty : GoodS fs_empty [] (fun _ => 0).
Proof. split; [constructor|]. intros k. reflexivity. Qed.
Lemma hist_from_empty ws : Forall wf_w ws -> Hist fs_empty ws [] (fun _ => 0).
Proof. intros WF. apply (hist_good ws WF _ _ _ good_empty). intros k. reflexivity. Qed.
