(* C30: the hypotheses `ts_incr ws` and `Forall wf_w ws` of c30_snapshot_partial replaced by ONE boolean
   acceptance test on the history, computed write-out by write-out against the abstract database (adb_put, the
   very function spec_db folds): a write-out passes if its bytes_rcvd column is not empty and its timestamp is
   newer than every block already committed for its day (what DBWriter.Write checks before it appends). *)
From Coq Require Import List ZArith NArith Bool Arith Lia Sorted.
From GoProbe.Base Require Import CorrLib.
From GoProbe.C04 Require Import Model.
From GoProbe.C30 Require Import C04P1 C04P2 C04P3 C04P4 C04P5 C04PC.
From GoProbe.C30 Require Import Model Corr Proofs Proofs2 Proofs3 WInv WInv2 WInv3 WInv4 RSpec REnv RThm.
Import ListNotations.

(* the timestamp test of one write-out against the abstract database *)
Definition ts_ok_b (a : adb) (w : writeout) : bool :=
  forallb (fun v => Z.ltb (w_ts v) (w_ts w)) (daylist a (w_key w)).
Fixpoint ts_acc (a : adb) (ws : list writeout) : bool :=
  match ws with [] => true | w :: r => ts_ok_b a w && ts_acc (adb_put a w) r end.
Definition wf_b (w : writeout) : bool := negb (Nat.eqb (w_len w 4) 0).
(* the history is accepted *)
Definition accepted (ws : list writeout) : bool := forallb wf_b ws && ts_acc [] ws.

Lemma sorted_snoc l w : ts_sorted l -> Forall (fun v => (w_ts v < w_ts w)%Z) l -> ts_sorted (l ++ [w]).
Proof.
  induction 1 as [|x l S IH F]; intros A; cbn.
  - repeat constructor.
  - inversion A as [|? ? Ax Al]; subst. constructor; [now apply IH|].
    apply Forall_app. split; [exact F|]. now repeat constructor.
Qed.

Lemma put_sorted a w : (forall k, ts_sorted (daylist a k)) -> ts_ok_b a w = true ->
  forall k, ts_sorted (daylist (adb_put a w) k).
Proof.
  intros SA OK k. destruct (keqb k (w_key w)) eqn:E.
  - apply keqb_eq in E; subst k. unfold ts_ok_b in OK. specialize (SA (w_key w)).
    unfold adb_put, daylist in *. destruct (lookup (w_key w) a) as [bl|] eqn:L.
    + destruct (existsb _ bl); [now rewrite L|]. rewrite lookup_upd_same, L. cbn.
      apply sorted_snoc; auto. rewrite forallb_forall in OK. apply Forall_forall. intros v Iv.
      apply Z.ltb_lt. now apply OK.
    + rewrite lookup_ins_same by exact L. repeat constructor.
  - apply keqb_neq in E. unfold daylist. rewrite lookup_put_other by exact E. apply SA.
Qed.

Lemma ts_acc_sorted ws : forall a, (forall k, ts_sorted (daylist a k)) -> ts_acc a ws = true ->
  forall k, ts_sorted (daylist (spec_db a ws) k).
Proof.
  induction ws as [|w r IH]; intros a SA AC k; cbn in *; [apply SA|].
  apply andb_prop in AC. destruct AC as [A1 A2]. apply IH; auto. now apply put_sorted.
Qed.

(* (2) ts_incr is implied by the boolean acceptance test *)
Theorem c30_ts_acc_incr : forall ws, ts_acc [] ws = true -> ts_incr ws.
Proof.
  intros ws AC k. unfold FL. apply ts_acc_sorted; auto. intros k'. constructor.
Qed.

Theorem c30_wf_b_wf : forall ws, forallb wf_b ws = true -> Forall wf_w ws.
Proof.
  intros ws H. rewrite forallb_forall in H. apply Forall_forall. intros w I. specialize (H w I).
  unfold wf_b in H. unfold wf_w. intros E. rewrite E in H. discriminate.
Qed.

(* the converse for wf: the boolean test is exactly the hypothesis *)
Theorem c30_wf_b_iff : forall ws, forallb wf_b ws = true <-> Forall wf_w ws.
Proof.
  intros ws. split; [apply c30_wf_b_wf|]. intros H. apply forallb_forall. intros w I.
  rewrite Forall_forall in H. specialize (H w I). unfold wf_b, wf_w in *.
  destruct (Nat.eqb (w_len w 4) 0) eqn:E; auto. apply Nat.eqb_eq in E. contradiction.
Qed.

(* the query theorem with `the history is accepted` in place of Forall wf_w / ts_incr *)
Theorem c30_snapshot_accepted : forall ws out, accepted ws = true -> totals_no_recur ws ->
  conc (cal_of ws) fs_empty (hist_ops fs_empty ws) (reader_prog true) out ->
  exists o, out = Ok o /\ o_broken o = 0 /\ Forall (day_ok ws) (o_days o).
Proof.
  intros ws out AC NR C. unfold accepted in AC. apply andb_prop in AC. destruct AC as [A1 A2].
  eapply query_snapshot; eauto using c30_wf_b_wf, c30_ts_acc_incr.
Qed.

Theorem c30_listing_snapshot_accepted : forall ws out, forallb wf_b ws = true -> totals_no_recur ws ->
  conc (cal_of ws) fs_empty (hist_ops fs_empty ws) (reader_prog false) out ->
  exists o, out = Ok o /\ Forall (tot_ok ws) (o_tots o).
Proof.
  intros ws out A NR C. eapply listing_snapshot; eauto using c30_wf_b_wf.
Qed.

(* non-vacuity *)
Example c30_accepted_example : accepted hist1 = true.
Proof. vm_compute. reflexivity. Qed.

Print Assumptions c30_ts_acc_incr.
Print Assumptions c30_wf_b_iff.
Print Assumptions c30_snapshot_accepted.
Print Assumptions c30_listing_snapshot_accepted.
