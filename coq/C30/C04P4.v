(* Copy of coq/C04/Proofs4.v as of the C04 merge (the C04 proof files are being reworked; C30 only relies on
   C04's Model.v and on this frozen copy of the lemmas it uses). *)
(* C04 proofs, part 4: every prefix of one write-out, then histories. *)
From Coq Require Import List ZArith NArith Bool Arith Lia.
From GoProbe.Base Require Import CorrLib.
From GoProbe.C04 Require Import Model.
From GoProbe.C30 Require Import C04P1 C04P2 C04P3.
Import ListNotations.

Lemma apply_all_app s l1 l2 : apply_all s (l1 ++ l2) = apply_all (apply_all s l1) l2.
Proof. unfold apply_all. now rewrite fold_left_app. Qed.

Lemma pre_run st l : Forall not_rename l -> forall s a, InvS st s a ->
  InvS st (apply_all s l) a /\
  (forall q d, day_at s q = Some d -> exists d', day_at (apply_all s l) q = Some d' /\ d_meta d' = d_meta d).
Proof.
  induction 1 as [|o l NR F IH]; intros s a I; cbn.
  - split; eauto.
  - destruct (step_pre st s a o NR I) as [I1 D1]. destruct (IH _ _ I1) as [I2 D2]. split; auto.
    intros q d Hq. destruct (D1 _ _ Hq) as (d1 & H1 & E1). destruct (D2 _ _ H1) as (d2 & H2 & E2).
    exists d2. split; auto. congruence.
Qed.
Lemma Forall_firstn {A} (P : A -> Prop) k l : Forall P l -> Forall P (firstn k l).
Proof. intros F. revert k. induction F; intros [|k]; cbn; auto. Qed.
Lemma pre_prefix st l k s a : Forall not_rename l -> InvS st s a -> InvS st (apply_all s (firstn k l)) a.
Proof. intros F I. apply pre_run; auto. now apply Forall_firstn. Qed.

Lemma tot_eqb_eq x y : tot_eqb x y = true -> x = y.
Proof.
  destruct x, y; unfold tot_eqb; cbn. rewrite !andb_true_iff, !N.eqb_eq. intuition congruence.
Qed.
Lemma otot_eqb_eq x y : otot_eqb x y = true -> x = y.
Proof. destruct x, y; cbn; intros H; try discriminate; auto. f_equal. now apply tot_eqb_eq. Qed.

(* the outcome for a prefix state: nothing of w visible yet / w completely visible / the stale-listing point *)
Definition outcome (ops : list fsop) (k : nat) (sk : fs) (a : adb) (w : writeout) : Prop :=
  Inv sk a \/ Inv sk (adb_put a w) \/ (stale_point ops k = true /\ InvS (Some (w_key w)) sk (adb_put a w)).

Lemma nth_error_app_r {A} (l1 l2 : list A) k : nth_error (l1 ++ l2) (length l1 + k) = nth_error l2 k.
Proof. rewrite nth_error_app2 by lia. f_equal. lia. Qed.

(* the operations from CreateTemp on, started in a state where the day directory p exists *)
Lemma commit_tail P s1 a p d1 w :
  Inv s1 a -> day_at s1 p = Some d1 -> dp_key p = w_key w -> put_ok a w = true ->
  let C := commit_ops p (cur_meta a (w_key w)) w in
  (forall k, outcome (P ++ C) (length P + k) (apply_all s1 (firstn k C)) a w) /\
  Inv (apply_all s1 C) (adb_put a w).
Proof.
  intros I D K PO C.
  set (m' := meta_add (cur_meta a (w_key w)) w) in *.
  set (t := RTmp p (w_id w)) in *.
  (* the state after CreateTemp and Write *)
  set (s2 := apply_all s1 [OOpenX t; OWrite t 0 (WMeta m')]).
  assert (I2 : Inv s2 a) by (apply pre_run; auto; repeat constructor).
  assert (D2 : exists d2, day_at s2 p = Some d2 /\ tmp_get (w_id w) (d_tmps d2) = Some (Some m') /\ d_suf d2 = d_suf d1).
  { unfold s2, apply_all; cbn [fold_left apply t]. rewrite D. cbn [fst].
    erewrite day_at_upd by (eauto). cbn [fst].
    eexists. split; [apply day_at_upd; [apply day_at_upd; eauto|reflexivity]|].
    split; [cbn; now rewrite Nat.eqb_refl|reflexivity]. }
  destruct D2 as (d2 & D2 & T2 & S2).
  destruct (day_at_some _ _ _ D) as [_ O1].
  pose proof (step_commit s2 a p (w_id w) d2 w I2 D2 K PO T2) as (IS & IC & (d3 & D3 & M3)).
  fold t in IS, IC, D3. set (s3 := fst (apply s2 (ORename t (RMeta p)))) in *.
  assert (E5 : forall l, apply_all s1 ([OOpenX t; OWrite t 0 (WMeta m'); OClose t; OChmod t; ORename t (RMeta p)] ++ l) = apply_all s3 l).
  { intros l. reflexivity. }
  set (RD := if otot_eqb (dp_suf p) (Some (m_tot m')) then []
             else [ORenameDir p {| dp_key := dp_key p; dp_suf := Some (m_tot m') |}]).
  assert (EC : C = [OOpenX t; OWrite t 0 (WMeta m'); OClose t; OChmod t; ORename t (RMeta p)] ++ RD ++ [OUnlink t; ORmdir t]) by reflexivity.
  assert (TL : Forall not_rename [OUnlink t; ORmdir t]) by (repeat constructor).
  (* the state after the directory rename (if any) satisfies the clean invariant *)
  assert (I4 : Inv (apply_all s3 RD) (adb_put a w)).
  { unfold RD. destruct (otot_eqb (dp_suf p) (Some (m_tot m'))) eqn:EQ; unfold apply_all; cbn [fold_left].
    - apply IC. right. apply otot_eqb_eq in EQ. apply otot_eqb_eq in O1. rewrite S2, O1, EQ. reflexivity.
    - apply (step_rendir (Some (w_key w)) s3 _ p d3 m'); [exact IS | right; now rewrite K | exact D3 | exact M3]. }
  split.
  - intros k. rewrite EC.
    destruct k as [|[|[|[|[|k]]]]].
    1-5: left; cbn [firstn app]; apply pre_run; auto; repeat constructor.
    change (firstn (S (S (S (S (S k))))) ([OOpenX t; OWrite t 0 (WMeta m'); OClose t; OChmod t; ORename t (RMeta p)] ++ RD ++ [OUnlink t; ORmdir t]))
      with ([OOpenX t; OWrite t 0 (WMeta m'); OClose t; OChmod t; ORename t (RMeta p)] ++ firstn k (RD ++ [OUnlink t; ORmdir t])).
    rewrite E5.
    unfold RD in *. destruct (otot_eqb (dp_suf p) (Some (m_tot m'))) eqn:EQ.
    + right. left. cbn [app]. apply pre_prefix; auto.
    + destruct k as [|k]; cbn [app firstn].
      * (* killed between the two renames *)
        destruct (dp_suf p) as [ts|] eqn:SP.
        -- right. right. split; [|exact IS].
           unfold stale_point. rewrite nth_error_app_r. cbn. now rewrite SP.
        -- right. left. apply IC. left. apply otot_eqb_eq in O1. rewrite S2. exact O1.
      * right. left. cbn [apply_all fold_left]. fold (apply_all (fst (apply s3 (ORenameDir p {| dp_key := dp_key p; dp_suf := Some (m_tot m') |}))) (firstn k [OUnlink t; ORmdir t])).
        apply pre_prefix; auto.
  - rewrite EC, E5, apply_all_app. apply pre_run; auto.
Qed.
