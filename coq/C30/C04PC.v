(* Copy of coq/C04/ProofsCols.v (column content lemmas), using the mbw of the frozen C04P2.v. *)
(* C04 proofs: column files.  Reading a block back, writes at the committed end, the full reader on a day. *)
From Coq Require Import List ZArith NArith Bool Arith Lia.
From GoProbe.Base Require Import CorrLib.
From GoProbe.C04 Require Import Model.
From GoProbe.C30 Require Import C04P1 C04P2.
Import ListNotations.

Definition clen (c : nat) (bl : list writeout) : nat := offs_upto c (map mbw bl).
Definition blk (w : writeout) (c : nat) : list abyte := pbytes (w_id w) c (w_len w c).
(* bytes_rcvd is never empty (bitpack.Pack emits at least its width byte) *)
Definition wf_w (w : writeout) : Prop := w_len w 4 <> 0.

Lemma nth_cols {A} (f : nat -> A) c dflt : c < ncols -> nth c (map f cols) dflt = f c.
Proof. intros H. do 8 (destruct c as [|c]; [reflexivity|]). unfold ncols in H. lia. Qed.
Lemma in_cols c : In c cols <-> c < ncols.
Proof. unfold cols. rewrite in_seq. lia. Qed.
Lemma mbw_len w c : c < ncols -> nth c (mb_lens (mbw w)) 0 = w_len w c.
Proof. intros H. cbn. now apply nth_cols. Qed.

Lemma offs_app c l1 l2 : offs_upto c (l1 ++ l2) = offs_upto c l1 + offs_upto c l2.
Proof. induction l1; cbn; auto. rewrite IHl1. lia. Qed.
Lemma clen_app c l1 l2 : clen c (l1 ++ l2) = clen c l1 + clen c l2.
Proof. unfold clen. now rewrite map_app, offs_app. Qed.
Lemma clen_one c w : c < ncols -> clen c [w] = w_len w c.
Proof. intros H. unfold clen. cbn [map offs_upto]. rewrite mbw_len by auto. lia. Qed.

Lemma pbytes_len id c n : length (pbytes id c n) = n.
Proof. unfold pbytes. now rewrite map_length, seq_length. Qed.
Lemma blk_len w c : length (blk w c) = w_len w c.
Proof. apply pbytes_len. Qed.

(* ------------------------------------------------------------------ write_at *)
Lemma write_at_head_len old off : length (firstn off old ++ repeat hole (off - length old)) = off.
Proof. rewrite app_length, firstn_length, repeat_length. lia. Qed.
Lemma read_at_written old off b : firstn (length b) (skipn off (write_at old off b)) = b.
Proof.
  unfold write_at. rewrite app_assoc. rewrite skipn_app, write_at_head_len, Nat.sub_diag.
  rewrite skipn_all2 by (rewrite write_at_head_len; lia). cbn [skipn app].
  rewrite firstn_app, Nat.sub_diag. cbn [firstn]. now rewrite firstn_all, app_nil_r.
Qed.
Lemma read_below_written old off b o l : o + l <= off -> o + l <= length old ->
  firstn l (skipn o (write_at old off b)) = firstn l (skipn o old).
Proof.
  intros H1 H2. unfold write_at.
  rewrite skipn_app. rewrite firstn_app.
  assert (L : length (skipn o (firstn off old)) >= l) by (rewrite skipn_length, firstn_length; lia).
  replace (l - length (skipn o (firstn off old))) with 0 by lia. cbn [firstn]. rewrite app_nil_r.
  rewrite skipn_firstn_comm, firstn_firstn. f_equal. lia.
Qed.

(* ------------------------------------------------------------------ read_col under updates of a day *)
Lemma read_col_ext d d' c o l : d_cols d' c = d_cols d c -> read_col d' c o l = read_col d c o l.
Proof. unfold read_col. now intros ->. Qed.
Lemma read_col_len d c o l x : read_col d c o l = Some x -> length x = l.
Proof.
  unfold read_col. destruct (Nat.eqb l 0) eqn:E.
  - apply Nat.eqb_eq in E. intros [= <-]. now subst.
  - destruct (d_cols d c); [|discriminate]. destruct (Nat.eqb _ l) eqn:E2; [|discriminate].
    intros [= <-]. now apply Nat.eqb_eq.
Qed.
Lemma read_col_zero d c o : read_col d c o 0 = Some [].
Proof. reflexivity. Qed.

(* the committed blocks of a day read back what was written for them *)
Definition cols_ok (d : dayfs) (bl : list writeout) : Prop :=
  forall pre w post, bl = pre ++ w :: post -> forall c, c < ncols ->
    read_col d c (clen c pre) (w_len w c) = Some (blk w c).

Lemma cols_ok_ext d d' bl : (forall c, d_cols d' c = d_cols d c) -> cols_ok d bl -> cols_ok d' bl.
Proof. intros E H pre w post -> c Hc. rewrite (read_col_ext d d') by auto. eapply H; eauto. Qed.

(* OpenFile(O_CREAT) of a missing column file *)
Lemma cols_ok_create d bl c : d_cols d c = None -> cols_ok d bl -> cols_ok (set_col d c (Some [])) bl.
Proof.
  intros N H pre w post -> c' Hc. specialize (H pre w post eq_refl c' Hc).
  destruct (Nat.eq_dec c' c) as [->|NE].
  - unfold read_col in *. rewrite N in H. destruct (Nat.eqb (w_len w c) 0); [exact H|discriminate].
  - rewrite <- H. apply read_col_ext. cbn. apply Nat.eqb_neq in NE. now rewrite NE.
Qed.
(* a write at the committed end of a column *)
Lemma cols_ok_write d bl c old b : d_cols d c = Some old -> c < ncols ->
  cols_ok d bl -> cols_ok (set_col d c (Some (write_at old (clen c bl) b))) bl.
Proof.
  intros O Hc H pre w post E c' Hc'. specialize (H pre w post E c' Hc').
  destruct (Nat.eq_dec c' c) as [->|NE].
  - unfold read_col in *. cbn [set_col d_cols]. rewrite Nat.eqb_refl. rewrite O in H.
    destruct (Nat.eqb (w_len w c) 0) eqn:Z; [exact H|].
    destruct (Nat.eqb (length (firstn (w_len w c) (skipn (clen c pre) old))) (w_len w c)) eqn:L; [|discriminate].
    apply Nat.eqb_eq in L. rewrite firstn_length, skipn_length in L.
    assert (B : clen c pre + w_len w c <= clen c bl).
    { subst bl. rewrite clen_app. change (w :: post) with ([w] ++ post). rewrite clen_app, clen_one by auto. lia. }
    rewrite read_below_written by lia. rewrite firstn_length, skipn_length.
    replace (Nat.eqb (Nat.min (w_len w c) (length old - clen c pre)) (w_len w c)) with true by (symmetry; apply Nat.eqb_eq; lia).
    exact H.
  - rewrite <- H. apply read_col_ext. cbn. apply Nat.eqb_neq in NE. now rewrite NE.
Qed.
(* the committed blocks plus a block found at the committed end *)
Lemma cols_ok_snoc d bl w :
  cols_ok d bl -> (forall c, c < ncols -> read_col d c (clen c bl) (w_len w c) = Some (blk w c)) ->
  cols_ok d (bl ++ [w]).
Proof.
  intros H N pre x post E c Hc.
  destruct (list_eq_dec Nat.eq_dec [length post] [0]) as [Z|Z].
  - injection Z as Z. destruct post; [|discriminate]. apply app_inj_tail in E as [<- <-]. now apply N.
  - assert (exists post', post = post' ++ [w] /\ bl = pre ++ x :: post') as (post' & -> & ->).
    { destruct (exists_last (l := post)) as (post' & y & ->); [intros ->; now apply Z|].
      exists post'. rewrite app_comm_cons, app_assoc in E. apply app_inj_tail in E as [E1 E2]. now subst. }
    eapply H; eauto.
Qed.

(* ------------------------------------------------------------------ the reader on one day *)
Lemma abyte_eqb_refl x : abyte_eqb x x = true.
Proof. destruct x as [[a b] c]. unfold abyte_eqb; cbn. now rewrite !Nat.eqb_refl. Qed.
Lemma list_eqb_refl l : list_eqb abyte_eqb l l = true.
Proof. induction l; cbn; auto. now rewrite abyte_eqb_refl. Qed.

Lemma decode_ok w : wf_w w -> decode_block (map (blk w) cols) (mb_lens (mbw w)) = Some (w_id w).
Proof.
  intros WF. unfold decode_block.
  change (nth 4 (map (blk w) cols) []) with (blk w 4). unfold blk at 1, pbytes.
  destruct (w_len w 4) eqn:L4; [contradiction|]. cbn [seq map].
  replace (forallb _ cols) with true; auto. symmetry. apply forallb_forall. intros c Hc. apply in_cols in Hc.
  rewrite nth_cols, mbw_len by auto. apply list_eqb_refl.
Qed.

Lemma day_blocks_ok d bl : cols_ok d bl -> Forall wf_w bl -> forall post pre, bl = pre ++ post ->
  day_blocks d (map mbw pre) (map mbw post)
  = map (fun w => (w_ts w, w_id w)) (filter (fun w => negb (Nat.eqb (w_len w 0) 0)) post).
Proof.
  intros CO WF. induction post as [|w post IH]; intros pre E; [reflexivity|].
  cbn [map day_blocks filter].
  assert (R : map (fun c => read_col d c (offs_upto c (map mbw pre)) (nth c (mb_lens (mbw w)) 0)) cols
              = map (fun c => Some (blk w c)) cols).
  { apply map_ext_in. intros c Hc. apply in_cols in Hc. rewrite mbw_len by auto. eapply CO; eauto. }
  rewrite R. replace (map mbw pre ++ [mbw w]) with (map mbw (pre ++ [w])) by (now rewrite map_app).
  rewrite (IH (pre ++ [w])) by (now rewrite <- app_assoc).
  rewrite mbw_len by (unfold ncols; lia).
  destruct (Nat.eqb (w_len w 0) 0); cbn [negb]; [reflexivity|].
  replace (forallb _ (map (fun c => Some (blk w c)) cols)) with true by reflexivity.
  rewrite map_map. cbn [map]. rewrite decode_ok; [reflexivity|].
  rewrite Forall_forall in WF. apply WF. subst bl. apply in_or_app. right. now left.
Qed.
