(* C30 proofs, writer side (3): one write-out. *)
From Coq Require Import List ZArith NArith Bool Arith Lia.
From GoProbe.Base Require Import CorrLib.
From GoProbe.C04 Require Import Model.
From GoProbe.C30 Require Import C04P1 C04P2 C04P3 C04P4 C04P5 C04PC.
From GoProbe.C30 Require Import WInv WInv2.
Import ListNotations.

Ltac keep_upd Hq := eapply day_at_upd_other; [exact Hq | intros; split; reflexivity].
Lemma step_day_at s o q d : not_rename o -> day_at s q = Some d ->
  exists d', day_at (fst (apply s o)) q = Some d' /\ d_meta d' = d_meta d.
Proof.
  intros NR Hq. destruct o as [dr|f|f|f|f off|f off dat|f|f|f g|p q'|f|f]; try contradiction; cbn [apply].
  - destruct dr as [u|p].
    + destruct (has_up s u); cbn [fst]; eauto.
    + destruct (lookup (dp_key p) (f_days s)) eqn:L; [cbn [fst]; eauto|].
      destruct (dp_suf p); cbn [fst]; eauto.
      apply day_at_some in Hq as [L2 O]. exists d. split; auto.
      unfold day_at; cbn [f_days]. rewrite lookup_ins_other, L2, O; auto.
      intros E. rewrite E in L2. congruence.
  - destruct f; cbn [fst]; eauto.
  - destruct f as [| |p c|]; cbn [fst]; eauto.
    destruct (day_at s p) as [d0|] eqn:D; cbn [fst]; eauto.
    destruct (d_cols d0 c); eauto. keep_upd Hq.
  - destruct f as [| | |p n]; cbn [fst]; eauto.
    destruct (day_at s p) as [d0|] eqn:D; cbn [fst]; eauto. keep_upd Hq.
  - cbn [fst]; eauto.
  - destruct f as [| |p c|p n]; cbn [fst]; eauto.
    + destruct dat; cbn [fst]; eauto.
      destruct (day_at s p) as [d0|] eqn:D; cbn [fst]; eauto.
      destruct (d_cols d0 c); cbn [fst]; eauto. keep_upd Hq.
    + destruct (day_at s p) as [d0|] eqn:D; cbn [fst]; eauto. keep_upd Hq.
  - cbn [fst]; eauto.
  - destruct f; cbn [fst]; eauto.
  - destruct f as [| | |p n]; cbn [fst]; eauto.
    destruct (day_at s p) as [d0|] eqn:D; cbn [fst]; eauto.
    destruct (tmp_get n (d_tmps d0)); cbn [fst]; eauto. keep_upd Hq.
  - cbn [fst]; eauto.
Qed.
Lemma run_day_at l : Forall not_rename l -> forall s q d, day_at s q = Some d ->
  exists d', day_at (apply_all s l) q = Some d' /\ d_meta d' = d_meta d.
Proof.
  induction 1 as [|o l NR F IH]; intros s q d Hq; cbn; eauto.
  destruct (step_day_at s o q d NR Hq) as (d1 & H1 & E1). destruct (IH _ _ _ H1) as (d2 & H2 & E2).
  exists d2. split; auto. congruence.
Qed.

Definition nf_put (a : adb) (w : writeout) (nf : dkey -> nat) : dkey -> nat :=
  fun k => if keqb k (w_key w) then length (daylist (adb_put a w) k) else nf k.
Lemma clean_put a w nf : clean a nf -> clean (adb_put a w) (nf_put a w nf).
Proof.
  intros C k. unfold nf_put. destruct (keqb k (w_key w)) eqn:E.
  - apply keqb_eq in E; subst; auto.
  - apply keqb_neq in E. rewrite C. unfold daylist. now rewrite lookup_put_other.
Qed.

(* the three phases of a write-out: before the commit, between the two renames, afterwards *)
Definition WoSpec (s : fs) (ops : list fsop) (a : adb) (nf : dkey -> nat) (w : writeout) : Prop :=
  exists k1 k2, k1 <= k2 /\
    (forall t, t <= k1 -> GoodS (apply_all s (firstn t ops)) a nf) /\
    (forall t, k1 < t -> t <= k2 -> GoodS (apply_all s (firstn t ops)) (adb_put a w) nf) /\
    (forall t, k2 < t -> GoodS (apply_all s (firstn t ops)) (adb_put a w) (nf_put a w nf)).

Lemma wo_rejected s a nf w ops : Forall (op_ok a) ops -> GoodS s a nf -> clean a nf -> adb_put a w = a ->
  WoSpec s ops a nf w.
Proof.
  intros F G C E. exists (length ops), (length ops). split; auto. split; [|split].
  - intros t _. now apply prefix_good.
  - intros; lia.
  - intros t L. rewrite E. apply (GoodS_ext _ _ nf); [|now apply prefix_good].
    intros k. unfold nf_put. destruct (keqb k (w_key w)) eqn:EK; auto.
    apply keqb_eq in EK; subst. rewrite E. apply C.
Qed.

Lemma wo_split_good P s a nf w p :
  Forall (op_ok a) P -> GoodS s a nf -> clean a nf -> wf_w w ->
  (exists d, day_at (apply_all s P) p = Some d /\
             forall c, c < ncols -> read_col d c (clen c (daylist a (w_key w))) (w_len w c) = Some (blk w c)) ->
  dp_key p = w_key w -> put_ok a w = true ->
  WoSpec s (P ++ commit_ops p (cur_meta a (w_key w)) w) a nf w.
Proof.
  intros FP G C WFw (d1 & D1 & NEW1) K PO.
  set (m' := meta_add (cur_meta a (w_key w)) w).
  set (t := RTmp p (w_id w)).
  set (C4 := [OOpenX t; OWrite t 0 (WMeta m'); OClose t; OChmod t]).
  set (R1 := ORename t (RMeta p)).
  set (RD := if otot_eqb (dp_suf p) (Some (m_tot m')) then []
             else [ORenameDir p {| dp_key := dp_key p; dp_suf := Some (m_tot m') |}]).
  set (TL := [OUnlink t; ORmdir t]).
  assert (EC : commit_ops p (cur_meta a (w_key w)) w = C4 ++ R1 :: RD ++ TL) by reflexivity.
  rewrite EC, app_assoc. set (Q := P ++ C4).
  assert (FQ : Forall (op_ok a) Q) by (apply Forall_app; split; auto; repeat constructor).
  assert (FT : Forall (op_ok (adb_put a w)) TL) by (repeat constructor).
  set (sQ := apply_all s Q).
  assert (GQ : GoodS sQ a nf) by (now apply run_good).
  destruct (day_at_some _ _ _ D1) as [_ O1]. apply otot_eqb_eq in O1.
  assert (D2 : exists d2, day_at sQ p = Some d2 /\ tmp_get (w_id w) (d_tmps d2) = Some (Some m') /\ d_suf d2 = d_suf d1
                          /\ forall c, d_cols d2 c = d_cols d1 c).
  { unfold sQ, Q. rewrite apply_all_app. unfold apply_all at 1, C4; cbn [fold_left apply t]. rewrite D1. cbn [fst].
    erewrite day_at_upd by (eauto). cbn [fst].
    eexists. split; [apply day_at_upd; [apply day_at_upd; eauto|reflexivity]|].
    split; [cbn; now rewrite Nat.eqb_refl|split; [reflexivity|intros; reflexivity]]. }
  destruct D2 as (d2 & D2 & T2 & S2 & C2).
  set (s3 := fst (apply sQ R1)).
  assert (NB : nf (w_key w) <= length (daylist a (w_key w))) by (rewrite C; lia).
  assert (G3 : GoodS s3 (adb_put a w) nf).
  { apply (commit_good sQ a nf p (w_id w) d2 w); auto. intros c Hc. rewrite <- (NEW1 c Hc). now apply read_col_ext. }
  assert (D3 : exists d3, day_at s3 p = Some d3 /\ d_suf d3 = d_suf d2).
  { unfold s3, R1, t; cbn [apply]. rewrite D2, T2. cbn [fst]. eexists. split; [apply day_at_upd; eauto|reflexivity]. }
  destruct D3 as (d3 & D3 & S3).
  set (bl' := daylist a (w_key w) ++ [w]).
  assert (La : lookup (dp_key p) (adb_put a w) = Some bl') by (rewrite K; now apply lookup_put_same).
  assert (MT : m_tot m' = tots_of bl').
  { unfold m', bl'. rewrite cur_meta_daylist, <- meta_of_snoc. apply meta_of_tot. }
  assert (NP : forall k, (if keqb k (dp_key p) then length bl' else nf k) = nf_put a w nf k).
  { intros k. unfold nf_put. rewrite K. destruct (keqb k (w_key w)) eqn:E; auto.
    apply keqb_eq in E; subst k. unfold daylist at 1. rewrite <- K, La. reflexivity. }
  assert (PRE : forall u, u <= length Q -> GoodS (apply_all s (firstn u (Q ++ R1 :: RD ++ TL))) a nf).
  { intros u L. rewrite firstn_app_le by auto. now apply prefix_good. }
  assert (SPL : forall u X, apply_all s (firstn (length Q + S u) (Q ++ R1 :: X)) = apply_all s3 (firstn u X)).
  { intros u X. rewrite firstn_app, firstn_all2 by lia. replace (length Q + S u - length Q) with (S u) by lia.
    cbn [firstn]. rewrite apply_all_app. reflexivity. }
  unfold RD in *. clear RD. destruct (otot_eqb (dp_suf p) (Some (m_tot m'))) eqn:EQ.
  - (* the totals did not change: no directory rename *)
    apply otot_eqb_eq in EQ.
    assert (G3' : GoodS s3 (adb_put a w) (nf_put a w nf)).
    { apply (GoodS_ext _ _ _ _ NP). destruct (day_at_some _ _ _ D3) as [L3 _].
      apply (renumber_good s3 _ nf (dp_key p) d3 bl'); auto. rewrite S3, S2, O1, EQ, MT. reflexivity. }
    exists (length Q), (length Q). split; auto. split; [exact PRE|]. split; [intros; lia|].
    intros u L. replace u with (length Q + S (u - length Q - 1)) by lia. rewrite SPL. cbn [app]. now apply prefix_good.
  - exists (length Q), (S (length Q)). split; [lia|]. split; [exact PRE|]. split.
    + intros u L1 L2. replace u with (length Q + 1) by lia. rewrite SPL. exact G3.
    + intros u L. replace u with (length Q + S (S (u - length Q - 2))) by lia. rewrite SPL. cbn [app firstn].
      change (apply_all s3 (?o :: ?r)) with (apply_all (fst (apply s3 o)) r).
      apply prefix_good; auto. apply (GoodS_ext _ _ _ _ NP). rewrite MT.
      apply (rendir_good s3 _ nf p d3 bl'); auto.
Qed.
