(* C30 proofs, writer side (2): the two renames. *)
From Coq Require Import List ZArith NArith Bool Arith Lia.
From GoProbe.Base Require Import CorrLib.
From GoProbe.C04 Require Import Model.
From GoProbe.C30 Require Import C04P1 C04P2 C04P3 C04P4 C04P5 C04PC.
From GoProbe.C30 Require Import WInv.
Import ListNotations.

Lemma GoodS_ext s a nf nf' : (forall k, nf k = nf' k) -> GoodS s a nf -> GoodS s a nf'.
Proof. intros E [S G]. split; auto. intros k. specialize (G k). rewrite <- E. exact G. Qed.

Lemma lookup_put_other a w k : k <> w_key w -> lookup k (adb_put a w) = lookup k a.
Proof.
  intros N. unfold adb_put. destruct (lookup (w_key w) a) as [bl|] eqn:L.
  - destruct (existsb _ bl); auto. now rewrite lookup_upd_other.
  - now rewrite lookup_ins_other.
Qed.
Lemma lookup_put_same a w : put_ok a w = true ->
  lookup (w_key w) (adb_put a w) = Some (daylist a (w_key w) ++ [w]).
Proof.
  unfold put_ok, adb_put, daylist. destruct (lookup (w_key w) a) as [bl|] eqn:L; intros P.
  - apply negb_true_iff in P. rewrite P. now rewrite lookup_upd_same, L.
  - now rewrite lookup_ins_same.
Qed.
Lemma cur_meta_daylist a k : cur_meta a k = meta_of (daylist a k).
Proof. unfold cur_meta, daylist. destruct (lookup k a); reflexivity. Qed.
Lemma firstn_app_le {A} n (l r : list A) : n <= length l -> firstn n (l ++ r) = firstn n l.
Proof. intros L. rewrite firstn_app. replace (n - length l) with 0 by lia. cbn. now rewrite app_nil_r. Qed.

(* the metadata rename: the commit point *)
Lemma commit_good s a nf p n d w :
  GoodS s a nf -> nf (w_key w) <= length (daylist a (w_key w)) ->
  day_at s p = Some d -> dp_key p = w_key w -> put_ok a w = true ->
  tmp_get n (d_tmps d) = Some (Some (meta_add (cur_meta a (w_key w)) w)) ->
  wf_w w -> (forall c, c < ncols -> read_col d c (clen c (daylist a (w_key w))) (w_len w c) = Some (blk w c)) ->
  GoodS (fst (apply s (ORename (RTmp p n) (RMeta p)))) (adb_put a w) nf.
Proof.
  intros [S G] NB D K PO T WFw NEW. cbn [apply]. rewrite D, T. cbn [fst].
  destruct (day_at_some _ _ _ D) as [L O]. rewrite K in L.
  split; cbn [f_days upd_day]; [now apply ksorted_upd|]. rewrite K.
  intros k. destruct (keqb k (w_key w)) eqn:E.
  - apply keqb_eq in E; subst k. rewrite lookup_upd_same, L. cbn [option_map].
    rewrite lookup_put_same by auto. specialize (G (w_key w)). rewrite L in G.
    unfold GoodD in *. cbn [d_meta d_suf set_tmps set_meta].
    rewrite cur_meta_daylist, <- meta_of_snoc.
    unfold daylist in *. destruct (lookup (w_key w) a) as [bl|] eqn:La.
    + destruct G as (NE & HM & LN & HS & CO & WF). repeat split; auto.
      * destruct bl; discriminate.
      * rewrite app_length; lia.
      * now rewrite firstn_app_le.
      * apply cols_ok_snoc; [eapply cols_ok_ext; [|exact CO]; reflexivity|].
        intros c Hc. rewrite <- (NEW c Hc). now apply read_col_ext.
      * apply Forall_app; split; auto.
    + destruct G as (HM & HS). cbn in NB. replace (nf (w_key w)) with 0 by lia. repeat split; auto.
      * discriminate.
      * cbn. lia.
      * apply (cols_ok_snoc _ [] w); [intros pre x post E; destruct pre; discriminate|].
        intros c Hc. rewrite <- (NEW c Hc). now apply read_col_ext.
      * repeat constructor; auto.
  - apply keqb_neq in E. rewrite lookup_upd_other, lookup_put_other by auto. apply G.
Qed.

(* the directory rename: the name catches up with the metadata *)
Lemma rendir_good s a nf p d bl :
  GoodS s a nf -> day_at s p = Some d -> lookup (dp_key p) a = Some bl ->
  GoodS (fst (apply s (ORenameDir p {| dp_key := dp_key p; dp_suf := Some (tots_of bl) |}))) a
        (fun k => if keqb k (dp_key p) then length bl else nf k).
Proof.
  intros [S G] D La. cbn [apply]. rewrite D. cbn [fst dp_suf].
  destruct (day_at_some _ _ _ D) as [L O].
  split; cbn [f_days upd_day]; [now apply ksorted_upd|].
  intros k. destruct (keqb k (dp_key p)) eqn:E.
  - apply keqb_eq in E; subst k. rewrite lookup_upd_same, L. cbn [option_map]. rewrite La.
    specialize (G (dp_key p)). rewrite L, La in G. destruct G as (NE & HM & _ & _ & CO & WF).
    unfold GoodD. cbn [d_meta d_suf set_suf]. repeat split; auto.
    rewrite firstn_all. destruct bl; [contradiction|reflexivity].
  - apply keqb_neq in E. rewrite lookup_upd_other by auto. apply G.
Qed.

(* the name already shows the totals of all committed write-outs: the counter may be advanced *)
Lemma renumber_good s a nf k0 d bl :
  GoodS s a nf -> lookup k0 (f_days s) = Some d -> lookup k0 a = Some bl -> d_suf d = Some (tots_of bl) ->
  GoodS s a (fun k => if keqb k k0 then length bl else nf k).
Proof.
  intros [S G] L La HS. split; auto. intros k. destruct (keqb k k0) eqn:E.
  - apply keqb_eq in E; subst k. specialize (G k0). rewrite L in *. rewrite La in *.
    destruct G as (NE & HM & _ & _ & CO & WF). unfold GoodD. repeat split; auto.
    rewrite firstn_all. destruct bl; [contradiction|exact HS].
  - apply G.
Qed.
