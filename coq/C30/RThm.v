(* C30 proofs: the unbounded listing theorem. *)
From Coq Require Import List ZArith NArith Bool Arith Lia.
From GoProbe.Base Require Import CorrLib.
From GoProbe.C04 Require Import Model.
From GoProbe.C30 Require Import C04P1 C04P2 C04P3 C04P4 C04P5 C04PC.
From GoProbe.C30 Require Import Model Corr Proofs Proofs2 WInv WInv2 WInv3 WInv4 RSpec REnv.
Import ListNotations.

(* the totals of a day never return to an earlier value while write-outs are added (they only grow, unless a
   64-bit counter wraps around) *)
Definition totals_no_recur (ws : list writeout) : Prop :=
  forall k n1 n2 n3, n1 <= n2 -> n2 <= n3 ->
    sufx (firstn n1 (FL ws k)) = sufx (firstn n3 (FL ws k)) -> sufx (firstn n2 (FL ws k)) = sufx (firstn n1 (FL ws k)).

(* ReadMetadata returned Ok and the totals it added for every day directory are those of the first j
   write-outs, for some j *)
Definition list_good (ws : list writeout) (r : result) : Prop :=
  exists o, r = Ok o /\ Forall (tot_ok ws) (o_tots o).

Lemma listing_snapshot ws out : Forall wf_w ws -> totals_no_recur ws ->
  conc (cal_of ws) fs_empty (hist_ops fs_empty ws) (reader_prog false) out -> list_good ws out.
Proof.
  intros WF NR C. destruct (hist_from_empty ws WF) as (jf & nff & Mj & Bj & Mn & _ & HG).
  eapply (wp_sound ws jf nff Mj Bj Mn HG NR (list_good ws)); [|exact C].
  eapply wp_reader_list; eauto. intros acc A. eexists. split; [reflexivity|exact A].
Qed.

(* the block timestamps of every day increase strictly (DBWriter.Write rejects a block that is not newer than the
   last one of its day) *)
Definition ts_incr (ws : list writeout) : Prop := forall k, ts_sorted (FL ws k).

(* the query returned Ok, reported no broken block, and every day directory it processed shows exactly the blocks
   (timestamp, content id) of the first j write-outs, for some j *)
Definition query_good (ws : list writeout) (r : result) : Prop :=
  exists o, r = Ok o /\ o_broken o = 0 /\ Forall (day_ok ws) (o_days o).

Lemma query_snapshot ws out : Forall wf_w ws -> ts_incr ws -> totals_no_recur ws ->
  conc (cal_of ws) fs_empty (hist_ops fs_empty ws) (reader_prog true) out -> query_good ws out.
Proof.
  intros WF TS NR C. destruct (hist_from_empty ws WF) as (jf & nff & Mj & Bj & Mn & _ & HG).
  eapply (wp_sound ws jf nff Mj Bj Mn HG NR (query_good ws)); [|exact C].
  eapply wp_reader_query; eauto. intros acc [A B]. eexists. split; [reflexivity|]. cbn. split; auto.
Qed.

Lemma hist1_wf : Forall wf_w hist1.
Proof. repeat constructor; unfold wf_w; cbn; discriminate. Qed.
Lemma hist1_ts : ts_incr hist1.
Proof.
  intros k. unfold FL, daylist.
  assert (E0 : spec_db [] hist1 = [((0%N, 1699920000%Z), hist1)]) by (vm_compute; reflexivity).
  rewrite E0. cbn [lookup]. destruct (keqb k (0%N, 1699920000%Z)); [|constructor].
  unfold hist1. repeat constructor; cbn; lia.
Qed.

Lemma hist1_no_recur : totals_no_recur hist1.
Proof.
  intros k n1 n2 n3 L1 L2. unfold FL, daylist.
  assert (E0 : spec_db [] hist1 = [((0%N, 1699920000%Z), hist1)]) by (vm_compute; reflexivity).
  rewrite E0. cbn [lookup]. destruct (keqb k (0%N, 1699920000%Z)).
  - unfold hist1. destruct n1 as [|[|[|n1]]], n2 as [|[|[|n2]]], n3 as [|[|[|n3]]]; try lia;
      cbn [firstn]; rewrite ?firstn_nil; vm_compute; intros; try reflexivity; try discriminate.
  - now rewrite !firstn_nil.
Qed.
