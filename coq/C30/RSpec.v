(* C30 proofs: facts about the specification (the abstract database after j write-outs). *)
From Coq Require Import List ZArith NArith Bool Arith Lia.
From GoProbe.Base Require Import CorrLib.
From GoProbe.C04 Require Import Model.
From GoProbe.C30 Require Import C04P1 C04P2 C04P3 C04P4 C04P5.
From GoProbe.C30 Require Import Model Corr.
From GoProbe.C30 Require Import WInv WInv2 WInv3 WInv4.
Import ListNotations.

Lemma prefix_refl {A} (l : list A) : prefix_of l l.
Proof. exists []. now rewrite app_nil_r. Qed.
Lemma prefix_trans {A} (l1 l2 l3 : list A) : prefix_of l1 l2 -> prefix_of l2 l3 -> prefix_of l1 l3.
Proof. intros [r1 ->] [r2 ->]. exists (r1 ++ r2). now rewrite app_assoc. Qed.
Lemma prefix_firstn {A} (l l' : list A) n : prefix_of l l' -> n <= length l -> firstn n l' = firstn n l.
Proof. intros [r ->] L. now apply firstn_app_le. Qed.
Lemma prefix_len {A} (l l' : list A) : prefix_of l l' -> length l <= length l'.
Proof. intros [r ->]. rewrite app_length. lia. Qed.

Lemma spec_db_prefix X : forall a k, prefix_of (daylist a k) (daylist (spec_db a X) k).
Proof.
  induction X as [|w X IH]; intros a k; cbn; [apply prefix_refl|].
  eapply prefix_trans; [apply daylist_put|apply IH].
Qed.
Lemma firstn_le_split {A} (l : list A) j j' : j <= j' -> exists X, firstn j' l = firstn j l ++ X.
Proof.
  intros L. exists (firstn (j' - j) (skipn j l)).
  rewrite <- (firstn_skipn j (firstn j' l)) at 1. rewrite firstn_firstn, Nat.min_l by lia.
  f_equal. now rewrite skipn_firstn_comm.
Qed.
Lemma db_prefix ws j j' k : j <= j' ->
  prefix_of (daylist (spec_db [] (firstn j ws)) k) (daylist (spec_db [] (firstn j' ws)) k).
Proof.
  intros L. destruct (firstn_le_split ws j j' L) as [X ->]. rewrite spec_db_app. apply spec_db_prefix.
Qed.

Lemma daylist_put_one a w k : daylist (adb_put a w) k = daylist a k \/ daylist (adb_put a w) k = daylist a k ++ [w].
Proof.
  destruct (keqb k (w_key w)) eqn:E.
  - apply keqb_eq in E; subst k. unfold adb_put, daylist.
    destruct (lookup (w_key w) a) as [bl|] eqn:L.
    + destruct (existsb _ bl); [left; now rewrite L|]. right. now rewrite lookup_upd_same, L.
    + right. now rewrite lookup_ins_same.
  - left. apply keqb_neq in E. unfold daylist. now rewrite lookup_put_other.
Qed.

Lemma db_S ws j : j < length ws -> exists w, spec_db [] (firstn (S j) ws) = adb_put (spec_db [] (firstn j ws)) w.
Proof.
  intros LT. assert (ES : exists w, firstn (S j) ws = firstn j ws ++ [w]).
  { revert j LT. induction ws as [|x l IHl]; intros [|j] LT; cbn in *; try lia.
    - now exists x.
    - destruct (IHl j ltac:(lia)) as [w E]. exists w. now rewrite E. }
  destruct ES as [w ES]. exists w. rewrite ES, spec_db_app. reflexivity.
Qed.
Lemma db_S_ge ws j : length ws <= j -> spec_db [] (firstn (S j) ws) = spec_db [] (firstn j ws).
Proof. intros GE. now rewrite !firstn_all2 by lia. Qed.

(* every prefix of a day's committed list is that day's list after some earlier number of write-outs *)
Lemma db_prefix_is_db ws k : forall j n, n <= length (daylist (spec_db [] (firstn j ws)) k) ->
  exists j', j' <= j /\ daylist (spec_db [] (firstn j' ws)) k = firstn n (daylist (spec_db [] (firstn j ws)) k).
Proof.
  induction j as [|j IH]; intros n Ln.
  - exists 0. split; auto. cbn in *. destruct n; [reflexivity|lia].
  - destruct (Nat.le_gt_cases (length ws) j) as [GE|LT].
    + rewrite (db_S_ge ws j GE) in Ln. rewrite (db_S_ge ws j GE). destruct (IH n Ln) as (j' & L' & E'). exists j'. split; [lia|exact E'].
    + destruct (db_S ws j LT) as [w EW].
      destruct (daylist_put_one (spec_db [] (firstn j ws)) w k) as [E|E].
      * rewrite EW, E in Ln. rewrite EW, E. destruct (IH n Ln) as (j' & L' & E'). exists j'. split; [lia|exact E'].
      * rewrite EW, E in Ln. rewrite app_length in Ln. cbn in Ln.
        destruct (Nat.le_gt_cases n (length (daylist (spec_db [] (firstn j ws)) k))) as [Le|Gt].
        -- destruct (IH n Le) as (j' & L' & E'). exists j'. split; [lia|]. rewrite E', EW, E. now rewrite firstn_app_le.
        -- exists (S j). split; auto. symmetry. apply firstn_all2. rewrite EW, E, app_length. cbn. lia.
Qed.

Lemma db_at_spec ws j : db_at ws j = spec_db [] (firstn j ws).
Proof. reflexivity. Qed.
Lemma spec_tot_daylist ws k j : daylist (spec_db [] (firstn j ws)) k <> [] ->
  spec_tot ws k j = tots_of (daylist (spec_db [] (firstn j ws)) k).
Proof.
  unfold spec_tot, daylist. rewrite db_at_spec. destruct (lookup k _); auto; congruence.
Qed.
