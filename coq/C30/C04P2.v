(* Copy of coq/C04/Proofs2.v as of the C04 merge (the C04 proof files are being reworked; C30 only relies on
   C04's Model.v and on this frozen copy of the lemmas it uses). *)
(* C04 proofs, part 2: the invariant relating a file-system state to the abstract database, the reader on
   states satisfying it, and its preservation by every operation other than the two renames. *)
From Coq Require Import List ZArith NArith Bool Arith Lia.
From GoProbe.Base Require Import CorrLib.
From GoProbe.C04 Require Import Model.
From GoProbe.C30 Require Import C04P1.
Import ListNotations.

Definition vis (kd : dkey * dayfs) : bool := visible (snd kd).
Definition mbw (w : writeout) : mblock := {| mb_ts := w_ts w; mb_lens := map (w_len w) cols |}.

Lemma meta_fold_blocks bl : forall m, m_blocks (fold_left meta_add bl m) = m_blocks m ++ map mbw bl.
Proof. induction bl as [|w r IH]; intros m; cbn. now rewrite app_nil_r. rewrite IH. cbn. now rewrite <- app_assoc. Qed.
Lemma meta_fold_tot bl : forall m, m_tot (fold_left meta_add bl m) = fold_left (fun t w => tot_add t (w_tot w)) bl (m_tot m).
Proof. induction bl as [|w r IH]; intros m; cbn; auto. now rewrite IH. Qed.
Lemma meta_of_blocks bl : m_blocks (meta_of bl) = map mbw bl.
Proof. unfold meta_of. now rewrite meta_fold_blocks. Qed.
Lemma meta_of_tot bl : m_tot (meta_of bl) = tots_of bl.
Proof. unfold meta_of, tots_of. now rewrite meta_fold_tot. Qed.
Lemma meta_of_snoc bl w : meta_of (bl ++ [w]) = meta_add (meta_of bl) w.
Proof. unfold meta_of. now rewrite fold_left_app. Qed.
Lemma meta_has_ts_of bl ts : meta_has_ts (meta_of bl) ts = existsb (fun v => Z.eqb (w_ts v) ts) bl.
Proof. unfold meta_has_ts. rewrite meta_of_blocks. induction bl; cbn; auto. now rewrite IHbl. Qed.

(* the day relation.  stale = the key whose directory-name suffix may lag one write-out behind *)
Definition suf_ok (d : dayfs) (bl : list writeout) : Prop := d_suf d = None \/ d_suf d = Some (tots_of bl).
Definition Rday (stale : option dkey) (k : dkey) (d : dayfs) (bl : list writeout) : Prop :=
  bl <> [] /\ d_meta d = Some (Some (meta_of bl)) /\ (stale = Some k \/ suf_ok d bl).
Definition InvS (stale : option dkey) (s : fs) (a : adb) : Prop :=
  ksorted (f_days s) /\ aligned (Rday stale) (filter vis (f_days s)) a.
Definition Inv := InvS None.

(* ------------------------------------------------------------------ the reader on a state satisfying Inv *)
Lemma blocks_filter bl :
  map mb_ts (filter (fun b => negb (Nat.eqb (nth 0 (mb_lens b) 0) 0)) (map mbw bl))
  = map w_ts (filter (fun w => negb (Nat.eqb (w_len w 0) 0)) bl).
Proof.
  induction bl as [|w r IH]; cbn [map filter]; auto.
  replace (nth 0 (mb_lens (mbw w)) 0) with (w_len w 0) by reflexivity.
  destruct (negb (Nat.eqb (w_len w 0) 0)); cbn [map]; now rewrite IH.
Qed.
Lemma read_day_ok k d bl : Rday None k d bl -> read_day_meta (k, d) = Ok (spec_day_m (k, bl)).
Proof.
  intros (NE & HM & [HS|HS]); [discriminate|].
  unfold read_day_meta, spec_day_m. rewrite HM, meta_of_blocks, blocks_filter.
  assert (T : match d_suf d with Some t => t | None => m_tot (meta_of bl) end = tots_of bl).
  { destruct HS as [-> | ->]; auto. now rewrite meta_of_tot. }
  rewrite T. destruct bl as [|w r]; [contradiction|]. reflexivity.
Qed.
Lemma read_days_ok l a : aligned (Rday None) l a -> read_days_meta l = Ok (map spec_day_m a).
Proof.
  induction 1 as [|[k d] [k' bl] l a [E H] F IH]; cbn [read_days_meta map]; auto.
  cbn in E, H; subst k'. rewrite (read_day_ok _ _ _ H). cbn. rewrite IH. reflexivity.
Qed.
Lemma reader_ok s a : Inv s a -> reader_meta s = Ok (spec_read_m a).
Proof. intros [_ H]. unfold reader_meta. fold vis. erewrite read_days_ok; eauto. reflexivity. Qed.

(* ------------------------------------------------------------------ operations other than the renames *)
Definition not_rename (o : fsop) : Prop :=
  match o with ORename _ _ | ORenameDir _ _ => False | _ => True end.

Lemma day_at_some s p d : day_at s p = Some d -> lookup (dp_key p) (f_days s) = Some d /\ otot_eqb (d_suf d) (dp_suf p) = true.
Proof. unfold day_at. destruct (lookup _ _) as [d'|]; [|discriminate]. destruct (otot_eqb _ _) eqn:E; [|discriminate]. intros [= ->]. auto. Qed.

(* an update of one day that keeps its name suffix and its metadata file *)
Lemma inv_upd st s a p f : InvS st s a -> (forall d, d_suf (f d) = d_suf d /\ d_meta (f d) = d_meta d) ->
  InvS st (upd_day s p f) a.
Proof.
  intros [S A] Hf. split; cbn [f_days upd_day].
  - now apply ksorted_upd.
  - rewrite filter_upd_same; auto.
    + apply aligned_upd_left; auto. intros d bl (NE & HM & HS). destruct (Hf d) as [E1 E2].
      repeat split; auto. now rewrite E2. destruct HS as [HS|[HS|HS]]; auto; right; [left|right]; now rewrite E1.
    + intros v _. unfold vis, visible; cbn [snd]. destruct (Hf v) as [-> ->]. reflexivity.
Qed.
Lemma day_at_upd s p f d : day_at s p = Some d -> d_suf (f d) = d_suf d -> day_at (upd_day s p f) p = Some (f d).
Proof.
  intros H E. apply day_at_some in H as [L O]. unfold day_at; cbn [f_days upd_day].
  rewrite lookup_upd_same, L. cbn. now rewrite E, O.
Qed.
Lemma day_at_upd_other s p q f d : day_at s q = Some d -> (forall d, d_suf (f d) = d_suf d /\ d_meta (f d) = d_meta d) ->
  exists d', day_at (upd_day s p f) q = Some d' /\ d_meta d' = d_meta d.
Proof.
  intros H Hf. apply day_at_some in H as [L O]. unfold day_at; cbn [f_days upd_day].
  destruct (keqb (dp_key q) (dp_key p)) eqn:E.
  - apply keqb_eq in E. rewrite E in *. rewrite lookup_upd_same, L. cbn. destruct (Hf d) as [E1 E2].
    rewrite E1, O. eauto.
  - apply keqb_neq in E. rewrite lookup_upd_other, L by auto. rewrite O. eauto.
Qed.

Ltac upd_case H Hd :=
  split; [apply inv_upd; [exact H | intros; split; reflexivity]
         | intros q dq Hq; eapply day_at_upd_other; [exact Hq | intros; split; reflexivity]].
Ltac same_case H := split; [exact H | intros q dq Hq; eauto].

Lemma step_pre st s a o : not_rename o -> InvS st s a ->
  InvS st (fst (apply s o)) a /\
  (forall q d, day_at s q = Some d -> exists d', day_at (fst (apply s o)) q = Some d' /\ d_meta d' = d_meta d).
Proof.
  intros NR H. destruct o as [dr|f|f|f|f off|f off dat|f|f|f g|p q|f|f]; try contradiction; cbn [apply].
  - (* mkdir *) destruct dr as [u|p].
    + destruct (has_up s u); cbn [fst]; [same_case H|]. split; [exact H|]. intros q d Hq. exists d. split; auto.
    + destruct (lookup (dp_key p) (f_days s)) eqn:L; [cbn [fst]; same_case H|].
      destruct (dp_suf p); cbn [fst]; [same_case H|].
      destruct H as [S A]. split.
      * split; cbn [f_days]. apply ksorted_ins; auto. rewrite filter_ins_false; auto.
      * intros q d Hq. apply day_at_some in Hq as [L2 O]. exists d. split; auto.
        unfold day_at; cbn [f_days]. rewrite lookup_ins_other, L2, O; auto.
        intros E. rewrite E in L2. congruence.
  - destruct f; cbn [fst]; same_case H.
  - destruct f as [| |p c|]; cbn [fst]; try (same_case H).
    destruct (day_at s p) as [d|] eqn:D; cbn [fst]; [|same_case H].
    destruct (d_cols d c); [same_case H|upd_case H D].
  - destruct f as [| | |p n]; cbn [fst]; try (same_case H).
    destruct (day_at s p) as [d|] eqn:D; cbn [fst]; [upd_case H D|same_case H].
  - cbn [fst]; same_case H.
  - destruct f as [| |p c|p n]; cbn [fst]; try (same_case H).
    + destruct dat; cbn [fst]; try (same_case H).
      destruct (day_at s p) as [d|] eqn:D; cbn [fst]; [|same_case H].
      destruct (d_cols d c); cbn [fst]; [upd_case H D|same_case H].
    + destruct (day_at s p) as [d|] eqn:D; cbn [fst]; [upd_case H D|same_case H].
  - cbn [fst]; same_case H.
  - destruct f; cbn [fst]; same_case H.
  - destruct f as [| | |p n]; cbn [fst]; try (same_case H).
    destruct (day_at s p) as [d|] eqn:D; cbn [fst]; [|same_case H].
    destruct (tmp_get n (d_tmps d)); cbn [fst]; [upd_case H D|same_case H].
  - cbn [fst]; same_case H.
Qed.
