(* Shared glue for the correspondence runs: executable only, no proofs. *)
From Coq Require Import List Bool.
Import ListNotations.

Definition run_cases {A : Type} (corr holds : A -> bool) (cs : list (nat * A)) : list nat * list nat :=
  (map fst (filter (fun c => negb (corr (snd c))) cs),
   map fst (filter (fun c => negb (holds (snd c))) cs)).

Inductive res (A : Type) : Type :=
| Ok (a : A)
| Err
| Panic.
Arguments Ok {A} a.
Arguments Err {A}.
Arguments Panic {A}.

Definition is_ok {A} (r : res A) : bool := match r with Ok _ => true | _ => false end.
Definition is_panic {A} (r : res A) : bool := match r with Panic => true | _ => false end.

Definition res_bind {A B} (r : res A) (f : A -> res B) : res B :=
  match r with Ok a => f a | Err => Err | Panic => Panic end.

Definition res_eqb {A} (eqb : A -> A -> bool) (x y : res A) : bool :=
  match x, y with
  | Ok a, Ok b => eqb a b
  | Err, Err => true
  | Panic, Panic => true
  | _, _ => false
  end.
