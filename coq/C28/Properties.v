(* C28 property theorems. Nothing but statements closed by `exact`, Print Assumptions, and
   non-vacuity examples. *)
From Coq Require Import List ZArith String Ascii Bool.
From GoProbe.Base Require Import CorrLib.
From GoProbe.C28 Require Import Model ProofsRel ProofsAbs.
Import ListNotations.
Open Scope Z_scope.

(* ParseTimeArgument (after the fix) never panics, for any byte string, local zone and clock *)
Theorem c28_total : forall loc now s, parse_time_argument loc now s <> Panic.
Proof. exact pta_total. Qed.
Print Assumptions c28_total.
(* ... whereas the code as found panicked on the empty string *)
Example c28_total_refuted_orig : exists s, parse_time_argument_orig 0 0 s = Panic.
Proof. exists []. reflexivity. Qed.
Example c28_total_example : parse_time_argument 0 1000 (S_ "-1h:30m") = Ok (1000 - 5400)
                            /\ parse_time_argument 0 1000 [] = Err.
Proof. split; reflexivity. Qed.

Theorem c28_range_total : forall loc n1 n2 a b, parse_time_range loc n1 n2 a b <> Panic.
Proof. exact ptr_total. Qed.
Print Assumptions c28_range_total.

(* a range whose start lies after its end is rejected *)
Theorem c28_range_rejected : forall loc n1 n2 a b first last,
  first_of loc n1 a = Ok first -> last_of loc n2 b = Ok last -> last < first ->
  parse_time_range loc n1 n2 a b = Err.
Proof. exact range_rejected. Qed.
Print Assumptions c28_range_rejected.
Example c28_range_rejected_example :
  first_of 0 1000 (S_ "-1h") = Ok (-2600) /\ last_of 0 1000 (S_ "-2h") = Ok (-6200)
  /\ parse_time_range 0 1000 1000 (S_ "-1h") (S_ "-2h") = Err.
Proof. repeat split; reflexivity. Qed.

(* ... and exactly those: a range is accepted iff both ends parse and first <= last *)
Theorem c28_range_accepted : forall loc n1 n2 a b first last,
  parse_time_range loc n1 n2 a b = Ok (first, last) <->
  first_of loc n1 a = Ok first /\ last_of loc n2 b = Ok last /\ first <= last.
Proof. exact range_ok. Qed.
Print Assumptions c28_range_accepted.
Example c28_range_accepted_example :
  parse_time_range 0 1000 1000 (S_ "2024-02-29 12:00") [] = Err /\
  parse_time_range 3600 1709208000 1709208000 (S_ "2024-02-29 12:00") [] = Ok (1709204400, 1709208000).
Proof. split; vm_compute; reflexivity. Qed.

(* the open-ended range (empty `last` = the clock reading n2): accepted iff first <= now, rejected
   when the start lies in the future *)
Theorem c28_range_open_end : forall loc n1 n2 a first, first_of loc n1 a = Ok first ->
  (parse_time_range loc n1 n2 a [] = Ok (first, n2) <-> first <= n2)
  /\ (n2 < first -> parse_time_range loc n1 n2 a [] = Err).
Proof. exact range_open_end. Qed.
Print Assumptions c28_range_open_end.
Example c28_range_open_end_example :
  parse_time_range 0 1000 1000 (S_ "4600") [] = Err /\ parse_time_range 0 1000 1000 (S_ "--1h") [] = Err
  /\ parse_time_range 0 1000 1000 (S_ "1000") [] = Ok (1000, 1000).
Proof. repeat split; vm_compute; reflexivity. Qed.

(* ParseTimeRangeCollectErrors records "lower bound greater than upper bound" exactly when the values
   it hands back are reversed (also with an empty `last`), and records nothing iff ParseTimeRange accepts *)
Theorem c28_collect_interval : forall loc n1 n2 a b f l d,
  parse_time_range_collect loc n1 n2 a b = (f, l, d) -> (In 3 d <-> l < f).
Proof. exact collect_interval. Qed.
Print Assumptions c28_collect_interval.
Theorem c28_collect_agrees : forall loc n1 n2 a b f l,
  parse_time_range_collect loc n1 n2 a b = (f, l, []) <-> parse_time_range loc n1 n2 a b = Ok (f, l).
Proof. exact collect_agrees. Qed.
Print Assumptions c28_collect_agrees.
Example c28_collect_example :
  parse_time_range_collect 0 1000 1000 (S_ "4600") [] = (4600, 1000, [3])
  /\ parse_time_range_collect 0 1000 1000 (S_ "x") (S_ "y") = (0, 0, [1; 2]).
Proof. split; vm_compute; reflexivity. Qed.

(* -Xd:Yh:Zm, in general: any two or more d/h/m/s groups joined by ':' denote now minus their sum *)
Theorem c28_relative_colon : forall loc now gs,
  (2 <= List.length gs)%nat -> Forall (fun g => 0 <= fst g) gs -> total gs < two63 -> 0 <= now < two63 ->
  parse_time_argument loc now (render_colon gs) = Ok (now - total gs).
Proof. exact pta_relative_colon. Qed.
Print Assumptions c28_relative_colon.
Example c28_relative_colon_example :
  render_colon [(2, UD); (30, UM); (5, US)] = S_ "-2d:30m:5s" /\
  parse_time_argument 0 1700000000 (S_ "-2d:30m:5s") = Ok (1700000000 - (2 * 86400 + 30 * 60 + 5)).
Proof. split; vm_compute; reflexivity. Qed.

(* -XdYhZm, in general: an optional day count followed by h/m/s groups (time.ParseDuration) *)
Theorem c28_relative_compact : forall loc now od gs,
  (od <> None \/ gs <> []) -> (forall d, od = Some d -> 0 <= d) ->
  Forall (fun g => 0 <= fst g /\ snd g <> UD) gs ->
  dsecs od + total gs < two63 -> total gs * 1000000000 < two63 -> 0 <= now < two63 ->
  parse_time_argument loc now ("-"%char :: dpart od ++ List.concat (map render_group gs))
  = Ok (now - (dsecs od + total gs)).
Proof. exact pta_relative_compact. Qed.
Print Assumptions c28_relative_compact.
Example c28_relative_compact_example :
  ("-"%char :: dpart (Some 15) ++ List.concat (map render_group [(4, UH); (5, UM)])) = S_ "-15d4h5m" /\
  parse_time_argument 0 1700000000 (S_ "-15d4h5m") = Ok (1700000000 - (15 * 86400 + 4 * 3600 + 5 * 60)) /\
  parse_time_argument 0 1700000000 (S_ "-7d") = Ok (1700000000 - 7 * 86400).
Proof. repeat split; vm_compute; reflexivity. Qed.

(* the two documented forms, for ALL d h m *)
Theorem c28_relative : forall loc now d h m,
  0 <= now < two63 -> 0 <= d -> 0 <= h -> 0 <= m -> 86400 * d + 3600 * h + 60 * m < two63 ->
  parse_time_argument loc now (render_colon [(d, UD); (h, UH); (m, UM)]) = Ok (now - (86400 * d + 3600 * h + 60 * m))
  /\ ((3600 * h + 60 * m) * 1000000000 < two63 ->
      parse_time_argument loc now (render_compact [(d, UD); (h, UH); (m, UM)]) = Ok (now - (86400 * d + 3600 * h + 60 * m))).
Proof. exact pta_relative_dhm. Qed.
Print Assumptions c28_relative.
Example c28_relative_example :
  render_colon [(15, UD); (4, UH); (5, UM)] = S_ "-15d:4h:5m" /\ render_compact [(15, UD); (4, UH); (5, UM)] = S_ "-15d4h5m".
Proof. split; vm_compute; reflexivity. Qed.

(* EVERY supported layout (all 50): an instant whose civil reading (in the zone it is written in: the
   offset `off` if the layout carries one, else the local zone `loc`) lies in 1969..2068, at the
   layout's precision, is parsed back from its Time.Format rendering *)
Theorem c28_layout_roundtrip : forall L loc off t,
  In L layouts -> valid_zone loc -> valid_zone off ->
  in_range (t + zone_of L loc off) -> (has_sec L = false -> t mod 60 = 0) ->
  parse_layout loc L (format_layout loc off L t) = Some t.
Proof. exact layout_roundtrip. Qed.
Print Assumptions c28_layout_roundtrip.
Example c28_layout_roundtrip_example :
  let L := nth 3 layouts [] in          (* RFC822Z  "02 Jan 06 15:04 -0700" *)
  let A := nth 1 layouts [] in          (* ANSIC    "Mon Jan _2 15:04:05 2006", one-digit day *)
  In L layouts /\ valid_zone 3600 /\ valid_zone (-25200) /\ in_range (1709208000 + zone_of L 3600 (-25200))
  /\ format_layout 3600 (-25200) L 1709208000 = S_ "29 Feb 24 05:00 -0700"
  /\ parse_layout 3600 L (S_ "29 Feb 24 05:00 -0700") = Some 1709208000
  /\ In A layouts /\ in_range (1709726705 + zone_of A 3600 0)
  /\ format_layout 3600 0 A 1709726705 = S_ "Wed Mar  6 13:05:05 2024"
  /\ parse_layout 3600 A (S_ "Wed Mar  6 13:05:05 2024") = Some 1709726705.
Proof.
  cbv zeta. repeat split; try (vm_compute; reflexivity); try (vm_compute; intuition congruence).
Qed.

(* no supported layout renders to an all-digit text (each starts with a year / day / weekday element
   and contains the literal ':'), and a rendered absolute time never takes the relative ('-') or the
   Unix-integer (strconv.ParseInt) branch of ParseTimeArgument: it always reaches the first-match loop *)
Theorem c28_layouts_not_numeric : forall L, In L layouts -> shape_ok L = true.
Proof. exact layouts_shape. Qed.
Print Assumptions c28_layouts_not_numeric.
Theorem c28_absolute_reaches_loop : forall c L loc now, valid_civil c -> In L layouts ->
  parse_time_argument loc now (fmt_elems c L)
  = match first_match loc layouts (fmt_elems c L) with Some t => Ok t | None => Err end.
Proof. exact pta_absolute_text. Qed.
Print Assumptions c28_absolute_reaches_loop.

(* ParseTimeArgument itself: unless another supported layout reads the text as a different instant,
   the rendered instant is what ParseTimeArgument returns *)
Theorem c28_first_match : forall L loc off now t,
  In L layouts -> valid_zone loc -> valid_zone off ->
  in_range (t + zone_of L loc off) -> (has_sec L = false -> t mod 60 = 0) ->
  (forall L', In L' layouts -> parse_layout loc L' (format_layout loc off L t) = None
                               \/ parse_layout loc L' (format_layout loc off L t) = Some t) ->
  parse_time_argument loc now (format_layout loc off L t) = Ok t.
Proof. exact pta_layout. Qed.
Print Assumptions c28_first_match.
Example c28_first_match_nonvacuous :
  (* RFC3339 text: accepted by exactly one layout *)
  let s := format_layout 0 7200 (nth 0 layouts []) 1709208000 in
  s = S_ "2024-02-29T14:00:00+02:00" /\
  forallb (fun L' => match parse_layout 0 L' s with None => true | Some v => v =? 1709208000 end) layouts = true /\
  parse_time_argument 0 5 s = Ok 1709208000.
Proof. cbv zeta. repeat split; vm_compute; reflexivity. Qed.

(* for ANY text: what the loop returns is the reading of the first layout in list order that accepts it *)
Theorem c28_first_match_sound : forall loc Ls s t, first_match loc Ls s = Some t ->
  exists pre L post, Ls = pre ++ L :: post /\ parse_layout loc L s = Some t
                     /\ forall L', In L' pre -> parse_layout loc L' s = None.
Proof. exact first_match_sound. Qed.
Print Assumptions c28_first_match_sound.
Example c28_first_match_example :
  (* "12-11-10 09:08" is read by layout 06-01-02 (2012-11-10) before 02-01-06 (2010-11-12) gets a chance *)
  first_match 0 layouts (S_ "12-11-10 09:08") = Some 1352538480
  /\ parse_layout 0 (nth 21 layouts []) (S_ "12-11-10 09:08") = Some 1289552880.
Proof. split; vm_compute; reflexivity. Qed.
