(* C28 proofs, part 1: decimal numerals, strconv.ParseInt, time.ParseDuration on h/m/s groups,
   parseRelativeTime in both syntaxes, totality, range rejection. *)
From Coq Require Import List ZArith NArith String Ascii Bool Lia ZifyBool ZifyNat ZifyN.
From GoProbe.Base Require Import CorrLib.
From GoProbe.C28 Require Import Model.
Import ListNotations.
Open Scope char_scope.
Open Scope Z_scope.

Ltac Zify.zify_post_hook ::= Z.div_mod_to_equations.

Arguments dec : simpl never.
Arguments wrap64 : simpl never.
Arguments parse_int : simpl never.
Arguments parse_duration : simpl never.

Ltac case_ifs :=
  repeat match goal with
         | |- context [if ?c then _ else _] =>
           let E := fresh "E" in destruct c eqn:E; try (exfalso; unfold two63, two64 in *; lia)
         end.

(* ------------------------------------------------------------------ digits *)
Lemma code_dchar k : 0 <= k <= 9 -> code (dchar k) = 48 + k.
Proof. intros H. unfold code, dchar. rewrite N_ascii_embedding; lia. Qed.

Lemma is_digit_dchar k : 0 <= k <= 9 -> is_digit (dchar k) = true.
Proof. intros H. unfold is_digit. rewrite code_dchar by lia. lia. Qed.

Lemma dval_dchar k : 0 <= k <= 9 -> dval (dchar k) = k.
Proof. intros H. unfold dval. rewrite code_dchar by lia. lia. Qed.

Lemma dval_range a : is_digit a = true -> 0 <= dval a <= 9.
Proof. unfold is_digit, dval. lia. Qed.

Lemma digit_neq a c : is_digit a = true -> is_digit c = false -> Ascii.eqb a c = false.
Proof. intros Ha Hc. destruct (Ascii.eqb_spec a c); [subst; congruence | reflexivity]. Qed.

Definition digits (s : str) : Prop := Forall (fun c => is_digit c = true) s.

(* s is a non-empty digit string whose value is n (leading zeros allowed) *)
Definition good_num (s : str) (n : Z) : Prop :=
  s <> [] /\ digits s /\ digits_val 0 s = Some n /\ (n <= two63 -> leading_int 0 s = Some (n, [])).

Lemma dv_app s : forall x v rest, digits_val x s = Some v -> digits_val x (s ++ rest) = digits_val v rest.
Proof.
  induction s as [|a s IH]; intros x v rest H; cbn [digits_val app] in *.
  - congruence.
  - destruct (is_digit a); [eauto | discriminate].
Qed.

Lemma li_app s : forall x v rest, leading_int x s = Some (v, []) -> leading_int x (s ++ rest) = leading_int v rest.
Proof.
  induction s as [|a s IH]; intros x v rest H; cbn [leading_int app] in *.
  - congruence.
  - destruct (is_digit a); [|discriminate].
    destruct (two63 / 10 <? x); [discriminate|].
    destruct (two63 <? x * 10 + dval a); [discriminate|]. eauto.
Qed.

Lemma li_stop x rest : starts_digit rest = false -> leading_int x rest = Some (x, rest).
Proof. destruct rest as [|a r]; cbn; intros H; [reflexivity | rewrite H; reflexivity]. Qed.

Lemma dec_fuel_good : forall f n, (0 < f)%nat -> 0 <= n < 2 ^ Z.of_nat f -> good_num (dec_fuel f n) n.
Proof.
  induction f as [|f IH]; intros n Hf Hn; [lia|].
  cbn [dec_fuel]. destruct (n <? 10) eqn:E.
  - assert (0 <= n <= 9) by lia. unfold good_num, digits. repeat split.
    + discriminate.
    + constructor; [apply is_digit_dchar; lia | constructor].
    + cbn. rewrite is_digit_dchar, dval_dchar by lia. reflexivity.
    + intros _. cbn. rewrite is_digit_dchar, dval_dchar by lia. cbn.
      destruct (two63 <? n) eqn:E2; [unfold two63 in E2; lia | reflexivity].
  - assert (Hq : 0 <= n / 10 < 2 ^ Z.of_nat f).
    { rewrite Nat2Z.inj_succ, Z.pow_succ_r in Hn by lia. lia. }
    assert (Hf' : (0 < f)%nat).
    { destruct f; [|lia]. change (2 ^ Z.of_nat 0) with 1 in Hq. lia. }
    destruct (IH (n / 10) Hf' Hq) as (Hne & Hd & Hv & Hl).
    assert (Hm : 0 <= n mod 10 <= 9) by lia.
    unfold good_num, digits. repeat split.
    + destruct (dec_fuel f (n / 10)); [congruence | discriminate].
    + apply Forall_app. split; [exact Hd | constructor; [apply is_digit_dchar; lia | constructor]].
    + rewrite (dv_app _ _ _ _ Hv). cbn. rewrite is_digit_dchar, dval_dchar by lia. f_equal; try lia.
    + intros Hb. rewrite (li_app _ _ (n / 10)) by (apply Hl; unfold two63 in *; lia).
      cbn. rewrite is_digit_dchar, dval_dchar by lia.
      case_ifs. do 2 f_equal; try lia.
Qed.

Lemma dec_good n : 0 <= n -> good_num (dec n) n.
Proof.
  intros H. unfold dec. apply dec_fuel_good; [lia|].
  rewrite Nat2Z.inj_succ, Z2Nat.id by apply Z.log2_nonneg.
  destruct (Z.eq_dec n 0) as [->|Hn]; [cbn; lia|].
  pose proof (Z.log2_spec n ltac:(lia)). lia.
Qed.

Lemma good_head s n : good_num s n -> exists a tl, s = a :: tl /\ is_digit a = true.
Proof.
  intros (Hne & Hd & _). destruct s as [|a tl]; [congruence|].
  exists a, tl. split; [reflexivity | now inversion Hd].
Qed.

Lemma li_good s n rest : good_num s n -> n <= two63 -> starts_digit rest = false ->
  leading_int 0 (s ++ rest) = Some (n, rest).
Proof.
  intros (_ & _ & _ & Hl) Hb Hr. rewrite (li_app _ _ n) by auto. apply li_stop; assumption.
Qed.

Lemma parse_int_good s n : good_num s n -> n < two63 -> parse_int s = Ok n.
Proof.
  intros G Hb. destruct (good_head _ _ G) as (a & tl & -> & Ha).
  destruct G as (_ & _ & Hv & _). unfold parse_int.
  rewrite (digit_neq a "-"), (digit_neq a "+") by (assumption || reflexivity).
  cbn [orb]. unfold parse_uint. rewrite Hv.
  destruct (n <? two63) eqn:E; [reflexivity | lia].
Qed.

(* ------------------------------------------------------------------ contains / split *)
Lemma contains_app c a b : contains c (a ++ b) = contains c a || contains c b.
Proof. induction a as [|x a IH]; cbn; [reflexivity | rewrite IH, orb_assoc; reflexivity]. Qed.

Lemma contains_digits c s : is_digit c = false -> digits s -> contains c s = false.
Proof.
  intros Hc. induction 1 as [|a s Ha _ IH]; cbn; [reflexivity|].
  rewrite (digit_neq a c) by assumption. exact IH.
Qed.

Lemma split_on_nochar c s : contains c s = false -> split_on c s = [s].
Proof.
  induction s as [|a s IH]; cbn; intros H; [reflexivity|].
  apply orb_false_iff in H as [H1 H2]. rewrite H1, IH by assumption. reflexivity.
Qed.

Lemma split_on_app c s rest : contains c s = false -> split_on c (s ++ c :: rest) = s :: split_on c rest.
Proof.
  induction s as [|a s IH]; cbn; intros H.
  - rewrite Ascii.eqb_refl. reflexivity.
  - apply orb_false_iff in H as [H1 H2]. rewrite H1, IH by assumption. reflexivity.
Qed.

Lemma last_and_init_snoc s c : last_and_init (s ++ [c]) = Some (s, c).
Proof.
  induction s as [|a s IH]; [reflexivity|].
  cbn [app last_and_init]. rewrite IH. destruct (s ++ [c]) eqn:E; [|reflexivity].
  destruct s; discriminate.
Qed.

Lemma wrap64_small z : - two63 <= z < two63 -> wrap64 z = z.
Proof. intros H. unfold wrap64, two63, two64 in *. rewrite Z.mod_small; lia. Qed.

(* ------------------------------------------------------------------ groups *)
Definition good_group (g : group) : Prop := 0 <= fst g.

Lemma render_group_contains c g : good_group g -> is_digit c = false -> Ascii.eqb (uchar (snd g)) c = false ->
  contains c (render_group g) = false.
Proof.
  intros Hg Hc Hu. unfold render_group. rewrite contains_app.
  destruct (dec_good (fst g) Hg) as (_ & Hd & _).
  rewrite (contains_digits c _ Hc Hd). cbn. rewrite Hu. reflexivity.
Qed.

Lemma total_cons g gs : total (g :: gs) = usecs (snd g) * fst g + total gs.
Proof. reflexivity. Qed.
Lemma total_nil : total [] = 0.
Proof. reflexivity. Qed.

Lemma total_nonneg gs : Forall good_group gs -> 0 <= total gs.
Proof.
  induction 1 as [|g gs Hg _ IH]; [rewrite total_nil; lia|]. rewrite total_cons. unfold good_group in Hg.
  destruct g as [n u]; cbn [fst snd] in *. destruct u; cbn [usecs]; lia.
Qed.

(* ---- colon syntax *)
Lemma chunk_seconds_group g : good_group g -> usecs (snd g) * fst g < two63 ->
  chunk_seconds (render_group g) = Ok (usecs (snd g) * fst g).
Proof.
  destruct g as [n u]. unfold good_group, render_group. cbn [fst snd]. intros Hn Hb.
  unfold chunk_seconds. rewrite last_and_init_snoc.
  assert (Hp : parse_int (dec n) = Ok n).
  { apply parse_int_good; [apply dec_good; assumption|]. destruct u; cbn [usecs] in Hb; unfold two63 in *; lia. }
  destruct u; cbn [uchar usecs] in *; cbn -[Z.mul wrap64 parse_int]; rewrite Hp; rewrite wrap64_small; (reflexivity || (unfold two63 in *; lia)).
Qed.

Lemma chunks_seconds_groups gs : forall acc, Forall good_group gs -> 0 <= acc -> acc + total gs < two63 ->
  chunks_seconds acc (map render_group gs) = Ok (acc + total gs).
Proof.
  induction gs as [|g gs IH]; intros acc HF Ha Hb; cbn [map chunks_seconds].
  - f_equal. rewrite total_nil. lia.
  - inversion HF as [|? ? Hg HF']; subst. rewrite total_cons in *.
    pose proof (total_nonneg gs HF') as Ht.
    assert (Hu : 0 <= usecs (snd g) * fst g).
    { unfold good_group in Hg. destruct g as [n u]; destruct u; cbn [fst snd usecs] in *; lia. }
    rewrite chunk_seconds_group by (assumption || lia).
    rewrite wrap64_small by (unfold two63 in *; lia).
    rewrite IH by (assumption || lia). f_equal; try lia.
Qed.

Lemma join_colon_contains gs : (2 <= List.length gs)%nat -> contains ":" (join_colon gs) = true.
Proof.
  destruct gs as [|g [|g' gs]]; cbn [List.length]; try lia. intros _.
  cbn [join_colon]. rewrite contains_app. cbn. apply orb_true_r.
Qed.

Lemma split_join_colon gs : gs <> [] -> Forall good_group gs ->
  split_on ":" (join_colon gs) = map render_group gs.
Proof.
  induction gs as [|g gs IH]; intros Hne HF; [congruence|].
  inversion HF as [|? ? Hg HF']; subst.
  assert (Hc : contains ":" (render_group g) = false).
  { apply render_group_contains; [assumption | reflexivity | destruct (snd g); reflexivity]. }
  destruct gs as [|g' gs].
  - cbn [join_colon map]. apply split_on_nochar. exact Hc.
  - change (join_colon (g :: g' :: gs)) with (render_group g ++ ":" :: join_colon (g' :: gs)).
    rewrite split_on_app by exact Hc. rewrite IH by (assumption || discriminate). reflexivity.
Qed.

Lemma relative_colon now gs :
  (2 <= List.length gs)%nat -> Forall good_group gs -> total gs < two63 -> 0 <= now < two63 ->
  parse_relative now (render_colon gs) = Ok (now - total gs).
Proof.
  intros Hl HF Hb Hn. unfold render_colon, parse_relative. rewrite Ascii.eqb_refl. cbn [negb].
  rewrite join_colon_contains by assumption. cbn [negb].
  rewrite split_join_colon by (assumption || (destruct gs; [cbn [List.length] in Hl; lia | discriminate])).
  rewrite chunks_seconds_groups by (assumption || lia).
  pose proof (total_nonneg gs HF). rewrite wrap64_small by (unfold two63 in *; lia). f_equal; try lia.
Qed.

(* ---- compact syntax: time.ParseDuration on h / m / s groups *)
Definition hms_group (g : group) : Prop := 0 <= fst g /\ snd g <> UD.

Lemma hms_good g : hms_group g -> good_group g.
Proof. intros [H _]; exact H. Qed.

Lemma span_unit_stop rest : (rest = [] \/ starts_digit rest = true) -> span_unit rest = ([], rest).
Proof.
  intros [->|H]; [reflexivity|]. destruct rest as [|a r]; [discriminate|].
  cbn in *. unfold unit_stop. rewrite H, orb_true_r. reflexivity.
Qed.

Lemma dur_group_render s n u rest :
  good_num s n -> u <> UD -> (rest = [] \/ starts_digit rest = true) ->
  n * (usecs u * 1000000000) <= two63 ->
  dur_group (s ++ uchar u :: rest) = Some (n * (usecs u * 1000000000), rest).
Proof.
  intros G Hu Hr Hb.
  destruct (good_head _ _ G) as (a & tl & Hs & Ha).
  assert (Hn : 0 <= n).
  { destruct G as (_ & Hd & Hv & _).
    assert (forall s x v, 0 <= x -> digits s -> digits_val x s = Some v -> 0 <= v) as K.
    { clear. induction s as [|c s IH]; cbn [digits_val]; intros x v Hx Hd Hv; [inversion Hv; lia|].
      inversion Hd as [|? ? H1 H2]; subst. rewrite H1 in Hv. eapply IH; [|eassumption|eassumption].
      pose proof (dval_range _ H1). lia. }
    eapply K; [|exact Hd|exact Hv]. lia. }
  assert (Hli : leading_int 0 (s ++ uchar u :: rest) = Some (n, uchar u :: rest)).
  { apply li_good; [assumption| |destruct u; reflexivity].
    destruct u; cbn [usecs] in Hb; try congruence; unfold two63 in *; lia. }
  pose proof (span_unit_stop rest Hr) as Hsp.
  subst s. cbn [app] in *. unfold dur_group.
  assert (Hus : unit_stop a = true) by (unfold unit_stop; rewrite Ha; apply orb_true_r).
  rewrite Hus. cbn [negb]. rewrite Hli, Ha.
  destruct u; try congruence; cbn [uchar usecs] in *; cbn -[Z.mul Z.div Z.ltb two63];
    rewrite Hsp; cbn -[Z.mul Z.div Z.ltb two63];
    match goal with |- context [?x / ?y <? n] => destruct (x / y <? n) eqn:E; [unfold two63 in *; lia|] end;
    change (0 <? 0) with false; cbn [andb]; do 2 f_equal; lia.
Qed.

Lemma render_groups_head gs : gs <> [] -> Forall hms_group gs ->
  starts_digit (List.concat (map render_group gs)) = true.
Proof.
  destruct gs as [|g gs]; [congruence|]. intros _ HF. inversion HF as [|? ? [Hg _] _]; subst.
  cbn [map List.concat]. unfold render_group.
  destruct (good_head _ _ (dec_good _ Hg)) as (a & tl & -> & Ha). cbn. exact Ha.
Qed.

Lemma dur_loop_groups gs : forall fuel acc, Forall hms_group gs -> (List.length gs <= fuel)%nat ->
  0 <= acc -> acc + total gs * 1000000000 <= two63 ->
  dur_loop fuel acc (List.concat (map render_group gs)) = Some (acc + total gs * 1000000000).
Proof.
  induction gs as [|g gs IH]; intros fuel acc HF Hl Ha Hb.
  - rewrite total_nil. cbn [map List.concat]. destruct fuel; cbn [dur_loop]; f_equal; lia.
  - inversion HF as [|? ? Hg HF']; subst. destruct Hg as [Hn Hu].
    pose proof (total_nonneg gs (Forall_impl _ hms_good HF')) as Ht.
    destruct fuel as [|fuel]; [cbn [List.length] in Hl; lia|].
    cbn [map List.concat] in *. rewrite total_cons in *.
    unfold render_group at 1. rewrite <- app_assoc. cbn [app].
    assert (Hv : 0 <= usecs (snd g) * fst g) by (destruct g as [n u]; destruct u; cbn [fst snd usecs] in *; lia).
    destruct (good_head _ _ (dec_good _ Hn)) as (a & tl & Hdec & _).
    assert (Hstep : dur_group (dec (fst g) ++ uchar (snd g) :: List.concat (map render_group gs))
                    = Some (fst g * (usecs (snd g) * 1000000000), List.concat (map render_group gs))).
    { apply dur_group_render; [apply dec_good; assumption | assumption | | unfold two63 in *; lia].
      destruct gs; [left; reflexivity | right; apply render_groups_head; [discriminate | assumption]]. }
    rewrite Hdec in *. cbn [app dur_loop] in *. rewrite Hstep.
    rewrite Z.mod_small by (unfold two63, two64 in *; lia).
    destruct (two63 <? acc + fst g * (usecs (snd g) * 1000000000)) eqn:E; [unfold two63 in *; lia|].
    rewrite IH by (assumption || cbn [List.length] in Hl; lia || unfold two63 in *; lia). f_equal; try lia.
Qed.

Lemma render_groups_len gs : (List.length gs <= List.length (List.concat (map render_group gs)))%nat.
Proof.
  induction gs as [|g gs IH]; cbn [map List.concat List.length]; [lia|].
  rewrite app_length. unfold render_group at 1. rewrite app_length. cbn. lia.
Qed.

Lemma parse_duration_groups gs : gs <> [] -> Forall hms_group gs -> total gs * 1000000000 < two63 ->
  parse_duration (List.concat (map render_group gs)) = Some (total gs * 1000000000).
Proof.
  intros Hne HF Hb. pose proof (render_groups_head gs Hne HF) as Hh.
  pose proof (render_groups_len gs) as Hlen.
  pose proof (dur_loop_groups gs (S (List.length (List.concat (map render_group gs)))) 0 HF ltac:(lia) ltac:(lia)
                              ltac:(unfold two63 in *; lia)) as HL.
  (* the rendering has at least two bytes (a digit and a unit) and starts with a digit *)
  destruct gs as [|g gs]; [congruence|].
  inversion HF as [|? ? [Hn Hu] _]; subst.
  destruct (good_head _ _ (dec_good _ Hn)) as (a & tl & Hdec & Ha).
  remember (List.concat (map render_group (g :: gs))) as r eqn:Er.
  assert (exists b r', r = a :: b :: r') as (b & r' & Hr).
  { subst r. cbn [map List.concat]. unfold render_group at 1. rewrite Hdec.
    destruct tl; cbn; eauto. }
  unfold parse_duration. rewrite Hr in *.
  rewrite (digit_neq a "-"), (digit_neq a "+") by (assumption || reflexivity).
  assert (str_eqb (a :: b :: r') (S_ "0") = false) as ->.
  { cbn. destruct (Ascii.eqb a "0"); reflexivity. }
  rewrite HL. cbn [Z.add].
  destruct (two63 - 1 <? total (g :: gs) * 1000000000) eqn:E; [lia | reflexivity].
Qed.

Lemma dur_seconds_exact k : dur_seconds (k * 1000000000) = k.
Proof. unfold dur_seconds. apply Z.quot_mul. lia. Qed.

Definition dpart (od : option Z) : str := match od with Some d => dec d ++ ["d"] | None => [] end.
Definition dsecs (od : option Z) : Z := match od with Some d => 86400 * d | None => 0 end.

Lemma render_groups_contains c gs : Forall hms_group gs -> is_digit c = false ->
  (forall g, hms_group g -> Ascii.eqb (uchar (snd g)) c = false) ->
  contains c (List.concat (map render_group gs)) = false.
Proof.
  intros HF Hc Hu. induction HF as [|g gs Hg _ IH]; cbn [map List.concat]; [reflexivity|].
  rewrite contains_app, IH, render_group_contains; auto using hms_good.
Qed.

Lemma hms_not_colon g : hms_group g -> Ascii.eqb (uchar (snd g)) ":" = false.
Proof. destruct g as [n u]; destruct u; reflexivity. Qed.
Lemma hms_not_d g : hms_group g -> Ascii.eqb (uchar (snd g)) "d" = false.
Proof. destruct g as [n u]; intros [_ H]; destruct u; cbn in *; congruence. Qed.

Lemma relative_compact now od gs :
  (od <> None \/ gs <> []) -> (forall d, od = Some d -> 0 <= d) -> Forall hms_group gs ->
  dsecs od + total gs < two63 -> total gs * 1000000000 < two63 -> 0 <= now < two63 ->
  parse_relative now ("-" :: dpart od ++ List.concat (map render_group gs)) = Ok (now - (dsecs od + total gs)).
Proof.
  intros Hne Hd HF Hb Hb2 Hn.
  pose proof (total_nonneg gs (Forall_impl _ hms_good HF)) as Ht.
  pose proof (render_groups_contains ":" gs HF eq_refl hms_not_colon) as Hc1.
  pose proof (render_groups_contains "d" gs HF eq_refl hms_not_d) as Hc2.
  unfold parse_relative. rewrite Ascii.eqb_refl. cbn [negb].
  destruct od as [d|]; cbn [dpart dsecs] in *.
  - specialize (Hd d eq_refl). destruct (dec_good d Hd) as (Hne' & Hdg & Hv & Hl).
    assert (Hcd : contains ":" (dec d) = false) by (apply contains_digits; [reflexivity | assumption]).
    assert (Hdd : contains "d" (dec d) = false) by (apply contains_digits; [reflexivity | assumption]).
    rewrite <- app_assoc. cbn [app].
    assert (C1 : contains ":" (dec d ++ "d" :: List.concat (map render_group gs)) = false).
    { rewrite contains_app. cbn [contains]. rewrite Hcd, Hc1. reflexivity. }
    assert (C2 : contains "d" (dec d ++ "d" :: List.concat (map render_group gs)) = true).
    { rewrite contains_app. cbn [contains]. rewrite Hdd, Ascii.eqb_refl. reflexivity. }
    rewrite C1, C2. cbn [negb].
    rewrite split_on_app by assumption. rewrite split_on_nochar by assumption.
    destruct (dec d) as [|a tl] eqn:Edec; [congruence|]. rewrite <- Edec.
    rewrite (parse_int_good (dec d) d) by first [apply dec_good; assumption | unfold two63 in *; lia].
    cbn [List.concat]. rewrite app_nil_r.
    rewrite (wrap64_small (86400 * d)) by (unfold two63 in *; lia).
    destruct gs as [|g gs].
    + cbn [map List.concat]. rewrite total_nil in *. rewrite wrap64_small by (unfold two63 in *; lia).
      f_equal; lia.
    + destruct (List.concat (map render_group (g :: gs))) eqn:Er.
      { pose proof (render_groups_head (g :: gs) ltac:(discriminate) HF) as Hh. rewrite Er in Hh. discriminate. }
      rewrite <- Er. rewrite parse_duration_groups by (assumption || discriminate).
      rewrite dur_seconds_exact. rewrite (wrap64_small (86400 * d + total (g :: gs))) by (unfold two63 in *; lia).
      rewrite wrap64_small by (unfold two63 in *; lia).
      reflexivity.
  - destruct Hne as [?|Hne]; [congruence|]. cbn [app]. rewrite Hc1, Hc2. cbn [negb].
    rewrite parse_duration_groups by assumption. rewrite dur_seconds_exact.
    rewrite wrap64_small by (unfold two63 in *; lia). f_equal.
Qed.

(* ------------------------------------------------------------------ totality *)
Lemma parse_int_no_panic s : parse_int s <> Panic.
Proof.
  unfold parse_int. destruct s; [discriminate|].
  destruct (parse_uint _); [|discriminate].
  destruct (Ascii.eqb a "-"); match goal with |- context [if ?c then _ else _] => destruct c end; discriminate.
Qed.

Lemma chunks_seconds_no_panic cs : forall acc, chunks_seconds acc cs <> Panic.
Proof.
  induction cs as [|c cs IH]; intros acc; cbn; [discriminate|].
  destruct (chunk_seconds c); [apply IH | discriminate | discriminate].
Qed.

Lemma parse_relative_no_panic now s : parse_relative now s <> Panic.
Proof.
  unfold parse_relative. destruct s as [|a rt]; [discriminate|].
  destruct (negb (Ascii.eqb a "-")); [discriminate|].
  destruct (negb (contains ":" rt)).
  - destruct (contains "d" rt).
    + destruct (split_on "d" rt) as [|s0 rest]; [discriminate|].
      destruct s0; [discriminate|].
      destruct (parse_int _); try discriminate.
      destruct (List.concat rest); [discriminate|].
      destruct (parse_duration _); discriminate.
    + destruct (parse_duration rt); discriminate.
  - pose proof (chunks_seconds_no_panic (split_on ":" rt) 0).
    destruct (chunks_seconds 0 (split_on ":" rt)); congruence.
Qed.

Lemma pta_total loc now s : parse_time_argument loc now s <> Panic.
Proof.
  unfold parse_time_argument, parse_time_argument_gen. destruct s as [|a r]; [discriminate|].
  destruct (Ascii.eqb a "-"); [apply parse_relative_no_panic|].
  destruct (parse_int (a :: r)); try discriminate; destruct (first_match loc layouts (a :: r)); discriminate.
Qed.

Lemma ptr_total loc n1 n2 a b : parse_time_range loc n1 n2 a b <> Panic.
Proof.
  unfold parse_time_range, first_of, last_of.
  pose proof (pta_total loc n1 a). pose proof (pta_total loc n2 b).
  destruct a, b; cbn [res_bind];
    repeat match goal with
           | |- context [res_bind ?x _] => destruct x eqn:?; cbn [res_bind]; try congruence
           | |- context [if ?c then _ else _] => destruct c
           end; try discriminate; congruence.
Qed.

Lemma pta_orig_panics loc now : parse_time_argument_orig loc now [] = Panic.
Proof. reflexivity. Qed.

(* ------------------------------------------------------------------ range *)
Lemma range_rejected loc n1 n2 a b first last :
  first_of loc n1 a = Ok first -> last_of loc n2 b = Ok last -> last < first ->
  parse_time_range loc n1 n2 a b = Err.
Proof.
  intros Ha Hb Hlt. unfold parse_time_range. rewrite Ha, Hb. cbn [res_bind].
  destruct (last <? first) eqn:E; [reflexivity | lia].
Qed.

Lemma range_ok loc n1 n2 a b first last :
  parse_time_range loc n1 n2 a b = Ok (first, last) <->
  first_of loc n1 a = Ok first /\ last_of loc n2 b = Ok last /\ first <= last.
Proof.
  unfold parse_time_range.
  destruct (first_of loc n1 a) as [f| |]; cbn [res_bind]; [|split; [discriminate | intros [? _]; discriminate]..].
  destruct (last_of loc n2 b) as [l| |]; cbn [res_bind]; [|split; [discriminate | intros (_ & ? & _); discriminate]..].
  destruct (l <? f) eqn:E; split.
  - discriminate.
  - intros (Hf & Hl & Hle). inversion Hf; inversion Hl; subst. lia.
  - intros H. inversion H; subst. repeat split; lia.
  - intros (Hf & Hl & Hle). inversion Hf; inversion Hl; subst. reflexivity.
Qed.

(* ------------------------------------------------------------------ through ParseTimeArgument *)
Lemma pta_relative loc now r : parse_time_argument loc now ("-" :: r) = parse_relative now ("-" :: r).
Proof. reflexivity. Qed.

Lemma pta_relative_colon loc now gs :
  (2 <= List.length gs)%nat -> Forall (fun g => 0 <= fst g) gs -> total gs < two63 -> 0 <= now < two63 ->
  parse_time_argument loc now (render_colon gs) = Ok (now - total gs).
Proof. intros. unfold render_colon. rewrite pta_relative. apply relative_colon; assumption. Qed.

Lemma pta_relative_compact loc now od gs :
  (od <> None \/ gs <> []) -> (forall d, od = Some d -> 0 <= d) ->
  Forall (fun g => 0 <= fst g /\ snd g <> UD) gs ->
  dsecs od + total gs < two63 -> total gs * 1000000000 < two63 -> 0 <= now < two63 ->
  parse_time_argument loc now ("-" :: dpart od ++ List.concat (map render_group gs)) = Ok (now - (dsecs od + total gs)).
Proof. intros. rewrite pta_relative. apply relative_compact; assumption. Qed.

Lemma pta_relative_dhm loc now d h m :
  0 <= now < two63 -> 0 <= d -> 0 <= h -> 0 <= m -> 86400 * d + 3600 * h + 60 * m < two63 ->
  parse_time_argument loc now (render_colon [(d, UD); (h, UH); (m, UM)]) = Ok (now - (86400 * d + 3600 * h + 60 * m))
  /\ ((3600 * h + 60 * m) * 1000000000 < two63 ->
      parse_time_argument loc now (render_compact [(d, UD); (h, UH); (m, UM)]) = Ok (now - (86400 * d + 3600 * h + 60 * m))).
Proof.
  intros Hn Hd Hh Hm Hb. split.
  - rewrite pta_relative_colon; [f_equal; unfold total; cbn [fold_right fst snd usecs]; lia | cbn; lia | | | assumption].
    + repeat constructor; assumption.
    + unfold total; cbn [fold_right fst snd usecs]. lia.
  - intros Hb2.
    pose proof (pta_relative_compact loc now (Some d) [(h, UH); (m, UM)]) as K.
    unfold total in K; cbn [fold_right fst snd usecs dsecs] in K.
    replace (now - (86400 * d + 3600 * h + 60 * m)) with (now - (86400 * d + (3600 * h + (60 * m + 0)))) by lia.
    unfold render_compact. cbn [map List.concat]. rewrite app_nil_r.
    cbn [dpart map List.concat] in K. rewrite app_nil_r in K. rewrite <- app_assoc in K.
    unfold render_group at 1. cbn [fst snd uchar]. rewrite <- app_assoc.
    apply K.
    + left; discriminate.
    + intros ? E; inversion E; subst; assumption.
    + repeat constructor; cbn; (assumption || discriminate).
    + lia.
    + lia.
    + assumption.
Qed.

(* ---- open-ended range: an empty `last` is the clock reading *)
Lemma last_of_empty loc n2 : last_of loc n2 [] = Ok n2.
Proof. reflexivity. Qed.

Lemma range_open_end loc n1 n2 a first : first_of loc n1 a = Ok first ->
  (parse_time_range loc n1 n2 a [] = Ok (first, n2) <-> first <= n2)
  /\ (n2 < first -> parse_time_range loc n1 n2 a [] = Err).
Proof.
  intros Ha. split.
  - rewrite range_ok. rewrite last_of_empty. split; [intros (_ & _ & H); exact H | intros H; repeat split; assumption].
  - intros H. eapply range_rejected; [exact Ha | apply last_of_empty | exact H].
Qed.

Lemma collect_interval loc n1 n2 a b f l d :
  parse_time_range_collect loc n1 n2 a b = (f, l, d) -> (In 3 d <-> l < f).
Proof.
  unfold parse_time_range_collect.
  destruct (first_of loc n1 a) as [v1| |]; destruct (last_of loc n2 b) as [v2| |];
    match goal with |- context [if ?c then _ else _] => destruct c eqn:E end;
    cbn [app]; intros H; inversion H; subst; clear H; cbn [In];
    split; intros K; try lia; intuition (try lia; try discriminate).
Qed.

Lemma collect_agrees loc n1 n2 a b f l :
  parse_time_range_collect loc n1 n2 a b = (f, l, []) <-> parse_time_range loc n1 n2 a b = Ok (f, l).
Proof.
  unfold parse_time_range_collect, parse_time_range.
  destruct (first_of loc n1 a) as [v1| |]; destruct (last_of loc n2 b) as [v2| |]; cbn [app res_bind];
    try (split; intros H; discriminate);
    destruct (v2 <? v1) eqn:E; cbn [app]; split; intros H; inversion H; subst; try reflexivity; try discriminate.
Qed.
