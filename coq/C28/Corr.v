(* C28 correspondence: case type, corr (model = observed) and holds (observed meets the spec).
   Executable only. *)
From Coq Require Import List ZArith NArith String Ascii Bool.
From GoProbe.Base Require Import CorrLib.
From GoProbe.C28 Require Import Model.
Import ListNotations.
Open Scope Z_scope.

(* what the generated text is meant to denote (known to the generator, part of the input) *)
Inductive expect :=
| ENone                                  (* nothing claimed: only "does not panic" *)
| EInt (n : Z)                           (* a decimal Unix time stamp: denotes n *)
| EAbs (idx : nat) (off : Z) (t : Z)     (* Time.Format of instant t with supported layout number idx, *)
       (readings : list (nat * Z))       (*   in zone off (or the local zone if the layout has no offset); *)
                                         (*   readings: (j, time.ParseInLocation(layout j, text).Unix()) for every accepting j *)
| ERel (delta : Z).                      (* -XdYhZm / -Xd:Yh:Zm with 86400X+3600Y+60Z = delta *)

(* lo / hi: time.Now().Unix() read immediately before / after the call *)
Inductive case :=
| CArg (loc : Z) (s : string) (lo hi : Z) (e : expect) (obs : res Z)
| CRange (loc : Z) (a b : string) (lo hi : Z) (ea eb : expect) (obs : res (Z * Z))
(* ParseTimeRangeCollectErrors: (first, last, recorded failures 1/2/3 in order) *)
| CCollect (loc : Z) (a b : string) (lo hi : Z) (ea eb : expect) (obs : res (Z * Z * list Z)).

Definition pair_eqb (x y : Z * Z) : bool := (fst x =? fst y) && (snd x =? snd y).
Fixpoint zlist_eqb (x y : list Z) : bool :=
  match x, y with [], [] => true | a :: x', b :: y' => (a =? b) && zlist_eqb x' y' | _, _ => false end.
Definition triple_eqb (x y : Z * Z * list Z) : bool := pair_eqb (fst x) (fst y) && zlist_eqb (snd x) (snd y).
Definition zmem (v : Z) (l : list Z) : bool := existsb (Z.eqb v) l.

(* all clock readings in [lo, hi]; the harness guarantees lo <= hi <= lo + 2 (else it aborts the run
   as an infrastructure error); a case outside that bound does not correspond *)
Definition nows (lo hi : Z) : list Z := map (fun k => lo + Z.of_nat k) (seq 0 (Z.to_nat (hi - lo + 1))).
Definition clock_ok (lo hi : Z) : bool := (lo <=? hi) && (hi - lo <=? 2).

Definition fmt_ok (loc : Z) (s : string) (e : expect) : bool :=
  match e with
  | EAbs idx off t _ =>
    match nth_error layouts idx with
    | Some L => str_eqb (format_layout loc off L t) (S_ s)
    | None => false
    end
  | _ => true
  end.

(* does the model still describe the code?  (the model's "now" is some reading in [lo, hi]) *)
Definition corr (c : case) : bool :=
  match c with
  | CArg loc s lo hi e obs =>
    fmt_ok loc s e &&
    (clock_ok lo hi &&
     existsb (fun now => res_eqb Z.eqb (parse_time_argument loc now (S_ s)) obs) (nows lo hi))
  | CRange loc a b lo hi ea eb obs =>
    fmt_ok loc a ea && fmt_ok loc b eb &&
    (clock_ok lo hi &&
     existsb (fun n1 => existsb (fun n2 => res_eqb pair_eqb (parse_time_range loc n1 n2 (S_ a) (S_ b)) obs)
                                (nows n1 hi)) (nows lo hi))
  | CCollect loc a b lo hi ea eb obs =>
    fmt_ok loc a ea && fmt_ok loc b eb &&
    (clock_ok lo hi &&
     existsb (fun n1 => existsb (fun n2 => res_eqb triple_eqb (Ok (parse_time_range_collect loc n1 n2 (S_ a) (S_ b))) obs)
                                (nows n1 hi)) (nows lo hi))
  end.

(* ---- specification side *)
(* readings of *other* layouts that disagree with the intended instant: the property text
   excludes these texts ("unless the text is also valid under another supported layout") *)
Definition conflicts (idx : nat) (t : Z) (rs : list (nat * Z)) : list Z :=
  map snd (filter (fun r => negb (Nat.eqb (fst r) idx) && negb (snd r =? t)) rs).

(* the closed interval of instants the text may denote, if the generator knows *)
Definition denotes (first : bool) (s : string) (lo hi : Z) (e : expect) : option (Z * Z) :=
  if String.eqb s "" then (if first then Some (0, 0) else Some (lo, hi)) else
  match e with
  | ENone => None
  | EInt n => Some (n, n)
  | EAbs idx _ t rs => match conflicts idx t rs with [] => Some (t, t) | _ => None end
  | ERel d => Some (lo - d, hi - d)
  end.

Definition in_itv (v : Z) (i : option (Z * Z)) : bool :=
  match i with Some (l, h) => (l <=? v) && (v <=? h) | None => true end.

Definition holds (c : case) : bool :=
  match c with
  | CArg loc s lo hi e obs =>
    match obs with
    | Panic => false
    | Err => match e with ENone => true | _ => false end
    | Ok v =>
      match e with
      | ENone => true
      | EInt n => v =? n
      | EAbs idx _ t rs => match conflicts idx t rs with
                           | [] => v =? t
                           | cs => (v =? t) || existsb (Z.eqb v) cs
                           end
      | ERel d => (lo - d <=? v) && (v <=? hi - d)
      end
    end
  | CRange loc a b lo hi ea eb obs =>
    let ia := denotes true a lo hi ea in
    let ib := denotes false b lo hi eb in
    match obs with
    | Panic => false
    | Ok (f, l) =>
      (f <=? l) && in_itv f ia && in_itv l ib &&
      match ia, ib with Some (al, _), Some (_, bh) => negb (bh <? al) | _, _ => true end
    | Err =>
      (* both sides well-formed and certainly ordered: must have been accepted *)
      match ia, ib with Some (_, ah), Some (bl, _) => negb (ah <=? bl) | _, _ => true end
    end
  | CCollect loc a b lo hi ea eb obs =>
    let ia := denotes true a lo hi ea in
    let ib := denotes false b lo hi eb in
    match obs with
    | Ok (f, l, d) =>
      let e1 := zmem 1 d in let e2 := zmem 2 d in let e3 := zmem 3 d in
      (* a start after the end is reported, and only then *)
      Bool.eqb e3 (l <? f) &&
      (e1 || in_itv f ia) && (e2 || in_itv l ib) &&
      match ia, ib with
      | Some (al, ah), Some (bl, bh) =>
        negb e1 && negb e2 && (if bh <? al then e3 else true) && (if ah <=? bl then negb e3 else true)
      | _, _ => true
      end
    | _ => false
    end
  end.
