(* C28 proofs, part 2: Time.Format followed by time.Parse is the identity for the supported layouts
   (element-wise lemmas, a generic induction over well-formed layouts, the civil calendar by a
   complete check of every day from 1969-01-01 to 2068-12-31). *)
From Coq Require Import List ZArith NArith String Ascii Bool Lia ZifyBool ZifyNat ZifyN.
From GoProbe.Base Require Import CorrLib.
From GoProbe.C28 Require Import Model ProofsRel.
Import ListNotations.
Open Scope char_scope.
Open Scope Z_scope.

Ltac Zify.zify_post_hook ::= Z.to_euclidean_division_equations.

Record valid_civil (c : civil) : Prop := {
  v_year : 1969 <= c_year c <= 2068;
  v_month : 1 <= c_month c <= 12;
  v_day : 1 <= c_day c <= 31;
  v_hour : 0 <= c_hour c <= 23;
  v_min : 0 <= c_min c <= 59;
  v_sec : 0 <= c_sec c <= 59;
  v_wday : 0 <= c_wday c <= 6;
  v_off : -86400 < c_off c < 86400 /\ c_off c mod 60 = 0 }.

Lemma Zrange_ind (P : Z -> Prop) lo n :
  (forall k : nat, (k < n)%nat -> P (lo + Z.of_nat k)) -> forall z, lo <= z < lo + Z.of_nat n -> P z.
Proof.
  intros H z Hz. replace z with (lo + Z.of_nat (Z.to_nat (z - lo))) by lia. apply H. lia.
Qed.

Definition starts_with_space (s : str) : bool := match s with a :: _ => Ascii.eqb a " " | [] => false end.

(* ------------------------------------------------------------------ numbers *)
Lemma dchar_not c k : 0 <= k <= 9 -> is_digit c = false -> Ascii.eqb (dchar k) c = false.
Proof. intros. apply digit_neq; [apply is_digit_dchar; assumption | assumption]. Qed.

Lemma getnum_fmt2 fixed n rest : 0 <= n <= 99 -> getnum fixed (fmt2 n ++ rest) = Some (n, rest).
Proof.
  intros H. unfold fmt2, getnum. cbn [app].
  rewrite !is_digit_dchar, !dval_dchar by lia. do 2 f_equal. lia.
Qed.

Lemma getnum_fmt2_nil n : 0 <= n <= 99 -> getnum true (fmt2 n) = Some (n, []).
Proof. intros H. rewrite <- (app_nil_r (fmt2 n)). apply getnum_fmt2. assumption. Qed.

Lemma getnum_fmt12 n rest : 0 <= n <= 99 -> starts_digit rest = false ->
  getnum false (fmt12 n ++ rest) = Some (n, rest).
Proof.
  intros H Hr. unfold fmt12. destruct (n <? 10) eqn:E; [|apply getnum_fmt2; assumption].
  unfold getnum. cbn [app]. rewrite is_digit_dchar, dval_dchar by lia.
  destruct rest as [|b r]; [reflexivity|]. cbn [starts_digit] in Hr. rewrite Hr. reflexivity.
Qed.

Lemma atoi_fmt2 n : 0 <= n <= 99 -> atoi (fmt2 n) = Some n.
Proof.
  intros H. unfold atoi, fmt2.
  rewrite (dchar_not "-"), (dchar_not "+") by (lia || reflexivity).
  cbn [leading_int]. rewrite !is_digit_dchar, !dval_dchar by lia. case_ifs. f_equal. lia.
Qed.

Lemma atoi_fmt4 n : 0 <= n <= 9999 -> atoi (fmt4 n) = Some n.
Proof.
  intros H. unfold atoi, fmt4.
  rewrite (dchar_not "-"), (dchar_not "+") by (lia || reflexivity).
  cbn [leading_int]. rewrite !is_digit_dchar, !dval_dchar by lia. case_ifs. f_equal. lia.
Qed.

Lemma month_lookup m rest : 1 <= m <= 12 ->
  lookup 0 month_names (nth (Z.to_nat (m - 1)) month_names [] ++ rest) = Some (m - 1, rest).
Proof.
  intros H. assert (H' : 1 <= m < 1 + Z.of_nat 12) by lia. clear H. revert m H'. apply Zrange_ind. intros k Hk.
  do 12 (destruct k as [|k]; [reflexivity|]). lia.
Qed.

Lemma wday_lookup w rest : 0 <= w <= 6 ->
  exists i, lookup 0 day_names (nth (Z.to_nat w) day_names [] ++ rest) = Some (i, rest).
Proof.
  intros H. assert (H' : 0 <= w < 0 + Z.of_nat 7) by lia. clear H. revert w H'. apply Zrange_ind. intros k Hk.
  do 7 (destruct k as [|k]; [eexists; reflexivity|]). lia.
Qed.

Lemma month_head m rest : 1 <= m <= 12 ->
  starts_with_space (nth (Z.to_nat (m - 1)) month_names [] ++ rest) = false.
Proof.
  intros H. assert (H' : 1 <= m < 1 + Z.of_nat 12) by lia. clear H. revert m H'. apply Zrange_ind. intros k Hk.
  do 12 (destruct k as [|k]; [reflexivity|]). lia.
Qed.

(* ------------------------------------------------------------------ zone offsets *)
Lemma tz_num_fmt sg zone : 0 <= zone < 1440 -> (sg = "+" \/ sg = "-") ->
  match fmt2 (zone / 60), fmt2 (zone mod 60) with
  | [h1; h2], [m1; m2] => tz_num sg h1 h2 m1 m2 = Some (if Ascii.eqb sg "+" then zone * 60 else - (zone * 60))
  | _, _ => False
  end.
Proof.
  intros H Hs. unfold fmt2. unfold tz_num.
  change [dchar (zone / 60 / 10); dchar ((zone / 60) mod 10)] with (fmt2 (zone / 60)).
  change [dchar (zone mod 60 / 10); dchar ((zone mod 60) mod 10)] with (fmt2 (zone mod 60)).
  rewrite !getnum_fmt2_nil by lia.
  assert (E : (24 <? zone / 60) || (60 <? zone mod 60) = false) by lia. rewrite E.
  destruct Hs; subst sg; cbn [Ascii.eqb Bool.eqb andb]; f_equal; lia.
Qed.

Lemma parse_numtz c st rest : valid_civil c ->
  parse_elem ENumTZ st (fmt_elem c ENumTZ ++ rest) = Some (set_zone (c_off c) st, rest).
Proof.
  intros V. destruct (v_off c V) as [Ho Hm]. cbn [fmt_elem]. unfold fmt_tz. cbn [andb].
  destruct (Z.quot (c_off c) 60 <? 0) eqn:E.
  - pose proof (tz_num_fmt "-" (- Z.quot (c_off c) 60) ltac:(lia) ltac:(auto)) as K.
    unfold fmt2 in *. cbn [app parse_elem]. rewrite K. cbn. do 3 f_equal. lia.
  - pose proof (tz_num_fmt "+" (Z.quot (c_off c) 60) ltac:(lia) ltac:(auto)) as K.
    unfold fmt2 in *. cbn [app parse_elem]. rewrite K. cbn. do 3 f_equal. lia.
Qed.

Lemma parse_isotz c st rest : valid_civil c ->
  parse_elem EISOColonTZ st (fmt_elem c EISOColonTZ ++ rest) = Some (set_zone (c_off c) st, rest).
Proof.
  intros V. destruct (v_off c V) as [Ho Hm]. cbn [fmt_elem]. unfold fmt_tz. cbn [andb].
  destruct (c_off c =? 0) eqn:E0.
  { cbn. do 3 f_equal. lia. }
  destruct (Z.quot (c_off c) 60 <? 0) eqn:E.
  - pose proof (tz_num_fmt "-" (- Z.quot (c_off c) 60) ltac:(lia) ltac:(auto)) as K.
    unfold fmt2 in *. cbn [app parse_elem]. cbn [Ascii.eqb Bool.eqb]. rewrite K. cbn. do 3 f_equal. lia.
  - pose proof (tz_num_fmt "+" (Z.quot (c_off c) 60) ltac:(lia) ltac:(auto)) as K.
    unfold fmt2 in *. cbn [app parse_elem]. cbn [Ascii.eqb Bool.eqb]. rewrite K. cbn. do 3 f_equal. lia.
Qed.

(* ------------------------------------------------------------------ one element *)
Definition upd (e : elem) (c : civil) (st : pst) : pst :=
  match e with
  | ELongYear | EYear => set_year (c_year c) st
  | EMonth | ENumMonth | EZeroMonth => set_month (c_month c) st
  | EDay | EUnderDay | EZeroDay => set_day (c_day c) st
  | EHour => set_hour (c_hour c) st
  | EZeroMinute => set_min (c_min c) st
  | EZeroSecond => set_sec (c_sec c) st
  | ENumTZ | EISOColonTZ => set_zone (c_off c) st
  | ELit _ | ESp | EWeekDay => st
  end.

Definition starts_cp (s : str) : bool := match s with a :: _ => comma_or_period a | [] => false end.

(* what must not follow the rendering of an element for the parse to stop where the rendering ends *)
Definition head_cond (e : elem) (rest : str) : Prop :=
  match e with
  | EDay | EUnderDay | ENumMonth | EHour => starts_digit rest = false
  | EZeroSecond => starts_cp rest = false
  | ESp => starts_with_space rest = false
  | _ => True
  end.

Lemma cutspace_id s : starts_with_space s = false -> cutspace s = s.
Proof. destruct s as [|a r]; cbn; [reflexivity|]. intros ->. reflexivity. Qed.

Lemma elem_ok e c st rest : valid_civil c -> head_cond e rest ->
  parse_elem e st (fmt_elem c e ++ rest) = Some (upd e c st, rest).
Proof.
  intros V HC. pose proof (v_year c V). pose proof (v_month c V). pose proof (v_day c V).
  pose proof (v_hour c V). pose proof (v_min c V). pose proof (v_sec c V). pose proof (v_wday c V).
  destruct e; cbn [head_cond] in HC.
  - (* ELit *) cbn. rewrite Ascii.eqb_refl. reflexivity.
  - (* ESp *) cbn [fmt_elem app parse_elem upd]. cbn [Ascii.eqb Bool.eqb andb cutspace].
    rewrite cutspace_id by assumption. reflexivity.
  - (* ELongYear *) cbn [fmt_elem upd]. unfold parse_elem.
    pose proof (atoi_fmt4 (c_year c) ltac:(lia)) as K. unfold fmt4 in *. cbn [app].
    rewrite is_digit_dchar by lia. rewrite K. reflexivity.
  - (* EYear *) cbn [fmt_elem upd]. unfold parse_elem.
    pose proof (atoi_fmt2 (c_year c mod 100) ltac:(lia)) as K. unfold fmt2 in *. cbn [app].
    rewrite K. do 3 f_equal. case_ifs; lia.
  - (* EMonth *) cbn [fmt_elem upd parse_elem]. rewrite month_lookup by lia. do 3 f_equal. lia.
  - (* ENumMonth *) cbn [fmt_elem upd parse_elem]. rewrite getnum_fmt12 by (lia || assumption).
    case_ifs. reflexivity.
  - (* EZeroMonth *) cbn [fmt_elem upd parse_elem]. rewrite getnum_fmt2 by lia. case_ifs. reflexivity.
  - (* EWeekDay *) cbn [fmt_elem upd parse_elem].
    destruct (wday_lookup (c_wday c) rest ltac:(lia)) as [i ->]. reflexivity.
  - (* EDay *) cbn [fmt_elem upd parse_elem]. rewrite getnum_fmt12 by (lia || assumption). reflexivity.
  - (* EUnderDay *) cbn [fmt_elem upd parse_elem]. destruct (c_day c <? 10) eqn:E.
    + cbn [app]. cbn [Ascii.eqb Bool.eqb andb].
      pose proof (getnum_fmt12 (c_day c) rest ltac:(lia) HC) as K. unfold fmt12 in K. rewrite E in K.
      cbn [app] in K. rewrite K. reflexivity.
    + unfold fmt2. cbn [app]. rewrite (dchar_not " ") by (lia || reflexivity).
      pose proof (getnum_fmt2 false (c_day c) rest ltac:(lia)) as K. unfold fmt2 in K. cbn [app] in K.
      rewrite K. reflexivity.
  - (* EZeroDay *) cbn [fmt_elem upd parse_elem]. rewrite getnum_fmt2 by lia. reflexivity.
  - (* EHour *) cbn [fmt_elem upd parse_elem]. rewrite getnum_fmt2 by lia. case_ifs. reflexivity.
  - (* EZeroMinute *) cbn [fmt_elem upd parse_elem]. rewrite getnum_fmt2 by lia. case_ifs. reflexivity.
  - (* EZeroSecond *) cbn [fmt_elem upd parse_elem]. rewrite getnum_fmt2 by lia. case_ifs.
    destruct rest as [|a [|b r]]; try reflexivity. cbn [starts_cp] in HC. rewrite HC. reflexivity.
  - (* ENumTZ *) cbn [upd]. apply parse_numtz; assumption.
  - (* EISOColonTZ *) cbn [upd]. apply parse_isotz; assumption.
Qed.

(* ------------------------------------------------------------------ a whole layout *)
(* may e be followed by `next` (None: end of the layout) *)
Definition follow_ok (e : elem) (next : option elem) : bool :=
  match e with
  | EDay | EUnderDay | ENumMonth | EHour =>
    match next with
    | None | Some ESp => true
    | Some (ELit c) => negb (is_digit c)
    | _ => false
    end
  | EZeroSecond =>
    match next with
    | None | Some ESp | Some EISOColonTZ => true
    | Some (ELit c) => negb (comma_or_period c)
    | _ => false
    end
  | ESp =>
    match next with
    | None | Some EHour | Some ELongYear | Some EZeroDay | Some EYear | Some ENumTZ | Some EMonth => true
    | _ => false
    end
  | _ => true
  end.

(* a space run followed by the space-padded day: handled as a pair *)
Definition sp_ud (e : elem) (next : option elem) : bool :=
  match e, next with ESp, Some EUnderDay => true | _, _ => false end.

Fixpoint wf_layout (es : list elem) : bool :=
  match es with
  | [] => true
  | e :: es' => (follow_ok e (hd_error es') || sp_ud e (hd_error es')) && wf_layout es'
  end.

Lemma follow_head e es' c : valid_civil c -> follow_ok e (hd_error es') = true -> head_cond e (fmt_elems c es').
Proof.
  intros V. pose proof (v_year c V). pose proof (v_month c V). pose proof (v_day c V). pose proof (v_hour c V).
  destruct (v_off c V) as [Ho Hm].
  destruct es' as [|e' es']; [destruct e; cbn; intros; (reflexivity || discriminate || exact I)|].
  unfold fmt_elems. cbn [map List.concat hd_error].
  destruct e; cbn [follow_ok head_cond]; try (intros; exact I); try discriminate;
    destruct e'; try discriminate; intros F; cbn [fmt_elem];
      try (cbn; apply negb_true_iff in F; exact F); try reflexivity.
  - (* ESp, ELongYear *) unfold fmt4. cbn. apply dchar_not; [lia | reflexivity].
  - (* ESp, EYear *) unfold fmt2. cbn. apply dchar_not; [lia | reflexivity].
  - (* ESp, EMonth *) apply month_head. lia.
  - (* ESp, EZeroDay *) unfold fmt2. cbn. apply dchar_not; [lia | reflexivity].
  - (* ESp, EHour *) unfold fmt2. cbn. apply dchar_not; [lia | reflexivity].
  - (* ESp, ENumTZ *) unfold fmt_tz. cbn [andb]. destruct (Z.quot (c_off c) 60 <? 0); reflexivity.
  - (* EZeroSecond, EISOColonTZ *) unfold fmt_tz. cbn [andb].
    destruct (c_off c =? 0); [reflexivity|]. destruct (Z.quot (c_off c) 60 <? 0); reflexivity.
Qed.

Fixpoint apply_all (es : list elem) (c : civil) (st : pst) : pst :=
  match es with [] => st | e :: es' => apply_all es' c (upd e c st) end.

(* the space-padded day parses the same after a preceding space run has eaten its padding *)
Lemma underday_cutspace c st R : valid_civil c ->
  parse_elem EUnderDay st (cutspace (fmt_elem c EUnderDay ++ R)) = parse_elem EUnderDay st (fmt_elem c EUnderDay ++ R).
Proof.
  intros V. pose proof (v_day c V). cbn [fmt_elem]. destruct (c_day c <? 10) eqn:E.
  - cbn [app cutspace]. cbn [Ascii.eqb Bool.eqb andb]. cbn [cutspace].
    rewrite (dchar_not " ") by (lia || reflexivity). cbn [parse_elem].
    rewrite (dchar_not " ") by (lia || reflexivity). cbn [Ascii.eqb Bool.eqb andb]. reflexivity.
  - unfold fmt2. cbn [app cutspace]. rewrite (dchar_not " ") by (lia || reflexivity). reflexivity.
Qed.

Lemma elems_ok c : valid_civil c -> forall es st, wf_layout es = true ->
  parse_elems es st (fmt_elems c es) = Some (apply_all es c st, []).
Proof.
  intros V. induction es as [|e es IH]; intros st W; [reflexivity|].
  cbn [wf_layout] in W. apply andb_true_iff in W as [F W].
  change (fmt_elems c (e :: es)) with (fmt_elem c e ++ fmt_elems c es).
  destruct (follow_ok e (hd_error es)) eqn:FO.
  - cbn [parse_elems apply_all]. rewrite elem_ok by (assumption || apply follow_head; assumption).
    apply IH. assumption.
  - cbn [orb] in F. destruct e; try discriminate. destruct es as [|e' es']; [discriminate|].
    destruct e'; try discriminate.
    specialize (IH st W).
    change (fmt_elems c (EUnderDay :: es')) with (fmt_elem c EUnderDay ++ fmt_elems c es') in *.
    cbn [parse_elems apply_all upd] in *.
    change (fmt_elem c ESp) with [" "]. cbn [app]. remember (fmt_elem c EUnderDay ++ fmt_elems c es') as Y eqn:EY.
    assert (parse_elem ESp st (" " :: Y) = Some (st, cutspace Y)) as -> by reflexivity.
    subst Y. rewrite underday_cutspace by assumption. exact IH.
Qed.

(* ------------------------------------------------------------------ the calendar *)
Definition day_ok (n : Z) : bool :=
  let '(y, m, d) := civil_from_days n in
  (1969 <=? y) && (y <=? 2068) && (1 <=? m) && (m <=? 12) && (1 <=? d) && (d <=? days_in m y)
  && (days_from_civil y m d =? n).

Definition day_lo : Z := -365.      (* 1969-01-01 *)
Definition day_n : nat := Z.to_nat 36525.    (* .. 2068-12-31 *)

Lemma all_days_ok : forallb (fun k => day_ok (day_lo + Z.of_nat k)) (seq 0 day_n) = true.
Proof. vm_compute. reflexivity. Qed.

Lemma day_ok_range n : day_lo <= n < day_lo + Z.of_nat day_n -> day_ok n = true.
Proof.
  revert n. apply Zrange_ind. intros k Hk.
  pose proof all_days_ok as A. rewrite forallb_forall in A. apply A. apply in_seq. lia.
Qed.

Lemma days_in_le m y : days_in m y <= 31.
Proof. unfold days_in. case_ifs; lia. Qed.

(* civil seconds (t + zone) from 1969-01-01T00:00:00 up to, not including, 2069-01-01T00:00:00 *)
Definition in_range (l : Z) : Prop := -31536000 <= l < 3124224000.

Lemma civil_of_valid t zone : in_range (t + zone) -> -86400 < zone < 86400 -> zone mod 60 = 0 ->
  valid_civil (civil_of t zone) /\ c_off (civil_of t zone) = zone.
Proof.
  intros R Hz Hm. unfold in_range in R. unfold civil_of.
  assert (D : day_ok ((t + zone) / 86400) = true) by (apply day_ok_range; unfold day_lo, day_n; lia).
  unfold day_ok in D. destruct (civil_from_days ((t + zone) / 86400)) as [[y m] d].
  pose proof (days_in_le m y).
  split; [constructor|]; cbn [c_year c_month c_day c_hour c_min c_sec c_wday c_off]; lia.
Qed.

Definition st_of (c : civil) (hs : bool) (z : option Z) : pst :=
  {| p_year := c_year c; p_month := c_month c; p_day := c_day c; p_hour := c_hour c; p_min := c_min c;
     p_sec := if hs then c_sec c else 0; p_zone := z |}.

Lemma finish_ok loc zone t hs z : in_range (t + zone) ->
  (hs = false -> t mod 60 = 0 /\ zone mod 60 = 0) ->
  (z = Some zone \/ (z = None /\ zone = loc)) ->
  finish loc (st_of (civil_of t zone) hs z) = Some t.
Proof.
  intros R Hs Hz. unfold in_range in R. unfold civil_of.
  assert (D : day_ok ((t + zone) / 86400) = true) by (apply day_ok_range; unfold day_lo, day_n; lia).
  unfold day_ok in D. destruct (civil_from_days ((t + zone) / 86400)) as [[y m] d].
  unfold finish, st_of. cbn [p_year p_month p_day p_hour p_min p_sec p_zone c_year c_month c_day c_hour c_min c_sec].
  assert (E1 : (m <? 0) = false) by lia. assert (E2 : (d <? 0) = false) by lia. rewrite E1, E2.
  assert (E3 : (d <? 1) || (days_in m y <? d) = false) by lia. rewrite E3.
  assert (E4 : days_from_civil y m d = (t + zone) / 86400) by lia. rewrite E4.
  f_equal.
  assert (match z with Some o => o | None => loc end = zone) as -> by (destruct Hz as [->|[-> ->]]; reflexivity).
  destruct hs; [lia|]. destruct (Hs eq_refl). lia.
Qed.

(* ------------------------------------------------------------------ every supported layout *)
Definition valid_zone (z : Z) : Prop := -86400 < z < 86400 /\ z mod 60 = 0.
Definition zone_of (L : list elem) (loc off : Z) : Z := if has_tz L then off else loc.

Lemma apply_all_layouts L c : In L layouts ->
  apply_all L c pst0 = st_of c (has_sec L) (if has_tz L then Some (c_off c) else None).
Proof.
  intros H. unfold layouts in H. cbn [In] in H.
  repeat (destruct H as [<-|H]; [reflexivity|]). contradiction.
Qed.

Lemma layouts_wf L : In L layouts -> wf_layout L = true.
Proof.
  intros H. pose proof (eq_refl : forallb wf_layout layouts = true) as A.
  rewrite forallb_forall in A. apply A. assumption.
Qed.

Lemma layout_roundtrip L loc off t :
  In L layouts -> valid_zone loc -> valid_zone off ->
  in_range (t + zone_of L loc off) -> (has_sec L = false -> t mod 60 = 0) ->
  parse_layout loc L (format_layout loc off L t) = Some t.
Proof.
  intros HL [Hl1 Hl2] [Ho1 Ho2] R P.
  unfold parse_layout, format_layout. fold (zone_of L loc off) in *.
  assert (Hz : -86400 < zone_of L loc off < 86400 /\ zone_of L loc off mod 60 = 0).
  { unfold zone_of. destruct (has_tz L); split; assumption. }
  destruct Hz as [Hz1 Hz2].
  destruct (civil_of_valid t (zone_of L loc off) R Hz1 Hz2) as [V Hoff].
  rewrite elems_ok by (assumption || apply layouts_wf; assumption).
  rewrite apply_all_layouts by assumption. rewrite Hoff.
  apply finish_ok; [assumption | intros E; split; [apply P; assumption | assumption] |].
  unfold zone_of. destruct (has_tz L); [left; reflexivity | right; split; reflexivity].
Qed.

(* the ordered first-match loop: if every layout that accepts the text reads the same instant,
   the loop returns that instant *)
Lemma first_match_agree loc Ls s t :
  (exists L, In L Ls /\ parse_layout loc L s = Some t) ->
  (forall L', In L' Ls -> parse_layout loc L' s = None \/ parse_layout loc L' s = Some t) ->
  first_match loc Ls s = Some t.
Proof.
  induction Ls as [|L0 Ls IH]; intros [L [HI HP]] HA; [contradiction|].
  cbn [first_match]. destruct (HA L0 (or_introl eq_refl)) as [E|E]; rewrite E; [|reflexivity].
  apply IH.
  - destruct HI as [->|HI]; [congruence | exists L; split; assumption].
  - intros L' HL'. apply HA. right. assumption.
Qed.

Lemma first_match_layout L loc off t :
  In L layouts -> valid_zone loc -> valid_zone off ->
  in_range (t + zone_of L loc off) -> (has_sec L = false -> t mod 60 = 0) ->
  (forall L', In L' layouts -> parse_layout loc L' (format_layout loc off L t) = None
                               \/ parse_layout loc L' (format_layout loc off L t) = Some t) ->
  first_match loc layouts (format_layout loc off L t) = Some t.
Proof.
  intros. apply first_match_agree; [|assumption].
  exists L. split; [assumption | apply layout_roundtrip; assumption].
Qed.

(* the first-match loop returns what the first accepting layout reads, whatever the text *)
Lemma first_match_sound loc Ls s t : first_match loc Ls s = Some t ->
  exists pre L post, Ls = pre ++ L :: post /\ parse_layout loc L s = Some t
                     /\ forall L', In L' pre -> parse_layout loc L' s = None.
Proof.
  induction Ls as [|L0 Ls IH]; cbn [first_match]; [discriminate|].
  destruct (parse_layout loc L0 s) as [t0|] eqn:E; intros H.
  - inversion H; subst. exists [], L0, Ls. repeat split; [assumption | intros ? []].
  - destruct (IH H) as (pre & L & post & -> & HP & HN).
    exists (L0 :: pre), L, post. repeat split; [assumption|].
    intros L' [<-|HI]; [assumption | apply HN; assumption].
Qed.

(* ------------------------------------------------------------------ absolute texts and the two earlier branches *)
(* every supported layout starts with a year / day / weekday-name element and contains the literal ':'
   (between hour and minute): no supported layout renders to an all-digit text *)
Definition first_ok (e : elem) : bool :=
  match e with ELongYear | EYear | EZeroDay | EDay | EWeekDay => true | _ => false end.
Definition is_colon (e : elem) : bool := match e with ELit c => Ascii.eqb c ":" | _ => false end.
Definition shape_ok (L : list elem) : bool :=
  match L with e :: _ => first_ok e | [] => false end && existsb is_colon L.

Lemma layouts_shape L : In L layouts -> shape_ok L = true.
Proof.
  intros H. pose proof (eq_refl : forallb shape_ok layouts = true) as A.
  rewrite forallb_forall in A. apply A. assumption.
Qed.

Lemma digits_val_nondigit s1 : forall x c s2, is_digit c = false -> digits_val x (s1 ++ c :: s2) = None.
Proof.
  induction s1 as [|a s1 IH]; intros x c s2 Hc; cbn [app digits_val].
  - rewrite Hc. reflexivity.
  - destruct (is_digit a); [apply IH; assumption | reflexivity].
Qed.

Lemma fmt_elems_app c l1 l2 : fmt_elems c (l1 ++ l2) = fmt_elems c l1 ++ fmt_elems c l2.
Proof. unfold fmt_elems. rewrite map_app, concat_app. reflexivity. Qed.

Lemma fmt_has_colon c L : existsb is_colon L = true -> exists s1 s2, fmt_elems c L = s1 ++ ":" :: s2.
Proof.
  intros H. apply existsb_exists in H as (e & HI & He).
  destruct e; try discriminate. cbn in He. apply Ascii.eqb_eq in He. subst.
  apply in_split in HI as (l1 & l2 & ->).
  exists (fmt_elems c l1), (fmt_elems c l2). rewrite fmt_elems_app. reflexivity.
Qed.

Lemma wday_head w : 0 <= w <= 6 ->
  exists a r, nth (Z.to_nat w) day_names [] = a :: r /\ Ascii.eqb a "-" = false /\ Ascii.eqb a "+" = false.
Proof.
  intros H. assert (H' : 0 <= w < 0 + Z.of_nat 7) by lia. clear H. revert w H'. apply Zrange_ind. intros k Hk.
  cbv beta. do 7 (destruct k as [|k]; [do 2 eexists; split; [reflexivity | split; reflexivity]|]). lia.
Qed.

Lemma fmt_first_head c e : valid_civil c -> first_ok e = true ->
  exists a r, fmt_elem c e = a :: r /\ Ascii.eqb a "-" = false /\ Ascii.eqb a "+" = false.
Proof.
  intros V F. pose proof (v_year c V). pose proof (v_day c V). pose proof (v_wday c V).
  destruct e; try discriminate; cbn [fmt_elem].
  - unfold fmt4. do 2 eexists. repeat split; apply dchar_not; (lia || reflexivity).
  - unfold fmt2. do 2 eexists. repeat split; apply dchar_not; (lia || reflexivity).
  - apply wday_head. lia.
  - unfold fmt12, fmt2. destruct (c_day c <? 10) eqn:E; do 2 eexists; repeat split; apply dchar_not; (lia || reflexivity).
  - unfold fmt2. do 2 eexists. repeat split; apply dchar_not; (lia || reflexivity).
Qed.

(* a rendered absolute time never takes the relative ('-') or the Unix-integer (ParseInt) branch *)
Lemma pta_absolute_text c L loc now : valid_civil c -> In L layouts ->
  parse_time_argument loc now (fmt_elems c L)
  = match first_match loc layouts (fmt_elems c L) with Some t => Ok t | None => Err end.
Proof.
  intros V HL. pose proof (layouts_shape L HL) as S. unfold shape_ok in S.
  apply andb_true_iff in S as [S1 S2].
  destruct (fmt_has_colon c L S2) as (s1 & s2 & Hs).
  destruct L as [|e L']; [discriminate|].
  destruct (fmt_first_head c e V S1) as (a & r & He & Hm & Hp).
  assert (Hcons : fmt_elems c (e :: L') = a :: (r ++ fmt_elems c L')).
  { change (fmt_elems c (e :: L')) with (fmt_elem c e ++ fmt_elems c L'). rewrite He. reflexivity. }
  assert (Hpi : parse_int (fmt_elems c (e :: L')) = Err).
  { rewrite Hcons. unfold parse_int. cbv zeta. rewrite Hm, Hp. cbn [orb]. rewrite <- Hcons, Hs.
    unfold parse_uint. rewrite digits_val_nondigit by reflexivity.
    destruct (s1 ++ ":" :: s2); reflexivity. }
  unfold parse_time_argument, parse_time_argument_gen.
  destruct (fmt_elems c (e :: L')) as [|a0 r0] eqn:Ef; [discriminate|].
  injection Hcons as E1 E2. subst a0. rewrite Hm, Hpi. reflexivity.
Qed.

Lemma pta_layout L loc off now t :
  In L layouts -> valid_zone loc -> valid_zone off ->
  in_range (t + zone_of L loc off) -> (has_sec L = false -> t mod 60 = 0) ->
  (forall L', In L' layouts -> parse_layout loc L' (format_layout loc off L t) = None
                               \/ parse_layout loc L' (format_layout loc off L t) = Some t) ->
  parse_time_argument loc now (format_layout loc off L t) = Ok t.
Proof.
  intros HL Hloc Hoff R P HA.
  pose proof (first_match_layout L loc off t HL Hloc Hoff R P HA) as FM.
  unfold format_layout in *. fold (zone_of L loc off) in *.
  destruct Hloc as [Hl1 Hl2], Hoff as [Ho1 Ho2].
  assert (Hz : -86400 < zone_of L loc off < 86400 /\ zone_of L loc off mod 60 = 0).
  { unfold zone_of. destruct (has_tz L); split; assumption. }
  destruct (civil_of_valid t (zone_of L loc off) R (proj1 Hz) (proj2 Hz)) as [V _].
  rewrite pta_absolute_text by assumption. rewrite FM. reflexivity.
Qed.
