(* C28 model: pkg/query/time.go (ParseTimeArgument, ParseTimeRange, parseRelativeTime, the ordered
   layout list) together with a re-model of the parts of Go's `time` / `strconv` packages these
   functions call: strconv.ParseInt (base 10, 64 bit), time.ParseDuration, Duration.Seconds,
   time.ParseInLocation / Time.Format restricted to the layout elements that occur in the supported
   layouts, time.Date for fixed-offset zones.  Executable definitions only.
   Strings are byte lists (`list ascii`), as Go strings are. "now" is a parameter. *)
From Coq Require Import List ZArith NArith String Ascii Bool.
From GoProbe.Base Require Import CorrLib.
Import ListNotations.
Open Scope char_scope.
Open Scope Z_scope.

Definition str := list ascii.
Definition S_ (s : string) : str := list_ascii_of_string s.
Definition bstr (l : list N) : string := string_of_list_ascii (map ascii_of_N l).

Definition code (a : ascii) : Z := Z.of_N (N_of_ascii a).
Definition is_digit (a : ascii) : bool := (48 <=? code a) && (code a <=? 57).
Definition dval (a : ascii) : Z := code a - 48.
Definition dchar (k : Z) : ascii := ascii_of_N (Z.to_N (48 + k)).

Fixpoint str_eqb (a b : str) : bool :=
  match a, b with
  | [], [] => true
  | x :: a', y :: b' => Ascii.eqb x y && str_eqb a' b'
  | _, _ => false
  end.

Definition two63 : Z := 9223372036854775808.
Definition two64 : Z := 18446744073709551616.
(* Go int64 arithmetic wraps *)
Definition wrap64 (z : Z) : Z := (z + two63) mod two64 - two63.

(* ------------------------------------------------------------------ strconv.ParseInt(s, 10, 64) *)
Fixpoint digits_val (acc : Z) (s : str) : option Z :=
  match s with
  | [] => Some acc
  | a :: r => if is_digit a then digits_val (acc * 10 + dval a) r else None
  end.

Definition parse_uint (s : str) : option Z :=
  match s with [] => None | _ => digits_val 0 s end.

Definition parse_int (s : str) : res Z :=
  match s with
  | [] => Err
  | a :: r =>
    let neg := Ascii.eqb a "-" in
    let body := if Ascii.eqb a "+" || neg then r else s in
    match parse_uint body with
    | None => Err
    | Some v => if neg then (if v <=? two63 then Ok (- v) else Err)
                else (if v <? two63 then Ok v else Err)
    end
  end.

(* ------------------------------------------------------------------ strings helpers *)
Fixpoint contains (c : ascii) (s : str) : bool :=
  match s with [] => false | a :: r => Ascii.eqb a c || contains c r end.

(* strings.Split(s, c) for a one-byte separator *)
Fixpoint split_on (c : ascii) (s : str) : list str :=
  match s with
  | [] => [[]]
  | a :: r =>
    if Ascii.eqb a c then [] :: split_on c r
    else match split_on c r with
         | h :: t => (a :: h) :: t
         | [] => [[a]]
         end
  end.

(* ------------------------------------------------------------------ time.ParseDuration *)
(* leadingInt: None = overflow error *)
Fixpoint leading_int (x : Z) (s : str) : option (Z * str) :=
  match s with
  | [] => Some (x, [])
  | a :: r =>
    if is_digit a then
      if two63 / 10 <? x then None
      else let x' := x * 10 + dval a in
           if two63 <? x' then None else leading_int x' r
    else Some (x, s)
  end.

(* leadingFraction: (x, scale, rest); scale is a power of ten (a float64 in Go) *)
Fixpoint leading_fraction (x scale : Z) (ovf : bool) (s : str) : Z * Z * str :=
  match s with
  | [] => (x, scale, [])
  | a :: r =>
    if is_digit a then
      if ovf then leading_fraction x scale true r
      else if (two63 - 1) / 10 <? x then leading_fraction x scale true r
      else let y := x * 10 + dval a in
           if two63 <? y then leading_fraction x scale true r
           else leading_fraction y (scale * 10) false r
    else (x, scale, s)
  end.

Definition unit_stop (a : ascii) : bool := Ascii.eqb a "." || is_digit a.

Fixpoint span_unit (s : str) : str * str :=
  match s with
  | [] => ([], [])
  | a :: r => if unit_stop a then ([], s) else let '(u, t) := span_unit r in (a :: u, t)
  end.

Definition unit_of (u : str) : option Z :=
  if str_eqb u (S_ "ns") then Some 1
  else if str_eqb u (S_ "us") then Some 1000
  else if str_eqb u [ascii_of_N 194; ascii_of_N 181; "s"] then Some 1000   (* U+00B5 *)
  else if str_eqb u [ascii_of_N 206; ascii_of_N 188; "s"] then Some 1000   (* U+03BC *)
  else if str_eqb u (S_ "ms") then Some 1000000
  else if str_eqb u (S_ "s") then Some 1000000000
  else if str_eqb u (S_ "m") then Some 60000000000
  else if str_eqb u (S_ "h") then Some 3600000000000
  else None.

Definition starts_digit (s : str) : bool := match s with a :: _ => is_digit a | [] => false end.

(* one group: number with optional fraction, then a unit; result: its value in ns and the rest.
   The fraction is computed exactly here (Go: float64(f) * (float64(unit)/scale), see NOTES.md
   for the domain on which they agree). *)
Definition dur_group (s : str) : option (Z * str) :=
  match s with
  | [] => None
  | a :: _ =>
    if negb (unit_stop a) then None else
    match leading_int 0 s with
    | None => None
    | Some (v, s1) =>
      let pre := is_digit a in
      let '(f, scale, s2, post) :=
          match s1 with
          | b :: r => if Ascii.eqb b "." then
                        let '(x, sc, rem) := leading_fraction 0 1 false r in (x, sc, rem, starts_digit r)
                      else (0, 1, s1, false)
          | [] => (0, 1, s1, false)
          end in
      if negb pre && negb post then None else
      let '(u, s3) := span_unit s2 in
      match u with
      | [] => None
      | _ =>
        match unit_of u with
        | None => None
        | Some unit =>
          if two63 / unit <? v then None else
          let v1 := v * unit in
          let v2 := if 0 <? f then v1 + (f * unit) / scale else v1 in
          if (0 <? f) && (two63 <? v2) then None else Some (v2, s3)
        end
      end
    end
  end.

(* the loop over the groups; d is a uint64 *)
Fixpoint dur_loop (fuel : nat) (d : Z) (s : str) : option Z :=
  match s with
  | [] => Some d
  | _ :: _ =>
    match fuel with
    | O => None
    | S fuel' =>
      match dur_group s with
      | None => None
      | Some (v2, s3) =>
        let d' := (d + v2) mod two64 in
        if two63 <? d' then None else dur_loop fuel' d' s3
      end
    end
  end.

(* result: nanoseconds as an int64 *)
Definition parse_duration (s : str) : option Z :=
  let '(neg, s1) := match s with
                    | a :: r => if Ascii.eqb a "-" then (true, r) else if Ascii.eqb a "+" then (false, r) else (false, s)
                    | [] => (false, [])
                    end in
  if str_eqb s1 (S_ "0") then Some 0 else
  match s1 with
  | [] => None
  | _ => match dur_loop (S (List.length s1)) 0 s1 with
         | None => None
         | Some d => if neg then Some (- d) else if two63 - 1 <? d then None else Some d
         end
  end.

(* int64(d.Seconds()): exact truncation (the float64 rounding of Seconds() is not modelled) *)
Definition dur_seconds (d : Z) : Z := Z.quot d 1000000000.

(* ------------------------------------------------------------------ parseRelativeTime *)
Fixpoint remove_char (c : ascii) (s : str) : str :=
  match s with [] => [] | a :: r => if Ascii.eqb a c then remove_char c r else a :: remove_char c r end.

Fixpoint last_and_init (s : str) : option (str * ascii) :=
  match s with
  | [] => None
  | [a] => Some ([], a)
  | a :: r => match last_and_init r with Some (i, l) => Some (a :: i, l) | None => None end
  end.

Definition chunk_seconds (chunk : str) : res Z :=
  match last_and_init chunk with
  | None => Err
  | Some (num, u) =>
    let mult := if Ascii.eqb u "d" then Some 86400 else if Ascii.eqb u "h" then Some 3600
                else if Ascii.eqb u "m" then Some 60 else if Ascii.eqb u "s" then Some 1 else None in
    match mult with
    | None => Err
    | Some k => match parse_int num with Ok n => Ok (wrap64 (k * n)) | _ => Err end
    end
  end.

Fixpoint chunks_seconds (acc : Z) (cs : list str) : res Z :=
  match cs with
  | [] => Ok acc
  | c :: r => match chunk_seconds c with Ok k => chunks_seconds (wrap64 (acc + k)) r | _ => Err end
  end.

Definition parse_relative (now : Z) (s : str) : res Z :=
  match s with
  | [] => Err
  | a :: rt =>
    if negb (Ascii.eqb a "-") then Err else
    if negb (contains ":" rt) then
      if contains "d" rt then
        match split_on "d" rt with
        | [] => Err
        | s0 :: rest =>
          match s0 with
          | [] => Err
          | _ =>
            match parse_int s0 with
            | Ok num =>
              let sec := wrap64 (86400 * num) in
              let ds := List.concat rest in
              match ds with
              | [] => Ok (wrap64 (now - sec))
              | _ => match parse_duration ds with
                     | None => Err
                     | Some d => Ok (wrap64 (now - wrap64 (sec + dur_seconds d)))
                     end
              end
            | _ => Err
            end
          end
        end
      else
        match parse_duration rt with
        | None => Err
        | Some d => Ok (wrap64 (now - dur_seconds d))
        end
    else
      match chunks_seconds 0 (split_on ":" rt) with
      | Ok sec => Ok (wrap64 (now - sec))
      | _ => Err
      end
  end.

(* ------------------------------------------------------------------ civil calendar on Z *)
Definition is_leap (y : Z) : bool := (y mod 4 =? 0) && (negb (y mod 100 =? 0) || (y mod 400 =? 0)).

Definition days_in (m y : Z) : Z :=
  if m =? 2 then (if is_leap y then 29 else 28)
  else if (m =? 4) || (m =? 6) || (m =? 9) || (m =? 11) then 30 else 31.

(* days since 1970-01-01 of the proleptic Gregorian date y-m-d *)
Definition days_from_civil (y m d : Z) : Z :=
  let y' := if m <=? 2 then y - 1 else y in
  let era := y' / 400 in
  let yoe := y' - era * 400 in
  let mp := (m + 9) mod 12 in
  let doy := (153 * mp + 2) / 5 + d - 1 in
  let doe := yoe * 365 + yoe / 4 - yoe / 100 + doy in
  era * 146097 + doe - 719468.

Definition civil_from_days (z : Z) : Z * Z * Z :=
  let z' := z + 719468 in
  let era := z' / 146097 in
  let doe := z' - era * 146097 in
  let yoe := (doe - doe / 1460 + doe / 36524 - doe / 146096) / 365 in
  let doy := doe - (365 * yoe + yoe / 4 - yoe / 100) in
  let mp := (5 * doy + 2) / 153 in
  let d := doy - (153 * mp + 2) / 5 + 1 in
  let m := if mp <? 10 then mp + 3 else mp - 9 in
  let y := yoe + era * 400 + (if m <=? 2 then 1 else 0) in
  (y, m, d).

(* ------------------------------------------------------------------ layouts *)
Inductive elem :=
| ELit (c : ascii)      (* a literal, non-space byte of the layout *)
| ESp                   (* a space in the layout: matches a run of spaces *)
| ELongYear             (* 2006 *)
| EYear                 (* 06 *)
| EMonth                (* Jan *)
| ENumMonth             (* 1 *)
| EZeroMonth            (* 01 *)
| EWeekDay              (* Mon *)
| EDay                  (* 2 *)
| EUnderDay             (* _2 *)
| EZeroDay              (* 02 *)
| EHour                 (* 15 *)
| EZeroMinute           (* 04 *)
| EZeroSecond           (* 05 *)
| ENumTZ                (* -0700 *)
| EISOColonTZ.          (* Z07:00 *)

Definition month_names : list str :=
  map S_ ["Jan"; "Feb"; "Mar"; "Apr"; "May"; "Jun"; "Jul"; "Aug"; "Sep"; "Oct"; "Nov"; "Dec"]%string.
Definition day_names : list str :=
  map S_ ["Sun"; "Mon"; "Tue"; "Wed"; "Thu"; "Fri"; "Sat"]%string.

(* parser state of time.parse *)
Record pst := { p_year : Z; p_month : Z; p_day : Z; p_hour : Z; p_min : Z; p_sec : Z; p_zone : option Z }.
Definition pst0 : pst := {| p_year := 0; p_month := -1; p_day := -1; p_hour := 0; p_min := 0; p_sec := 0; p_zone := None |}.
Definition set_year v s := {| p_year := v; p_month := p_month s; p_day := p_day s; p_hour := p_hour s; p_min := p_min s; p_sec := p_sec s; p_zone := p_zone s |}.
Definition set_month v s := {| p_year := p_year s; p_month := v; p_day := p_day s; p_hour := p_hour s; p_min := p_min s; p_sec := p_sec s; p_zone := p_zone s |}.
Definition set_day v s := {| p_year := p_year s; p_month := p_month s; p_day := v; p_hour := p_hour s; p_min := p_min s; p_sec := p_sec s; p_zone := p_zone s |}.
Definition set_hour v s := {| p_year := p_year s; p_month := p_month s; p_day := p_day s; p_hour := v; p_min := p_min s; p_sec := p_sec s; p_zone := p_zone s |}.
Definition set_min v s := {| p_year := p_year s; p_month := p_month s; p_day := p_day s; p_hour := p_hour s; p_min := v; p_sec := p_sec s; p_zone := p_zone s |}.
Definition set_sec v s := {| p_year := p_year s; p_month := p_month s; p_day := p_day s; p_hour := p_hour s; p_min := p_min s; p_sec := v; p_zone := p_zone s |}.
Definition set_zone v s := {| p_year := p_year s; p_month := p_month s; p_day := p_day s; p_hour := p_hour s; p_min := p_min s; p_sec := p_sec s; p_zone := Some v |}.

(* getnum *)
Definition getnum (fixed : bool) (s : str) : option (Z * str) :=
  match s with
  | a :: r =>
    if is_digit a then
      match r with
      | b :: r' => if is_digit b then Some (dval a * 10 + dval b, r')
                   else if fixed then None else Some (dval a, r)
      | [] => if fixed then None else Some (dval a, r)
      end
    else None
  | [] => None
  end.

(* atoi: optional sign, then digits to the end *)
Definition atoi (s : str) : option Z :=
  let '(neg, b) := match s with
                   | a :: r => if Ascii.eqb a "-" then (true, r) else if Ascii.eqb a "+" then (false, r) else (false, s)
                   | [] => (false, [])
                   end in
  match leading_int 0 b with
  | Some (q, []) => Some (if neg then - q else q)
  | _ => None
  end.

(* match: equal ignoring ASCII case *)
Definition lower (a : ascii) : Z := Z.lor (code a) 32.
Definition ch_match (c1 c2 : ascii) : bool :=
  Ascii.eqb c1 c2 || ((lower c1 =? lower c2) && (97 <=? lower c1) && (lower c1 <=? 122)).

Fixpoint prefix_match (name v : str) : option str :=
  match name with
  | [] => Some v
  | c :: name' => match v with
                  | a :: v' => if ch_match a c then prefix_match name' v' else None
                  | [] => None
                  end
  end.

Fixpoint lookup (i : Z) (tab : list str) (v : str) : option (Z * str) :=
  match tab with
  | [] => None
  | n :: tab' => match prefix_match n v with
                 | Some r => Some (i, r)
                 | None => lookup (i + 1) tab' v
                 end
  end.

Fixpoint cutspace (s : str) : str :=
  match s with a :: r => if Ascii.eqb a " " then cutspace r else s | [] => [] end.

Fixpoint drop_digits (s : str) : str :=
  match s with a :: r => if is_digit a then drop_digits r else s | [] => [] end.

Definition comma_or_period (a : ascii) : bool := Ascii.eqb a "." || Ascii.eqb a ",".

Definition tz_num (sg h1 h2 m1 m2 : ascii) : option Z :=
  match getnum true [h1; h2], getnum true [m1; m2] with
  | Some (hr, _), Some (mm, _) =>
    if (24 <? hr) || (60 <? mm) then None else
    let off := (hr * 60 + mm) * 60 in
    if Ascii.eqb sg "+" then Some off else if Ascii.eqb sg "-" then Some (- off) else None
  | _, _ => None
  end.

Definition parse_elem (e : elem) (st : pst) (v : str) : option (pst * str) :=
  match e with
  | ELit c => match v with a :: r => if Ascii.eqb a c then Some (st, r) else None | [] => None end
  | ESp => match v with a :: _ => if Ascii.eqb a " " then Some (st, cutspace v) else None | [] => Some (st, []) end
  | ELongYear =>
    match v with
    | a :: b :: c :: d :: r =>
      if is_digit a then match atoi [a; b; c; d] with Some y => Some (set_year y st, r) | None => None end
      else None
    | _ => None
    end
  | EYear =>
    match v with
    | a :: b :: r =>
      match atoi [a; b] with
      | Some y => Some (set_year (if 69 <=? y then y + 1900 else y + 2000) st, r)
      | None => None
      end
    | _ => None
    end
  | EMonth => match lookup 0 month_names v with Some (i, r) => Some (set_month (i + 1) st, r) | None => None end
  | ENumMonth | EZeroMonth =>
    match getnum (match e with EZeroMonth => true | _ => false end) v with
    | Some (m, r) => if (m <=? 0) || (12 <? m) then None else Some (set_month m st, r)
    | None => None
    end
  | EWeekDay => match lookup 0 day_names v with Some (_, r) => Some (st, r) | None => None end
  | EDay | EZeroDay =>
    match getnum (match e with EZeroDay => true | _ => false end) v with
    | Some (d, r) => Some (set_day d st, r)
    | None => None
    end
  | EUnderDay =>
    let v' := match v with a :: r => if Ascii.eqb a " " then r else v | [] => v end in
    match getnum false v' with
    | Some (d, r) => Some (set_day d st, r)
    | None => None
    end
  | EHour => match getnum false v with
             | Some (h, r) => if 24 <=? h then None else Some (set_hour h st, r)
             | None => None
             end
  | EZeroMinute => match getnum true v with
                   | Some (m, r) => if 60 <=? m then None else Some (set_min m st, r)
                   | None => None
                   end
  | EZeroSecond =>
    match getnum true v with
    | Some (s, r) =>
      if 60 <=? s then None else
      (* a fractional second in the input although the layout has none: consumed, dropped by Unix() *)
      let r' := match r with
                | c :: d :: t => if comma_or_period c && is_digit d then drop_digits t else r
                | _ => r
                end in
      Some (set_sec s st, r')
    | None => None
    end
  | ENumTZ =>
    match v with
    | sg :: h1 :: h2 :: m1 :: m2 :: r =>
      match tz_num sg h1 h2 m1 m2 with Some off => Some (set_zone off st, r) | None => None end
    | _ => None
    end
  | EISOColonTZ =>
    match v with
    | a :: r0 =>
      if Ascii.eqb a "Z" then Some (set_zone 0 st, r0) else
      match v with
      | sg :: h1 :: h2 :: col :: m1 :: m2 :: r =>
        if Ascii.eqb col ":" then
          match tz_num sg h1 h2 m1 m2 with Some off => Some (set_zone off st, r) | None => None end
        else None
      | _ => None
      end
    | [] => None
    end
  end.

Fixpoint parse_elems (es : list elem) (st : pst) (v : str) : option (pst * str) :=
  match es with
  | [] => Some (st, v)
  | e :: es' => match parse_elem e st v with
                | Some (st', v') => parse_elems es' st' v'
                | None => None
                end
  end.

(* end of time.parse: day validation, time.Date in the parsed fixed zone or else in the
   local zone `loc` (a fixed offset, seconds east of UTC), then Time.Unix() *)
Definition finish (loc : Z) (st : pst) : option Z :=
  let month := if p_month st <? 0 then 1 else p_month st in
  let day := if p_day st <? 0 then 1 else p_day st in
  if (day <? 1) || (days_in month (p_year st) <? day) then None else
  let off := match p_zone st with Some o => o | None => loc end in
  Some (days_from_civil (p_year st) month day * 86400 + p_hour st * 3600 + p_min st * 60 + p_sec st - off).

Definition parse_layout (loc : Z) (L : list elem) (v : str) : option Z :=
  match parse_elems L pst0 v with
  | Some (st, []) => finish loc st
  | _ => None
  end.

(* ---- the supported layouts, in the order of append(timeFormatsDefault, timeFormatsCustom...) *)
Definition hms : list elem := [EHour; ELit ":"; EZeroMinute; ELit ":"; EZeroSecond].
Definition hm : list elem := [EHour; ELit ":"; EZeroMinute].
Definition tz : list elem := [ESp; ENumTZ].
Definition date3 (a : elem) (sep : ascii) (b c : elem) : list elem := [a; ELit sep; b; ELit sep; c].

(* date ++ " " ++ {15:04:05 -0700, 15:04 -0700, 15:04:05, 15:04} *)
Definition fam_dash (d : list elem) : list (list elem) :=
  [d ++ [ESp] ++ hms ++ tz; d ++ [ESp] ++ hm ++ tz; d ++ [ESp] ++ hms; d ++ [ESp] ++ hm].
(* date ++ " " ++ {15:04, 15:04 -0700} *)
Definition fam_dot2 (d : list elem) : list (list elem) :=
  [d ++ [ESp] ++ hm; d ++ [ESp] ++ hm ++ tz].
(* date ++ " " ++ {15:04:05, 15:04:05 -0700, 15:04, 15:04 -0700} *)
Definition fam_dot4 (d : list elem) : list (list elem) :=
  [d ++ [ESp] ++ hms; d ++ [ESp] ++ hms ++ tz; d ++ [ESp] ++ hm; d ++ [ESp] ++ hm ++ tz].

Definition layouts_default : list (list elem) :=
  [ (* RFC3339   2006-01-02T15:04:05Z07:00 *)
    date3 ELongYear "-" EZeroMonth EZeroDay ++ [ELit "T"] ++ hms ++ [EISOColonTZ];
    (* ANSIC     Mon Jan _2 15:04:05 2006 *)
    [EWeekDay; ESp; EMonth; ESp; EUnderDay; ESp] ++ hms ++ [ESp; ELongYear];
    (* RubyDate  Mon Jan 02 15:04:05 -0700 2006 *)
    [EWeekDay; ESp; EMonth; ESp; EZeroDay; ESp] ++ hms ++ [ESp; ENumTZ; ESp; ELongYear];
    (* RFC822Z   02 Jan 06 15:04 -0700 *)
    [EZeroDay; ESp; EMonth; ESp; EYear; ESp] ++ hm ++ tz;
    (* RFC1123Z  Mon, 02 Jan 2006 15:04:05 -0700 *)
    [EWeekDay; ELit ","; ESp; EZeroDay; ESp; EMonth; ESp; ELongYear; ESp] ++ hms ++ tz ].

Definition layouts_custom : list (list elem) :=
  [ date3 ELongYear "-" EZeroMonth EZeroDay ++ [ESp] ++ hms ]   (* types.DefaultTimeOutputFormat *)
  ++ fam_dash (date3 ELongYear "-" EZeroMonth EZeroDay)          (* 2006-01-02 *)
  ++ fam_dash (date3 EYear "-" EZeroMonth EZeroDay)              (* 06-01-02 *)
  ++ fam_dash (date3 EZeroDay "-" EZeroMonth ELongYear)          (* 02-01-2006 *)
  ++ fam_dash (date3 EZeroDay "-" EZeroMonth EYear)              (* 02-01-06 *)
  ++ fam_dot2 (date3 EZeroDay "." EZeroMonth ELongYear)          (* 02.01.2006 *)
  ++ fam_dot2 (date3 EZeroDay "." EZeroMonth EYear)              (* 02.01.06 *)
  ++ fam_dot4 (date3 EDay "." ENumMonth EYear)                   (* 2.1.06 *)
  ++ fam_dot4 (date3 EDay "." ENumMonth ELongYear)               (* 2.1.2006 *)
  ++ fam_dot4 (date3 EZeroDay "." ENumMonth ELongYear)           (* 02.1.2006 *)
  ++ fam_dot4 (date3 EDay "." EZeroMonth ELongYear)              (* 2.01.2006 *)
  ++ fam_dot4 (date3 EZeroDay "." ENumMonth EYear)               (* 02.1.06 *)
  ++ fam_dot4 (date3 EDay "." EZeroMonth EYear).                 (* 2.01.06 *)

Definition layouts : list (list elem) := Eval cbv in layouts_default ++ layouts_custom.

Fixpoint first_match (loc : Z) (Ls : list (list elem)) (v : str) : option Z :=
  match Ls with
  | [] => None
  | L :: Ls' => match parse_layout loc L v with
                | Some t => Some t
                | None => first_match loc Ls' v
                end
  end.

(* ------------------------------------------------------------------ ParseTimeArgument / ParseTimeRange *)
(* `fixed = false` is the code as found (indexes timeString[0] unconditionally), `true` the
   repaired code (empty string is an error) *)
Definition parse_time_argument_gen (fixed : bool) (loc now : Z) (s : str) : res Z :=
  match s with
  | [] => if fixed then Err else Panic
  | a :: _ =>
    if Ascii.eqb a "-" then parse_relative now s else
    match parse_int s with
    | Ok i => Ok i
    | _ => match first_match loc layouts s with Some t => Ok t | None => Err end
    end
  end.

Definition parse_time_argument := parse_time_argument_gen true.
Definition parse_time_argument_orig := parse_time_argument_gen false.

(* now1 / now2: the clock readings while parsing `first` and `last` (an empty `last` is "now") *)
Definition first_of (loc now1 : Z) (a : str) : res Z :=
  match a with [] => Ok 0 | _ => parse_time_argument loc now1 a end.
Definition last_of (loc now2 : Z) (b : str) : res Z :=
  match b with [] => Ok now2 | _ => parse_time_argument loc now2 b end.
Definition parse_time_range (loc now1 now2 : Z) (a b : str) : res (Z * Z) :=
  res_bind (first_of loc now1 a) (fun first =>
  res_bind (last_of loc now2 b) (fun last =>
  if last <? first then Err else Ok (first, last))).

(* ParseTimeRangeCollectErrors: same steps, but every failure is recorded and parsing goes on;
   a failed end stays 0. Recorded: 1 = first is malformed, 2 = last is malformed,
   3 = the lower bound is greater than the upper bound *)
Definition parse_time_range_collect (loc now1 now2 : Z) (a b : str) : Z * Z * list Z :=
  let '(first, e1) := match first_of loc now1 a with Ok v => (v, []) | _ => (0, [1]) end in
  let '(last, e2) := match last_of loc now2 b with Ok v => (v, []) | _ => (0, [2]) end in
  (first, last, e1 ++ e2 ++ (if last <? first then [3] else [])).

(* ------------------------------------------------------------------ rendering relative specifications *)
(* decimal numeral without leading zeros *)
Fixpoint dec_fuel (f : nat) (n : Z) : str :=
  match f with
  | O => []
  | S f' => if n <? 10 then [dchar n] else dec_fuel f' (n / 10) ++ [dchar (n mod 10)]
  end.
Definition dec (n : Z) : str := dec_fuel (S (Z.to_nat (Z.log2 n))) n.

Inductive runit := UD | UH | UM | US.
Definition uchar (u : runit) : ascii := match u with UD => "d" | UH => "h" | UM => "m" | US => "s" end.
Definition usecs (u : runit) : Z := match u with UD => 86400 | UH => 3600 | UM => 60 | US => 1 end.
Definition group := (Z * runit)%type.
Definition render_group (g : group) : str := dec (fst g) ++ [uchar (snd g)].
Definition total (gs : list group) : Z := fold_right (fun g acc => usecs (snd g) * fst g + acc) 0 gs.

(* "-" XdYhZm... : groups written one after the other *)
Definition render_compact (gs : list group) : str := "-" :: List.concat (map render_group gs).
(* "-" Xd:Yh:Zm... : groups joined by ':' *)
Fixpoint join_colon (gs : list group) : str :=
  match gs with
  | [] => []
  | [g] => render_group g
  | g :: r => render_group g ++ ":" :: join_colon r
  end.
Definition render_colon (gs : list group) : str := "-" :: join_colon gs.

(* ------------------------------------------------------------------ Time.Format for the same elements *)
Record civil := { c_year : Z; c_month : Z; c_day : Z; c_hour : Z; c_min : Z; c_sec : Z; c_wday : Z; c_off : Z }.

(* the civil reading of instant t in the fixed zone `off` *)
Definition civil_of (t off : Z) : civil :=
  let l := t + off in
  let days := l / 86400 in
  let sod := l mod 86400 in
  let '(y, m, d) := civil_from_days days in
  {| c_year := y; c_month := m; c_day := d; c_hour := sod / 3600; c_min := (sod / 60) mod 60; c_sec := sod mod 60;
     c_wday := (days + 4) mod 7; c_off := off |}.

Definition fmt2 (n : Z) : str := [dchar (n / 10); dchar (n mod 10)].
Definition fmt12 (n : Z) : str := if n <? 10 then [dchar n] else fmt2 n.
Definition fmt4 (n : Z) : str := [dchar (n / 1000); dchar ((n / 100) mod 10); dchar ((n / 10) mod 10); dchar (n mod 10)].

Definition fmt_tz (colon z_for_utc : bool) (off : Z) : str :=
  if z_for_utc && (off =? 0) then ["Z"] else
  let zone := Z.quot off 60 in
  let '(sg, zone) := if zone <? 0 then ("-", - zone) else ("+", zone) in
  sg :: fmt2 (zone / 60) ++ (if colon then [":"] else []) ++ fmt2 (zone mod 60).

Definition fmt_elem (c : civil) (e : elem) : str :=
  match e with
  | ELit a => [a]
  | ESp => [" "]
  | ELongYear => fmt4 (c_year c)
  | EYear => fmt2 (c_year c mod 100)
  | EMonth => nth (Z.to_nat (c_month c - 1)) month_names []
  | ENumMonth => fmt12 (c_month c)
  | EZeroMonth => fmt2 (c_month c)
  | EWeekDay => nth (Z.to_nat (c_wday c)) day_names []
  | EDay => fmt12 (c_day c)
  | EUnderDay => if c_day c <? 10 then [" "; dchar (c_day c)] else fmt2 (c_day c)
  | EZeroDay => fmt2 (c_day c)
  | EHour => fmt2 (c_hour c)
  | EZeroMinute => fmt2 (c_min c)
  | EZeroSecond => fmt2 (c_sec c)
  | ENumTZ => fmt_tz false false (c_off c)
  | EISOColonTZ => fmt_tz true true (c_off c)
  end.

Definition fmt_elems (c : civil) (L : list elem) : str := List.concat (map (fmt_elem c) L).

Definition is_tz (e : elem) : bool := match e with ENumTZ | EISOColonTZ => true | _ => false end.
Definition has_tz (L : list elem) : bool := existsb is_tz L.
Definition has_sec (L : list elem) : bool := existsb (fun e => match e with EZeroSecond => true | _ => false end) L.

(* t rendered with layout L: in zone `off` when L carries an offset, else in the local zone *)
Definition format_layout (loc off : Z) (L : list elem) (t : Z) : str :=
  fmt_elems (civil_of t (if has_tz L then off else loc)) L.
