(* C12 proofs, part 1: uint64 sums, list lemmas, sortedness, facts about well-formed days. *)
From Coq Require Import List ZArith Bool Lia.
From GoProbe.Base Require Import CorrLib.
From GoProbe.C12 Require Import Model.
Import ListNotations.
Open Scope Z_scope.

(* ---------------------------------------------------------------- exact sums and uint64 folds *)
Definition SF (f : fld) (l : list block) : Z := fold_right Z.add 0 (map (fun b => get f (b_st b)) l).

Lemma sum64_SF : forall f l, sum64 f l = SF f l mod M64.
Proof. reflexivity. Qed.

Lemma SF_app : forall f l1 l2, SF f (l1 ++ l2) = SF f l1 + SF f l2.
Proof. intros f l1 l2. unfold SF. induction l1 as [|a l1 IH]; cbn [map app fold_right]; [lia|]. rewrite IH. lia. Qed.

Lemma SF_cons : forall f b l, SF f (b :: l) = get f (b_st b) + SF f l.
Proof. reflexivity. Qed.

Lemma get_sadd : forall f a b, get f (sadd a b) = add64 (get f a) (get f b).
Proof. destruct f; reflexivity. Qed.
Lemma get_ssub : forall f a b, get f (ssub a b) = sub64 (get f a) (get f b).
Proof. destruct f; reflexivity. Qed.
Lemma get_szero : forall f, get f szero = 0 mod M64.
Proof. destruct f; reflexivity. Qed.

Lemma fold_sadd : forall f l a x, get f a = x mod M64 ->
  get f (fold_left (fun acc b => sadd acc (b_st b)) l a) = (x + SF f l) mod M64.
Proof.
  intros f l. induction l as [|b l IH]; intros a x Ha; cbn [fold_left].
  - unfold SF; cbn. rewrite Z.add_0_r. exact Ha.
  - rewrite (IH _ (x + get f (b_st b))).
    + rewrite SF_cons. f_equal. lia.
    + rewrite get_sadd, Ha. unfold add64. apply Zplus_mod_idemp_l.
Qed.

Lemma fold_ssub : forall f l a x, get f a = x mod M64 ->
  get f (sub_blocks a l) = (x - SF f l) mod M64.
Proof.
  unfold sub_blocks. intros f l. induction l as [|b l IH]; intros a x Ha; cbn [fold_left].
  - unfold SF; cbn. rewrite Z.sub_0_r. exact Ha.
  - rewrite (IH _ (x - get f (b_st b))).
    + rewrite SF_cons. f_equal. lia.
    + rewrite get_ssub, Ha. unfold sub64. apply Zminus_mod_idemp_l.
Qed.

Lemma get_day_total : forall f d, get f (day_total d) = SF f (d_blocks d) mod M64.
Proof. intros. unfold day_total. rewrite (fold_sadd f _ szero 0); [reflexivity | apply get_szero]. Qed.

Lemma get_sum_stats : forall f l, get f (sum_stats l) = sum64 f l.
Proof. intros. unfold sum_stats. rewrite (fold_sadd f _ szero 0); [reflexivity | apply get_szero]. Qed.

(* adding the totals of a list of days *)
Lemma fold_days : forall f ds a x, get f a = x mod M64 ->
  get f (fold_left (fun acc d => sadd acc (day_total d)) ds a) = (x + SF f (all_blocks ds)) mod M64.
Proof.
  intros f ds. induction ds as [|d ds IH]; intros a x Ha; cbn [fold_left].
  - unfold SF; cbn. rewrite Z.add_0_r. exact Ha.
  - rewrite (IH _ (x + SF f (d_blocks d))).
    + unfold all_blocks; cbn [flat_map]. rewrite SF_app. f_equal. lia.
    + rewrite get_sadd, Ha, get_day_total. unfold add64. rewrite <- Zplus_mod. reflexivity.
Qed.

(* ---------------------------------------------------------------- list lemmas *)
Lemma filter_none : forall {A} (p : A -> bool) l, (forall x, In x l -> p x = false) -> filter p l = [].
Proof.
  intros A p l. induction l as [|a l IH]; intros H; cbn; [reflexivity|].
  rewrite (H a (or_introl eq_refl)). apply IH. intros; apply H; right; assumption.
Qed.
Lemma filter_all : forall {A} (p : A -> bool) l, (forall x, In x l -> p x = true) -> filter p l = l.
Proof.
  intros A p l. induction l as [|a l IH]; intros H; cbn; [reflexivity|].
  rewrite (H a (or_introl eq_refl)). f_equal. apply IH. intros; apply H; right; assumption.
Qed.
Lemma filter_filter : forall {A} (p q : A -> bool) l, filter q (filter p l) = filter (fun x => p x && q x) l.
Proof.
  intros A p q l. induction l as [|a l IH]; cbn; [reflexivity|].
  destruct (p a); cbn; [destruct (q a)|]; rewrite IH; reflexivity.
Qed.
Lemma filter_flat_map : forall {A B} (p : B -> bool) (g : A -> list B) l,
  filter p (flat_map g l) = flat_map (fun x => filter p (g x)) l.
Proof.
  intros A B p g l. induction l as [|a l IH]; cbn; [reflexivity|].
  rewrite filter_app, IH. reflexivity.
Qed.
(* restricting the outer list to the elements that can contribute *)
Lemma filter_flat_map_restrict : forall {A B} (p : B -> bool) (q : A -> bool) (g : A -> list B) l,
  (forall x, In x l -> q x = false -> filter p (g x) = []) ->
  filter p (flat_map g l) = filter p (flat_map g (filter q l)).
Proof.
  intros A B p q g l. induction l as [|a l IH]; intros H; cbn; [reflexivity|].
  rewrite filter_app, IH by (intros; apply H; [right|]; assumption).
  destruct (q a) eqn:Hq; cbn.
  - rewrite filter_app. reflexivity.
  - rewrite (H a (or_introl eq_refl) Hq). reflexivity.
Qed.

(* ---------------------------------------------------------------- strict sortedness *)
Fixpoint SS {A} (k : A -> Z) (l : list A) : Prop :=
  match l with [] => True | a :: r => (forall b, In b r -> k a < k b) /\ SS k r end.

Lemma sorted_by_SS : forall {A} (k : A -> Z) l, sorted_by k l = true -> SS k l.
Proof.
  intros A k l. induction l as [|a r IH]; intros H; cbn [SS]; [exact I|].
  destruct r as [|b r'].
  - split; [intros ? []| exact I].
  - cbn [sorted_by] in H. apply andb_prop in H. destruct H as [Hab Hr].
    apply Z.ltb_lt in Hab. specialize (IH Hr). split; [|exact IH].
    intros c [<-|Hc]; [exact Hab|]. destruct IH as [Hb _]. specialize (Hb c Hc). lia.
Qed.

Lemma SS_filter : forall {A} (k : A -> Z) p l, SS k l -> SS k (filter p l).
Proof.
  intros A k p l. induction l as [|a r IH]; intros H; cbn; [exact I|].
  destruct H as [Ha Hr]. destruct (p a); cbn [SS]; [split|]; auto.
  intros b Hb. apply filter_In in Hb. apply Ha, Hb.
Qed.

Lemma SS_app : forall {A} (k : A -> Z) l1 l2, SS k (l1 ++ l2) ->
  SS k l1 /\ SS k l2 /\ forall a b, In a l1 -> In b l2 -> k a < k b.
Proof.
  intros A k l1 l2. induction l1 as [|x l1 IH]; cbn [app SS]; intros H.
  - repeat split; [exact H | intros ? ? []].
  - destruct H as [Hx Hr]. destruct (IH Hr) as (H1 & H2 & H12). repeat split; auto.
    + intros b Hb. apply Hx, in_or_app; left; exact Hb.
    + intros a b [<-|Ha] Hb; [apply Hx, in_or_app; right; exact Hb | apply H12; assumption].
Qed.

(* in a strictly sorted non-empty list the head is the minimum and the last element the maximum *)
Lemma SS_head_min : forall {A} (k : A -> Z) a r x, SS k (a :: r) -> In x (a :: r) -> k a <= k x.
Proof. intros A k a r x [Ha _] [<-|Hx]; [lia | specialize (Ha x Hx); lia]. Qed.

Lemma last_cons : forall {A} (r : list A) a b, last (b :: r) a = last r b.
Proof.
  intros A r. induction r as [|c r IH]; intros a b; [reflexivity|].
  change (last (b :: c :: r) a) with (last (c :: r) a). rewrite IH.
  change (last (c :: r) b) with (match r with [] => c | _ => last r b end).
  destruct r; [reflexivity|]. rewrite <- (IH b c). reflexivity.
Qed.

Lemma SS_last_max : forall {A} (k : A -> Z) r a x, SS k (a :: r) -> In x (a :: r) -> k x <= k (last r a).
Proof.
  intros A k r. induction r as [|b r IH]; intros a x H Hx.
  - destruct Hx as [<-|[]]. cbn. lia.
  - destruct H as [Ha Hr]. cbn [last].
    assert (Hl : last (b :: r) a = last r b) by apply last_cons.
    destruct Hx as [<-|Hx].
    + specialize (IH b b Hr (or_introl eq_refl)). specialize (Ha b (or_introl eq_refl)).
      change (k a <= k (last (b :: r) a)). rewrite Hl. lia.
    + change (k x <= k (last (b :: r) a)). rewrite Hl. apply IH; assumption.
Qed.

(* ---------------------------------------------------------------- BlocksBefore / BlocksAfter on sorted blocks *)
Lemma before_filter : forall ts l, SS b_ts l -> blocks_before ts l = filter (fun b => b_ts b <? ts) l.
Proof.
  intros ts l. induction l as [|b r IH]; intros H; cbn [blocks_before filter]; [reflexivity|].
  destruct H as [Hb Hr]. destruct (b_ts b >=? ts) eqn:E.
  - apply Z.geb_le in E. replace (b_ts b <? ts) with false by (symmetry; apply Z.ltb_ge; lia).
    symmetry. apply filter_none. intros x Hx. specialize (Hb x Hx). apply Z.ltb_ge. lia.
  - rewrite Z.geb_leb in E. apply Z.leb_gt in E. replace (b_ts b <? ts) with true by (symmetry; apply Z.ltb_lt; lia).
    f_equal. apply IH, Hr.
Qed.

Lemma after_filter : forall ts l, SS b_ts l -> blocks_after ts l = filter (fun b => b_ts b >? ts) l.
Proof.
  intros ts l. induction l as [|b r IH]; intros H; cbn [blocks_after filter]; [reflexivity|].
  destruct H as [Hb Hr]. destruct (b_ts b >? ts) eqn:E.
  - rewrite Z.gtb_ltb in E. apply Z.ltb_lt in E. f_equal. symmetry. apply filter_all.
    intros x Hx. specialize (Hb x Hx). rewrite Z.gtb_ltb. apply Z.ltb_lt. lia.
  - apply IH, Hr.
Qed.

(* ---------------------------------------------------------------- well-formed days *)
Definition DayOK (d : day) : Prop :=
  d_blocks d <> [] /\ SS b_ts (d_blocks d)
  /\ (forall b, In b (d_blocks d) -> d_ts d <= b_ts b < d_ts d + EpochDay)
  /\ exists q, d_ts d = q * EpochDay.

Lemma dir_timestamp_range : forall ts, 0 <= ts ->
  dir_timestamp ts <= ts < dir_timestamp ts + EpochDay /\ exists q, dir_timestamp ts = q * EpochDay.
Proof.
  intros ts H. unfold dir_timestamp, EpochDay. rewrite Z.quot_div_nonneg by lia.
  split; [|eexists; reflexivity].
  pose proof (Z.div_mod ts 86400 ltac:(lia)). pose proof (Z.mod_pos_bound ts 86400 ltac:(lia)). lia.
Qed.

Lemma day_wf_ok : forall d, day_wf d = true -> DayOK d.
Proof.
  intros d H. unfold day_wf in H. apply andb_prop in H. destruct H as [H H3].
  apply andb_prop in H. destruct H as [H1 H2].
  rewrite forallb_forall in H3.
  assert (Hne : d_blocks d <> []) by (destruct (d_blocks d); [discriminate | congruence]).
  assert (Hr : forall b, In b (d_blocks d) -> d_ts d <= b_ts b < d_ts d + EpochDay /\ exists q, d_ts d = q * EpochDay).
  { intros b Hb. specialize (H3 b Hb). apply andb_prop in H3. destruct H3 as [H0 Hd].
    apply Z.leb_le in H0. apply Z.eqb_eq in Hd. rewrite <- Hd. apply dir_timestamp_range, H0. }
  repeat split.
  - exact Hne.
  - apply sorted_by_SS, H2.
  - apply Hr, H.
  - apply Hr, H.
  - destruct (d_blocks d) as [|b r] eqn:E; [congruence|]. apply (Hr b). left; reflexivity.
Qed.

Definition DbOK (db : idb) : Prop := SS d_ts db /\ forall d, In d db -> DayOK d.

Lemma db_wf_ok : forall db, db_wf db = true -> DbOK db.
Proof.
  intros db H. unfold db_wf in H. apply andb_prop in H. destruct H as [H1 H2].
  rewrite forallb_forall in H2. split; [apply sorted_by_SS, H1 | intros d Hd; apply day_wf_ok, H2, Hd].
Qed.

(* two distinct day directories are at least a day apart *)
Lemma days_apart : forall d1 d2, DayOK d1 -> DayOK d2 -> d_ts d1 < d_ts d2 -> d_ts d1 + EpochDay <= d_ts d2.
Proof.
  intros d1 d2 (_ & _ & _ & q1 & H1) (_ & _ & _ & q2 & H2) H. unfold EpochDay in *. lia.
Qed.
