(* C12 correspondence: case type, corr (model = observed) and holds (observed meets the spec). *)
From Coq Require Import List ZArith Bool.
From GoProbe.Base Require Import CorrLib.
From GoProbe.C12 Require Import Model.
Import ListNotations.
Open Scope Z_scope.

(* short constructors for the generated terms *)
Definition B (ts v4 v6 dr br bs pr ps : Z) : block := mkB ts (mkS v4 v6 dr br bs pr ps).
Definition D (ts : Z) (l : list block) : day := mkD ts l.

(* one listing + one query over [q_tf, q_tl] on interface number q_if of the case's database *)
Record qobs := Q {
  q_if : nat; q_tf : Z; q_tl : Z;
  q_err : Z;                    (* ReadMetadata: 0 ok, 1 error, 2 panic *)
  q_st : stats;                 (* InterfaceMetadata.Stats *)
  q_first : Z; q_last : Z;      (* InterfaceMetadata.First / Last (unix) *)
  q_hasq : bool;                (* a query was run (first <= last) and succeeded *)
  q_br : Z; q_bs : Z; q_pr : Z; q_ps : Z;   (* Summary.Totals of the query *)
  q_ts : list Z                 (* distinct block timestamps of the query's rows, ascending *)
}.

Record case := mkCase {
  c_ifs : list idb;             (* what was written with DBWriter.Write, per interface *)
  c_qs : list qobs
}.

Definition stats_eqb (a b : stats) : bool := forallb (fun f => get f a =? get f b) all_flds.
Fixpoint zlist_eqb (a b : list Z) : bool :=
  match a, b with
  | [], [] => true
  | x :: a', y :: b' => (x =? y) && zlist_eqb a' b'
  | _, _ => false
  end.
Definition has_flows (b : block) : bool := 0 <? s_v4 (b_st b) + s_v6 (b_st b).
Definition qtot (q : qobs) : stats := mkS 0 0 0 (q_br q) (q_bs q) (q_pr q) (q_ps q).

(* does the model still describe the code? *)
Definition corr_q (c : case) (q : qobs) : bool :=
  let db := nth (q_if q) (c_ifs c) [] in
  match read_metadata (q_tf q) (q_tl q) db with
  | Ok (s, tF, tL) => (q_err q =? 0) && stats_eqb s (q_st q)
                      && (tF - WriteInterval =? q_first q) && (tL =? q_last q)
  | Err => q_err q =? 1
  | Panic => q_err q =? 2
  end
  && (if q_hasq q then
        match query_blocks (q_tf q) (q_tl q) db with
        | Ok l => forallb (fun f => get f (sum_stats l) =? get f (qtot q)) counter_flds
                  && zlist_eqb (map b_ts (filter has_flows l)) (q_ts q)
        | _ => false
        end
      else true).
Definition corr (c : case) : bool := forallb (corr_q c) (c_qs c).

(* does the observed behaviour satisfy the property?  Every figure of the summary is the sum over the
   written blocks with first <= ts <= last, and the packet / byte figures are those of the query *)
Definition holds_q (c : case) (q : qobs) : bool :=
  let db := nth (q_if q) (c_ifs c) [] in
  if q_tf q <=? q_tl q then
    (q_err q =? 0)
    && forallb (fun f => get f (q_st q) =? sum64 f (filter (in_range (q_tf q) (q_tl q)) (all_blocks db))) all_flds
    && q_hasq q
    && forallb (fun f => get f (q_st q) =? get f (qtot q)) counter_flds
  else true.
Definition holds (c : case) : bool := forallb (holds_q c) (c_qs c).
