(* C12 property theorems. Nothing but statements closed by `exact`, Print Assumptions, examples. *)
From Coq Require Import List ZArith Bool.
From GoProbe.Base Require Import CorrLib.
From GoProbe.C12 Require Import Model Proofs1 Proofs2.
Import ListNotations.
Open Scope Z_scope.

(* For EVERY database an interface directory can hold (day directories in ascending order, each with
   at least one block, blocks in ascending time order, every block stored in the directory of its own
   day; day totals as maintained by the writer) and EVERY range first <= last: ReadMetadata succeeds
   and each of its seven figures (IPv4 flows, IPv6 flows, drops, bytes and packets per direction)
   is the uint64 sum of that figure over the stored blocks with first <= timestamp <= last. *)
Theorem c12_summary_is_sum : forall db tf tl, db_wf db = true -> tf <= tl ->
  exists s tF tL, read_metadata tf tl db = Ok (s, tF, tL) /\
    forall f, get f s = sum64 f (filter (in_range tf tl) (all_blocks db)).
Proof. exact summary_is_sum. Qed.
Print Assumptions c12_summary_is_sum.

(* ... and first <= timestamp <= last is exactly the inclusion rule of a query: for every database and
   every range (also first > last) the blocks a query evaluates are the stored blocks in range *)
Theorem c12_query_selects_range : forall db tf tl, db_wf db = true ->
  query_blocks tf tl db = Ok (filter (in_range tf tl) (all_blocks db)).
Proof. exact query_selects_range. Qed.
Print Assumptions c12_query_selects_range.

(* The packet and byte totals of the summary are the totals of a query over the same interface and range *)
Theorem c12_agrees_with_query : forall db tf tl, db_wf db = true -> tf <= tl ->
  exists s tF tL qs, read_metadata tf tl db = Ok (s, tF, tL) /\ query_totals tf tl db = Ok qs /\
    forall f, In f counter_flds -> get f s = get f qs.
Proof. exact agrees_with_query. Qed.
Print Assumptions c12_agrees_with_query.

(* ---------------------------------------------------------------- non-vacuity *)
(* two days around a year boundary; four blocks carrying 7*i drops on the first day (DESIGN §8-12), a
   block at midnight and one more on the second day *)
Definition day1 : Z := 1703980800.   (* 2023-12-31 00:00:00 UTC *)
Definition day2 : Z := 1704067200.   (* 2024-01-01 00:00:00 UTC *)
Definition ex_db : idb :=
  [ mkD day1 [ mkB (day1 + 300)  (mkS 1 0 7  100 10 5 1);
               mkB (day1 + 600)  (mkS 2 1 14 200 20 6 2);
               mkB (day1 + 900)  (mkS 0 2 21 300 30 7 3);
               mkB (day1 + 86350) (mkS 1 1 28 400 40 8 4) ];
    mkD day2 [ mkB day2          (mkS 1 0 1  1000 1 1 1);
               mkB (day2 + 300)  (mkS 3 3 3  2000 2 2 2) ] ].

(* the hypotheses are met, and a range ending between two blocks (+700 s) counts neither the +900 s
   block nor its drops: 2 blocks, 21 drops; the query selects the same two blocks *)
Example c12_summary_example :
  db_wf ex_db = true /\ day1 + 300 <= day1 + 700
  /\ read_metadata (day1 + 300) (day1 + 700) ex_db = Ok (mkS 3 1 21 300 30 11 3, day1 + 300, day1 + 600)
  /\ map b_ts (filter (in_range (day1 + 300) (day1 + 700)) (all_blocks ex_db)) = [day1 + 300; day1 + 600].
Proof. vm_compute. repeat split; try reflexivity. discriminate. Qed.

Example c12_query_example :
  query_blocks (day1 + 301) (day2 - 100) ex_db
  = Ok [ mkB (day1 + 600) (mkS 2 1 14 200 20 6 2); mkB (day1 + 900) (mkS 0 2 21 300 30 7 3) ]
  /\ query_blocks (day2 + 10) (day1 + 10) ex_db = Ok [].
Proof. vm_compute. split; reflexivity. Qed.

(* a range ending 100 s before midnight: the walk also visits day2 (it starts before last + 300 s), the
   block at day1 + 86350 lies after `last` and is excluded by both the summary and the query *)
Example c12_agrees_example :
  read_metadata (day1 + 301) (day2 - 100) ex_db = Ok (mkS 2 3 35 500 50 13 5, day1 + 600, day1 + 900)
  /\ query_totals (day1 + 301) (day2 - 100) ex_db = Ok (mkS 2 3 35 500 50 13 5).
Proof. vm_compute. split; reflexivity. Qed.
