(* C12 proofs, part 2: ReadMetadata = sum over the blocks in range; the query selects the blocks in range. *)
From Coq Require Import List ZArith Bool Lia.
From GoProbe.Base Require Import CorrLib.
From GoProbe.C12 Require Import Model Proofs1.
Import ListNotations.
Open Scope Z_scope.

Definition kept (tl : Z) (d : day) : bool := negb (tl <? d_ts d).
Definition ltp (tf : Z) (b : block) : bool := b_ts b <? tf.
Definition gtp (tl : Z) (b : block) : bool := b_ts b >? tl.

Lemma all_blocks_app : forall l1 l2, all_blocks (l1 ++ l2) = all_blocks l1 ++ all_blocks l2.
Proof. intros. unfold all_blocks. apply flat_map_app. Qed.
Lemma all_blocks_cons : forall d l, all_blocks (d :: l) = d_blocks d ++ all_blocks l.
Proof. reflexivity. Qed.

(* ---------------------------------------------------------------- the walk loop *)
Lemma loop_tail : forall tf tl ds n st,
  walk_loop tf tl (S n) ds st =
  Ok (mkR (fold_left (fun a d => sadd a (day_total d)) (filter (kept tl) ds) (r_agg st))
          (r_first st)
          (fold_left (fun _ d => Some d) (filter (kept tl) ds) (r_cur st))).
Proof.
  intros tf tl ds. induction ds as [|d ds IH]; intros n st.
  - destruct st; reflexivity.
  - cbn [walk_loop filter]. unfold visit.
    assert (Hk : kept tl d = negb (tl <? d_ts d)) by reflexivity. rewrite Hk.
    destruct (tl <? d_ts d); cbn [negb].
    + apply IH.
    + rewrite IH. reflexivity.
Qed.

Lemma visit0_spec : forall tf tl d st, DayOK d -> (tl <? d_ts d) = false -> r_agg st = szero ->
  exists agg tfc, visit tf tl O d st = Ok (mkR agg tfc (Some d)) /\
    forall f, get f agg = (SF f (d_blocks d) - SF f (filter (ltp tf) (d_blocks d))) mod M64.
Proof.
  intros tf tl d st (Hne & Hss & _) Hk Hz. unfold visit. rewrite Hk, Hz.
  assert (Hadd : forall f, get f (sadd szero (day_total d)) = SF f (d_blocks d) mod M64).
  { intro f. rewrite get_sadd, get_szero, get_day_total. unfold add64. rewrite <- Zplus_mod. reflexivity. }
  destruct (d_blocks d) as [|b0 bs] eqn:E; [congruence|]. cbn [first_ts].
  destruct (tf >=? b_ts b0) eqn:E1.
  - eexists; eexists; split; [reflexivity|]. intro f.
    rewrite (fold_ssub f _ _ (SF f (b0 :: bs))) by apply Hadd.
    rewrite before_filter by exact Hss. reflexivity.
  - eexists; eexists; split; [reflexivity|]. intro f. rewrite Hadd.
    rewrite (filter_none (ltp tf)); [unfold SF at 2; cbn; rewrite Z.sub_0_r; reflexivity|].
    intros x Hx. pose proof (SS_head_min b_ts b0 bs x Hss Hx).
    rewrite Z.geb_leb in E1. apply Z.leb_gt in E1. unfold ltp. apply Z.ltb_ge. lia.
Qed.

Lemma finish_spec : forall tl d agg tF, DayOK d ->
  exists s tL, finish tl (mkR agg tF (Some d)) = Ok (s, tF, tL) /\
    forall f x, get f agg = x mod M64 -> get f s = (x - SF f (filter (gtp tl) (d_blocks d))) mod M64.
Proof.
  intros tl d agg tF (Hne & Hss & _). unfold finish. cbn [r_cur r_agg r_first].
  destruct (d_blocks d) as [|b0 bs] eqn:E; [congruence|]. cbn [last_ts].
  destruct (tl <=? b_ts (last bs b0)) eqn:E1.
  - eexists; eexists; split; [reflexivity|]. intros f x Hx.
    rewrite (fold_ssub f _ _ x Hx). rewrite after_filter by exact Hss. reflexivity.
  - eexists; eexists; split; [reflexivity|]. intros f x Hx. rewrite Hx.
    rewrite (filter_none (gtp tl)); [unfold SF; cbn; rewrite Z.sub_0_r; reflexivity|].
    intros y Hy. pose proof (SS_last_max b_ts bs b0 y Hss Hy). apply Z.leb_gt in E1.
    unfold gtp. rewrite Z.gtb_ltb. apply Z.ltb_ge. lia.
Qed.

(* ---------------------------------------------------------------- which blocks are where *)
(* three-way split of a sum by time *)
Lemma SF_split : forall f tf tl l, tf <= tl ->
  SF f l = SF f (filter (ltp tf) l) + SF f (filter (in_range tf tl) l) + SF f (filter (gtp tl) l).
Proof.
  intros f tf tl l H. induction l as [|b l IH]; [reflexivity|].
  cbn [filter]. rewrite SF_cons, IH. unfold ltp, in_range, gtp. rewrite Z.gtb_ltb.
  destruct (b_ts b <? tf) eqn:E1; destruct (tf <=? b_ts b) eqn:E2; destruct (b_ts b <=? tl) eqn:E3;
    destruct (tl <? b_ts b) eqn:E4; cbn [andb]; rewrite ?SF_cons; try lia;
    exfalso; rewrite ?Z.ltb_lt, ?Z.ltb_ge, ?Z.leb_le, ?Z.leb_gt in *; lia.
Qed.

(* blocks in range only live in directories that are visited and start at or before tlast *)
Lemma in_range_days : forall tf tl db, (forall d, In d db -> DayOK d) ->
  filter (in_range tf tl) (all_blocks db) = filter (in_range tf tl) (all_blocks (filter (kept tl) (walk tf tl db))).
Proof.
  intros tf tl db Hok. unfold walk. rewrite filter_filter. unfold all_blocks.
  apply filter_flat_map_restrict. intros d Hd Hq. apply filter_none. intros b Hb.
  destruct (Hok d Hd) as (_ & _ & Hr & _). specialize (Hr b Hb).
  unfold in_range. apply andb_false_iff. unfold visited, kept, EpochDay, WriteInterval in *.
  destruct (tf <=? b_ts b) eqn:E1; [right|left; reflexivity].
  apply Z.leb_le in E1. apply Z.leb_gt.
  apply andb_false_iff in Hq. destruct Hq as [Hq|Hq].
  - apply andb_false_iff in Hq. destruct Hq as [Hq|Hq]; apply Z.ltb_ge in Hq; lia.
  - apply negb_false_iff in Hq. apply Z.ltb_lt in Hq. lia.
Qed.

(* the pure counting core *)
Lemma core : forall f tf tl d0 Kr K' dl,
  d0 :: Kr = K' ++ [dl] -> SS d_ts (d0 :: Kr) -> (forall d, In d (d0 :: Kr) -> DayOK d) ->
  tf <= tl -> tf < d_ts d0 + EpochDay -> d_ts dl <= tl ->
  SF f (all_blocks (d0 :: Kr)) - SF f (filter (ltp tf) (d_blocks d0)) - SF f (filter (gtp tl) (d_blocks dl))
  = SF f (filter (in_range tf tl) (all_blocks (d0 :: Kr))).
Proof.
  intros f tf tl d0 Kr K' dl HK Hss Hok Hle Hf Hl.
  rewrite (SF_split f tf tl (all_blocks (d0 :: Kr)) Hle).
  assert (H1 : filter (ltp tf) (all_blocks (d0 :: Kr)) = filter (ltp tf) (d_blocks d0)).
  { rewrite all_blocks_cons, filter_app.
    rewrite (filter_none (ltp tf) (all_blocks Kr)); [apply app_nil_r|].
    intros b Hb. apply in_flat_map in Hb. destruct Hb as (d & Hd & Hb).
    destruct Hss as [Hlt _]. specialize (Hlt d Hd).
    pose proof (days_apart d0 d (Hok d0 (or_introl eq_refl)) (Hok d (or_intror Hd)) Hlt).
    destruct (Hok d (or_intror Hd)) as (_ & _ & Hr & _). specialize (Hr b Hb).
    unfold ltp. apply Z.ltb_ge. lia. }
  assert (H2 : filter (gtp tl) (all_blocks (d0 :: Kr)) = filter (gtp tl) (d_blocks dl)).
  { rewrite HK in Hss, Hok |- *. rewrite all_blocks_app, filter_app.
    change (all_blocks [dl]) with (d_blocks dl ++ []). rewrite app_nil_r.
    rewrite (filter_none (gtp tl) (all_blocks K')); [reflexivity|].
    intros b Hb. apply in_flat_map in Hb. destruct Hb as (d & Hd & Hb).
    destruct (SS_app d_ts K' [dl] Hss) as (_ & _ & H12). specialize (H12 d dl Hd (or_introl eq_refl)).
    assert (Hdk : In d (K' ++ [dl])) by (apply in_or_app; left; exact Hd).
    assert (Hlk : In dl (K' ++ [dl])) by (apply in_or_app; right; left; reflexivity).
    pose proof (days_apart d dl (Hok d Hdk) (Hok dl Hlk) H12).
    destruct (Hok d Hdk) as (_ & _ & Hr & _). specialize (Hr b Hb).
    unfold gtp. rewrite Z.gtb_ltb. apply Z.ltb_ge. lia. }
  rewrite H1, H2. lia.
Qed.

Lemma walk_props : forall tf tl db, DbOK db ->
  SS d_ts (walk tf tl db) /\ (forall d, In d (walk tf tl db) -> DayOK d /\ visited tf tl d = true).
Proof.
  intros tf tl db [Hss Hok]. split; [apply SS_filter, Hss|].
  intros d Hd. apply filter_In in Hd. destruct Hd as [Hd Hv]. split; [apply Hok, Hd | exact Hv].
Qed.

Lemma zero_mod : 0 mod M64 = 0.
Proof. reflexivity. Qed.

(* ---------------------------------------------------------------- ReadMetadata *)
Theorem summary_is_sum : forall db tf tl, db_wf db = true -> tf <= tl ->
  exists s tF tL, read_metadata tf tl db = Ok (s, tF, tL) /\
    forall f, get f s = sum64 f (filter (in_range tf tl) (all_blocks db)).
Proof.
  intros db tf tl Hwf Hle. apply db_wf_ok in Hwf.
  destruct (walk_props tf tl db Hwf) as [Hss Hw]. destruct Hwf as [_ Hok].
  unfold read_metadata.
  assert (Hspec : forall f, sum64 f (filter (in_range tf tl) (all_blocks db))
                 = SF f (filter (in_range tf tl) (all_blocks (filter (kept tl) (walk tf tl db)))) mod M64).
  { intro f. rewrite sum64_SF, (in_range_days tf tl db Hok). reflexivity. }
  destruct (walk tf tl db) as [|d0 r] eqn:EW.
  - (* nothing visited *)
    cbn. exists szero, tf, tl. split; [reflexivity|]. intro f. rewrite Hspec. destruct f; reflexivity.
  - destruct (tl <? d_ts d0) eqn:Ek.
    + (* every visited directory starts after tlast *)
      assert (Hnone : filter (kept tl) (d0 :: r) = []).
      { apply filter_none. intros d [<-|Hd]; unfold kept; [rewrite Ek; reflexivity|].
        destruct Hss as [Hlt _]. specialize (Hlt d Hd). apply Z.ltb_lt in Ek.
        apply negb_false_iff, Z.ltb_lt. lia. }
      cbn [walk_loop]. unfold visit at 1. rewrite Ek. rewrite loop_tail.
      cbn [filter] in Hnone. unfold kept at 1 in Hnone. rewrite Ek in Hnone. cbn [negb] in Hnone.
      rewrite Hnone. cbn. exists szero, tf, tl. split; [reflexivity|]. intro f. rewrite Hspec.
      cbn [filter]. unfold kept at 1. rewrite Ek. cbn [negb]. rewrite Hnone. destruct f; reflexivity.
    + (* the first visited directory is added *)
      destruct (Hw d0 (or_introl eq_refl)) as [Hd0 Hv0].
      destruct (visit0_spec tf tl d0 (mkR szero tf None) Hd0 Ek eq_refl) as (agg1 & tfc & Hvis & Hagg1).
      cbn [walk_loop]. rewrite Hvis, loop_tail. cbn [r_agg r_first r_cur].
      set (Kr := filter (kept tl) r).
      assert (HK : filter (kept tl) (d0 :: r) = d0 :: Kr).
      { cbn [filter]. unfold kept at 1. rewrite Ek. reflexivity. }
      destruct (exists_last (l := d0 :: Kr) ltac:(discriminate)) as (K' & dl & HKl).
      assert (Hcur : fold_left (fun (_ : option day) d => Some d) Kr (Some d0) = Some dl).
      { change (fold_left (fun (_ : option day) d => Some d) (d0 :: Kr) None = Some dl).
        rewrite HKl, fold_left_app. reflexivity. }
      rewrite Hcur.
      assert (HinK : forall d, In d (d0 :: Kr) -> In d (d0 :: r)).
      { intros d [<-|Hd]; [left; reflexivity | right; apply filter_In in Hd; apply Hd]. }
      assert (Hdl : In dl (d0 :: Kr)) by (rewrite HKl; apply in_or_app; right; left; reflexivity).
      assert (Hdlk : kept tl dl = true).
      { destruct Hdl as [<-|Hd]; [unfold kept; rewrite Ek; reflexivity | apply filter_In in Hd; apply Hd]. }
      destruct (finish_spec tl dl
                  (fold_left (fun a d => sadd a (day_total d)) Kr agg1) tfc
                  (proj1 (Hw dl (HinK dl Hdl)))) as (s & tL & Hfin & Hs).
      rewrite Hfin. exists s, tfc, tL. split; [reflexivity|]. intro f.
      rewrite Hspec, HK.
      rewrite (Hs f (SF f (d_blocks d0) - SF f (filter (ltp tf) (d_blocks d0)) + SF f (all_blocks Kr)))
        by (apply fold_days, Hagg1).
      f_equal. rewrite <- (core f tf tl d0 Kr K' dl HKl).
      * rewrite all_blocks_cons, SF_app. lia.
      * rewrite <- HK. apply SS_filter, Hss.
      * intros d Hd. apply Hw, HinK, Hd.
      * exact Hle.
      * unfold visited in Hv0. apply andb_prop in Hv0. destruct Hv0 as [Hv0 _]. apply Z.ltb_lt in Hv0. exact Hv0.
      * unfold kept in Hdlk. apply negb_true_iff, Z.ltb_ge in Hdlk. exact Hdlk.
Qed.

(* ---------------------------------------------------------------- the query *)
Lemma in_range_visited : forall tf tl db, (forall d, In d db -> DayOK d) ->
  filter (in_range tf tl) (all_blocks db) = filter (in_range tf tl) (all_blocks (walk tf tl db)).
Proof.
  intros tf tl db Hok. unfold walk, all_blocks.
  apply filter_flat_map_restrict. intros d Hd Hq. apply filter_none. intros b Hb.
  destruct (Hok d Hd) as (_ & _ & Hr & _). specialize (Hr b Hb).
  unfold in_range. apply andb_false_iff. unfold visited, EpochDay, WriteInterval in *.
  destruct (tf <=? b_ts b) eqn:E1; [right|left; reflexivity].
  apply Z.leb_le in E1. apply Z.leb_gt.
  apply andb_false_iff in Hq. destruct Hq as [Hq|Hq]; apply Z.ltb_ge in Hq; lia.
Qed.

Theorem query_selects_range : forall db tf tl, db_wf db = true ->
  query_blocks tf tl db = Ok (filter (in_range tf tl) (all_blocks db)).
Proof.
  intros db tf tl Hwf. apply db_wf_ok in Hwf.
  destruct (walk_props tf tl db Hwf) as [Hss Hw]. destruct Hwf as [_ Hok].
  unfold query_blocks. rewrite (in_range_visited tf tl db Hok).
  destruct (walk tf tl db) as [|d0 r] eqn:EW; [reflexivity|].
  destruct (Hw d0 (or_introl eq_refl)) as [(Hne0 & Hss0 & Hr0 & _) _].
  assert (Hlast : In (last r d0) (d0 :: r)).
  { destruct r as [|d1 r']; [left; reflexivity|]. right. rewrite <- last_cons with (a := d0).
    change (In (last (d0 :: d1 :: r') d0) (d1 :: r')).
    assert (Hx : forall (l : list day) a b, In (last (b :: l) a) (b :: l)).
    { intros l. induction l as [|c l IH]; intros a b; [left; reflexivity|].
      right. change (In (last (c :: l) a) (c :: l)). apply IH. }
    change (last (d0 :: d1 :: r') d0) with (last (d1 :: r') d0). apply Hx. }
  destruct (Hw _ Hlast) as [(Hnel & Hssl & Hrl & _) _].
  destruct (d_blocks d0) as [|b0 bs0] eqn:E0; [congruence|].
  destruct (d_blocks (last r d0)) as [|bl bsl] eqn:El; [congruence|].
  cbn [first_ts last_ts]. f_equal. apply filter_ext_in. intros b Hb.
  (* every visited block lies between the first block of the first and the last block of the last directory *)
  apply in_flat_map in Hb. destruct Hb as (d & Hd & Hb).
  destruct (Hw d Hd) as [(_ & _ & Hr & _) _]. specialize (Hr b Hb).
  assert (Hmin : b_ts b0 <= b_ts b).
  { destruct Hd as [<-|Hd].
    - rewrite E0 in Hb. apply (SS_head_min b_ts b0 bs0 b Hss0 Hb).
    - destruct Hss as [Hlt _]. specialize (Hlt d Hd).
      pose proof (days_apart d0 d (proj1 (Hw d0 (or_introl eq_refl))) (proj1 (Hw d (or_intror Hd))) Hlt).
      specialize (Hr0 b0 (or_introl eq_refl)). lia. }
  assert (Hmax : b_ts b <= b_ts (last bsl bl)).
  { pose proof (SS_last_max d_ts r d0 d Hss Hd) as Hdl.
    destruct (Z.eq_dec (d_ts d) (d_ts (last r d0))) as [Heq|Hneq].
    - assert (d = last r d0).
      { (* strictly sorted: equal keys mean the same element *)
        clear - Hss Hd Hlast Heq.
        assert (Huniq : forall (l : list day), SS d_ts l -> forall x y, In x l -> In y l -> d_ts x = d_ts y -> x = y).
        { intros l. induction l as [|a l IH]; intros Hs x y Hx Hy He; [destruct Hx|].
          destruct Hs as [Ha Hs]. destruct Hx as [<-|Hx]; destruct Hy as [<-|Hy]; auto.
          - specialize (Ha y Hy). lia.
          - specialize (Ha x Hx). lia. }
        apply (Huniq (d0 :: r) Hss); assumption. }
      subst d. rewrite El in Hb. apply (SS_last_max b_ts bsl bl b Hssl Hb).
    - assert (Hlt : d_ts d < d_ts (last r d0)) by lia.
      pose proof (days_apart d (last r d0) (proj1 (Hw d Hd)) (proj1 (Hw _ Hlast)) Hlt).
      assert (Hin : In (last bsl bl) (bl :: bsl)).
      { clear. revert bl. induction bsl as [|c l IH]; intro bl; [left; reflexivity|].
        right. rewrite <- last_cons with (a := bl). change (last (bl :: c :: l) bl) with (last (c :: l) bl).
        rewrite last_cons. apply IH. }
      specialize (Hrl _ Hin). lia. }
  unfold in_range.
  destruct (tf <? b_ts b0) eqn:E1; destruct (tl >? b_ts (last bsl bl)) eqn:E2;
    rewrite ?Z.gtb_ltb in *;
    destruct (b_ts b <? _) eqn:E3; destruct (_ <? b_ts b) eqn:E4;
    destruct (tf <=? b_ts b) eqn:E5; destruct (b_ts b <=? tl) eqn:E6; cbn; try reflexivity;
    exfalso; rewrite ?Z.ltb_lt, ?Z.ltb_ge, ?Z.leb_le, ?Z.leb_gt in *; lia.
Qed.

Theorem agrees_with_query : forall db tf tl, db_wf db = true -> tf <= tl ->
  exists s tF tL qs, read_metadata tf tl db = Ok (s, tF, tL) /\ query_totals tf tl db = Ok qs /\
    forall f, In f counter_flds -> get f s = get f qs.
Proof.
  intros db tf tl Hwf Hle. destruct (summary_is_sum db tf tl Hwf Hle) as (s & tF & tL & Hr & Hs).
  exists s, tF, tL, (sum_stats (filter (in_range tf tl) (all_blocks db))).
  split; [exact Hr|]. split.
  - unfold query_totals. rewrite (query_selects_range db tf tl Hwf). reflexivity.
  - intros f _. rewrite Hs, get_sum_stats. reflexivity.
Qed.
