(* C12 model: an abstract goDB (one interface = list of day directories, each a list of blocks),
   DBWorkManager.ReadMetadata (the `goquery list` summary) and the block selection of a query
   (CreateWorkerJobs + the time filter of readBlocksAndEvaluate), as coded in
   pkg/goDB/DBWorkManager.go and pkg/goDB/storage/storage.go AFTER the C12 fixes.
   Executable definitions only. All counters are uint64: explicit mod 2^64. *)
From Coq Require Import List ZArith Bool.
From GoProbe.Base Require Import CorrLib.
Import ListNotations.
Open Scope Z_scope.

Definition M64 : Z := 18446744073709551616.          (* 2^64 *)
Definition add64 (a b : Z) : Z := (a + b) mod M64.    (* Go: a += b on uint64 *)
Definition sub64 (a b : Z) : Z := (a - b) mod M64.    (* Go: a -= b on uint64 *)

Definition EpochDay : Z := 86400.                      (* gpfile.EpochDay *)
Definition WriteInterval : Z := 300.                   (* goDB.DBWriteInterval *)

(* the seven figures of gpfile.Stats (Traffic: NumV4Entries, NumV6Entries, NumDrops;
   Counts: BytesRcvd, BytesSent, PacketsRcvd, PacketsSent) *)
Inductive fld := FV4 | FV6 | FDrops | FBytesRcvd | FBytesSent | FPktsRcvd | FPktsSent.
Definition all_flds : list fld := [FV4; FV6; FDrops; FBytesRcvd; FBytesSent; FPktsRcvd; FPktsSent].
Definition counter_flds : list fld := [FBytesRcvd; FBytesSent; FPktsRcvd; FPktsSent].

Record stats := mkS { s_v4 : Z; s_v6 : Z; s_dr : Z; s_br : Z; s_bs : Z; s_pr : Z; s_ps : Z }.
Definition szero : stats := mkS 0 0 0 0 0 0 0.
Definition get (f : fld) (s : stats) : Z :=
  match f with
  | FV4 => s_v4 s | FV6 => s_v6 s | FDrops => s_dr s
  | FBytesRcvd => s_br s | FBytesSent => s_bs s | FPktsRcvd => s_pr s | FPktsSent => s_ps s
  end.

(* gpfile.Stats.Add / Sub (TrafficMetadata.Add/Sub + types.Counters.Add/Sub) *)
Definition sadd (a b : stats) : stats :=
  mkS (add64 (s_v4 a) (s_v4 b)) (add64 (s_v6 a) (s_v6 b)) (add64 (s_dr a) (s_dr b))
      (add64 (s_br a) (s_br b)) (add64 (s_bs a) (s_bs b)) (add64 (s_pr a) (s_pr b)) (add64 (s_ps a) (s_ps b)).
Definition ssub (a b : stats) : stats :=
  mkS (sub64 (s_v4 a) (s_v4 b)) (sub64 (s_v6 a) (s_v6 b)) (sub64 (s_dr a) (s_dr b))
      (sub64 (s_br a) (s_br b)) (sub64 (s_bs a) (s_bs b)) (sub64 (s_pr a) (s_pr b)) (sub64 (s_ps a) (s_ps b)).

(* one stored block: timestamp, BlockTraffic entry (v4, v6, drops) and the sums of its four
   counter columns *)
Record block := mkB { b_ts : Z; b_st : stats }.
(* one day directory: its timestamp (directory name) and its blocks in stored order *)
Record day := mkD { d_ts : Z; d_blocks : list block }.
(* one interface: its day directories in the order os.ReadDir lists them *)
Definition idb := list day.

Definition all_blocks (db : idb) : list block := flat_map d_blocks db.

(* the totals the writer maintains for a day (GPDir.WriteBlocks: Traffic.Add, Counts.Add per block),
   stored in .blockmeta and in the directory-name suffix *)
Definition day_total (d : day) : stats := fold_left (fun acc b => sadd acc (b_st b)) (d_blocks d) szero.

(* gpfile.DirTimestamp: Go's truncating division *)
Definition dir_timestamp (ts : Z) : Z := (ts ÷ EpochDay) * EpochDay.

(* ---------------------------------------------------------------- walkDB *)
(* `tfirst < dayTimestamp+EpochDay && dayTimestamp < tlast+DBWriteInterval`; the year / month tests
   are implied by it for directories stored under the year / month of their own timestamp *)
Definition visited (tf tl : Z) (d : day) : bool :=
  (tf <? d_ts d + EpochDay) && (d_ts d <? tl + WriteInterval).
Definition walk (tf tl : Z) (db : idb) : list day := filter (visited tf tl) db.

(* ---------------------------------------------------------------- storage.BlockHeader *)
(* BlocksBefore(ts): the prefix before the first block with Timestamp >= ts *)
Fixpoint blocks_before (ts : Z) (l : list block) : list block :=
  match l with
  | [] => []
  | b :: r => if b_ts b >=? ts then [] else b :: blocks_before ts r
  end.
(* BlocksAfter(ts) (fixed): the suffix starting at the first block with Timestamp > ts *)
Fixpoint blocks_after (ts : Z) (l : list block) : list block :=
  match l with
  | [] => []
  | b :: r => if b_ts b >? ts then b :: r else blocks_after ts r
  end.

Definition first_ts (l : list block) : res Z :=       (* TimeRange(): Blocks()[0] *)
  match l with [] => Panic | b :: _ => Ok (b_ts b) end.
Definition last_ts (l : list block) : res Z :=        (* TimeRange(): Blocks()[NBlocks()-1] *)
  match l with [] => Panic | b :: r => Ok (b_ts (last r b)) end.

(* readMetadataAndEvaluate with statsOpFunc = Sub: per excluded block the v4/v6 counts and the drops
   from BlockTraffic and the recomputed column sums are subtracted, one block after the other *)
Definition sub_blocks (agg : stats) (l : list block) : stats :=
  fold_left (fun acc b => ssub acc (b_st b)) l agg.

(* ---------------------------------------------------------------- ReadMetadata *)
Record rstate := mkR { r_agg : stats; r_first : Z; r_cur : option day }.

(* the walk callback for one visited directory; n = numDirs *)
Definition visit (tf tl : Z) (n : nat) (d : day) (st : rstate) : res rstate :=
  if tl <? d_ts d then Ok st                                  (* (fix) directory starts after tlast *)
  else
    let agg := sadd (r_agg st) (day_total d) in
    match n with
    | O =>
        match first_ts (d_blocks d) with
        | Ok dirFirst =>
            if tf >=? dirFirst then
              let blocks := blocks_before tf (d_blocks d) in
              let nb := Z.of_nat (length blocks) in
              let tfc := if nb <? Z.of_nat (length (d_blocks d)) - 1
                         then b_ts (nth (length blocks) (d_blocks d) (mkB 0 szero))
                         else r_first st in
              Ok (mkR (sub_blocks agg blocks) tfc (Some d))
            else Ok (mkR agg dirFirst (Some d))
        | _ => Panic
        end
    | S _ => Ok (mkR agg (r_first st) (Some d))
    end.

Fixpoint walk_loop (tf tl : Z) (n : nat) (ds : list day) (st : rstate) : res rstate :=
  match ds with
  | [] => Ok st
  | d :: r => match visit tf tl n d st with
              | Ok st' => walk_loop tf tl (S n) r st'
              | Err => Err | Panic => Panic
              end
  end.

(* after the walk: the last directory that was added is reopened and the blocks after tlast are
   subtracted. Result: (Stats, tFirstCovered, tLastCovered); First = tFirstCovered - 300, Last = tLastCovered *)
Definition finish (tl : Z) (st : rstate) : res (stats * Z * Z) :=
  match r_cur st with
  | None => Ok (r_agg st, r_first st, tl)
  | Some d =>
      match last_ts (d_blocks d) with
      | Ok dirLast =>
          if tl <=? dirLast then
            let blocks := blocks_after tl (d_blocks d) in
            let ind := Z.of_nat (length (d_blocks d)) - Z.of_nat (length blocks) - 1 in
            let tlc := if ind >=? 0 then b_ts (nth (Z.to_nat ind) (d_blocks d) (mkB 0 szero)) else tl in
            Ok (sub_blocks (r_agg st) blocks, r_first st, tlc)
          else Ok (r_agg st, r_first st, dirLast)
      | _ => Panic
      end
  end.

Definition read_metadata (tf tl : Z) (db : idb) : res (stats * Z * Z) :=
  match walk_loop tf tl O (walk tf tl db) (mkR szero tf None) with
  | Ok st => finish tl st
  | Err => Err | Panic => Panic
  end.

(* ---------------------------------------------------------------- the query side *)
(* CreateWorkerJobs: tFirstCovered / tLastCovered from the first / last visited directory;
   readBlocksAndEvaluate: skip a block iff Timestamp < tFirstCovered || Timestamp > tLastCovered *)
Definition query_blocks (tf tl : Z) (db : idb) : res (list block) :=
  let ds := walk tf tl db in
  match ds with
  | [] => Ok []
  | d0 :: r =>
      match first_ts (d_blocks d0), last_ts (d_blocks (last r d0)) with
      | Ok dirFirst, Ok dirLast =>
          let tfc := if tf <? dirFirst then dirFirst else tf in
          let tlc := if tl >? dirLast then dirLast else tl in
          Ok (filter (fun b => negb ((b_ts b <? tfc) || (b_ts b >? tlc))) (all_blocks ds))
      | _, _ => Panic
      end
  end.

(* Summary.Totals of a query without condition: the sum of the counters of all selected rows *)
Definition sum_stats (l : list block) : stats := fold_left (fun acc b => sadd acc (b_st b)) l szero.
Definition query_totals (tf tl : Z) (db : idb) : res stats :=
  match query_blocks tf tl db with Ok l => Ok (sum_stats l) | Err => Err | Panic => Panic end.

(* ---------------------------------------------------------------- specification *)
(* a block's time lies in the range *)
Definition in_range (tf tl : Z) (b : block) : bool := (tf <=? b_ts b) && (b_ts b <=? tl).
(* a figure summed over a list of blocks, in uint64 *)
Definition sum64 (f : fld) (l : list block) : Z := fold_right Z.add 0 (map (fun b => get f (b_st b)) l) mod M64.

(* well-formed databases (what the writer produces) *)
Fixpoint sorted_by {A} (k : A -> Z) (l : list A) : bool :=
  match l with
  | [] => true
  | a :: r => match r with [] => true | b :: _ => (k a <? k b) && sorted_by k r end
  end.
Definition day_wf (d : day) : bool :=
  negb (match d_blocks d with [] => true | _ => false end)
  && sorted_by b_ts (d_blocks d)
  && forallb (fun b => (0 <=? b_ts b) && (dir_timestamp (b_ts b) =? d_ts d)) (d_blocks d).
Definition db_wf (db : idb) : bool := sorted_by d_ts db && forallb day_wf db.
