(* C21 property theorems. Statements closed by `exact`, Print Assumptions, one non-vacuity Example each. *)
From Coq Require Import String List NArith ZArith Bool Arith.
From GoProbe.Base Require Import CorrLib.
From GoProbe.C23 Require Import Model.
From GoProbe.C21 Require Import Model Proofs.
Import ListNotations.
Open Scope nat_scope.

(* Packets seen while the capture is paused are counted once and unaltered.
   For EVERY event list in which lock windows are well-bracketed (ELock ... EUnlock, not nested, the
   lock holder's status / rotate / query actions anywhere inside, packets anywhere), every initial
   buffer size that holds one record, every size limit, and all packets the source can deliver
   (bytes, uint32 size, IP layer at least as long as the fixed header of its version), IPv4 or IPv6:
   if no buffer overflow is reported, the loop never crashes, ends in normal mode, loses nothing, and
   its final flow log (both maps, keys and all four counters), its counters (Processed,
   ProcessedTotal, ParsingErrors) and every result handed to a status call, a write-out and a live
   query are EQUAL to those of the same loop run on `unpaused None evs`: the event list without any
   lock / unlock, in which the packets of a window are processed directly after the window's
   actions, in arrival order. Without actions that list is just the packets: `filter is_data evs`. *)
Theorem c21_same_as_unpaused : forall (g : cfg) (evs : list ev),
  rec_max <= c_init g -> bracketed false evs = true -> Forall (fun e => ev_wf e = true) evs ->
  no_invalid evs = true -> cs_overflows (crun g evs) = 0 ->
  cs_crashed (crun g evs) = false /\ cs_mode (crun g evs) = MNormal /\ cs_lost (crun g evs) = [] /\
  cs_core (crun g evs) = cs_core (crun g (unpaused None evs)) /\
  (no_actions evs = true -> unpaused None evs = filter is_data evs).
Proof. exact same_as_unpaused. Qed.
Print Assumptions c21_same_as_unpaused.

(* The only loss. For EVERY well-bracketed event list (overflows and packets of neither IP version
   included): the loop never crashes and ends in normal mode, and there is an event list evs' obtained
   from evs by deleting exactly the packets recorded in cs_lost (in order) such that flow log, counters
   and all status / write-out / query results equal those of the never-paused loop on evs'.
   cs_lost holds the packets whose buffer insertion was refused - each one reported
   (cs_overflows = number of lost packets that have an IP version) - and the packets of neither IP
   version that arrived during a pause, which the code documents it cannot count. *)
Theorem c21_exact_loss : forall (g : cfg) (evs : list ev),
  rec_max <= c_init g -> bracketed false evs = true -> Forall (fun e => ev_wf e = true) evs ->
  cs_crashed (crun g evs) = false /\ cs_mode (crun g evs) = MNormal /\
  exists evs', deleted evs evs' (rev (cs_lost (crun g evs))) /\
    cs_core (crun g evs) = cs_core (crun g (unpaused None evs')) /\
    cs_overflows (crun g evs) = length (filter (fun p => negb (is_invalid p)) (cs_lost (crun g evs))).
Proof. exact exact_all. Qed.
Print Assumptions c21_exact_loss.

(* ---- non-vacuity *)
Open Scope string_scope.
(* 2000::1 -> 2000::2 tcp/80 ACK and its reply, 10.0.0.1:50000 -> 10.0.0.2:22 *)
Definition ex_web : pkt := mk_pkt (unhex "60000000000006002000000000000000000000000000000120000000000000000000000000000002c000005000000000000000000010") 0%N 100%N.
Definition ex_webr : pkt := mk_pkt (unhex "600000000000060020000000000000000000000000000002200000000000000000000000000000010050c00000000000000000000010") 4%N 1500%N.
Definition ex_ssh : pkt := mk_pkt (unhex "4500000000000000400600000a0000010a000002c350001600000000000000000010") 4%N 60%N.

(* an IPv6 and an IPv4 packet arrive during a write-out, the reply after it; a status call with a packet *)
Definition ex_evs : list ev :=
  [EPkt ex_ssh; ELock; EPkt ex_web; EAct AStatus; EPkt ex_ssh; EAct ARotate; EUnlock; EPkt ex_webr;
   ELock; EAct AStatus; EPkt ex_web; EUnlock].

Example c21_same_as_unpaused_example :
  let g := mk_cfg 64 1000%N in
  rec_max <= c_init g /\ bracketed false ex_evs = true /\ Forall (fun e => ev_wf e = true) ex_evs /\
  no_invalid ex_evs = true /\ cs_overflows (crun g ex_evs) = 0 /\
  (* the IPv6 flow is in the IPv6 map with both directions in one record, the IPv4 flow was reset by the rotation and used again *)
  map snd (m6 (cs_core (crun g ex_evs))) = [mk_flow 200%N 1500%N 2%N 1%N] /\
  map snd (m4 (cs_core (crun g ex_evs))) = [mk_flow 0%N 60%N 0%N 1%N] /\
  unpaused None ex_evs
  = [EPkt ex_ssh; EAct AStatus; EAct ARotate; EPkt ex_web; EPkt ex_ssh; EPkt ex_webr; EAct AStatus; EPkt ex_web].
Proof.
  cbv zeta. split; [unfold rec_max; cbn; repeat constructor|]. split; [reflexivity|].
  split; [repeat constructor|]. split; [vm_compute; reflexivity|]. split; [vm_compute; reflexivity|].
  split; [vm_compute; reflexivity|]. split; vm_compute; reflexivity.
Qed.

(* limit 64 = initial size: one IPv6 record (45 bytes) fits, the second packet is refused and reported,
   the third waits in the source and is processed after the unlock *)
Example c21_exact_loss_example :
  let g := mk_cfg 64 64%N in
  let evs := [ELock; EPkt ex_web; EPkt ex_webr; EAct AStatus; EPkt ex_ssh; EUnlock] in
  rec_max <= c_init g /\ bracketed false evs = true /\ Forall (fun e => ev_wf e = true) evs /\
  cs_lost (crun g evs) = [ex_webr] /\ cs_overflows (crun g evs) = 1 /\
  deleted evs [ELock; EPkt ex_web; EAct AStatus; EPkt ex_ssh; EUnlock] (rev (cs_lost (crun g evs))) /\
  map snd (m6 (cs_core (crun g evs))) = [mk_flow 100%N 0%N 1%N 0%N].
Proof.
  cbv zeta. split; [unfold rec_max; cbn; repeat constructor|]. split; [reflexivity|].
  split; [repeat constructor|]. split; [vm_compute; reflexivity|]. split; [vm_compute; reflexivity|].
  split; [|vm_compute; reflexivity].
  replace (rev (cs_lost (crun (mk_cfg 64 64%N) [ELock; EPkt ex_web; EPkt ex_webr; EAct AStatus; EPkt ex_ssh; EUnlock])))
    with [ex_webr] by (vm_compute; reflexivity).
  apply del_keep, del_keep, del_drop, del_keep, del_keep, del_keep, del_nil.
Qed.
