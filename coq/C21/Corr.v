(* C21 correspondence: case type, corr (model = observed), holds (observed paused run = observed
   run of the REAL code on the same events with every lock window emptied). Executable only. *)
From Coq Require Import String Ascii.
From Coq Require Import List NArith ZArith Bool Arith.
From GoProbe.Base Require Import CorrLib.
From GoProbe.C22 Require Import Model.
From GoProbe.C23 Require Import Model.
From GoProbe.C21 Require Import Model.
Import ListNotations.

(* observed flows: hex key, (bytes rcvd, bytes sent, packets rcvd, packets sent); sorted by key *)
Definition oflows := list (string * (N * N * N * N)).
Definition oagg := option (oflows * oflows).         (* None = nil map *)

Record obs := mk_obs {
  ob_v4 : oflows; ob_v6 : oflows;                    (* flow log at the end (hook dump under the lock) *)
  ob_proc : N; ob_total : N; ob_errs : list Z;       (* c.stats at the end *)
  ob_status : list (N * N * list Z);                 (* Status() / write-out stats, in order *)
  ob_written : list oagg;                            (* maps handed to the write-out handler *)
  ob_query : list oagg;                              (* maps returned to live queries *)
  ob_lost : list nat;                                (* packets (table indices) lost to a reported overflow *)
  ob_overflows : nat;                                (* overflow reports (error log lines) *)
  ob_stalled : nat                                   (* bounded waits of the harness for the capture routine that
                                                        expired (a packet taken without the routine coming back or an
                                                        overflow being reported, a lock cycle that did not return) *)
}.

(* events refer to a packet table *)
Inductive cev := CP (i : nat) | CL | CA (a : action) | CU.

Record case := mk_case {
  k_init : nat; k_limit : N;
  k_pkts : list (string * N * N);     (* hex IP layer, packet type, size *)
  k_evs : list cev;                   (* the schedule with pauses *)
  k_obs : obs;                        (* the real capture on it *)
  k_ref : list cev;                   (* the same with every lock window emptied (packets moved behind it,
                                         lost / untracked ones removed) *)
  k_robs : obs                        (* the real capture on that *)
}.

Definition pkt_at (c : case) (i : nat) : pkt :=
  match nth_error (k_pkts c) i with
  | Some (d, t, s) => mk_pkt (unhex d) t s
  | None => mk_pkt [] 0%N 0%N
  end.
Definition ev_of (c : case) (e : cev) : ev :=
  match e with CP i => EPkt (pkt_at c i) | CL => ELock | CA a => EAct a | CU => EUnlock end.

(* ---- comparisons *)
Definition cnt_eqb (f : flow) (o : N * N * N * N) : bool :=
  let '(br, bs, pr, ps) := o in
  (f_br f =? br)%N && (f_bs f =? bs)%N && (f_pr f =? pr)%N && (f_ps f =? ps)%N.

Definition fmap_matches (m : fmap) (o : oflows) : bool :=
  (length m =? length o)%nat &&
  forallb (fun ko => match fm_find (unhex (fst ko)) m with Some f => cnt_eqb f (snd ko) | None => false end) o.

Definition agg_matches (a : agg_out) (o : oagg) : bool :=
  match a, o with
  | None, None => true
  | Some (a4, a6), Some (o4, o6) => fmap_matches a4 o4 && fmap_matches a6 o6
  | _, _ => false
  end.

Fixpoint all2 {A B} (f : A -> B -> bool) (x : list A) (y : list B) : bool :=
  match x, y with
  | [], [] => true
  | a :: x', b :: y' => f a b && all2 f x' y'
  | _, _ => false
  end.

Definition status_matches (s : N * N * (Z * Z * Z)) (o : N * N * list Z) : bool :=
  let '(p, t, (e0, e1, e2)) := s in let '(op, ot, oe) := o in
  (p =? op)%N && (t =? ot)%N && list_eqb Z.eqb [e0; e1; e2] oe.

Definition pkt_eqb (a b : pkt) : bool :=
  bytes_eqb (p_data a) (p_data b) && (p_type a =? p_type b)%N && (p_size a =? p_size b)%N.

Definition state_matches (c : case) (s : cstate) (o : obs) : bool :=
  let k := cs_core s in
  negb (cs_crashed s)
  && match cs_mode s with MNormal => true | _ => false end
  && fmap_matches (m4 k) (ob_v4 o) && fmap_matches (m6 k) (ob_v6 o)
  && (s_processed (st k) =? ob_proc o)%N && (s_total (st k) =? ob_total o)%N
  && list_eqb Z.eqb [s_frag (st k); s_inval (st k); s_trunc (st k)] (ob_errs o)
  && all2 status_matches (rev (o_status k)) (ob_status o)
  && all2 agg_matches (rev (o_rot k)) (ob_written o)
  && all2 agg_matches (rev (o_query k)) (ob_query o)
  && (cs_overflows s =? ob_overflows o)%nat
  && (ob_stalled o =? 0)%nat
  && all2 pkt_eqb (filter (fun p => negb (is_invalid p)) (rev (cs_lost s))) (map (pkt_at c) (ob_lost o)).

Definition corr (c : case) : bool :=
  let g := mk_cfg (k_init c) (k_limit c) in
  state_matches c (crun g (map (ev_of c) (k_evs c))) (k_obs c)
  && state_matches c (crun g (map (ev_of c) (k_ref c))) (mk_obs (ob_v4 (k_robs c)) (ob_v6 (k_robs c))
        (ob_proc (k_robs c)) (ob_total (k_robs c)) (ob_errs (k_robs c)) (ob_status (k_robs c))
        (ob_written (k_robs c)) (ob_query (k_robs c)) [] 0 (ob_stalled (k_robs c))).

(* ---- the property on the observed data alone: the paused run and the run with emptied lock
   windows give the same flow log, counters, status results, written and queried maps (everything
   is sorted by the harness); every flow key has the length of its IP version; every packet that is
   missing was reported as a buffer overflow (one report per packet); the reference run itself
   reports no overflow; the capture routine never left the harness waiting beyond its deadline. *)
Definition oflow_eqb (a b : string * (N * N * N * N)) : bool :=
  String.eqb (fst a) (fst b) &&
  (let '(a1, a2, a3, a4) := snd a in let '(b1, b2, b3, b4) := snd b in
   (a1 =? b1)%N && (a2 =? b2)%N && (a3 =? b3)%N && (a4 =? b4)%N).
Definition oflows_eqb (a b : oflows) : bool := all2 oflow_eqb a b.
Definition oagg_eqb (a b : oagg) : bool :=
  match a, b with
  | None, None => true
  | Some (a4, a6), Some (b4, b6) => oflows_eqb a4 b4 && oflows_eqb a6 b6
  | _, _ => false
  end.
Definition ostatus_eqb (a b : N * N * list Z) : bool :=
  let '(a1, a2, a3) := a in let '(b1, b2, b3) := b in (a1 =? b1)%N && (a2 =? b2)%N && list_eqb Z.eqb a3 b3.

Definition keys_len (n : nat) (o : oflows) : bool :=
  forallb (fun ko => (String.length (fst ko) =? 2 * n)%nat) o.

Definition holds (c : case) : bool :=
  let o := k_obs c in let r := k_robs c in
  oflows_eqb (ob_v4 o) (ob_v4 r) && oflows_eqb (ob_v6 o) (ob_v6 r)
  && (ob_proc o =? ob_proc r)%N && (ob_total o =? ob_total r)%N && list_eqb Z.eqb (ob_errs o) (ob_errs r)
  && all2 ostatus_eqb (ob_status o) (ob_status r)
  && all2 oagg_eqb (ob_written o) (ob_written r)
  && all2 oagg_eqb (ob_query o) (ob_query r)
  && keys_len 13 (ob_v4 o) && keys_len 37 (ob_v6 o)
  && (length (ob_lost o) =? ob_overflows o)%nat
  && (ob_overflows r =? 0)%nat && (length (ob_lost r) =? 0)%nat
  && (ob_stalled o =? 0)%nat && (ob_stalled r =? 0)%nat.
