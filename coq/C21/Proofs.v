(* C21 proofs: the paused process loop simulates the unpaused one.
   Uses the representation invariant of the local buffer (C23 Proofs: Inv, add_step, drain_inv) and
   the pure form of the parsers (C19 Proofs: parse_v4_pure, parse_v6_pure). *)
From Coq Require Import List NArith ZArith Bool Arith Lia.
From GoProbe.Base Require Import CorrLib.
From GoProbe.C19 Require Proofs.
From GoProbe.C19 Require Import Model.
From GoProbe.C22 Require Import Model.
From GoProbe.C23 Require Import Model Proofs.
From GoProbe.C21 Require Import Model.
Import ListNotations.

Module P19 := GoProbe.C19.Proofs.
Open Scope nat_scope.

(* ================================================================ parser output is a well-formed buffer item *)
Lemma fb_firstn : forall n (l : list N), forallb is_byte l = true -> forallb is_byte (firstn n l) = true.
Proof.
  induction n; intros [|x l] H; cbn [firstn forallb] in *; try reflexivity.
  apply andb_true_iff in H as [H1 H2]. rewrite H1, IHn by exact H2. reflexivity.
Qed.
Lemma fb_skipn : forall n (l : list N), forallb is_byte l = true -> forallb is_byte (skipn n l) = true.
Proof.
  induction n; intros [|x l] H; cbn [skipn forallb] in *; try reflexivity; try exact H.
  apply andb_true_iff in H as [_ H2]. apply IHn, H2.
Qed.
Lemma fb_sub : forall p a b, forallb is_byte p = true -> forallb is_byte (sub p a b) = true.
Proof. intros. unfold sub. apply fb_firstn, fb_skipn, H. Qed.
Lemma fb_nth : forall i (p : list N), forallb is_byte p = true -> is_byte (nth i p 0%N) = true.
Proof.
  induction i; intros [|x l] H; cbn [nth forallb] in *; try reflexivity;
    apply andb_true_iff in H as [H1 H2]; [exact H1 | apply IHi, H2].
Qed.

Lemma hash_wf : forall n sip sp dip dp pr,
  length sip = n -> length dip = n -> length sp = 2 -> length dp = 2 ->
  forallb is_byte sip = true -> forallb is_byte sp = true -> forallb is_byte dip = true ->
  forallb is_byte dp = true -> is_byte pr = true ->
  length (mk_hash sip sp dip dp pr) = 2 * n + 5 /\ forallb is_byte (mk_hash sip sp dip dp pr) = true.
Proof.
  intros n sip sp dip dp pr L1 L2 L3 L4 B1 B2 B3 B4 B5. unfold mk_hash. split.
  - rewrite !app_length. cbn [length]. lia.
  - rewrite !forallb_app, B1, B2, B3, B4. cbn [forallb]. rewrite B5. reflexivity.
Qed.

Lemma ports_pure_wf : forall n p off proto sip dip,
  off + 4 <= length p -> forallb is_byte p = true ->
  length sip = n -> length dip = n -> forallb is_byte sip = true -> forallb is_byte dip = true ->
  is_byte proto = true ->
  length (P19.ports_pure p off proto sip dip) = 2 * n + 5
  /\ forallb is_byte (P19.ports_pure p off proto sip dip) = true.
Proof.
  intros n p off proto sip dip L B L1 L2 B1 B2 B3. unfold P19.ports_pure.
  apply hash_wf; auto.
  - destruct (common_port_b _ _ _); [reflexivity | rewrite P19.sub_length; lia].
  - destruct (common_port_b _ _ _); [reflexivity | rewrite P19.sub_length; lia].
  - destruct (common_port_b _ _ _); [reflexivity | apply fb_sub, B].
  - destruct (common_port_b _ _ _); [reflexivity | apply fb_sub, B].
Qed.

Definition parsed_wf (n : nat) (r : parsed) : Prop :=
  match r with
  | POk h aux => length h = 2 * n + 5 /\ forallb is_byte h = true /\ is_byte aux = true
  | _ => True
  end.

Lemma noports_wf : forall n sip dip proto,
  length sip = n -> length dip = n -> forallb is_byte sip = true -> forallb is_byte dip = true ->
  is_byte proto = true ->
  length (mk_hash sip zero2 dip zero2 proto) = 2 * n + 5
  /\ forallb is_byte (mk_hash sip zero2 dip zero2 proto) = true.
Proof. intros. apply hash_wf; auto. Qed.

Lemma pure_v4_wf : forall p, 20 <= length p -> forallb is_byte p = true -> parsed_wf 4 (P19.pure_v4 p).
Proof.
  intros p L B. unfold P19.pure_v4.
  assert (L1 : length (sub p 12 16) = 4) by (rewrite P19.sub_length; lia).
  assert (L2 : length (sub p 16 20) = 4) by (rewrite P19.sub_length; lia).
  pose proof (fb_sub p 12 16 B) as B1. pose proof (fb_sub p 16 20 B) as B2.
  pose proof (fb_nth 9 p B) as B3.
  cbv zeta.
  destruct (negb (nth 9 p 0%N =? ESP)%N && _); [exact I|].
  destruct (nth 9 p 0%N =? TCP)%N.
  { destruct (length p <? 34) eqn:E; [exact I|]. apply Nat.ltb_ge in E.
    destruct (ports_pure_wf 4 p 20 (nth 9 p 0%N) _ _ ltac:(lia) B L1 L2 B1 B2 B3) as [H1 H2].
    split; [exact H1 | split; [exact H2 | apply fb_nth, B]]. }
  destruct (nth 9 p 0%N =? UDP)%N.
  { destruct (length p <? 24) eqn:E; [exact I|]. apply Nat.ltb_ge in E.
    destruct (ports_pure_wf 4 p 20 (nth 9 p 0%N) _ _ ltac:(lia) B L1 L2 B1 B2 B3) as [H1 H2].
    split; [exact H1 | split; [exact H2 | reflexivity]]. }
  destruct (noports_wf 4 _ _ (nth 9 p 0%N) L1 L2 B1 B2 B3) as [H1 H2].
  destruct (nth 9 p 0%N =? ICMP)%N.
  { destruct (length p <? 21); [exact I|]. split; [exact H1 | split; [exact H2 | apply fb_nth, B]]. }
  split; [exact H1 | split; [exact H2 | reflexivity]].
Qed.

Lemma pure_v6_wf : forall p, 40 <= length p -> forallb is_byte p = true -> parsed_wf 16 (P19.pure_v6 p).
Proof.
  intros p L B. unfold P19.pure_v6.
  assert (L1 : length (sub p 8 24) = 16) by (rewrite P19.sub_length; lia).
  assert (L2 : length (sub p 24 40) = 16) by (rewrite P19.sub_length; lia).
  pose proof (fb_sub p 8 24 B) as B1. pose proof (fb_sub p 24 40 B) as B2.
  pose proof (fb_nth 6 p B) as B3.
  cbv zeta.
  destruct (nth 6 p 0%N =? TCP)%N.
  { destruct (length p <? 54) eqn:E; [exact I|]. apply Nat.ltb_ge in E.
    destruct (ports_pure_wf 16 p 40 (nth 6 p 0%N) _ _ ltac:(lia) B L1 L2 B1 B2 B3) as [H1 H2].
    split; [exact H1 | split; [exact H2 | apply fb_nth, B]]. }
  destruct (nth 6 p 0%N =? UDP)%N.
  { destruct (length p <? 44) eqn:E; [exact I|]. apply Nat.ltb_ge in E.
    destruct (ports_pure_wf 16 p 40 (nth 6 p 0%N) _ _ ltac:(lia) B L1 L2 B1 B2 B3) as [H1 H2].
    split; [exact H1 | split; [exact H2 | reflexivity]]. }
  destruct (noports_wf 16 _ _ (nth 6 p 0%N) L1 L2 B1 B2 B3) as [H1 H2].
  destruct (nth 6 p 0%N =? ICMPv6)%N.
  { destruct (length p <? 41); [exact I|]. split; [exact H1 | split; [exact H2 | apply fb_nth, B]]. }
  split; [exact H1 | split; [exact H2 | reflexivity]].
Qed.

Lemma wf_item_intro : forall h ty sz v4 aux e,
  length h = hsize v4 -> forallb is_byte h = true -> is_byte ty = true -> is_byte aux = true ->
  (sz <? 4294967296)%N = true -> (-128 <=? e)%Z = true -> (e <=? 127)%Z = true ->
  wf_item (mk_item h ty sz v4 aux e) = true.
Proof.
  intros h ty sz v4 aux e H1 H2 H3 H4 H5 H6 H7. unfold wf_item. cbn [i_hash i_type i_size i_v4 i_aux i_errno].
  rewrite H1, Nat.eqb_refl, H2, H3, H4, H5, H6, H7. reflexivity.
Qed.

(* a packet the source can deliver never panics the loop; if it has an IP version, the loop body in
   locked mode builds a well-formed buffer item, and consuming that item is the normal loop body *)
Lemma item_of_ok : forall p, pkt_wf p = true ->
  panics p = false /\
  (is_invalid p = false ->
   exists it, item_of p = Some it /\ wf_item it = true /\ forall c, norm_pkt c p = consume c it).
Proof.
  intros p H. unfold pkt_wf in H.
  apply andb_true_iff in H as [H Hhd]. apply andb_true_iff in H as [H Hsz].
  apply andb_true_iff in H as [Hb Hty].
  unfold panics, is_invalid, item_of, norm_pkt, parse_pkt.
  destruct (p_data p) as [|b0 rest] eqn:D; [discriminate|]. rewrite <- D in *. cbv zeta.
  destruct (b0 / 16 =? 4)%N.
  - apply Nat.leb_le in Hhd. rewrite (P19.parse_v4_pure _ Hhd).
    pose proof (pure_v4_wf _ Hhd Hb) as W. destruct (P19.pure_v4 (p_data p)) as [| |h aux]; cbn [of_parsed].
    + split; [reflexivity|]. intros _. eexists. split; [reflexivity|]. split; [|intros c; reflexivity].
      apply wf_item_intro; auto.
    + split; [reflexivity|]. intros _. eexists. split; [reflexivity|]. split; [|intros c; reflexivity].
      apply wf_item_intro; auto.
    + destruct W as (W1 & W2 & W3).
      split; [reflexivity|]. intros _. eexists. split; [reflexivity|]. split; [|intros c; reflexivity].
      apply wf_item_intro; auto.
  - destruct (b0 / 16 =? 6)%N.
    + apply Nat.leb_le in Hhd. rewrite (P19.parse_v6_pure _ Hhd).
      pose proof (pure_v6_wf _ Hhd Hb) as W. destruct (P19.pure_v6 (p_data p)) as [| |h aux]; cbn [of_parsed].
      * split; [reflexivity|]. intros _. eexists. split; [reflexivity|]. split; [|intros c; reflexivity].
        apply wf_item_intro; auto.
      * split; [reflexivity|]. intros _. eexists. split; [reflexivity|]. split; [|intros c; reflexivity].
        apply wf_item_intro; auto.
      * destruct W as (W1 & W2 & W3).
        split; [reflexivity|]. intros _. eexists. split; [reflexivity|]. split; [|intros c; reflexivity].
        apply wf_item_intro; auto.
    + split; [reflexivity|]. discriminate.
Qed.

(* ================================================================ the unpaused reference *)
Definition item' (p : pkt) : item :=
  match item_of p with Some it => it | None => mk_item [] 0%N 0%N true 0%N 0%Z end.

Definition good (p : pkt) : Prop := pkt_wf p = true /\ is_invalid p = false.

(* reference semantics: packets that arrive during a window are set aside and processed, by the
   normal loop body, when the window ends *)
Fixpoint rrun (c : core) (win : option (list pkt)) (evs : list ev) : core :=
  match evs with
  | [] => match win with None => c | Some acc => norm_pkts c acc end
  | EPkt p :: r =>
    match win with
    | None => rrun (norm_pkt c p) None r
    | Some acc => rrun c (Some (acc ++ [p])) r
    end
  | ELock :: r => rrun c (Some (match win with Some acc => acc | None => [] end)) r
  | EUnlock :: r => rrun (match win with Some acc => norm_pkts c acc | None => c end) None r
  | EAct a :: r => rrun (act c a) win r
  end.

Definition nstep (c : core) (e : ev) : core :=
  match e with EPkt p => norm_pkt c p | EAct a => act c a | _ => c end.

Lemma nstep_map : forall l c, fold_left nstep (map EPkt l) c = norm_pkts c l.
Proof. induction l; intros c; cbn [map fold_left nstep]; [reflexivity | apply IHl]. Qed.

Lemma rrun_unpaused : forall evs c win, rrun c win evs = fold_left nstep (unpaused win evs) c.
Proof.
  induction evs as [|e r IH]; intros c win.
  - cbn [rrun unpaused]. destruct win; [symmetry; apply nstep_map | reflexivity].
  - destruct e; cbn [rrun unpaused].
    + destruct win; [apply IH | cbn [fold_left nstep]; apply IH].
    + apply IH.
    + cbn [fold_left nstep]. apply IH.
    + rewrite fold_left_app. destruct win; [rewrite nstep_map | cbn [fold_left]]; apply IH.
Qed.

Lemma set_core_set_core : forall s a b, set_core (set_core s a) b = set_core s b.
Proof. intros [? ? ? ? ?] a b. reflexivity. Qed.

Lemma crun_lockfree : forall g l s,
  cs_mode s = MNormal -> cs_crashed s = false ->
  Forall (fun e => ev_wf e = true) l -> lockfree l = true ->
  fold_left (cstep g) l s = set_core s (fold_left nstep l (cs_core s)).
Proof.
  intros g l. induction l as [|e r IH]; intros s Hm Hc Hwf Hlf.
  - destruct s; reflexivity.
  - inversion Hwf as [|? ? He Hr]; subst. cbn [lockfree forallb] in Hlf.
    apply andb_true_iff in Hlf as [Hl1 Hl2].
    destruct s as [k m o l cr]. cbn [cs_mode cs_crashed cs_core] in *. subst m cr.
    destruct e; try discriminate; cbn [fold_left nstep].
    + cbn [ev_wf] in He. destruct (item_of_ok p He) as [Hnp _].
      assert (St : cstep g (mk_cstate k MNormal o l false) (EPkt p) = mk_cstate (norm_pkt k p) MNormal o l false).
      { unfold cstep. cbn [cs_crashed cs_mode cs_core]. rewrite Hnp. reflexivity. }
      rewrite St. rewrite (IH (mk_cstate (norm_pkt k p) MNormal o l false) eq_refl eq_refl Hr Hl2). reflexivity.
    + assert (St : cstep g (mk_cstate k MNormal o l false) (EAct a) = mk_cstate (act k a) MNormal o l false) by reflexivity.
      rewrite St. rewrite (IH (mk_cstate (act k a) MNormal o l false) eq_refl eq_refl Hr Hl2). reflexivity.
Qed.

(* ================================================================ simulation *)
Inductive Rel (g : cfg) : cstate -> core -> option (list pkt) -> Prop :=
| RelN c o l : Rel g (mk_cstate c MNormal o l false) c None
| RelL c o l b acc :
    Inv (c_init g) b [] (map item' acc) -> Forall good acc ->
    Rel g (mk_cstate c (MLocked b (length acc)) o l false) c (Some acc)
| RelS c o l b acc held :
    Inv (c_init g) b [] (map item' acc) -> Forall good acc ->
    Forall (fun p => pkt_wf p = true) held ->
    Rel g (mk_cstate c (MStalled b (length acc) held) o l false) c (Some (acc ++ held)).

Definition nonlost (dl : list pkt) : nat := length (filter (fun p => negb (is_invalid p)) dl).

Lemma consume_items : forall acc c, Forall good acc -> fold_left consume (map item' acc) c = norm_pkts c acc.
Proof.
  induction acc as [|p r IH]; intros c H; [reflexivity|].
  inversion H as [|? ? [Hw Hi] Hr]; subst. cbn [map fold_left]. unfold norm_pkts. cbn [fold_left].
  destruct (item_of_ok p Hw) as [_ Hit]. destruct (Hit Hi) as (it & Hio & _ & Hn).
  unfold item'. rewrite Hio, <- Hn. apply IH, Hr.
Qed.

Lemma no_panics : forall held, Forall (fun p => pkt_wf p = true) held -> existsb panics held = false.
Proof.
  induction held as [|p r IH]; intros H; [reflexivity|]. inversion H; subst. cbn [existsb].
  destruct (item_of_ok p H2) as [-> _]. apply IH. assumption.
Qed.

Lemma drain_into_inv : forall g c b acc, Inv (c_init g) b [] (map item' acc) ->
  drain_into c b (length acc) = Some (fold_left consume (map item' acc) c).
Proof.
  intros g c b acc HI. unfold drain_into.
  pose proof (drain_inv _ _ _ _ HI) as D. rewrite map_length in D. rewrite D. reflexivity.
Qed.

Definition locked_of (win : option (list pkt)) : bool := match win with Some _ => true | None => false end.

Lemma sim : forall g, rec_max <= c_init g -> forall evs s c win,
  Rel g s c win -> bracketed (locked_of win) evs = true ->
  Forall (fun e => ev_wf e = true) evs ->
  exists evs' dl, deleted evs evs' dl /\
    cs_crashed (fold_left (cstep g) evs s) = false /\
    cs_mode (fold_left (cstep g) evs s) = MNormal /\
    cs_lost (fold_left (cstep g) evs s) = rev dl ++ cs_lost s /\
    cs_overflows (fold_left (cstep g) evs s) = cs_overflows s + nonlost dl /\
    cs_core (fold_left (cstep g) evs s) = rrun c win evs'.
Proof.
  intros g Hinit. induction evs as [|e r IH]; intros s c win HR Hb Hwf.
  - inversion HR; subst; cbn [locked_of bracketed negb] in Hb; try discriminate.
    exists [], []. split; [constructor|]. cbn [fold_left cs_crashed cs_mode cs_lost cs_overflows cs_core rev app rrun nonlost filter length].
    repeat split; try reflexivity. lia.
  - inversion Hwf as [|? ? He Hr]; subst. cbn [fold_left]. destruct e.
    + (* packet *)
      cbn [ev_wf] in He. destruct (item_of_ok p He) as [Hnp Hit].
      cbn [bracketed] in Hb.
      inversion HR; subst.
      * (* normal mode *)
        assert (St : cstep g (mk_cstate c MNormal o l false) (EPkt p) = mk_cstate (norm_pkt c p) MNormal o l false).
        { unfold cstep. cbn [cs_crashed cs_mode cs_core]. rewrite Hnp. reflexivity. }
        rewrite St.
        destruct (IH _ _ _ (RelN g (norm_pkt c p) o l) Hb Hr) as (evs' & dl & Hd & H1 & H2 & H3 & H4 & H5).
        exists (EPkt p :: evs'), dl. split; [apply del_keep, Hd|]. cbn [rrun]. auto.
      * (* populate loop *)
        destruct (is_invalid p) eqn:Ei.
        { assert (Ep : parse_pkt p = OInvalid).
          { unfold is_invalid in Ei. destruct (parse_pkt p); try discriminate. reflexivity. }
          assert (St : cstep g (mk_cstate c (MLocked b (length acc)) o l false) (EPkt p)
                       = mk_cstate c (MLocked b (length acc)) o (p :: l) false).
          { unfold cstep. cbn [cs_crashed cs_mode cs_core cs_overflows cs_lost]. rewrite Ep. reflexivity. }
          rewrite St.
          destruct (IH _ _ _ (RelL g c o (p :: l) b acc H H0) Hb Hr) as (evs' & dl & Hd & H1 & H2 & H3 & H4 & H5).
          exists evs', (p :: dl). split; [apply del_drop, Hd|].
          cbn [cs_lost cs_overflows] in *. split; [exact H1|]. split; [exact H2|]. split.
          { rewrite H3. cbn [rev]. rewrite <- app_assoc. reflexivity. }
          split; [|exact H5].
          rewrite H4. unfold nonlost. cbn [filter]. rewrite Ei. reflexivity. }
        destruct (Hit eq_refl) as (it & Hio & Hwfi & Hnc).
        assert (Ep : forall (X : Type) (a b0 d : X),
                   match parse_pkt p with OPanic => a | OInvalid => b0 | _ => d end = d).
        { intros X a b0 d. unfold panics in Hnp. unfold is_invalid in Ei.
          destruct (parse_pkt p); try discriminate; reflexivity. }
        destruct (add_step _ _ _ _ it H Hwfi) as [(b' & Ha & HI' & _ & _) | (Ha & _)].
        { (* accepted *)
          assert (St : cstep g (mk_cstate c (MLocked b (length acc)) o l false) (EPkt p)
                       = mk_cstate c (MLocked b' (length (acc ++ [p]))) o l false).
          { unfold cstep. cbn [cs_crashed cs_mode cs_core cs_overflows cs_lost]. rewrite Ep, Hio, Ha.
            rewrite app_length. cbn [length]. rewrite Nat.add_1_r. reflexivity. }
          rewrite St.
          assert (HR' : Rel g (mk_cstate c (MLocked b' (length (acc ++ [p]))) o l false) c (Some (acc ++ [p]))).
          { apply RelL.
            - rewrite map_app. cbn [map]. unfold item' at 2. rewrite Hio. exact HI'.
            - apply Forall_app. split; [assumption | constructor; [split; assumption | constructor]]. }
          destruct (IH _ _ _ HR' Hb Hr) as (evs' & dl & Hd & H1 & H2 & H3 & H4 & H5).
          exists (EPkt p :: evs'), dl. split; [apply del_keep, Hd|]. cbn [rrun]. auto. }
        { (* refused: overflow *)
          assert (St : cstep g (mk_cstate c (MLocked b (length acc)) o l false) (EPkt p)
                       = mk_cstate c (MStalled b (length acc) []) (S o) (p :: l) false).
          { unfold cstep. cbn [cs_crashed cs_mode cs_core cs_overflows cs_lost]. rewrite Ep, Hio, Ha. reflexivity. }
          rewrite St.
          assert (HR' : Rel g (mk_cstate c (MStalled b (length acc) []) (S o) (p :: l) false) c (Some (acc ++ []))).
          { apply RelS; [assumption | assumption | constructor]. }
          cbn [locked_of] in *.
          destruct (IH _ _ _ HR' Hb Hr) as (evs' & dl & Hd & H1 & H2 & H3 & H4 & H5).
          exists evs', (p :: dl). split; [apply del_drop, Hd|].
          cbn [cs_lost cs_overflows] in *. split; [exact H1|]. split; [exact H2|]. split.
          { rewrite H3. cbn [rev]. rewrite <- app_assoc. reflexivity. }
          split; [|rewrite H5, app_nil_r; reflexivity].
          rewrite H4. unfold nonlost. cbn [filter]. rewrite Ei. cbn [negb length]. lia. }
      * (* stalled after an overflow: the source keeps the packet *)
        assert (St : cstep g (mk_cstate c (MStalled b (length acc) held) o l false) (EPkt p)
                     = mk_cstate c (MStalled b (length acc) (held ++ [p])) o l false) by reflexivity.
        rewrite St.
        assert (HR' : Rel g (mk_cstate c (MStalled b (length acc) (held ++ [p])) o l false) c (Some (acc ++ (held ++ [p])))).
        { apply RelS; [assumption | assumption |]. apply Forall_app. split; [assumption | constructor; [exact He | constructor]]. }
        cbn [locked_of] in *.
        destruct (IH _ _ _ HR' Hb Hr) as (evs' & dl & Hd & H3 & H4 & H5 & H6 & H7).
        exists (EPkt p :: evs'), dl. split; [apply del_keep, Hd|]. cbn [rrun].
        rewrite <- app_assoc. auto.
    + (* lock *)
      inversion HR; subst; cbn [locked_of bracketed negb andb] in Hb; try discriminate.
      assert (St : cstep g (mk_cstate c MNormal o l false) ELock
                   = mk_cstate c (MLocked (buf_new (c_init g) (c_limit g)) (length (@nil pkt))) o l false) by reflexivity.
      rewrite St.
      assert (HR' : Rel g (mk_cstate c (MLocked (buf_new (c_init g) (c_limit g)) (length (@nil pkt))) o l false) c (Some [])).
      { apply RelL; [apply inv_new, Hinit | constructor]. }
      destruct (IH _ _ _ HR' Hb Hr) as (evs' & dl & Hd & H1 & H2 & H3 & H4 & H5).
      exists (ELock :: evs'), dl. split; [apply del_keep, Hd|]. cbn [rrun]. auto.
    + (* action of the lock holder *)
      inversion HR; subst; cbn [locked_of bracketed andb] in Hb; try discriminate.
      * assert (St : cstep g (mk_cstate c (MLocked b (length acc)) o l false) (EAct a)
                     = mk_cstate (act c a) (MLocked b (length acc)) o l false) by reflexivity.
        rewrite St.
        destruct (IH _ _ _ (RelL g (act c a) o l b acc H H0) Hb Hr) as (evs' & dl & Hd & H1 & H2 & H3 & H4 & H5).
        exists (EAct a :: evs'), dl. split; [apply del_keep, Hd|]. cbn [rrun]. auto.
      * assert (St : cstep g (mk_cstate c (MStalled b (length acc) held) o l false) (EAct a)
                     = mk_cstate (act c a) (MStalled b (length acc) held) o l false) by reflexivity.
        rewrite St.
        destruct (IH _ _ _ (RelS g (act c a) o l b acc held H H0 H1) Hb Hr) as (evs' & dl & Hd & H3 & H4 & H5 & H6 & H7).
        exists (EAct a :: evs'), dl. split; [apply del_keep, Hd|]. cbn [rrun]. auto.
    + (* unlock: drain *)
      inversion HR; subst; cbn [locked_of bracketed andb] in Hb; try discriminate.
      * assert (St : cstep g (mk_cstate c (MLocked b (length acc)) o l false) EUnlock
                     = mk_cstate (norm_pkts c acc) MNormal o l false).
        { unfold cstep. cbn [cs_crashed cs_mode cs_core cs_overflows cs_lost].
          rewrite (drain_into_inv g c b acc H), consume_items by assumption. reflexivity. }
        rewrite St.
        destruct (IH _ _ _ (RelN g (norm_pkts c acc) o l) Hb Hr) as (evs' & dl & Hd & H1 & H2 & H3 & H4 & H5).
        exists (EUnlock :: evs'), dl. split; [apply del_keep, Hd|]. cbn [rrun]. auto.
      * assert (St : cstep g (mk_cstate c (MStalled b (length acc) held) o l false) EUnlock
                     = mk_cstate (norm_pkts c (acc ++ held)) MNormal o l false).
        { unfold cstep. cbn [cs_crashed cs_mode cs_core cs_overflows cs_lost].
          rewrite (drain_into_inv g c b acc H), consume_items by assumption.
          rewrite (no_panics held H1). unfold norm_pkts. rewrite fold_left_app. reflexivity. }
        rewrite St.
        destruct (IH _ _ _ (RelN g (norm_pkts c (acc ++ held)) o l) Hb Hr) as (evs' & dl & Hd & H3 & H4 & H5 & H6 & H7).
        exists (EUnlock :: evs'), dl. split; [apply del_keep, Hd|]. cbn [rrun]. auto.
Qed.

(* ================================================================ consequences *)
Lemma deleted_wf : forall evs evs' dl, deleted evs evs' dl ->
  Forall (fun e => ev_wf e = true) evs -> Forall (fun e => ev_wf e = true) evs'.
Proof.
  induction 1 as [|e evs evs' l Hd IHd|p evs evs' l Hd IHd]; intros Hf; [constructor | |];
    inversion Hf; subst; [constructor|]; auto.
Qed.

Lemma deleted_in : forall evs evs' dl, deleted evs evs' dl -> forall p, In p dl -> In (EPkt p) evs.
Proof.
  induction 1 as [|e evs evs' l Hd IHd|p evs evs' l Hd IHd]; intros q Hq; [destruct Hq | right; apply IHd, Hq |].
  destruct Hq as [->|Hq]; [left; reflexivity | right; apply IHd, Hq].
Qed.

Lemma deleted_nil : forall evs evs' dl, deleted evs evs' dl -> dl = [] -> evs' = evs.
Proof.
  induction 1 as [|e evs evs' l Hd IHd|p evs evs' l Hd IHd]; intros E;
    [reflexivity | rewrite IHd by exact E; reflexivity | discriminate].
Qed.

Lemma unpaused_wf : forall evs win,
  Forall (fun e => ev_wf e = true) evs ->
  (forall acc, win = Some acc -> Forall (fun p => pkt_wf p = true) acc) ->
  Forall (fun e => ev_wf e = true) (unpaused win evs) /\ lockfree (unpaused win evs) = true.
Proof.
  assert (M : forall acc, Forall (fun p => pkt_wf p = true) acc ->
              Forall (fun e => ev_wf e = true) (map EPkt acc) /\ lockfree (map EPkt acc) = true).
  { induction acc as [|p r IHa]; intros H; [split; [constructor | reflexivity]|].
    inversion H; subst. destruct (IHa H3) as [A B]. split; [constructor; assumption | exact B]. }
  induction evs as [|e r IH]; intros win Hwf Hacc.
  - cbn [unpaused]. destruct win as [acc|]; [apply M, Hacc; reflexivity | split; [constructor | reflexivity]].
  - inversion Hwf as [|? ? He Hr]; subst. destruct e; cbn [unpaused].
    + destruct win as [acc|].
      * apply IH; [exact Hr|]. intros acc' E. injection E as <-.
        apply Forall_app. split; [apply Hacc; reflexivity | constructor; [exact He | constructor]].
      * destruct (IH None Hr) as [A B]; [discriminate|]. split; [constructor; assumption | exact B].
    + apply IH; [exact Hr|]. intros acc' E. injection E as <-.
      destruct win as [acc|]; [apply Hacc; reflexivity | constructor].
    + destruct (IH win Hr Hacc) as [A B]. split; [constructor; [reflexivity | exact A] | exact B].
    + destruct (IH None Hr) as [A B]; [discriminate|].
      assert (M' : Forall (fun e => ev_wf e = true) (match win with Some acc => map EPkt acc | None => [] end)
                   /\ lockfree (match win with Some acc => map EPkt acc | None => [] end) = true).
      { destruct win as [acc|]; [apply M, Hacc; reflexivity | split; [constructor | reflexivity]]. }
      destruct M' as [A' B']. split; [apply Forall_app; split; assumption|].
      unfold lockfree in *. rewrite forallb_app, B', B. reflexivity.
Qed.

Lemma filter_rev_length : forall (f : pkt -> bool) l, length (filter f (rev l)) = length (filter f l).
Proof.
  induction l as [|x r IH]; [reflexivity|]. cbn [rev filter]. rewrite filter_app, app_length, IH.
  cbn [filter]. destruct (f x); cbn [length]; lia.
Qed.

(* the general statement: whatever the schedule, the paused loop ends in normal mode without a
   crash, and its flow log, counters and every status / rotation / query result are those of the
   loop that is never paused, run on the same events minus the packets in cs_lost; the number of
   those that have an IP version equals the number of overflow reports *)
Lemma exact_all : forall g evs,
  rec_max <= c_init g -> bracketed false evs = true -> Forall (fun e => ev_wf e = true) evs ->
  cs_crashed (crun g evs) = false /\ cs_mode (crun g evs) = MNormal /\
  exists evs', deleted evs evs' (rev (cs_lost (crun g evs))) /\
    cs_core (crun g evs) = cs_core (crun g (unpaused None evs')) /\
    cs_overflows (crun g evs) = length (filter (fun p => negb (is_invalid p)) (cs_lost (crun g evs))).
Proof.
  intros g evs Hi Hb Hwf. unfold crun.
  destruct (sim g Hi evs cstate0 core0 None (RelN g core0 0 []) Hb Hwf) as (evs' & dl & Hd & H1 & H2 & H3 & H4 & H5).
  split; [exact H1|]. split; [exact H2|]. exists evs'.
  cbn [cstate0 cs_lost cs_overflows] in H3, H4. rewrite app_nil_r in H3.
  rewrite H3, rev_involutive. split; [exact Hd|]. split.
  - rewrite H5, rrun_unpaused.
    pose proof (deleted_wf _ _ _ Hd Hwf) as Hwf'.
    destruct (unpaused_wf evs' None Hwf') as [A B]; [discriminate|].
    rewrite (crun_lockfree g _ cstate0 eq_refl eq_refl A B). reflexivity.
  - rewrite H4, filter_rev_length. reflexivity.
Qed.

Lemma unpaused_no_actions : forall evs win, no_actions evs = true ->
  unpaused win evs = (match win with Some acc => map EPkt acc | None => [] end) ++ filter is_data evs.
Proof.
  induction evs as [|e r IH]; intros win H.
  - cbn [unpaused filter]. rewrite app_nil_r. reflexivity.
  - unfold no_actions in H. cbn [forallb] in H. apply andb_true_iff in H as [H1 H2]. fold (no_actions r) in H2.
    destruct e; try discriminate; cbn [unpaused filter is_data].
    + destruct win as [acc|].
      * rewrite (IH _ H2), map_app, <- app_assoc. reflexivity.
      * rewrite (IH _ H2). reflexivity.
    + rewrite (IH _ H2). destruct win; reflexivity.
    + rewrite (IH _ H2). reflexivity.
Qed.

Lemma same_as_unpaused : forall g evs,
  rec_max <= c_init g -> bracketed false evs = true -> Forall (fun e => ev_wf e = true) evs ->
  no_invalid evs = true -> cs_overflows (crun g evs) = 0 ->
  cs_crashed (crun g evs) = false /\ cs_mode (crun g evs) = MNormal /\ cs_lost (crun g evs) = [] /\
  cs_core (crun g evs) = cs_core (crun g (unpaused None evs)) /\
  (no_actions evs = true -> unpaused None evs = filter is_data evs).
Proof.
  intros g evs Hi Hb Hwf Hni Hov.
  destruct (exact_all g evs Hi Hb Hwf) as (H1 & H2 & evs' & Hd & Hc & Ho).
  assert (Hl : cs_lost (crun g evs) = []).
  { rewrite Hov in Ho.
    assert (Hall : forall p, In p (cs_lost (crun g evs)) -> negb (is_invalid p) = true).
    { intros p Hp. apply in_rev in Hp. pose proof (deleted_in _ _ _ Hd p Hp) as Hin.
      unfold no_invalid in Hni. rewrite forallb_forall in Hni. exact (Hni _ Hin). }
    destruct (cs_lost (crun g evs)) as [|x r]; [reflexivity|].
    cbn [filter] in Ho. rewrite (Hall x (or_introl eq_refl)) in Ho. discriminate. }
  split; [exact H1|]. split; [exact H2|]. split; [exact Hl|]. split.
  - rewrite Hl in Hd. cbn [rev] in Hd. rewrite (deleted_nil _ _ _ Hd eq_refl) in Hc. exact Hc.
  - intros Hna. rewrite (unpaused_no_actions evs None Hna). reflexivity.
Qed.
