(* C21 / C20 model: the capture pipeline of pkg/capture/capture.go (process / bufferPackets /
   addToFlowLogV4,V6 / status / rotate / flowMap) and pkg/capture/flow.go (FlowLog, Rotate =
   transferAndAggregate, Aggregate, NewFlow / UpdateFlow), AFTER the fix commit
   "fix: buffer IPv6 packets as IPv6 while the capture is locked".
   Executable definitions only.

   Reused models: packet parsing (C19: parse_v4 / parse_v6), direction classification and key
   reversal on hash bytes (C22: classify_bytes / reverse_bytes / is_probably_reverse), the local
   packet buffer, byte-exact (C23: buf_new / buf_add / drain).

   The process loop is a state machine over events
     EPkt p   the source hands out a packet (IP layer bytes, packet type, packet size)
     ELock    a lock request is confirmed (Manager.Status / rotate / GetFlowMaps: capLock.Lock())
     EAct a   what the lock holder does while it holds the lock (status(), rotate(), flowMap())
     EUnlock  capLock.Unlock()
   Outside the model: the channel choreography of the three-point lock, its timeouts, the Go
   scheduler, the memory pool; the capture source (slimcap) is the event list itself. *)
From Coq Require Import List NArith ZArith Bool Arith.
From GoProbe.Base Require Import CorrLib.
From GoProbe.C19 Require Import Model.
From GoProbe.C22 Require Import Model.
From GoProbe.C23 Require Import Model.
Import ListNotations.
Open Scope N_scope.

Definition two64 : N := 18446744073709551616.
Definition add64 (a b : N) : N := (a + b) mod two64.            (* uint64 addition *)
Definition wrap_int (z : Z) : Z :=                              (* Go int (64 bit) increment result *)
  ((z + 9223372036854775808) mod 18446744073709551616 - 9223372036854775808)%Z.

(* ---------------------------------------------------------------- packets *)
Record pkt := mk_pkt { p_data : list N; p_type : N; p_size : N }.

(* what the loop body makes of a packet: ipLayer.Type() = ipLayer[0] >> 4 (panics on an empty
   layer), then ParsePacketV4 / ParsePacketV6 (errno Fragment = 0, Truncated = 2) *)
Inductive outcome :=
| OPanic
| OInvalid                                    (* neither IPv4 nor IPv6: ErrnoInvalidIPHeader = 1 *)
| OErr (v6 : bool) (errno : Z)                (* parser returned errno > ErrnoOK *)
| OFlow (v6 : bool) (h : list N) (aux : N).   (* ErrnoOK = -1 *)

Definition of_parsed (v6 : bool) (r : res parsed) : outcome :=
  match r with
  | Ok Fragment => OErr v6 0%Z
  | Ok Truncated => OErr v6 2%Z
  | Ok (POk h aux) => OFlow v6 h aux
  | _ => OPanic
  end.

Definition parse_pkt (p : pkt) : outcome :=
  match p_data p with
  | [] => OPanic
  | b0 :: _ =>
    let t := b0 / 16 in
    if t =? 4 then of_parsed false (parse_v4 (p_data p))
    else if t =? 6 then of_parsed true (parse_v6 (p_data p))
    else OInvalid
  end.

(* ---------------------------------------------------------------- flows and the flow log *)
Record flow := mk_flow { f_br : N; f_bs : N; f_pr : N; f_ps : N }.   (* types.Counters *)
Definition zero_flow : flow := mk_flow 0 0 0 0.

Definition pkt_outgoing : N := 4.                                    (* capture.PacketOutgoing *)

(* NewFlow *)
Definition new_flow (ty size : N) : flow :=
  if ty =? pkt_outgoing then mk_flow 0 size 0 1 else mk_flow size 0 1 0.
(* Flow.UpdateFlow *)
Definition upd_flow (ty size : N) (f : flow) : flow :=
  if ty =? pkt_outgoing then mk_flow (f_br f) (add64 (f_bs f) size) (f_pr f) (add64 (f_ps f) 1)
  else mk_flow (add64 (f_br f) size) (f_bs f) (add64 (f_pr f) 1) (f_ps f).

(* map[string]*Flow as an association list with unique keys; a new key goes to the front
   (Go map order is not observable: comparisons are order-insensitive) *)
Definition fmap := list (list N * flow).

Fixpoint fm_find (k : list N) (m : fmap) : option flow :=
  match m with
  | [] => None
  | (k', f) :: r => if bytes_eqb k k' then Some f else fm_find k r
  end.
Definition fm_mem (k : list N) (m : fmap) : bool :=
  match fm_find k m with Some _ => true | None => false end.
Fixpoint fm_update (k : list N) (g : flow -> flow) (m : fmap) : fmap :=
  match m with
  | [] => []
  | (k', f) :: r => if bytes_eqb k k' then (k', g f) :: r else (k', f) :: fm_update k g r
  end.

(* EPHash.IsProbablyReverse on the hash bytes *)
Definition ipr_bytes (v6 : bool) (h : list N) : bool :=
  match of_bytes (alen v6) h with Some e => is_probably_reverse e | None => false end.

(* addToFlowLogV4 (v6 = false) / addToFlowLogV6 (v6 = true) on one flow map *)
Definition add_flow (v6 : bool) (m : fmap) (h : list N) (ty size aux : N) : fmap :=
  let r := reverse_bytes (alen v6) h in
  let ins :=
    match classify_bytes v6 h aux with
    | Reverts => (r, new_flow ty size) :: m
    | _ => (h, new_flow ty size) :: m
    end in
  if ipr_bytes v6 h then
    if fm_mem r m then fm_update r (upd_flow ty size) m
    else if fm_mem h m then fm_update h (upd_flow ty size) m
    else ins
  else
    if fm_mem h m then fm_update h (upd_flow ty size) m
    else if fm_mem r m then fm_update r (upd_flow ty size) m
    else ins.

(* ---- aggregation (hashmap.AggFlowMap, keys by types.Key.PutV4String / PutV6String:
   sip | dip | dport | proto, the source port is dropped) *)
Definition agg_key (v6 : bool) (k : list N) : list N :=
  firstn (alen v6) k ++ skipn (alen v6 + 2) k.

Definition flow_add (a b : flow) : flow :=
  mk_flow (add64 (f_br a) (f_br b)) (add64 (f_bs a) (f_bs b)) (add64 (f_pr a) (f_pr b)) (add64 (f_ps a) (f_ps b)).

(* Map.SetOrUpdate *)
Definition agg_put (k : list N) (f : flow) (a : fmap) : fmap :=
  if fm_mem k a then fm_update k (fun g => flow_add g f) a else (k, f) :: a.

Definition active (f : flow) : bool := (0 <? f_pr f) || (0 <? f_ps f).

(* FlowLog.Aggregate / the emitting half of transferAndAggregate, one IP version *)
Definition aggregate (v6 : bool) (m : fmap) : fmap :=
  fold_right (fun kf a => if active (snd kf) then agg_put (agg_key v6 (fst kf)) (snd kf) a else a) [] m.

(* the flow-log half of transferAndAggregate: flows with traffic are reset, idle ones deleted *)
Definition rotate_map (m : fmap) : fmap :=
  map (fun kf => (fst kf, zero_flow)) (filter (fun kf => active (snd kf)) m).

(* ---------------------------------------------------------------- the state of a Capture *)
Record stats := mk_stats {
  s_processed : N;          (* c.stats.Processed (uint64) *)
  s_total : N;              (* c.stats.ProcessedTotal *)
  s_frag : Z; s_inval : Z; s_trunc : Z    (* c.stats.ParsingErrors [3]int *)
}.

Definition agg_out := option (fmap * fmap).      (* nil *AggFlowMap, or (PrimaryMap, SecondaryMap) *)

Record core := mk_core {
  m4 : fmap; m6 : fmap;     (* flowLog.flowMapV4 / flowMapV6 *)
  st : stats;
  o_status : list (N * N * (Z * Z * Z));   (* results of status(), latest first *)
  o_rot : list agg_out;                    (* results of rotate(), latest first *)
  o_query : list agg_out                   (* results of flowMap(), latest first *)
}.

Definition core0 : core := mk_core [] [] (mk_stats 0 0 0 0 0) [] [] [].

Definition with_maps (c : core) (a b : fmap) : core := mk_core a b (st c) (o_status c) (o_rot c) (o_query c).
Definition with_st (c : core) (s : stats) : core := mk_core (m4 c) (m6 c) s (o_status c) (o_rot c) (o_query c).

Definition inc_processed (s : stats) : stats :=
  mk_stats (add64 (s_processed s) 1) (s_total s) (s_frag s) (s_inval s) (s_trunc s).

(* updateParsingErrorCounters: ParsingErrors[errno]++ ; errno.ParsingFailed() (>= 1) also counts as
   processed. errno outside 0..2 would index the array out of range; it cannot occur (the parser
   returns -1, 0 or 2, the loop uses 1) and is a no-op here. *)
Definition count_err (s : stats) (errno : Z) : stats :=
  if (errno =? 0)%Z then mk_stats (s_processed s) (s_total s) (wrap_int (s_frag s + 1)) (s_inval s) (s_trunc s)
  else if (errno =? 1)%Z then inc_processed (mk_stats (s_processed s) (s_total s) (s_frag s) (wrap_int (s_inval s + 1)) (s_trunc s))
  else if (errno =? 2)%Z then inc_processed (mk_stats (s_processed s) (s_total s) (s_frag s) (s_inval s) (wrap_int (s_trunc s + 1)))
  else s.

(* the common tail of the normal loop body and of the drain loop:
   `if errno > ErrnoOK { updateParsingErrorCounters; continue }; Processed++; addToFlowLogV4/V6` *)
Definition consume (c : core) (it : item) : core :=
  if (0 <=? i_errno it)%Z then with_st c (count_err (st c) (i_errno it))
  else
    let c' := with_st c (inc_processed (st c)) in
    if i_v4 it then with_maps c' (add_flow false (m4 c') (i_hash it) (i_type it) (i_size it) (i_aux it)) (m6 c')
    else with_maps c' (m4 c') (add_flow true (m6 c') (i_hash it) (i_type it) (i_size it) (i_aux it)).

(* the arguments of the two buf.Add calls in bufferPackets, literally:
     IPv4: buf.Add(epHash[:], pktType, pktSize, true,  auxInfo, errno)
     IPv6: buf.Add(epHash[:], pktType, pktSize, false, auxInfo, errno)      (true before the fix)
   On a non-OK errno the parser's partially filled hash is buffered; it is never used (consume
   looks at errno first) and is modelled as zeros of the right length. *)
Definition v4_arg_of_v6_branch : bool := false.
Definition item_of (p : pkt) : option item :=
  match parse_pkt p with
  | OFlow false h aux => Some (mk_item h (p_type p) (p_size p) true aux (-1)%Z)
  | OFlow true h aux => Some (mk_item h (p_type p) (p_size p) v4_arg_of_v6_branch aux (-1)%Z)
  | OErr false e => Some (mk_item (repeat 0 13) (p_type p) (p_size p) true 0 e)
  | OErr true e => Some (mk_item (repeat 0 37) (p_type p) (p_size p) v4_arg_of_v6_branch 0 e)
  | _ => None
  end.

(* ipLayer.Type() on an empty layer / the parser on a layer shorter than its fixed header *)
Definition panics (p : pkt) : bool := match parse_pkt p with OPanic => true | _ => false end.

(* the normal loop body for one packet that does not panic *)
Definition norm_pkt (c : core) (p : pkt) : core :=
  match parse_pkt p with
  | OPanic => c
  | OInvalid => with_st c (count_err (st c) 1%Z)     (* Processed++ ; ParsingErrors[InvalidIPHeader]++ *)
  | OErr v6 e => consume c (mk_item [] (p_type p) (p_size p) (negb v6) 0 e)
  | OFlow v6 h aux => consume c (mk_item h (p_type p) (p_size p) (negb v6) aux (-1)%Z)
  end.

(* ---- what the lock holder does *)
Inductive action := AStatus | ARotate | AQuery.

Definition flows_len (c : core) : nat := (length (m4 c) + length (m6 c))%nat.

Definition act (c : core) (a : action) : core :=
  match a with
  | AStatus =>          (* Capture.status(): totals updated, result taken, Processed / ParsingErrors reset *)
    let s := st c in
    let tot := add64 (s_total s) (s_processed s) in
    mk_core (m4 c) (m6 c) (mk_stats 0 tot 0 0 0)
            ((s_processed s, tot, (s_frag s, s_inval s, s_trunc s)) :: o_status c) (o_rot c) (o_query c)
  | ARotate =>          (* Capture.rotate(): nil if the flow log is empty, else FlowLog.Rotate() *)
    if (flows_len c =? 0)%nat then mk_core (m4 c) (m6 c) (st c) (o_status c) (None :: o_rot c) (o_query c)
    else mk_core (rotate_map (m4 c)) (rotate_map (m6 c)) (st c) (o_status c)
                 (Some (aggregate false (m4 c), aggregate true (m6 c)) :: o_rot c) (o_query c)
  | AQuery =>           (* Capture.flowMap(): nil if empty, else FlowLog.Aggregate() *)
    if (flows_len c =? 0)%nat then mk_core (m4 c) (m6 c) (st c) (o_status c) (o_rot c) (None :: o_query c)
    else mk_core (m4 c) (m6 c) (st c) (o_status c) (o_rot c)
                 (Some (aggregate false (m4 c), aggregate true (m6 c)) :: o_query c)
  end.

(* ---------------------------------------------------------------- the process loop *)
Inductive ev := EPkt (p : pkt) | ELock | EAct (a : action) | EUnlock.

Inductive mode :=
| MNormal
| MLocked (b : lbuf) (n : nat)                       (* bufferPackets, populate loop; n records buffered *)
| MStalled (b : lbuf) (n : nat) (held : list pkt).   (* after a refused Add: blocked in ConsumeUnlockRequest;
                                                        the source keeps what arrives (held) *)

Record cstate := mk_cstate {
  cs_core : core;
  cs_mode : mode;
  cs_overflows : nat;         (* ErrLocalBufferOverflow reports *)
  cs_lost : list pkt;         (* packets that never reach the flow log / counters, latest first: those
                                whose Add was refused (reported) and those of neither IP version
                                seen in the populate loop (not tracked, see bufferPackets) *)
  cs_crashed : bool           (* the routine panicked *)
}.

Record cfg := mk_cfg { c_init : nat; c_limit : N }.   (* initialBufferSize (page size), MaxBufferSize *)

Definition cstate0 : cstate := mk_cstate core0 MNormal 0 [] false.

Definition crash (s : cstate) : cstate := mk_cstate (cs_core s) (cs_mode s) (cs_overflows s) (cs_lost s) true.
Definition set_core (s : cstate) (c : core) : cstate := mk_cstate c (cs_mode s) (cs_overflows s) (cs_lost s) (cs_crashed s).
Definition set_mode (s : cstate) (m : mode) : cstate := mk_cstate (cs_core s) m (cs_overflows s) (cs_lost s) (cs_crashed s).

Definition norm_pkts (c : core) (ps : list pkt) : core := fold_left norm_pkt ps c.

(* the drain loop of bufferPackets: buf.Next() until empty, consume each; then buf.Reset() / Release *)
Definition drain_into (c : core) (b : lbuf) (n : nat) : option core :=
  match drain (S n) b with
  | Ok its => Some (fold_left consume its c)
  | _ => None
  end.

Definition cstep (g : cfg) (s : cstate) (e : ev) : cstate :=
  if cs_crashed s then s else
  match e, cs_mode s with
  | EPkt p, MNormal =>
    if panics p then crash s else set_core s (norm_pkt (cs_core s) p)
  | EPkt p, MLocked b n =>
    match parse_pkt p with
    | OPanic => crash s
    | OInvalid =>            (* "We cannot track invalid IP header packets during buffering" *)
      mk_cstate (cs_core s) (cs_mode s) (cs_overflows s) (p :: cs_lost s) false
    | _ =>
      match item_of p with
      | None => crash s
      | Some it =>
        match buf_add b it with
        | Ok (b', true) => set_mode s (MLocked b' (S n))
        | Ok (_, false) =>   (* captureErrors <- ErrLocalBufferOverflow; ConsumeUnlockRequest() blocks *)
          mk_cstate (cs_core s) (MStalled b n []) (S (cs_overflows s)) (p :: cs_lost s) false
        | _ => crash s
        end
      end
    end
  | EPkt p, MStalled b n held => set_mode s (MStalled b n (held ++ [p]))
  | ELock, MNormal => set_mode s (MLocked (buf_new (c_init g) (c_limit g)) 0)
  | ELock, _ => s                                   (* not well-bracketed: ignored *)
  | EAct a, _ => set_core s (act (cs_core s) a)
  | EUnlock, MNormal => s                           (* not well-bracketed: ignored *)
  | EUnlock, MLocked b n =>
    match drain_into (cs_core s) b n with
    | Some c => mk_cstate c MNormal (cs_overflows s) (cs_lost s) false
    | None => crash s
    end
  | EUnlock, MStalled b n held =>
    match drain_into (cs_core s) b n with
    | Some c =>
      if existsb panics held then crash s
      else mk_cstate (norm_pkts c held) MNormal (cs_overflows s) (cs_lost s) false
    | None => crash s
    end
  end.

Definition crun (g : cfg) (evs : list ev) : cstate := fold_left (cstep g) evs cstate0.

(* ---------------------------------------------------------------- vocabulary of the statements *)
(* well-bracketed: lock windows do not nest, actions only inside windows, the trace ends outside *)
Fixpoint bracketed (locked : bool) (evs : list ev) : bool :=
  match evs with
  | [] => negb locked
  | EPkt _ :: r => bracketed locked r
  | ELock :: r => negb locked && bracketed true r
  | EUnlock :: r => locked && bracketed false r
  | EAct _ :: r => locked && bracketed locked r
  end.

Definition is_invalid (p : pkt) : bool := match parse_pkt p with OInvalid => true | _ => false end.

(* the same events with no pause: lock / unlock removed; the actions of a window take effect when
   they happen, the packets that arrived during the window directly after it, in arrival order *)
Fixpoint unpaused (win : option (list pkt)) (evs : list ev) : list ev :=
  match evs with
  | [] => match win with Some acc => map EPkt acc | None => [] end
  | ELock :: r => unpaused (Some (match win with Some acc => acc | None => [] end)) r
  | EUnlock :: r => (match win with Some acc => map EPkt acc | None => [] end) ++ unpaused None r
  | EAct a :: r => EAct a :: unpaused win r
  | EPkt p :: r =>
    match win with
    | None => EPkt p :: unpaused None r
    | Some acc => unpaused (Some (acc ++ [p])) r
    end
  end.

Definition is_data (e : ev) : bool := match e with EPkt _ => true | _ => false end.
Definition no_actions (evs : list ev) : bool := forallb (fun e => match e with EAct _ => false | _ => true end) evs.

(* packets the Go types / the source can deliver: bytes, a uint32 size, and an IP layer long enough
   for the fixed header of its version (the precondition of C19: shorter layers panic the parser) *)
Definition pkt_wf (p : pkt) : bool :=
  forallb is_byte (p_data p) && is_byte (p_type p) && (p_size p <? 4294967296)
  && match p_data p with
     | [] => false
     | b0 :: _ => if b0 / 16 =? 4 then (20 <=? length (p_data p))%nat
                  else if b0 / 16 =? 6 then (40 <=? length (p_data p))%nat else true
     end.
Definition ev_wf (e : ev) : bool := match e with EPkt p => pkt_wf p | _ => true end.

(* evs' is evs with the packet events l deleted *)
Inductive deleted : list ev -> list ev -> list pkt -> Prop :=
| del_nil : deleted [] [] []
| del_keep e evs evs' l : deleted evs evs' l -> deleted (e :: evs) (e :: evs') l
| del_drop p evs evs' l : deleted evs evs' l -> deleted (EPkt p :: evs) evs' (p :: l).

(* total size of the buffer records of the packets between a lock and its unlock never reaches
   the limit: a sufficient, model-independent condition for "no overflow" *)
Definition rec_size (p : pkt) : nat :=
  match parse_pkt p with
  | OFlow false _ _ | OErr false _ => 21
  | OFlow true _ _ | OErr true _ => 45
  | _ => 0
  end.
Fixpoint windows_fit (lim : N) (used : option nat) (evs : list ev) : bool :=
  match evs with
  | [] => true
  | EPkt p :: r =>
    match used with
    | None => windows_fit lim None r
    | Some u => (N.of_nat (u + rec_size p) <? lim) && windows_fit lim (Some (u + rec_size p)%nat) r
    end
  | ELock :: r => windows_fit lim (Some 0%nat) r
  | EUnlock :: r => windows_fit lim None r
  | EAct _ :: r => windows_fit lim used r
  end.

(* every packet of the trace is IPv4 or IPv6 *)
Definition no_invalid (evs : list ev) : bool :=
  forallb (fun e => match e with EPkt p => negb (is_invalid p) | _ => true end) evs.

(* no lock / unlock events *)
Definition lockfree (evs : list ev) : bool :=
  forallb (fun e => match e with ELock | EUnlock => false | _ => true end) evs.
