// C23 correspondence harness: the real capture.LocalBuffer (Add / Next / Reset, growth and size
// limit) driven with generated call sequences; every returned value and the final internal bytes
// and positions are handed to the Coq model (corr) and the FIFO specification (holds).
package main

import (
	"encoding/hex"
	"encoding/json"
	"fmt"
	"strings"

	"verifharness/vhlib"

	"github.com/els0r/goProbe/v4/pkg/capture"
	"github.com/els0r/goProbe/v4/pkg/capture/capturetypes"
)

type opIn struct {
	K     string `json:"k"` // add | next | reset | recycle
	V4    bool   `json:"v4,omitempty"`
	Hash  string `json:"hash,omitempty"` // hex
	Type  uint8  `json:"type,omitempty"`
	Size  uint32 `json:"size,omitempty"`
	Aux   uint8  `json:"aux,omitempty"`
	Errno int8   `json:"errno,omitempty"`
}

type input struct {
	Init  int    `json:"init"`  // initial buffer size (the page size in production)
	Limit int64  `json:"limit"` // MaxBufferSize
	Ops   []opIn `json:"ops"`
}

const (
	h4      = capturetypes.EPHashSizeV4
	h6      = capturetypes.EPHashSizeV6
	recMax  = h6 + 8
)

var (
	sizes  = []uint32{0, 1, 255, 256, 1500, 65535, 65536, 1<<24 - 1, 1 << 24, 1<<24 + 1500, 1 << 31, 1<<32 - 2, 1<<32 - 1, 0x01000000, 0xff000000, 0x00ffffff}
	bytesB = []uint8{0, 1, 2, 4, 127, 128, 254, 255}
	errnos = []int8{-128, -127, -1, 0, 1, 2, 5, 8, 126, 127}
	inits  = []int{45, 46, 47, 53, 64, 66, 89, 90, 100, 128}
)

func hashOf(r *vhlib.Rand, n int) string {
	b := make([]byte, n)
	switch r.Intn(6) {
	case 0: // all zero (looks like IPv4 tags)
	case 1:
		for i := range b {
			b[i] = 1 // looks like IPv6 tags
		}
	case 2:
		for i := range b {
			b[i] = 0xff
		}
	default:
		for i := range b {
			b[i] = byte(r.U64())
		}
	}
	return hex.EncodeToString(b)
}

func genAdd(r *vhlib.Rand, v4 bool, malformed bool) opIn {
	n := h6
	if v4 {
		n = h4
	}
	if malformed {
		if r.Bool() {
			n = r.Intn(n) // shorter (executed only when the record certainly fits, see run)
		} else {
			n = n + 1 + r.Intn(12)
		}
	}
	o := opIn{K: "add", V4: v4, Hash: hashOf(r, n)}
	o.Type = vhlib.Pick(r, bytesB)
	o.Aux = vhlib.Pick(r, bytesB)
	o.Errno = vhlib.Pick(r, errnos)
	o.Size = vhlib.Pick(r, sizes)
	if r.Chance(25) {
		o.Type, o.Aux, o.Errno, o.Size = uint8(r.U64()), uint8(r.U64()), int8(r.U64()), uint32(r.U64())
	}
	return o
}

func fixedAdd(v4 bool, seed byte, typ uint8, size uint32, aux uint8, errno int8) opIn {
	n := h6
	if v4 {
		n = h4
	}
	b := make([]byte, n)
	for i := range b {
		b[i] = seed + byte(i)*7
	}
	return opIn{K: "add", V4: v4, Hash: hex.EncodeToString(b), Type: typ, Size: size, Aux: aux, Errno: errno}
}

func rep(o opIn, n int) []opIn {
	out := make([]opIn, n)
	for i := range out {
		out[i] = o
	}
	return out
}

var next = opIn{K: "next"}
var reset = opIn{K: "reset"}
var recycle = opIn{K: "recycle"}

func cat(xs ...[]opIn) []opIn {
	var out []opIn
	for _, x := range xs {
		out = append(out, x...)
	}
	return out
}

// hand-picked boundary histories
func fixedCases() []input {
	a4 := fixedAdd(true, 1, 2, 1500, 7, -1)
	a6 := fixedAdd(false, 0x80, 3, 99, 8, 5)
	big4 := fixedAdd(true, 9, 255, 1<<24+5, 255, 127)
	max6 := fixedAdd(false, 3, 0, 1<<32-1, 0, -128)
	return []input{
		// size of an IPv4 item followed by an IPv6 item (tag 1 lands on the top size byte when records are 1 short)
		{Init: 64, Limit: 1000, Ops: []opIn{a4, a6, next, next, next}},
		// two buffering cycles on the same pool element: fill to the limit (64 -> 128), recycle (the element
		// keeps capacity 128, length back to 64), refill past the initial size: must grow again, not refuse
		{Init: 64, Limit: 128, Ops: []opIn{a6, a6, a4, a4, next, recycle, a6, a6, a4, next, next, next, next}},
		{Init: 45, Limit: 180, Ops: cat(rep(a6, 4), []opIn{recycle}, rep(a4, 7), []opIn{a6, recycle, a6, a6}, rep(next, 3))},
		// size >= 2^24 followed by an IPv4 item (tag 0)
		{Init: 64, Limit: 1000, Ops: []opIn{big4, a4, next, next}},
		{Init: 100, Limit: 1 << 26, Ops: []opIn{max6, max6, a6, a4, next, next, next, next, next}},
		// limits that leave less than one record after the last growth step
		{Init: 64, Limit: 70, Ops: cat(rep(a4, 5), rep(next, 4))},
		{Init: 64, Limit: 82, Ops: cat(rep(a4, 5), rep(next, 5))},
		{Init: 64, Limit: 84, Ops: cat(rep(a4, 5), rep(next, 5))},
		{Init: 64, Limit: 85, Ops: cat(rep(a4, 5), rep(next, 5))},
		// limit = initial size: fill to refusal, drain, still refused, reset, accepted again
		{Init: 90, Limit: 90, Ops: cat(rep(a6, 3), rep(next, 3), []opIn{a4, reset, a4, next, next})},
		// limit below the initial size
		{Init: 100, Limit: 50, Ops: cat(rep(a4, 6), rep(next, 6))},
		// repeated growth 45 -> 90 -> 180 -> 360
		{Init: 45, Limit: 1 << 40, Ops: cat(rep(a6, 2), rep(a4, 3), rep(a6, 2), rep(next, 8))},
		// field boundary values
		{Init: 128, Limit: 4096, Ops: []opIn{fixedAdd(true, 0, 0, 0, 0, 0), fixedAdd(true, 255, 255, 1<<32-1, 255, -128),
			fixedAdd(false, 0, 1, 1<<24-1, 128, 127), fixedAdd(true, 1, 4, 1<<31, 127, -1), next, next, next, next, next}},
		// empty buffer calls
		{Init: 64, Limit: 64, Ops: []opIn{next, reset, next, a4, next, next, reset, next}},
		// interleaving
		{Init: 64, Limit: 200, Ops: []opIn{a4, next, a6, a4, next, a6, next, next, next, a4, next}},
		// exactly full: 3 x 21 + 1 = 64
		{Init: 64, Limit: 64, Ops: cat(rep(a4, 4), rep(next, 4))},
		// outside the hypotheses: initial size below one record; hash slices of other lengths
		{Init: 44, Limit: 1000, Ops: []opIn{a6, a4, a6, next, next, next}},
		{Init: 128, Limit: 1000, Ops: []opIn{{K: "add", V4: true, Hash: "aabbcc", Type: 1, Size: 2, Aux: 3, Errno: 4}, a4,
			{K: "add", V4: false, Hash: strings.Repeat("5a", 40), Type: 1, Size: 2, Aux: 3, Errno: 4}, next, next, next}},
	}
}

func gen(r *vhlib.Rand, i int, o vhlib.Opts) any {
	fixed := fixedCases()
	if i < len(fixed) {
		return fixed[i]
	}
	in := input{}
	in.Init = vhlib.Pick(r, inits)
	if r.Chance(4) {
		in.Init = vhlib.Pick(r, []int{1, 8, 21, 22, 44})
	}
	d := int64(in.Init)
	switch r.Intn(10) {
	case 0:
		in.Limit = d - int64(r.Intn(in.Init))
	case 1:
		in.Limit = d
	case 2, 3:
		in.Limit = d + 1 + int64(r.Intn(2*recMax)) // less than / around one or two records of head room
	case 4:
		in.Limit = 2*d + int64(r.Intn(5)) - 2
	case 5:
		in.Limit = vhlib.Pick(r, []int64{3, 4}) * d
	case 6:
		in.Limit = 4*d + int64(r.Intn(recMax+2))
	case 7:
		in.Limit = int64(150 + r.Intn(300))
	case 8:
		in.Limit = vhlib.Pick(r, []int64{1 << 12, 1 << 26, 1 << 40, 1<<62 - 1})
	default:
		in.Limit = d + int64(r.Intn(4*in.Init))
	}
	if in.Limit < 1 {
		in.Limit = 1
	}
	nOps := 5 + r.Intn(9)
	if o.Tier == "thorough" {
		nOps = 5 + r.Intn(14)
	}
	if o.Search {
		nOps = 8 + r.Intn(16)
	}
	malformed := r.Chance(5)
	p4 := vhlib.Pick(r, []int{0, 30, 50, 70, 100})
	style := r.Intn(4)
	recP := vhlib.Pick(r, []int{0, 0, 8, 15}) // recycling of the pool element between buffering cycles
	pending := 0
	for k := 0; k < nOps; k++ {
		var addP int
		switch style {
		case 0: // fill, then drain
			addP = 100
			if k >= (nOps*3)/5 {
				addP = 0
			}
		case 1:
			addP = 65
		case 2:
			addP = 50
		default: // fill, drain, fill, drain
			addP = 90
			if (k/4)%2 == 1 {
				addP = 10
			}
		}
		switch {
		case r.Chance(3):
			in.Ops = append(in.Ops, reset)
			pending = 0
		case r.Chance(recP):
			in.Ops = append(in.Ops, recycle)
			pending = 0
		case r.Chance(addP):
			in.Ops = append(in.Ops, genAdd(r, r.Chance(p4), malformed && r.Chance(40)))
			pending++
		default:
			in.Ops = append(in.Ops, next)
			if pending > 0 {
				pending--
			}
		}
	}
	// drain what is left (bounded) so that late items are observed too
	for k := 0; k < pending && k < 6; k++ {
		in.Ops = append(in.Ops, next)
	}
	return in
}

func coqItem(ctor string, v4 bool, hash []byte, typ uint8, size uint32, aux uint8, errno int8) string {
	return fmt.Sprintf("%s %s \"%s\" %d %d %d %s", ctor, vhlib.CoqBool(v4), hex.EncodeToString(hash), typ, size, aux, vhlib.CoqZ(int64(errno)))
}

type obsOut struct {
	Op    string `json:"op"`
	OK    *bool  `json:"ok,omitempty"`
	V4    bool   `json:"v4,omitempty"`
	Hash  string `json:"hash,omitempty"`
	Type  uint8  `json:"type,omitempty"`
	Size  uint32 `json:"size,omitempty"`
	Aux   uint8  `json:"aux,omitempty"`
	Errno int8   `json:"errno,omitempty"`
}

func run(raw json.RawMessage, o vhlib.Opts) (*vhlib.Case, error) {
	var in input
	if err := json.Unmarshal(raw, &in); err != nil {
		return nil, err
	}
	if in.Init < 1 || in.Init > 4096 || in.Limit < 1 {
		return nil, fmt.Errorf("bad init/limit %d/%d", in.Init, in.Limit)
	}
	var buf *capture.LocalBuffer
	if p, msg := vhlib.Recover(func() { buf = capture.VerifC23NewLocalBuffer(in.Init, int(in.Limit)) }); p {
		return nil, fmt.Errorf("constructing the buffer panicked: %s", msg)
	}

	c := &vhlib.Case{}
	var coqOps, coqObs []string
	var observed []obsOut
	tags := map[string]bool{}
	wf := in.Init >= recMax
	if !wf {
		tags["outside:init<record"] = true
	}
	accepted, got, refused := 0, 0, 0
	panicked := false
	prevAccV4, prevAcc := false, false
	startLen := in.Init

	for _, op := range in.Ops {
		switch op.K {
		case "add":
			hash, err := hex.DecodeString(op.Hash)
			if err != nil {
				return nil, err
			}
			hs := h6
			if op.V4 {
				hs = h4
			}
			if len(hash) != hs {
				wf = false
				tags["outside:hash-length"] = true
			}
			if len(hash) < hs {
				// a hash slice shorter than the version's hash size makes Add under-estimate the room it
				// needs; execute it only when the record certainly fits without growing (otherwise Go may
				// write through unsafe past the slice, which neither panics nor is defined) - else call Next
				_, ln, w, _ := buf.VerifC23DumpCap()
				if w+recMax+8 >= ln {
					op = next
				}
			}
			if op.K == "add" {
				var ok bool
				p, _ := vhlib.Recover(func() {
					ok = buf.Add(hash, op.Type, op.Size, op.V4, op.Aux, capturetypes.ParsingErrno(op.Errno))
				})
				coqOps = append(coqOps, coqItem("A", op.V4, hash, op.Type, op.Size, op.Aux, op.Errno))
				if p {
					panicked = true
					coqObs = append(coqObs, "P")
					observed = append(observed, obsOut{Op: "add-panic"})
					break
				}
				okc := ok
				observed = append(observed, obsOut{Op: "add", OK: &okc})
				if ok {
					coqObs = append(coqObs, "Y")
					accepted++
					if prevAcc && prevAccV4 && !op.V4 {
						tags["v4-then-v6"] = true
					}
					if prevAcc && !prevAccV4 && op.V4 {
						tags["v6-then-v4"] = true
					}
					prevAcc, prevAccV4 = true, op.V4
					if op.Size >= 1<<24 {
						tags["size>=2^24"] = true
					}
					if op.Size == 1<<32-1 {
						tags["size=2^32-1"] = true
					}
				} else {
					coqObs = append(coqObs, "Rf")
					refused++
					tags["refusal"] = true
				}
				break
			}
			fallthrough
		case "next":
			var (
				h     []byte
				typ   byte
				size  uint32
				v4    bool
				aux   byte
				errno capturetypes.ParsingErrno
				ok    bool
			)
			p, _ := vhlib.Recover(func() {
				var hh []byte
				hh, typ, size, v4, aux, errno, ok = buf.Next()
				h = append([]byte(nil), hh...) // the returned slice aliases the buffer
			})
			coqOps = append(coqOps, "Nx")
			if p {
				panicked = true
				coqObs = append(coqObs, "P")
				observed = append(observed, obsOut{Op: "next-panic"})
				break
			}
			if !ok {
				coqObs = append(coqObs, "E")
				observed = append(observed, obsOut{Op: "next-empty"})
				tags["next-empty"] = true
			} else {
				got++
				coqObs = append(coqObs, coqItem("G", v4, h, typ, size, aux, int8(errno)))
				observed = append(observed, obsOut{Op: "next", V4: v4, Hash: hex.EncodeToString(h), Type: typ, Size: size, Aux: aux, Errno: int8(errno)})
			}
		case "recycle":
			buf.VerifC23Recycle(in.Init)
			prevAcc = false
			coqOps = append(coqOps, "Rc")
			coqObs = append(coqObs, "Z1")
			observed = append(observed, obsOut{Op: "recycle"})
			tags["recycle"] = true
			if _, ln, _, _ := buf.VerifC23DumpCap(); ln < cap0(buf) {
				tags["recycle-with-spare-capacity"] = true
			}
		case "reset":
			buf.Reset()
			prevAcc = false
			coqOps = append(coqOps, "Rs")
			coqObs = append(coqObs, "Z0")
			observed = append(observed, obsOut{Op: "reset"})
			tags["reset"] = true
		default:
			return nil, fmt.Errorf("unknown op %q", op.K)
		}
		if panicked {
			break
		}
	}

	final := "None"
	obsMap := map[string]any{"calls": observed}
	if panicked {
		tags["panic"] = true
	} else {
		d, ln, w, rd := buf.VerifC23DumpCap()
		trimmed := d
		for len(trimmed) > 0 && trimmed[len(trimmed)-1] == 0 {
			trimmed = trimmed[:len(trimmed)-1]
		}
		final = fmt.Sprintf("(Some (\"%s\"%%string, %d%%N, %d%%N, %d%%N, %d%%N))", hex.EncodeToString(trimmed), len(d), ln, w, rd)
		obsMap["data"] = hex.EncodeToString(d)
		obsMap["len"] = ln
		obsMap["write_pos"] = w
		obsMap["read_pos"] = rd
		if len(d) > startLen {
			tags["growth"] = true
		}
		if len(d) > 2*startLen {
			tags["growth>1"] = true
		}
	}
	switch {
	case in.Limit < int64(in.Init):
		tags["limit<init"] = true
	case in.Limit == int64(in.Init):
		tags["limit=init"] = true
	case in.Limit < int64(in.Init)+recMax:
		tags["limit<init+record"] = true
	case in.Limit >= 1<<26:
		tags["limit-huge"] = true
	default:
		tags["limit-mid"] = true
	}
	for t := range tags {
		c.Tags = append(c.Tags, t)
	}
	c.Tags = vhlib.SortedCopy(c.Tags)
	c.Observed = obsMap
	c.Nontrivial = wf && accepted > 0 && got > 0
	c.Coq = fmt.Sprintf("mk_case %d %d %s %s %s", in.Init, in.Limit, vhlib.CoqList(coqOps), vhlib.CoqList(coqObs), final)
	return c, nil
}

func cap0(b *capture.LocalBuffer) int {
	m, _, _, _ := b.VerifC23DumpCap()
	return len(m)
}

func main() { vhlib.Main(gen, run) }
