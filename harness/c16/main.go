// C16 correspondence harness: interface selection of a query.
// Runs the real parseIfaceListWithCommaSeparatedString / parseIfaceListWithRegex (through the
// `verif` export of package engine) and types.IsIfaceArgumentRegExp on generated
// (existing interfaces, argument) pairs, and QueryRunner.Run on tiny databases.
package main

import (
	"context"
	"encoding/hex"
	"encoding/json"
	"fmt"
	"os"
	"path/filepath"
	"regexp"
	"sort"
	"strconv"
	"strings"

	"verifharness/vhlib"

	"github.com/els0r/goProbe/v4/pkg/goDB/engine"
	"github.com/els0r/goProbe/v4/pkg/query"
	"github.com/els0r/goProbe/v4/pkg/types"
)

type input struct {
	Kind   string   `json:"kind"` // list | regex | run
	All    []string `json:"all"`
	Arg    string   `json:"arg,omitempty"`
	ArgHex string   `json:"arg_hex,omitempty"` // used instead of arg when it is not printable ASCII
	Src    string   `json:"src,omitempty"`     // which generator stream produced it
}

func (in *input) arg() string {
	if in.ArgHex != "" {
		b, _ := hex.DecodeString(in.ArgHex)
		return string(b)
	}
	return in.Arg
}

func mk(kind, src string, all []string, arg string) input {
	in := input{Kind: kind, All: all, Src: src}
	if vhlib.IsPlain(arg) {
		in.Arg = arg
	} else {
		in.ArgHex = hex.EncodeToString([]byte(arg))
	}
	if in.All == nil {
		in.All = []string{}
	}
	return in
}

// ---------------------------------------------------------------- generators

var alphabet = []string{"a", "b", "c", "!a", "!b", "any", "zz"}
var universe = []string{"a", "b", "c"}

const maxLen = 5

// number of lists of length <= maxLen over the alphabet
func numLists() int {
	n, p := 0, 1
	for l := 0; l <= maxLen; l++ {
		n += p
		p *= len(alphabet)
	}
	return n
}

// the k-th list (shortest first)
func nthList(k int) []string {
	p := 1
	for l := 0; l <= maxLen; l++ {
		if k < p {
			out := make([]string, l)
			for j := l - 1; j >= 0; j-- {
				out[j] = alphabet[k%len(alphabet)]
				k /= len(alphabet)
			}
			return out
		}
		k -= p
		p *= len(alphabet)
	}
	return nil
}

func subset(mask int, from []string) []string {
	out := []string{}
	for j, s := range from {
		if mask&(1<<j) != 0 {
			out = append(out, s)
		}
	}
	return out
}

// EnumSize is the size of the exhaustive domain: all lists x all subsets of {a,b,c}
func enumSize() int { return numLists() * (1 << len(universe)) }

func enumCase(e int) input {
	l := nthList(e / (1 << len(universe)))
	return mk("list", "enum", subset(e%(1<<len(universe)), universe), strings.Join(l, ","))
}

var boundary = []input{
	mk("list", "boundary", []string{"eth0"}, "eth0,eth0,!eth0"),
	mk("list", "boundary", []string{"a", "b"}, "a,a,b,!a"),
	mk("list", "boundary", []string{"a", "b"}, "a,a,b"),
	mk("list", "boundary", []string{"a", "b", "c"}, "any,!a,!b"),
	mk("list", "boundary", []string{"a", "b", "c"}, "any,!a,!a"),
	mk("list", "boundary", []string{"a", "b", "c"}, "a,b,c,!a,!b,!c"),
	mk("list", "boundary", []string{"a", "b", "c"}, "c,b,a,!b"),
	mk("list", "boundary", []string{"a", "b", "c"}, "!a"),
	mk("list", "boundary", []string{"a", "b", "c"}, "!a,any"),
	mk("list", "boundary", []string{"a", "b", "c"}, "b,any,!b"),
	mk("list", "boundary", []string{"a", "b", "c"}, "ANY"),
	mk("list", "boundary", []string{"a", "b", "c"}, "Any,!c"),
	mk("list", "boundary", []string{"a", "any"}, "!any,any"),
	mk("list", "boundary", []string{"a", "b", "c"}, ""),
	mk("list", "boundary", []string{"a", "b", "c"}, ","),
	mk("list", "boundary", []string{"a", "b", "c"}, "a,"),
	mk("list", "boundary", []string{"a", "b", "c"}, "a,,b"),
	mk("list", "boundary", []string{"a", "b", "c"}, "!"),
	mk("list", "boundary", []string{"a", "b", "c"}, "!!a"),
	mk("list", "boundary", []string{"a", "b", "c"}, "a, b"),
	mk("list", "boundary", []string{"a", "b", "c"}, "a\n"),
	mk("list", "boundary", []string{"a", "b", "c"}, "a\xc3\xa4"),
	mk("list", "boundary", []string{"abcdefghijklmno"}, "abcdefghijklmno,!abcdefghijklmno"),
	mk("list", "boundary", []string{"abcdefghijklmnop"}, "abcdefghijklmnop"),
	mk("list", "boundary", []string{"a.b:c_d-e"}, "a.b:c_d-e,Z9"),
	mk("list", "boundary", []string{"a", "b"}, "/a/"),
	mk("list", "boundary", []string{}, "any"),
	mk("list", "boundary", []string{}, "a,!a"),
	mk("list", "boundary", []string{"c", "a", "b"}, "any,!a"),
	mk("regex", "boundary", []string{"eth0", "wlan0", "eth2", "eth3"}, "/eth[0-2]/"),
	mk("regex", "boundary", []string{"eth0", "wlan0", "eth2", "t4", "ignored"}, "/eth[0-2]|wlan0|t4/"),
	mk("regex", "boundary", []string{"a", "b"}, "//"),
	mk("regex", "boundary", []string{"a", "b"}, "/"),
	mk("regex", "boundary", []string{"a", "b"}, ""),
	mk("regex", "boundary", []string{"a", "b"}, "/(/"),
	mk("regex", "boundary", []string{"a", "b"}, "/a"),
	mk("regex", "boundary", []string{"a", "b"}, "a/"),
	mk("regex", "boundary", []string{"a", "b", "a/b"}, "/a/b/"),
	mk("regex", "boundary", []string{"a", "b"}, "/a\nb/"),
	mk("regex", "boundary", []string{"a", "b"}, "/^(a|b)$/"),
	mk("regex", "boundary", []string{"a", "b"}, "/[^a]/"),
	mk("regex", "boundary", []string{"a", "b"}, "a,b"),
	mk("regex", "boundary", []string{"br-eth0", "eth0", "eth1", "veth0", "wlan0"}, "/eth[0-9]/"),
	mk("regex", "boundary", []string{"br-eth0", "eth0", "eth1", "veth0", "wlan0"}, "/0/"),
	mk("regex", "boundary", []string{"br-eth0", "eth0", "eth10", "veth0", "wlan0"}, "/eth0$/"),
	mk("regex", "boundary", []string{"br-eth0", "eth0", "eth10", "veth0", "wlan0"}, "/^eth0/"),
	mk("regex", "boundary", []string{"br-eth0", "eth0", "eth10", "veth0", "wlan0"}, "/^eth0$/"),
	mk("regex", "boundary", []string{"br-eth0", "eth0", "eth10", "veth0", "wlan0"}, "/eth1/"),
	mk("regex", "boundary", []string{"br-eth0", "eth0", "eth10", "veth0", "wlan0"}, "/[0-9]$/"),
	mk("regex", "boundary", []string{"br-eth0", "eth0", "eth10", "veth0", "wlan0"}, "/lan/"),
	mk("regex", "boundary", []string{"br-eth0", "eth0", "eth10", "veth0", "wlan0"}, "/th|wl/"),
	mk("run", "boundary", []string{"br-eth0", "eth0", "eth1", "veth0", "wlan0"}, "/eth[0-9]/"),
	mk("run", "boundary", []string{"a", "b", "c"}, "a,c"),
	mk("run", "boundary", []string{"a", "b", "c"}, "any,!b"),
	mk("run", "boundary", []string{"a", "b", "c"}, "/[ab]/"),
	mk("run", "boundary", []string{"a", "b", "c"}, "a,a,!a"),
	mk("run", "boundary", []string{"a", "b", "c"}, "a,a,b,!a"),
	mk("run", "boundary", []string{"a", "b", "c"}, "b,b"),
}

var wildNames = []string{"a", "b", "c", "!a", "!b", "!c", "any", "ANY", "Any", "!any", "zz", "!zz", "eth0", "!eth0", "eth0", "a", "!a", "abcdefghijklmno", "!abcdefghijklmno", "abcdefghijklmnop"}
var wildAll = []string{"a", "b", "c", "eth0", "any", "zz", "abcdefghijklmno"}
var regexes = []string{"a", "^a$", "[ab]", "[^a]", "eth[0-2]", "a|c", ".*", "", "^$", "(", "[", "a{2}", "\\d", "^e", "b$", ".", "a/b", "x*", "(?i)A", "*"}

// interface names that embed other names: an unanchored expression matches in the middle of a name
var nestedAll = []string{"eth0", "eth1", "eth10", "veth0", "br-eth0", "wlan0", "lan", "t4", "0"}
var nestedRegexes = []string{"eth[0-9]", "eth0", "eth1", "eth0$", "^eth0", "^eth0$", "^eth", "eth", "0", "1", "0$", "^0", "[0-9]", "[0-9]$",
	"[0-9][0-9]", "lan", "lan0", "^lan", "lan$", "th", "th0", "h[01]", "e", "v?eth0", "(v|br-)eth0", "eth0|wlan0", "th|wl", "-", "br-", "t4",
	"t", "t[0-9]", "[a-z]+0", "[a-z]+[0-9]$", "^[a-z]+[0-9]$", "eth.", "eth..", ".eth", "n", "n0$", "w.*0", "\\d$", "h1", "(?i)ETH"}

var malformed = []string{"", ",", "a,", ",a", "a,,b", "!", "!!a", "a b", " a", "a ", "a\n", "a\tb", "a\xff", "\xc3\xa4", "a;b", "a/b", "abcdefghijklmnop",
	"!abcdefghijklmnop", "a,!", "any,", "a,b,", "/", "//", "/a/", "!/a/", "a!", "a!b", "*", "a,*", "\x00"}

func shuffled(r *vhlib.Rand, xs []string) []string {
	out := append([]string{}, xs...)
	for i := len(out) - 1; i > 0; i-- {
		j := r.Intn(i + 1)
		out[i], out[j] = out[j], out[i]
	}
	return out
}

func genMixed(r *vhlib.Rand, o vhlib.Opts) input {
	p := r.Intn(100)
	wild := 22
	if o.Search {
		wild = 55
	}
	switch {
	case p < wild:
		// longer lists, more names, upper-case any, permuted order of the existing interfaces
		n := 1 + r.Intn(8)
		if o.Search {
			n = 1 + r.Intn(14)
		}
		l := make([]string, n)
		for j := range l {
			l[j] = vhlib.Pick(r, wildNames)
		}
		all := shuffled(r, subset(r.Intn(1<<len(wildAll)), wildAll))
		return mk("list", "wild", all, strings.Join(l, ","))
	case p < wild+12:
		all := shuffled(r, subset(r.Intn(1<<len(wildAll)), wildAll))
		re := vhlib.Pick(r, regexes)
		if r.Chance(65) {
			// names embedding other names x expressions with a literal prefix / anchors / digits / classes
			all = shuffled(r, subset(1+r.Intn(1<<len(nestedAll)-1), nestedAll))
			re = vhlib.Pick(r, nestedRegexes)
		}
		arg := "/" + re + "/"
		switch r.Intn(12) {
		case 0:
			arg = re
		case 1:
			arg = "/" + re
		case 2:
			arg = re + "/"
		case 3:
			arg = "/" + re + "\n/"
		}
		return mk("regex", "regex", all, arg)
	case p < wild+22:
		all := subset(r.Intn(8), universe)
		arg := vhlib.Pick(r, malformed)
		if r.Chance(40) {
			arg = strings.Join(nthList(r.Intn(numLists())), ",") + "," + arg
		}
		return mk(vhlib.Pick(r, []string{"list", "list", "list", "regex"}), "malformed", all, arg)
	case p < wild+25:
		l := nthList(r.Intn(numLists()))
		arg := strings.Join(l, ",")
		if r.Chance(25) {
			arg = "/" + vhlib.Pick(r, regexes) + "/"
		}
		return mk("run", "run", subset(r.Intn(8), universe), arg)
	default:
		return enumCase(r.Intn(enumSize()))
	}
}

func gen(r *vhlib.Rand, i int, o vhlib.Opts) any {
	if i < len(boundary) {
		return boundary[i]
	}
	i -= len(boundary)
	if o.Tier == "thorough" && !o.Search {
		// the complete domain: every list of length <= 5 over the alphabet x every subset of {a,b,c}
		if i < enumSize() {
			return enumCase(i)
		}
	}
	return genMixed(r, o)
}

// ---------------------------------------------------------------- Coq printers (string_scope is open)

func coqStr(s string) string {
	if vhlib.IsPlain(s) {
		return "\"" + strings.ReplaceAll(s, "\"", "\"\"") + "\""
	}
	xs := make([]string, len(s))
	for i := 0; i < len(s); i++ {
		xs[i] = strconv.Itoa(int(s[i]))
	}
	return "(str_of_bytes [" + strings.Join(xs, ";") + "]%N)"
}

func coqStrs(ss []string) string {
	xs := make([]string, len(ss))
	for i, s := range ss {
		xs[i] = coqStr(s)
	}
	return "[" + strings.Join(xs, ";") + "]"
}

func coqRes(class string, l []string) string {
	switch class {
	case "ok":
		return "(Ok " + coqStrs(l) + ")"
	case "err":
		return "Err"
	}
	return "Panic"
}

// ---------------------------------------------------------------- running the implementation

type lister struct{ all []string }

// like info.GetInterfaces: a fresh slice on every call
func (l lister) ListInterfaces() ([]string, error) { return append([]string{}, l.all...), nil }

func call(f func() ([]string, error)) (class string, out []string, msg string) {
	var err error
	panicked, pmsg := vhlib.Recover(func() { out, err = f() })
	switch {
	case panicked:
		return "panic", nil, pmsg
	case err != nil:
		return "err", nil, err.Error()
	}
	if out == nil {
		out = []string{}
	}
	return "ok", out, ""
}

func hasDup(ss []string) bool {
	m := map[string]bool{}
	for _, s := range ss {
		if m[s] {
			return true
		}
		m[s] = true
	}
	return false
}

var runSeq int

func run(raw json.RawMessage, o vhlib.Opts) (*vhlib.Case, error) {
	var in input
	if err := json.Unmarshal(raw, &in); err != nil {
		return nil, err
	}
	arg := in.arg()
	if hasDup(in.All) {
		return nil, fmt.Errorf("generator produced duplicate existing interfaces: %v", in.All)
	}
	c := &vhlib.Case{Tags: []string{in.Kind, "src:" + in.Src}}
	isre := types.IsIfaceArgumentRegExp(arg)
	toks := strings.Split(arg, ",")
	switch in.Kind {
	case "list":
		class, out, msg := call(func() ([]string, error) {
			return engine.VerifParseIfaceListWithCommaSeparatedString(lister{in.All}, arg)
		})
		c.Observed = map[string]any{"class": class, "ifaces": out, "msg": msg, "isre": isre}
		c.Coq = fmt.Sprintf("CList %s %s %s %s", coqStrs(in.All), coqStr(arg), vhlib.CoqBool(isre), coqRes(class, out))
		c.Tags = append(c.Tags, "list:"+class, "len:"+strconv.Itoa(len(toks)))
		if strings.Contains(arg, "!") {
			c.Tags = append(c.Tags, "negation")
		}
		if hasDup(toks) {
			c.Tags = append(c.Tags, "repeated")
		}
		if strings.Contains(strings.ToLower(arg), "any") {
			c.Tags = append(c.Tags, "any")
		}
		c.Nontrivial = class != "err"
	case "regex":
		class, out, msg := call(func() ([]string, error) {
			return engine.VerifParseIfaceListWithRegex(lister{in.All}, arg)
		})
		// Go's regexp on the text between the outer slashes, compiled independently of the code under test
		compiles := false
		table := []string{}
		tjson := map[string]bool{}
		if len(arg) >= 2 {
			if re, err := regexp.Compile(arg[1 : len(arg)-1]); err == nil {
				compiles = true
				for _, i := range in.All {
					m := re.MatchString(i)
					tjson[i] = m
					table = append(table, "("+coqStr(i)+","+vhlib.CoqBool(m)+")")
				}
			}
		}
		c.Observed = map[string]any{"class": class, "ifaces": out, "msg": msg, "isre": isre, "compiles": compiles, "table": tjson}
		c.Coq = fmt.Sprintf("CRegex %s %s %s %s %s %s", coqStrs(in.All), coqStr(arg), vhlib.CoqBool(isre),
			vhlib.CoqBool(compiles), "["+strings.Join(table, ";")+"]", coqRes(class, out))
		c.Tags = append(c.Tags, "regex:"+class)
		c.Nontrivial = class == "ok"
	case "run":
		// the whole query path on a database that has one (empty) directory per existing interface:
		// args.Prepare, the regexp/list dispatch in (*QueryRunner).run, RunStatement's sort
		runSeq++
		dir := filepath.Join(o.Work, "c16db", strconv.Itoa(runSeq))
		os.RemoveAll(dir)
		for _, i := range in.All {
			if err := os.MkdirAll(filepath.Join(dir, i), 0o755); err != nil {
				return nil, err
			}
		}
		if err := os.MkdirAll(dir, 0o755); err != nil {
			return nil, err
		}
		class, out, msg := call(func() ([]string, error) {
			args := &query.Args{Query: "sip", Ifaces: arg, First: "1700000000", Last: "1700003600", Format: "json",
				NumResults: 10, MaxMemPct: 60, SortBy: "bytes"}
			res, err := engine.NewQueryRunner(dir).Run(context.Background(), args)
			if err != nil {
				if strings.Contains(err.Error(), "no interfaces provided") {
					return []string{}, nil
				}
				return nil, err
			}
			return res.Summary.Interfaces, nil
		})
		os.RemoveAll(dir)
		sorted := sort.StringsAreSorted(out)
		c.Observed = map[string]any{"class": class, "ifaces": out, "msg": msg, "isre": isre, "sorted": sorted}
		// the same two constructors: which function ran is decided by the real dispatch (isre)
		if isre {
			compiles := false
			table := []string{}
			if re, err := regexp.Compile(arg[1 : len(arg)-1]); err == nil {
				compiles = true
				for _, i := range in.All {
					table = append(table, "("+coqStr(i)+","+vhlib.CoqBool(re.MatchString(i))+")")
				}
			}
			c.Coq = fmt.Sprintf("CRunRegex %s %s %s %s %s", coqStrs(in.All), coqStr(arg), vhlib.CoqBool(compiles),
				"["+strings.Join(table, ";")+"]", coqRes(class, out))
		} else {
			c.Coq = fmt.Sprintf("CRunList %s %s %s", coqStrs(in.All), coqStr(arg), coqRes(class, out))
		}
		c.Tags = append(c.Tags, "run:"+class)
		c.Nontrivial = class == "ok"
	default:
		return nil, fmt.Errorf("unknown kind %q", in.Kind)
	}
	return c, nil
}

func main() { vhlib.Main(gen, run) }
