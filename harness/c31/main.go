// C31 correspondence harness: the query concurrency limit of engine.QueryRunner and
// distributed.QueryRunner.
//
// A case is a script of operations executed one after the other, each until the system is
// quiescent (every query is either returned, blocked at the mock, or parked in TryAddFor on a full
// semaphore).  The harness owns the semaphore channel and samples len(sem) after every operation.
//
//	distributed runner: blocking holders are REAL queries held inside a mock hosts.Resolver (which is
//	  called after the acquisition); the exit path (result / error / panic in resolver or querier /
//	  cancellation) is chosen when the script finishes them.
//	engine runner: real queries on the repository's test DB (or a missing DB / interface) run to
//	  completion within their operation; the other holders are slots taken on the shared channel
//	  by the harness itself.
//
// Ordering is by channels only; timeouts are (a) the acquisition timeout of a query that is started
// while the semaphore is full and nobody can release (rejection is certain) and (b) watchdogs.
package main

import (
	"bytes"
	"context"
	"encoding/json"
	"errors"
	"fmt"
	"io"
	"log"
	"log/slog"
	"net/http"
	"net/http/httptest"
	"os"
	"path/filepath"
	"strconv"
	"strings"
	"sync"
	"sync/atomic"
	"time"

	"verifharness/vhlib"

	gqd "github.com/els0r/goProbe/v4/cmd/global-query/pkg/distributed"
	"github.com/els0r/goProbe/v4/pkg/api"
	gqserver "github.com/els0r/goProbe/v4/pkg/api/globalquery/server"
	apiserver "github.com/els0r/goProbe/v4/pkg/api/server"
	"github.com/els0r/goProbe/v4/pkg/distributed/hosts"
	"github.com/els0r/goProbe/v4/pkg/goDB/engine"
	"github.com/els0r/goProbe/v4/pkg/query"
	"github.com/els0r/goProbe/v4/pkg/results"
	"github.com/els0r/goProbe/v4/pkg/types"
)

const (
	longWait  = 10 * time.Minute     // acquisition timeout of a query that is meant to get a slot
	shortWait = 4 * time.Millisecond // acquisition timeout of a query that is meant to be rejected
	watchdog  = 20 * time.Second     // a step that does not finish within this is recorded as a hang
	// acquisition timeout of a query that the script cancels while it waits on a full semaphore: the real
	// code ignores the cancellation and answers when this timer fires; the cancel follows the spawn at once
	cancelWait = 150 * time.Millisecond
)

// once a step has hung (the run already fails) later hangs are not waited for as long
var hangSeen atomic.Bool

type opIn struct {
	Op       string `json:"op"` // spawn | finish | cancelwait
	Q        int    `json:"q"`
	Kind     string `json:"kind,omitempty"`    // prepfail | run
	Variant  string `json:"variant,omitempty"` // how the kind is realised (see spawn)
	Blocking bool   `json:"blocking,omitempty"`
	Exit     string `json:"exit,omitempty"` // ok | err | panic | cancel
	Patient  bool   `json:"patient,omitempty"`
	DefWait  bool   `json:"defwait,omitempty"` // impatient query without keepalive: DefaultSemTimeout (1s)
	CWait    bool   `json:"cwait,omitempty"`   // patient query that the next operation cancels while it waits
}

type cfgIn struct {
	RatePos bool `json:"rate_pos"` // max_req_per_sec > 0 (a limiter that never limits: huge rate and burst)
	Burst   int  `json:"burst"`
	N       int  `json:"max_concurrent"`
}

type input struct {
	Runner string `json:"runner"` // dist | engine | gqapi (global-query API server, runner built by the server)
	Max    int    `json:"max"`
	Ops    []opIn `json:"ops"`
	Cfg    *cfgIn `json:"cfg,omitempty"` // gqapi: server.WithQueryRateLimit(rate, burst, max_concurrent)
}

type item struct {
	Q    int    `json:"q"`
	Code string `json:"code"` // started acq toomany ok err panic hang
	Msg  string `json:"msg,omitempty"`
}
type obsOp struct {
	Items []item `json:"items"`
	InUse int    `json:"in_use"`
}

// ------------------------------------------------------------------ mocks (distributed runner)

type qctl struct {
	spec   opIn
	acq    chan struct{} // closed by the mock when the query is past the acquisition
	gate   chan struct{} // closed by the harness to let a blocked query continue
	ret    chan item     // the classified return of Run
	cancel context.CancelFunc
	atMock bool
	done   bool

	acqOnce, gateOnce sync.Once
}

// channels are closed at most once, whatever the implementation under test does
func (c *qctl) closeAcq() { c.acqOnce.Do(func() { close(c.acq) }) }
func (c *qctl) openGate() { c.gateOnce.Do(func() { close(c.gate) }) }

type world struct {
	mu sync.Mutex
	qs map[int]*qctl
}

func (w *world) get(q int) *qctl {
	w.mu.Lock()
	defer w.mu.Unlock()
	return w.qs[q]
}

func qid(s string) int {
	n, err := strconv.Atoi(strings.TrimPrefix(strings.TrimSpace(s), "q"))
	if err != nil {
		return -1
	}
	return n
}

type mockResolver struct{ w *world }

// Resolve is called by prepareHostList, i.e. after checkSemaphore and `defer smeDone()`
func (m mockResolver) Resolve(_ context.Context, qs string) (hosts.Hosts, error) {
	c := m.w.get(qid(qs))
	if c == nil {
		return nil, errors.New("unknown query")
	}
	if c.spec.Blocking {
		c.closeAcq()
		<-c.gate
	}
	switch {
	case c.spec.Exit == "err" && c.spec.Variant == "resolve":
		return nil, errors.New("mock resolver failure")
	case c.spec.Exit == "panic" && c.spec.Variant == "resolve":
		panic("mock resolver panic")
	}
	return hosts.Hosts{qs}, nil
}

type mockQuerier struct{ w *world }

func (m mockQuerier) Query(_ context.Context, hl hosts.Hosts, _ *query.Args) (<-chan *results.Result, <-chan struct{}) {
	c := m.w.get(qid(hl[0]))
	rc, kc := make(chan *results.Result, 1), make(chan struct{})
	close(kc)
	switch c.spec.Exit {
	case "panic":
		panic("mock querier panic")
	case "cancel":
		return rc, kc // never closed: only the cancelled context ends the aggregation
	case "err":
		// a failing host: aggregated into the result, Run returns a result and no error; not generated
		// under exit=err (which means an error return), kept for completeness
	}
	r := results.New()
	r.Hostname = hl[0]
	rc <- r
	close(rc)
	return rc, kc
}

// ------------------------------------------------------------------ running one query

func classify(res *results.Result, err error, panicked bool, pmsg string, q int) item {
	switch {
	case panicked:
		return item{Q: q, Code: "panic", Msg: pmsg}
	case err != nil:
		return item{Q: q, Code: "err", Msg: firstLine(err.Error())}
	case res != nil && res.Status.Code == types.StatusTooManyRequests:
		return item{Q: q, Code: "toomany", Msg: res.Status.Message}
	case res != nil:
		return item{Q: q, Code: "ok"}
	}
	return item{Q: q, Code: "err", Msg: "nil result and nil error"}
}

func firstLine(s string) string {
	if i := strings.IndexByte(s, '\n'); i >= 0 {
		s = s[:i]
	}
	if len(s) > 80 {
		s = s[:80]
	}
	return s
}

type runner interface {
	Run(ctx context.Context, args *query.Args) (*results.Result, error)
}

// apiRunner posts the query to the HTTP handler of a real API server
type apiRunner struct{ h http.Handler }

func (r apiRunner) Run(ctx context.Context, a *query.Args) (*results.Result, error) {
	body, err := json.Marshal(a)
	if err != nil {
		return nil, err
	}
	req := httptest.NewRequest(http.MethodPost, api.QueryRoute, bytes.NewReader(body)).WithContext(ctx)
	req.Header.Set("Content-Type", "application/json")
	rec := httptest.NewRecorder()
	r.h.ServeHTTP(rec, req)
	if rec.Code != http.StatusOK {
		return nil, fmt.Errorf("HTTP status %d", rec.Code)
	}
	res := new(results.Result)
	if err := json.Unmarshal(rec.Body.Bytes(), res); err != nil {
		return nil, err
	}
	return res, nil
}

func launch(rn runner, ctx context.Context, a *query.Args, c *qctl, q int) {
	go func() {
		var (
			res *results.Result
			err error
		)
		p, msg := vhlib.Recover(func() { res, err = rn.Run(ctx, a) })
		c.ret <- classify(res, err, p, msg, q)
	}()
}

func repoDir() string {
	if d := os.Getenv("VERIF_REPO"); d != "" {
		return d
	}
	return "/repo"
}

// arguments realising a script kind
func buildArgs(in *input, o opIn, full bool) (*query.Args, string) {
	dbPath := filepath.Join(repoDir(), "pkg/goDB/engine/testdb")
	a := query.NewArgs("sip,dip", "eth1", query.WithFirst("1456358400"), query.WithLast("1456473000"),
		query.WithFormat(types.FormatJSON), query.WithNumResults(5))
	// a slot is free, or the query is meant to wait for one: never let the timer decide
	a.KeepAlive = longWait
	if full && !o.Patient {
		a.KeepAlive = shortWait
		if o.DefWait {
			a.KeepAlive = 0
		}
	}
	if full && o.Patient && o.CWait {
		a.KeepAlive = cancelWait
	}
	if in.Runner != "engine" {
		a.QueryHosts = fmt.Sprintf("q%d", o.Q)
		a.Ifaces = "any"
	}
	if o.Kind == "prepfail" {
		switch o.Variant {
		case "nohosts": // dist only
			a.QueryHosts = ""
		case "resolver": // dist only
			a.QueryHostsResolverType = "no-such-resolver"
		case "badsort":
			a.SortBy = "no-such-sort-order"
		default: // badquery
			a.Query = "no_such_attribute"
		}
		return a, dbPath
	}
	switch o.Variant {
	case "any": // dist: mock querier cannot list all hosts
		a.QueryHosts = types.AnySelector
	case "nodb": // engine: interface listing fails after the acquisition
		dbPath = filepath.Join(repoDir(), "pkg/goDB/engine/no-such-db")
	case "noiface": // engine: "no interfaces provided" in RunStatement
		a.Ifaces = "nosuchif0"
	}
	return a, dbPath
}

func wait(c *qctl, wantAcq bool) item {
	d := watchdog
	if hangSeen.Load() {
		d = watchdog / 10
	}
	t := time.NewTimer(d)
	defer t.Stop()
	acq := c.acq
	if !wantAcq {
		acq = nil
	}
	select {
	case <-acq:
		c.atMock = true
		return item{Q: c.spec.Q, Code: "acq"}
	case it := <-c.ret:
		c.done = true
		return it
	case <-t.C:
		hangSeen.Store(true)
		return item{Q: c.spec.Q, Code: "hang"}
	}
}

func execute(in *input) (obs []obsOp, err error) {
	sem := make(chan struct{}, in.Max)
	w := &world{qs: map[int]*qctl{}}
	rm := hosts.NewResolverMap()
	rm.Set("string", mockResolver{w})
	var dist runner = gqd.NewQueryRunner(rm, mockQuerier{w}, gqd.WithMaxConcurrent(sem))
	var pending []*qctl
	live := 0 // holders the harness has seen acquire and not yet return
	hung := false
	isFull := func() bool { return len(sem) == cap(sem) }
	inUse := func() int { return len(sem) }
	if in.Runner == "gqapi" {
		// the REAL server construction: option -> accessor -> registerRoutes -> semaphore -> runner.
		// The channel is private to the server: "full" is what the CONFIGURATION promises, the sample
		// is the number of queries the mock sees executing.
		opt := apiserver.WithQueryRateLimit(0, in.Cfg.Burst, in.Cfg.N)
		if in.Cfg.RatePos {
			opt = apiserver.WithQueryRateLimit(1e12, 1<<30+in.Cfg.Burst, in.Cfg.N)
		}
		dist = apiRunner{gqserver.New("localhost:0", rm, mockQuerier{w}, opt).API().Adapter()}
		isFull = func() bool { return in.Cfg.N > 0 && live >= in.Cfg.N }
		inUse = func() int { return live }
	}

	spawn := func(o opIn) []item {
		full := isFull()
		ctx, cancel := context.WithCancel(context.Background())
		c := &qctl{spec: o, acq: make(chan struct{}), gate: make(chan struct{}), ret: make(chan item, 1), cancel: cancel}
		w.mu.Lock()
		w.qs[o.Q] = c
		w.mu.Unlock()
		foreign := in.Runner == "engine" && o.Kind == "run" && o.Blocking
		switch {
		case foreign && (!full || o.Patient):
			// another user of the shared semaphore: takes a slot directly, gives it back at finish
			go func() {
				sem <- struct{}{}
				c.closeAcq()
				<-c.gate
				<-sem
				c.ret <- item{Q: o.Q, Code: "ok"}
			}()
		case foreign:
			select {
			case sem <- struct{}{}:
				return []item{{Q: o.Q, Code: "err", Msg: "foreign holder got a slot on a full semaphore"}}
			default:
				c.done = true
				return []item{{Q: o.Q, Code: "toomany"}}
			}
		default:
			a, dbPath := buildArgs(in, o, full)
			if o.Kind == "run" && !o.Blocking && o.Exit == "cancel" {
				cancel() // cancelled before it starts: still has to take and return its slot
			}
			if in.Runner != "engine" {
				launch(dist, ctx, a, c, o.Q)
			} else {
				// one runner per query as it carries per-query state; they share the semaphore
				launch(engine.NewQueryRunner(dbPath, engine.WithMaxConcurrent(sem)), ctx, a, c, o.Q)
			}
		}
		if o.Kind == "run" && full && o.Patient {
			pending = append(pending, c)
			return []item{{Q: o.Q, Code: "started"}}
		}
		it := wait(c, o.Kind == "run" && o.Blocking)
		if it.Code == "acq" {
			live++
		}
		if it.Code == "hang" {
			hung = true
		}
		return []item{it}
	}

	finish := func(o opIn) ([]item, error) {
		c := w.get(o.Q)
		if c == nil || !c.spec.Blocking {
			return nil, fmt.Errorf("finish of query %d which is not a blocking query of the script", o.Q)
		}
		if !c.atMock || c.done {
			// the script expects this query to be executing, the implementation did not let it (or lost it):
			// recorded like a hang, the remaining operations are not run
			hung = true
			return []item{{Q: o.Q, Code: "hang", Msg: "expected to be executing, but was rejected / is parked / has returned"}}, nil
		}
		if c.spec.Exit == "cancel" {
			c.cancel()
		}
		c.openGate()
		it := wait(c, false)
		if it.Code == "hang" {
			// returned=false: the query was told to leave (result / error / panic / cancellation) and did not
			// come back within the watchdog; its slot is sampled as still held
			it.Msg = "did not return after " + c.spec.Exit + "; slot still held"
			hung = true
			return []item{it}, nil
		}
		items := []item{it}
		live--
		// the freed slot serves the parked queries, oldest first
		for len(pending) > 0 && live < in.Max && !hung {
			p := pending[0]
			pending = pending[1:]
			it := wait(p, p.spec.Blocking)
			switch it.Code {
			case "acq":
				live++
			case "hang":
				hung = true
			}
			items = append(items, it)
		}
		return items, nil
	}

	// the caller goes away while its query is parked in the acquisition on a full semaphore
	cancelwait := func(o opIn) ([]item, error) {
		c := w.get(o.Q)
		if c == nil || !c.spec.CWait {
			return nil, fmt.Errorf("cancelwait of query %d which the script did not start as cwait", o.Q)
		}
		idx := -1
		for i, p := range pending {
			if p == c {
				idx = i
			}
		}
		if idx < 0 {
			hung = true
			return []item{{Q: o.Q, Code: "hang", Msg: "expected to be waiting for a slot, but is not"}}, nil
		}
		pending = append(pending[:idx:idx], pending[idx+1:]...)
		c.cancel()
		it := wait(c, c.spec.Blocking)
		switch it.Code {
		case "acq":
			live++
		case "hang":
			hung = true
		}
		return []item{it}, nil
	}

	for _, o := range in.Ops {
		if hung {
			break
		}
		var items []item
		switch o.Op {
		case "cancelwait":
			if items, err = cancelwait(o); err != nil {
				return nil, err
			}
		case "spawn":
			items = spawn(o)
		case "finish":
			if items, err = finish(o); err != nil {
				return nil, err
			}
		default:
			return nil, fmt.Errorf("unknown op %q", o.Op)
		}
		obs = append(obs, obsOp{Items: items, InUse: inUse()})
	}

	// not part of the observation: let everything that is still around go away
	w.mu.Lock()
	for _, c := range w.qs {
		c.cancel()
		if !c.done && c.atMock {
			c.openGate()
			c.atMock = false
		} else if !c.done && !c.atMock && c.spec.Blocking {
			go func(c *qctl) { <-c.acq; c.openGate() }(c)
		}
	}
	w.mu.Unlock()
	return obs, nil
}

// ------------------------------------------------------------------ Coq printing

func coqCode(c string) string {
	return map[string]string{"started": "CStarted", "acq": "CAcq", "toomany": "CTooMany", "ok": "COk",
		"err": "CErr", "panic": "CPanic", "hang": "CHang"}[c]
}

func coqOp(o opIn) string {
	if o.Op == "finish" {
		return fmt.Sprintf("OpFinish %d", o.Q)
	}
	if o.Op == "cancelwait" {
		return fmt.Sprintf("OpCancelWait %d", o.Q)
	}
	k := "KPrepFail"
	if o.Kind == "run" {
		x := map[string]string{"ok": "XOk", "err": "XErr", "panic": "XPanic", "cancel": "XCancel"}[o.Exit]
		k = fmt.Sprintf("(KRun %s %s)", vhlib.CoqBool(o.Blocking), x)
	}
	return fmt.Sprintf("OpSpawn %d %s %s", o.Q, k, vhlib.CoqBool(o.Patient))
}

func validate(in *input) error {
	if in.Runner != "dist" && in.Runner != "engine" && in.Runner != "gqapi" {
		return fmt.Errorf("runner %q", in.Runner)
	}
	if (in.Runner == "gqapi") != (in.Cfg != nil) {
		return errors.New("cfg goes with runner gqapi")
	}
	if in.Cfg != nil && (in.Cfg.N < 0 || in.Cfg.N > 64 || in.Cfg.Burst < 0 || in.Cfg.Burst > 1000) {
		return errors.New("cfg out of range")
	}
	if in.Max < 0 || in.Max > 64 || len(in.Ops) > 200 {
		return errors.New("script too large")
	}
	n := 0
	for _, o := range in.Ops {
		if o.Op != "spawn" {
			continue
		}
		if o.Q != n {
			return fmt.Errorf("spawn ids must be 0,1,2,...: got %d want %d", o.Q, n)
		}
		n++
		if o.Kind != "prepfail" && o.Kind != "run" {
			return fmt.Errorf("kind %q", o.Kind)
		}
		if o.CWait && (o.Kind != "run" || !o.Patient || (in.Runner == "engine" && o.Blocking)) {
			return errors.New("cwait needs a patient real query")
		}
		if o.Kind == "run" {
			if _, ok := map[string]bool{"ok": true, "err": true, "panic": true, "cancel": true}[o.Exit]; !ok {
				return fmt.Errorf("exit %q", o.Exit)
			}
			if in.Runner == "engine" && (o.Exit == "panic" || o.Exit == "cancel") {
				return errors.New("engine runner: no controllable panic / cancellation point")
			}
			if in.Runner == "gqapi" && (o.Exit == "panic" || o.Exit == "cancel" || o.CWait) {
				return errors.New("gqapi runner: result / error exits only (the HTTP layer recovers panics)")
			}
			if in.Runner == "engine" && o.Blocking && o.Exit != "ok" {
				return errors.New("engine runner: blocking holders are plain slots")
			}
		}
	}
	return nil
}

func run(raw json.RawMessage, _ vhlib.Opts) (*vhlib.Case, error) {
	var in input
	if err := json.Unmarshal(raw, &in); err != nil {
		return nil, err
	}
	if err := validate(&in); err != nil {
		return nil, err
	}
	obs, err := execute(&in)
	if err != nil {
		return nil, err
	}
	ops := make([]string, len(in.Ops))
	tagset := map[string]bool{"runner:" + in.Runner: true, "max:" + strconv.Itoa(in.Max): true}
	for i, o := range in.Ops {
		ops[i] = coqOp(o)
		if o.Op == "spawn" {
			t := o.Kind
			if o.Kind == "run" {
				t = "exit:" + o.Exit
				if o.Blocking {
					tagset["blocking"] = true
				}
			}
			tagset[t] = true
			if o.CWait {
				tagset["cancel-while-waiting"] = true
			}
			if o.Variant != "" {
				tagset["variant:"+o.Variant] = true
			}
		}
	}
	codes := map[string]bool{}
	cobs := make([]string, len(obs))
	peak := 0
	for i, ob := range obs {
		its := make([]string, len(ob.Items))
		for j, it := range ob.Items {
			its[j] = fmt.Sprintf("(%d, %s)", it.Q, coqCode(it.Code))
			codes[it.Code] = true
			tagset["obs:"+it.Code] = true
		}
		cobs[i] = vhlib.CoqPair(vhlib.CoqList(its), strconv.Itoa(ob.InUse))
		if ob.InUse > peak {
			peak = ob.InUse
		}
	}
	if peak == in.Max {
		tagset["reached-limit"] = true
	}
	var tags []string
	for t := range tagset {
		tags = append(tags, t)
	}
	ccfg := "None"
	if in.Cfg != nil {
		ccfg = fmt.Sprintf("(Some (mkCfg %s %d %d))", vhlib.CoqBool(in.Cfg.RatePos), in.Cfg.Burst, in.Cfg.N)
		tagset[fmt.Sprintf("cfg:rate>0=%v,burst>0=%v,n=%d", in.Cfg.RatePos, in.Cfg.Burst > 0, in.Cfg.N)] = true
		if in.Cfg.N == 0 {
			peak = -1 // unlimited: there is no limit to reach
		}
	}
	coq := fmt.Sprintf("mkCase %s %d %s %s %s", vhlib.CoqBool(in.Runner == "engine"), in.Max,
		vhlib.CoqList(ops), vhlib.CoqList(cobs), ccfg)
	return &vhlib.Case{
		Observed: obs, Tags: vhlib.SortedCopy(tags),
		// non-trivial: the limit was reached and at least one query was rejected or had to wait
		Nontrivial: peak == in.Max && (codes["toomany"] || codes["started"]),
		Coq:        coq,
	}, nil
}

// ------------------------------------------------------------------ generation

type genState struct {
	in      *input
	r       *vhlib.Rand
	inUse   int
	holders []int // blocked holders
	waiter  int   // pending patient query or -1
	wspec   opIn
	n       int
}

func (g *genState) randomSpawn(allowPatient bool) opIn {
	r := g.r
	o := opIn{Op: "spawn", Q: g.n, Kind: "run"}
	dist := g.in.Runner != "engine"
	switch {
	case r.Chance(12):
		o.Kind = "prepfail"
		if dist {
			o.Variant = vhlib.Pick(r, []string{"nohosts", "resolver", "badquery", "badsort"})
		} else {
			o.Variant = vhlib.Pick(r, []string{"badquery", "badsort"})
		}
	case dist:
		o.Blocking = r.Chance(65)
		o.Exit = vhlib.Pick(r, []string{"ok", "ok", "err", "err", "panic", "cancel"})
		if g.in.Runner == "gqapi" {
			o.Exit = vhlib.Pick(r, []string{"ok", "ok", "err"})
		}
		switch o.Exit {
		case "err":
			if o.Blocking {
				o.Variant = "resolve"
			} else {
				o.Variant = vhlib.Pick(r, []string{"resolve", "any"})
			}
		case "panic":
			o.Variant = vhlib.Pick(r, []string{"resolve", "querier"})
		}
	default: // engine
		o.Blocking = r.Chance(55)
		o.Exit = "ok"
		if !o.Blocking && r.Chance(50) {
			o.Exit = "err"
			o.Variant = vhlib.Pick(r, []string{"nodb", "noiface"})
		}
	}
	if o.Kind == "run" && allowPatient && r.Chance(30) {
		o.Patient = true
	}
	return o
}

// track mirrors what the operation does to the slots (the generator only uses it to produce closed,
// single-waiter scripts; the prediction that is checked comes from the Coq model)
func (g *genState) track(o opIn) {
	if o.Op == "spawn" {
		g.n++
		if o.Kind != "run" {
			return
		}
		switch {
		case g.inUse < g.in.Max:
			if o.Blocking {
				g.inUse++
				g.holders = append(g.holders, o.Q)
			}
		case o.Patient:
			g.waiter, g.wspec = o.Q, o
		}
		return
	}
	for i, h := range g.holders {
		if h == o.Q {
			g.holders = append(g.holders[:i:i], g.holders[i+1:]...)
			break
		}
	}
	g.inUse--
	if g.waiter >= 0 {
		if g.wspec.Blocking {
			g.inUse++
			g.holders = append(g.holders, g.waiter)
		}
		g.waiter = -1
	}
}

func (g *genState) add(o opIn) {
	g.in.Ops = append(g.in.Ops, o)
	g.track(o)
}

func genAPIScript(r *vhlib.Rand, c cfgIn, nops int) *input {
	lim := c.N
	if lim == 0 {
		lim = 1 << 20 // no limit configured
	}
	in := genScript(r, "gqapi", lim, nops)
	in.Max, in.Cfg = c.N, &c
	return in
}

func genScript(r *vhlib.Rand, runner string, max, nops int) *input {
	g := &genState{in: &input{Runner: runner, Max: max}, r: r, waiter: -1}
	for len(g.in.Ops) < nops {
		if len(g.holders) > 0 && r.Chance(30) {
			g.add(opIn{Op: "finish", Q: vhlib.Pick(r, g.holders)})
			continue
		}
		// the caller of a query beyond the limit goes away while the query waits; afterwards the limit
		// must be what it was: followed by an attempt that has to be rejected
		if g.inUse >= max && runner != "gqapi" && r.Chance(6) {
			o := g.randomSpawn(false)
			if o.Kind == "run" && !(runner == "engine" && o.Blocking) {
				o.Patient, o.CWait = true, true
				g.in.Ops = append(g.in.Ops, o, opIn{Op: "cancelwait", Q: o.Q})
				g.n++
				probe := g.randomSpawn(false)
				probe.Patient = false
				g.add(probe)
				continue
			}
		}
		// bias towards filling the semaphore so that the limit is reached
		o := g.randomSpawn(g.waiter < 0)
		if g.inUse < max && r.Chance(50) {
			o.Kind, o.Blocking, o.Variant = "run", true, ""
			if runner == "engine" || o.Exit == "" {
				o.Exit = "ok"
			}
			switch o.Exit {
			case "err":
				o.Variant = "resolve"
			case "panic":
				o.Variant = vhlib.Pick(r, []string{"resolve", "querier"})
			}
		}
		// waiting only makes sense for a slot somebody will give back
		if o.Patient && g.inUse >= max && (len(g.holders) == 0 || g.waiter >= 0) {
			o.Patient = false
		}
		g.add(o)
	}
	// close the script: every holder (and the parked query, once served) leaves
	for len(g.holders) > 0 {
		g.add(opIn{Op: "finish", Q: g.holders[0]})
	}
	return g.in
}

func sp(q int, kind, variant string, blocking bool, exit string, patient bool) opIn {
	return opIn{Op: "spawn", Q: q, Kind: kind, Variant: variant, Blocking: blocking, Exit: exit, Patient: patient}
}
func fin(q int) opIn { return opIn{Op: "finish", Q: q} }
func cw(q int, variant string, blocking bool, exit string) []opIn {
	return []opIn{{Op: "spawn", Q: q, Kind: "run", Variant: variant, Blocking: blocking, Exit: exit, Patient: true, CWait: true},
		{Op: "cancelwait", Q: q}}
}
func cat(parts ...[]opIn) (out []opIn) {
	for _, p := range parts {
		out = append(out, p...)
	}
	return out
}

// hand-picked boundary scripts
func fixed() []input {
	return []input{
		// max 1: holder, rejected, prepare failure while full, holder panics, slot reused, cancelled
		{Runner: "dist", Max: 1, Ops: []opIn{sp(0, "run", "resolve", true, "panic", false), sp(1, "run", "", false, "ok", false),
			sp(2, "prepfail", "badquery", false, "", false), fin(0), sp(3, "run", "", true, "cancel", false), fin(3)}},
		// capacity 0 (unbuffered channel): everything that passes Prepare is rejected
		{Runner: "dist", Max: 0, Ops: []opIn{sp(0, "run", "", true, "ok", false), sp(1, "prepfail", "nohosts", false, "", false),
			sp(2, "run", "any", false, "err", false)}},
		{Runner: "engine", Max: 0, Ops: []opIn{sp(0, "run", "", false, "ok", false), sp(1, "prepfail", "badquery", false, "", false)}},
		// every instant exit path on a free semaphore: nothing may stay behind
		{Runner: "dist", Max: 2, Ops: []opIn{sp(0, "run", "any", false, "err", false), sp(1, "run", "any", false, "err", true),
			sp(2, "run", "resolve", false, "err", false), sp(3, "run", "resolve", false, "panic", false),
			sp(4, "run", "querier", false, "panic", false), sp(5, "run", "", false, "cancel", false), sp(6, "run", "", false, "ok", false),
			sp(7, "prepfail", "resolver", false, "", false), sp(8, "prepfail", "badsort", false, "", false)}},
		// every blocking exit path, with the limit reached and a rejection in between
		{Runner: "dist", Max: 3, Ops: []opIn{sp(0, "run", "resolve", true, "err", false), sp(1, "run", "querier", true, "panic", false),
			sp(2, "run", "", true, "cancel", false), sp(3, "run", "", true, "ok", false), fin(1), sp(4, "run", "resolve", true, "panic", false),
			sp(5, "run", "any", false, "err", false), fin(0), fin(2), fin(4), sp(6, "run", "", false, "ok", false)}},
		// a parked query gets the slot of a failing holder; default 1 s acquisition timeout for the rejected one
		{Runner: "dist", Max: 2, Ops: []opIn{sp(0, "run", "resolve", true, "err", false), sp(1, "run", "", true, "ok", false),
			sp(2, "run", "", true, "cancel", true), {Op: "spawn", Q: 3, Kind: "run", Exit: "ok", DefWait: true}, fin(0), fin(1), fin(2)}},
		// a parked instant query: served and gone within the finish
		{Runner: "dist", Max: 1, Ops: []opIn{sp(0, "run", "", true, "ok", false), sp(1, "run", "any", false, "err", true), fin(0),
			sp(2, "run", "", true, "ok", false), fin(2)}},
		// engine: real queries next to foreign holders
		{Runner: "engine", Max: 2, Ops: []opIn{sp(0, "run", "", false, "ok", false), sp(1, "run", "", true, "ok", false),
			sp(2, "run", "nodb", false, "err", false), sp(3, "run", "", true, "ok", false), sp(4, "run", "", false, "ok", false),
			sp(5, "run", "noiface", false, "err", false), sp(6, "prepfail", "badquery", false, "", false), fin(1),
			sp(7, "run", "noiface", false, "err", false), sp(8, "run", "", false, "ok", false), fin(3)}},
		// engine: all slots held, the caller of one more query cancels while it waits: still 429, nothing is
		// given back; limit + 1 attempts before and after the co-holders finish
		{Runner: "engine", Max: 2, Ops: cat([]opIn{sp(0, "run", "", true, "ok", false), sp(1, "run", "", true, "ok", false)},
			cw(2, "", false, "ok"), []opIn{sp(3, "run", "", false, "ok", false)}, cw(4, "nodb", false, "err"),
			[]opIn{sp(5, "run", "", false, "ok", false), fin(0), sp(6, "run", "", true, "ok", false), sp(7, "run", "", false, "ok", false),
				fin(1), fin(6), sp(8, "run", "", true, "ok", false), sp(9, "run", "", true, "ok", false), sp(10, "run", "", false, "ok", false), fin(8), fin(9)})},
		{Runner: "engine", Max: 1, Ops: cat([]opIn{sp(0, "run", "", true, "ok", false)}, cw(1, "", false, "ok"), cw(2, "noiface", false, "err"),
			[]opIn{sp(3, "run", "", false, "ok", false), fin(0), sp(4, "run", "", true, "ok", false), sp(5, "run", "", false, "ok", false), fin(4)})},
		// distributed: the same with real holders
		{Runner: "dist", Max: 2, Ops: cat([]opIn{sp(0, "run", "", true, "ok", false), sp(1, "run", "resolve", true, "err", false)},
			cw(2, "", true, "ok"), cw(3, "", false, "cancel"), []opIn{sp(4, "run", "", false, "ok", false), fin(1),
				sp(5, "run", "", true, "cancel", false), sp(6, "run", "", true, "ok", false), fin(0), fin(5)})},
		{Runner: "dist", Max: 0, Ops: cat(cw(0, "", false, "ok"), []opIn{sp(1, "run", "", false, "ok", false)})},
		// engine: a parked real query is served when the foreign holder leaves
		{Runner: "engine", Max: 1, Ops: []opIn{sp(0, "run", "", true, "ok", false), sp(1, "run", "nodb", false, "err", true),
			{Op: "spawn", Q: 2, Kind: "run", Exit: "ok", DefWait: true}, fin(0), sp(3, "run", "", false, "ok", false)}},
	}
}

// every combination of the rate limiter options with max_concurrent 0, 1, 2
func apiCfgs() (out []cfgIn) {
	for _, n := range []int{1, 2, 0} {
		for _, rp := range []bool{false, true} {
			for _, b := range []int{0, 5} {
				out = append(out, cfgIn{RatePos: rp, Burst: b, N: n})
			}
		}
	}
	return out
}

func gen(r *vhlib.Rand, i int, o vhlib.Opts) any {
	fx := fixed()
	if i < len(fx) {
		return fx[i]
	}
	cfgs := apiCfgs()
	if k := i - len(fx); k < len(cfgs) {
		// fill the configured limit, one more, finish one, one more: fixed shape per configuration
		c := cfgs[k]
		ops := []opIn{sp(0, "run", "", true, "ok", false), sp(1, "run", "resolve", true, "err", false), sp(2, "run", "", true, "ok", false),
			sp(3, "run", "", false, "ok", false), sp(4, "prepfail", "badquery", false, "", false), fin(0), sp(5, "run", "", false, "ok", false)}
		if c.N != 1 {
			ops = append(ops, fin(1))
		}
		if c.N == 0 {
			ops = append(ops, fin(2))
		}
		return input{Runner: "gqapi", Max: c.N, Ops: ops, Cfg: &c}
	}
	if r.Chance(20) {
		return genAPIScript(r, vhlib.Pick(r, cfgs), 6+r.Intn(10))
	}
	runner := "dist"
	if r.Chance(25) {
		runner = "engine"
	}
	max := vhlib.Pick(r, []int{1, 1, 2, 2, 3, 4, 5})
	nops := 6 + r.Intn(14)
	if o.Search || o.Tier == "thorough" {
		max = vhlib.Pick(r, []int{0, 1, 2, 3, 5, 8, 13})
		nops = 8 + r.Intn(40)
	}
	return genScript(r, runner, max, nops)
}

func main() {
	// the runners log every query; keep the harness output clean
	slog.SetDefault(slog.New(slog.NewTextHandler(io.Discard, nil)))
	log.SetOutput(io.Discard)
	vhlib.Main(gen, run)
}
