package vhlib

import (
	"bytes"
	"encoding/json"
	"fmt"
	"strings"
)

// JSONToCoq parses JSON text preserving object key order and prints it as a term of the
// Coq type `json` (JNull | JBool | JNum | JStr | JArr | JObj). Numbers must be integers.
func JSONToCoq(b []byte) (string, error) {
	dec := json.NewDecoder(bytes.NewReader(b))
	dec.UseNumber()
	s, err := jsonVal(dec)
	if err != nil {
		return "", err
	}
	return s, nil
}

func jsonVal(dec *json.Decoder) (string, error) {
	tok, err := dec.Token()
	if err != nil {
		return "", err
	}
	switch t := tok.(type) {
	case json.Delim:
		switch t {
		case '{':
			var items []string
			for dec.More() {
				kt, err := dec.Token()
				if err != nil {
					return "", err
				}
				k, ok := kt.(string)
				if !ok || !IsPlain(k) {
					return "", fmt.Errorf("bad key %v", kt)
				}
				v, err := jsonVal(dec)
				if err != nil {
					return "", err
				}
				items = append(items, "("+CoqString(k)+", "+v+")")
			}
			if _, err := dec.Token(); err != nil {
				return "", err
			}
			return "(JObj [" + strings.Join(items, "; ") + "])", nil
		case '[':
			var items []string
			for dec.More() {
				v, err := jsonVal(dec)
				if err != nil {
					return "", err
				}
				items = append(items, v)
			}
			if _, err := dec.Token(); err != nil {
				return "", err
			}
			return "(JArr [" + strings.Join(items, "; ") + "])", nil
		}
		return "", fmt.Errorf("unexpected delimiter %v", t)
	case nil:
		return "JNull", nil
	case bool:
		return "(JBool " + CoqBool(t) + ")", nil
	case json.Number:
		s := t.String()
		if strings.ContainsAny(s, ".eE") {
			return "", fmt.Errorf("non-integer number %s", s)
		}
		if strings.HasPrefix(s, "-") {
			return "(JNum (" + s + ")%Z)", nil
		}
		return "(JNum " + s + "%Z)", nil
	case string:
		if !IsPlain(t) {
			return "", fmt.Errorf("non-plain string %q", t)
		}
		return "(JStr " + CoqString(t) + ")", nil
	}
	return "", fmt.Errorf("unexpected token %v", tok)
}
