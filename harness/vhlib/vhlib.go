// Package vhlib is the shared part of the correspondence harnesses: a deterministic PRNG,
// the gen/replay driver loop, the case file writer and helpers to print Coq terms.
package vhlib

import (
	"bufio"
	"encoding/json"
	"flag"
	"fmt"
	"os"
	"sort"
	"strconv"
	"strings"
)

// Case is one line of cases.jsonl
type Case struct {
	I          int      `json:"i"`
	Input      any      `json:"input"`
	Observed   any      `json:"observed"`
	Tags       []string `json:"tags,omitempty"`
	Nontrivial bool     `json:"nontrivial"`
	Coq        string   `json:"coq"`
}

// Opts are the command line options of a harness run
type Opts struct {
	Mode   string
	Seed   uint64
	N      int
	Tier   string
	Out    string
	Work   string
	In     string
	Search bool
}

// Rand is splitmix64; every random choice of a run derives from one state
type Rand struct{ s uint64 }

// NewRand mixes the seed through the splitmix64 finaliser so that consecutive seeds give unrelated streams
func NewRand(seed uint64) *Rand {
	z := seed + 0x632BE59BD9B4E019
	z = (z ^ (z >> 30)) * 0xBF58476D1CE4E5B9
	z = (z ^ (z >> 27)) * 0x94D049BB133111EB
	z ^= z >> 31
	return &Rand{s: z ^ 0x1234567}
}
func (r *Rand) U64() uint64 {
	r.s += 0x9E3779B97F4A7C15
	z := r.s
	z = (z ^ (z >> 30)) * 0xBF58476D1CE4E5B9
	z = (z ^ (z >> 27)) * 0x94D049BB133111EB
	return z ^ (z >> 31)
}
func (r *Rand) Intn(n int) int {
	if n <= 0 {
		return 0
	}
	return int(r.U64() % uint64(n))
}
func (r *Rand) Bool() bool        { return r.U64()&1 == 1 }
func (r *Rand) Chance(p int) bool { return r.Intn(100) < p }
func (r *Rand) Fork() *Rand       { return NewRand(r.U64()) }
func Pick[T any](r *Rand, xs []T) T { return xs[r.Intn(len(xs))] }

// Main runs the harness: gen calls genInput for every index, then run; replay re-runs the
// inputs of the cases in -in. run must be a pure function of the input (plus the implementation).
func Main(genInput func(r *Rand, i int, o Opts) any, run func(input json.RawMessage, o Opts) (*Case, error)) {
	if len(os.Args) < 2 {
		fmt.Fprintln(os.Stderr, "usage: vh gen|replay -seed S -n N -tier T -out F -work D [-in F] [-search]")
		os.Exit(2)
	}
	var o Opts
	o.Mode = os.Args[1]
	fs := flag.NewFlagSet("vh", flag.ExitOnError)
	fs.Uint64Var(&o.Seed, "seed", 1, "")
	fs.IntVar(&o.N, "n", 100, "")
	fs.StringVar(&o.Tier, "tier", "quick", "")
	fs.StringVar(&o.Out, "out", "cases.jsonl", "")
	fs.StringVar(&o.Work, "work", ".", "")
	fs.StringVar(&o.In, "in", "", "")
	fs.BoolVar(&o.Search, "search", false, "")
	_ = fs.Parse(os.Args[2:])

	f, err := os.Create(o.Out)
	if err != nil {
		fmt.Fprintln(os.Stderr, err)
		os.Exit(2)
	}
	w := bufio.NewWriterSize(f, 1<<20)
	emit := func(i int, raw json.RawMessage) {
		c, err := run(raw, o)
		if err != nil {
			fmt.Fprintf(os.Stderr, "harness run failed on case %d: %v\ninput: %s\n", i, err, string(raw))
			os.Exit(3)
		}
		c.I = i
		if c.Input == nil {
			c.Input = raw
		}
		b, err := json.Marshal(c)
		if err != nil {
			fmt.Fprintln(os.Stderr, err)
			os.Exit(3)
		}
		w.Write(b)
		w.WriteByte('\n')
	}
	switch o.Mode {
	case "gen":
		r := NewRand(o.Seed)
		for i := 0; i < o.N; i++ {
			in := genInput(r.Fork(), i, o)
			if in == nil {
				break // finite enumeration exhausted
			}
			raw, err := json.Marshal(in)
			if err != nil {
				fmt.Fprintln(os.Stderr, err)
				os.Exit(3)
			}
			emit(i, raw)
		}
	case "replay":
		rf, err := os.Open(o.In)
		if err != nil {
			fmt.Fprintln(os.Stderr, err)
			os.Exit(2)
		}
		sc := bufio.NewScanner(rf)
		sc.Buffer(make([]byte, 1<<20), 1<<30)
		i := 0
		for sc.Scan() {
			var c struct {
				Input json.RawMessage `json:"input"`
			}
			if err := json.Unmarshal(sc.Bytes(), &c); err != nil {
				fmt.Fprintln(os.Stderr, err)
				os.Exit(2)
			}
			emit(i, c.Input)
			i++
		}
	default:
		fmt.Fprintln(os.Stderr, "unknown mode", o.Mode)
		os.Exit(2)
	}
	w.Flush()
	f.Close()
}

// ---------------------------------------------------------------- Coq term printers

// CoqString prints a Coq string literal (only printable ASCII is allowed; use CoqBytes otherwise)
func CoqString(s string) string {
	return "\"" + strings.ReplaceAll(s, "\"", "\"\"") + "\"%string"
}

// CoqStr prints a Coq string literal WITHOUT the %string delimiter (much faster to parse in bulk;
// needs `Open Scope string_scope.` in the case prelude)
func CoqStr(s string) string {
	return "\"" + strings.ReplaceAll(s, "\"", "\"\"") + "\""
}

// IsPlain reports whether s can be written as a Coq string literal
func IsPlain(s string) bool {
	for i := 0; i < len(s); i++ {
		if s[i] < 32 || s[i] > 126 {
			return false
		}
	}
	return true
}

func CoqZ(v int64) string {
	if v < 0 {
		return "(" + strconv.FormatInt(v, 10) + ")%Z"
	}
	return strconv.FormatInt(v, 10) + "%Z"
}
func CoqN(v uint64) string   { return strconv.FormatUint(v, 10) + "%N" }
func CoqNat(v int) string    { return strconv.Itoa(v) + "%nat" }
func CoqBool(b bool) string  { return map[bool]string{true: "true", false: "false"}[b] }
func CoqList(xs []string) string {
	return "[" + strings.Join(xs, "; ") + "]"
}
func CoqBytes(b []byte) string {
	xs := make([]string, len(b))
	for i, c := range b {
		xs[i] = strconv.Itoa(int(c))
	}
	return "[" + strings.Join(xs, "; ") + "]%N"
}
func CoqStrings(ss []string) string {
	xs := make([]string, len(ss))
	for i, s := range ss {
		xs[i] = CoqString(s)
	}
	return CoqList(xs)
}
func CoqOption(some bool, v string) string {
	if some {
		return "(Some " + v + ")"
	}
	return "None"
}
func CoqPair(a, b string) string { return "(" + a + ", " + b + ")" }

// SortedCopy returns a sorted copy (canonicalisation of map/set output)
func SortedCopy(ss []string) []string {
	out := append([]string(nil), ss...)
	sort.Strings(out)
	return out
}

// Recover runs f and reports whether it panicked
func Recover(f func()) (panicked bool, msg string) {
	defer func() {
		if r := recover(); r != nil {
			panicked = true
			msg = fmt.Sprint(r)
		}
	}()
	f()
	return
}
