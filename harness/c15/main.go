// C15 correspondence harness: the real distributed.QueryRunner.Run / RunStreaming with a mock Querier
// that delivers generated per-host results in every permutation (<= 5 hosts) or in PRNG-chosen orders
// (<= 40 hosts).  The delivery order is fixed by a pre-filled, closed channel: no goroutine timing.
package main

import (
	"context"
	"encoding/json"
	"errors"
	"fmt"
	"io"
	"log"
	"net/http"
	"net/http/httptest"
	"net/netip"
	"sort"
	"strconv"
	"strings"
	"time"

	"verifharness/vhlib"

	"github.com/danielgtaylor/huma/v2/sse"
	gqdist "github.com/els0r/goProbe/v4/cmd/global-query/pkg/distributed"
	"github.com/els0r/goProbe/v4/pkg/api"
	"github.com/els0r/goProbe/v4/pkg/api/goprobe/client"
	pkgdist "github.com/els0r/goProbe/v4/pkg/distributed"
	"github.com/els0r/goProbe/v4/pkg/distributed/hosts"
	"github.com/els0r/goProbe/v4/pkg/query"
	"github.com/els0r/goProbe/v4/pkg/results"
	"github.com/els0r/goProbe/v4/pkg/types"
	"github.com/els0r/goProbe/v4/pkg/types/workload"
	"github.com/els0r/goProbe/v4/plugins/querier/apiclient"
)

// ---------------------------------------------------------------- input

type keyIn struct {
	Inst  int64  `json:"inst"` // unix seconds; zeroT + zone 0 = time.Time{}
	Zone  int    `json:"zone"` // index into the location pool (identity of the *Location)
	Iface string `json:"iface"`
	Host  string `json:"host"`
	HID   string `json:"hid"`
	Sip   int    `json:"sip"` // index into the address pool
	Dip   int    `json:"dip"`
	Proto uint8  `json:"proto"`
	Dport uint16 `json:"dport"`
}
type rowIn struct {
	K keyIn     `json:"k"`
	C [4]uint64 `json:"c"` // br bs pr ps
}
type statusIn struct {
	H    string `json:"h"`
	Code string `json:"code"`
	Msg  string `json:"msg"`
}
type hostIn struct {
	Host      string     `json:"host"`
	Kind      int        `json:"kind,omitempty"`      // api cases: 0 configured+alive, 1 configured+down, 2 not configured
	Err       string     `json:"err,omitempty"`       // non-empty: the reply carries an error
	ErrInner  string     `json:"err_inner,omitempty"` // non-empty: Err wraps this error (%w)
	Statuses  []statusIn `json:"statuses,omitempty"`
	Rows      []rowIn    `json:"rows,omitempty"`
	Ifaces    []string   `json:"ifaces,omitempty"`
	First     int64      `json:"first"`
	FirstZone int        `json:"first_zone"`
	Last      int64      `json:"last"`
	LastZone  int        `json:"last_zone"`
	Totals    [4]uint64  `json:"totals"`
	Stats     *[6]uint64 `json:"stats,omitempty"`
	Hits      int64      `json:"hits"`
}
type input struct {
	Query  string   `json:"query"`
	SortBy string   `json:"sort_by"`
	In     bool     `json:"in"`
	Out    bool     `json:"out"`
	Sum    bool     `json:"sum"`
	Asc    bool     `json:"asc"`
	Num    uint64   `json:"num"`
	Hosts  []hostIn `json:"hosts"`
	Api    bool     `json:"api,omitempty"` // true: the REAL apiclient querier against loopback HTTP servers
	Res    string   `json:"res,omitempty"` // time resolution ("" = default 5m, "10m", "1h"); effective for time queries
	NRand  int      `json:"n_rand"`        // > 5 hosts: number of PRNG orders
	OSeed  uint64   `json:"oseed"`
}

const zeroT = int64(-62135596800)

// location pool: the index is the identity of the *time.Location (Go map keys compare the pointer)
var locs = []*time.Location{
	nil,                          // 0: UTC (Time.loc == nil)
	time.Local,                   // 1: &localLoc (TZ=UTC: same offset as 0, different pointer)
	time.FixedZone("A", 3600),    // 2 (an unnamed whole-hour zone would be a shared, cached pointer)
	time.FixedZone("A", 3600),    // 3: same name and offset as 2, different pointer
	time.FixedZone("X", -7200),   // 4
	time.FixedZone("IST", 19800), // 5
}

func mkTime(inst int64, zone int) time.Time {
	t := time.Unix(inst, 0)
	if zone == 0 {
		return t.UTC()
	}
	return t.In(locs[zone])
}
func zoneOf(t time.Time) int {
	l := t.Location()
	if l == time.UTC {
		return 0
	}
	for i := 1; i < len(locs); i++ {
		if l == locs[i] {
			return i
		}
	}
	return -1
}

// address pool; code = (bit length class, value) as one integer whose order is netip.Addr.Compare
var addrStrs = []string{"", "10.0.0.1", "10.0.0.2", "192.168.1.255", "::1", "2001:db8::1", "::ffff:10.0.0.1"}
var addrs []netip.Addr
var addrCodes []int // rank of the address in netip.Addr.Compare order (order-isomorphic on the pool)

func init() {
	for _, s := range addrStrs {
		var a netip.Addr
		if s != "" {
			a = netip.MustParseAddr(s)
		}
		addrs = append(addrs, a)
	}
	for i := range addrs {
		rank := 0
		for j := range addrs {
			if (addrs[i] == addrs[j]) != (i == j) {
				panic("address pool has duplicates")
			}
			if addrs[j].Compare(addrs[i]) < 0 {
				rank++
			}
		}
		addrCodes = append(addrCodes, rank)
	}
	for i := range addrs {
		for j := range addrs {
			if sign(addrs[i].Compare(addrs[j])) != sign(addrCodes[i]-addrCodes[j]) || addrs[i].Less(addrs[j]) != (addrCodes[i] < addrCodes[j]) {
				panic("address code order does not match netip.Addr.Compare")
			}
		}
	}
	for i := range locs {
		for j := range locs {
			if i != j && locs[i] == locs[j] {
				panic("location pool: pointers must be distinct")
			}
		}
	}
	log.SetOutput(io.Discard)
}
func sign(x int) int {
	if x < 0 {
		return -1
	}
	if x > 0 {
		return 1
	}
	return 0
}
func addrIndex(a netip.Addr) int {
	for i := range addrs {
		if addrs[i] == a {
			return i
		}
	}
	return -1
}

// ---------------------------------------------------------------- generator

var bigs = []uint64{0, 1, 2, 3, 7, 100, 1 << 32, 1<<63 - 1, 1 << 63, ^uint64(0), ^uint64(0) - 1}

func genCounter(r *vhlib.Rand) uint64 {
	if r.Chance(12) {
		return vhlib.Pick(r, bigs)
	}
	return uint64(r.Intn(50))
}

func genKeyPool(r *vhlib.Rand, tieProne bool, timeQ bool) []keyIn {
	n := 2 + r.Intn(6)
	pool := make([]keyIn, 0, n)
	for len(pool) < n {
		if tieProne && len(pool) > 0 && r.Chance(50) { // a copy that differs in the location (unordered by Row.Less) or host id only
			k := vhlib.Pick(r, pool)
			if k.Inst != zeroT && r.Chance(70) {
				k.Zone = (k.Zone + 1 + r.Intn(len(locs)-1)) % len(locs)
			} else {
				k.HID = k.HID + "x"
			}
			pool = append(pool, k)
			continue
		}
		if timeQ && len(pool) > 0 && r.Chance(50) { // another 5-minute timestamp of the same flow (same or next bin)
			k := vhlib.Pick(r, pool)
			k.Inst += 300 * int64(1+r.Intn(2))
			if !tieProne {
				k.Zone = int(k.Inst/300) % len(locs)
			}
			pool = append(pool, k)
			continue
		}
		k := keyIn{Iface: vhlib.Pick(r, []string{"eth0", "eth1", ""}), Host: vhlib.Pick(r, []string{"", "a", "b"}),
			Sip: r.Intn(len(addrs)), Dip: r.Intn(len(addrs)), Proto: vhlib.Pick(r, []uint8{0, 6, 17}), Dport: vhlib.Pick(r, []uint16{0, 80, 443})}
		if timeQ || r.Chance(30) {
			k.Inst = 1700000000 + 300*int64(r.Intn(4))
			if tieProne {
				k.Zone = r.Intn(len(locs))
			} else {
				k.Zone = int(k.Inst/300) % len(locs) // one location per instant: Row.Less orders all keys
			}
		} else {
			k.Inst = zeroT
		}
		if tieProne {
			k.HID = vhlib.Pick(r, []string{"", "1", "2"})
		} else if k.Host != "" {
			k.HID = "id-" + k.Host
		}
		pool = append(pool, k)
	}
	return pool
}

func genHost(r *vhlib.Rand, i int, pool []keyIn, maxRows int) hostIn {
	h := hostIn{Host: "h" + strconv.Itoa(i)}
	if r.Chance(18) {
		h.Err = vhlib.Pick(r, []string{"connection refused", "timeout", "bad gateway"})
		if r.Chance(50) {
			h.ErrInner = vhlib.Pick(r, []string{"dial tcp: i/o timeout", "EOF"})
		}
		return h
	}
	nrows := 0
	if !r.Chance(25) {
		nrows = 1 + r.Intn(maxRows)
	}
	for j := 0; j < nrows; j++ {
		row := rowIn{K: vhlib.Pick(r, pool)}
		for c := range row.C {
			row.C[c] = genCounter(r)
		}
		h.Rows = append(h.Rows, row)
	}
	code := "ok"
	if nrows == 0 {
		code = vhlib.Pick(r, []string{"empty", "missing data"})
	}
	h.Statuses = []statusIn{{H: h.Host, Code: code}}
	if r.Chance(10) {
		h.Statuses = append(h.Statuses, statusIn{H: "sub-" + h.Host, Code: "error", Msg: "nested"})
	}
	if r.Chance(5) {
		h.Statuses = nil
	}
	for _, f := range []string{"eth0", "eth1", "wlan0"} {
		if r.Chance(45) {
			h.Ifaces = append(h.Ifaces, f)
		}
	}
	if r.Chance(8) {
		h.First, h.FirstZone = zeroT, 0
	} else {
		h.First, h.FirstZone = 1699990000+100*int64(r.Intn(8)), r.Intn(len(locs))
	}
	if r.Chance(5) {
		h.Last, h.LastZone = zeroT, 0
	} else {
		h.Last, h.LastZone = 1700003000+100*int64(r.Intn(8)), r.Intn(len(locs))
	}
	for c := range h.Totals {
		h.Totals[c] = genCounter(r)
	}
	if r.Chance(85) {
		var s [6]uint64
		for c := range s {
			s[c] = genCounter(r)
		}
		h.Stats = &s
	}
	h.Hits = int64(nrows + r.Intn(3))
	if r.Chance(6) {
		h.Hits = vhlib.Pick(r, []int64{1<<63 - 1, 1<<62 + 5, 0, -1})
	}
	return h
}

func distinctKeys(in *input) []keyIn {
	seen := map[keyIn]bool{}
	var ks []keyIn
	for _, h := range in.Hosts {
		if h.Err != "" {
			continue
		}
		for _, row := range h.Rows {
			if !seen[row.K] {
				seen[row.K] = true
				ks = append(ks, row.K)
			}
		}
	}
	return ks
}

// two distinct keys that the real Row.Less does not order either way
func keyTies(ks []keyIn) bool {
	for i := range ks {
		for j := i + 1; j < len(ks); j++ {
			a, b := mkRow(rowIn{K: ks[i]}), mkRow(rowIn{K: ks[j]})
			if !a.Less(&b) && !b.Less(&a) {
				return true
			}
		}
	}
	return false
}

func hand(i int) *input {
	k1 := keyIn{Inst: zeroT, Iface: "eth0", Host: "a", Sip: 1, Dip: 3, Proto: 6, Dport: 443}
	k2 := keyIn{Inst: zeroT, Iface: "eth0", Host: "b", Sip: 2, Dip: 3, Proto: 17, Dport: 80}
	st := func(h, c string) []statusIn { return []statusIn{{H: h, Code: c}} }
	base := input{Query: "sip,dip,dport,proto", SortBy: "bytes", Num: 1000}
	switch i {
	case 0: // First/Last: a:[100,200] without rows, b:[50,400] with a row (also: early empty reply)
		base.Hosts = []hostIn{
			{Host: "h0", Statuses: st("h0", "empty"), First: 100, Last: 200, Ifaces: []string{"eth0"}},
			{Host: "h1", Statuses: st("h1", "ok"), First: 50, Last: 400, Ifaces: []string{"eth0"},
				Rows: []rowIn{{K: k1, C: [4]uint64{10, 0, 1, 0}}}, Totals: [4]uint64{10, 0, 1, 0}, Hits: 1, Stats: &[6]uint64{5, 6, 3, 0, 1, 2}}}
	case 1: // statistics of three hosts
		for j := 0; j < 3; j++ {
			base.Hosts = append(base.Hosts, hostIn{Host: "h" + strconv.Itoa(j), Statuses: st("h"+strconv.Itoa(j), "ok"), First: 1000, Last: 2000,
				Rows: []rowIn{{K: k1, C: [4]uint64{1, 2, 3, 4}}}, Totals: [4]uint64{1, 2, 3, 4}, Hits: 1, Stats: &[6]uint64{7, 11, 13, 1, 2, 3}})
		}
	case 2: // errors (plain and wrapped) around one good host
		base.Hosts = []hostIn{{Host: "h0", Err: "timeout"}, {Host: "h1", Err: "failed to run", ErrInner: "EOF"},
			{Host: "h2", Statuses: st("h2", "ok"), First: 10, Last: 20, Rows: []rowIn{{K: k2, C: [4]uint64{1, 1, 1, 1}}}, Hits: 1}}
	case 3: // same instant, different locations: distinct map keys
		ka, kb, kc := k1, k1, k1
		ka.Inst, kb.Inst, kc.Inst = 1700000000, 1700000000, 1700000000
		ka.Zone, kb.Zone, kc.Zone = 0, 2, 3
		base.Query = "time,sip,dip,dport,proto"
		base.Hosts = []hostIn{
			{Host: "h0", Statuses: st("h0", "ok"), First: 1699999000, Last: 1700000000, Rows: []rowIn{{K: ka, C: [4]uint64{1, 0, 1, 0}}, {K: kb, C: [4]uint64{2, 0, 1, 0}}}, Hits: 2},
			{Host: "h1", Statuses: st("h1", "ok"), First: 1699999000, FirstZone: 2, Last: 1700000000, LastZone: 3, Rows: []rowIn{{K: kc, C: [4]uint64{4, 0, 1, 0}}, {K: kb, C: [4]uint64{8, 0, 1, 0}}}, Hits: 2}}
	case 4: // overlapping rows, counter wrap-around, limit 1
		base.Num = 1
		base.Hosts = []hostIn{
			{Host: "h0", Statuses: st("h0", "ok"), First: 5, Last: 6, Rows: []rowIn{{K: k1, C: [4]uint64{^uint64(0), 1, 1, 1}}, {K: k2, C: [4]uint64{3, 3, 3, 3}}}, Totals: [4]uint64{^uint64(0), 0, 0, 0}, Hits: 2},
			{Host: "h1", Statuses: st("h1", "ok"), First: 4, Last: 7, Rows: []rowIn{{K: k1, C: [4]uint64{2, 1, 1, 1}}, {K: k1, C: [4]uint64{1, 0, 0, 0}}}, Totals: [4]uint64{5, 0, 0, 0}, Hits: 2},
			{Host: "h2", Statuses: st("h2", "empty"), First: zeroT, Last: zeroT}}
	case 5: // only failures
		base.Hosts = []hostIn{{Host: "h0", Err: "timeout"}, {Host: "h1", Err: "refused"}}
	case 6: // nothing but empty replies
		base.Hosts = []hostIn{{Host: "h0", Statuses: st("h0", "empty"), First: 100, Last: 200}, {Host: "h1", Statuses: st("h1", "empty"), First: 100, Last: 150}}
	case 7: // empty first, rows later, ascending packets, out
		base.SortBy, base.Out, base.Asc = "packets", true, true
		base.Hosts = []hostIn{{Host: "h0", Statuses: st("h0", "empty"), First: 100, Last: 200},
			{Host: "h1", Statuses: st("h1", "ok"), First: 150, Last: 180, Rows: []rowIn{{K: k1, C: [4]uint64{1, 2, 3, 4}}, {K: k2, C: [4]uint64{4, 3, 2, 1}}}, Hits: 2},
			{Host: "h2", Err: "timeout"},
			{Host: "h3", Statuses: st("h3", "ok"), First: 90, Last: 190, Rows: []rowIn{{K: k2, C: [4]uint64{1, 1, 1, 1}}}, Hits: 1}}
	case 8, 9: // time resolution 10m / 1h: 5-minute rows of two hosts fold into one bin (BinTime rewrites Hits.Total)
		ka, kb, kc := k1, k1, k1
		ka.Inst, kb.Inst, kc.Inst = 1700000100, 1700000400, 1700000700
		ka.Zone, kb.Zone, kc.Zone = 0, 2, 4
		base.Query, base.Res = "time,sip,dip,dport,proto", []string{"10m", "1h"}[i-8]
		base.Hosts = []hostIn{
			{Host: "h0", Statuses: st("h0", "ok"), First: 1699999000, Last: 1700000700, Rows: []rowIn{{K: ka, C: [4]uint64{1, 0, 1, 0}}, {K: kb, C: [4]uint64{2, 0, 1, 0}}}, Hits: 2},
			{Host: "h1", Statuses: st("h1", "empty"), First: 1699999000, Last: 1700000700},
			{Host: "h2", Statuses: st("h2", "ok"), First: 1699999000, Last: 1700000700, Rows: []rowIn{{K: kb, C: [4]uint64{4, 0, 1, 0}}, {K: kc, C: [4]uint64{8, 0, 1, 0}}}, Hits: 2},
			{Host: "h3", Err: "timeout"}}
	case 10, 11, 12: // real API client querier: configured+alive, configured+down, not configured
		alive := hostIn{Host: "alive", Statuses: st("alive", "ok"), First: 1712912400, Last: 1712916000, Ifaces: []string{"eth0"},
			Rows: []rowIn{{K: k1, C: [4]uint64{10, 0, 1, 0}}}, Totals: [4]uint64{10, 0, 1, 0}, Hits: 1}
		down := hostIn{Host: "down", Kind: 1, Err: errDown}
		ghost := hostIn{Host: "ghost", Kind: 2, Err: errUnconfigured}
		base.Api = true
		base.Hosts = [][]hostIn{{alive, down, ghost}, {ghost, alive}, {ghost}}[i-10]
	default:
		return nil
	}
	return &base
}

const errDown = "down-error" // the message of an unreachable host names the port: normalised by project
const errUnconfigured = "couldn't find endpoint configuration for host"

// genAPI: host lists mixing configured+alive, configured+down and unconfigured hosts for the real querier
func genAPI(r *vhlib.Rand) *input {
	in := &input{Api: true, Query: "sip,dip,dport,proto", SortBy: vhlib.Pick(r, []string{"bytes", "packets"}), Asc: r.Chance(30), Num: 1000, OSeed: r.U64()}
	pool := genKeyPool(r, false, false)
	for i := range pool { // a *time.Location does not survive JSON: rows without timestamp only
		pool[i].Inst, pool[i].Zone = zeroT, 0
	}
	n := 1 + r.Intn(4)
	withDown := r.Chance(6)
	for j := 0; j < n; j++ {
		h := genHost(r, j, pool, 3)
		h.Err, h.ErrInner = "", ""
		switch {
		case j == 0 && withDown: // the real client retries a dead endpoint for 7 s: at most one such host, rarely
			h = hostIn{Host: h.Host, Kind: 1, Err: errDown}
		case r.Chance(40):
			h = hostIn{Host: h.Host, Kind: 2, Err: errUnconfigured}
		}
		if h.Kind == 0 && h.Statuses == nil {
			h.Statuses = []statusIn{{H: h.Host, Code: "ok"}}
		}
		in.Hosts = append(in.Hosts, h)
	}
	return in
}

func gen(r *vhlib.Rand, i int, o vhlib.Opts) any {
	if h := hand(i); h != nil {
		return h
	}
	if r.Chance(12) {
		return genAPI(r)
	}
	in := &input{SortBy: vhlib.Pick(r, []string{"bytes", "packets"}), Asc: r.Chance(30), OSeed: r.U64()}
	switch r.Intn(4) {
	case 0:
		in.In = true
	case 1:
		in.Out = true
	case 2:
		in.Sum = true
	}
	timeQ := r.Chance(25)
	in.Query = "sip,dip,dport,proto"
	if timeQ {
		in.Query = "time,sip,dip,dport,proto"
		in.Res = vhlib.Pick(r, []string{"", "10m", "10m", "1h"})
	}
	in.Num = vhlib.Pick(r, []uint64{1, 2, 3, 5, 1000, 1000})
	tieProne := r.Chance(30)
	pool := genKeyPool(r, tieProne, timeQ)
	n, maxRows := 1+r.Intn(5), 4
	if r.Chance(25) {
		n, maxRows = 6+r.Intn(7), 1
		if o.Search || o.Tier == "thorough" || r.Chance(10) {
			n = 6 + r.Intn(35)
		}
	} else if o.Search {
		maxRows = 6
	}
	for j := 0; j < n; j++ {
		in.Hosts = append(in.Hosts, genHost(r, j, pool, maxRows))
	}
	in.NRand = 12
	if o.Tier == "thorough" || o.Search {
		in.NRand = 40
	}
	// rows that Row.Less cannot order must not be cut by the limit (the cut would depend on map order)
	if ks := distinctKeys(in); keyTies(ks) && in.Num < uint64(len(ks)) {
		in.Num = 1000
	}
	return in
}

// ---------------------------------------------------------------- running the real code

func mkRow(ri rowIn) results.Row {
	var row results.Row
	row.Labels.Timestamp = mkTime(ri.K.Inst, ri.K.Zone)
	row.Labels.Iface, row.Labels.Hostname, row.Labels.HostID = ri.K.Iface, ri.K.Host, ri.K.HID
	row.Attributes.SrcIP, row.Attributes.DstIP = addrs[ri.K.Sip], addrs[ri.K.Dip]
	row.Attributes.IPProto, row.Attributes.DstPort = ri.K.Proto, ri.K.Dport
	row.Counters = types.Counters{BytesRcvd: ri.C[0], BytesSent: ri.C[1], PacketsRcvd: ri.C[2], PacketsSent: ri.C[3]}
	return row
}

func queryOf(in *input) results.Query {
	return results.Query{Attributes: strings.Split(in.Query, ","), Condition: ""}
}

// a fresh *results.Result per run: the aggregation mutates what it receives
func mkResult(in *input, h *hostIn) *results.Result {
	res := results.New()
	if h.Err != "" {
		var err error = errors.New(h.Err)
		if h.ErrInner != "" {
			err = fmt.Errorf("%s: %w", h.Err, errors.New(h.ErrInner))
		}
		res.SetErr(err) // as apiclient.Query does it
		res.Hostname = h.Host
		return res
	}
	res.Hostname = h.Host
	for _, s := range h.Statuses {
		res.HostsStatuses[s.H] = results.Status{Code: types.Status(s.Code), Message: s.Msg}
	}
	for _, ri := range h.Rows {
		res.Rows = append(res.Rows, mkRow(ri))
	}
	res.Summary.Interfaces = append(results.Interfaces(nil), h.Ifaces...)
	res.Summary.First, res.Summary.Last = mkTime(h.First, h.FirstZone), mkTime(h.Last, h.LastZone)
	res.Summary.Totals = types.Counters{BytesRcvd: h.Totals[0], BytesSent: h.Totals[1], PacketsRcvd: h.Totals[2], PacketsSent: h.Totals[3]}
	if h.Stats != nil {
		s := h.Stats
		res.Summary.Stats = &workload.Stats{BytesLoaded: s[0], BytesDecompressed: s[1], BlocksProcessed: s[2], BlocksCorrupted: s[3], DirectoriesProcessed: s[4], Workloads: s[5]}
	}
	res.Summary.Hits.Total = int(h.Hits)
	res.Query = queryOf(in)
	return res
}

type mockQuerier struct{ replies []*results.Result }

func (m *mockQuerier) Query(_ context.Context, _ hosts.Hosts, _ *query.Args) (<-chan *results.Result, <-chan struct{}) {
	rc := make(chan *results.Result, len(m.replies))
	for _, r := range m.replies {
		rc <- r
	}
	close(rc)
	kc := make(chan struct{})
	close(kc)
	return rc, kc
}

// apiEnv: one loopback HTTP server per configured+alive host serving its result as JSON, a closed port for
// every configured+down host, no endpoint for the others; one runner => replies arrive in host list order
type apiEnv struct {
	servers []*httptest.Server
	querier *apiclient.APIClientQuerier
}

var downHosts = map[string]bool{}

func setupAPI(in *input) (*apiEnv, error) {
	env := &apiEnv{querier: &apiclient.APIClientQuerier{APIEndpoints: map[string]*client.Config{}, MaxConcurrent: 1}}
	downHosts = map[string]bool{}
	for i := range in.Hosts {
		h := &in.Hosts[i]
		switch h.Kind {
		case 0:
			body, err := json.Marshal(mkResult(in, h))
			if err != nil {
				return nil, err
			}
			srv := httptest.NewServer(http.HandlerFunc(func(w http.ResponseWriter, r *http.Request) {
				if r.URL.Path != api.QueryRoute {
					http.NotFound(w, r)
					return
				}
				w.Header().Set("Content-Type", "application/json")
				_, _ = w.Write(body)
			}))
			env.servers = append(env.servers, srv)
			env.querier.APIEndpoints[h.Host] = &client.Config{Addr: strings.TrimPrefix(srv.URL, "http://"), RequestTimeout: 20 * time.Second}
		case 1:
			dead := httptest.NewServer(http.NotFoundHandler())
			addr := strings.TrimPrefix(dead.URL, "http://")
			dead.Close()
			env.querier.APIEndpoints[h.Host] = &client.Config{Addr: addr, RequestTimeout: 20 * time.Second}
			downHosts[h.Host] = true
		}
	}
	return env, nil
}
func (e *apiEnv) close() {
	for _, s := range e.servers {
		s.Close()
	}
}

type listResolver struct{ hs hosts.Hosts }

func (l *listResolver) Resolve(context.Context, string) (hosts.Hosts, error) { return l.hs, nil }

func mkArgs(in *input) *query.Args {
	names := make([]string, len(in.Hosts))
	for i, h := range in.Hosts {
		names[i] = h.Host
	}
	return &query.Args{Query: in.Query, Ifaces: "eth0", Format: "json", MaxMemPct: 60, NumResults: in.Num,
		First: "2023-11-14T00:00:00Z", Last: "2023-11-15T12:00:00Z", SortBy: in.SortBy, SortAscending: in.Asc,
		In: in.In, Out: in.Out, Sum: in.Sum, QueryHosts: strings.Join(names, ","), TimeResolution: in.Res}
}

// ---------------------------------------------------------------- projection

type obsRow struct {
	K keyIn     `json:"k"`
	C [4]uint64 `json:"c"`
}
type obs struct {
	Rows      []obsRow   `json:"rows"`
	Statuses  []statusIn `json:"statuses"`
	Ifaces    []string   `json:"ifaces"`
	QAttrs    []string   `json:"q_attrs"`
	QCond     string     `json:"q_cond"`
	First     int64      `json:"first"`
	Last      int64      `json:"last"`
	Totals    [4]uint64  `json:"totals"`
	Stats     [6]uint64  `json:"stats"`
	Hits      int64      `json:"hits"`
	Displayed int64      `json:"displayed"`
	Code      string     `json:"code"`
	Msg       string     `json:"msg"`
	Bad       string     `json:"bad,omitempty"`
}

func keyLess(a, b keyIn) bool {
	if a.Inst != b.Inst {
		return a.Inst < b.Inst
	}
	if a.Zone != b.Zone {
		return a.Zone < b.Zone
	}
	if a.Iface != b.Iface {
		return a.Iface < b.Iface
	}
	if a.Host != b.Host {
		return a.Host < b.Host
	}
	if a.HID != b.HID {
		return a.HID < b.HID
	}
	if addrCodes[a.Sip] != addrCodes[b.Sip] {
		return addrCodes[a.Sip] < addrCodes[b.Sip]
	}
	if addrCodes[a.Dip] != addrCodes[b.Dip] {
		return addrCodes[a.Dip] < addrCodes[b.Dip]
	}
	if a.Proto != b.Proto {
		return a.Proto < b.Proto
	}
	return a.Dport < b.Dport
}

func project(res *results.Result, tied bool) obs {
	var o obs
	if res == nil {
		o.Bad = "nil result"
		return o
	}
	for _, row := range res.Rows {
		k := keyIn{Inst: row.Labels.Timestamp.Unix(), Zone: zoneOf(row.Labels.Timestamp), Iface: row.Labels.Iface, Host: row.Labels.Hostname,
			HID: row.Labels.HostID, Sip: addrIndex(row.Attributes.SrcIP), Dip: addrIndex(row.Attributes.DstIP), Proto: row.Attributes.IPProto, Dport: row.Attributes.DstPort}
		if k.Zone < 0 || k.Sip < 0 || k.Dip < 0 || row.Labels.Timestamp.Nanosecond() != 0 {
			o.Bad = "row outside the generated domain"
		}
		o.Rows = append(o.Rows, obsRow{K: k, C: [4]uint64{row.Counters.BytesRcvd, row.Counters.BytesSent, row.Counters.PacketsRcvd, row.Counters.PacketsSent}})
	}
	if tied {
		sort.SliceStable(o.Rows, func(i, j int) bool { return keyLess(o.Rows[i].K, o.Rows[j].K) })
	}
	for h, s := range res.HostsStatuses {
		msg := s.Message
		if downHosts[h] && s.Code == types.StatusError && msg != "" {
			msg = errDown
		}
		o.Statuses = append(o.Statuses, statusIn{H: h, Code: string(s.Code), Msg: msg})
	}
	sort.Slice(o.Statuses, func(i, j int) bool { return o.Statuses[i].H < o.Statuses[j].H })
	o.Ifaces = append([]string(nil), res.Summary.Interfaces...)
	o.QAttrs, o.QCond = append([]string(nil), res.Query.Attributes...), res.Query.Condition
	o.First, o.Last = res.Summary.First.Unix(), res.Summary.Last.Unix()
	t := res.Summary.Totals
	o.Totals = [4]uint64{t.BytesRcvd, t.BytesSent, t.PacketsRcvd, t.PacketsSent}
	if s := res.Summary.Stats; s != nil {
		o.Stats = [6]uint64{s.BytesLoaded, s.BytesDecompressed, s.BlocksProcessed, s.BlocksCorrupted, s.DirectoriesProcessed, s.Workloads}
	} else {
		o.Bad = "nil stats"
	}
	o.Hits, o.Displayed = int64(res.Summary.Hits.Total), int64(res.Summary.Hits.Displayed)
	o.Code, o.Msg = string(res.Status.Code), res.Status.Message
	if res.Hostname != "" || res.Err() != nil {
		o.Bad = "hostname / error set on the aggregate"
	}
	return o
}

type partial struct {
	Displayed int64  `json:"displayed"`
	Hits      int64  `json:"hits"`
	Code      string `json:"code"`
}
type variant struct {
	Order    []int     `json:"order"`
	Batch    obs       `json:"batch"`
	Stream   obs       `json:"stream"`
	Partials []partial `json:"partials"`
	Count    int       `json:"count"`
}
type observed struct {
	Class     string    `json:"class"` // ok | panic | error
	Msg       string    `json:"msg,omitempty"`
	NOrders   int       `json:"n_orders"`
	NDistinct int       `json:"n_distinct"`
	Variants  []variant `json:"variants"`
	Tied      bool      `json:"tied"`
	Stmt      [5]int64  `json:"stmt"`
}

func runOrder(in *input, order []int, tied bool, env *apiEnv) (variant, error) {
	v := variant{Order: order}
	hs := make(hosts.Hosts, len(in.Hosts))
	for i, h := range in.Hosts {
		hs[i] = h.Host
	}
	if env != nil { // the real querier works through the resolved host list in its order
		for i, ix := range order {
			hs[i] = in.Hosts[ix].Host
		}
	}
	querier := func() pkgdist.Querier {
		if env != nil {
			return env.querier
		}
		out := make([]*results.Result, len(order))
		for i, ix := range order {
			out[i] = mkResult(in, &in.Hosts[ix])
		}
		return &mockQuerier{replies: out}
	}
	rm := hosts.NewResolverMap()
	rm.Set("string", &listResolver{hs: hs})
	ctx, cancel := context.WithTimeout(context.Background(), 120*time.Second) // watchdog only
	defer cancel()
	res, err := gqdist.NewQueryRunner(rm, querier()).Run(ctx, mkArgs(in))
	if err != nil {
		return v, err
	}
	v.Batch = project(res, tied)
	send := func(msg sse.Message) error {
		if p, ok := msg.Data.(*api.PartialResult); ok && p.Result != nil {
			v.Partials = append(v.Partials, partial{Displayed: int64(p.Summary.Hits.Displayed), Hits: int64(p.Summary.Hits.Total), Code: string(p.Status.Code)})
		}
		return nil
	}
	res, err = gqdist.NewQueryRunner(rm, querier()).RunStreaming(ctx, mkArgs(in), sse.Sender(send))
	if err != nil {
		return v, err
	}
	v.Stream = project(res, tied)
	return v, nil
}

func permutations(n int) [][]int {
	var out [][]int
	p := make([]int, n)
	for i := range p {
		p[i] = i
	}
	var rec func(k int)
	rec = func(k int) {
		if k == n {
			out = append(out, append([]int(nil), p...))
			return
		}
		for i := k; i < n; i++ {
			p[k], p[i] = p[i], p[k]
			rec(k + 1)
			p[k], p[i] = p[i], p[k]
		}
	}
	rec(0)
	return out
}

func orders(in *input) [][]int {
	n := len(in.Hosts)
	for _, h := range in.Hosts {
		if in.Api && h.Kind == 1 && n > 1 { // every request to a dead endpoint costs 7 s of client retries
			id, rev := make([]int, n), make([]int, n)
			for i := range id {
				id[i], rev[i] = i, n-1-i
			}
			return [][]int{id, rev}
		}
	}
	if n <= 5 {
		ps := permutations(n)
		sort.Slice(ps, func(i, j int) bool { // identity first, deterministic order
			for k := range ps[i] {
				if ps[i][k] != ps[j][k] {
					return ps[i][k] < ps[j][k]
				}
			}
			return false
		})
		return ps
	}
	id, rev := make([]int, n), make([]int, n)
	for i := range id {
		id[i], rev[i] = i, n-1-i
	}
	out := [][]int{id, rev}
	r := vhlib.NewRand(in.OSeed)
	for k := 0; k < in.NRand; k++ {
		p := append([]int(nil), id...)
		for i := n - 1; i > 0; i-- {
			j := r.Intn(i + 1)
			p[i], p[j] = p[j], p[i]
		}
		out = append(out, p)
	}
	return out
}

// ---------------------------------------------------------------- Coq printing

func q(s string) string { return "\"" + strings.ReplaceAll(s, "\"", "\"\"") + "\"" }
func z(v int64) string {
	if v < 0 {
		return "(" + strconv.FormatInt(v, 10) + ")"
	}
	return strconv.FormatInt(v, 10)
}
func u(v uint64) string { return strconv.FormatUint(v, 10) }
func coqKey(k keyIn) string {
	return fmt.Sprintf("(%s,%d,%s,%s,%s,%d,%d,%d,%d)", z(k.Inst), k.Zone, q(k.Iface), q(k.Host), q(k.HID), addrCodes[k.Sip], addrCodes[k.Dip], k.Proto, k.Dport)
}
func coqC(c [4]uint64) string {
	return fmt.Sprintf("(C %s %s %s %s)", u(c[0]), u(c[1]), u(c[2]), u(c[3]))
}
func coqS(s [6]uint64) string {
	return fmt.Sprintf("(St %s %s %s %s %s %s)", u(s[0]), u(s[1]), u(s[2]), u(s[3]), u(s[4]), u(s[5]))
}
func coqStrs(ss []string) string {
	xs := make([]string, len(ss))
	for i, s := range ss {
		xs[i] = q(s)
	}
	return "[" + strings.Join(xs, ";") + "]"
}
func coqStatuses(ss []statusIn) string {
	xs := make([]string, len(ss))
	for i, s := range ss {
		xs[i] = fmt.Sprintf("(%s,(%s,%s))", q(s.H), q(s.Code), q(s.Msg))
	}
	return "[" + strings.Join(xs, ";") + "]"
}
func coqHost(in *input, h *hostIn) string {
	errS := "None"
	if h.Err != "" {
		if h.ErrInner != "" {
			errS = fmt.Sprintf("(Some (%s,Some %s))", q(h.Err+": "+h.ErrInner), q(h.ErrInner))
		} else {
			errS = fmt.Sprintf("(Some (%s,None))", q(h.Err))
		}
	}
	rows := make([]string, len(h.Rows))
	for i, r := range h.Rows {
		rows[i] = "(" + coqKey(r.K) + "," + coqC(r.C) + ")"
	}
	st := "None"
	if h.Stats != nil {
		st = "(Some " + coqS(*h.Stats) + ")"
	}
	qq := queryOf(in)
	return fmt.Sprintf("(HR %s %s %s [%s] %s (%s,%s) %s %s %s %s %s)", q(h.Host), errS, coqStatuses(h.Statuses), strings.Join(rows, ";"),
		coqStrs(h.Ifaces), coqStrs(qq.Attributes), q(qq.Condition), z(h.First), z(h.Last), coqC(h.Totals), st, z(h.Hits))
}
func coqObs(o obs) string {
	rows := make([]string, len(o.Rows))
	for i, r := range o.Rows {
		rows[i] = "(" + coqKey(r.K) + "," + coqC(r.C) + ")"
	}
	return fmt.Sprintf("(Obs [%s] %s %s (%s,%s) %s %s %s %s %s %s (%s,%s))", strings.Join(rows, ";"), coqStatuses(o.Statuses), coqStrs(o.Ifaces),
		coqStrs(o.QAttrs), q(o.QCond), z(o.First), z(o.Last), coqC(o.Totals), coqS(o.Stats), z(o.Hits), z(o.Displayed), q(o.Code), q(o.Msg))
}
func coqVariant(v variant) string {
	ord := make([]string, len(v.Order))
	for i, x := range v.Order {
		ord[i] = strconv.Itoa(x)
	}
	ps := make([]string, len(v.Partials))
	for i, p := range v.Partials {
		ps[i] = fmt.Sprintf("(%s,%s,%s)", z(p.Displayed), z(p.Hits), q(p.Code))
	}
	stream := "None" // None: identical to the batch outcome
	if b := coqObs(v.Batch); coqObs(v.Stream) != b {
		stream = "(Some " + coqObs(v.Stream) + ")"
	}
	return fmt.Sprintf("(V [%s] %s %s [%s])", strings.Join(ord, ";"), coqObs(v.Batch), stream, strings.Join(ps, ";"))
}

func plain(in *input) bool {
	for _, h := range in.Hosts {
		for _, s := range append([]string{h.Host, h.Err, h.ErrInner}, h.Ifaces...) {
			if !vhlib.IsPlain(s) {
				return false
			}
		}
	}
	return true
}

func run(raw json.RawMessage, o vhlib.Opts) (*vhlib.Case, error) {
	var in input
	if err := json.Unmarshal(raw, &in); err != nil {
		return nil, err
	}
	if len(in.Hosts) == 0 || len(in.Hosts) > 64 || !plain(&in) {
		return nil, fmt.Errorf("input outside the harness domain")
	}
	for _, h := range in.Hosts {
		for _, r := range h.Rows {
			if r.K.Zone < 0 || r.K.Zone >= len(locs) || r.K.Sip < 0 || r.K.Sip >= len(addrs) || r.K.Dip < 0 || r.K.Dip >= len(addrs) {
				return nil, fmt.Errorf("row outside the harness domain")
			}
		}
		if h.FirstZone < 0 || h.FirstZone >= len(locs) || h.LastZone < 0 || h.LastZone >= len(locs) {
			return nil, fmt.Errorf("zone outside the harness domain")
		}
	}
	stmt, err := mkArgs(&in).Prepare()
	if err != nil {
		return nil, fmt.Errorf("args do not prepare: %w", err)
	}
	keys := distinctKeys(&in)
	ob := observed{Class: "ok", Tied: keyTies(keys)}
	num := int64(stmt.NumResults)
	if stmt.NumResults > 1<<40 {
		num = 1 << 40
	}
	bin := int64(0) // Statement.PostProcess runs BinTime only under this condition
	if stmt.LabelSelector.Timestamp && stmt.TimeBinSize != types.DefaultTimeResolution {
		bin = int64(stmt.TimeBinSize.Seconds())
	}
	ob.Stmt = [5]int64{int64(stmt.SortBy), int64(stmt.Direction), 0, num, bin}
	if stmt.SortAscending {
		ob.Stmt[2] = 1
	}
	ords := orders(&in)
	ob.NOrders = len(ords)
	var env *apiEnv
	downHosts = map[string]bool{}
	if in.Api {
		for _, h := range in.Hosts {
			if (h.Kind == 0) != (h.Err == "") || h.ErrInner != "" || h.Kind < 0 || h.Kind > 2 ||
				(h.Kind == 1 && h.Err != errDown) || (h.Kind == 2 && h.Err != errUnconfigured) {
				return nil, fmt.Errorf("api host outside the harness domain")
			}
		}
		if env, err = setupAPI(&in); err != nil {
			return nil, err
		}
		defer env.close()
	}
	index := map[string]int{}
	var runErr error
	panicked, msg := vhlib.Recover(func() {
		for _, ord := range ords {
			v, err := runOrder(&in, ord, ob.Tied, env)
			if err != nil {
				runErr = err
				return
			}
			key := coqObs(v.Batch) + "|" + coqObs(v.Stream) + "|" + fmt.Sprint(v.Batch.Bad, v.Stream.Bad)
			if ix, ok := index[key]; ok {
				ob.Variants[ix].Count++
				continue
			}
			index[key] = len(ob.Variants)
			v.Count = 1
			ob.Variants = append(ob.Variants, v)
		}
	})
	c := &vhlib.Case{}
	if panicked {
		ob.Class, ob.Msg, ob.Variants = "panic", msg, nil
	} else if runErr != nil {
		ob.Class, ob.Msg, ob.Variants = "error", runErr.Error(), nil
	}
	ob.NDistinct = len(ob.Variants)
	shown := ob.Variants
	if len(shown) > 3 {
		shown = shown[:3]
	}
	for _, v := range shown {
		if v.Batch.Bad != "" || v.Stream.Bad != "" {
			shown = nil // not expressible: no variant => corr and holds are false
			break
		}
	}
	ob.Variants = shown
	c.Observed = ob

	hs := make([]string, len(in.Hosts))
	nErr, nEmpty, nRows := 0, 0, 0
	zones := map[int]bool{}
	for i := range in.Hosts {
		hs[i] = coqHost(&in, &in.Hosts[i])
		switch {
		case in.Hosts[i].Err != "":
			nErr++
		case len(in.Hosts[i].Rows) == 0:
			nEmpty++
		default:
			nRows += len(in.Hosts[i].Rows)
		}
		for _, r := range in.Hosts[i].Rows {
			if r.K.Inst != zeroT {
				zones[r.K.Zone] = true
			}
		}
	}
	vs := make([]string, len(shown))
	for i, v := range shown {
		vs[i] = coqVariant(v)
	}
	asc := "false"
	if stmt.SortAscending {
		asc = "true"
	}
	c.Coq = fmt.Sprintf("(Case (Stmt %d %d %s %d %d) %s [%s] %d [%s])", ob.Stmt[0], ob.Stmt[1], asc, num, bin, vhlib.CoqBool(ob.Tied),
		strings.Join(hs, ";"), len(ords), strings.Join(vs, ";"))

	tag := func(b bool, s string) {
		if b {
			c.Tags = append(c.Tags, s)
		}
	}
	switch n := len(in.Hosts); {
	case n == 1:
		tag(true, "hosts:1")
	case n <= 5:
		tag(true, "hosts:2-5(all permutations)")
	default:
		tag(true, "hosts:6-40(random orders)")
	}
	tag(nErr > 0, "error-replies")
	tag(nEmpty > 0, "empty-replies")
	tag(nErr == len(in.Hosts), "all-failed")
	tag(nRows > len(keys), "merged-rows")
	tag(len(zones) > 1, "mixed-zones")
	tag(ob.Tied, "unordered-keys")
	tag(uint64(len(keys)) > stmt.NumResults, "limit-cuts")
	tag(strings.HasPrefix(in.Query, "time"), "time-query")
	tag(bin > 0, "time-binning:"+in.Res)
	tag(in.Api, "real-apiclient-querier")
	tag(ob.Class != "ok", "class:"+ob.Class)
	tag(ob.NDistinct > 1, "order-dependent")
	c.Tags = append(c.Tags, "sort:"+stmt.SortBy.String()+"/"+stmt.Direction.String())
	c.Nontrivial = len(in.Hosts) >= 2 && nRows > 0 && len(ords) >= 2
	return c, nil
}

func main() { vhlib.Main(gen, run) }
