// C26 correspondence harness: csvimport.Import on generated CSV files, read-back of the
// destination DB through the gpfile reader (every interface / day / block / row), compared with
// the Coq model (corr) and with the group-by-sum specification (holds).
package main

import (
	"context"
	"encoding/json"
	"fmt"
	"math/big"
	"net/netip"
	"os"
	"path/filepath"
	"sort"
	"strconv"
	"strings"

	"verifharness/vhlib"

	"github.com/els0r/goProbe/v4/cmd/gpdb/pkg/csvimport"
	"github.com/els0r/goProbe/v4/pkg/goDB/encoder/encoders"
	"github.com/els0r/goProbe/v4/pkg/goDB/storage/gpfile"
	"github.com/els0r/goProbe/v4/pkg/types"
	"github.com/fako1024/gotools/bitpack"
)

// ---------------------------------------------------------------- input

// canonical field kinds of a schema column
const (
	kJunk = iota
	kIface
	kTime
	kSip
	kDip
	kDport
	kProto
	kBR // data vol. received
	kBS // data vol. sent
	kPR // packets received
	kPS // packets sent
)

var kindName = map[int]string{kIface: "iface", kTime: "time", kSip: "sip", kDip: "dip", kDport: "dport", kProto: "proto",
	kBR: "data vol. received", kBS: "data vol. sent", kPR: "packets received", kPS: "packets sent"}

type col struct {
	Kind int    `json:"k"`
	Name string `json:"n"` // the text written into the schema (case / padding variants, junk names)
}

type ipIn struct {
	V4 bool   `json:"v4"`
	B  []byte `json:"b"` // 4 or 16 bytes
}

type rowIn struct {
	Iface string    `json:"if"` // raw text of the iface column (may carry blanks, may be invalid)
	Ts    int64     `json:"ts"`
	Sip   ipIn      `json:"s"`
	Dip   ipIn      `json:"d"`
	Dport uint16    `json:"dp"`
	Proto uint8     `json:"pr"`
	PName string    `json:"pn,omitempty"` // protocol written by name (must denote Proto)
	C     [4]uint64 `json:"c"`            // br bs pr ps
	Pad   bool      `json:"pad,omitempty"`
	// malformed stream
	BadKind int    `json:"bk,omitempty"` // column kind whose text is replaced by BadText (0 = none)
	BadText string `json:"bt,omitempty"`
	NFields int    `json:"nf,omitempty"` // >0: the row is cut / extended to this many fields
}

type input struct {
	Header   bool    `json:"header"` // schema taken from the first CSV line instead of the option
	Cols     []col   `json:"cols"`
	DefIface string  `json:"def_iface"`
	MaxRows  int     `json:"max_rows"`
	Enc      int     `json:"enc"` // 0 lz4, 1 zstd, 2 null
	Rows     []rowIn `json:"rows"`
}

// ---------------------------------------------------------------- generator

var ifaceGood = []string{"eth0", "eth1", "wan-2", " eth0", "eth1 ", "t4"}
var ifaceBad = []string{"", " ", ".", "..", "a/b", "a\\b", "/", "eth0/"}
var v4pool = [][]byte{{10, 0, 0, 1}, {10, 0, 0, 2}, {192, 168, 1, 255}, {0, 0, 0, 0}, {255, 255, 255, 255}}
var v6pool = [][]byte{
	{0x20, 0x01, 0x0d, 0xb8, 0, 0, 0, 0, 0, 0, 0, 0, 0, 0, 0, 1},
	{0xfe, 0x80, 0, 0, 0, 0, 0, 0, 0, 0, 0, 0, 0, 0, 0, 1},
	{0, 0, 0, 0, 0, 0, 0, 0, 0, 0, 0, 0, 0, 0, 0, 0},
	{0, 0, 0, 0, 0, 0, 0, 0, 0, 0, 0, 0, 0, 0, 0, 1},
	{0xff, 0xff, 0xff, 0xff, 0xff, 0xff, 0xff, 0xff, 0xff, 0xff, 0xff, 0xff, 0xff, 0xff, 0xff, 0xff},
}
var ports = []uint16{0, 1, 53, 80, 443, 65535}
var protos = []uint8{0, 1, 6, 17, 58, 255}
var counters = []uint64{0, 1, 2, 100, 200, 255, 65536, 1 << 32, 1<<53 + 1, 1 << 58}
var tbases = []int64{1, 86000, 1700000000, 1700006400 - 300, 4102444500}
var tsteps = []int64{0, 0, 0, 0, 1, 300, 300, 40000, 86400}
var badTexts = map[int][]string{
	kTime:  {"12x", "", "1.5", "0x10", "9223372036854775808"},
	kSip:   {"300.1.1.1", "xyz", "", "1.2.3", "2001:db8::g"},
	kDip:   {"300.1.1.1", "xyz", "", "1.2.3.4.5", ":::"},
	kDport: {"65536", "-1", "http", ""},
	kProto: {"256", "nosuchproto", "", "-6"},
	kBR:    {"-1", "1e3", "18446744073709551616", ""},
	kBS:    {"-1", "x", "1.0"},
	kPR:    {"-1", "ten", ""},
	kPS:    {"-1", "+-1", "0x1"},
}

type key struct {
	s, d  ipIn
	dp    uint16
	proto uint8
}

func genIP(r *vhlib.Rand, v4 bool) ipIn {
	if v4 {
		if r.Chance(75) {
			return ipIn{true, vhlib.Pick(r, v4pool)}
		}
		return ipIn{true, []byte{byte(r.Intn(256)), byte(r.Intn(256)), byte(r.Intn(256)), byte(r.Intn(256))}}
	}
	if r.Chance(75) {
		return ipIn{false, vhlib.Pick(r, v6pool)}
	}
	b := make([]byte, 16)
	for i := range b {
		b[i] = byte(r.Intn(256))
	}
	b[0] = 0x20 // never a v4-mapped address (its text form would contain a dot)
	return ipIn{false, b}
}

func genKey(r *vhlib.Rand, mixPct int) key {
	v4 := r.Chance(60)
	k := key{s: genIP(r, v4), d: genIP(r, v4), dp: vhlib.Pick(r, ports), proto: vhlib.Pick(r, protos)}
	if r.Chance(mixPct) { // mixed families: neither attempt of the v4 -> v6 retry succeeds
		k.d = genIP(r, !v4)
	}
	return k
}

func variant(r *vhlib.Rand, s string) string {
	switch r.Intn(6) {
	case 0:
		return strings.ToUpper(s)
	case 1:
		return " " + s + " "
	}
	return s
}

func genSchema(r *vhlib.Rand) []col {
	kinds := []int{kTime}
	for _, k := range []int{kIface, kSip, kDip, kDport, kProto, kBR, kBS, kPR, kPS} {
		p := 80
		if k == kIface {
			p = 65
		}
		if r.Chance(p) {
			kinds = append(kinds, k)
		}
	}
	for i := r.Intn(3); i > 0; i-- {
		kinds = append(kinds, kJunk)
	}
	// shuffle
	for i := len(kinds) - 1; i > 0; i-- {
		j := r.Intn(i + 1)
		kinds[i], kinds[j] = kinds[j], kinds[i]
	}
	cols := make([]col, len(kinds))
	for i, k := range kinds {
		if k == kJunk {
			cols[i] = col{k, vhlib.Pick(r, []string{"%", "", "foo", "bytes"})}
		} else {
			cols[i] = col{k, variant(r, kindName[k])}
		}
	}
	return cols
}

func fullSchema() []col {
	var cols []col
	for _, k := range []int{kTime, kIface, kSip, kDip, kDport, kProto, kBR, kBS, kPR, kPS} {
		cols = append(cols, col{k, kindName[k]})
	}
	return cols
}

func mkRow(iface string, ts int64, k key, c [4]uint64) rowIn {
	return rowIn{Iface: iface, Ts: ts, Sip: k.s, Dip: k.d, Dport: k.dp, Proto: k.proto, C: c}
}

var kA = key{ipIn{true, []byte{10, 0, 0, 1}}, ipIn{true, []byte{10, 0, 0, 2}}, 443, 6}
var kB = key{ipIn{true, []byte{10, 0, 0, 1}}, ipIn{true, []byte{10, 0, 0, 2}}, 53, 17}
var k6 = key{ipIn{false, v6pool[0]}, ipIn{false, v6pool[1]}, 443, 6}
var kMix = key{ipIn{true, []byte{10, 0, 0, 1}}, ipIn{false, v6pool[1]}, 80, 6}

func fixed(i int) *input {
	T := int64(1700000000)
	switch i {
	case 0: // duplicate key inside one timestamp: counters must be summed
		return &input{Cols: fullSchema(), Rows: []rowIn{
			mkRow("eth0", T, kA, [4]uint64{100, 10, 1, 1}), mkRow("eth0", T, kB, [4]uint64{7, 7, 7, 7}),
			mkRow("eth0", T, kA, [4]uint64{200, 20, 2, 2})}}
	case 1: // no rows at all
		return &input{Cols: fullSchema()}
	case 2: // header only
		return &input{Cols: fullSchema(), Header: true}
	case 3: // time regression
		return &input{Cols: fullSchema(), Rows: []rowIn{
			mkRow("eth0", T, kA, [4]uint64{1, 1, 1, 1}), mkRow("eth0", T+300, kA, [4]uint64{2, 2, 2, 2}),
			mkRow("eth0", T+299, kB, [4]uint64{3, 3, 3, 3})}}
	case 4: // mixed families in a row, v6 row, v4 row
		return &input{Cols: fullSchema(), Header: true, Rows: []rowIn{
			mkRow("eth0", T, kMix, [4]uint64{1, 1, 1, 1}), mkRow("eth0", T, k6, [4]uint64{2, 2, 2, 2}),
			mkRow("eth0", T, kA, [4]uint64{3, 3, 3, 3}), mkRow("eth0", T, k6, [4]uint64{5, 0, 5, 0})}}
	case 5: // malformed rows only
		r1 := mkRow("eth0", T, kA, [4]uint64{1, 1, 1, 1})
		r1.BadKind, r1.BadText = kTime, "12x"
		r2 := mkRow("eth0", T, kA, [4]uint64{1, 1, 1, 1})
		r2.NFields = 2
		r3 := mkRow("eth0", T, kA, [4]uint64{1, 1, 1, 1})
		r3.BadKind, r3.BadText = kBR, "-1"
		return &input{Cols: fullSchema(), Rows: []rowIn{r1, r2, r3}}
	case 6: // no iface column, interface from the option; same key on two timestamps
		cols := []col{{kSip, "sip"}, {kTime, "time"}, {kJunk, "%"}, {kBR, "data vol. received"}}
		return &input{Cols: cols, DefIface: "eth7", Rows: []rowIn{
			mkRow("", T, kA, [4]uint64{1, 0, 0, 0}), mkRow("", T, kA, [4]uint64{2, 0, 0, 0}), mkRow("", T+300, kA, [4]uint64{4, 0, 0, 0})}}
	case 7: // max rows cuts the file before a regression
		return &input{Cols: fullSchema(), MaxRows: 2, Rows: []rowIn{
			mkRow("eth0", T, kA, [4]uint64{1, 1, 1, 1}), mkRow("eth0", T+300, kA, [4]uint64{2, 2, 2, 2}),
			mkRow("eth0", T, kB, [4]uint64{3, 3, 3, 3})}}
	case 8: // non-positive timestamps are not stored
		return &input{Cols: fullSchema(), Rows: []rowIn{
			mkRow("eth0", 0, kA, [4]uint64{1, 1, 1, 1}), mkRow("eth0", -5, kA, [4]uint64{2, 2, 2, 2}),
			mkRow("eth0", 1, kB, [4]uint64{3, 3, 3, 3})}}
	case 9: // two interfaces, same timestamps, day boundary, duplicates on both
		D := int64(1700006400)
		return &input{Cols: fullSchema(), Header: true, Rows: []rowIn{
			mkRow("eth0", D-300, kA, [4]uint64{1, 1, 1, 1}), mkRow("eth1", D-300, kA, [4]uint64{2, 2, 2, 2}),
			mkRow("eth0", D-300, kA, [4]uint64{4, 4, 4, 4}), mkRow("eth1", D, kA, [4]uint64{8, 8, 8, 8}),
			mkRow("eth0", D, k6, [4]uint64{16, 16, 16, 16}), mkRow("eth1", D, kA, [4]uint64{32, 32, 32, 32}),
			mkRow("eth0", D, k6, [4]uint64{64, 64, 64, 64})}}
	case 10: // a malformed row between two ordered rows; regression only against a skipped row
		r2 := mkRow("eth0", T+600, kA, [4]uint64{1, 1, 1, 1})
		r2.BadKind, r2.BadText = kDport, "65536"
		return &input{Cols: fullSchema(), Rows: []rowIn{
			mkRow("eth0", T, kA, [4]uint64{1, 1, 1, 1}), r2, mkRow("eth0", T+300, kA, [4]uint64{2, 2, 2, 2})}}
	case 11: // invalid interface names
		var rows []rowIn
		for _, s := range ifaceBad {
			rows = append(rows, mkRow(s, T, kA, [4]uint64{1, 1, 1, 1}))
		}
		rows = append(rows, mkRow(" eth0 ", T, kA, [4]uint64{9, 9, 9, 9}))
		return &input{Cols: fullSchema(), Rows: rows}
	case 12: // extreme counters, no duplicates
		m := ^uint64(0)
		return &input{Cols: fullSchema(), Rows: []rowIn{mkRow("eth0", T, kA, [4]uint64{m, m, m, m}), mkRow("eth0", T, kB, [4]uint64{m - 1, 0, 1 << 63, 1})}}
	case 13: // protocol by name, padded values, more fields than the schema
		r1 := mkRow("eth0", T, kA, [4]uint64{1, 2, 3, 4})
		r1.PName, r1.Pad, r1.NFields = "TCP", true, 13
		r2 := mkRow("eth0", T, kA, [4]uint64{10, 20, 30, 40})
		return &input{Cols: fullSchema(), Rows: []rowIn{r1, r2}}
	case 14: // regression as very first pair; equal timestamps are fine
		return &input{Cols: fullSchema(), Rows: []rowIn{mkRow("eth0", T, kA, [4]uint64{1, 1, 1, 1}), mkRow("eth1", T-1, kA, [4]uint64{1, 1, 1, 1})}}
	case 15: // same key on different interfaces within a timestamp is NOT merged
		return &input{Cols: fullSchema(), Rows: []rowIn{mkRow("eth0", T, kA, [4]uint64{1, 1, 1, 1}), mkRow("eth1", T, kA, [4]uint64{2, 2, 2, 2}),
			mkRow("eth0", T, kA, [4]uint64{4, 4, 4, 4})}}
	}
	return nil
}

const nFixed = 16

func gen(r *vhlib.Rand, i int, o vhlib.Opts) any {
	if i < nFixed {
		return fixed(i)
	}
	in := &input{Header: r.Chance(40), Cols: genSchema(r), Enc: vhlib.Pick(r, []int{0, 0, 1, 2})}
	hasIface := false
	for _, c := range in.Cols {
		if c.Kind == kIface {
			hasIface = true
		}
	}
	if !hasIface || r.Chance(30) {
		in.DefIface = vhlib.Pick(r, []string{"eth7", "lo", " eth7 "})
	}
	maxLen := 14
	if o.Search || o.Tier == "thorough" {
		maxLen = 24
	}
	n := r.Intn(maxLen + 1)
	if r.Chance(15) {
		in.MaxRows = 1 + r.Intn(n+2)
	}
	mixPct, badPct, regPct, badIfPct := 6, 10, 3, 5
	switch r.Intn(5) {
	case 0: // clean, duplicate-heavy file
		mixPct, badPct, regPct, badIfPct = 0, 0, 0, 0
	case 1: // hostile file
		mixPct, badPct, regPct, badIfPct = 15, 25, 8, 12
	}
	nk := 1 + r.Intn(4)
	pool := make([]key, nk)
	for j := range pool {
		pool[j] = genKey(r, mixPct)
	}
	ifs := []string{vhlib.Pick(r, ifaceGood), vhlib.Pick(r, ifaceGood)}
	ts := vhlib.Pick(r, tbases)
	for j := 0; j < n; j++ {
		if j > 0 {
			ts += vhlib.Pick(r, tsteps)
		}
		t := ts
		if r.Chance(regPct) {
			t = ts - vhlib.Pick(r, []int64{1, 300, 86400})
			if r.Bool() {
				ts = t
			}
		}
		if r.Chance(3) {
			t = vhlib.Pick(r, []int64{0, -1, -1700000000})
		}
		k := vhlib.Pick(r, pool)
		if r.Chance(15) {
			k = genKey(r, mixPct)
		}
		ifc := vhlib.Pick(r, ifs)
		if r.Chance(badIfPct) {
			ifc = vhlib.Pick(r, ifaceBad)
		}
		row := mkRow(ifc, t, k, [4]uint64{vhlib.Pick(r, counters), vhlib.Pick(r, counters), vhlib.Pick(r, counters), vhlib.Pick(r, counters)})
		row.Pad = r.Chance(10)
		if r.Chance(15) {
			switch row.Proto {
			case 1:
				row.PName = "icmp"
			case 6:
				row.PName = vhlib.Pick(r, []string{"tcp", "TCP"})
			case 17:
				row.PName = "udp"
			}
		}
		if r.Chance(badPct) {
			if r.Chance(35) {
				row.NFields = 1 + r.Intn(len(in.Cols)+2)
			} else {
				bk := vhlib.Pick(r, []int{kTime, kSip, kDip, kDport, kProto, kBR, kBS, kPR, kPS})
				row.BadKind, row.BadText = bk, vhlib.Pick(r, badTexts[bk])
			}
		} else if r.Chance(5) {
			row.NFields = len(in.Cols) + 1 + r.Intn(2)
		}
		in.Rows = append(in.Rows, row)
	}
	return in
}

// ---------------------------------------------------------------- rendering and the typed view

func ipText(p ipIn) string {
	if p.V4 {
		return netip.AddrFrom4([4]byte(p.B)).String()
	}
	return netip.AddrFrom16([16]byte(p.B)).String()
}

// the case prelude opens Z_scope and string_scope, so literals carry no scope suffix
func coqStr(s string) string { return "\"" + strings.ReplaceAll(s, "\"", "\"\"") + "\"" }
func coqZ(v int64) string {
	if v < 0 {
		return "(" + strconv.FormatInt(v, 10) + ")"
	}
	return strconv.FormatInt(v, 10)
}

func ipNum(b []byte) string { return new(big.Int).SetBytes(b).String() }

func coqIP(p ipIn) string {
	if p.V4 {
		return "(V4 " + ipNum(p.B) + ")"
	}
	return "(V6 " + ipNum(p.B) + ")"
}

// minFields as the schema parser computes it: index of the last parseable column + 1
func minFields(cols []col) int {
	m := 0
	for i, c := range cols {
		if c.Kind != kJunk {
			m = i + 1
		}
	}
	return m
}

func has(cols []col, k int) bool {
	for _, c := range cols {
		if c.Kind == k {
			return true
		}
	}
	return false
}

// renderRow gives the CSV line and the Coq term of the row as the model sees it
func renderRow(cols []col, row rowIn) (string, string, string) {
	fields := make([]string, len(cols))
	for i, c := range cols {
		var s string
		switch c.Kind {
		case kJunk:
			s = "x"
		case kIface:
			s = row.Iface
		case kTime:
			s = strconv.FormatInt(row.Ts, 10)
		case kSip:
			s = ipText(row.Sip)
		case kDip:
			s = ipText(row.Dip)
		case kDport:
			s = strconv.Itoa(int(row.Dport))
		case kProto:
			s = strconv.Itoa(int(row.Proto))
			if row.PName != "" {
				s = row.PName
			}
		case kBR, kBS, kPR, kPS:
			s = strconv.FormatUint(row.C[c.Kind-kBR], 10)
		}
		if row.Pad && c.Kind != kIface {
			s = " " + s + "  "
		}
		if row.BadKind != 0 && c.Kind == row.BadKind {
			s = row.BadText
		}
		fields[i] = s
	}
	n := len(fields)
	if row.NFields > 0 {
		for len(fields) < row.NFields {
			fields = append(fields, "extra")
		}
		fields = fields[:row.NFields]
		n = row.NFields
	}
	line := strings.Join(fields, ",")
	if line == "" { // encoding/csv drops empty lines; such a row is short anyway
		line = "x"
	}
	malformed := n < minFields(cols) || (row.BadKind != 0 && has(cols, row.BadKind))
	if malformed {
		tag := "badfield"
		if n < minFields(cols) {
			tag = "short"
		}
		return line, "M", tag
	}
	ifc := "None"
	if has(cols, kIface) {
		ifc = "(Some " + coqStr(strings.TrimSpace(row.Iface)) + ")"
	}
	opt := func(k int, p ipIn) string {
		if has(cols, k) {
			return "(Some " + coqIP(p) + ")"
		}
		return "None"
	}
	num := func(k int, v uint64) string {
		if has(cols, k) {
			return strconv.FormatUint(v, 10)
		}
		return "0"
	}
	term := fmt.Sprintf("R %s %s %s %s %s %s %s %s %s %s", ifc, coqZ(row.Ts), opt(kSip, row.Sip), opt(kDip, row.Dip),
		num(kDport, uint64(row.Dport)), num(kProto, uint64(row.Proto)),
		num(kBR, row.C[0]), num(kBS, row.C[1]), num(kPR, row.C[2]), num(kPS, row.C[3]))
	return line, term, "wellformed"
}

// ---------------------------------------------------------------- read-back

type stored struct {
	Iface string
	Ts    int64
	V4    bool
	Sip   []byte
	Dip   []byte
	Dport uint16
	Proto uint8
	C     [4]uint64
}

func (s stored) sortKey() string {
	return fmt.Sprintf("%s|%020d|%v|%x|%x|%05d|%03d|%020d|%020d|%020d|%020d", s.Iface, s.Ts, !s.V4, s.Sip, s.Dip, s.Dport, s.Proto, s.C[0], s.C[1], s.C[2], s.C[3])
}

func numericDirs(p string) ([]string, error) {
	ents, err := os.ReadDir(p)
	if err != nil {
		return nil, err
	}
	var out []string
	for _, e := range ents {
		if e.IsDir() {
			out = append(out, e.Name())
		}
	}
	sort.Strings(out)
	return out, nil
}

func readDB(root string) ([]stored, int, error) {
	var out []stored
	ifaces, err := numericDirs(root)
	if err != nil {
		if os.IsNotExist(err) {
			return nil, 0, nil
		}
		return nil, 0, err
	}
	nblocks := 0
	for _, iface := range ifaces {
		ip := filepath.Join(root, iface)
		years, err := numericDirs(ip)
		if err != nil {
			return nil, 0, err
		}
		for _, y := range years {
			months, err := numericDirs(filepath.Join(ip, y))
			if err != nil {
				return nil, 0, err
			}
			for _, m := range months {
				days, err := numericDirs(filepath.Join(ip, y, m))
				if err != nil {
					return nil, 0, err
				}
				for _, d := range days {
					dayTs, suffix, err := gpfile.ExtractTimestampMetadataSuffix(d)
					if err != nil {
						return nil, 0, err
					}
					rows, nb, err := readDay(ip, iface, dayTs, suffix)
					if err != nil {
						return nil, 0, fmt.Errorf("%s/%s: %w", iface, d, err)
					}
					nblocks += nb
					out = append(out, rows...)
				}
			}
		}
	}
	sort.Slice(out, func(i, j int) bool { return out[i].sortKey() < out[j].sortKey() })
	return out, nblocks, nil
}

func readDay(ifacePath, iface string, dayTs int64, suffix string) ([]stored, int, error) {
	rd := gpfile.NewDirReader(ifacePath, dayTs, suffix)
	if err := rd.Open(); err != nil {
		return nil, 0, err
	}
	defer rd.Close()
	var out []stored
	blocks := rd.BlockMetadata[0].Blocks()
	for bi, blk := range blocks {
		var data [types.ColIdxCount][]byte
		for c := types.ColumnIndex(0); c < types.ColIdxCount; c++ {
			b, err := rd.ReadBlockAtIndex(c, bi)
			if err != nil {
				return nil, 0, err
			}
			data[c] = append([]byte(nil), b...)
		}
		n4, n6 := int(rd.NumIPv4EntriesAtIndex(bi)), int(rd.NumIPv6EntriesAtIndex(bi))
		n := n4 + n6
		var cs [4][]uint64
		for j, c := range []types.ColumnIndex{types.BytesRcvdColIdx, types.BytesSentColIdx, types.PacketsRcvdColIdx, types.PacketsSentColIdx} {
			cs[j] = bitpack.UnpackInto(data[c], nil)
			if len(cs[j]) != n {
				return nil, 0, fmt.Errorf("block %d: counter column %d has %d entries, metadata says %d", blk.Timestamp, j, len(cs[j]), n)
			}
		}
		if len(data[types.SIPColIdx]) != 4*n4+16*n6 || len(data[types.DIPColIdx]) != 4*n4+16*n6 ||
			len(data[types.DportColIdx]) != 2*n || len(data[types.ProtoColIdx]) != n {
			return nil, 0, fmt.Errorf("block %d: attribute column sizes do not match the metadata", blk.Timestamp)
		}
		for e := 0; e < n; e++ {
			s := stored{Iface: iface, Ts: blk.Timestamp, V4: e < n4}
			if e < n4 {
				s.Sip, s.Dip = data[types.SIPColIdx][4*e:4*e+4], data[types.DIPColIdx][4*e:4*e+4]
			} else {
				o := 4*n4 + 16*(e-n4)
				s.Sip, s.Dip = data[types.SIPColIdx][o:o+16], data[types.DIPColIdx][o:o+16]
			}
			s.Dport = uint16(data[types.DportColIdx][2*e])<<8 | uint16(data[types.DportColIdx][2*e+1])
			s.Proto = data[types.ProtoColIdx][e]
			s.C = [4]uint64{cs[0][e], cs[1][e], cs[2][e], cs[3][e]}
			out = append(out, s)
		}
	}
	return out, len(blocks), nil
}

// ---------------------------------------------------------------- run

func run(raw json.RawMessage, o vhlib.Opts) (*vhlib.Case, error) {
	var in input
	if err := json.Unmarshal(raw, &in); err != nil {
		return nil, err
	}
	if len(in.Cols) == 0 {
		return nil, fmt.Errorf("empty schema")
	}
	dir, err := os.MkdirTemp(o.Work, "c26-")
	if err != nil {
		return nil, err
	}
	defer os.RemoveAll(dir)

	names := make([]string, len(in.Cols))
	for i, c := range in.Cols {
		names[i] = c.Name
	}
	schema := strings.Join(names, ",")
	var sb strings.Builder
	if in.Header {
		sb.WriteString(schema + "\n")
	}
	tagset := map[string]bool{}
	rowTerms := make([]string, len(in.Rows))
	for i, row := range in.Rows {
		line, term, tag := renderRow(in.Cols, row)
		if strings.ContainsAny(line, "\"\r\n") {
			return nil, fmt.Errorf("generated field needs CSV quoting: %q", line)
		}
		sb.WriteString(line + "\n")
		rowTerms[i] = term
		tagset[tag] = true
	}
	csvPath := filepath.Join(dir, "in.csv")
	if err := os.WriteFile(csvPath, []byte(sb.String()), 0o600); err != nil {
		return nil, err
	}
	opts := csvimport.Options{InputPath: csvPath, OutputPath: filepath.Join(dir, "db"), Interface: in.DefIface, MaxRows: in.MaxRows,
		EncoderType: []encoders.Type{encoders.EncoderTypeLZ4, encoders.EncoderTypeZSTD, encoders.EncoderTypeNull}[in.Enc%3]}
	if !in.Header {
		opts.Schema = schema
	}

	var sum csvimport.Summary
	var ierr error
	panicked, pmsg := vhlib.Recover(func() { sum, ierr = csvimport.Import(context.Background(), opts) })
	errKind, errMsg := 0, ""
	switch {
	case panicked:
		errKind, errMsg = 3, "panic: "+pmsg
	case ierr != nil && strings.Contains(ierr.Error(), "input must be ordered by non-decreasing timestamp"):
		errKind, errMsg = 1, "time regression"
	case ierr != nil:
		errKind, errMsg = 2, strings.ReplaceAll(ierr.Error(), dir, "<work>")
	}
	rows, nblocks, rerr := readDB(opts.OutputPath)
	if rerr != nil {
		errKind, errMsg = 4, errMsg+" read-back: "+strings.ReplaceAll(rerr.Error(), dir, "<work>")
		rows = nil
	}

	storedTerms := make([]string, len(rows))
	obsRows := make([]any, len(rows))
	for i, s := range rows {
		fam := "V6"
		if s.V4 {
			fam = "V4"
		}
		storedTerms[i] = fmt.Sprintf("S %s %s %s %s %s %d %d %d %d %d %d", coqStr(s.Iface), coqZ(s.Ts), vhlib.CoqBool(s.V4),
			ipNum(s.Sip), ipNum(s.Dip), s.Dport, s.Proto, s.C[0], s.C[1], s.C[2], s.C[3])
		sip, dip := netip.Addr{}, netip.Addr{}
		if s.V4 {
			sip, dip = netip.AddrFrom4([4]byte(s.Sip)), netip.AddrFrom4([4]byte(s.Dip))
		} else {
			sip, dip = netip.AddrFrom16([16]byte(s.Sip)), netip.AddrFrom16([16]byte(s.Dip))
		}
		obsRows[i] = []any{s.Iface, s.Ts, fam, sip.String(), dip.String(), s.Dport, s.Proto, s.C[0], s.C[1], s.C[2], s.C[3]}
	}
	// does the file contain two well-formed rows with the same interface, timestamp and key?
	dupIn := false
	{
		m := map[string]bool{}
		for i := range in.Rows {
			if rowTerms[i] == "M" {
				continue
			}
			// everything but the counters (the last four numbers of the term)
			f := strings.Fields(rowTerms[i])
			k := strings.Join(f[:len(f)-4], " ")
			if !has(in.Cols, kIface) {
				k += "|" + in.DefIface
			}
			if m[k] {
				dupIn = true
			}
			m[k] = true
		}
	}

	c := &vhlib.Case{}
	c.Observed = map[string]any{"err_kind": errKind, "err": errMsg, "read": sum.RowsRead, "imported": sum.RowsImported, "skipped": sum.RowsSkipped,
		"blocks": sum.BlocksWritten, "interfaces": sum.Interfaces, "blocks_on_disk": nblocks, "stored": obsRows}
	c.Coq = fmt.Sprintf("mkCase %s %d %s %d %s %d %d %d %d %d %d",
		coqStr(strings.TrimSpace(in.DefIface)), in.MaxRows, vhlib.CoqList(rowTerms), errKind, vhlib.CoqList(storedTerms),
		sum.RowsRead, sum.RowsImported, sum.RowsSkipped, sum.BlocksWritten, sum.Interfaces, nblocks)
	for t := range tagset {
		c.Tags = append(c.Tags, t)
	}
	if in.Header {
		c.Tags = append(c.Tags, "header")
	} else {
		c.Tags = append(c.Tags, "schema-option")
	}
	if has(in.Cols, kIface) {
		c.Tags = append(c.Tags, "iface-column")
	} else {
		c.Tags = append(c.Tags, "iface-option")
	}
	if in.MaxRows > 0 {
		c.Tags = append(c.Tags, "max-rows")
	}
	if dupIn {
		c.Tags = append(c.Tags, "duplicate-key")
	}
	hasV4, hasV6 := false, false
	for _, s := range rows {
		if s.V4 {
			hasV4 = true
		} else {
			hasV6 = true
		}
	}
	if hasV4 {
		c.Tags = append(c.Tags, "stored-v4")
	}
	if hasV6 {
		c.Tags = append(c.Tags, "stored-v6")
	}
	switch errKind {
	case 0:
		c.Tags = append(c.Tags, "ok")
	case 1:
		c.Tags = append(c.Tags, "rejected-regression")
	default:
		c.Tags = append(c.Tags, "other-error")
	}
	if sum.RowsSkipped > 0 {
		c.Tags = append(c.Tags, "some-skipped")
	}
	sort.Strings(c.Tags)
	c.Nontrivial = sum.RowsImported > 0 || errKind == 1
	return c, nil
}

func main() { vhlib.Main(gen, run) }
