// C01 correspondence harness: real gpfile.NewDirWriter / WriteBlocks / Close sessions over one or
// more days, then NewDirReader / ReadBlockAtIndex of every block. Payloads are named symbolically
// (id, rawLen, encodedLen per codec) in the Coq case; the observed .gpf layout is reported as
// run-length segments that were verified here, byte for byte, against the real files.
package main

import (
	"bytes"
	"encoding/json"
	"fmt"
	"os"
	"path/filepath"
	"sort"
	"strings"

	"verifharness/vhlib"

	"github.com/els0r/goProbe/v4/pkg/goDB/encoder"
	"github.com/els0r/goProbe/v4/pkg/goDB/encoder/encoders"
	"github.com/els0r/goProbe/v4/pkg/goDB/storage/gpfile"
	"github.com/els0r/goProbe/v4/pkg/types"
)

const nCols = int(types.ColIdxCount)
const dayLen = 86400

// ---------------------------------------------------------------- input

type payload struct {
	Kind string `json:"k"` // empty | rand | text | mix (R random bytes, then text up to N)
	Seed uint64 `json:"s,omitempty"`
	N    int    `json:"n,omitempty"`
	R    int    `json:"r,omitempty"`
}

type op struct {
	Ts   int64        `json:"ts"`
	TM   [3]uint64    `json:"tm"` // v4 v6 drops
	C    [4]uint64    `json:"c"`  // br bs pr ps
	Cols [nCols]int   `json:"cols"`
}

type session struct {
	Day int64 `json:"day"` // day index (directory timestamp = Day*86400)
	Enc int   `json:"enc"` // encoders.Type
	Lvl int   `json:"lvl"`
	Ops []op  `json:"ops"`
}

type input struct {
	Payloads []payload `json:"payloads"`
	Sessions []session `json:"sessions"`
	RMode    int       `json:"rmode"` // 0 ascending, 1 descending, 2 ascending and every block twice
}

func lcg(seed uint64, n int) []byte {
	b := make([]byte, n)
	s := seed*6364136223846793005 + 1442695040888963407
	for i := range b {
		s = s*6364136223846793005 + 1442695040888963407
		b[i] = byte(s >> 56)
	}
	return b
}

func text(seed uint64, n int) []byte {
	phrase := []byte(fmt.Sprintf("flow-%d;10.0.%d.%d>172.16.0.1:443/tcp|", seed, seed%251, (seed/7)%253))
	b := make([]byte, n)
	for i := range b {
		b[i] = phrase[i%len(phrase)]
	}
	return b
}

func (p payload) bytes() []byte {
	switch p.Kind {
	case "rand":
		return lcg(p.Seed, p.N)
	case "text":
		return text(p.Seed, p.N)
	case "mix":
		r := p.R
		if r > p.N {
			r = p.N
		}
		return append(lcg(p.Seed, r), text(p.Seed, p.N-r)...)
	}
	return []byte{}
}

func effLevel(l int) int {
	if l > 0 {
		return l
	}
	return 6
}

func codecCode(enc, lvl int) int { return enc*32 + effLevel(lvl) }

var encCache = map[string]encoder.Encoder{}

// compressed form as the library produces it for (type, level)
func compress(enc, lvl int, data []byte) ([]byte, error) {
	key := fmt.Sprint(enc, "/", effLevel(lvl))
	e := encCache[key]
	if e == nil {
		var err error
		if e, err = encoder.New(encoders.Type(enc)); err != nil {
			return nil, err
		}
		if lvl > 0 {
			e.SetLevel(lvl)
		}
		encCache[key] = e
	}
	var out bytes.Buffer
	if _, err := e.Compress(data, nil, &out); err != nil {
		return nil, err
	}
	return out.Bytes(), nil
}

// ---------------------------------------------------------------- generator

var encChoices = []int{3, 3, 3, 2, 2, 1}
var lvlChoices = map[int][]int{3: {0, 0, 1, 3, 6, 9, 12}, 2: {0, 0, 1, 3, 6, 12, 19}, 1: {0, 5}, 0: {0}}

type genCtx struct {
	r  *vhlib.Rand
	in *input
}

func (g *genCtx) add(p payload) int {
	g.in.Payloads = append(g.in.Payloads, p)
	return len(g.in.Payloads) - 1
}

// find a payload of the given kind whose compressed form under (enc,lvl) has exactly `target` bytes
func boundaryPayload(kind string, seed uint64, enc, lvl, target int) payload {
	p := payload{Kind: kind, Seed: seed}
	if kind == "rand" {
		p.N = target - 20
	} else {
		p.R = target - 60
		p.N = p.R + 5000
	}
	if enc == 1 {
		p.N = target
		if kind == "mix" {
			p.R = target / 2
		}
		return p
	}
	for it := 0; it < 40; it++ {
		c, err := compress(enc, lvl, p.bytes())
		if err != nil || len(c) == target {
			break
		}
		d := target - len(c)
		if kind == "rand" {
			p.N += d
		} else {
			p.R += d
			p.N += d
		}
		if p.N < 1 || p.R < 0 {
			p.N, p.R = 1, 0
			break
		}
	}
	return p
}

func (g *genCtx) pickPayload(enc, lvl int, search bool) int {
	r := g.r
	seed := r.U64()%1000000 + 1
	x := r.Intn(100)
	switch {
	case x < 30:
		return 0 // the shared empty payload
	case x < 42:
		return g.add(payload{Kind: "rand", Seed: seed, N: 1})
	case x < 62:
		return g.add(payload{Kind: "text", Seed: seed, N: vhlib.Pick(r, []int{2, 17, 300, 4096, 4097, 9000, 20000})})
	case x < 70:
		return g.add(payload{Kind: "rand", Seed: seed, N: vhlib.Pick(r, []int{2, 8, 15, 64, 300})})
	case x < 82:
		return g.add(payload{Kind: "rand", Seed: seed, N: 3000 + r.Intn(9001)})
	case x < 91:
		t := vhlib.Pick(r, []int{4095, 4096, 4097, 4096, 4097, 4098, 8192, 8193})
		return g.add(boundaryPayload("rand", seed, enc, lvl, t))
	default:
		t := vhlib.Pick(r, []int{4095, 4096, 4097, 4097, 8192, 8193})
		return g.add(boundaryPayload("mix", seed, enc, lvl, t))
	}
}

func (g *genCtx) mkOp(ts int64, enc, lvl int, search bool) op {
	r := g.r
	o := op{Ts: ts}
	big := []uint64{0, 1, 2, 77, 65535, 1<<32 - 1}
	for i := range o.TM {
		o.TM[i] = vhlib.Pick(r, big)
	}
	cb := []uint64{0, 1, 1500, 1 << 32, 1<<63 - 1, 1 << 63, ^uint64(0)}
	for i := range o.C {
		o.C[i] = vhlib.Pick(r, cb)
	}
	// at most three non-trivial columns to keep the case text small
	heavy := map[int]bool{r.Intn(nCols): true, r.Intn(nCols): true}
	if r.Chance(30) {
		heavy[r.Intn(nCols)] = true
	}
	for c := 0; c < nCols; c++ {
		if heavy[c] {
			o.Cols[c] = g.pickPayload(enc, lvl, search)
		} else if r.Chance(25) {
			o.Cols[c] = g.add(payload{Kind: "rand", Seed: r.U64()%1000000 + 1, N: 1 + r.Intn(3)})
		}
	}
	return o
}

func fixedCase(i int) *input {
	in := &input{Payloads: []payload{{Kind: "empty"}}}
	g := &genCtx{r: vhlib.NewRand(uint64(1000 + i)), in: in}
	small := func(seed uint64) int { return g.add(payload{Kind: "text", Seed: seed, N: 300}) }
	cols := func(ids ...int) [nCols]int {
		var c [nCols]int
		copy(c[:], ids)
		return c
	}
	day := int64(19700)
	ts := day * dayLen
	one := [3]uint64{1, 2, 3}
	cnt := [4]uint64{10, 20, 30, 40}
	switch i {
	case 0:
		in.Sessions = []session{{Day: day, Enc: 3, Ops: []op{{Ts: ts + 300, TM: one, C: cnt, Cols: cols(small(1), small(2), 0, small(3))}}}}
	case 1, 2, 3:
		enc := []int{3, 2, 3}[i-1]
		lvl := []int{0, 0, 9}[i-1]
		big := g.add(payload{Kind: "rand", Seed: 7, N: 6000})
		in.Sessions = []session{{Day: day, Enc: enc, Lvl: lvl, Ops: []op{
			{Ts: ts + 300, TM: one, C: cnt, Cols: cols(big, small(2))},
			{Ts: ts + 600, TM: one, C: cnt, Cols: cols(small(4), small(5))}}}}
	case 4:
		big := g.add(payload{Kind: "rand", Seed: 9, N: 5000})
		in.Sessions = []session{
			{Day: day, Enc: 3, Ops: []op{{Ts: ts + 300, TM: one, C: cnt, Cols: cols(small(1), big)}}},
			{Day: day, Enc: 2, Lvl: 3, Ops: []op{{Ts: ts + 600, TM: one, C: cnt, Cols: cols(small(2), small(3))}}},
			{Day: day + 1, Enc: 3, Ops: []op{{Ts: ts + dayLen, TM: one, C: cnt, Cols: cols(small(6))}}},
			{Day: day, Enc: 3, Ops: []op{{Ts: ts + 900, TM: one, C: cnt, Cols: cols(big, big)}}}}
	case 5, 6:
		enc := []int{3, 2}[i-5]
		var ops []op
		for k, t := range []int{4095, 4096, 4097} {
			p := g.add(boundaryPayload("rand", uint64(20+k), enc, 0, t))
			q := g.add(boundaryPayload("mix", uint64(30+k), enc, 0, t))
			ops = append(ops, op{Ts: ts + int64(300*(k+1)), TM: one, C: cnt, Cols: cols(p, q, small(uint64(40+k)))})
		}
		in.Sessions = []session{{Day: day, Enc: enc, Ops: ops}}
	case 7:
		big := g.add(payload{Kind: "rand", Seed: 11, N: 6000})
		in.Sessions = []session{{Day: day, Enc: 1, Ops: []op{{Ts: ts + 300, TM: one, C: cnt, Cols: cols(big, small(1))}}}}
	case 8:
		// a session without any block between two writing sessions (see NOTES: a zero-block session on a
		// day that has no block yet persists stale pool memory, C03's Marshal defect, and is not generated)
		in.Sessions = []session{
			{Day: day, Enc: 3, Ops: []op{{Ts: ts + 300, TM: one, C: cnt, Cols: cols(small(1), small(2))}}},
			{Day: day, Enc: 3, Ops: nil},
			{Day: day, Enc: 2, Ops: []op{{Ts: ts + 600, TM: one, C: cnt, Cols: cols(small(3), small(4))}}}}
	case 9:
		in.Sessions = []session{{Day: day, Enc: 3, Ops: []op{
			{Ts: ts + 300, TM: one, C: cnt, Cols: cols(small(1))},
			{Ts: ts + 300, TM: one, C: cnt, Cols: cols(small(2))},
			{Ts: ts + 600, TM: one, C: cnt, Cols: cols(small(3))}}},
			{Day: day, Enc: 3, Ops: []op{{Ts: ts + 300, TM: one, C: cnt, Cols: cols(small(5))}}}}
	case 10:
		in.Sessions = []session{{Day: day, Enc: 3, Ops: []op{
			{Ts: ts + 300, TM: one, C: cnt},
			{Ts: ts + 600, TM: [3]uint64{1<<32 - 1, 0, 1<<32 - 1}, C: [4]uint64{^uint64(0), 1 << 63, 0, 1}},
			{Ts: ts + 900, TM: one, C: [4]uint64{2, 1 << 63, 0, 1}, Cols: cols(0, 0, 0, 0, 0, 0, 0, small(1))}}}}
	case 11:
		in.Sessions = []session{
			{Day: day, Enc: 3, Ops: []op{{Ts: ts + 300, TM: one, C: cnt, Cols: cols(small(2))}}},
			{Day: day, Enc: 0, Ops: []op{{Ts: ts + 600, TM: one, C: cnt, Cols: cols(small(1))}}},
			{Day: day, Enc: 1, Ops: []op{{Ts: ts + 600, TM: one, C: cnt, Cols: cols(small(3))}}}}
	case 12:
		// a fallback block as the last block of a session, then a reopen writing a short block
		big := g.add(payload{Kind: "rand", Seed: 13, N: 7000})
		in.RMode = 2
		in.Sessions = []session{
			{Day: day, Enc: 2, Lvl: 1, Ops: []op{{Ts: ts + 300, TM: one, C: cnt, Cols: cols(big)}}},
			{Day: day, Enc: 3, Ops: []op{{Ts: ts + 600, TM: one, C: cnt, Cols: cols(g.add(payload{Kind: "rand", Seed: 5, N: 3}))}}}}
		in.RMode = 1
	default:
		return nil
	}
	return in
}

const nFixed = 13

func gen(r *vhlib.Rand, i int, o vhlib.Opts) any {
	if i < nFixed {
		return fixedCase(i)
	}
	in := &input{Payloads: []payload{{Kind: "empty"}}, RMode: r.Intn(3)}
	g := &genCtx{r: r, in: in}
	nDays := vhlib.Pick(r, []int{1, 1, 1, 2, 2, 3, 4})
	nSess := 1 + r.Intn(5)
	if o.Search {
		nSess = 2 + r.Intn(4)
	}
	base := int64(19000 + r.Intn(1500))
	lastTs := map[int64]int64{}
	used := map[int64][]int64{}
	for s := 0; s < nSess; s++ {
		day := base + int64(r.Intn(nDays))
		enc := vhlib.Pick(r, encChoices)
		// a session that leaves a day without any block is not generated (C03: Marshal persists stale
		// pool memory for zero blocks, which makes the outcome depend on earlier heap contents)
		hasBlocks := len(used[day]) > 0
		if hasBlocks && r.Chance(3) {
			enc = 0
		}
		lvl := vhlib.Pick(r, lvlChoices[enc])
		se := session{Day: day, Enc: enc, Lvl: lvl}
		nOps := vhlib.Pick(r, []int{0, 1, 1, 1, 2, 2, 3, 4})
		if nOps == 0 && (!hasBlocks || r.Chance(70)) {
			nOps = 1
		}
		for k := 0; k < nOps; k++ {
			var ts int64
			if len(used[day]) > 0 && r.Chance(10) {
				ts = vhlib.Pick(r, used[day]) // duplicate: must be rejected
			} else {
				lt, ok := lastTs[day]
				if !ok {
					lt = day*dayLen + int64(r.Intn(3))*300
				}
				ts = lt + int64(vhlib.Pick(r, []int{1, 300, 300, 300, 600, 3600}))
				lastTs[day] = ts
				if enc != 0 {
					used[day] = append(used[day], ts)
				}
			}
			se.Ops = append(se.Ops, g.mkOp(ts, enc, lvl, o.Search))
		}
		in.Sessions = append(in.Sessions, se)
	}
	return in
}

// ---------------------------------------------------------------- run

type seg struct{ K, ID, From, Len int }

func (s seg) coq() string { return fmt.Sprintf("G %d %d %d %d", s.K, s.ID, s.From, s.Len) }

func canon(ss []seg) []seg {
	var out []seg
	for _, s := range ss {
		if s.Len == 0 {
			continue
		}
		if n := len(out); n > 0 && out[n-1].K == s.K && out[n-1].ID == s.ID {
			p := &out[n-1]
			if (s.K == 255 && p.From == 0 && s.From == 0) || (s.K != 255 && p.From+p.Len == s.From) {
				p.Len += s.Len
				continue
			}
		}
		out = append(out, s)
	}
	return out
}

func coqSegs(ss []seg) string {
	xs := make([]string, len(ss))
	for i, s := range ss {
		xs[i] = s.coq()
	}
	return "[" + strings.Join(xs, ";") + "]"
}

type cand struct {
	K, ID int
	B     []byte
}

func matchLen(a, b []byte) int {
	n := 0
	for n < len(a) && n < len(b) && a[n] == b[n] {
		n++
	}
	return n
}

// describe data[a:b) greedily in terms of the candidate strings; origins are file offsets at
// which a candidate may have started (so that the tail of an overwritten string is recognised)
func greedy(data []byte, a, b int, cands []cand, origins []int) []seg {
	var out []seg
	p := a
	for p < b {
		best, bk, bid, bfrom := 0, 0, 0, 0
		for _, c := range cands {
			froms := []int{0}
			for _, o := range origins {
				if f := p - o; f > 0 && f < len(c.B) {
					froms = append(froms, f)
				}
			}
			for _, f := range froms {
				if m := matchLen(data[p:b], c.B[f:]); m > best {
					best, bk, bid, bfrom = m, c.K, c.ID, f
				}
			}
		}
		if best == 0 {
			if data[p] == 0 {
				out = append(out, seg{255, 0, 0, 1})
			} else {
				out = append(out, seg{99, 0, p, 1})
			}
			p++
			continue
		}
		out = append(out, seg{bk, bid, bfrom, best})
		origins = append(origins, p-bfrom)
		p += best
	}
	return out
}

type blockObs struct {
	Ts          int64
	Len, Raw    uint32
	Enc         int
	Off         uint64
}

// which payload / codec wrote the i-th accepted block of a day
type accepted struct {
	Ts       int64
	Cols     [nCols]int
	Enc, Lvl int
}

func expand(segs []seg, strs map[[2]int][]byte) ([]byte, bool) {
	var out []byte
	for _, s := range segs {
		if s.K == 255 {
			out = append(out, make([]byte, s.Len)...)
			continue
		}
		b, ok := strs[[2]int{s.K, s.ID}]
		if !ok || s.From+s.Len > len(b) {
			return nil, false
		}
		out = append(out, b[s.From:s.From+s.Len]...)
	}
	return out, true
}

func run(raw json.RawMessage, o vhlib.Opts) (c *vhlib.Case, err error) {
	var in input
	if err := json.Unmarshal(raw, &in); err != nil {
		return nil, err
	}
	c = &vhlib.Case{}
	base, err := os.MkdirTemp(o.Work, "c01db-")
	if err != nil {
		return nil, err
	}
	defer os.RemoveAll(base)

	var coq string
	panicked, msg := vhlib.Recover(func() { coq, err = runCase(&in, base, c) })
	if panicked {
		c.Observed = map[string]any{"panic": msg}
		c.Tags = append(c.Tags, "panic")
		c.Coq = "CPanic"
		return c, nil
	}
	if err != nil {
		return nil, err
	}
	c.Coq = coq
	return c, nil
}

func runCase(in *input, base string, c *vhlib.Case) (string, error) {
	pbytes := make([][]byte, len(in.Payloads))
	for i, p := range in.Payloads {
		pbytes[i] = p.bytes()
	}
	encLens := make([]map[int]int, len(in.Payloads)) // payload -> codec code -> encoded length
	strs := map[[2]int][]byte{}                      // (kind, id) -> real bytes
	for i := range pbytes {
		strs[[2]int{0, i}] = pbytes[i]
		encLens[i] = map[int]int{}
	}
	need := func(id, enc, lvl int) error {
		if enc != 2 && enc != 3 || len(pbytes[id]) == 0 {
			return nil
		}
		code := codecCode(enc, lvl)
		if _, ok := encLens[id][code]; ok {
			return nil
		}
		e, err := compress(enc, lvl, pbytes[id])
		if err != nil {
			return err
		}
		encLens[id][code] = len(e)
		strs[[2]int{1 + code, id}] = e
		return nil
	}

	// ---- write sessions
	tags := map[string]bool{}
	acc := map[int64][]accepted{}
	var wres [][]bool
	var cres []bool
	sessionsOf := map[int64]int{}
	nFallbackBig, nReopen := 0, 0
	for _, s := range in.Sessions {
		tags[fmt.Sprintf("enc=%d", s.Enc)] = true
		tags[fmt.Sprintf("lvl=%d", s.Lvl)] = true
		if len(acc[s.Day]) > 0 && len(s.Ops) > 0 {
			nReopen++
		}
		if sessionsOf[s.Day] > 0 && len(acc[s.Day]) == 0 {
			tags["after-zero-block-session"] = true
		}
		sessionsOf[s.Day]++
		w := gpfile.NewDirWriter(base, s.Day*dayLen, gpfile.WithEncoderTypeLevel(encoders.Type(s.Enc), s.Lvl))
		if err := w.Open(); err != nil {
			return "", fmt.Errorf("open writer: %w", err)
		}
		var rs []bool
		for _, op := range s.Ops {
			var data [nCols][]byte
			for k := 0; k < nCols; k++ {
				data[k] = pbytes[op.Cols[k]]
				if err := need(op.Cols[k], s.Enc, s.Lvl); err != nil {
					return "", err
				}
			}
			err := w.WriteBlocks(op.Ts, gpfile.TrafficMetadata{NumV4Entries: op.TM[0], NumV6Entries: op.TM[1], NumDrops: op.TM[2]},
				types.Counters{BytesRcvd: op.C[0], BytesSent: op.C[1], PacketsRcvd: op.C[2], PacketsSent: op.C[3]}, data)
			rs = append(rs, err == nil)
			if err == nil {
				acc[s.Day] = append(acc[s.Day], accepted{op.Ts, op.Cols, s.Enc, s.Lvl})
				for k := 0; k < nCols; k++ {
					id := op.Cols[k]
					if n, ok := encLens[id][codecCode(s.Enc, s.Lvl)]; ok && (s.Enc == 2 || s.Enc == 3) {
						switch {
						case n > len(pbytes[id]) && n > 4096:
							nFallbackBig++
							tags["fallback>4096"] = true
						case n > len(pbytes[id]):
							tags["fallback<=4096"] = true
						case n > 4096:
							tags["compressed>4096"] = true
						}
						if n >= 4095 && n <= 4097 {
							tags[fmt.Sprintf("complen=%d", n)] = true
						}
					}
				}
			} else {
				tags["rejected-write"] = true
			}
		}
		wres = append(wres, rs)
		cerr := w.Close()
		cres = append(cres, cerr == nil)
		if len(s.Ops) == 0 {
			tags["zero-block-session"] = true
		}
	}
	tags[fmt.Sprintf("days=%d", len(sessionsOf))] = true
	tags[fmt.Sprintf("sessions=%d", len(in.Sessions))] = true
	if nReopen > 0 {
		tags["reopen"] = true
	}
	c.Nontrivial = nFallbackBig > 0 || nReopen > 0

	// ---- read everything back
	var days []int64
	for d := range sessionsOf {
		days = append(days, d)
	}
	sort.Slice(days, func(i, j int) bool { return days[i] < days[j] })
	obs := map[string]any{}
	var dayTerms []string
	for _, d := range days {
		r := gpfile.NewDirReader(base, d*dayLen, "")
		if err := r.Open(); err != nil {
			obs[fmt.Sprint(d)] = "open failed: " + err.Error()
			dayTerms = append(dayTerms, fmt.Sprintf("Dy %s false [] [] [] (Tm 0 0 0) (Ct 0 0 0 0) []", vhlib.CoqZ(d)))
			continue
		}
		dirPath := r.Path()
		nb := r.NBlocks()
		// timestamps: identical over the columns, otherwise report a poisoned list
		var tss []string
		uniform := true
		for i := 0; i < nb; i++ {
			t0 := r.BlockMetadata[0].BlockList[i].Timestamp
			for k := 1; k < nCols; k++ {
				if len(r.BlockMetadata[k].BlockList) != nb || r.BlockMetadata[k].BlockList[i].Timestamp != t0 {
					uniform = false
				}
			}
			tss = append(tss, vhlib.CoqZ(t0))
		}
		if !uniform {
			tss = append(tss, "(-1)%Z", "(-1)%Z")
			tags["ts-not-uniform"] = true
		}
		// index lookups of the accepted timestamps
		var idxs []string
		for _, a := range acc[d] {
			i, found := r.BlockMetadata[0].BlockIndex(a.Ts)
			for k := 1; k < nCols; k++ {
				if j, f := r.BlockMetadata[k].BlockIndex(a.Ts); f != found || j != i {
					found = false
				}
			}
			idxs = append(idxs, vhlib.CoqOption(found, fmt.Sprint(i)))
		}
		var traffic []string
		for _, t := range r.BlockTraffic {
			traffic = append(traffic, fmt.Sprintf("Tm %d %d %d", t.NumV4Entries, t.NumV6Entries, t.NumDrops))
		}
		tot := fmt.Sprintf("(Tm %d %d %d)", r.Traffic.NumV4Entries, r.Traffic.NumV6Entries, r.Traffic.NumDrops)
		cnt := fmt.Sprintf("(Ct %d %d %d %d)", r.Counts.BytesRcvd, r.Counts.BytesSent, r.Counts.PacketsRcvd, r.Counts.PacketsSent)

		var colTerms []string
		dayObs := map[string]any{}
		for k := 0; k < nCols; k++ {
			hdr := r.BlockMetadata[k]
			blocks := make([]blockObs, len(hdr.BlockList))
			var bts []string
			for i, b := range hdr.BlockList {
				blocks[i] = blockObs{b.Timestamp, b.Len, b.RawLen, int(b.EncoderType), b.Offset}
				bts = append(bts, fmt.Sprintf("Bk %d %d %d", b.Len, b.RawLen, int(b.EncoderType)))
			}
			// reads
			var order []int
			switch in.RMode {
			case 1:
				for i := len(blocks) - 1; i >= 0; i-- {
					order = append(order, i)
				}
			case 2:
				for i := range blocks {
					order = append(order, i, i)
				}
			default:
				for i := range blocks {
					order = append(order, i)
				}
			}
			cands := []cand{}
			seen := map[[2]int]bool{}
			for _, a := range acc[d] {
				id := a.Cols[k]
				for _, key := range [][2]int{{0, id}, {1 + codecCode(a.Enc, a.Lvl), id}} {
					if b, ok := strs[key]; ok && len(b) > 0 && !seen[key] {
						seen[key] = true
						cands = append(cands, cand{key[0], key[1], b})
					}
				}
			}
			var reads []string
			var readObs []string
			for _, i := range order {
				var data []byte
				var rerr error
				pan, _ := vhlib.Recover(func() {
					var dd []byte
					dd, rerr = r.ReadBlockAtIndex(types.ColumnIndex(k), i)
					data = append([]byte{}, dd...)
				})
				switch {
				case pan:
					reads = append(reads, "RP")
					readObs = append(readObs, "panic")
				case rerr != nil:
					reads = append(reads, "RE")
					readObs = append(readObs, "err")
				default:
					id := -1
					if i < len(acc[d]) && bytes.Equal(data, pbytes[acc[d][i].Cols[k]]) {
						id = acc[d][i].Cols[k]
					} else {
						for _, a := range acc[d] {
							if bytes.Equal(data, pbytes[a.Cols[k]]) {
								id = a.Cols[k]
								break
							}
						}
					}
					if id >= 0 {
						reads = append(reads, fmt.Sprintf("RK %d", id))
						readObs = append(readObs, fmt.Sprintf("ok=%d/%d", id, len(data)))
					} else {
						sg := canon(greedy(data, 0, len(data), cands, nil))
						reads = append(reads, "RO "+coqSegs(sg))
						readObs = append(readObs, fmt.Sprintf("differs/%d", len(data)))
						tags["read-differs"] = true
					}
				}
			}
			// layout of the column file
			fdata, ferr := os.ReadFile(filepath.Join(dirPath, types.ColumnFileNames[k]+gpfile.FileSuffix))
			if ferr != nil && !os.IsNotExist(ferr) {
				return "", ferr
			}
			var segs []seg
			var origins []int
			for _, b := range blocks {
				origins = append(origins, int(b.Off))
			}
			pos := 0
			for i, b := range blocks {
				if b.Len == 0 {
					continue
				}
				off, end := int(b.Off), int(b.Off)+int(b.Len)
				if off != pos || end > len(fdata) || i >= len(acc[d]) {
					break
				}
				a := acc[d][i]
				key := [2]int{0, a.Cols[k]}
				if b.Enc != 1 {
					key = [2]int{1 + codecCode(a.Enc, a.Lvl), a.Cols[k]}
				}
				if s, ok := strs[key]; ok && bytes.Equal(s, fdata[off:end]) {
					segs = append(segs, seg{key[0], key[1], 0, int(b.Len)})
				} else {
					segs = append(segs, greedy(fdata, off, end, cands, origins)...)
					tags["block-bytes-unexpected"] = true
				}
				pos = end
			}
			if pos < len(fdata) {
				segs = append(segs, greedy(fdata, pos, len(fdata), cands, origins)...)
				tags["bytes-beyond-blocks"] = true
			}
			segs = canon(segs)
			if back, ok := expand(segs, strs); !ok || !bytes.Equal(back, fdata) {
				// the description must reproduce the real file exactly; unknown bytes stay visible as kind 99
				hasUnknown := false
				for _, s := range segs {
					if s.K == 99 {
						hasUnknown = true
					}
				}
				if !hasUnknown {
					return "", fmt.Errorf("internal: segment description of day %d col %d does not reproduce the file", d, k)
				}
			}
			colTerms = append(colTerms, fmt.Sprintf("Co %d [%s] %s [%s]", hdr.CurrentOffset, strings.Join(bts, ";"), coqSegs(segs), strings.Join(reads, ";")))
			dayObs[types.ColumnFileNames[k]] = map[string]any{"cur": hdr.CurrentOffset, "size": len(fdata), "blocks": blocks, "reads": readObs, "layout": segs}
		}
		_ = r.Close()
		dayObs["idx"] = idxs
		obs[fmt.Sprint(d)] = dayObs
		dayTerms = append(dayTerms, fmt.Sprintf("Dy %s true [%s] [%s] [%s] %s %s [%s]", vhlib.CoqZ(d), strings.Join(tss, ";"),
			strings.Join(colTerms, ";"), strings.Join(traffic, ";"), tot, cnt, strings.Join(idxs, ";")))
	}
	obs["write_results"] = wres
	obs["close_results"] = cres
	c.Observed = obs
	for t := range tags {
		c.Tags = append(c.Tags, t)
	}
	sort.Strings(c.Tags)

	// ---- Coq term
	var pls []string
	for i := range in.Payloads {
		var codes []int
		for code := range encLens[i] {
			codes = append(codes, code)
		}
		sort.Ints(codes)
		var es []string
		for _, code := range codes {
			es = append(es, fmt.Sprintf("(%d,%d)", code, encLens[i][code]))
		}
		pls = append(pls, fmt.Sprintf("Pl %d [%s]", len(pbytes[i]), strings.Join(es, ";")))
	}
	var sts []string
	for si, s := range in.Sessions {
		var ops []string
		for _, op := range s.Ops {
			ids := make([]string, nCols)
			for k := range ids {
				ids[k] = fmt.Sprint(op.Cols[k])
			}
			ops = append(ops, fmt.Sprintf("Op %s %d %d %d %d %d %d %d [%s]", vhlib.CoqZ(op.Ts), op.TM[0], op.TM[1], op.TM[2],
				op.C[0], op.C[1], op.C[2], op.C[3], strings.Join(ids, ";")))
		}
		var rs []string
		for _, b := range wres[si] {
			rs = append(rs, vhlib.CoqBool(b))
		}
		sts = append(sts, fmt.Sprintf("Se %s %d %s [%s] [%s] %s", vhlib.CoqZ(s.Day), s.Enc, vhlib.CoqZ(int64(s.Lvl)),
			strings.Join(ops, ";"), strings.Join(rs, ";"), vhlib.CoqBool(cres[si])))
	}
	return fmt.Sprintf("(Case [%s] [%s] %d [%s])%%N", strings.Join(pls, ";"), strings.Join(sts, ";"), in.RMode,
		strings.Join(dayTerms, ";")), nil
}

func main() { vhlib.Main(gen, run) }
