// C09 correspondence harness: condition trees are rendered to text, prepared by the real
// node.ParseAndInstrument and evaluated by Node.Evaluate on generated keys. Observed: accept /
// reject / panic of the preparation, and per key the result bit (or panic) and the key bytes after
// the evaluation. The Coq side compares that with the model (corr) and with the textbook
// semantics (holds).
package main

import (
	"bytes"
	"encoding/hex"
	"encoding/json"
	"fmt"
	"net"
	"strconv"
	"strings"
	"time"

	"verifharness/vhlib"

	"github.com/els0r/goProbe/v4/pkg/goDB/conditions/node"
	"github.com/els0r/goProbe/v4/pkg/goDB/protocols"
	"github.com/els0r/goProbe/v4/pkg/types"
)

// ---------------------------------------------------------------- input

type tree struct {
	Op   string `json:"op"` // leaf not and or
	Attr string `json:"attr,omitempty"`
	Cmp  string `json:"cmp,omitempty"`
	Val  string `json:"val,omitempty"`
	L    *tree  `json:"l,omitempty"`
	R    *tree  `json:"r,omitempty"`
}

type input struct {
	Tree *tree    `json:"tree"`
	Wrap int      `json:"wrap,omitempty"` // number of extra negations wrapped around the tree
	Keys []string `json:"keys"`           // hex, 11 or 35 bytes
	Kind string   `json:"kind"`           // generator stream (for the histogram)
}

func leaf(a, c, v string) *tree { return &tree{Op: "leaf", Attr: a, Cmp: c, Val: v} }
func not(x *tree) *tree         { return &tree{Op: "not", L: x} }
func and(l, r *tree) *tree      { return &tree{Op: "and", L: l, R: r} }
func or(l, r *tree) *tree       { return &tree{Op: "or", L: l, R: r} }

func (t *tree) text() string {
	switch t.Op {
	case "leaf":
		return t.Attr + " " + t.Cmp + " " + t.Val
	case "not":
		return "!(" + t.L.text() + ")"
	case "and":
		return "(" + t.L.text() + " & " + t.R.text() + ")"
	default:
		return "(" + t.L.text() + " | " + t.R.text() + ")"
	}
}

func (t *tree) leaves(out *[]*tree) {
	if t.Op == "leaf" {
		*out = append(*out, t)
		return
	}
	t.L.leaves(out)
	if t.R != nil {
		t.R.leaves(out)
	}
}

func (t *tree) depth() int {
	switch t.Op {
	case "leaf":
		return 0
	case "not":
		return 1 + t.L.depth()
	}
	return 1 + max(t.L.depth(), t.R.depth())
}

var attrCoq = map[string]string{"sip": "ASip", "dip": "ADip", "snet": "ASnet", "dnet": "ADnet", "dport": "ADport",
	"proto": "AProto", "src": "ASrc", "dst": "ADst", "host": "AHost", "net": "ANet", "port": "APort",
	"protocol": "AProtocol", "ipproto": "AIpproto"}
var cmpCoq = map[string]string{"=": "Eq", "!=": "Ne", "<": "Lt", ">": "Gt", "<=": "Le", ">=": "Ge"}

func attrKind(a string) string {
	switch a {
	case "sip", "dip", "src", "dst", "host":
		return "addr"
	case "snet", "dnet", "net":
		return "net"
	case "dport", "port":
		return "port"
	}
	return "proto"
}

func hasAlnum(s string) bool {
	for _, c := range s {
		if c >= '0' && c <= '9' || c >= 'a' && c <= 'z' || c >= 'A' && c <= 'Z' {
			return true
		}
	}
	return false
}

// coqValue gives the parsed value the model takes as input: the results of the library
// functions the implementation itself calls on the text (recorded, not modelled).
func coqValue(a, v string) (string, error) {
	switch attrKind(a) {
	case "addr":
		b, isv4, err := types.IPStringToBytes(v)
		if err != nil {
			if hasAlnum(v) {
				return "", fmt.Errorf("value %q of %s would be resolved via DNS", v, a)
			}
			return "VBad", nil
		}
		return fmt.Sprintf("(VIP %s %s)", vhlib.CoqBytes(b), vhlib.CoqBool(isv4)), nil
	case "net":
		cidr := strings.Split(v, "/")
		if len(cidr) < 2 {
			return "VBad", nil
		}
		m, err := strconv.ParseInt(cidr[1], 10, 32)
		if err != nil {
			return "VBad", nil
		}
		b, _, err := types.IPStringToBytes(cidr[0])
		if err != nil {
			return "VBad", nil
		}
		return fmt.Sprintf("(VNet %s %s %s)", vhlib.CoqBytes(b), vhlib.CoqBool(strings.Contains(cidr[0], ":")), vhlib.CoqZ(m)), nil
	case "port":
		n, err := strconv.ParseUint(v, 10, 64)
		if err != nil {
			return "VBad", nil
		}
		return "(VPort " + vhlib.CoqN(n) + ")", nil
	default:
		n, err := strconv.ParseUint(v, 10, 64)
		if err != nil {
			id, ok := protocols.GetIPProtoID(v)
			if !ok {
				return "VBad", nil
			}
			n = id
		}
		return "(VProto " + vhlib.CoqN(n) + ")", nil
	}
}

func (t *tree) coq() (string, error) {
	switch t.Op {
	case "leaf":
		v, err := coqValue(t.Attr, t.Val)
		if err != nil {
			return "", err
		}
		a, ok1 := attrCoq[t.Attr]
		c, ok2 := cmpCoq[t.Cmp]
		if !ok1 || !ok2 {
			return "", fmt.Errorf("bad leaf %v", *t)
		}
		return fmt.Sprintf("(Leaf %s %s %s)", a, c, v), nil
	case "not":
		x, err := t.L.coq()
		return "(Not " + x + ")", err
	}
	l, err := t.L.coq()
	if err != nil {
		return "", err
	}
	r, err := t.R.coq()
	if err != nil {
		return "", err
	}
	if t.Op == "and" {
		return "(And " + l + " " + r + ")", nil
	}
	return "(Or " + l + " " + r + ")", nil
}

// ---------------------------------------------------------------- generators

var cmps = []string{"=", "!=", "<", ">", "<=", ">="}
var addrAttrs = []string{"sip", "dip", "src", "dst", "host"}
var netAttrs = []string{"snet", "dnet", "net"}
var portAttrs = []string{"dport", "port"}
var protoAttrs = []string{"proto", "protocol", "ipproto"}

// boundary addresses
var v4addrs = []string{"10.200.0.1", "10.0.0.0", "255.255.255.255", "0.0.0.0", "192.168.1.129", "10.127.255.255", "32.1.13.184", "1.2.3.4", "170.85.170.85"}
var v6addrs = []string{"2001:db8::1", "a00::", "ac8:1::", "ffff:ffff:ffff:ffff:ffff:ffff:ffff:ffff", "::", "fe80::aa55:aa55:1", "102:304::", "2001:db8:8000::ff"}

func ipBytes(s string) []byte {
	ip := net.ParseIP(s)
	if ip4 := ip.To4(); ip4 != nil && strings.Contains(s, ".") {
		return ip4
	}
	return ip.To16()
}

func flipBit(b []byte, bit int) []byte {
	out := append([]byte(nil), b...)
	if bit >= 0 && bit < 8*len(b) {
		out[bit/8] ^= 0x80 >> uint(bit%8)
	}
	return out
}

func mkKey(sip, dip []byte, dport uint16, proto byte) string {
	k := types.NewKey(sip, dip, []byte{byte(dport >> 8), byte(dport)}, proto)
	return hex.EncodeToString(k)
}

// resize an address to the other family keeping the leading bytes (equal-leading-bytes keys)
func refam(b []byte, r *vhlib.Rand) []byte {
	if len(b) == 4 {
		out := make([]byte, 16)
		copy(out, b)
		if r.Bool() {
			for i := 4; i < 16; i++ {
				out[i] = byte(r.Intn(256))
			}
		}
		return out
	}
	return append([]byte(nil), b[:4]...)
}

// keysFor builds keys around the values of the tree: exact hits, flips at the prefix boundary,
// the same leading bytes in the other family, boundary ports / protocols
func keysFor(t *tree, r *vhlib.Rand, n int) []string {
	var ls []*tree
	t.leaves(&ls)
	type cand struct {
		b    []byte
		mask int
	}
	var addrs []cand
	ports := []uint16{0, 80, 65535}
	protos := []byte{6, 17, 0, 255}
	for _, l := range ls {
		switch attrKind(l.Attr) {
		case "addr":
			if ip := net.ParseIP(l.Val); ip != nil {
				addrs = append(addrs, cand{ipBytes(l.Val), -1})
			}
		case "net":
			cidr := strings.Split(l.Val, "/")
			if len(cidr) >= 2 {
				if ip := net.ParseIP(cidr[0]); ip != nil {
					m, _ := strconv.Atoi(cidr[1])
					b := ip.To16()
					if !strings.Contains(cidr[0], ":") {
						b = ip.To4()
					}
					addrs = append(addrs, cand{b, m})
				}
			}
		case "port":
			if p, err := strconv.ParseUint(l.Val, 10, 16); err == nil {
				ports = append(ports, uint16(p), uint16(p)+1, uint16(p)-1, uint16(p)^0x100)
			}
		case "proto":
			if p, err := strconv.ParseUint(l.Val, 10, 8); err == nil {
				protos = append(protos, byte(p), byte(p)+1, byte(p)-1)
			} else if id, ok := protocols.GetIPProtoID(l.Val); ok {
				protos = append(protos, byte(id))
			}
		}
	}
	if len(addrs) == 0 {
		addrs = append(addrs, cand{ipBytes(vhlib.Pick(r, v4addrs)), -1}, cand{ipBytes(vhlib.Pick(r, v6addrs)), -1})
	}
	pickAddr := func(width int) []byte {
		c := vhlib.Pick(r, addrs)
		b := append([]byte(nil), c.b...)
		if c.mask >= 0 {
			switch r.Intn(6) {
			case 0:
				b = flipBit(b, c.mask-1) // last bit inside the prefix
			case 1:
				b = flipBit(b, c.mask) // first bit outside
			case 2:
				b = flipBit(b, c.mask+1)
			case 3: // host bits all set
				for i := c.mask; i >= 0 && i < 8*len(b); i++ {
					b[i/8] |= 0x80 >> uint(i%8)
				}
			}
		} else if r.Chance(25) {
			b = flipBit(b, r.Intn(8*len(b)))
		}
		if len(b) != width {
			b = refam(b, r)
		}
		return b
	}
	var keys []string
	seen := map[string]bool{}
	for tries := 0; len(keys) < n && tries < 4*n; tries++ {
		width := 4
		if r.Chance(45) {
			width = 16
		}
		if tries < 2 { // the first two keys: one of each family, derived from the tree's first address
			width = []int{len(addrs[0].b), 20 - len(addrs[0].b)}[tries]
		}
		k := mkKey(pickAddr(width), pickAddr(width), vhlib.Pick(r, ports), vhlib.Pick(r, protos))
		if !seen[k] {
			seen[k] = true
			keys = append(keys, k)
		}
	}
	return keys
}

func k4(sip, dip string, dport uint16, proto byte) string {
	return mkKey(net.ParseIP(sip).To4(), net.ParseIP(dip).To4(), dport, proto)
}
func k6(sip, dip string, dport uint16, proto byte) string {
	return mkKey(net.ParseIP(sip).To16(), net.ParseIP(dip).To16(), dport, proto)
}

// hand-picked boundary cases (always first)
func fixedCases() []input {
	a4 := k4("10.200.0.1", "10.0.0.1", 80, 6)
	b4 := k4("10.1.2.3", "192.168.1.129", 443, 17)
	a6 := k6("a00::1", "ac8:1::", 80, 6)
	b6 := k6("2001:db8::1", "2001:db8:8000::ff", 53, 17)
	all := []string{a4, b4, a6, b6}
	var cs []input
	add := func(t *tree, keys ...string) { cs = append(cs, input{Tree: t, Keys: keys, Kind: "fixed"}) }
	// a later clause on the same field must see the original address
	add(or(leaf("snet", "=", "10.0.0.0/9"), leaf("sip", "=", "10.200.0.1")), all...)
	add(or(leaf("dnet", "!=", "10.0.0.0/31"), leaf("dip", "!=", "10.0.0.1")), all...)
	add(and(leaf("snet", "!=", "10.0.0.0/9"), leaf("snet", "=", "10.200.0.0/16")), all...)
	add(and(leaf("dnet", "=", "ac8::/13"), leaf("dip", "=", "ac8:1::")), all...)
	add(leaf("net", "=", "10.0.0.0/9"), all...)
	add(leaf("net", "!=", "10.0.0.0/9"), all...)
	// a network of one family against flows of the other
	add(leaf("snet", "=", "10.0.0.0/8"), all...)
	add(leaf("snet", "!=", "10.0.0.0/8"), all...)
	add(leaf("snet", "=", "a00::/8"), all...)
	add(leaf("dnet", "=", "ac8::/13"), all...)
	add(leaf("snet", "=", "2001:db8::/33"), all...)
	add(leaf("snet", "=", "2001:db8::/128"), all...)
	add(leaf("dnet", "=", "2001:db8::/64"), all...)
	add(leaf("dnet", "!=", "2001:db8::/100"), all...)
	add(leaf("snet", "=", "0.0.0.0/0"), all...)
	add(leaf("dnet", "=", "::/0"), all...)
	add(leaf("sip", "=", "10.200.0.1"), all...)
	add(leaf("dip", "!=", "ac8:1::"), all...)
	add(leaf("sip", "=", "::ffff:10.200.0.1"), all...)
	// prefix lengths outside the range, mixed notations
	for _, v := range []string{"1.2.3.4/-9", "1.2.3.4/-17", "1.2.3.4/-1", "1.2.3.4/33", "1.2.3.4/32", "2001:db8::/129", "2001:db8::/-1",
		"::ffff:1.2.3.4/24", "::ffff:1.2.3.4/128", "::ffff:1.2.3.4/121", "::ffff:10.200.0.1/32", "1.2.3.4", "1.2.3.4/", "1.2.3.4/x", "/8", "1.2.3/8", "1.2.3.4/+8", "1.2.3.4/2147483648", "1.2.3.4/-2147483648"} {
		add(leaf("snet", "=", v), all...)
	}
	add(leaf("dnet", "!=", "::ffff:1.2.3.4/128"), all...)
	add(leaf("net", "=", "10.200.0.1/-3"), all...)
	// sugar
	add(leaf("host", "=", "10.200.0.1"), all...)
	add(leaf("host", "!=", "10.0.0.1"), all...)
	add(leaf("host", "<", "10.0.0.1"), all...)
	add(leaf("net", ">=", "10.0.0.0/8"), all...)
	add(leaf("src", "=", "a00::1"), all...)
	add(leaf("dst", "!=", "192.168.1.129"), all...)
	add(not(leaf("host", "!=", "2001:db8::1")), all...)
	for _, c := range cmps {
		add(leaf("port", c, "80"), all...)
		add(leaf("dport", c, "443"), all...)
		add(leaf("protocol", c, "tcp"), all...)
		add(leaf("ipproto", c, "17"), all...)
		add(not(leaf("proto", c, "6")), all...)
		add(leaf("sip", c, "10.200.0.1"), all...)
		add(leaf("dnet", c, "10.0.0.0/8"), all...)
	}
	for _, v := range []string{"65535", "65536", "0", "-1", "x", "18446744073709551616"} {
		add(leaf("dport", "=", v), all...)
	}
	for _, v := range []string{"255", "256", "0", "nosuchproto", "udp"} {
		add(leaf("proto", "=", v), all...)
	}
	add(leaf("sip", "=", "/"), all...)
	// Boolean structure
	add(not(or(and(leaf("sip", "=", "10.200.0.1"), leaf("dip", "=", "10.0.0.1")), leaf("dport", "=", "80"))), all...)
	add(not(not(and(leaf("snet", "=", "10.128.0.0/9"), not(leaf("dport", "<", "81"))))), all...)
	// the nesting limit
	for _, w := range []int{510, 511, 512, 513, 514} {
		cs = append(cs, input{Tree: leaf("dport", "<=", "80"), Wrap: w, Keys: []string{a4, b6}, Kind: "deep"})
		cs = append(cs, input{Tree: leaf("host", "!=", "10.200.0.1"), Wrap: w, Keys: []string{a4, b6}, Kind: "deep"})
		cs = append(cs, input{Tree: leaf("net", "=", "10.0.0.0/9"), Wrap: w, Keys: []string{a4, b6}, Kind: "deep"})
	}
	return cs
}

// exhaustive single network leaves: every prefix length (with a margin outside the range)
// x boundary addresses x attribute x comparator
func sweepCase(j int, r *vhlib.Rand) *input {
	type fam struct {
		addrs []string
		lo    int
		hi    int
	}
	fams := []fam{{[]string{"10.200.0.1", "255.255.255.255", "170.85.170.85"}, -3, 35}, {[]string{"ac8:1::8000:1", "ffff:ffff:ffff:ffff:ffff:ffff:ffff:ffff", "aa55:aa55:aa55:aa55:aa55:aa55:aa55:aa55"}, -3, 131}}
	n4 := 3 * (35 + 3 + 1)
	n6 := 3 * (131 + 3 + 1)
	per := n4 + n6
	if j >= 4*per {
		return nil
	}
	variant := j / per // attr x cmp
	j = j % per
	f := fams[0]
	if j >= n4 {
		f = fams[1]
		j -= n4
	}
	addr := f.addrs[j%3]
	mask := f.lo + j/3
	a := []string{"snet", "dnet"}[variant%2]
	c := []string{"=", "!="}[variant/2]
	t := leaf(a, c, addr+"/"+strconv.Itoa(mask))
	return &input{Tree: t, Keys: keysFor(t, r, 6), Kind: "sweep"}
}

func genValue(kind string, r *vhlib.Rand, theme4, theme6 string) string {
	switch kind {
	case "addr":
		switch r.Intn(10) {
		case 0:
			return vhlib.Pick(r, v4addrs)
		case 1:
			return vhlib.Pick(r, v6addrs)
		case 2:
			return "::ffff:" + theme4
		}
		if r.Bool() {
			return theme4
		}
		return theme6
	case "net":
		a, w := theme4, 32
		if r.Chance(45) {
			a, w = theme6, 128
		}
		if r.Chance(15) {
			a, w = vhlib.Pick(r, v4addrs), 32
		}
		var m int
		switch r.Intn(8) {
		case 0:
			m = vhlib.Pick(r, []int{-9, -1, w + 1, -17, 0, w, w - 1, 1})
		case 1:
			m = 8 * r.Intn(w/8+1)
		default:
			m = r.Intn(w + 1)
		}
		if r.Chance(3) {
			a = "::ffff:" + theme4
		}
		return a + "/" + strconv.Itoa(m)
	case "port":
		return strconv.Itoa(vhlib.Pick(r, []int{0, 1, 22, 80, 255, 256, 443, 1024, 65535, 65536, 8080}))
	}
	return vhlib.Pick(r, []string{"6", "17", "tcp", "udp", "icmp", "0", "255", "256", "1", "58"})
}

func genLeaf(r *vhlib.Rand, theme4, theme6 string) *tree {
	var a, c string
	switch r.Intn(10) {
	case 0, 1, 2:
		a = vhlib.Pick(r, addrAttrs)
	case 3, 4, 5, 6:
		a = vhlib.Pick(r, netAttrs)
	case 7, 8:
		a = vhlib.Pick(r, portAttrs)
	default:
		a = vhlib.Pick(r, protoAttrs)
	}
	k := attrKind(a)
	if k == "addr" || k == "net" {
		c = vhlib.Pick(r, []string{"=", "!="})
		if r.Chance(2) {
			c = vhlib.Pick(r, cmps)
		}
	} else {
		c = vhlib.Pick(r, cmps)
	}
	return leaf(a, c, genValue(k, r, theme4, theme6))
}

func genTree(r *vhlib.Rand, depth int, budget *int, theme4, theme6 string) *tree {
	if depth == 0 || *budget <= 1 || r.Chance(20) {
		*budget--
		return genLeaf(r, theme4, theme6)
	}
	switch r.Intn(5) {
	case 0:
		return not(genTree(r, depth-1, budget, theme4, theme6))
	case 1, 2:
		l := genTree(r, depth-1, budget, theme4, theme6)
		return and(l, genTree(r, depth-1, budget, theme4, theme6))
	default:
		l := genTree(r, depth-1, budget, theme4, theme6)
		return or(l, genTree(r, depth-1, budget, theme4, theme6))
	}
}

var fixed = fixedCases()

func gen(r *vhlib.Rand, i int, o vhlib.Opts) any {
	if i < len(fixed) {
		return fixed[i]
	}
	j := i - len(fixed)
	// thorough: the whole sweep; quick: a rotating sample of it (offset by the seed)
	if o.Tier == "thorough" && !o.Search {
		if c := sweepCase(j, r); c != nil {
			return *c
		}
	} else if j < 150 {
		total := 4 * (3*39 + 3*135)
		if c := sweepCase((j*13+int(o.Seed%997)*7)%total, r); c != nil {
			return *c
		}
	}
	theme4, theme6 := vhlib.Pick(r, v4addrs), vhlib.Pick(r, v6addrs)
	maxDepth := 1 + r.Intn(6)
	budget := 2 + r.Intn(7)
	if o.Search {
		budget = 3 + r.Intn(8)
	}
	t := genTree(r, maxDepth, &budget, theme4, theme6)
	in := input{Tree: t, Kind: "tree"}
	in.Keys = keysFor(t, r, 4+r.Intn(3))
	return in
}

// ---------------------------------------------------------------- run

func run(raw json.RawMessage, o vhlib.Opts) (*vhlib.Case, error) {
	var in input
	if err := json.Unmarshal(raw, &in); err != nil {
		return nil, err
	}
	if in.Tree == nil {
		return nil, fmt.Errorf("no tree")
	}
	t := in.Tree
	for i := 0; i < in.Wrap; i++ {
		t = not(t)
	}
	coqTree, err := t.coq()
	if err != nil {
		return nil, err
	}
	text := t.text()

	var nd node.Node
	var perr error
	panicked, pmsg := vhlib.Recover(func() { nd, _, perr = node.ParseAndInstrument(text, 50*time.Millisecond) })
	prep := "OAccept"
	obs := map[string]any{"prepare": "accept"}
	if len(text) < 300 {
		obs["text"] = text
	}
	switch {
	case panicked:
		prep = "OPanic"
		obs["prepare"] = "panic: " + pmsg
	case perr != nil:
		prep = "OReject"
		obs["prepare"] = "error: " + perr.Error()
	case nd == nil:
		return nil, fmt.Errorf("no condition node for %q", text)
	}

	var runs []string
	var robs []map[string]any
	anyTrue, anyFalse := false, false
	if prep == "OAccept" {
		for _, kh := range in.Keys {
			kb, err := hex.DecodeString(kh)
			if err != nil || (len(kb) != types.KeyWidthIPv4 && len(kb) != types.KeyWidthIPv6) {
				return nil, fmt.Errorf("bad key %q", kh)
			}
			k := types.Key(kb).Clone()
			var res bool
			p, msg := vhlib.Recover(func() { res = nd.Evaluate(k) })
			if p {
				runs = append(runs, vhlib.CoqPair(vhlib.CoqBytes(kb), "None"))
				robs = append(robs, map[string]any{"key": kh, "panic": msg})
				continue
			}
			anyTrue = anyTrue || res
			anyFalse = anyFalse || !res
			after := "None" // unchanged
			if !bytes.Equal(kb, k) {
				after = "(Some " + vhlib.CoqBytes(k) + ")"
			}
			runs = append(runs, vhlib.CoqPair(vhlib.CoqBytes(kb), "(Some "+vhlib.CoqPair(vhlib.CoqBool(res), after)+")"))
			robs = append(robs, map[string]any{"key": kh, "result": res, "key_after": hex.EncodeToString(k)})
		}
	}
	obs["runs"] = robs

	c := &vhlib.Case{Observed: obs}
	c.Coq = fmt.Sprintf("CEval %s %s %s", coqTree, prep, vhlib.CoqList(runs))
	// tags: stream, outcome, attribute kinds, shape
	c.Tags = []string{in.Kind, strings.ToLower(prep[1:])}
	var ls []*tree
	t.leaves(&ls)
	kinds := map[string]bool{}
	fields := map[string]int{}
	for _, l := range ls {
		kinds[attrKind(l.Attr)] = true
		f := l.Attr
		switch l.Attr {
		case "snet", "src", "sip":
			f = "S"
		case "dnet", "dst", "dip":
			f = "D"
		case "host", "net":
			fields["S"]++
			f = "D"
		}
		fields[f]++
	}
	for _, k := range []string{"addr", "net", "port", "proto"} {
		if kinds[k] {
			c.Tags = append(c.Tags, "has-"+k)
		}
	}
	if fields["S"] > 1 || fields["D"] > 1 {
		c.Tags = append(c.Tags, "same-field-repeated")
	}
	if d := t.depth(); d > 100 {
		c.Tags = append(c.Tags, "deep")
	} else {
		c.Tags = append(c.Tags, "depth-"+strconv.Itoa(d))
	}
	if anyTrue && anyFalse {
		c.Tags = append(c.Tags, "both-results")
	}
	c.Nontrivial = prep == "OAccept" && len(runs) > 0 && (kinds["addr"] || kinds["net"] || len(ls) > 1)
	return c, nil
}

func main() { vhlib.Main(gen, run) }
