// C02 correspondence harness: data written by one build configuration of the encoders is read back unchanged
// by every other one.
//
// This harness is built FOUR times (default cgo build by the driver; CGO_ENABLED=0, -tags goprobe_noliblz4,
// -tags goprobe_nolibzstd by itself into the -work directory, see verifharness/c07/xcfg). A case names a writer
// and a reader configuration (all 16 pairs occur): the writer process stores generated blocks into a column
// file in the work directory through the real encoder, following GPFile.writeBlock (empty blocks bypass the
// encoder, blocks that grow are stored with the null encoder, scratch buffer of length 8192); the reader
// process reads every block back following GPFile.ReadBlock (decoder chosen from the block's encoder type,
// buffers sized from the header, *os.File source positioned by Seek).
package main

import (
	"bytes"
	"encoding/json"
	"flag"
	"fmt"
	"io"
	"os"
	"path/filepath"
	"strconv"
	"strings"
	"time"

	"verifharness/c07/xcfg"
	"verifharness/vhlib"

	"github.com/els0r/goProbe/v4/pkg/goDB/encoder"
	"github.com/els0r/goProbe/v4/pkg/goDB/encoder/encoders"
	"github.com/els0r/goProbe/v4/pkg/goDB/encoder/null"
)

// blockIn describes a block. Kind "bnd" is a REQUEST resolved by the writer build: `size` random bytes followed by
// compressible padding, as much as makes (stored frame length - raw length) equal to `delta` under the writer's own
// encoder (the boundary of GPFile's `n > len(data)` fallback). The writer answers with the resolved description, kind
// "randpad" (size random bytes, optionally 11 repeated + 20 random bytes, then pad repeated bytes), which is a pure
// function again and is what the reader build regenerates.
type blockIn struct {
	Kind  string `json:"kind"`
	Size  int    `json:"size"`
	Seed  uint64 `json:"seed"`
	Delta int    `json:"delta,omitempty"`
	Pad   int    `json:"pad,omitempty"`
	Form  int    `json:"form,omitempty"`
	Run   int    `json:"run,omitempty"`
	Got   int    `json:"got,omitempty"` // frame length - raw length reached by the writer's search
}

func genBlock(b blockIn) []byte {
	if b.Kind != "randpad" {
		return xcfg.GenData(b.Kind, b.Size, b.Seed)
	}
	// size random bytes; then Form times (a copy of Run earlier bytes + 20 fresh random bytes); then a copy of Pad
	// earlier bytes: nearly incompressible data holding a few short repetitions, each a small gain for the compressor
	d := xcfg.GenData("random", b.Size, b.Seed)
	span := max(b.Size-40, 1)
	for i := 0; i < b.Form; i++ {
		off := (i * 97) % span
		d = append(d, d[off:min(off+b.Run, b.Size)]...)
		d = append(d, xcfg.GenData("random", 20, (b.Seed^0xABCDEF123456)+uint64(i)<<32)...)
	}
	off := (b.Form*97 + 200) % span
	return append(d, d[off:min(off+b.Pad, b.Size)]...)
}

var resolved = map[string]blockIn{}

// resolve finds, for a "bnd" request, a block for which the encoder's frame is exactly delta bytes longer than the
// data. The frame length is not monotone in the amount of repeated material (the libraries switch from a raw to a
// compressed block only when that pays), so the deterministic scan varies the number and the lengths of the short
// repetitions; the closest miss is used if the target is never hit (Got tells). The scan is kept short (a trial
// compression of a few hundred bytes costs milliseconds with the pure-Go zstd encoder) and its result is cached.
func resolve(e encoder.Encoder, key string, scratch []byte, b blockIn) blockIn {
	if b.Kind != "bnd" {
		return b
	}
	key += fmt.Sprint(b)
	if r, ok := resolved[key]; ok {
		return r
	}
	best, bestDist := blockIn{Kind: "randpad", Size: b.Size, Seed: b.Seed, Delta: b.Delta, Got: 1 << 20}, 1<<30
	var w bytes.Buffer
scan:
	for form := 1; form <= 1; form++ {
		for run := 5; run <= 11; run++ {
			for pad := 0; pad <= 20; pad++ {
				c := blockIn{Kind: "randpad", Size: b.Size, Seed: b.Seed, Pad: pad, Form: form, Run: run, Delta: b.Delta}
				data := genBlock(c)
				w.Reset()
				n, err := e.Compress(data, scratch, &w)
				if err != nil {
					continue
				}
				c.Got = n - len(data)
				dist := c.Got - b.Delta
				if dist < 0 {
					dist = -dist
				}
				if dist < bestDist {
					best, bestDist = c, dist
				}
				if dist == 0 {
					break scan
				}
			}
		}
	}
	resolved[key] = best
	return best
}

type input struct {
	W      string    `json:"w"` // writer configuration
	R      string    `json:"r"` // reader configuration
	Enc    string    `json:"enc"`
	Level  int       `json:"level"`
	SLen   int       `json:"slen"` // scratch buffer handed to Compress (GPFile: 8192, 8192)
	SCap   int       `json:"scap"`
	Blocks []blockIn `json:"blocks"`
	// damage done to the stored bytes of block DmgBlock (1-based; 0: none) between writing and reading: "magic"
	// flips a bit in the first byte of the frame, "mid" in its middle, "trunc" makes the header announce 3 bytes less.
	// The blocks after it are intact and are read with the SAME decoder object (GPFile keeps one per file).
	DmgBlock int    `json:"dmg_block,omitempty"`
	DmgMode  string `json:"dmg_mode,omitempty"`
}

// header entry (storage.Block)
type hdrEntry struct {
	Off uint64 `json:"off"`
	Len uint32 `json:"len"`
	Raw uint32 `json:"raw"`
	Enc string `json:"enc"`
}

type request struct {
	Op   string     `json:"op"` // write read
	In   input      `json:"in"`
	File string     `json:"file"`
	Hdr  []hdrEntry `json:"hdr,omitempty"`
}

type blockObs struct {
	Enc    string `json:"enc"`
	Len    uint32 `json:"len"`
	RClass string `json:"r_class"`
	REq    bool   `json:"r_eq"`
	RErr   string `json:"r_err,omitempty"`
}

type reply struct {
	Own      string     `json:"own"`
	Class    string     `json:"class"`
	Err      string     `json:"err,omitempty"`
	Hdr      []hdrEntry `json:"hdr,omitempty"`
	Resolved []blockIn  `json:"resolved,omitempty"`
	Blocks   []blockObs `json:"blocks,omitempty"`
}

type observed struct {
	WClass string     `json:"w_class"`
	WErr   string     `json:"w_err,omitempty"`
	Raw    []uint32   `json:"raw,omitempty"` // raw length of every block as written
	Res    []blockIn  `json:"resolved,omitempty"`
	Blocks []blockObs `json:"blocks"`
}

var encByName = map[string]encoders.Type{"null": encoders.EncoderTypeNull, "lz4": encoders.EncoderTypeLZ4, "zstd": encoders.EncoderTypeZSTD}

func encName(t encoders.Type) string {
	for k, v := range encByName {
		if v == t {
			return k
		}
	}
	return "?"
}

// doWrite follows GPFile.writeBlock (the buffered file writer is replaced by an in-memory buffer that is
// written out at the end: the file layer is C01's subject)
func doWrite(rq request) (rep reply) {
	rep.Own = xcfg.Own()
	defer func() {
		if r := recover(); r != nil {
			rep.Class, rep.Err = "panic", fmt.Sprint(r)
		}
	}()
	in := rq.In
	e, err := encoder.New(encByName[in.Enc])
	if err != nil {
		rep.Class, rep.Err = "err", err.Error()
		return
	}
	defer e.Close()
	if in.Level > 0 {
		e.SetLevel(in.Level)
	}
	scratch := make([]byte, in.SLen, in.SCap)
	var file bytes.Buffer
	for _, b := range in.Blocks {
		b = resolve(e, fmt.Sprint(in.Enc, in.Level, in.SLen, in.SCap), scratch, b)
		rep.Resolved = append(rep.Resolved, b)
		data := genBlock(b)
		if len(data) == 0 {
			rep.Hdr = append(rep.Hdr, hdrEntry{Off: uint64(file.Len()), Enc: "null"})
			continue
		}
		mark := file.Len()
		n, err := e.Compress(data, scratch, &file)
		if err != nil {
			rep.Class, rep.Err = "err", err.Error()
			return
		}
		encType := in.Enc
		if n > len(data) {
			encType = "null"
			file.Truncate(mark)
			if n, err = null.DefaultEncoder.Compress(data, scratch, &file); err != nil {
				rep.Class, rep.Err = "err", err.Error()
				return
			}
		}
		rep.Hdr = append(rep.Hdr, hdrEntry{Off: uint64(mark), Len: uint32(n), Raw: uint32(len(data)), Enc: encType})
		if file.Len() != mark+n { // CurrentOffset += nWritten must describe the file
			rep.Class, rep.Err = "err", fmt.Sprintf("reported %d bytes, file grew by %d", n, file.Len()-mark)
			return
		}
	}
	if err := os.WriteFile(rq.File, file.Bytes(), 0o600); err != nil {
		rep.Class, rep.Err = "err", "harness: "+err.Error()
		return
	}
	rep.Class = "ok"
	return
}

// doRead follows GPFile.ReadBlock for every block of the header
func doRead(rq request) (rep reply) {
	rep.Own = xcfg.Own()
	f, err := os.Open(rq.File)
	if err != nil {
		rep.Class, rep.Err = "err", "harness: "+err.Error()
		return
	}
	defer f.Close()
	rep.Class = "ok"
	var cur encoder.Encoder
	defer func() {
		if cur != nil {
			cur.Close()
		}
	}()
	var uncomp, blockData []byte
	for i, h := range rq.Hdr {
		want := genBlock(rq.In.Blocks[i])
		ob := blockObs{Enc: h.Enc, Len: h.Len}
		func() {
			defer func() {
				if r := recover(); r != nil {
					ob.RClass, ob.RErr = "panic", fmt.Sprint(r)
				}
			}()
			if h.Raw == 0 {
				ob.RClass, ob.REq = "ok", len(want) == 0
				return
			}
			if _, err := f.Seek(int64(h.Off), io.SeekStart); err != nil {
				ob.RClass, ob.RErr = "err", err.Error()
				return
			}
			if uint32(cap(uncomp)) < h.Raw {
				uncomp = make([]byte, 0, 2*h.Raw)
			}
			uncomp = uncomp[:h.Raw]
			var n int
			var err error
			if t := encByName[h.Enc]; t != encoders.EncoderTypeNull {
				if cur == nil || cur.Type() != t {
					if cur != nil {
						cur.Close()
					}
					if cur, err = encoder.New(t); err != nil {
						ob.RClass, ob.RErr = "err", err.Error()
						return
					}
				}
				if uint32(cap(blockData)) < h.Len {
					blockData = make([]byte, 0, 2*h.Len)
				}
				blockData = blockData[:h.Len]
				n, err = cur.Decompress(blockData, uncomp, f)
			} else {
				n, err = null.DefaultEncoder.Decompress(nil, uncomp, f)
			}
			if err != nil {
				ob.RClass, ob.RErr = "err", err.Error()
				return
			}
			if uint32(n) != h.Raw {
				ob.RClass, ob.RErr = "err", fmt.Sprintf("unexpected amount of bytes after decompression, want %d, have %d", h.Raw, n)
				return
			}
			ob.RClass, ob.REq = "ok", bytes.Equal(uncomp, want)
		}()
		rep.Blocks = append(rep.Blocks, ob)
	}
	return
}

// ---------------------------------------------------------------- generation

var cfgNames = xcfg.Names()
var sizes = []int{0, 1, 2, 12, 13, 16, 17, 100, 255, 256, 1000, 4095, 4096, 4097, 8191, 8192, 8193}
var bigSizes = []int{16384, 65535, 65536, 65537, 131071, 131072, 131073, 200000, 307200}

// blocks far beyond the usual sizes: a ladder around 128 KiB, 1 MiB and 8 MiB for every encoder and all 16
// writer/reader pairs; 16 MiB+1 and 64 MiB+1 for every encoder and reader build; the zstd window sizes
// 2^10+1 .. 2^27+1 for every reader build. Compressible patterns (a few incompressible ones <= 8 MiB+1); above
// `big_threshold` the Coq side uses the proved closed form of the model, so these cost Go time only.
var ladder = []int{131071, 131072, 131073, 1<<20 - 1, 1 << 20, 1<<20 + 1, 8<<20 - 1, 8 << 20, 8<<20 + 1}

const nBig = 48 + 12 + 4 + 2 + 2

func bigKind(size, salt int) string {
	if salt%7 == 0 && (size <= 1<<20+1 || (size == 8<<20+1 && salt%14 == 0)) { // incompressible: a few, HC levels are slow on them
		return "random"
	}
	if size > 1<<20+1 {
		return "tile" // cheap to generate; (one huge run of a single byte is very slow in klauspost's decoder)
	}
	return []string{"const", "text", "counters"}[salt%3]
}

func b2i(b bool) int {
	if b {
		return 1
	}
	return 0
}

func nativeReader(cfg, enc string) bool { return enc != "null" && implName(cfg, enc) == "native" }

// bigCase: the thorough tier and the search rounds (heavy) run everything; the quick tier keeps, per pair and
// encoder, one block at each rung (128 KiB, 1 MiB+1, 8 MiB, 8 MiB+1) and the larger blocks only where a pure-Go
// decoder reads - the whole check has to stay around 100 s.
func bigCase(k int, heavy bool) input {
	in := input{SLen: 8192, SCap: 8192}
	switch {
	case k < 48:
		p, e := k%16, k/16
		in.W, in.R, in.Enc = cfgNames[p/4], cfgNames[p%4], []string{"zstd", "lz4", "null"}[e]
		for j, n := range ladder {
			if !heavy {
				keep := j == 1 || j == 5 || j == 7 || j == 8
				if in.Enc == "null" { // one implementation: the diagonal pairs only, without the 8 MiB pair
					keep = j == 1 || (p%5 == 0 && j == 5)
				}
				if !keep {
					continue
				}
			}
			in.Blocks = append(in.Blocks, blockIn{Kind: bigKind(n, k+j), Size: n, Seed: uint64(4000 + 16*k + j)})
		}
	case k < 60:
		k -= 48
		in.W, in.R, in.Enc = cfgNames[(k+1)%4], cfgNames[k%4], []string{"zstd", "lz4", "null"}[k/4]
		size := 16<<20 + 1
		if !heavy && !nativeReader(in.R, in.Enc) {
			size = 1<<20 + 3
		}
		in.Blocks = []blockIn{{Kind: "tile", Size: size, Seed: uint64(5000 + k)}}
		if heavy || k == 1 { // quick tier: zstd read by the CGO_ENABLED=0 build
			in.Blocks = append(in.Blocks, blockIn{Kind: "tile", Size: 64<<20 + 1, Seed: uint64(5100 + k)})
		}
	case k < 64:
		k -= 60
		in.W, in.R, in.Enc, in.Level = cfgNames[(k+2)%4], cfgNames[k], "zstd", []int{0, 1, 12, 19}[k]
		top := 24
		if !heavy && k >= 2 {
			top = 20
		}
		for e := 10; e <= top; e++ {
			in.Blocks = append(in.Blocks, blockIn{Kind: []string{"const", "text", "tile", "tile"}[e%2+2*b2i(e > 20)], Size: 1<<e + 1, Seed: uint64(6000 + 32*k + e)})
		}
	case k < 66:
		k -= 64
		in.W, in.R, in.Enc = []string{"cgo", "nocgo"}[k], []string{"nocgo", "cgo"}[k], "zstd"
		if heavy {
			in.Blocks = []blockIn{{Kind: "tile", Size: 1<<25 + 1, Seed: uint64(7000 + k)}, {Kind: "tile", Size: 1<<26 + 1, Seed: uint64(7100 + k)}}
		} else {
			in.Blocks = []blockIn{{Kind: "tile", Size: 1<<(25-3*k) + 1, Seed: uint64(7000 + k)}}
		}
	default: // 2^27+1 only in the thorough tier and the search rounds
		k -= 66
		in.W, in.R, in.Enc = []string{"cgo", "nocgo"}[k], []string{"nocgo", "cgo"}[k], "zstd"
		size := 1<<21 + 1
		if heavy {
			size = 1<<27 + 1
		}
		in.Blocks = []blockIn{{Kind: "tile", Size: size, Seed: uint64(7200 + k)}}
	}
	return in
}

// bndCase: for all 16 pairs x {zstd, lz4}: nearly incompressible blocks whose stored frame is one byte shorter
// than, exactly as long as, and one byte longer than the raw data UNDER THE WRITER'S encoder - the boundary of
// writeBlock's `nWritten > len(blockData)` fallback (an equal-sized block stays compressed)
const nBnd = 32

func bndCase(k int) input {
	p, e := k%16, k/16
	wi := p / 4
	in := input{W: cfgNames[wi], R: cfgNames[p%4], Enc: []string{"zstd", "lz4"}[e], Level: []int{0, 0, 3, 9}[wi], SLen: 8192, SCap: 8192}
	for j, d := range []int{-1, 0, 1} {
		in.Blocks = append(in.Blocks, blockIn{Kind: "bnd", Size: 400, Seed: uint64(8000 + 64*e + 8*wi + j), Delta: d})
	}
	in.Blocks = append(in.Blocks, blockIn{Kind: "bnd", Size: 300 + 37*wi, Seed: uint64(8500 + 8*e + wi), Delta: 0},
		blockIn{Kind: "bnd", Size: 256, Seed: uint64(8600 + 8*e + wi), Delta: 0})
	return in
}

// dmgCase: a column of five compressible blocks of which the second is damaged on disk; the following blocks are
// intact and must be read back by every reader build (one decoder object per file, as GPFile keeps it)
const nDmg = 24

func dmgCase(k int) input {
	ri, e, m := k%4, (k/4)%2, k/8
	in := input{W: cfgNames[(ri+1+m)%4], R: cfgNames[ri], Enc: []string{"zstd", "lz4"}[e], SLen: 8192, SCap: 8192,
		DmgBlock: 2, DmgMode: []string{"magic", "mid", "trunc"}[m]}
	for j, b := range []blockIn{{Kind: "text", Size: 3000}, {Kind: "counters", Size: 5000}, {Kind: "text", Size: 800}, {Kind: "tile", Size: 20000}, {Kind: "text", Size: 1200}} {
		b.Seed = uint64(9000 + 8*k + j)
		in.Blocks = append(in.Blocks, b)
	}
	return in
}

func gen(r *vhlib.Rand, i int, o vhlib.Opts) any {
	// the first 48 cases: all 16 writer/reader pairs x 3 encoders, each a small "database column": an
	// empty block, a tiny (growing) block, two compressible blocks (one larger than the scratch buffer) and an
	// incompressible block
	if i < 48 {
		p, e := i%16, []string{"lz4", "zstd", "null"}[i/16]
		return input{W: cfgNames[p/4], R: cfgNames[p%4], Enc: e, Level: 0, SLen: 8192, SCap: 8192, Blocks: []blockIn{
			{Kind: "text", Size: 0, Seed: 1}, {Kind: "random", Size: 5, Seed: uint64(i)}, {Kind: "text", Size: 3000, Seed: uint64(i)}, {Kind: "counters", Size: 20000, Seed: uint64(i)}, {Kind: "random", Size: 300, Seed: uint64(i)}}}
	}
	// 16 more fixed cases: nearly incompressible blocks that FIT GPFile's 8192-byte scratch buffer while their
	// worst-case frame does not (8145..8191 bytes), and a scratch buffer a few bytes larger than the block
	if i < 64 {
		k := i - 48
		e := []string{"lz4", "zstd"}[k%2]
		w := []string{"cgo", "nocgo"}[(k/2)%2]
		in := input{W: w, R: []string{"nocgo", "cgo", "noliblz4", "nolibzstd"}[k%4], Enc: e, Level: []int{0, 1, 9, 12}[k/4], SLen: 8192, SCap: 8192}
		if k < 8 {
			in.Blocks = []blockIn{{Kind: "random", Size: []int{8150, 8176, 8190, 8191}[k/2], Seed: uint64(k)}, {Kind: "text", Size: 700, Seed: uint64(k)}}
		} else {
			n := []int{64, 4096, 16380, 40000}[(k-8)/2]
			in.SCap = n + []int{1, 8}[k%2]
			in.SLen = in.SCap * (k % 2)
			in.Blocks = []blockIn{{Kind: "random", Size: n, Seed: uint64(k)}, {Kind: "mixed", Size: n / 2, Seed: uint64(k)}}
		}
		return in
	}
	if i < 64+nBig {
		return bigCase(i-64, o.Search || o.Tier == "thorough")
	}
	if i < 64+nBig+nBnd {
		return bndCase(i - 64 - nBig)
	}
	if i < 64+nBig+nBnd+nDmg {
		return dmgCase(i - 64 - nBig - nBnd)
	}
	in := input{W: vhlib.Pick(r, cfgNames), R: vhlib.Pick(r, cfgNames), SLen: 8192, SCap: 8192}
	switch x := r.Intn(100); {
	case x < 8:
		in.Enc = "null"
	case x < 52:
		in.Enc = "lz4"
	default:
		in.Enc = "zstd"
	}
	if r.Chance(70) { // 0: the encoder's default level (GPFile only calls SetLevel for levels > 0)
		if in.Enc == "lz4" {
			in.Level = 1 + r.Intn(12)
		} else {
			in.Level = 1 + r.Intn(19)
		}
	}
	if r.Chance(20) {
		in.SCap = r.Intn(20000)
		in.SLen = r.Intn(in.SCap + 1)
	}
	nb := 1 + r.Intn(4)
	bigP := 3
	if o.Search || o.Tier == "thorough" {
		bigP = 10
	}
	for k := 0; k < nb; k++ {
		b := blockIn{Kind: vhlib.Pick(r, xcfg.DataKinds), Seed: r.U64() >> 16}
		switch x := r.Intn(100); {
		case x < bigP:
			b.Size = vhlib.Pick(r, bigSizes)
		case x < 22: // larger than GPFile's 8192-byte scratch buffer plus a frame
			b.Size = 9000 + r.Intn(31000)
		case x < 55:
			b.Size = vhlib.Pick(r, sizes)
		default:
			b.Size = r.Intn(9000)
		}
		in.Blocks = append(in.Blocks, b)
	}
	if in.Enc != "null" && r.Chance(15) { // a block at the boundary of the null-encoder fallback
		in.Blocks[r.Intn(len(in.Blocks))] = blockIn{Kind: "bnd", Size: 256 + r.Intn(600), Seed: r.U64() >> 16, Delta: r.Intn(3) - 1}
		return in
	}
	if r.Chance(10) { // one block log-uniform in [1, 2^26] (quick tier: 2^23), compressible when large
		b := &in.Blocks[0]
		top := 23
		if o.Search || o.Tier == "thorough" {
			top = 26
		}
		b.Size = 1 << uint(r.Intn(top))
		b.Size += r.Intn(b.Size + 1)
		if b.Size > 1<<20 {
			b.Kind = "tile"
			if in.Level > 6 {
				in.Level = 1 + r.Intn(6)
			}
		}
		return in
	}
	if in.Enc != "null" && len(in.Blocks) >= 2 && r.Chance(12) { // a damaged block followed by intact ones
		in.DmgBlock = 1 + r.Intn(len(in.Blocks)-1)
		in.DmgMode = vhlib.Pick(r, []string{"magic", "mid", "trunc"})
		return in
	}
	if r.Chance(20) { // scratch sized relative to one of the blocks, that block incompressible
		b := &in.Blocks[r.Intn(len(in.Blocks))]
		b.Kind = "random"
		in.SCap = max(0, b.Size+vhlib.Pick(r, []int{-1, 0, 1, 8, b.Size/255 + 15, b.Size/255 + 16, b.Size/255 + 17}))
		in.SLen = in.SCap * r.Intn(2)
	} else if r.Chance(15) { // fits the 8192-byte buffer, its bound does not
		in.SLen, in.SCap = 8192, 8192
		in.Blocks[0] = blockIn{Kind: "random", Size: 8100 + r.Intn(92), Seed: r.U64() >> 16}
	}
	return in
}

// ---------------------------------------------------------------- run

var pool *xcfg.Pool
var prebuilt bool
var seq int

func call(cfg string, rq request, o vhlib.Opts) (reply, bool, error) {
	k, err := pool.Get(cfg)
	if err != nil {
		return reply{}, false, err
	}
	raw, _ := json.Marshal(rq)
	b, err := k.Call(raw)
	if err != nil { // the process died (a C library crashed): an observation
		pool.Drop(cfg)
		return reply{Own: cfg, Class: "panic", Err: "the process running the encoders crashed"}, true, nil
	}
	var rep reply
	if err := json.Unmarshal(b, &rep); err != nil {
		return reply{}, false, fmt.Errorf("bad reply from %s: %v: %s", cfg, err, b)
	}
	if rep.Own != cfg {
		return reply{}, false, fmt.Errorf("child built for %s reports configuration %s", cfg, rep.Own)
	}
	return rep, false, nil
}

var coqCfg = map[string]string{"cgo": "CfgCgo", "nocgo": "CfgNoCgo", "noliblz4": "CfgNoLibLz4", "nolibzstd": "CfgNoLibZstd"}
var coqEnc = map[string]string{"null": "ENull", "lz4": "ELz4", "zstd": "EZstd"}
var coqClass = map[string]uint64{"ok": 0, "err": 1, "panic": 2}

func run(raw json.RawMessage, o vhlib.Opts) (*vhlib.Case, error) {
	var in input
	if err := json.Unmarshal(raw, &in); err != nil {
		return nil, err
	}
	if os.Getenv("VH_TIMING") != "" { // per-case wall time on stderr (development aid)
		t0 := time.Now()
		defer func() { fmt.Fprintf(os.Stderr, "%8.3fs %s\n", time.Since(t0).Seconds(), in.Enc+" "+in.W+"->"+in.R) }()
	}
	if coqCfg[in.W] == "" || coqCfg[in.R] == "" || coqEnc[in.Enc] == "" {
		return nil, fmt.Errorf("bad case %s", raw)
	}
	if pool == nil {
		pool = &xcfg.Pool{Work: o.Work, Pkg: "./c02"}
	}
	if o.Mode == "gen" && !prebuilt {
		prebuilt = true
		if err := pool.Prebuild(); err != nil {
			return nil, err
		}
	}
	seq++
	abs, _ := filepath.Abs(o.Work)
	file := filepath.Join(abs, "c02_col_"+strconv.Itoa(os.Getpid())+"_"+strconv.Itoa(seq)+".gpf")
	defer os.Remove(file)

	ob := observed{}
	wrep, _, err := call(in.W, request{Op: "write", In: in, File: file}, o)
	if err != nil {
		return nil, err
	}
	ob.WClass, ob.WErr = wrep.Class, wrep.Err
	if wrep.Class == "ok" {
		rin := in
		rin.Blocks = wrep.Resolved // boundary requests resolved by the writer build
		ob.Res = wrep.Resolved
		for _, h := range wrep.Hdr {
			ob.Raw = append(ob.Raw, h.Raw)
		}
		if len(wrep.Resolved) != len(in.Blocks) || len(wrep.Hdr) != len(in.Blocks) {
			return nil, fmt.Errorf("writer %s answered %d/%d blocks for %d", in.W, len(wrep.Resolved), len(wrep.Hdr), len(in.Blocks))
		}
		rhdr := append([]hdrEntry{}, wrep.Hdr...)
		if k := in.DmgBlock - 1; k >= 0 && k < len(rhdr) && rhdr[k].Len > 3 {
			switch in.DmgMode {
			case "trunc":
				rhdr[k].Len -= 3
			default:
				fb, err := os.ReadFile(file)
				if err != nil {
					return nil, err
				}
				pos := rhdr[k].Off
				if in.DmgMode == "mid" {
					pos += uint64(rhdr[k].Len / 2)
				}
				fb[pos] ^= 0x40
				if err := os.WriteFile(file, fb, 0o600); err != nil {
					return nil, err
				}
			}
		}
		rrep, crashed, err := call(in.R, request{Op: "read", In: rin, File: file, Hdr: rhdr}, o)
		if err != nil {
			return nil, err
		}
		if crashed || rrep.Class != "ok" { // the reader did not get through the file at all
			for _, h := range wrep.Hdr {
				ob.Blocks = append(ob.Blocks, blockObs{Enc: h.Enc, Len: h.Len, RClass: map[bool]string{true: "panic", false: "err"}[crashed], RErr: rrep.Err})
			}
		} else {
			ob.Blocks = rrep.Blocks
		}
		for i := range ob.Blocks { // the length the WRITER recorded
			ob.Blocks[i].Len = wrep.Hdr[i].Len
		}
	}
	nontrivial := ob.WClass == "ok"
	var bl, bnd []string
	total := 0
	comp := 0
	for i, b := range ob.Blocks {
		bl = append(bl, fmt.Sprintf("{| o_dlen := %s; o_enc := %s; o_len := %s; o_rclass := %s; o_req := %s |}",
			vhlib.CoqN(uint64(ob.Raw[i])), coqEnc[b.Enc], vhlib.CoqN(uint64(b.Len)), vhlib.CoqN(coqClass[b.RClass]), vhlib.CoqBool(b.REq)))
		total += int(ob.Raw[i])
		if in.Blocks[i].Kind == "bnd" {
			bnd = append(bnd, fmt.Sprintf("boundary:frame-raw=%+d:%s", in.Blocks[i].Delta, map[bool]string{true: "exact", false: "missed"}[ob.Res[i].Got == in.Blocks[i].Delta]))
		}
		if b.Enc != "null" {
			comp++
		}
	}
	if total == 0 {
		nontrivial = false
	}
	pair := "same-config"
	if in.W != in.R {
		pair = "cross-config"
	}
	c := &vhlib.Case{Observed: ob, Nontrivial: nontrivial,
		Tags: []string{"w:" + in.W, "r:" + in.R, pair, "enc:" + in.Enc, "write:" + ob.WClass,
			fmt.Sprintf("blocks:%d", len(in.Blocks)), fmt.Sprintf("stored-compressed:%d", comp),
			"lz4 " + implName(in.W, "lz4") + "->" + implName(in.R, "lz4"), "zstd " + implName(in.W, "zstd") + "->" + implName(in.R, "zstd")}}
	c.Tags = append(c.Tags, bnd...)
	if in.DmgBlock > 0 {
		c.Tags = append(c.Tags, "damaged-block:"+in.DmgMode)
	}
	c.Coq = fmt.Sprintf("Case %s %s %s %s %s %s %s %s %s", coqCfg[in.W], coqCfg[in.R], coqEnc[in.Enc], vhlib.CoqZ(int64(in.Level)),
		vhlib.CoqN(uint64(in.SLen)), vhlib.CoqN(uint64(in.SCap)), vhlib.CoqN(coqClass[ob.WClass]), vhlib.CoqN(uint64(in.DmgBlock)), "["+strings.Join(bl, "; ")+"]")
	return c, nil
}

func implName(cfg, enc string) string {
	if cfg == "nocgo" || cfg == "nolib"+enc {
		return "native"
	}
	return "cgo"
}

func main() {
	if len(os.Args) > 1 && os.Args[1] == "serve" {
		fs := flag.NewFlagSet("serve", flag.ExitOnError)
		_ = fs.String("work", ".", "")
		_ = fs.String("cfg", "", "")
		_ = fs.Parse(os.Args[2:])
		xcfg.Serve(func(req []byte) []byte {
			var rq request
			var rep reply
			if err := json.Unmarshal(req, &rq); err != nil {
				rep = reply{Own: "bad-request"}
			} else if rq.Op == "write" {
				rep = doWrite(rq)
			} else {
				rep = doRead(rq)
			}
			b, _ := json.Marshal(rep)
			return b
		})
		return
	}
	vhlib.Main(gen, run)
	if pool != nil {
		pool.CloseAll()
	}
}
