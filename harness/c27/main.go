// C27 correspondence harness: drives the real capture.Manager (Update / scheduled writeout /
// GetFlowMaps) with scripted in-memory packet sources, an injected host link list and a recording
// writeout handler, over sequences of configuration updates with traffic in between, and prints
// each observation as a Coq term of type GoProbe.C27.Corr.case.
//
// Determinism: no sleeps. A scripted source hands a packet to the capture's processing routine and
// Inject returns only once the routine asks for the next packet (the previous one is in the flow
// log by then); Manager.Update, the writeout and GetFlowMaps are synchronous. Every script is run
// several times with fresh managers (Go map iteration order differs between runs).
package main

import (
	"context"
	"encoding/json"
	"errors"
	"fmt"
	"io"
	"net"
	"regexp"
	"sort"
	"strings"
	"sync"
	"time"

	"verifharness/vhlib"

	"github.com/els0r/goProbe/v4/cmd/goProbe/config"
	gpcapture "github.com/els0r/goProbe/v4/pkg/capture"
	"github.com/els0r/goProbe/v4/pkg/capture/capturetypes"
	"github.com/els0r/goProbe/v4/pkg/types"
	"github.com/els0r/goProbe/v4/pkg/types/hashmap"
	"github.com/els0r/telemetry/logging"
	"github.com/fako1024/gotools/link"
	"github.com/fako1024/slimcap/capture"
	"golang.org/x/net/bpf"
)

// ------------------------------------------------------------------ input

type ccIn struct {
	V bool        `json:"v,omitempty"` // ignore_vlans
	P bool        `json:"p,omitempty"` // promisc
	R *[2]int     `json:"r,omitempty"` // ring buffer {block size, num blocks}
	B [][4]uint32 `json:"b,omitempty"` // extra BPF instructions {op, jt, jf, k}
	D bool        `json:"d,omitempty"` // disable
}
type entIn struct {
	K string `json:"k"`
	C ccIn   `json:"c"`
}
type evIn struct {
	T       string   `json:"t"` // upd | pkt | rot
	Auto    bool     `json:"auto,omitempty"`
	Excl    []string `json:"excl,omitempty"`
	Ifs     []entIn  `json:"ifs,omitempty"`
	Links   []string `json:"links,omitempty"`
	Down    []string `json:"down,omitempty"`
	LinkErr bool     `json:"linkerr,omitempty"`
	I       string   `json:"i,omitempty"`
	P       int      `json:"p,omitempty"`
}
type input struct {
	Evs  []evIn `json:"evs"`
	Reps int    `json:"reps"`
}

// ------------------------------------------------------------------ scripted packet source

type scriptSrc struct {
	mu        sync.Mutex
	cond      *sync.Cond
	queue     []capture.Packet
	inflight  bool
	pushed    int
	done      int
	unblocked bool
	closed    bool
}

func newScriptSrc() *scriptSrc {
	s := &scriptSrc{}
	s.cond = sync.NewCond(&s.mu)
	return s
}

func (s *scriptSrc) NextIPPacketZeroCopy() (capture.IPLayer, capture.PacketType, uint32, error) {
	s.mu.Lock()
	defer s.mu.Unlock()
	if s.inflight { // the processing routine is back: the previous packet has been accounted for
		s.inflight = false
		s.done++
		s.cond.Broadcast()
	}
	for {
		if s.closed {
			return nil, 0, 0, capture.ErrCaptureStopped
		}
		if s.unblocked {
			s.unblocked = false
			return nil, 0, 0, capture.ErrCaptureUnblocked
		}
		if len(s.queue) > 0 {
			p := s.queue[0]
			s.queue = s.queue[1:]
			s.inflight = true
			return p.IPLayer(), p.Type(), p.TotalLen(), nil
		}
		s.cond.Wait()
	}
}

// Inject queues a packet and waits until it has been processed (or the source was closed)
func (s *scriptSrc) Inject(p capture.Packet) {
	s.mu.Lock()
	defer s.mu.Unlock()
	s.queue = append(s.queue, p)
	s.pushed++
	target := s.pushed
	s.cond.Broadcast()
	for s.done < target && !s.closed {
		s.cond.Wait()
	}
}
func (s *scriptSrc) Unblock() error {
	s.mu.Lock()
	s.unblocked = true
	s.cond.Broadcast()
	s.mu.Unlock()
	return nil
}
func (s *scriptSrc) Close() error {
	s.mu.Lock()
	s.closed = true
	s.cond.Broadcast()
	s.mu.Unlock()
	return nil
}
func (s *scriptSrc) Stats() (capture.Stats, error) { return capture.Stats{}, nil }
func (s *scriptSrc) Link() *link.Link              { return nil }
func (s *scriptSrc) NewPacket() capture.Packet     { return nil }

var errUnsupported = errors.New("not supported by the scripted source")

func (s *scriptSrc) NextPacket(capture.Packet) (capture.Packet, error) { return nil, errUnsupported }
func (s *scriptSrc) NextPayload([]byte) ([]byte, byte, uint32, error) {
	return nil, 0, 0, errUnsupported
}
func (s *scriptSrc) NextIPPacket(capture.IPLayer) (capture.IPLayer, capture.PacketType, uint32, error) {
	return nil, 0, 0, errUnsupported
}
func (s *scriptSrc) NextPacketFn(func([]byte, uint32, capture.PacketType, byte) error) error {
	return errUnsupported
}
func (s *scriptSrc) NextPayloadZeroCopy() ([]byte, capture.PacketType, uint32, error) {
	return nil, 0, 0, errUnsupported
}

// packet id p <-> flow 10.1.0.1:45000 -> 10.2.0.(1+p):7000+p/udp
func buildPacket(p int) capture.Packet {
	pkt, err := capture.BuildPacket(net.IPv4(10, 1, 0, 1), net.IPv4(10, 2, 0, byte(1+p)), 45000, uint16(7000+p), 17,
		[]byte{1, 2}, capture.PacketOutgoing, 128)
	if err != nil {
		panic(err)
	}
	return pkt
}

// ------------------------------------------------------------------ recording writeout handler

type block struct {
	Iface string `json:"iface"`
	Pkts  []int  `json:"pkts"`
}

type wrHandler struct {
	mu     sync.Mutex
	blocks []block
}

func decodeMap(m *hashmap.AggFlowMap) []int {
	var out []int
	if m == nil {
		return out
	}
	for it := m.Iter(); it.Next(); {
		k, v := types.Key(it.Key()), it.Val()
		id := -1
		for _, ip := range [][]byte{k.GetDIP(), k.GetSIP()} {
			if len(ip) >= 4 && ip[0] == 10 && ip[1] == 2 && ip[2] == 0 {
				id = int(ip[3]) - 1
			}
		}
		n := int(v.PacketsSent + v.PacketsRcvd)
		if id < 0 {
			id = 9999 // a flow nobody sent
		}
		for i := 0; i < n; i++ {
			out = append(out, id)
		}
	}
	sort.Ints(out)
	return out
}

func (h *wrHandler) HandleWriteout(_ context.Context, _ time.Time, ch <-chan capturetypes.TaggedAggFlowMap) <-chan struct{} {
	done := make(chan struct{})
	go func() {
		for m := range ch {
			pk := decodeMap(m.Map)
			h.mu.Lock()
			h.blocks = append(h.blocks, block{Iface: m.Iface, Pkts: pk})
			h.mu.Unlock()
		}
		close(done)
	}()
	return done
}

// take returns the packets written since the last call, merged per interface, sorted, empty ones dropped
func (h *wrHandler) take() []block {
	h.mu.Lock()
	bs := h.blocks
	h.blocks = nil
	h.mu.Unlock()
	return mergeBlocks(bs)
}

func mergeBlocks(bs []block) []block {
	m := map[string][]int{}
	for _, b := range bs {
		m[b.Iface] = append(m[b.Iface], b.Pkts...)
	}
	var out []block
	for i, p := range m {
		if len(p) > 0 {
			sort.Ints(p)
			out = append(out, block{i, p})
		}
	}
	sort.Slice(out, func(a, b int) bool { return out[a].Iface < out[b].Iface })
	return out
}

// ------------------------------------------------------------------ observations

type ent struct {
	K string `json:"k"`
	C ccIn   `json:"c"`
}
type obsT struct {
	T   string   `json:"t"`
	Err bool     `json:"err,omitempty"`
	Msg string   `json:"-"` // not compared: with several invalid entries the reported one depends on map order
	En  []string `json:"en,omitempty"`
	Up  []string `json:"up,omitempty"`
	Dis []string `json:"dis,omitempty"`
	Run []ent    `json:"run,omitempty"`
	Rep []ent    `json:"rep,omitempty"`
	Wr  []block  `json:"wr,omitempty"`
	D   bool     `json:"d,omitempty"`
}
type repObs struct {
	Obs   []obsT  `json:"obs"`
	Mem   []block `json:"mem"`
	Crash string  `json:"crash,omitempty"`
}

func toCC(c ccIn) config.CaptureConfig {
	cc := config.CaptureConfig{IgnoreVLANs: c.V, Promisc: c.P, Disable: c.D}
	if c.R != nil {
		cc.RingBuffer = &config.RingBufferConfig{BlockSize: c.R[0], NumBlocks: c.R[1]}
	}
	for _, b := range c.B {
		cc.ExtraBPFFilters = append(cc.ExtraBPFFilters, bpf.RawInstruction{Op: uint16(b[0]), Jt: uint8(b[1]), Jf: uint8(b[2]), K: b[3]})
	}
	return cc
}
func fromCC(c config.CaptureConfig) ccIn {
	o := ccIn{V: c.IgnoreVLANs, P: c.Promisc, D: c.Disable}
	if c.RingBuffer != nil {
		o.R = &[2]int{c.RingBuffer.BlockSize, c.RingBuffer.NumBlocks}
	}
	for _, b := range c.ExtraBPFFilters {
		o.B = append(o.B, [4]uint32{uint32(b.Op), uint32(b.Jt), uint32(b.Jf), b.K})
	}
	return o
}
func entsOf(m map[string]config.CaptureConfig) []ent {
	out := make([]ent, 0, len(m))
	for k, c := range m {
		out = append(out, ent{k, fromCC(c)})
	}
	sort.Slice(out, func(a, b int) bool { return out[a].K < out[b].K })
	return out
}
func names(ch capturetypes.IfaceChanges) []string {
	out := []string{}
	for _, c := range ch {
		out = append(out, c.Name)
	}
	sort.Strings(out)
	return out
}

// ------------------------------------------------------------------ one repetition

func runOnce(in *input) (res repObs) {
	var (
		mu    sync.Mutex
		srcs  = map[string]*scriptSrc{}
		cur   evIn
		ctx   = context.Background()
		h     = &wrHandler{}
		crash = func(msg string) { res.Crash = msg }
	)
	restore := gpcapture.VerifSetHostLinks(func() ([]string, error) {
		if cur.LinkErr {
			return nil, errors.New("host links unavailable")
		}
		return cur.Links, nil
	})
	defer restore()

	mgr := gpcapture.NewManager(h,
		gpcapture.WithSkipWriteoutSchedule(true),
		gpcapture.WithSourceInitFn(func(c *gpcapture.Capture) (gpcapture.Source, error) {
			mu.Lock()
			defer mu.Unlock()
			for _, d := range cur.Down {
				if d == c.Iface() {
					return nil, fmt.Errorf("interface %s is down", d)
				}
			}
			s := newScriptSrc()
			srcs[c.Iface()] = s
			return s, nil
		}))

	for _, ev := range in.Evs {
		switch ev.T {
		case "upd":
			mu.Lock()
			cur = ev
			mu.Unlock()
			cfg := &config.Config{AutoDetection: config.AutoDetectionConfig{Enabled: ev.Auto, Exclude: ev.Excl}}
			cfg.Interfaces = config.Ifaces{}
			for _, e := range ev.Ifs {
				cfg.Interfaces[e.K] = toCC(e.C)
			}
			var (
				en, up, dis capturetypes.IfaceChanges
				err         error
			)
			panicked, msg := vhlib.Recover(func() { en, up, dis, err = mgr.Update(ctx, cfg) })
			if panicked {
				crash("panic in Update: " + msg)
				return
			}
			o := obsT{T: "upd", Run: entsOf(mgr.VerifRunningConfigs()), Rep: entsOf(mgr.Config()), Wr: h.take()}
			if err != nil {
				o.Err, o.Msg = true, err.Error()
			} else {
				o.En, o.Up, o.Dis = names(en), names(up), names(dis)
			}
			res.Obs = append(res.Obs, o)
		case "pkt":
			_, running := mgr.VerifRunningConfigs()[ev.I]
			mu.Lock()
			s := srcs[ev.I]
			mu.Unlock()
			if running && s != nil {
				s.Inject(buildPacket(ev.P))
			}
			res.Obs = append(res.Obs, obsT{T: "pkt", D: running && s != nil})
		case "rot":
			mgr.VerifWriteout(ctx, time.Unix(1700000000, 0))
			res.Obs = append(res.Obs, obsT{T: "rot", Wr: h.take()})
		}
	}

	// what is still in memory
	ch := make(chan hashmap.AggFlowMapWithMetadata, 64)
	mgr.GetFlowMaps(ctx, nil, ch)
	close(ch)
	var mem []block
	for m := range ch {
		mem = append(mem, block{m.Interface, decodeMap(m.AggFlowMap)})
	}
	res.Mem = mergeBlocks(mem)
	mgr.Close(ctx)
	return
}

func runGuarded(in *input) repObs {
	done := make(chan repObs, 1)
	go func() {
		defer func() {
			if r := recover(); r != nil {
				done <- repObs{Crash: fmt.Sprint("panic: ", r)}
			}
		}()
		done <- runOnce(in)
	}()
	select {
	case r := <-done:
		return r
	case <-time.After(60 * time.Second): // watchdog only: a hang is reported as a failed observation
		return repObs{Crash: "hang"}
	}
}

// ------------------------------------------------------------------ Coq printing

func coqCC(c ccIn) string {
	ring := "None"
	if c.R != nil {
		ring = fmt.Sprintf("(Some (%d,%d))", c.R[0], c.R[1])
	}
	bs := make([]string, len(c.B))
	for i, b := range c.B {
		bs[i] = fmt.Sprintf("(%d,%d,%d,%d)", b[0], b[1], b[2], b[3])
	}
	fl := 0
	if c.V {
		fl |= 1
	}
	if c.P {
		fl |= 2
	}
	if c.D {
		fl |= 4
	}
	return fmt.Sprintf("(cc %d %s %s)", fl, ring, vhlib.CoqList(bs))
}
func coqStrs(ss []string) string {
	xs := make([]string, len(ss))
	for i, s := range ss {
		xs[i] = vhlib.CoqStr(s)
	}
	return vhlib.CoqList(xs)
}
func coqEnts(es []ent) string {
	xs := make([]string, len(es))
	for i, e := range es {
		xs[i] = "(" + vhlib.CoqStr(e.K) + "," + coqCC(e.C) + ")"
	}
	return vhlib.CoqList(xs)
}
func coqBlocks(bs []block) string {
	xs := make([]string, len(bs))
	for i, b := range bs {
		ps := make([]string, len(b.Pkts))
		for j, p := range b.Pkts {
			ps[j] = fmt.Sprint(p)
		}
		xs[i] = "(" + vhlib.CoqStr(b.Iface) + "," + vhlib.CoqList(ps) + ")"
	}
	return vhlib.CoqList(xs)
}
func coqEvent(ev evIn) string {
	switch ev.T {
	case "upd":
		es := make([]ent, len(ev.Ifs))
		for i, e := range ev.Ifs {
			es[i] = ent(e)
		}
		return fmt.Sprintf("EUpdate (mkCfg %s %s %s) (mkEnv %s %s %s)", vhlib.CoqBool(ev.Auto), coqStrs(ev.Excl), coqEnts(es),
			coqStrs(ev.Links), coqStrs(ev.Down), vhlib.CoqBool(ev.LinkErr))
	case "pkt":
		return fmt.Sprintf("EPkt %s %d", vhlib.CoqStr(ev.I), ev.P)
	}
	return "ERotate"
}
func coqObs(o obsT) string {
	switch o.T {
	case "upd":
		return fmt.Sprintf("OUpd (mkU %s %s %s %s %s %s %s)", vhlib.CoqBool(o.Err), coqStrs(o.En), coqStrs(o.Up), coqStrs(o.Dis),
			coqEnts(o.Run), coqEnts(o.Rep), coqBlocks(o.Wr))
	case "pkt":
		return "OPkt " + vhlib.CoqBool(o.D)
	}
	return "ORot " + coqBlocks(o.Wr)
}

func isRe(k string) bool {
	return len(k) >= 2 && strings.HasPrefix(k, "/") && strings.HasSuffix(k, "/")
}

// ------------------------------------------------------------------ run

func run(raw json.RawMessage, o vhlib.Opts) (*vhlib.Case, error) {
	var in input
	if err := json.Unmarshal(raw, &in); err != nil {
		return nil, err
	}
	if in.Reps < 1 {
		in.Reps = 1
	}
	reps := make([]repObs, in.Reps)
	enc := make([]string, in.Reps)
	stable, crashed := true, false
	for r := range reps {
		reps[r] = runGuarded(&in)
		b, _ := json.Marshal(reps[r])
		enc[r] = string(b)
		if enc[r] != enc[0] {
			stable = false
		}
		if reps[r].Crash != "" {
			crashed = true
		}
	}
	first := reps[0]

	// universe and regexp table (Go's regexp decides compilation and matching)
	uni := map[string]bool{}
	pats := map[string]bool{}
	for _, ev := range in.Evs {
		if ev.T == "pkt" {
			uni[ev.I] = true
		}
		for _, l := range ev.Links {
			uni[l] = true
		}
		for _, l := range ev.Down {
			uni[l] = true
		}
		for _, e := range ev.Ifs {
			if isRe(e.K) {
				pats[e.K[1:len(e.K)-1]] = true
			} else {
				uni[e.K] = true
			}
		}
		for _, k := range ev.Excl {
			if isRe(k) {
				pats[k[1:len(k)-1]] = true
			} else {
				uni[k] = true
			}
		}
	}
	for _, r := range reps {
		for _, ob := range r.Obs {
			for _, e := range ob.Run {
				uni[e.K] = true
			}
		}
	}
	univ := make([]string, 0, len(uni))
	for u := range uni {
		univ = append(univ, u)
	}
	sort.Strings(univ)
	patl := make([]string, 0, len(pats))
	for p := range pats {
		patl = append(patl, p)
	}
	sort.Strings(patl)
	tab := make([]string, len(patl))
	for i, p := range patl {
		re, err := regexp.Compile(p)
		if err != nil {
			tab[i] = "(" + vhlib.CoqStr(p) + ",None)"
			continue
		}
		var ms []string
		for _, u := range univ {
			if re.MatchString(u) {
				ms = append(ms, u)
			}
		}
		tab[i] = "(" + vhlib.CoqStr(p) + ",Some " + coqStrs(ms) + ")"
	}

	evs := make([]string, len(in.Evs))
	nupd, npk, nre, overlap := 0, 0, 0, false
	for i, ev := range in.Evs {
		evs[i] = coqEvent(ev)
		if ev.T == "upd" {
			nupd++
			cnt := map[string]int{}
			for _, e := range ev.Ifs {
				if isRe(e.K) {
					nre++
					if re, err := regexp.Compile(e.K[1 : len(e.K)-1]); err == nil {
						for _, l := range ev.Links {
							if re.MatchString(l) {
								cnt[l]++
							}
						}
					}
				}
			}
			for _, c := range cnt {
				if c > 1 {
					overlap = true
				}
			}
		}
		if ev.T == "pkt" {
			npk++
		}
	}
	obs := make([]string, len(first.Obs))
	nwr, nerr, nupdated, ndisabled := 0, 0, 0, 0
	for i, ob := range first.Obs {
		obs[i] = coqObs(ob)
		if ob.T == "upd" {
			for _, b := range ob.Wr {
				nwr += len(b.Pkts)
			}
			if ob.Err {
				nerr++
			}
			nupdated += len(ob.Up)
			ndisabled += len(ob.Dis)
		}
	}
	ok := stable && !crashed
	coq := fmt.Sprintf("mkCase %s %s %s %s %s %s", vhlib.CoqList(tab), coqStrs(univ), vhlib.CoqList(evs), vhlib.CoqList(obs),
		coqBlocks(first.Mem), vhlib.CoqBool(ok))

	tags := []string{fmt.Sprintf("updates=%d", nupd)}
	if overlap {
		tags = append(tags, "overlapping-regexps")
	}
	if nre > 0 {
		tags = append(tags, "regexps")
	}
	if nerr > 0 {
		tags = append(tags, "rejected-config")
	}
	if nupdated > 0 {
		tags = append(tags, "reconfigured")
	}
	if ndisabled > 0 {
		tags = append(tags, "removed")
	}
	if nwr > 0 {
		tags = append(tags, "final-writeout-with-data")
	}
	if !stable {
		tags = append(tags, "unstable")
	}
	if crashed {
		tags = append(tags, "crash")
	}
	for _, ev := range in.Evs {
		if ev.T == "upd" && ev.Auto {
			tags = append(tags, "autodetect")
			break
		}
	}
	observed := map[string]any{"rep0": first, "stable": stable}
	if !stable {
		for r := range reps {
			if enc[r] != enc[0] {
				observed["differing_rep"] = reps[r]
				break
			}
		}
	}
	return &vhlib.Case{
		Observed:   observed,
		Tags:       tags,
		Nontrivial: nupd >= 2 && (nupdated > 0 || ndisabled > 0) && npk > 0,
		Coq:        coq,
	}, nil
}

func main() {
	if _, err := logging.Init(logging.LevelPanic, logging.EncodingLogfmt, logging.WithOutput(io.Discard), logging.WithErrorOutput(io.Discard)); err != nil {
		panic(err)
	}
	vhlib.Main(gen, run)
}

// ------------------------------------------------------------------ generation

var (
	ring    = &[2]int{2048, 4}
	ccA     = ccIn{R: ring}
	ccVlan  = ccIn{V: true, R: ring}
	ccProm  = ccIn{P: true, R: ring}
	ccBpf1  = ccIn{R: ring, B: [][4]uint32{{6, 0, 0, 1}}}
	ccBpf2  = ccIn{R: ring, B: [][4]uint32{{6, 0, 0, 2}}}
	ccBpf12 = ccIn{R: ring, B: [][4]uint32{{6, 0, 0, 1}, {6, 0, 0, 2}}}
	ccRing2 = ccIn{R: &[2]int{4096, 2}}
	ccDef   = ccIn{R: &[2]int{1048576, 4}}
	ccOff   = ccIn{D: true}
	ccBad1  = ccIn{D: true, P: true}
	ccBad2  = ccIn{}
	ccBad3  = ccIn{R: &[2]int{0, 4}}
	ccBad4  = ccIn{D: true, R: ring}

	goodCCs = []ccIn{ccA, ccVlan, ccProm, ccBpf1, ccBpf2, ccBpf12, ccRing2, ccDef, ccA, ccVlan}
	badCCs  = []ccIn{ccBad1, ccBad2, ccBad3, ccBad4}
	hosts   = []string{"eth0", "eth1", "lo", "wlan0"}
	nameKs  = []string{"eth0", "eth1", "lo", "wlan0", "eth0", "eth1", "eth9", "/"}
	reKs    = []string{"/^eth[0-9]$/", "/eth/", "/^e/", "/0$/", "/^wl/", "/lo|wlan0/", "/1/", "//", "/^(eth1|lo)$/", "/n/"}
	badReKs = []string{"/[/", "/(/"}
)

// the larger universe of the bulk scripts: one update reconfigures k, removes r and adds a interfaces at once
var hostsBig = []string{"br0", "eth0", "eth1", "eth2", "eth3", "lo", "tun0", "wlan0", "wlan1", "wlan2"}

// bulkScript: start `run` interfaces with ccA (in the order given by perm), some traffic, then ONE update that
// changes the parameters of k of them, drops r of them and adds a new ones; optionally a third update
func bulkScript(perm []string, run, k, r, a int, newCC ccIn, tail bool) []evIn {
	if run > len(perm) {
		run = len(perm)
	}
	if k+r > run {
		r = run - k
		if r < 0 {
			k, r = run, 0
		}
	}
	if run+a > len(perm) {
		a = len(perm) - run
	}
	var first, second []entIn
	for i := 0; i < run; i++ {
		first = append(first, e(perm[i], ccA))
	}
	for i := 0; i < k; i++ {
		second = append(second, e(perm[i], newCC))
	}
	for i := k + r; i < run; i++ {
		second = append(second, e(perm[i], ccA))
	}
	for i := run; i < run+a; i++ {
		second = append(second, e(perm[i], ccA))
	}
	evs := []evIn{upd(hostsBig, first...)}
	for i := 0; i < run; i++ {
		evs = append(evs, pkt(perm[i], i%4))
	}
	if len(second) == 0 {
		second = []entIn{e(perm[len(perm)-1], ccA)}
	}
	evs = append(evs, upd(hostsBig, second...))
	for i := 0; i < run+a && i < len(perm); i += 2 {
		evs = append(evs, pkt(perm[i], 1+i%3))
	}
	if tail {
		evs = append(evs, upd(hostsBig, first...))
	}
	return evs
}

func upd(links []string, ifs ...entIn) evIn { return evIn{T: "upd", Links: links, Ifs: ifs} }
func e(k string, c ccIn) entIn              { return entIn{K: k, C: c} }
func pkt(i string, p int) evIn              { return evIn{T: "pkt", I: i, P: p} }

var rot = evIn{T: "rot"}

func fixedCases() [][]evIn {
	all := hosts
	return [][]evIn{
		// a changed ignore_vlans / BPF filter / promisc / ring buffer must restart the capture
		{upd(all, e("eth0", ccA)), pkt("eth0", 1), upd(all, e("eth0", ccVlan)), pkt("eth0", 2), upd(all, e("eth0", ccVlan))},
		{upd(all, e("eth0", ccA)), pkt("eth0", 1), pkt("eth0", 1), upd(all, e("eth0", ccBpf1)), upd(all, e("eth0", ccBpf2)), upd(all, e("eth0", ccBpf12))},
		{upd(all, e("eth0", ccA), e("lo", ccA)), pkt("eth0", 1), pkt("lo", 2), upd(all, e("eth0", ccProm), e("lo", ccA)), pkt("lo", 3), upd(all, e("eth0", ccRing2), e("lo", ccA))},
		// overlapping regular expressions with different parameters
		{upd(all, e("/^eth/", ccA), e("/0$/", ccVlan), e("/n/", ccProm)), pkt("eth0", 0), pkt("wlan0", 1), upd(all, e("/0$/", ccVlan), e("/^eth/", ccA), e("/n/", ccProm))},
		{upd(all, e("//", ccBpf1), e("/eth/", ccBpf2), e("/^e/", ccA), e("/1/", ccRing2))},
		{upd(all, e("/^eth[0-9]$/", ccA), e("/eth/", ccProm), e("eth1", ccVlan)), pkt("eth1", 4), upd(all, e("/^eth[0-9]$/", ccA), e("/eth/", ccProm))},
		// disable: true
		{upd(all, e("/^eth/", ccA), e("eth1", ccOff))},
		{upd(all, e("eth0", ccOff)), pkt("eth0", 1), upd(all, e("eth0", ccA)), pkt("eth0", 2), upd(all, e("eth0", ccOff)), pkt("eth0", 3), upd(all, e("eth0", ccOff))},
		{upd(all, e("eth0", ccA), e("lo", ccA)), pkt("lo", 1), upd(all, e("eth0", ccA), e("/lo|wlan0/", ccOff)), upd(all, e("eth0", ccA), e("/lo|wlan0/", ccA))},
		// odd keys, rejected configurations
		{upd(all, e("/", ccA), e("eth0", ccA))},
		{upd(all, e("eth0", ccA)), pkt("eth0", 1), upd(all, e("/[/", ccA)), upd(all), upd(all, e("eth0", ccBad1)), upd(all, e("eth0", ccBad2)), pkt("eth0", 2), upd(all, e("eth1", ccA))},
		{upd(all, e("eth0", ccA)), {T: "upd", Links: all, LinkErr: true, Ifs: []entIn{e("/eth/", ccA)}}, {T: "upd", Links: all, LinkErr: true, Ifs: []entIn{e("eth1", ccA)}}},
		// removal with traffic, scheduled writeouts in between
		{upd(all, e("eth0", ccA), e("eth1", ccA)), pkt("eth0", 1), pkt("eth1", 2), rot, pkt("eth0", 3), pkt("eth1", 2), upd(all, e("eth1", ccA)), pkt("eth0", 5), pkt("eth1", 0), rot, upd(all, e("eth0", ccA))},
		// autodetection with exclusions, then an explicit configuration
		{{T: "upd", Auto: true, Links: all, Excl: []string{"lo", "/^wl/"}}, pkt("eth0", 1), pkt("lo", 1), {T: "upd", Auto: true, Links: []string{"eth0", "lo"}, Excl: []string{"/0$/"}}, upd(all, e("lo", ccDef), e("eth1", ccDef))},
		{{T: "upd", Auto: true, Links: all, Excl: []string{"/[/"}}, {T: "upd", Auto: true, Links: all, Excl: []string{"/"}, Ifs: []entIn{e("eth0", ccBad2)}}},
		// a source that cannot be initialised, later it can
		{{T: "upd", Links: all, Down: []string{"eth0"}, Ifs: []entIn{e("eth0", ccA), e("eth1", ccA)}}, pkt("eth0", 1), pkt("eth1", 1), upd(all, e("eth0", ccA), e("eth1", ccA)), pkt("eth0", 2), {T: "upd", Links: all, Down: []string{"eth0", "eth1"}, Ifs: []entIn{e("eth0", ccVlan), e("eth1", ccA)}}},
		// explicit names that are not host links: kept without regexps, dropped with
		{upd([]string{"eth0"}, e("eth0", ccA), e("eth9", ccA)), pkt("eth9", 1), upd([]string{"eth0"}, e("eth0", ccA), e("eth9", ccA), e("/x/", ccA)), upd(nil, e("/e/", ccA))},
		// the link list changes under an unchanged configuration
		{upd([]string{"eth0"}, e("/eth/", ccA)), pkt("eth0", 1), upd([]string{"eth0", "eth1"}, e("/eth/", ccA)), pkt("eth1", 2), upd([]string{"eth1", "eth1"}, e("/eth/", ccA))},
		// one update that reconfigures k, removes r and adds a interfaces (k = 3 and 5..7: the change lists are
		// appended to slices with spare capacity)
		bulkScript(hostsBig, 4, 3, 1, 1, ccVlan, false),
		bulkScript(hostsBig, 5, 3, 2, 2, ccBpf1, true),
		bulkScript(hostsBig, 6, 5, 1, 1, ccProm, false),
		bulkScript(hostsBig, 8, 6, 2, 2, ccRing2, false),
		bulkScript(hostsBig, 8, 7, 1, 1, ccVlan, true),
		bulkScript(hostsBig, 3, 1, 1, 1, ccVlan, false),
		bulkScript(hostsBig, 4, 2, 2, 2, ccBpf2, false),
		bulkScript(hostsBig, 7, 0, 2, 2, ccVlan, true),
		bulkScript(hostsBig, 9, 4, 1, 1, ccProm, false),
	}
}

func genCC(r *vhlib.Rand, bad bool) ccIn {
	if bad && r.Chance(4) {
		return vhlib.Pick(r, badCCs)
	}
	if r.Chance(10) {
		return ccOff
	}
	return vhlib.Pick(r, goodCCs)
}

func genUpdate(r *vhlib.Rand, prev *evIn, search bool) evIn {
	ev := evIn{T: "upd"}
	// links: mostly all four
	switch {
	case r.Chance(70):
		ev.Links = hosts
	default:
		for _, h := range hosts {
			if r.Chance(65) {
				ev.Links = append(ev.Links, h)
			}
		}
	}
	if r.Chance(6) {
		ev.Down = []string{vhlib.Pick(r, hosts)}
	}
	ev.LinkErr = r.Chance(3)
	if r.Chance(10) {
		ev.Auto = true
		for n := r.Intn(3); n > 0; n-- {
			if r.Bool() {
				ev.Excl = append(ev.Excl, vhlib.Pick(r, nameKs))
			} else {
				ev.Excl = append(ev.Excl, vhlib.Pick(r, reKs))
			}
		}
		if r.Chance(5) {
			ev.Excl = append(ev.Excl, vhlib.Pick(r, badReKs))
		}
		return ev
	}
	// derive from the previous configuration: change one parameter / drop / add an entry
	if prev != nil && !prev.Auto && len(prev.Ifs) > 0 && r.Chance(55) {
		ev.Ifs = append([]entIn(nil), prev.Ifs...)
		switch r.Intn(4) {
		case 0:
			ev.Ifs[r.Intn(len(ev.Ifs))].C = genCC(r, true)
		case 1:
			k := r.Intn(len(ev.Ifs))
			ev.Ifs = append(ev.Ifs[:k:k], ev.Ifs[k+1:]...)
		case 2:
			// nothing changes
		default:
			ev.Ifs = append(ev.Ifs, e(vhlib.Pick(r, append(append([]string{}, nameKs...), reKs...)), genCC(r, true)))
		}
	} else {
		max := 4
		if search {
			max = 6
		}
		for n := 1 + r.Intn(max); n > 0; n-- {
			var k string
			switch {
			case r.Chance(45):
				k = vhlib.Pick(r, nameKs)
			case r.Chance(96):
				k = vhlib.Pick(r, reKs)
			default:
				k = vhlib.Pick(r, badReKs)
			}
			ev.Ifs = append(ev.Ifs, e(k, genCC(r, true)))
		}
		if r.Chance(2) {
			ev.Ifs = nil
		}
	}
	// a Go map: distinct keys (keep the last entry for a key)
	seen := map[string]int{}
	var out []entIn
	for _, x := range ev.Ifs {
		if j, ok := seen[x.K]; ok {
			out[j] = x
			continue
		}
		seen[x.K] = len(out)
		out = append(out, x)
	}
	ev.Ifs = out
	return ev
}

func gen(r *vhlib.Rand, i int, o vhlib.Opts) any {
	reps := 3
	if o.Tier == "thorough" || o.Search {
		reps = 4
	}
	fixed := fixedCases()
	if i < len(fixed) {
		return input{Evs: fixed[i], Reps: reps}
	}
	if r.Chance(25) {
		perm := append([]string(nil), hostsBig...)
		for j := len(perm) - 1; j > 0; j-- {
			k := r.Intn(j + 1)
			perm[j], perm[k] = perm[k], perm[j]
		}
		run := 2 + r.Intn(8)
		k := r.Intn(8)
		if k > run {
			k = run
		}
		return input{Evs: bulkScript(perm, run, k, r.Intn(3), r.Intn(3), vhlib.Pick(r, []ccIn{ccVlan, ccProm, ccBpf1, ccRing2}), r.Chance(40)), Reps: reps}
	}
	var evs []evIn
	nupd := 1 + r.Intn(5)
	var prev *evIn
	for u := 0; u < nupd; u++ {
		ev := genUpdate(r, prev, o.Search)
		evs = append(evs, ev)
		prev = &evs[len(evs)-1]
		for n := r.Intn(4); n > 0; n-- {
			if r.Chance(12) {
				evs = append(evs, rot)
				continue
			}
			evs = append(evs, pkt(vhlib.Pick(r, hosts), r.Intn(4)))
		}
	}
	return input{Evs: evs, Reps: reps}
}
