// C08 correspondence harness: generated databases (1-3 interfaces, 1-4 day directories around
// month / year / leap-day boundaries, 0-6 blocks per day, 0-12 flows per block mixing IPv4 and
// IPv6, addresses from a small per-case pool) are written with the real goDB.DBWriter and queried
// with the real engine.NewQueryRunner(db).Run(query.NewArgs(...)). The rows (as a multiset), the
// totals and the hit count are handed to the Coq model (corr) and to the group-by specification
// (holds) together with the database content and the statement.
package main

import (
	"context"
	"encoding/binary"
	"encoding/json"
	"fmt"
	"net/netip"
	"os"
	"path/filepath"
	"sort"
	"strconv"
	"strings"
	"time"

	"verifharness/vhlib"

	"github.com/els0r/goProbe/v4/pkg/capture/capturetypes"
	"github.com/els0r/goProbe/v4/pkg/goDB"
	"github.com/els0r/goProbe/v4/pkg/goDB/encoder/encoders"
	"github.com/els0r/goProbe/v4/pkg/goDB/engine"
	"github.com/els0r/goProbe/v4/pkg/goDB/protocols"
	"github.com/els0r/goProbe/v4/pkg/query"
	"github.com/els0r/goProbe/v4/pkg/types"
	"github.com/els0r/goProbe/v4/pkg/types/hashmap"
)

// ---------------------------------------------------------------- input

type tree struct {
	Op   string `json:"op"` // leaf not and or
	Attr string `json:"attr,omitempty"`
	Cmp  string `json:"cmp,omitempty"`
	Val  string `json:"val,omitempty"`
	L    *tree  `json:"l,omitempty"`
	R    *tree  `json:"r,omitempty"`
}

type flowIn struct {
	S  int       `json:"s"` // pool index
	D  int       `json:"d"`
	Dp int       `json:"dp"`
	Pr int       `json:"pr"`
	C  [4]uint64 `json:"c"` // bytes rcvd, bytes sent, packets rcvd, packets sent
}

type blockIn struct {
	Ts int64    `json:"ts"`
	V4 []flowIn `json:"v4,omitempty"`
	V6 []flowIn `json:"v6,omitempty"`
}

type dayIn struct {
	Ts     int64     `json:"ts"`
	Blocks []blockIn `json:"blocks"`
}

type ifaceIn struct {
	Name string  `json:"name"`
	Days []dayIn `json:"days"`
}

type input struct {
	Pool   []string  `json:"pool"` // address texts; IPv4 first
	Ifaces []ifaceIn `json:"ifaces"`
	Attrs  []string  `json:"attrs"` // subset of time iface sip dip dport proto (query type)
	Cond   *tree     `json:"cond,omitempty"`
	Dir    string    `json:"dir,omitempty"` // "", in, out, uni, bi
	First  int64     `json:"first"`
	Last   int64     `json:"last"`
	Query  []string  `json:"query"` // interface names queried
	P      int       `json:"p"`     // processing units
	Off    int       `json:"off"`   // local zone of the engine: seconds east of UTC
	Kind   string    `json:"kind"`
}

func leaf(a, c, v string) *tree { return &tree{Op: "leaf", Attr: a, Cmp: c, Val: v} }
func not(x *tree) *tree         { return &tree{Op: "not", L: x} }
func and(l, r *tree) *tree      { return &tree{Op: "and", L: l, R: r} }
func or(l, r *tree) *tree       { return &tree{Op: "or", L: l, R: r} }

func (t *tree) text() string {
	switch t.Op {
	case "leaf":
		return t.Attr + " " + t.Cmp + " " + t.Val
	case "not":
		return "!(" + t.L.text() + ")"
	case "and":
		return "(" + t.L.text() + " & " + t.R.text() + ")"
	default:
		return "(" + t.L.text() + " | " + t.R.text() + ")"
	}
}

func (t *tree) nleaves() int {
	if t.Op == "leaf" {
		return 1
	}
	n := t.L.nleaves()
	if t.R != nil {
		n += t.R.nleaves()
	}
	return n
}

func (t *tree) has(p func(*tree) bool) bool {
	if t.Op == "leaf" {
		return p(t)
	}
	return t.L.has(p) || (t.R != nil && t.R.has(p))
}

var attrCoq = map[string]string{"sip": "ASip", "dip": "ADip", "snet": "ASnet", "dnet": "ADnet", "dport": "ADport",
	"proto": "AProto", "src": "ASrc", "dst": "ADst", "host": "AHost", "net": "ANet", "port": "APort",
	"protocol": "AProtocol", "ipproto": "AIpproto"}
var cmpCoq = map[string]string{"=": "Eq", "!=": "Ne", "<": "Lt", ">": "Gt", "<=": "Le", ">=": "Ge"}

func attrKind(a string) string {
	switch a {
	case "sip", "dip", "src", "dst", "host":
		return "addr"
	case "snet", "dnet", "net":
		return "net"
	case "dport", "port":
		return "port"
	}
	return "proto"
}

func coqBytes(b []byte) string {
	xs := make([]string, len(b))
	for i, c := range b {
		xs[i] = strconv.Itoa(int(c))
	}
	return "[" + strings.Join(xs, ";") + "]"
}

func coqZ(v int64) string {
	if v < 0 {
		return "(" + strconv.FormatInt(v, 10) + ")"
	}
	return strconv.FormatInt(v, 10)
}

// coqValue gives the parsed value the model takes as input: the results of the library
// functions the implementation itself calls on the text (recorded, not modelled; as in C09).
func coqValue(a, v string) (string, error) {
	switch attrKind(a) {
	case "addr":
		b, isv4, err := types.IPStringToBytes(v)
		if err != nil {
			return "", fmt.Errorf("value %q of %s would be resolved via DNS", v, a)
		}
		return fmt.Sprintf("(VIP %s %s)", coqBytes(b), vhlib.CoqBool(isv4)), nil
	case "net":
		cidr := strings.Split(v, "/")
		if len(cidr) < 2 {
			return "VBad", nil
		}
		m, err := strconv.ParseInt(cidr[1], 10, 32)
		if err != nil {
			return "VBad", nil
		}
		b, _, err := types.IPStringToBytes(cidr[0])
		if err != nil {
			return "VBad", nil
		}
		return fmt.Sprintf("(VNet %s %s %s)", coqBytes(b), vhlib.CoqBool(strings.Contains(cidr[0], ":")), coqZ(m)), nil
	case "port":
		n, err := strconv.ParseUint(v, 10, 64)
		if err != nil {
			return "VBad", nil
		}
		return "(VPort " + strconv.FormatUint(n, 10) + ")", nil
	default:
		n, err := strconv.ParseUint(v, 10, 64)
		if err != nil {
			id, ok := protocols.GetIPProtoID(v)
			if !ok {
				return "VBad", nil
			}
			n = id
		}
		return "(VProto " + strconv.FormatUint(n, 10) + ")", nil
	}
}

func (t *tree) coq() (string, error) {
	switch t.Op {
	case "leaf":
		v, err := coqValue(t.Attr, t.Val)
		if err != nil {
			return "", err
		}
		a, ok1 := attrCoq[t.Attr]
		c, ok2 := cmpCoq[t.Cmp]
		if !ok1 || !ok2 {
			return "", fmt.Errorf("bad leaf %v", *t)
		}
		return fmt.Sprintf("(Leaf %s %s %s)", a, c, v), nil
	case "not":
		x, err := t.L.coq()
		return "(Not " + x + ")", err
	}
	l, err := t.L.coq()
	if err != nil {
		return "", err
	}
	r, err := t.R.coq()
	if err != nil {
		return "", err
	}
	if t.Op == "and" {
		return "(And " + l + " " + r + ")", nil
	}
	return "(Or " + l + " " + r + ")", nil
}

// ---------------------------------------------------------------- generators

// addresses: IPv6 ones with 12 trailing zero bytes (`::`, `fe80::`, `2001:db8::`) and IPv4 ones made of
// the same leading bytes stand next to each other
var v4all = []string{"10.0.0.1", "10.0.0.2", "10.0.1.77", "192.168.1.129", "0.0.0.0", "32.1.13.184", "254.128.0.0", "172.16.255.254"}
var v6all = []string{"2001:db8::1", "2001:db8::2", "2001:db8:0:1::77", "fe80::1", "::", "2001:db8::", "fe80::", "a00:1::", "::1"}
var dports = []int{0, 53, 80, 443, 8080, 65535}
var protos = []int{1, 6, 17, 58, 255}
var bigs = []uint64{0, 1, 2, 7, 1500, 65536, 1 << 32, 1<<63 - 1, 1 << 63, ^uint64(0), ^uint64(0) - 5}
var ifnames = []string{"eth0", "eth1", "wan2"}
var dirs = []string{"in", "out", "uni", "bi"}

// day directory timestamps (UTC midnights) around month / year / leap-day boundaries
var dayBases = []int64{
	1703894400, // 2023-12-30: year boundary two days later
	1709078400, // 2024-02-28: leap day, month boundary
	1677456000, // 2023-02-27: non-leap month boundary
	1719619200, // 2024-06-29: month boundary
	1609286400, // 2020-12-30
	1700006400, // 2023-11-15: mid-month
	1735516800, // 2024-12-30
}

var attrSets = [][]string{
	{"sip", "dip", "dport", "proto"}, {"sip"}, {"dip"}, {"dport"}, {"proto"}, {"sip", "dip"}, {"dport", "proto"},
	{"sip", "dport"}, {"dip", "proto"}, {"sip", "proto"}, {"dip", "dport"}, {"sip", "dip", "dport"}, {"sip", "dip", "proto"},
	{"sip", "dport", "proto"}, {"dip", "dport", "proto"}, {},
}

type pool struct {
	all []string
	n4  int
}

func genPool(r *vhlib.Rand) pool {
	pick := func(src []string, n int) []string {
		idx := make([]int, len(src))
		for i := range idx {
			idx[i] = i
		}
		for i := len(idx) - 1; i > 0; i-- {
			j := r.Intn(i + 1)
			idx[i], idx[j] = idx[j], idx[i]
		}
		idx = idx[:n]
		sort.Ints(idx)
		out := make([]string, n)
		for i, k := range idx {
			out[i] = src[k]
		}
		return out
	}
	a := pick(v4all, 2+r.Intn(3))
	b := pick(v6all, 2+r.Intn(3))
	return pool{all: append(a, b...), n4: len(a)}
}

func genCounters(r *vhlib.Rand) [4]uint64 {
	var c [4]uint64
	for i := range c {
		switch {
		case r.Chance(8):
			c[i] = vhlib.Pick(r, bigs)
		case r.Chance(25):
			c[i] = 0
		default:
			c[i] = uint64(r.Intn(3000))
		}
	}
	return c
}

func genBlock(r *vhlib.Rand, p pool, ts int64, maxFlows int) blockIn {
	b := blockIn{Ts: ts}
	n := r.Intn(maxFlows + 1)
	seen := map[[5]int]bool{}
	for j := 0; j < n; j++ {
		var f flowIn
		v4 := r.Chance(55)
		if v4 {
			f.S, f.D = r.Intn(p.n4), r.Intn(p.n4)
		} else {
			f.S, f.D = p.n4+r.Intn(len(p.all)-p.n4), p.n4+r.Intn(len(p.all)-p.n4)
		}
		f.Dp, f.Pr = vhlib.Pick(r, dports[:4]), vhlib.Pick(r, protos[:3])
		if r.Chance(15) {
			f.Dp, f.Pr = vhlib.Pick(r, dports), vhlib.Pick(r, protos)
		}
		k := [5]int{f.S, f.D, f.Dp, f.Pr, 0}
		if seen[k] {
			continue
		}
		seen[k] = true
		f.C = genCounters(r)
		if v4 {
			b.V4 = append(b.V4, f)
		} else {
			b.V6 = append(b.V6, f)
		}
	}
	return b
}

func genIface(r *vhlib.Rand, p pool, name string, base int64, maxDays, maxBlocks, maxFlows int) ifaceIn {
	ifc := ifaceIn{Name: name}
	nd := 1 + r.Intn(maxDays)
	d := base
	for k := 0; k < nd; k++ {
		nb := r.Intn(maxBlocks + 1)
		day := dayIn{Ts: d}
		// block offsets within the day, increasing
		offs := map[int64]bool{}
		for j := 0; j < nb; j++ {
			var off int64
			switch r.Intn(6) {
			case 0:
				off = 0 // a block exactly at midnight
			case 1:
				off = 86400 - 300 // the last regular block of the day
			case 2:
				off = int64(r.Intn(86400)) // not aligned to the write interval
			default:
				off = 300 * int64(r.Intn(288))
			}
			offs[off] = true
		}
		var os []int64
		for o := range offs {
			os = append(os, o)
		}
		sort.Slice(os, func(i, j int) bool { return os[i] < os[j] })
		for _, o := range os {
			day.Blocks = append(day.Blocks, genBlock(r, p, d+o, maxFlows))
		}
		if len(day.Blocks) > 0 {
			ifc.Days = append(ifc.Days, day)
		}
		d += 86400
		if r.Chance(20) {
			d += 86400 // a gap of one day
		}
	}
	return ifc
}

func allBlockTs(in *input) []int64 {
	var ts []int64
	for _, ifc := range in.Ifaces {
		for _, d := range ifc.Days {
			for _, b := range d.Blocks {
				ts = append(ts, b.Ts)
			}
		}
	}
	sort.Slice(ts, func(i, j int) bool { return ts[i] < ts[j] })
	return ts
}

func genRange(r *vhlib.Rand, in *input, base int64) (int64, int64, string) {
	ts := allBlockTs(in)
	lo, hi := base-86400, base+7*86400
	if len(ts) == 0 || r.Chance(35) {
		return lo, hi, "all"
	}
	pickTs := func() int64 {
		t := vhlib.Pick(r, ts)
		switch r.Intn(6) {
		case 0:
			return t - 1
		case 1:
			return t + 1
		case 2: // a day boundary near the block
			return (t/86400)*86400 + vhlib.Pick(r, []int64{0, -1, 1, -300, -301, 86400, 86399, 86400 - 300, 86400 - 301})
		case 3: // between blocks
			return t + int64(r.Intn(600)) - 300
		}
		return t
	}
	switch r.Intn(16) {
	case 0: // outside the data, before
		return ts[0] - 5*86400, ts[0] - vhlib.Pick(r, []int64{1, 299, 300, 301, 86400}), "before"
	case 1: // outside the data, after
		return ts[len(ts)-1] + vhlib.Pick(r, []int64{1, 300, 86400}), ts[len(ts)-1] + 3*86400, "after"
	case 2: // a single instant
		t := pickTs()
		return t, t, "instant"
	}
	a, b := pickTs(), pickTs()
	if a > b {
		a, b = b, a
	}
	if a < 1 {
		a = 1
	}
	return a, b, "on-blocks"
}

func genValue(kind string, r *vhlib.Rand, p pool) string {
	switch kind {
	case "addr":
		if r.Chance(8) {
			return vhlib.Pick(r, append(append([]string{}, v4all...), v6all...))
		}
		return vhlib.Pick(r, p.all)
	case "net":
		a := vhlib.Pick(r, p.all)
		w := 32
		if strings.Contains(a, ":") {
			w = 128
		}
		var m int
		switch r.Intn(6) {
		case 0:
			m = vhlib.Pick(r, []int{0, w, w - 1, 1, 8})
		case 1:
			m = 8 * r.Intn(w/8+1)
		default:
			m = r.Intn(w + 1)
		}
		if r.Chance(2) {
			m = vhlib.Pick(r, []int{-1, w + 1})
		}
		return a + "/" + strconv.Itoa(m)
	case "port":
		return strconv.Itoa(vhlib.Pick(r, []int{0, 53, 80, 443, 444, 8080, 65535}))
	}
	return vhlib.Pick(r, []string{"6", "17", "tcp", "udp", "icmp", "1", "58", "255"})
}

var addrAttrs = []string{"sip", "dip", "sip", "dip", "src", "dst", "host"}
var netAttrs = []string{"snet", "dnet", "net"}
var portAttrs = []string{"dport", "port"}
var protoAttrs = []string{"proto", "protocol", "ipproto"}
var cmps = []string{"=", "!=", "<", ">", "<=", ">="}

func genLeaf(r *vhlib.Rand, p pool) *tree {
	var a, c string
	switch r.Intn(10) {
	case 0, 1, 2, 3:
		a = vhlib.Pick(r, addrAttrs)
	case 4, 5:
		a = vhlib.Pick(r, netAttrs)
	case 6, 7, 8:
		a = vhlib.Pick(r, portAttrs)
	default:
		a = vhlib.Pick(r, protoAttrs)
	}
	k := attrKind(a)
	if k == "addr" || k == "net" {
		c = "="
		if r.Chance(30) {
			c = "!="
		}
	} else {
		c = vhlib.Pick(r, cmps)
		if r.Chance(50) {
			c = "="
		}
	}
	return leaf(a, c, genValue(k, r, p))
}

func genTree(r *vhlib.Rand, depth int, budget *int, p pool) *tree {
	if depth == 0 || *budget <= 1 || r.Chance(25) {
		*budget--
		return genLeaf(r, p)
	}
	switch r.Intn(7) {
	case 0:
		return not(genTree(r, depth-1, budget, p))
	case 1, 2:
		l := genTree(r, depth-1, budget, p)
		return and(l, genTree(r, depth-1, budget, p))
	default:
		l := genTree(r, depth-1, budget, p)
		return or(l, genTree(r, depth-1, budget, p))
	}
}

func fl(s, d, dp, pr int, a, b, c, e uint64) flowIn {
	return flowIn{S: s, D: d, Dp: dp, Pr: pr, C: [4]uint64{a, b, c, e}}
}

// hand-picked cases: pool 0 10.0.0.1, 1 10.0.0.2, 2 0.0.0.0, 3 2001:db8::1, 4 2001:db8::2, 5 ::, 6 fe80::
func fixedCase(i int) *input {
	const D = int64(1703980800) // 2023-12-31
	pl := []string{"10.0.0.1", "10.0.0.2", "0.0.0.0", "2001:db8::1", "2001:db8::2", "::", "fe80::"}
	blk := func(ts int64) blockIn {
		return blockIn{Ts: ts,
			V4: []flowIn{fl(0, 1, 80, 6, 100, 10, 2, 1), fl(1, 0, 443, 6, 7, 0, 1, 0), fl(0, 1, 53, 17, 0, 9, 0, 3), fl(2, 1, 80, 6, 4, 4, 1, 1)},
			V6: []flowIn{fl(3, 4, 80, 6, 50, 5, 1, 1), fl(4, 3, 443, 6, 3, 3, 0, 2), fl(5, 6, 80, 17, 1, 1, 1, 0), fl(6, 3, 53, 17, 8, 0, 2, 0)}}
	}
	two := []ifaceIn{
		{Name: "eth0", Days: []dayIn{{Ts: D, Blocks: []blockIn{blk(D + 300), blk(D + 600), blk(D + 86100)}}, {Ts: D + 86400, Blocks: []blockIn{blk(D + 86400), blk(D + 86400 + 300)}}}},
		{Name: "eth1", Days: []dayIn{{Ts: D + 86400, Blocks: []blockIn{blk(D + 86400 + 600)}}}},
	}
	base := input{Pool: pl, Ifaces: two, Attrs: []string{"sip", "dip", "dport", "proto"}, First: D - 86400, Last: D + 3*86400, Query: []string{"eth0", "eth1"}, P: 2, Kind: "fixed"}
	c := base
	switch i {
	case 0: // disjunction of an IPv4 address and a port: IPv6 flows to port 80 must be there
		c.Cond = or(leaf("sip", "=", "10.0.0.1"), leaf("dport", "=", "80"))
	case 1: // inequality: every IPv6 flow satisfies it
		c.Cond = leaf("sip", "!=", "10.0.0.1")
		c.Attrs = []string{"sip"}
	case 2: // no condition, no IP attribute: IPv6 entries are aggregated into the IPv4 map
		c.Attrs = []string{"dport", "proto"}
	case 3: // negated address
		c.Cond = not(leaf("dip", "=", "2001:db8::1"))
		c.Attrs = []string{"dip", "time"}
	case 4: // both families in a disjunction
		c.Cond = or(leaf("sip", "=", "10.0.0.1"), leaf("sip", "=", "2001:db8::1"))
	case 5: // contradiction
		c.Cond = and(leaf("sip", "=", "10.0.0.1"), leaf("dip", "=", "2001:db8::1"))
	case 6: // conjunction with a port keeps the limitation
		c.Cond = and(leaf("dport", "=", "80"), leaf("snet", "=", "2001:db8::/32"))
		c.Attrs = []string{"sip", "dport"}
	case 7: // addresses with 12 trailing zero bytes as attributes
		c.Attrs = []string{"sip"}
	case 8: // range ends exactly on a block, begins one second after one
		c.First, c.Last = D+301, D+86400
		c.Attrs = []string{"time", "proto"}
	case 9: // range between the last block of a day and the block at the next midnight: nothing
		c.First, c.Last = D+86100+1, D+86400-1
		c.Attrs = []string{"time", "iface"}
	case 10: // direction filters
		c.Dir = "uni"
		c.Attrs = []string{"dport"}
	case 11:
		c.Dir = "bi"
		c.Cond = leaf("host", "!=", "2001:db8::2")
		c.Attrs = []string{"sip", "dip"}
	case 12: // one interface of two, time attribute, network negation
		c.Query = []string{"eth1"}
		c.Cond = leaf("net", "!=", "10.0.0.0/24")
		c.Attrs = []string{"time", "sip"}
	case 13: // outside the data
		c.First, c.Last = D-10*86400, D-1
	case 14: // single instant on a block at midnight
		c.First, c.Last = D+86400, D+86400
		c.Attrs = []string{"time", "dip", "proto"}
	case 15: // or of a v4 net and a protocol, then and with a v6 address
		c.Cond = and(or(leaf("snet", "=", "10.0.0.0/8"), leaf("proto", "=", "17")), not(leaf("dip", "=", "10.0.0.2")))
	case 16: // malformed condition is refused
		c.Cond = leaf("sip", "<", "10.0.0.1")
	case 17: // in / out
		c.Dir = "in"
		c.Cond = leaf("dport", "<=", "443")
		c.Attrs = []string{"proto"}
	case 18:
		c.Dir = "out"
		c.Attrs = []string{"sip", "time"}
	case 19: // zone west of UTC: the day of 2024-01-01 (UTC) lies in the month directory 2023/12
		c.Off = -18000
		c.First, c.Last = D+86400+1, D+86400+900
		c.Attrs = []string{"time", "dport"}
	case 20: // zone far east: 2023-12-31 (UTC) lies in 2024/01 for +14h
		c.Off = 50400
		c.First, c.Last = D+300, D+86100
		c.Attrs = []string{"time", "proto"}
	case 21: // zone west, range over the year boundary
		c.Off = -43200
		c.First, c.Last = D+86100, D+86400+300
		c.Attrs = []string{"time", "sip"}
	default:
		return nil
	}
	return &c
}

const nFixed = 22

// many tiny day directories of one interface: more than goDB.WorkBulkSize = 32 directories mean
// several workloads, i.e. several partial maps that the aggregation has to merge. Even days hold
// an IPv6 flow, every third day an IPv4 flow as well, every group recurs on many days.
const nLong = 8

func longCase(j int) *input {
	const D0 = int64(1700006400) // 2023-11-15
	nd := []int{40, 47, 64, 65, 70, 33, 66, 52}[j]
	pl := []string{"10.0.0.1", "10.0.0.2", "2001:db8::1", "2001:db8::2", "fe80::"}
	ifc := ifaceIn{Name: "eth0"}
	for k := 0; k < nd; k++ {
		d := D0 + int64(k)*86400
		b := blockIn{Ts: d + 300*int64(1+k%7)}
		b.V6 = []flowIn{fl(2+k%2, 3-k%2, 80, 6, uint64(k+1), 1, 1, uint64(k%2))}
		if k%5 == 4 {
			b.V6 = append(b.V6, fl(4, 2, 53, 17, 7, 7, 1, 1))
		}
		// IPv4 flows only late (or never) in the first workload, so the first partial maps are IPv6-only
		if (j%2 == 0 && k >= 36 && k%3 == 0) || (j%2 == 1 && k%11 == 10) {
			b.V4 = []flowIn{fl(k%2, 1-k%2, 443, 6, 5, uint64(k), 2, 2)}
		}
		ifc.Days = append(ifc.Days, dayIn{Ts: d, Blocks: []blockIn{b}})
	}
	in := &input{Pool: pl, Ifaces: []ifaceIn{ifc}, First: D0 - 86400, Last: D0 + int64(nd+1)*86400,
		Query: []string{"eth0"}, P: 1 + j%8, Kind: "long", Attrs: []string{"sip"}}
	switch j % 4 {
	case 0: // only IPv6 flows match
		in.Cond = leaf("snet", "=", "2001:db8::/32")
		in.Attrs = []string{"sip", "dip"}
	case 1: // no condition: both families, IPv4 rare
		in.Attrs = []string{"dip"}
	case 2: // both families by a disjunction
		in.Cond = or(leaf("dport", "=", "80"), leaf("snet", "=", "10.0.0.0/8"))
		in.Attrs = []string{"sip", "dport"}
	case 3: // only IPv4 flows match
		in.Cond = leaf("dnet", "=", "10.0.0.0/24")
		in.Attrs = []string{"sip", "dip", "proto"}
	}
	if j >= 4 {
		in.Off = []int{-18000, 0, 19800, 0}[j-4]
	}
	if j == 6 { // second half only: the first workload contributes nothing
		in.First = D0 + 30*86400
	}
	return in
}

func gen(r *vhlib.Rand, i int, o vhlib.Opts) any {
	if i < nFixed {
		return fixedCase(i)
	}
	if i < nFixed+nLong {
		return longCase(i - nFixed)
	}
	p := genPool(r)
	in := &input{Pool: p.all, Kind: "random", P: 1 + r.Intn(4)}
	if r.Chance(40) {
		in.Off = vhlib.Pick(r, zoneOffs[1:])
	}
	base := vhlib.Pick(r, dayBases)
	nif := 1 + r.Intn(3)
	maxDays, maxBlocks, maxFlows := 3, 4, 8
	if r.Chance(20) || o.Search {
		maxDays, maxBlocks, maxFlows = 4, 6, 12
	}
	if nif == 3 {
		maxFlows = 5
	}
	for j := 0; j < nif; j++ {
		b := base
		if r.Chance(30) {
			b += 86400 * int64(r.Intn(3))
		}
		in.Ifaces = append(in.Ifaces, genIface(r, p, ifnames[j], b, maxDays, maxBlocks, maxFlows))
	}
	// interfaces queried: usually all, sometimes a subset
	for _, ifc := range in.Ifaces {
		if r.Chance(85) {
			in.Query = append(in.Query, ifc.Name)
		}
	}
	if len(in.Query) == 0 {
		in.Query = []string{in.Ifaces[0].Name}
	}
	in.Attrs = append([]string{}, attrSets[r.Intn(len(attrSets))]...)
	if r.Chance(30) {
		in.Attrs = append([]string{"time"}, in.Attrs...)
	}
	if r.Chance(30) || len(in.Attrs) == 0 {
		in.Attrs = append(in.Attrs, "iface")
	}
	if r.Chance(80) {
		budget := 1 + r.Intn(6)
		in.Cond = genTree(r, 4, &budget, p)
	}
	if r.Chance(20) {
		in.Dir = vhlib.Pick(r, dirs)
	}
	var rk string
	in.First, in.Last, rk = genRange(r, in, base)
	in.Kind = "random/" + rk
	return in
}

// ---------------------------------------------------------------- database

func addrBytes(s string) []byte { return netip.MustParseAddr(s).AsSlice() }

func writeDB(db string, in *input) error {
	for _, ifc := range in.Ifaces {
		if err := os.MkdirAll(filepath.Join(db, ifc.Name), 0o755); err != nil {
			return err
		}
		w := goDB.NewDBWriter(db, ifc.Name, encoders.EncoderTypeLZ4)
		for _, d := range ifc.Days {
			var wls []goDB.BulkWorkload
			for _, b := range d.Blocks {
				m := hashmap.NewAggFlowMap()
				put := func(f flowIn, v4 bool) {
					dp := make([]byte, 2)
					binary.BigEndian.PutUint16(dp, uint16(f.Dp))
					val := types.Counters{BytesRcvd: f.C[0], BytesSent: f.C[1], PacketsRcvd: f.C[2], PacketsSent: f.C[3]}
					if v4 {
						m.PrimaryMap.Set(types.NewV4Key(addrBytes(in.Pool[f.S]), addrBytes(in.Pool[f.D]), dp, byte(f.Pr)), val)
					} else {
						m.SecondaryMap.Set(types.NewV6Key(addrBytes(in.Pool[f.S]), addrBytes(in.Pool[f.D]), dp, byte(f.Pr)), val)
					}
				}
				for _, f := range b.V4 {
					put(f, true)
				}
				for _, f := range b.V6 {
					put(f, false)
				}
				wls = append(wls, goDB.BulkWorkload{FlowMap: m, CaptureStats: capturetypes.CaptureStats{}, Timestamp: b.Ts})
			}
			if len(wls) == 0 {
				continue
			}
			if err := w.WriteBulk(wls, d.Ts); err != nil {
				return err
			}
		}
	}
	return nil
}

// ---------------------------------------------------------------- one query

type obsRow struct {
	If    int       `json:"if"`
	Ts    int64     `json:"ts"`
	Sip   string    `json:"sip,omitempty"`
	Dip   string    `json:"dip,omitempty"`
	Dport int       `json:"dport"`
	Proto int       `json:"proto"`
	C     [4]uint64 `json:"c"`
}

type observed struct {
	Outcome string    `json:"outcome"` // ok err panic
	Err     string    `json:"err,omitempty"`
	Rows    []obsRow  `json:"rows"`
	Totals  [4]uint64 `json:"totals"`
	Hits    int       `json:"hits"`
}

func condText(in *input) string {
	var parts []string
	if in.Dir != "" {
		parts = append(parts, "dir = "+in.Dir)
	}
	if in.Cond != nil {
		parts = append(parts, "("+in.Cond.text()+")")
	}
	return strings.Join(parts, " & ")
}

// zone offsets: UTC, west (New York winter, Baker Island), east (Zurich, India, Kiritimati)
var zoneOffs = []int{0, -18000, -43200, 3600, 19800, 50400}

func runQuery(db string, in *input) *observed {
	obs := &observed{}
	// the engine derives the year / month directories from time.Unix(ts).Year()/Month(), i.e. from
	// time.Local; the writer ran before this point in the same zone
	defer func(l *time.Location) { time.Local = l }(time.Local)
	time.Local = time.FixedZone("verif", in.Off)
	defer engine.VerifSetNumProcessingUnits(engine.VerifSetNumProcessingUnits(max(1, min(in.P, 8))))
	qt := strings.Join(in.Attrs, ",")
	a := query.NewArgs(qt, strings.Join(in.Query, ","),
		query.WithFirst(strconv.FormatInt(in.First, 10)), query.WithLast(strconv.FormatInt(in.Last, 10)),
		query.WithCondition(condText(in)),
		query.WithNumResults(query.MaxResults), query.WithFormat(types.FormatJSON))
	panicked, msg := vhlib.Recover(func() {
		res, err := engine.NewQueryRunner(db).Run(context.Background(), a)
		if err != nil {
			obs.Outcome, obs.Err = "err", err.Error()
			return
		}
		obs.Outcome = "ok"
		ifIdx := map[string]int{}
		for i, n := range in.Query {
			ifIdx[n] = i
		}
		for _, rw := range res.Rows {
			r := obsRow{If: -1}
			if k, ok := ifIdx[rw.Labels.Iface]; ok {
				r.If = k
			}
			if !rw.Labels.Timestamp.IsZero() {
				r.Ts = rw.Labels.Timestamp.Unix()
			}
			if rw.Attributes.SrcIP.IsValid() {
				r.Sip = rw.Attributes.SrcIP.String()
			}
			if rw.Attributes.DstIP.IsValid() {
				r.Dip = rw.Attributes.DstIP.String()
			}
			r.Dport, r.Proto = int(rw.Attributes.DstPort), int(rw.Attributes.IPProto)
			r.C = [4]uint64{rw.Counters.BytesRcvd, rw.Counters.BytesSent, rw.Counters.PacketsRcvd, rw.Counters.PacketsSent}
			obs.Rows = append(obs.Rows, r)
		}
		t := res.Summary.Totals
		obs.Totals = [4]uint64{t.BytesRcvd, t.BytesSent, t.PacketsRcvd, t.PacketsSent}
		obs.Hits = res.Summary.Hits.Total
	})
	if panicked {
		return &observed{Outcome: "panic", Err: msg}
	}
	sort.Slice(obs.Rows, func(i, j int) bool {
		x, y := obs.Rows[i], obs.Rows[j]
		kx := fmt.Sprintf("%03d|%012d|%s|%s|%05d|%03d|%v", x.If, x.Ts, x.Sip, x.Dip, x.Dport, x.Proto, x.C)
		ky := fmt.Sprintf("%03d|%012d|%s|%s|%05d|%03d|%v", y.If, y.Ts, y.Sip, y.Dip, y.Dport, y.Proto, y.C)
		return kx < ky
	})
	return obs
}

// ---------------------------------------------------------------- Coq printing

func u(v uint64) string { return strconv.FormatUint(v, 10) }

func coqFlow(f flowIn) string {
	return fmt.Sprintf("F %d %d %d %d %s %s %s %s", f.S, f.D, f.Dp, f.Pr, u(f.C[0]), u(f.C[1]), u(f.C[2]), u(f.C[3]))
}

func coqFlows(fs []flowIn) string {
	xs := make([]string, len(fs))
	for i, f := range fs {
		xs[i] = coqFlow(f)
	}
	return "[" + strings.Join(xs, ";") + "]"
}

func coqAddr(s string, poolIdx map[string]int) string {
	if s == "" {
		return "OAbs"
	}
	if k, ok := poolIdx[s]; ok {
		return fmt.Sprintf("(OIdx %d)", k)
	}
	a, err := netip.ParseAddr(s)
	if err != nil {
		return "(ORaw true [])"
	}
	return fmt.Sprintf("(ORaw %s %s)", vhlib.CoqBool(a.Is4()), coqBytes(a.AsSlice()))
}

func attrMask(attrs []string) int {
	m := 0
	for _, a := range attrs {
		switch a {
		case "time":
			m |= 1
		case "sip":
			m |= 2
		case "dip":
			m |= 4
		case "dport":
			m |= 8
		case "proto":
			m |= 16
		case "iface":
			m |= 32
		}
	}
	return m
}

func run(raw json.RawMessage, o vhlib.Opts) (*vhlib.Case, error) {
	var in input
	if err := json.Unmarshal(raw, &in); err != nil {
		return nil, err
	}
	db := filepath.Join(o.Work, fmt.Sprintf("c08db-%d", os.Getpid()))
	_ = os.RemoveAll(db)
	defer os.RemoveAll(db)
	saved := time.Local
	time.Local = time.FixedZone("verif", in.Off)
	err := writeDB(db, &in)
	time.Local = saved
	if err != nil {
		return nil, fmt.Errorf("writing the database: %w", err)
	}
	obs := runQuery(db, &in)

	// Coq term
	poolIdx := map[string]int{}
	var poolCoq []string
	for i, s := range in.Pool {
		poolIdx[netip.MustParseAddr(s).String()] = i
		poolCoq = append(poolCoq, coqBytes(addrBytes(s)))
	}
	nflows, nv6, nblocks, ndays := 0, 0, 0, 0
	var ifs []string
	for _, ifc := range in.Ifaces {
		var ds []string
		for _, d := range ifc.Days {
			if len(d.Blocks) == 0 {
				continue
			}
			ndays++
			var bs []string
			for _, b := range d.Blocks {
				nblocks++
				nflows += len(b.V4) + len(b.V6)
				nv6 += len(b.V6)
				bs = append(bs, fmt.Sprintf("B %d %s %s", b.Ts, coqFlows(b.V4), coqFlows(b.V6)))
			}
			ds = append(ds, fmt.Sprintf("D %d [%s]", d.Ts, strings.Join(bs, ";")))
		}
		ifs = append(ifs, fmt.Sprintf("(%s,[%s])", vhlib.CoqStr(ifc.Name), strings.Join(ds, ";")))
	}
	cond := "None"
	if in.Cond != nil {
		c, err := in.Cond.coq()
		if err != nil {
			return nil, err
		}
		cond = "(Some " + c + ")"
	}
	dir := map[string]string{"": "DNone", "in": "DIn", "out": "DOut", "uni": "DUni", "bi": "DBi"}[in.Dir]
	var qs []string
	for _, n := range in.Query {
		qs = append(qs, vhlib.CoqStr(n))
	}
	var outc string
	switch obs.Outcome {
	case "ok":
		var rs []string
		for _, r := range obs.Rows {
			if r.If < 0 {
				r.If = 999 // unknown interface: maps to the empty name in the model
			}
			rs = append(rs, fmt.Sprintf("R %d %d %s %s %d %d %s %s %s %s", r.If, r.Ts, coqAddr(r.Sip, poolIdx), coqAddr(r.Dip, poolIdx),
				r.Dport, r.Proto, u(r.C[0]), u(r.C[1]), u(r.C[2]), u(r.C[3])))
		}
		outc = fmt.Sprintf("(OOk [%s] %s %s %s %s %d)", strings.Join(rs, ";"), u(obs.Totals[0]), u(obs.Totals[1]), u(obs.Totals[2]), u(obs.Totals[3]), obs.Hits)
	case "err":
		outc = "OErr"
	default:
		outc = "OPanic"
	}
	coq := fmt.Sprintf("mkCase %s [%s] [%s] %d %s %s %d %d [%s] %s", coqZ(int64(in.Off)), strings.Join(poolCoq, ";"), strings.Join(ifs, ";"),
		attrMask(in.Attrs), cond, dir, in.First, in.Last, strings.Join(qs, ";"), outc)

	// tags
	tags := []string{"kind:" + in.Kind, fmt.Sprintf("zone:%+d", in.Off), "attrs:" + strings.Join(in.Attrs, ","), "outcome:" + obs.Outcome,
		fmt.Sprintf("ifaces:%d/%d", len(in.Query), len(in.Ifaces)), fmt.Sprintf("days:%d", ndays)}
	switch {
	case in.Cond == nil:
		tags = append(tags, "cond:none")
	default:
		isAddr := func(t *tree) bool { k := attrKind(t.Attr); return k == "addr" || k == "net" }
		v4leaf := in.Cond.has(func(t *tree) bool { return isAddr(t) && !strings.Contains(t.Val, ":") })
		v6leaf := in.Cond.has(func(t *tree) bool { return isAddr(t) && strings.Contains(t.Val, ":") })
		other := in.Cond.has(func(t *tree) bool { return !isAddr(t) })
		neg := in.Cond.has(func(t *tree) bool { return t.Cmp == "!=" }) || strings.Contains(in.Cond.text(), "!(")
		fam := "cond:no-address"
		switch {
		case v4leaf && v6leaf:
			fam = "cond:both-families"
		case v4leaf:
			fam = "cond:ipv4-only"
		case v6leaf:
			fam = "cond:ipv6-only"
		}
		tags = append(tags, fam, fmt.Sprintf("cond:leaves=%d", in.Cond.nleaves()))
		if (v4leaf != v6leaf) && (other || neg) {
			tags = append(tags, "cond:one-family+other/negation")
		}
	}
	if in.Dir != "" {
		tags = append(tags, "dir:"+in.Dir)
	}
	switch {
	case nflows == 0:
		tags = append(tags, "flows:0")
	case nv6 == 0:
		tags = append(tags, "flows:v4-only")
	case nv6 == nflows:
		tags = append(tags, "flows:v6-only")
	default:
		tags = append(tags, "flows:mixed")
	}
	switch {
	case len(obs.Rows) == 0:
		tags = append(tags, "rows:0")
	case len(obs.Rows) < nflows:
		tags = append(tags, "rows:<flows(grouped/filtered)")
	default:
		tags = append(tags, "rows:=flows")
	}
	_ = nblocks
	return &vhlib.Case{Observed: obs, Tags: tags, Nontrivial: obs.Outcome == "ok" && len(obs.Rows) > 0 && nflows > 1, Coq: coq}, nil
}

func main() { vhlib.Main(gen, run) }
