// C18 correspondence harness: operation sequences (Set, SetOrUpdate, Merge) on the real flow hash map,
// observed through Len/Get/Iter/Flatten and the `verif` dump of the internal state at checkpoints
// (every change of the growth stage, mid-growth, after merges, at the end).  Keys are small ids mapped
// to real IPv4 / IPv6 / time-extended key bytes; the xxh3 hashes of the keys under the map's seed are
// handed to the Coq model as a finite table.  Every key is passed through one re-used caller buffer
// that is overwritten after each call (the map must keep its own copy).
package main

import (
	"encoding/hex"
	"encoding/json"
	"fmt"
	"strconv"
	"strings"

	"verifharness/vhlib"

	"github.com/els0r/goProbe/v4/pkg/types"
	"github.com/els0r/goProbe/v4/pkg/types/hashmap"
)

type opIn struct {
	T   string    `json:"t"` // S U M C(lear)
	K   int       `json:"k,omitempty"`
	V   [4]uint64 `json:"v"`
	Src *srcIn    `json:"src,omitempty"`
}

type srcIn struct {
	Hint int    `json:"hint"`
	Seed uint64 `json:"seed"`
	Ops  []opIn `json:"ops"`
	Agg  bool   `json:"agg,omitempty"` // merge through AggFlowMap.Merge
}

type input struct {
	Hint    int      `json:"hint"`
	Seed    uint64   `json:"seed"`
	Keys    []string `json:"keys"` // hex; key id = index+1
	Ops     []opIn   `json:"ops"`
	Probe   []int    `json:"probe"`
	MaxFull int      `json:"maxfull"`
	Kind    []string `json:"kind"`
	Big     *bigIn   `json:"big,omitempty"`
}

// bigIn is the large-table stage: >= 4096 old buckets during a growth, so that the 1024-bucket window of
// advanceEvacuationMark matters.  Key id k gets a real key whose xxh3 (under Seed) has low Bits bits equal to
// those of k; the Coq side gets this closed form plus the top bytes, and range operations.
type bigIn struct {
	Seed    uint64 `json:"seed"`
	KeySeed uint64 `json:"keyseed"`
	Hint    int    `json:"hint"`
	Bits    int    `json:"bits"`
	Fill    int    `json:"fill"`
	Pattern string `json:"pattern"` // adv | uni
}

// ---------------------------------------------------------------- digest (mirrors Corr.v)

const m61 = (uint64(1) << 61) - 1

func mix(h, x uint64) uint64 { return (h*1000003 + x) & m61 }
func fv(x uint64) uint64     { return x&m61 + x>>61 }

type world struct {
	keys  [][]byte
	byKey map[string]int
	buf   []byte
}

func (w *world) id(b []byte) uint64 {
	if len(b) == 0 {
		return 0
	}
	if i, ok := w.byKey[string(b)]; ok {
		return uint64(i)
	}
	return 4000000000 + uint64(len(b))
}

// pass key id through the one caller buffer
func (w *world) arg(id int) []byte {
	k := w.keys[id-1]
	copy(w.buf, k)
	return w.buf[:len(k)]
}
func (w *world) scribble() {
	for i := range w.buf {
		w.buf[i] = 0xAA
	}
}

func digVal(h uint64, v hashmap.Val) uint64 {
	return mix(mix(h, fv(v.BytesRcvd)+3*fv(v.BytesSent)), fv(v.PacketsRcvd)+3*fv(v.PacketsSent))
}

func (w *world) digTable(h uint64, t [][]hashmap.VerifCell) uint64 {
	h = mix(h, 2000+uint64(len(t)))
	for _, ch := range t {
		h = mix(h, 1000+uint64(8*len(ch)))
		for _, c := range ch {
			for i := 0; i < 8; i++ {
				top := uint64(c.Top[i])
				switch {
				case top == 0 || top == 1 || top == 4:
					h = mix(h, top)
				default:
					h = digVal(mix(h, top+256*w.id(c.Keys[i])), c.Vals[i])
				}
			}
		}
	}
	return h
}

func (w *world) digest(d hashmap.VerifDump) uint64 {
	h := w.digTable(7, d.Buckets)
	if !d.Growing {
		return mix(h, 5000)
	}
	return w.digTable(mix(h, 5001), d.Old)
}

// ---------------------------------------------------------------- Coq printing

func u(x uint64) string { return strconv.FormatUint(x, 10) }
func coqVal(v hashmap.Val) string {
	return "V " + u(v.BytesRcvd) + " " + u(v.BytesSent) + " " + u(v.PacketsRcvd) + " " + u(v.PacketsSent)
}
func coqV4(v [4]uint64) string {
	return "V " + u(v[0]) + " " + u(v[1]) + " " + u(v[2]) + " " + u(v[3])
}

type kv struct {
	k []byte
	v hashmap.Val
}

func iterate(m *hashmap.Map) []kv {
	var out []kv
	for it := m.Iter(); it.Next(); {
		out = append(out, kv{it.Key(), it.Val()})
		if len(out) > 1000000 {
			panic("iteration does not terminate")
		}
	}
	return out
}

type obsOut struct {
	Len, NB, Old, NEvac, NOvf int
	Same, Full, Flat          bool
}

func (w *world) observe(m *hashmap.Map, probes []int, full bool) (string, obsOut) {
	d := hashmap.VerifDumpMap(m)
	o := obsOut{Len: m.Len(), NB: len(d.Buckets), Old: len(d.Old), NEvac: d.NEvacuate, NOvf: int(d.NOverflow),
		Same: d.SameSize, Full: full}
	var gets []string
	for _, id := range probes {
		v, ok := m.Get(w.arg(id))
		w.scribble()
		if ok {
			gets = append(gets, "("+strconv.Itoa(id)+", Some ("+coqVal(v)+"))")
		} else {
			gets = append(gets, "("+strconv.Itoa(id)+", None)")
		}
	}
	its := iterate(m)
	// Flatten must give exactly the iteration sequence, with Len() items
	flat := false
	func() {
		defer func() {
			if r := recover(); r != nil {
				flat = false
			}
		}()
		agg := &hashmap.AggFlowMap{PrimaryMap: m, SecondaryMap: hashmap.New()}
		pl, sl := agg.Flatten()
		ok := len(pl) == m.Len() && len(sl) == 0 && len(pl) == len(its)
		if ok {
			for i := range pl {
				if string(pl[i].Key) != string(its[i].k) || pl[i].Val != its[i].v {
					ok = false
				}
			}
		}
		flat = ok
	}()
	o.Flat = flat
	iterS := "None"
	if full {
		xs := make([]string, len(its))
		for i, e := range its {
			xs[i] = "(" + u(w.id(e.k)) + ", " + coqVal(e.v) + ")"
		}
		iterS = "(Some " + vhlib.CoqList(xs) + ")"
	}
	s := "OC (Obs " + strconv.Itoa(o.Len) + " " + strconv.Itoa(o.NB) + " " + strconv.Itoa(o.Old) + " " +
		vhlib.CoqBool(o.Same) + " " + strconv.Itoa(o.NEvac) + " " + strconv.Itoa(o.NOvf) + " " + u(w.digest(d)) + " " +
		vhlib.CoqList(gets) + " " + iterS + " " + vhlib.CoqBool(flat) + ")"
	return s, o
}

func newMap(hint int, seed uint64) *hashmap.Map {
	var m *hashmap.Map
	if hint == 0 {
		m = hashmap.New()
	} else {
		m = hashmap.New(hint)
	}
	hashmap.VerifSetSeed(m, seed)
	return m
}

func (w *world) apply(m *hashmap.Map, o opIn) {
	switch o.T {
	case "S":
		m.Set(w.arg(o.K), hashmap.Val{BytesRcvd: o.V[0], BytesSent: o.V[1], PacketsRcvd: o.V[2], PacketsSent: o.V[3]})
	case "U":
		m.SetOrUpdate(w.arg(o.K), o.V[0], o.V[1], o.V[2], o.V[3])
	}
	w.scribble()
}

func hashTable(w *world, m *hashmap.Map, ids map[int]bool, order []int) string {
	var xs []string
	for _, id := range order {
		if ids[id] {
			xs = append(xs, "("+strconv.Itoa(id)+","+u(hashmap.VerifHash(m, w.keys[id-1]))+")")
			ids[id] = false
		}
	}
	return vhlib.CoqList(xs)
}

func coqOp(o opIn) string {
	return "O" + o.T + " " + strconv.Itoa(o.K) + " (" + coqV4(o.V) + ")"
}

func run(raw json.RawMessage, opt vhlib.Opts) (*vhlib.Case, error) {
	var in input
	if err := json.Unmarshal(raw, &in); err != nil {
		return nil, err
	}
	if in.Big != nil {
		return runBig(in.Big)
	}
	w := &world{byKey: map[string]int{}, buf: make([]byte, 64)}
	for i, hx := range in.Keys {
		b, err := hex.DecodeString(hx)
		if err != nil || len(b) == 0 || len(b) > 64 {
			return nil, fmt.Errorf("bad key %q", hx)
		}
		if _, dup := w.byKey[string(b)]; dup {
			return nil, fmt.Errorf("duplicate key bytes %q", hx)
		}
		w.keys = append(w.keys, b)
		w.byKey[string(b)] = i + 1
	}
	m := newMap(in.Hint, in.Seed)
	used := map[int]bool{}
	var order []int
	use := func(id int) {
		if !used[id] {
			used[id] = true
			order = append(order, id)
		}
	}
	for _, p := range in.Probe {
		use(p)
	}
	var ops []string
	tags := append([]string{}, in.Kind...)
	tagset := map[string]bool{}
	tag := func(t string) {
		if !tagset[t] {
			tagset[t] = true
			tags = append(tags, t)
		}
	}
	light, fullN, grew := 0, 0, 0
	nontrivial := false
	pnb, pold, _ := hashmap.VerifShape(m)
	sinceGrow := -1
	var last obsOut
	panicked, pmsg := false, ""
	sameSeen := false
	probeSmall := in.Probe
	if len(probeSmall) > 3 {
		probeSmall = probeSmall[:3]
	}
	checkpoint := func(full bool) {
		pr := probeSmall
		if full {
			pr = in.Probe
		}
		var s string
		var o obsOut
		if pk, msg := vhlib.Recover(func() { s, o = w.observe(m, pr, full) }); pk {
			panicked, pmsg = true, "observation: "+msg
			tag("panic")
			return
		}
		ops = append(ops, s)
		last = o
		if full {
			fullN++
			if o.Len > 0 {
				nontrivial = true
			}
			if o.Old > 0 {
				tag("full-checkpoint-while-growing")
			}
		} else {
			light++
		}
		if o.Same {
			sameSeen = true
			tag("same-size-growth")
		}
	}
	if len(in.Ops) == 0 || (len(in.Ops) > 0 && in.MaxFull > 2 && in.Seed%3 == 0) {
		checkpoint(true) // the empty map
	}
	for _, o := range in.Ops {
		if panicked {
			break
		}
		switch o.T {
		case "S", "U":
			if o.K < 1 || o.K > len(w.keys) {
				return nil, fmt.Errorf("bad key id %d", o.K)
			}
			use(o.K)
			ops = append(ops, coqOp(o))
			panicked, pmsg = vhlib.Recover(func() { w.apply(m, o) })
		case "C":
			ops = append(ops, "OCl")
			tag("clear")
			panicked, pmsg = vhlib.Recover(func() { m.Clear() })
		case "M":
			src := newMap(o.Src.Hint, o.Src.Seed)
			sused := map[int]bool{}
			var sorder []int
			var sops []string
			for _, so := range o.Src.Ops {
				if so.K < 1 || so.K > len(w.keys) || (so.T != "S" && so.T != "U") {
					return nil, fmt.Errorf("bad source op")
				}
				if !sused[so.K] {
					sused[so.K] = true
					sorder = append(sorder, so.K)
				}
				use(so.K)
				sops = append(sops, coqOp(so))
				w.apply(src, so)
			}
			_, sold, _ := hashmap.VerifShape(src)
			if sold > 0 {
				tag("src-growing-at-merge")
			}
			ops = append(ops, "OM "+strconv.Itoa(o.Src.Hint)+" "+hashTable(w, src, sused, sorder)+" "+vhlib.CoqList(sops))
			tag("merge")
			panicked, pmsg = vhlib.Recover(func() {
				if o.Src.Agg {
					a := hashmap.AggFlowMap{PrimaryMap: m, SecondaryMap: hashmap.New()}
					a.Merge(hashmap.AggFlowMap{PrimaryMap: src, SecondaryMap: hashmap.New()})
				} else {
					m.Merge(src)
				}
			})
		default:
			return nil, fmt.Errorf("bad op %q", o.T)
		}
		if panicked {
			tag("panic")
			break
		}
		nb, nold, _ := hashmap.VerifShape(m)
		changed := nb != pnb || (nold > 0) != (pold > 0)
		if nb != pnb && nold == 0 {
			grew++
		}
		if nold > 0 && pold == 0 {
			grew++
			sinceGrow = 0
		} else if nold > 0 {
			sinceGrow++
		}
		switch {
		case (o.T == "M" || o.T == "C") && fullN < in.MaxFull+2:
			checkpoint(true)
		case nold > 0 && (sinceGrow == 0 || sinceGrow == 3) && fullN < in.MaxFull:
			checkpoint(true)
		case changed && light < 6:
			checkpoint(false)
		}
		pnb, pold = nb, nold
		if panicked {
			break
		}
	}
	if !panicked && len(in.Ops) > 0 {
		checkpoint(true)
	}
	tag(fmt.Sprintf("grew:%d", min(grew, 6)))
	switch n := len(in.Ops); {
	case n <= 16:
		tag("ops<=16")
	case n <= 80:
		tag("ops<=80")
	case n <= 300:
		tag("ops<=300")
	default:
		tag("ops>300")
	}
	if last.NOvf > 0 {
		tag("overflow-chains")
	}
	coq := "Case " + strconv.Itoa(in.Hint) + " " + hashTable(w, m, used, order) + " " + vhlib.CoqList(ops) + " " + vhlib.CoqBool(panicked)
	obs := map[string]any{"final": last, "light": light, "full": fullN, "grew": grew, "same_size_seen": sameSeen}
	if panicked {
		obs["panic"] = pmsg
	}
	return &vhlib.Case{Observed: obs, Tags: tags, Nontrivial: nontrivial, Coq: coq}, nil
}

// ---------------------------------------------------------------- generation

var widths = map[string]int{"v4": types.KeyWidthIPv4, "v6": types.KeyWidthIPv6,
	"v4ext": types.KeyWidthIPv4 + types.TimestampWidth, "v6ext": types.KeyWidthIPv6 + types.TimestampWidth}

func realKey(r *vhlib.Rand, kind string) []byte {
	dport := []byte{byte(r.Intn(256)), byte(r.Intn(256))}
	proto := byte(vhlib.Pick(r, []int{1, 6, 17, 58}))
	var k types.Key
	if strings.HasPrefix(kind, "v4") {
		var s, d [4]byte
		for i := range s {
			s[i], d[i] = byte(r.Intn(256)), byte(r.Intn(256))
		}
		k = types.NewV4KeyStatic(s, d, dport, proto)
	} else {
		var s, d [16]byte
		for i := range s {
			s[i], d[i] = byte(r.Intn(256)), byte(r.Intn(256))
		}
		k = types.NewV6KeyStatic(s, d, dport, proto)
	}
	if strings.HasSuffix(kind, "ext") {
		return []byte(k.Extend(int64(1600000000 + r.Intn(100000000))))
	}
	return []byte(k)
}

var bigs = []uint64{0, 1, 2, 1500, 65536, 1 << 32, 1<<63 - 1, 1 << 63, ^uint64(0), ^uint64(0) - 1}

func genVal(r *vhlib.Rand) [4]uint64 {
	var v [4]uint64
	for i := range v {
		if r.Chance(12) {
			v[i] = vhlib.Pick(r, bigs)
		} else {
			v[i] = uint64(r.Intn(10))
		}
	}
	return v
}

type plan struct {
	kind    string // v4 v6 v4ext v6ext mixed
	cluster string // uniform low top split
	nkeys   int
	nops    int
	hint    int
	merges  int
	maxfull int
	updPct  int
	clears  int
}

func genKeys(r *vhlib.Rand, p plan, seed uint64) [][]byte {
	probe := newMap(0, seed)
	seen := map[string]bool{}
	var out [][]byte
	bitsN := 3 + r.Intn(6)
	target := r.U64()
	for len(out) < p.nkeys {
		kind := p.kind
		if kind == "mixed" {
			kind = vhlib.Pick(r, []string{"v4", "v6", "v4ext", "v6ext"})
		}
		var k []byte
		for try := 0; ; try++ {
			k = realKey(r, kind)
			h := hashmap.VerifHash(probe, k)
			ok := true
			switch p.cluster {
			case "low": // all keys in very few buckets of any table up to 2^bitsN buckets
				ok = (h^target)&(1<<bitsN-1) == 0
			case "split": // share the low bits, differ above: evacuation splits them X/Y again and again
				ok = (h^target)&7 == 0
			case "top": // equal top byte (tophash collisions), some below minTopHash
				ok = h>>56 == (target>>56)%7 && (h^target)&3 == 0
			}
			if ok || try > 200000 {
				break
			}
		}
		if !seen[string(k)] {
			seen[string(k)] = true
			out = append(out, k)
		}
	}
	return out
}

func genOps(r *vhlib.Rand, n, nkeys, updPct int, fresh *int) []opIn {
	var ops []opIn
	for len(ops) < n {
		var k int
		if *fresh < nkeys && !r.Chance(updPct) {
			*fresh++
			k = *fresh
		} else {
			k = 1 + r.Intn(max(1, min(*fresh+1, nkeys)))
		}
		t := "U"
		if r.Chance(30) {
			t = "S"
		}
		ops = append(ops, opIn{T: t, K: k, V: genVal(r)})
	}
	return ops
}

// number of source ops after which the source is mid-growth (simulated on a real map)
func growingLen(seed uint64, hint int, keys [][]byte, ops []opIn) (best int) {
	defer func() {
		if recover() != nil {
			best = -1
		}
	}()
	m := newMap(hint, seed)
	w := &world{keys: keys, buf: make([]byte, 64)}
	best = -1
	for i, o := range ops {
		w.apply(m, o)
		if _, nold, _ := hashmap.VerifShape(m); nold > 0 {
			best = i + 1
			if nold >= 2 {
				break
			}
		}
	}
	return best
}

func build(r *vhlib.Rand, p plan) input {
	seed := r.U64() | 1
	keys := genKeys(r, p, seed)
	in := input{Hint: p.hint, Seed: seed, MaxFull: p.maxfull,
		Kind: []string{"keys:" + p.kind, "hash:" + p.cluster, "hint:" + hintClass(p.hint)}}
	for _, k := range keys {
		in.Keys = append(in.Keys, hex.EncodeToString(k))
	}
	fresh := 0
	main := genOps(r, p.nops, p.nkeys, p.updPct, &fresh)
	// merges are spliced into the main sequence
	cut := make([]int, p.merges)
	for i := range cut {
		cut[i] = r.Intn(len(main) + 1)
	}
	for i := 0; i <= len(main); i++ {
		for _, c := range cut {
			if c == i {
				sf := 0
				if r.Chance(50) {
					sf = r.Intn(p.nkeys) // overlapping or disjoint key ranges
				}
				n := vhlib.Pick(r, []int{0, 1, 5, 9, 12, 20, 30, 60})
				if p.nops > 300 {
					n = 50 + r.Intn(400)
				}
				sops := genOps(r, n, p.nkeys, 20, &sf)
				s := &srcIn{Hint: vhlib.Pick(r, []int{0, 0, 0, 1, 9, 30}), Seed: r.U64() | 1, Ops: sops, Agg: r.Chance(25)}
				if r.Chance(60) {
					if g := growingLen(s.Seed, s.Hint, keys, sops); g > 0 {
						s.Ops = sops[:g]
					}
				}
				in.Ops = append(in.Ops, opIn{T: "M", Src: s})
			}
		}
		if i < len(main) {
			in.Ops = append(in.Ops, main[i])
		}
	}
	if p.clears > 0 && len(in.Ops) > 0 {
		for c := 0; c < p.clears; c++ {
			at := r.Intn(len(in.Ops) + 1)
			in.Ops = append(in.Ops[:at], append([]opIn{{T: "C"}}, in.Ops[at:]...)...)
		}
	}
	np := min(8, p.nkeys)
	for i := 0; i < np; i++ {
		in.Probe = append(in.Probe, 1+r.Intn(p.nkeys))
	}
	return in
}

func hintClass(h int) string {
	switch {
	case h == 0:
		return "0"
	case h <= 8:
		return "1-8"
	case h <= 100:
		return "9-100"
	}
	return ">100"
}

func fixed(i int, r *vhlib.Rand) *input {
	mk := func(p plan) *input { in := build(r, p); return &in }
	base := plan{kind: "v4", cluster: "uniform", maxfull: 3}
	switch i {
	case 0:
		p := base
		p.nkeys, p.nops = 1, 0
		return mk(p)
	case 1:
		p := base
		p.nkeys, p.nops = 1, 3
		return mk(p)
	case 2, 3, 4, 5, 6, 7:
		p := base
		p.nkeys = []int{8, 9, 13, 14, 27, 53}[i-2]
		p.nops = p.nkeys
		p.kind = []string{"v4", "v6", "v4ext", "v6ext", "mixed", "v4"}[i-2]
		return mk(p)
	case 8: // Set then SetOrUpdate on one key with wrap-around
		in := build(r, plan{kind: "v6", cluster: "uniform", nkeys: 2, nops: 0, maxfull: 3})
		mx := ^uint64(0)
		in.Ops = []opIn{{T: "S", K: 1, V: [4]uint64{mx, mx - 1, 1 << 63, 5}}, {T: "U", K: 1, V: [4]uint64{1, 3, 1 << 63, 7}},
			{T: "U", K: 2, V: [4]uint64{mx, 0, 0, 0}}, {T: "U", K: 2, V: [4]uint64{mx, 0, 0, 0}}, {T: "S", K: 1, V: [4]uint64{9, 9, 9, 9}}}
		return &in
	case 9: // merge empty <- empty, merge into empty
		in := build(r, plan{kind: "v4", cluster: "uniform", nkeys: 12, nops: 0, maxfull: 3})
		f := 0
		in.Ops = []opIn{{T: "M", Src: &srcIn{Seed: 77}}, {T: "M", Src: &srcIn{Seed: 99, Ops: genOps(r, 12, 12, 0, &f)}},
			{T: "M", Src: &srcIn{Seed: 99, Hint: 9, Ops: genOps(r, 12, 12, 100, &f), Agg: true}}}
		return &in
	case 10, 11:
		p := plan{kind: "v4", cluster: "low", nkeys: 40, nops: 45, maxfull: 3, updPct: 10}
		if i == 11 {
			p.cluster, p.kind = "split", "v6ext"
		}
		return mk(p)
	case 12:
		p := base
		p.hint, p.nkeys, p.nops = 9, 30, 30
		return mk(p)
	case 13:
		p := base
		p.cluster, p.nkeys, p.nops, p.updPct = "top", 30, 40, 30
		return mk(p)
	case 14:
		p := base
		p.nkeys, p.nops, p.merges, p.updPct = 40, 30, 2, 30
		return mk(p)
	case 15:
		p := base
		p.hint, p.nkeys, p.nops = 1000, 60, 60
		return mk(p)
	case 16: // fill, Clear, re-use, Clear twice, re-use (Clear on an empty map is a no-op)
		in := build(r, plan{kind: "v4", cluster: "uniform", nkeys: 40, nops: 0, maxfull: 3})
		f := 0
		in.Ops = append(genOps(r, 28, 40, 0, &f), opIn{T: "C"})
		in.Ops = append(in.Ops, genOps(r, 12, 40, 50, &f)...)
		in.Ops = append(in.Ops, opIn{T: "C"}, opIn{T: "C"})
		in.Ops = append(in.Ops, genOps(r, 5, 40, 50, &f)...)
		return &in
	}
	return nil
}

func gen(r *vhlib.Rand, i int, o vhlib.Opts) any {
	if in := fixed(i, r); in != nil {
		return in
	}
	// large-table stage: one adversarial case in every tier, more patterns / seeds outside the quick tier
	if i == 17 || (o.Tier != "quick" || o.Search) && (i == 19 || i == 21) {
		return input{Big: &bigIn{Seed: r.U64() | 1, KeySeed: r.U64(), Hint: 20000, Bits: 13, Fill: 26624, Pattern: "adv"}}
	}
	if (o.Tier != "quick" || o.Search) && i == 18 {
		return input{Big: &bigIn{Seed: r.U64() | 1, KeySeed: r.U64(), Hint: 0, Bits: 13, Fill: 26624, Pattern: "uni"}}
	}
	p := plan{kind: vhlib.Pick(r, []string{"v4", "v4", "v6", "v4ext", "v6ext", "mixed"}),
		cluster: vhlib.Pick(r, []string{"uniform", "uniform", "low", "split", "top"}),
		hint:    vhlib.Pick(r, []int{0, 0, 0, 0, 0, 1, 8, 9, 14, 27, 100, 1000}),
		maxfull: 1 + r.Intn(2), updPct: vhlib.Pick(r, []int{0, 10, 30, 60})}
	big, bigmax, medPct := 60, 1200, 8
	if o.Tier != "quick" {
		big, bigmax, medPct = 30, 2700, 12
	}
	if o.Search {
		big, bigmax, medPct = 15, 2700, 15
	}
	switch {
	case r.Intn(big) == 0: // large
		p.nops = 300 + r.Intn(1+r.Intn(bigmax))
		p.maxfull = 1
		if p.cluster == "top" {
			p.cluster = "split"
		}
	case r.Chance(medPct):
		p.nops = 80 + r.Intn(220)
		p.maxfull = 1
	default:
		p.nops = 10 + r.Intn(50)
	}
	p.nkeys = max(1, p.nops*(100-p.updPct/2)/100)
	if r.Chance(35) || o.Search && r.Chance(30) {
		p.merges = 1 + r.Intn(3)
	}
	if r.Chance(15) {
		p.clears = 1 + r.Intn(2)
	}
	return build(r, p)
}

// runBig: fill a table of 4096 buckets to the load factor, start the growth 4096 -> 8192, then
//
//	adv: write to the old buckets 2048, 2047, ... 1025 in descending order (each write evacuates its bucket
//	     and the bucket at the mark), so that a run of 1024 consecutive evacuated buckets lies right ahead of
//	     the mark when the mark reaches it, with 2046 old buckets behind the run still unevacuated;
//	uni: keep inserting fresh keys until the growth is over.
func runBig(b *bigIn) (*vhlib.Case, error) {
	if b.Bits < 8 || b.Bits > 16 || b.Fill < 100 || b.Fill > 60000 {
		return nil, fmt.Errorf("bad big parameters")
	}
	mask := uint64(1)<<b.Bits - 1
	extra := 60
	if b.Pattern == "uni" {
		extra = 4400
	}
	n := b.Fill + 1 + extra + 4 // ids 1..n ; the last 4 are never inserted
	m := newMap(b.Hint, b.Seed)
	w := &world{byKey: map[string]int{}, buf: make([]byte, 64), keys: make([][]byte, n)}
	// ids waiting for a key, per residue
	need := make([][]int, mask+1)
	for id := n; id >= 1; id-- {
		need[uint64(id)&mask] = append(need[uint64(id)&mask], id)
	}
	kr := vhlib.NewRand(b.KeySeed)
	tops := make([]byte, n)
	for left := n; left > 0; {
		var s, d [4]byte
		x, y := kr.U64(), kr.U64()
		for i := 0; i < 4; i++ {
			s[i], d[i] = byte(x>>(8*i)), byte(x>>(32+8*i))
		}
		k := []byte(types.NewV4KeyStatic(s, d, []byte{byte(y), byte(y >> 8)}, byte(y>>16)))
		h := hashmap.VerifHash(m, k)
		q := need[h&mask]
		if len(q) == 0 {
			continue
		}
		if _, dup := w.byKey[string(k)]; dup {
			continue
		}
		id := q[len(q)-1]
		need[h&mask] = q[:len(q)-1]
		w.keys[id-1], w.byKey[string(k)], tops[id-1] = k, id, byte(h>>56)
		left--
	}
	one := [4]uint64{1, 0, 0, 0}
	var ops []string
	tags := []string{"big-table", "pattern:" + b.Pattern, "keys:v4", "ops>300"}
	panicked, pmsg := false, ""
	var last obsOut
	nchk, sawWindow := 0, false
	upd := func(id int) {
		m.SetOrUpdate(w.arg(id), 1, 0, 0, 0)
		w.scribble()
	}
	rng := func(k0, cnt int, down bool) {
		if panicked {
			return
		}
		ops = append(ops, "OR "+strconv.Itoa(k0)+" "+strconv.Itoa(cnt)+" "+vhlib.CoqBool(down)+" ("+coqV4(one)+")")
		panicked, pmsg = vhlib.Recover(func() {
			for i, id := 0, k0; i < cnt; i++ {
				upd(id)
				if down {
					id--
				} else {
					id++
				}
			}
		})
	}
	probes := []int{3000, 4000, 8191, 6145, 5, 1025, 2049, b.Fill + 1, b.Fill, n, n - 1}
	chk := func() {
		if panicked {
			return
		}
		var s string
		var o obsOut
		if pk, msg := vhlib.Recover(func() { s, o = w.observe(m, probes, false) }); pk {
			panicked, pmsg = true, "observation: "+msg
			return
		}
		ops = append(ops, s)
		last = o
		nchk++
		if o.Old >= 2048 && o.NEvac > 1024 && o.NEvac < o.Old {
			sawWindow = true
		}
	}
	rng(1, b.Fill, false)
	chk()
	rng(b.Fill+1, 1, false) // starts the growth
	switch b.Pattern {
	case "adv":
		rng(2048, 1020, true)
		chk()
		rng(1028, 3, true)
		rng(1025, 1, true) // the mark runs over the 1024 evacuated buckets 1025..2048 and must stop at 2049
		chk()
		rng(3000, 1, false)
		rng(b.Fill+2, extra-1, false)
		chk()
	default:
		rng(b.Fill+2, 2000, false)
		chk()
		rng(b.Fill+2002, extra-2001, false)
		chk()
	}
	if panicked {
		tags = append(tags, "panic")
	}
	if sawWindow {
		tags = append(tags, "mark-crossed-1024-run")
	}
	hexs := hex.EncodeToString(tops)
	var chunks []string
	for i := 0; i < len(hexs); i += 1024 { // chunked: one 50k-character literal overflows coqc's stack
		chunks = append(chunks, "\""+hexs[i:min(i+1024, len(hexs))]+"\"%string")
	}
	coq := "CaseBig " + strconv.Itoa(b.Hint) + " " + strconv.Itoa(b.Bits) + " " + vhlib.CoqList(chunks) + " " +
		vhlib.CoqList(ops) + " " + vhlib.CoqBool(panicked)
	obs := map[string]any{"final": last, "checkpoints": nchk, "mark_crossed_1024_run": sawWindow}
	if panicked {
		obs["panic"] = pmsg
	}
	return &vhlib.Case{Observed: obs, Tags: tags, Nontrivial: true, Coq: coq}, nil
}

func main() { vhlib.Main(gen, run) }
