package wo

import (
	"bufio"
	"bytes"
	"context"
	"encoding/json"
	"errors"
	"fmt"
	"os"
	"os/exec"
	"path/filepath"
	"regexp"
	"sort"
	"strconv"
	"strings"
	"sync"
	"time"

	"github.com/els0r/goProbe/v4/pkg/goDB/storage/gpfile"
	"github.com/els0r/goProbe/v4/pkg/types"
)

// ErrInfra marks failures of the machinery (strace, child start, timeouts): never a property violation
var ErrInfra = errors.New("harness infrastructure failure")

const traceSet = "trace=openat,mkdirat,renameat,renameat2,unlinkat,fchmodat,fchmod,write,pwrite64,lseek,ftruncate,close"

// Sys is one line of an strace log
type Sys struct {
	Name string
	Args string
	Ret  string
	Ord  int // ordinal (1-based) among the calls with the same name in this trace = strace's when= counter
}

// Ref names a DB file in abstract form
type Ref struct {
	Kind  string // month | meta | col | tmp | up-i | up-y | up-m | day
	Iface int
	Year  int
	Month int
	Day   int64
	Suf   *Totals
	Col   int
	Tmp   int
}

// Op is one normalised DB-related system call
type Op struct {
	Kind string // mkdir openr openw openx seek write close chmod rename renamedir unlink rmdir
	A, B Ref
	Off  int
	Len  int
	OK   bool
	Name string // system call name and ordinal, for injection
	Ord  int
	Errn string
	Note string // why the call has no counterpart in the model's alphabet (never a harness error)
}

// String is the readable form of a normalised call (for observations)
func (o Op) String() string {
	s := fmt.Sprintf("%s %s if%d day%d col%d", o.Kind, o.A.Kind, o.A.Iface, o.A.Day, o.A.Col)
	if o.Kind == "write" || o.Kind == "seek" {
		s += fmt.Sprintf(" off%d len%d", o.Off, o.Len)
	}
	if !o.OK {
		s += " FAILED " + o.Errn
	}
	if o.Note != "" {
		s += " [" + o.Note + "]"
	}
	return s
}

var lineRe = regexp.MustCompile(`^(\w+)\((.*)\)\s+= (.+)$`)

// ParseTrace reads an strace -o file
func ParseTrace(path string) (calls []Sys, killed bool, err error) {
	f, err := os.Open(path)
	if err != nil {
		return nil, false, err
	}
	defer f.Close()
	sc := bufio.NewScanner(f)
	sc.Buffer(make([]byte, 1<<20), 1<<26)
	counts := map[string]int{}
	for sc.Scan() {
		l := sc.Text()
		if strings.HasPrefix(l, "+++ killed by SIGKILL") {
			killed = true
			continue
		}
		if strings.HasPrefix(l, "---") || strings.HasPrefix(l, "+++") {
			continue
		}
		if strings.Contains(l, "<unfinished ...>") || strings.Contains(l, "resumed>") {
			return nil, false, fmt.Errorf("%w: interleaved strace line %q", ErrInfra, l)
		}
		m := lineRe.FindStringSubmatch(l)
		if m == nil {
			// a killed call: `name(args) = ?` is matched above; anything else is unexpected
			return nil, false, fmt.Errorf("%w: cannot parse strace line %q", ErrInfra, l)
		}
		counts[m[1]]++
		calls = append(calls, Sys{Name: m[1], Args: m[2], Ret: m[3], Ord: counts[m[1]]})
	}
	return calls, killed, sc.Err()
}

var strRe = regexp.MustCompile(`"((?:[^"\\]|\\.)*)"`)

func firstInt(s string) int {
	n := 0
	s = strings.TrimSpace(s)
	i := 0
	for i < len(s) && s[i] >= '0' && s[i] <= '9' {
		n = n*10 + int(s[i]-'0')
		i++
	}
	return n
}

// IfaceID maps "eth3" to 3
func IfaceID(name string) (int, bool) {
	if !strings.HasPrefix(name, "eth") {
		return 0, false
	}
	n, err := strconv.Atoi(name[3:])
	return n, err == nil
}

// ParseSuffix decodes a directory-name suffix with the real decoder
func ParseSuffix(suffix string) (*Totals, bool) {
	if suffix == "" {
		return nil, true
	}
	var m gpfile.Metadata
	if err := m.UnmarshalString(suffix); err != nil {
		return nil, false
	}
	return &Totals{V4: m.Traffic.NumV4Entries, V6: m.Traffic.NumV6Entries, Drops: m.Traffic.NumDrops,
		BR: m.Counts.BytesRcvd, BS: m.Counts.BytesSent, PR: m.Counts.PacketsRcvd, PS: m.Counts.PacketsSent}, true
}

// PathRef turns a path below root into an abstract reference. cur is the write-out in progress (temp name)
func PathRef(root, p string, cur int) (Ref, bool) {
	if !strings.HasPrefix(p, root+"/") {
		return Ref{}, false
	}
	parts := strings.Split(strings.TrimPrefix(p, root+"/"), "/")
	var r Ref
	id, ok := IfaceID(parts[0])
	if !ok {
		return Ref{}, false
	}
	r.Iface = id
	if len(parts) == 1 {
		r.Kind = "up-i"
		return r, true
	}
	y, err := strconv.Atoi(parts[1])
	if err != nil {
		return Ref{}, false
	}
	r.Year = y
	if len(parts) == 2 {
		r.Kind = "up-y"
		return r, true
	}
	mo, err := strconv.Atoi(parts[2])
	if err != nil {
		return Ref{}, false
	}
	r.Month = mo
	if len(parts) == 3 {
		r.Kind = "up-m"
		return r, true
	}
	ts, suffix, err := gpfile.ExtractTimestampMetadataSuffix(parts[3])
	if err != nil {
		return Ref{}, false
	}
	r.Day = ts
	suf, ok := ParseSuffix(suffix)
	if !ok {
		return Ref{}, false
	}
	r.Suf = suf
	if len(parts) == 4 {
		r.Kind = "day"
		return r, true
	}
	if len(parts) != 5 {
		return Ref{}, false
	}
	name := parts[4]
	switch {
	case name == ".blockmeta":
		r.Kind = "meta"
	case strings.HasPrefix(name, ".tmp-metadata-"):
		r.Kind = "tmp"
		r.Tmp = cur
	case strings.HasSuffix(name, gpfile.FileSuffix):
		r.Kind = "col"
		r.Col = -1
		for i, cn := range types.ColumnFileNames {
			if cn+gpfile.FileSuffix == name {
				r.Col = i
			}
		}
		if r.Col < 0 { // a column file the model does not know: like any other foreign file
			r.Kind, r.Tmp, r.Col = "tmp", cur, 0
		}
	default:
		// any other file inside a day directory is treated as "the temporary (metadata) file": what it is
		// is decided by what the code does with it (the model expects CreateTemp ... rename onto .blockmeta)
		r.Kind = "tmp"
		r.Tmp = cur
	}
	return r, true
}

// Normalise extracts the DB-related calls of a trace. ids[j] is the id of the j-th write-out the child runs
func Normalise(calls []Sys, root string, ids []int) ([]Op, error) {
	var ops []Op
	type fdinfo struct {
		ref Ref
		pos int
	}
	fds := map[int]*fdinfo{}
	cur := 0
	curID := func() int {
		if cur < len(ids) {
			return ids[cur]
		}
		return 900 + cur
	}
	for _, c := range calls {
		ok := !strings.HasPrefix(c.Ret, "-1") && c.Ret != "?"
		errn := ""
		if !ok && c.Ret != "?" {
			f := strings.Fields(c.Ret)
			if len(f) > 1 {
				errn = f[1]
			}
		}
		op := Op{OK: ok, Name: c.Name, Ord: c.Ord, Errn: errn}
		strs := strRe.FindAllStringSubmatch(c.Args, -1)
		switch c.Name {
		case "openat":
			if len(strs) == 0 {
				continue
			}
			ref, isdb := PathRef(root, strs[0][1], curID())
			if !isdb {
				continue
			}
			switch {
			case strings.Contains(c.Args, "O_DIRECTORY") && ref.Kind == "up-m":
				op.Kind, ref.Kind = "openr", "month"
			case strings.Contains(c.Args, "O_EXCL") && ref.Kind == "tmp":
				op.Kind = "openx"
			case strings.Contains(c.Args, "O_WRONLY|O_CREAT") && ref.Kind == "col":
				op.Kind = "openw"
			case strings.Contains(c.Args, "O_RDONLY") && ref.Kind == "meta":
				op.Kind = "openr"
			case strings.Contains(c.Args, "O_CREAT"):
				op.Kind, op.Note = "openw", "unexpected open flags: "+c.Args // a shape the model does not produce
			default:
				op.Kind, op.Note = "openr", "unexpected open: "+c.Args
			}
			op.A = ref
			if ok {
				fds[firstInt(c.Ret)] = &fdinfo{ref: ref}
			}
		case "mkdirat":
			if len(strs) == 0 {
				continue
			}
			ref, isdb := PathRef(root, strs[0][1], curID())
			if !isdb {
				if strs[0][1] == root {
					ops = append(ops, Op{Kind: "other", OK: ok, Name: c.Name, Ord: c.Ord, Note: "mkdir of the DB root"})
				}
				continue
			}
			op.Kind, op.A = "mkdir", ref
		case "renameat", "renameat2":
			if len(strs) < 2 {
				continue
			}
			a, adb := PathRef(root, strs[0][1], curID())
			b, bdb := PathRef(root, strs[1][1], curID())
			if !adb && !bdb {
				continue
			}
			if !adb || !bdb {
				ops = append(ops, Op{Kind: "other", OK: ok, Name: c.Name, Ord: c.Ord, Note: "rename across the DB boundary: " + c.Args})
				continue
			}
			if a.Kind == "day" && b.Kind == "day" {
				op.Kind = "renamedir"
			} else {
				op.Kind = "rename"
			}
			op.A, op.B = a, b
		case "unlinkat":
			if len(strs) == 0 {
				continue
			}
			ref, isdb := PathRef(root, strs[0][1], curID())
			if !isdb {
				continue
			}
			op.Kind, op.A = "unlink", ref
			if strings.Contains(c.Args, "AT_REMOVEDIR") {
				op.Kind = "rmdir"
			}
		case "fchmodat":
			if len(strs) == 0 {
				continue
			}
			ref, isdb := PathRef(root, strs[0][1], curID())
			if !isdb {
				continue
			}
			op.Kind, op.A = "chmod", ref
		case "write", "pwrite64", "lseek", "close", "fchmod", "ftruncate":
			fd := firstInt(c.Args)
			if c.Name == "write" && fd == 3 && strings.Contains(c.Args, `{\"j\":`) {
				cur++ // progress line: the next write-out starts
				continue
			}
			fi := fds[fd]
			if fi == nil {
				continue
			}
			op.A = fi.ref
			switch c.Name {
			case "write":
				op.Kind, op.Off = "write", fi.pos
				i := strings.LastIndex(c.Args, ",")
				op.Len = firstInt(c.Args[i+1:])
				if ok {
					n := firstInt(c.Ret)
					if n != op.Len {
						op.Note = "short write: " + c.Ret
						op.Len = n
					}
					fi.pos += n
				}
			case "lseek":
				op.Kind = "seek"
				f := strings.Split(c.Args, ",")
				if len(f) >= 2 {
					op.Off = firstInt(f[1])
				}
				if ok {
					// whatever the whence: the resulting absolute position is what the model's OSeek carries
					op.Off = firstInt(c.Ret)
					fi.pos = op.Off
				}
			case "close":
				op.Kind = "close"
				if ok {
					delete(fds, fd)
				}
			default:
				op.Kind, op.Note = "other", "unexpected "+c.Name+" on a DB file: "+c.Args
			}
		default:
			continue
		}
		ops = append(ops, op)
	}
	return ops, nil
}

// ---------------------------------------------------------------- running children

// Env locates the harness binary and the scratch directory
type Env struct {
	Bin  string
	Work string
}

// TraceRun is the result of one traced (possibly injected) writer child
type TraceRun struct {
	Ops      []Op
	Killed   bool
	Results  []ChildWriteResult
	ExitCode int
}

func runCmd(timeout time.Duration, extra []*os.File, name string, args ...string) (stdout, stderr []byte, code int, err error) {
	ctx, cancel := context.WithTimeout(context.Background(), timeout)
	defer cancel()
	cmd := exec.CommandContext(ctx, name, args...)
	var so, se bytes.Buffer
	cmd.Stdout, cmd.Stderr = &so, &se
	cmd.ExtraFiles = extra
	cmd.Env = append(os.Environ(), "TZ=UTC", "GOMAXPROCS=2")
	err = cmd.Run()
	if ctx.Err() != nil {
		return so.Bytes(), se.Bytes(), -1, fmt.Errorf("%w: timeout running %s %v", ErrInfra, name, args)
	}
	code = 0
	if err != nil {
		var ee *exec.ExitError
		if errors.As(err, &ee) {
			code = ee.ExitCode()
			err = nil
		} else {
			return so.Bytes(), se.Bytes(), -1, fmt.Errorf("%w: cannot run %s: %v", ErrInfra, name, err)
		}
	}
	return so.Bytes(), se.Bytes(), code, nil
}

func parseProgress(path string) []ChildWriteResult {
	var out []ChildWriteResult
	b, _ := os.ReadFile(path)
	for _, l := range strings.Split(string(b), "\n") {
		var r ChildWriteResult
		if json.Unmarshal([]byte(l), &r) == nil && l != "" {
			out = append(out, r)
		}
	}
	return out
}

// WriteHist stores a history file for the children
func WriteHist(path string, hist []WriteOut) error {
	b, _ := json.Marshal(hist)
	return os.WriteFile(path, b, 0o644)
}

// worker is a persistent child serving read / untraced write requests
type worker struct {
	cmd *exec.Cmd
	in  *bufio.Writer
	out *bufio.Scanner
	se  *bytes.Buffer
}

var (
	poolOnce sync.Once
	pool     chan *worker
)

func (e Env) startWorker() (*worker, error) {
	cmd := exec.Command(e.Bin, "child-serve")
	cmd.Env = append(os.Environ(), "TZ=UTC", "GOMAXPROCS=2")
	ip, err := cmd.StdinPipe()
	if err != nil {
		return nil, err
	}
	op, err := cmd.StdoutPipe()
	if err != nil {
		return nil, err
	}
	se := &bytes.Buffer{}
	cmd.Stderr = se
	if err := cmd.Start(); err != nil {
		return nil, fmt.Errorf("%w: cannot start worker child: %v", ErrInfra, err)
	}
	sc := bufio.NewScanner(op)
	sc.Buffer(make([]byte, 1<<20), 1<<28)
	return &worker{cmd: cmd, in: bufio.NewWriter(ip), out: sc, se: se}, nil
}

// call sends one request to a pooled worker. died = the worker process went away while serving it
// (an unrecoverable panic of the code under test); a timeout is an infrastructure failure.
func (e Env) call(rq ServeReq) (rs *ServeResp, died bool, diedMsg string, err error) {
	poolOnce.Do(func() {
		pool = make(chan *worker, 8)
		for i := 0; i < 8; i++ {
			pool <- nil
		}
	})
	w := <-pool
	defer func() { pool <- w }()
	if w == nil {
		if w, err = e.startWorker(); err != nil {
			return nil, false, "", err
		}
	}
	b, _ := json.Marshal(rq)
	w.in.Write(append(b, '\n'))
	w.in.Flush()
	type scanRes struct{ ok bool }
	ch := make(chan scanRes, 1)
	go func() { ch <- scanRes{w.out.Scan()} }()
	select {
	case r := <-ch:
		if !r.ok {
			w.cmd.Wait()
			msg := w.se.String()
			w = nil
			return nil, true, msg, nil
		}
		var resp ServeResp
		if err := json.Unmarshal(w.out.Bytes(), &resp); err != nil {
			w.cmd.Process.Kill()
			w.cmd.Wait()
			w = nil
			return nil, false, "", fmt.Errorf("%w: bad worker answer: %v", ErrInfra, err)
		}
		return &resp, false, "", nil
	case <-time.After(60 * time.Second):
		w.cmd.Process.Kill()
		w.cmd.Wait()
		w = nil
		return nil, false, "", fmt.Errorf("%w: worker child timeout (watchdog) on %s %s", ErrInfra, rq.Op, rq.Root)
	}
}

// RunPlain runs write-outs [from,to) untraced in a worker child
func (e Env) RunPlain(root, histFile string, from, to int, tag string) ([]ChildWriteResult, error) {
	rs, died, msg, err := e.call(ServeReq{Op: "write", Root: root, Hist: histFile, From: from, To: to})
	if err != nil {
		return nil, err
	}
	if died {
		return nil, fmt.Errorf("%w: worker child died during an untraced write: %s", ErrInfra, msg)
	}
	if rs.Err != "" || len(rs.Writes) != to-from {
		return nil, fmt.Errorf("%w: untraced write failed: %s", ErrInfra, rs.Err)
	}
	return rs.Writes, nil
}

// RunTraced runs write-outs [from,to) under strace; inject is "" or e.g. "openat:signal=SIGKILL:when=12"
func (e Env) RunTraced(root, histFile string, hist []WriteOut, from, to int, inject, tag string) (*TraceRun, error) {
	dir := filepath.Dir(root)
	tr := filepath.Join(dir, "trace-"+tag+".txt")
	prog := filepath.Join(dir, "prog-"+tag+".txt")
	os.Remove(tr)
	pf, err := os.Create(prog)
	if err != nil {
		return nil, err
	}
	defer pf.Close()
	args := []string{"-o", tr, "-s", "16", "-e", traceSet}
	if inject != "" {
		args = append(args, "-e", "inject="+inject)
	}
	args = append(args, e.Bin, "child-write", root, histFile, strconv.Itoa(from), strconv.Itoa(to))
	_, se, code, err := runCmd(90*time.Second, []*os.File{pf}, "strace", args...)
	if err != nil {
		return nil, err
	}
	calls, killed, err := ParseTrace(tr)
	if err != nil {
		return nil, fmt.Errorf("%w: %v (strace exit %d, stderr %s)", ErrInfra, err, code, se)
	}
	if len(calls) == 0 {
		return nil, fmt.Errorf("%w: empty strace log (exit %d, stderr %s)", ErrInfra, code, se)
	}
	var ids []int
	for j := from; j < to; j++ {
		ids = append(ids, hist[j].ID)
	}
	ops, err := Normalise(calls, root, ids)
	if err != nil {
		return nil, err
	}
	if !killed && code != 0 {
		return nil, fmt.Errorf("%w: traced writer child exit %d: %s", ErrInfra, code, se)
	}
	return &TraceRun{Ops: ops, Killed: killed, Results: parseProgress(prog), ExitCode: code}, nil
}

// RunReader runs the real reader in a worker child with a watchdog
func (e Env) RunReader(root string, tfirst, tlast int64) (*ReadResult, error) {
	rs, died, msg, err := e.call(ServeReq{Op: "read", Root: root, TFirst: tfirst, TLast: tlast})
	if err != nil {
		// one more attempt after an infrastructure failure
		rs, died, msg, err = e.call(ServeReq{Op: "read", Root: root, TFirst: tfirst, TLast: tlast})
		if err != nil {
			return nil, err
		}
	}
	if died {
		return &ReadResult{Status: "panic", Msg: "reader process died: " + msg}, nil
	}
	if rs.Read == nil {
		return nil, fmt.Errorf("%w: reader answer without a result: %s", ErrInfra, rs.Err)
	}
	return rs.Read, nil
}

// ---------------------------------------------------------------- directory tree digest

// DayDigest describes one day directory
type DayDigest struct {
	Iface int
	Day   int64
	Suf   *Totals
	Meta  int // size of .blockmeta, -1 = absent
	NTmp  int
	Cols  [8]int // -1 = absent
}

// Tree is the digest of a DB tree
type Tree struct {
	Ups  []Ref
	Days []DayDigest
}

// Digest walks the DB tree
func Digest(root string) (*Tree, error) {
	t := &Tree{}
	ifs, err := os.ReadDir(root)
	if err != nil {
		return nil, err
	}
	for _, ie := range ifs {
		id, ok := IfaceID(ie.Name())
		if !ok || !ie.IsDir() {
			return nil, fmt.Errorf("unexpected entry %s in the DB root", ie.Name())
		}
		t.Ups = append(t.Ups, Ref{Kind: "up-i", Iface: id})
		ys, _ := os.ReadDir(filepath.Join(root, ie.Name()))
		for _, ye := range ys {
			y, err := strconv.Atoi(ye.Name())
			if err != nil {
				return nil, fmt.Errorf("unexpected entry %s", ye.Name())
			}
			t.Ups = append(t.Ups, Ref{Kind: "up-y", Iface: id, Year: y})
			ms, _ := os.ReadDir(filepath.Join(root, ie.Name(), ye.Name()))
			for _, me := range ms {
				mo, err := strconv.Atoi(me.Name())
				if err != nil {
					return nil, fmt.Errorf("unexpected entry %s", me.Name())
				}
				t.Ups = append(t.Ups, Ref{Kind: "up-m", Iface: id, Year: y, Month: mo})
				ds, _ := os.ReadDir(filepath.Join(root, ie.Name(), ye.Name(), me.Name()))
				for _, de := range ds {
					ts, suffix, err := gpfile.ExtractTimestampMetadataSuffix(de.Name())
					if err != nil {
						return nil, fmt.Errorf("unexpected entry %s", de.Name())
					}
					suf, ok := ParseSuffix(suffix)
					if !ok {
						return nil, fmt.Errorf("undecodable suffix %s", de.Name())
					}
					dd := DayDigest{Iface: id, Day: ts, Suf: suf, Meta: -1}
					for i := range dd.Cols {
						dd.Cols[i] = -1
					}
					fs, _ := os.ReadDir(filepath.Join(root, ie.Name(), ye.Name(), me.Name(), de.Name()))
					for _, fe := range fs {
						fi, err := fe.Info()
						if err != nil {
							return nil, err
						}
						ref, ok := PathRef(root, filepath.Join(root, ie.Name(), ye.Name(), me.Name(), de.Name(), fe.Name()), 0)
						if !ok {
							dd.NTmp++ // foreign entry: counts like a leftover file, the model will disagree
							continue
						}
						switch ref.Kind {
						case "meta":
							dd.Meta = int(fi.Size())
						case "tmp":
							dd.NTmp++
						case "col":
							dd.Cols[ref.Col] = int(fi.Size())
						}
					}
					t.Days = append(t.Days, dd)
				}
			}
		}
	}
	sort.SliceStable(t.Days, func(i, j int) bool {
		if t.Days[i].Iface != t.Days[j].Iface {
			return t.Days[i].Iface < t.Days[j].Iface
		}
		return t.Days[i].Day < t.Days[j].Day
	})
	return t, nil
}
