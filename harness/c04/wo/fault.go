package wo

import (
	"fmt"
	"os"
	"os/exec"
	"path/filepath"
	"strings"

	"verifharness/vhlib"
)

// Fault is one write-out during which DB-related call number K (0-based) returns Errno
type Fault struct {
	W     WriteOut `json:"w"`
	K     int      `json:"k"`
	Errno string   `json:"errno"`
}

// FaultInput is the JSON input of one C05 case
type FaultInput struct {
	Hist   []WriteOut `json:"hist"` // committed fault-free before
	Faults []Fault    `json:"faults"`
	Heal   WriteOut   `json:"heal"`
}

// CalibrateOne traces write-out number j of hist fault-free on a COPY of the tree
func (e Env) CalibrateOne(dir, root, hf string, hist []WriteOut, j int) ([]Op, error) {
	cp := filepath.Join(dir, "calcopy")
	os.RemoveAll(cp)
	if out, err := exec.Command("cp", "-a", root, cp).CombinedOutput(); err != nil {
		return nil, fmt.Errorf("%w: cp: %v %s", ErrInfra, err, out)
	}
	defer os.RemoveAll(cp)
	// the copy must live under the same path name length? no: paths are normalised relative to the root
	tr, err := e.RunTraced(cp, hf, hist, j, j+1, "", fmt.Sprintf("cal%d", j))
	if err != nil {
		return nil, err
	}
	if tr.Killed || len(tr.Results) != 1 {
		return nil, fmt.Errorf("%w: calibration of the faulted write-out incomplete", ErrInfra)
	}
	return tr.Ops, nil
}

// RunFaultCase runs one C05 case against the real code
func (e Env) RunFaultCase(in FaultInput) (*vhlib.Case, error) {
	all := append([]WriteOut{}, in.Hist...)
	for _, f := range in.Faults {
		all = append(all, f.W)
	}
	all = append(all, in.Heal)
	// column lengths: every write-out measured on its own scratch DB (they do not depend on the state)
	mdir, _, err := freshDir(e, "fm-"+hashOf(in))
	if err != nil {
		return nil, err
	}
	mw := make([]MW, len(all))
	for i, w := range all {
		one, err := Measure(filepath.Join(mdir, "measure"), []WriteOut{w})
		if err != nil {
			return nil, err
		}
		mw[i] = one[0]
	}
	os.RemoveAll(mdir)
	type out struct {
		oks     []bool
		kinds   []string
		tree    *Tree
		rd, rd2 ObsRead
		healOK  bool
		effK    []int
	}
	res, err := retry(4, func() (*out, error) {
		dir, root, err := freshDir(e, "f-"+hashOf(in))
		if err != nil {
			return nil, err
		}
		defer os.RemoveAll(dir)
		hf := filepath.Join(dir, "hist.json")
		if err := WriteHist(hf, all); err != nil {
			return nil, err
		}
		o := &out{}
		if len(in.Hist) > 0 {
			wr, err := e.RunPlain(root, hf, 0, len(in.Hist), "pre")
			if err != nil {
				return nil, err
			}
			for _, r := range wr {
				if !r.OK {
					return nil, fmt.Errorf("fault-free prefix write-out failed: %s", r.Err)
				}
			}
		}
		for i, f := range in.Faults {
			j := len(in.Hist) + i
			cal, err := e.CalibrateOne(dir, root, hf, all, j)
			if err != nil {
				return nil, err
			}
			k := f.K % len(cal) // positions beyond this write-out's own call list wrap around
			o.effK = append(o.effK, k)
			f.K = k
			inject := fmt.Sprintf("%s:error=%s:when=%d", cal[f.K].Name, f.Errno, cal[f.K].Ord)
			tr, err := e.RunTraced(root, hf, all, j, j+1, inject, fmt.Sprintf("fault%d", i))
			if err != nil {
				return nil, err
			}
			if tr.Killed || len(tr.Results) != 1 || len(tr.Ops) <= f.K {
				return nil, fmt.Errorf("%w: faulted run incomplete", ErrInfra)
			}
			for q := 0; q < f.K; q++ {
				if !sameShape(tr.Ops[q], cal[q]) {
					return nil, fmt.Errorf("%w: faulted run diverges from its calibration at DB call %d", ErrInfra, q)
				}
			}
			if !sameShape(tr.Ops[f.K], cal[f.K]) || tr.Ops[f.K].OK || tr.Ops[f.K].Errn != f.Errno {
				return nil, fmt.Errorf("%w: the injected error did not land on DB call %d", ErrInfra, f.K)
			}
			o.oks = append(o.oks, tr.Results[0].OK)
			o.kinds = append(o.kinds, cal[f.K].Kind+"-"+cal[f.K].A.Kind)
		}
		if o.tree, err = Digest(root); err != nil {
			return nil, err
		}
		lo, hi := window(all)
		rr, err := e.RunReader(root, lo, hi)
		if err != nil {
			return nil, err
		}
		o.rd = Abstract(rr, all)
		wr, err := e.RunPlain(root, hf, len(all)-1, len(all), "heal")
		if err != nil {
			return nil, err
		}
		o.healOK = wr[0].OK
		rr2, err := e.RunReader(root, lo, hi)
		if err != nil {
			return nil, err
		}
		o.rd2 = Abstract(rr2, all)
		return o, nil
	})
	if err != nil {
		return nil, err
	}
	fl := make([]string, len(in.Faults))
	for i, f := range in.Faults {
		_ = f
		fl[i] = fmt.Sprintf("(%s, %d, %s)", CoqW(mw[len(in.Hist)+i]), res.effK[i], vhlib.CoqBool(res.oks[i]))
	}
	ups, days := CoqTree(res.tree)
	c := &vhlib.Case{}
	c.Coq = fmt.Sprintf("(CFault %s %s %s %s %s %s %s %s)", CoqWs(mw[:len(in.Hist)]), cList(fl), ups, days, CoqRead(res.rd),
		CoqW(mw[len(all)-1]), vhlib.CoqBool(res.healOK), CoqRead(res.rd2))
	c.Observed = map[string]any{"writer_ok": res.oks, "read": res.rd, "heal_ok": res.healOK, "read2": res.rd2, "fault_at": res.kinds}
	c.Tags = []string{fmt.Sprintf("faults-%d", len(in.Faults))}
	for i, f := range in.Faults {
		c.Tags = append(c.Tags, "fault-at-"+res.kinds[i], strings.ToLower(f.Errno))
	}
	c.Nontrivial = true
	return c, nil
}
