package wo

import (
	"fmt"
	"os"
	"path/filepath"
	"strconv"
	"strings"
	"time"

	"github.com/els0r/goProbe/v4/pkg/capture/capturetypes"
	"github.com/els0r/goProbe/v4/pkg/goDB"
	"github.com/els0r/goProbe/v4/pkg/goDB/encoder/encoders"
	"github.com/els0r/goProbe/v4/pkg/goDB/storage/gpfile"
)

func cN(v uint64) string { return strconv.FormatUint(v, 10) + "%N" }
func cZ(v int64) string {
	if v < 0 {
		return "(" + strconv.FormatInt(v, 10) + ")%Z"
	}
	return strconv.FormatInt(v, 10) + "%Z"
}
func cList(xs []string) string { return "[" + strings.Join(xs, "; ") + "]" }

// CoqTotals prints a `totals`
func CoqTotals(t Totals) string {
	return fmt.Sprintf("(Build_totals %s %s %s %s %s %s %s)", cN(t.V4), cN(t.V6), cN(t.Drops), cN(t.BR), cN(t.BS), cN(t.PR), cN(t.PS))
}
func coqOTot(t *Totals) string {
	if t == nil {
		return "None"
	}
	return "(Some " + CoqTotals(*t) + ")"
}
func coqDPath(r Ref) string {
	return fmt.Sprintf("(Build_dpath (%s, %s) %s)", cN(uint64(r.Iface)), cZ(r.Day), coqOTot(r.Suf))
}
func coqFref(r Ref) string {
	switch r.Kind {
	case "month":
		return fmt.Sprintf("(RMonth %s %s %s)", cN(uint64(r.Iface)), cZ(int64(r.Year)), cZ(int64(r.Month)))
	case "meta":
		return "(RMeta " + coqDPath(r) + ")"
	case "col":
		return fmt.Sprintf("(RCol %s %d)", coqDPath(r), r.Col)
	case "tmp":
		return fmt.Sprintf("(RTmp %s %d)", coqDPath(r), r.Tmp)
	}
	return "(RMonth 0%N 0%Z 0%Z)"
}
func coqUp(r Ref) string {
	switch r.Kind {
	case "up-i":
		return fmt.Sprintf("(UI %s)", cN(uint64(r.Iface)))
	case "up-y":
		return fmt.Sprintf("(UY %s %s)", cN(uint64(r.Iface)), cZ(int64(r.Year)))
	default:
		return fmt.Sprintf("(UM %s %s %s)", cN(uint64(r.Iface)), cZ(int64(r.Year)), cZ(int64(r.Month)))
	}
}

// CoqOp prints an `fsop`
func CoqOp(o Op) string {
	switch o.Kind {
	case "mkdir":
		if o.A.Kind == "day" {
			return "(OMkdir (DDay " + coqDPath(o.A) + "))"
		}
		return "(OMkdir (DUp " + coqUp(o.A) + "))"
	case "openr":
		return "(OOpenR " + coqFref(o.A) + ")"
	case "openw":
		return "(OOpenW " + coqFref(o.A) + ")"
	case "openx":
		return "(OOpenX " + coqFref(o.A) + ")"
	case "seek":
		return fmt.Sprintf("(OSeek %s %d)", coqFref(o.A), o.Off)
	case "write":
		return fmt.Sprintf("(OWrite %s %d (WJunk %d))", coqFref(o.A), o.Off, o.Len)
	case "close":
		return "(OClose " + coqFref(o.A) + ")"
	case "chmod":
		return "(OChmod " + coqFref(o.A) + ")"
	case "rename":
		return "(ORename " + coqFref(o.A) + " " + coqFref(o.B) + ")"
	case "renamedir":
		return "(ORenameDir " + coqDPath(o.A) + " " + coqDPath(o.B) + ")"
	case "unlink":
		return "(OUnlink " + coqFref(o.A) + ")"
	case "rmdir":
		return "(ORmdir " + coqFref(o.A) + ")"
	case "other":
		return "(ORmdir (RMonth 0%N 0%Z 0%Z))" // a call outside the model's alphabet: never equal to a model operation
	}
	return "(OClose (RMonth 0%N 0%Z 0%Z))"
}

// MW is a write-out with the measured column lengths
type MW struct {
	WriteOut
	Lens [8]int
	Renc [8]bool // stored uncompressed because the compressed form was larger (block re-encoded)
	Raw  [8]int  // uncompressed lengths
}

// Compressed tells whether at least one column of the write-out is stored compressed (Len < RawLen, not re-encoded):
// only then the writer relies on the file position set when the column file was opened
func (w MW) Compressed() bool {
	for c := 0; c < 8; c++ {
		if w.Lens[c] > 0 && w.Lens[c] < w.Raw[c] && !w.Renc[c] {
			return true
		}
	}
	return false
}

// CoqW prints a `writeout`
func CoqW(w MW) string {
	day := gpfile.DirTimestamp(w.TS)
	t := time.Unix(day, 0).UTC()
	lens := make([]string, 8)
	for i, l := range w.Lens {
		lens[i] = strconv.Itoa(l)
	}
	id, _ := IfaceID(w.Iface)
	renc := make([]string, 8)
	for i, b := range w.Renc {
		renc[i] = "false"
		if b {
			renc[i] = "true"
		}
	}
	return fmt.Sprintf("(Build_writeout %d %s %s %s %s %s %s %s %s)", w.ID, cN(uint64(id)), cZ(int64(t.Year())), cZ(int64(t.Month())),
		cZ(day), cZ(w.TS), cList(lens), cList(renc), CoqTotals(w.Tot()))
}

// CoqWs prints a list of write-outs
func CoqWs(ws []MW) string {
	xs := make([]string, len(ws))
	for i, w := range ws {
		xs[i] = CoqW(w)
	}
	return cList(xs)
}

// CoqTree prints the two digest arguments (ups, days)
func CoqTree(t *Tree) (string, string) {
	ups := make([]string, len(t.Ups))
	for i, u := range t.Ups {
		ups[i] = coqUp(u)
	}
	days := make([]string, len(t.Days))
	for i, d := range t.Days {
		cols := make([]string, 8)
		for c, n := range d.Cols {
			if n < 0 {
				cols[c] = "None"
			} else {
				cols[c] = fmt.Sprintf("(Some %d)", n)
			}
		}
		meta := "None"
		if d.Meta >= 0 {
			meta = fmt.Sprintf("(Some %d)", d.Meta)
		}
		days[i] = fmt.Sprintf("(Build_daydigest (%s, %s) %s %s %d %s)", cN(uint64(d.Iface)), cZ(d.Day), coqOTot(d.Suf), meta, d.NTmp, cList(cols))
	}
	return cList(ups), cList(days)
}

// ObsRead is the reader result in abstract form
type ObsRead struct {
	Status  string       `json:"status"`
	Msg     string       `json:"msg,omitempty"`
	View    [][3]int64   `json:"view"` // iface, block ts, write-out id (999 = rows differ from every write-out)
	Listing []ObsListing `json:"listing"`
}
type ObsListing struct {
	Iface int    `json:"iface"`
	Tot   Totals `json:"tot"`
}

// Abstract maps the real reader's rows back to write-out ids
func Abstract(r *ReadResult, all []WriteOut) ObsRead {
	o := ObsRead{Status: r.Status, Msg: r.Msg}
	for _, b := range r.Blocks {
		id := int64(999)
		for _, w := range all {
			if w.Iface == b.Iface && w.TS == b.TS {
				exp := w.Flows()
				SortFlows(exp)
				if flowsEq(exp, b.Rows) {
					id = int64(w.ID)
				}
			}
		}
		ifid, _ := IfaceID(b.Iface)
		o.View = append(o.View, [3]int64{int64(ifid), b.TS, id})
	}
	for _, l := range r.Listing {
		ifid, _ := IfaceID(l.Iface)
		o.Listing = append(o.Listing, ObsListing{Iface: ifid, Tot: l.Tot})
	}
	return o
}

func flowsEq(a, b []Flow) bool {
	if len(a) != len(b) {
		return false
	}
	for i := range a {
		if a[i] != b[i] {
			return false
		}
	}
	return true
}

// CoqRead prints an `obs_read`
func CoqRead(o ObsRead) string {
	switch o.Status {
	case "ok":
		vs := make([]string, len(o.View))
		for i, v := range o.View {
			vs[i] = fmt.Sprintf("(%s, %s, %d)", cN(uint64(v[0])), cZ(v[1]), v[2])
		}
		ls := make([]string, len(o.Listing))
		for i, l := range o.Listing {
			ls[i] = fmt.Sprintf("(%s, %s)", cN(uint64(l.Iface)), CoqTotals(l.Tot))
		}
		return "(Ok (" + cList(vs) + ", " + cList(ls) + "))"
	case "panic":
		return "Panic"
	}
	return "Err"
}

// Measure runs the history in-process (untraced) on a scratch DB and reads the stored block lengths back
func Measure(scratch string, hist []WriteOut) ([]MW, error) {
	os.RemoveAll(scratch)
	if err := os.MkdirAll(scratch, 0o755); err != nil {
		return nil, err
	}
	defer os.RemoveAll(scratch)
	out := make([]MW, len(hist))
	for j, w := range hist {
		out[j].WriteOut = w
		dw := goDB.NewDBWriter(scratch, w.Iface, encoders.EncoderTypeLZ4)
		if err := dw.Write(BuildMap(w), capturetypes.CaptureStats{Dropped: w.Drops}, w.TS); err != nil {
			return nil, fmt.Errorf("measuring write-out %d: %w", j, err)
		}
		d := gpfile.NewDirReader(filepath.Join(scratch, w.Iface), w.TS, "")
		if err := d.Open(); err != nil {
			return nil, fmt.Errorf("measuring write-out %d: %w", j, err)
		}
		for c := 0; c < 8; c++ {
			bl := d.BlockMetadata[c].BlockList
			found := false
			for _, b := range bl {
				if b.Timestamp == w.TS {
					out[j].Lens[c] = int(b.Len)
					out[j].Raw[c] = int(b.RawLen)
					// the writer is configured with LZ4: a non-empty block stored with the null encoder was re-encoded
					out[j].Renc[c] = b.Len > 0 && b.EncoderType == encoders.EncoderTypeNull
					found = true
				}
			}
			if !found {
				return nil, fmt.Errorf("measuring write-out %d: block not found", j)
			}
		}
		d.Close()
	}
	return out, nil
}
