package wo

import (
	"crypto/sha1"
	"encoding/hex"
	"encoding/json"
	"errors"
	"fmt"
	"os"
	"path/filepath"
	"strings"
	"sync"

	"verifharness/vhlib"
)

// Input is the JSON input of one C04 case
type Input struct {
	Kind  string     `json:"kind"` // trace | crash
	Hist  []WriteOut `json:"hist"`
	K     int        `json:"k"`    // crash: killed before DB-related call number k (0-based) of the history
	Part  int        `json:"part"` // 0 = none; 1..3: the last completed write is cut to part/4 of its bytes
	Hist2 []WriteOut `json:"hist2,omitempty"`
	// Post: judge only the state after the further write-outs Hist2 (kill point between the two renames)
	Post bool `json:"post,omitempty"`
}

func hashOf(v any) string {
	b, _ := json.Marshal(v)
	h := sha1.Sum(b)
	return hex.EncodeToString(h[:8])
}

// Calib is the calibration run of a history: its normalised fault-free trace
type Calib struct {
	Ops  []Op
	Read ObsRead
	MW   []MW
}

var (
	calMu    sync.Mutex
	calCache = map[string]*calEntry{}
)

type calEntry struct {
	once sync.Once
	c    *Calib
	err  error
}

func window(hs ...[]WriteOut) (int64, int64) {
	var lo, hi int64 = 1 << 62, 0
	for _, h := range hs {
		for _, w := range h {
			if w.TS < lo {
				lo = w.TS
			}
			if w.TS > hi {
				hi = w.TS
			}
		}
	}
	if hi == 0 {
		return 1, 2
	}
	return lo - 200000, hi + 200000
}

func freshDir(e Env, name string) (dir, root string, err error) {
	dir = filepath.Join(e.Work, "c04", name)
	os.RemoveAll(dir)
	root = filepath.Join(dir, "db")
	err = os.MkdirAll(root, 0o755)
	return
}

func retry[T any](n int, f func() (T, error)) (T, error) {
	var last error
	var zero T
	for i := 0; i < n; i++ {
		v, err := f()
		if err == nil {
			return v, nil
		}
		last = err
		if !errors.Is(err, ErrInfra) {
			return zero, err
		}
	}
	return zero, last
}

// Calibrate runs hist fault-free under strace (cached per history)
func (e Env) Calibrate(hist []WriteOut) (*Calib, error) {
	key := hashOf(hist)
	calMu.Lock()
	ent := calCache[key]
	if ent == nil {
		ent = &calEntry{}
		calCache[key] = ent
	}
	calMu.Unlock()
	ent.once.Do(func() {
		ent.c, ent.err = retry(3, func() (*Calib, error) {
			dir, root, err := freshDir(e, "cal-"+key)
			if err != nil {
				return nil, err
			}
			defer os.RemoveAll(dir)
			hf := filepath.Join(dir, "hist.json")
			if err := WriteHist(hf, hist); err != nil {
				return nil, err
			}
			tr, err := e.RunTraced(root, hf, hist, 0, len(hist), "", "cal")
			if err != nil {
				return nil, err
			}
			if tr.Killed || len(tr.Results) != len(hist) {
				return nil, fmt.Errorf("%w: calibration run incomplete", ErrInfra)
			}
			lo, hi := window(hist)
			rr, err := e.RunReader(root, lo, hi)
			if err != nil {
				return nil, err
			}
			mw, err := Measure(filepath.Join(dir, "measure"), hist)
			if err != nil {
				return nil, err
			}
			return &Calib{Ops: tr.Ops, Read: Abstract(rr, hist), MW: mw}, nil
		})
	})
	return ent.c, ent.err
}

func sameShape(a, b Op) bool {
	return a.Kind == b.Kind && a.A.Kind == b.A.Kind && a.A.Iface == b.A.Iface && a.A.Day == b.A.Day && a.A.Col == b.A.Col && a.Name == b.Name && a.Ord == b.Ord
}

// StaleSuffix tells whether a kill before op k lands between the metadata rename and a directory rename
// of a directory that already carries a suffix
func StaleSuffix(ops []Op, k int) bool {
	return k < len(ops) && ops[k].Kind == "renamedir" && ops[k].A.Suf != nil
}

// RunCase runs one C04 case against the real code
func (e Env) RunCase(in Input) (*vhlib.Case, error) {
	cal, err := e.Calibrate(in.Hist)
	if err != nil {
		return nil, err
	}
	c := &vhlib.Case{}
	all := append(append([]WriteOut{}, in.Hist...), in.Hist2...)
	switch in.Kind {
	case "trace":
		obs := make([]string, len(cal.Ops))
		for i, o := range cal.Ops {
			obs[i] = "(" + CoqOp(o) + ", " + vhlib.CoqBool(o.OK) + ")"
		}
		c.Coq = fmt.Sprintf("(CTrace %s %s %s)", CoqWs(cal.MW), cList(obs), CoqRead(cal.Read))
		tr := make([]string, len(cal.Ops))
		for i, o := range cal.Ops {
			tr[i] = o.String()
		}
		c.Observed = map[string]any{"nops": len(cal.Ops), "read": cal.Read, "trace": tr}
		c.Tags = []string{"trace", fmt.Sprintf("writeouts-%d", len(in.Hist))}
		c.Nontrivial = len(cal.Ops) > 0
		return c, nil
	case "crash":
	default:
		return nil, fmt.Errorf("unknown case kind %q", in.Kind)
	}
	type crashOut struct {
		tree       *Tree
		done       int
		rd, rd2    ObsRead
		ok2        []bool
		killedKind string
		partN      int
	}
	mwAll := cal.MW
	if len(in.Hist2) > 0 {
		dir, _, err := freshDir(e, "m-"+hashOf(in))
		if err != nil {
			return nil, err
		}
		mwAll, err = Measure(filepath.Join(dir, "measure"), all)
		os.RemoveAll(dir)
		if err != nil {
			return nil, err
		}
	}
	out, err := retry(4, func() (*crashOut, error) {
		dir, root, err := freshDir(e, "k-"+hashOf(in))
		if err != nil {
			return nil, err
		}
		defer os.RemoveAll(dir)
		hf := filepath.Join(dir, "hist.json")
		if err := WriteHist(hf, all); err != nil {
			return nil, err
		}
		res := &crashOut{partN: -1}
		inject := ""
		if in.K < len(cal.Ops) {
			inject = fmt.Sprintf("%s:signal=SIGKILL:when=%d", cal.Ops[in.K].Name, cal.Ops[in.K].Ord)
			res.killedKind = cal.Ops[in.K].Kind
		}
		tr, err := e.RunTraced(root, hf, all, 0, len(in.Hist), inject, "crash")
		if err != nil {
			return nil, err
		}
		// the run must have been cut exactly where intended: verify against its own trace
		if inject != "" {
			if !tr.Killed || len(tr.Ops) != in.K+1 {
				return nil, fmt.Errorf("%w: kill did not land at DB call %d (trace has %d, killed=%v)", ErrInfra, in.K, len(tr.Ops), tr.Killed)
			}
		} else if tr.Killed || len(tr.Ops) != len(cal.Ops) {
			return nil, fmt.Errorf("%w: uninjected run differs from the calibration", ErrInfra)
		}
		for i := range tr.Ops {
			if !sameShape(tr.Ops[i], cal.Ops[i]) {
				return nil, fmt.Errorf("%w: injected run diverges from the calibration at DB call %d", ErrInfra, i)
			}
		}
		res.done = len(tr.Results)
		if in.Part > 0 && in.K > 0 && in.K <= len(cal.Ops) && cal.Ops[in.K-1].Kind == "write" {
			w := cal.Ops[in.K-1]
			n := w.Len * in.Part / 4
			p := RealPath(root, w.A, dir)
			if p == "" {
				return nil, fmt.Errorf("%w: cannot locate the file of the last write", ErrInfra)
			}
			fi, err := os.Stat(p)
			if err != nil {
				return nil, fmt.Errorf("%w: %v", ErrInfra, err)
			}
			if int(fi.Size()) != w.Off+w.Len {
				return nil, fmt.Errorf("%w: file size %d after the last write, expected %d", ErrInfra, fi.Size(), w.Off+w.Len)
			}
			if err := os.Truncate(p, int64(w.Off+n)); err != nil {
				return nil, err
			}
			res.partN = n
		}
		if res.tree, err = Digest(root); err != nil {
			return nil, err
		}
		lo, hi := window(in.Hist, in.Hist2)
		rr, err := e.RunReader(root, lo, hi)
		if err != nil {
			return nil, err
		}
		res.rd = Abstract(rr, all)
		res.rd2 = res.rd
		if len(in.Hist2) > 0 {
			wr, err := e.RunPlain(root, hf, len(in.Hist), len(all), "rec")
			if err != nil {
				return nil, err
			}
			for _, r := range wr {
				res.ok2 = append(res.ok2, r.OK)
			}
			rr2, err := e.RunReader(root, lo, hi)
			if err != nil {
				return nil, err
			}
			res.rd2 = Abstract(rr2, all)
		}
		return res, nil
	})
	if err != nil {
		return nil, err
	}
	ups, days := CoqTree(out.tree)
	part := "None"
	if out.partN >= 0 {
		part = fmt.Sprintf("(Some %d)", out.partN)
	}
	oks := make([]string, len(out.ok2))
	for i, b := range out.ok2 {
		oks[i] = vhlib.CoqBool(b)
	}
	ctor := "CCrash"
	if in.Post {
		ctor = "CCrashPost"
	}
	c.Coq = fmt.Sprintf("("+ctor+" %s %d %s %s %s %d %s %s %s %s)", CoqWs(mwAll[:len(in.Hist)]), in.K, part, ups, days, out.done,
		CoqRead(out.rd), CoqWs(mwAll[len(in.Hist):]), cList(oks), CoqRead(out.rd2))
	c.Observed = map[string]any{"done": out.done, "read": out.rd, "ok2": out.ok2, "read2": out.rd2, "killed_call": out.killedKind}
	c.Tags = []string{"crash", "at-" + out.killedKind}
	if in.K >= len(cal.Ops) {
		c.Tags = []string{"crash", "no-crash"}
	}
	if StaleSuffix(cal.Ops, in.K) && !in.Post {
		c.Tags = append(c.Tags, "stale-suffix") // the state before the next write-out: the known finding
	}
	if in.Post {
		c.Tags = append(c.Tags, "post-recovery", "between-renames-recovered")
	}
	if out.partN >= 0 {
		c.Tags = append(c.Tags, "partial-write")
	}
	if len(in.Hist2) > 0 {
		c.Tags = append(c.Tags, "recovery")
		for _, w := range mwAll[len(in.Hist):] {
			if w.Compressed() {
				c.Tags = append(c.Tags, "recovery-compressed-column")
				break
			}
		}
	}
	for _, w := range mwAll[:len(in.Hist)] {
		if w.Compressed() {
			c.Tags = append(c.Tags, "compressed-column")
			break
		}
	}
	c.Nontrivial = in.K > 0
	return c, nil
}

// RecoveryFor builds the write-outs that follow a kill before DB call k: the first one goes to the day directory
// that call k addresses (the interrupted write-out's day), with repetitive multi-flow data
func RecoveryFor(hist []WriteOut, op Op, bulk int) []WriteOut {
	last := hist[len(hist)-1]
	w0 := WriteOut{ID: len(hist), Iface: last.Iface, TS: last.TS + 300, NV4: 1, NV6: 1, Drops: 1, Bulk: bulk}
	var best int64 = -1
	for _, w := range hist {
		if id, _ := IfaceID(w.Iface); id == op.A.Iface && w.TS-w.TS%86400 == op.A.Day && w.TS > best {
			best = w.TS
		}
	}
	if best >= 0 && (best+150)-(best+150)%86400 == op.A.Day {
		w0.Iface, w0.TS = fmt.Sprintf("eth%d", op.A.Iface), best+150
	}
	return []WriteOut{w0, {ID: len(hist) + 1, Iface: last.Iface, TS: last.TS + 86400 + 600, NV4: 1, NV6: 0, Drops: 0}}
}

// RealPath finds the real path of an abstract file reference in a tree (the day directory by prefix)
func RealPath(root string, r Ref, _ string) string {
	pat := filepath.Join(root, fmt.Sprintf("eth%d", r.Iface), "*", "*", fmt.Sprintf("%d*", r.Day))
	ms, _ := filepath.Glob(pat)
	if len(ms) != 1 {
		return ""
	}
	switch r.Kind {
	case "col":
		cs, _ := filepath.Glob(filepath.Join(ms[0], "*.gpf"))
		for _, c := range cs {
			if ref, ok := PathRef(root, c, 0); ok && ref.Col == r.Col {
				return c
			}
		}
	case "tmp":
		// the temporary file: whatever is in the day directory besides .blockmeta and the column files
		es, _ := os.ReadDir(ms[0])
		var cs []string
		for _, e := range es {
			if e.Name() != ".blockmeta" && !strings.HasSuffix(e.Name(), ".gpf") {
				cs = append(cs, filepath.Join(ms[0], e.Name()))
			}
		}
		if len(cs) == 1 {
			return cs[0]
		}
	}
	return ""
}

// ---------------------------------------------------------------- histories

// GenHist generates a history of write-outs with increasing timestamps
func GenHist(r *vhlib.Rand, n int, startID int, startTS int64) []WriteOut {
	var h []WriteOut
	ts := startTS
	iface := r.Intn(3)
	for j := 0; j < n; j++ {
		if j > 0 {
			switch {
			case r.Chance(8):
				ts += 31 * 86400
			case r.Chance(25):
				ts += 86400
			default:
				ts += 300
			}
			if r.Chance(35) {
				iface = r.Intn(3)
			}
		}
		w := WriteOut{ID: startID + j, Iface: fmt.Sprintf("eth%d", iface), TS: ts, NV4: r.Intn(4), NV6: r.Intn(3), Drops: uint64(r.Intn(3))}
		if w.NV4+w.NV6 == 0 && r.Chance(60) {
			w.NV4 = 1
		}
		h = append(h, w)
	}
	return h
}

// BulkHists are fixed histories whose write-outs carry repetitive multi-flow data (columns stored compressed)
func BulkHists() [][]WriteOut {
	return [][]WriteOut{
		{
			{ID: 0, Iface: "eth0", TS: 1702000200, NV4: 1, NV6: 1, Drops: 0, Bulk: 48},
			{ID: 1, Iface: "eth0", TS: 1702000500, NV4: 0, NV6: 0, Drops: 2, Bulk: 40},
		},
	}
}

// BackfillHists write a LATER day first and then start the first write-out of an EARLIER day of the same month
// (DBWriter accepts any order across days): a writer killed there leaves a day directory without metadata
// that is NOT the last entry of the month listing
func BackfillHists() [][]WriteOut {
	return [][]WriteOut{
		{
			{ID: 0, Iface: "eth0", TS: 1702080300, NV4: 2, NV6: 0, Drops: 1},
			{ID: 1, Iface: "eth0", TS: 1701993900, NV4: 1, NV6: 1, Drops: 0},
		},
		{
			{ID: 0, Iface: "eth1", TS: 1702080300, NV4: 1, NV6: 0, Drops: 0},
			{ID: 1, Iface: "eth0", TS: 1702080300, NV4: 1, NV6: 1, Drops: 2},
			{ID: 2, Iface: "eth1", TS: 1701993900, NV4: 2, NV6: 0, Drops: 0},
		},
	}
}

// Fixed histories: the boundary cases
func FixedHists() [][]WriteOut {
	return [][]WriteOut{
		{ // one interface, one day, three write-outs, the last one without flows and with unchanged totals
			{ID: 0, Iface: "eth0", TS: 1700000100, NV4: 2, NV6: 1, Drops: 3},
			{ID: 1, Iface: "eth0", TS: 1700000400, NV4: 1, NV6: 0, Drops: 0},
			{ID: 2, Iface: "eth0", TS: 1700000700, NV4: 0, NV6: 0, Drops: 0},
		},
		{ // two interfaces, a day change and a month change
			{ID: 0, Iface: "eth1", TS: 1701302100, NV4: 1, NV6: 0, Drops: 0},
			{ID: 1, Iface: "eth0", TS: 1701302100, NV4: 0, NV6: 2, Drops: 1},
			{ID: 2, Iface: "eth1", TS: 1701388800, NV4: 2, NV6: 1, Drops: 0},
		},
	}
}
