// Package wo is the shared part of the C04 / C05 harnesses: generated write-out histories,
// the child processes that run the REAL writer (DBWriter.Write) and the REAL reader (query engine +
// ReadMetadata), the strace runner and the trace normaliser.
package wo

import (
	"bufio"
	"context"
	"encoding/json"
	"fmt"
	"os"
	"runtime"
	"sort"
	"time"

	"github.com/els0r/goProbe/v4/pkg/capture/capturetypes"
	"github.com/els0r/goProbe/v4/pkg/goDB"
	"github.com/els0r/goProbe/v4/pkg/goDB/encoder/encoders"
	"github.com/els0r/goProbe/v4/pkg/goDB/engine"
	"github.com/els0r/goProbe/v4/pkg/goDB/info"
	"github.com/els0r/goProbe/v4/pkg/goDB/storage/gpfile"
	"github.com/els0r/goProbe/v4/pkg/query"
	"github.com/els0r/goProbe/v4/pkg/results"
	"github.com/els0r/goProbe/v4/pkg/types"
	"github.com/els0r/goProbe/v4/pkg/types/hashmap"
)

func init() {
	// every file-system call of the child must happen on the main thread: strace's `when=` counters
	// are per thread and the children are traced without -f
	if len(os.Args) > 1 && (os.Args[1] == "child-write" || os.Args[1] == "child-read") {
		runtime.LockOSThread()
	}
}

// WriteOut is one call of DBWriter.Write; the flows are a deterministic function of (ID, NV4, NV6)
type WriteOut struct {
	ID    int    `json:"id"`
	Iface string `json:"iface"`
	TS    int64  `json:"ts"`
	NV4   int    `json:"nv4"`
	NV6   int    `json:"nv6"`
	Drops uint64 `json:"drops"`
	// Bulk adds that many regular IPv4 flows (same addresses and protocol, consecutive ports, equal counters):
	// realistic repetitive data whose columns are stored COMPRESSED (no re-encode with the null encoder)
	Bulk int `json:"bulk,omitempty"`
}

// Flow is one generated flow (also the row form the reader child reports)
type Flow struct {
	V4    bool   `json:"v4"`
	SIP   string `json:"sip"`
	DIP   string `json:"dip"`
	Dport uint16 `json:"dport"`
	Proto uint8  `json:"proto"`
	BR    uint64 `json:"br"`
	BS    uint64 `json:"bs"`
	PR    uint64 `json:"pr"`
	PS    uint64 `json:"ps"`
}

// Totals are the seven numbers of a directory-name suffix
type Totals struct {
	V4, V6, Drops, BR, BS, PR, PS uint64
}

func (t Totals) Add(u Totals) Totals {
	return Totals{t.V4 + u.V4, t.V6 + u.V6, t.Drops + u.Drops, t.BR + u.BR, t.BS + u.BS, t.PR + u.PR, t.PS + u.PS}
}
func (t Totals) IsZero() bool { return t == Totals{} }

// Flows generates the flows of a write-out
func (w WriteOut) Flows() []Flow {
	var fl []Flow
	id := uint64(w.ID)
	for i := 0; i < w.NV4; i++ {
		u := uint64(i)
		fl = append(fl, Flow{V4: true,
			SIP:   fmt.Sprintf("10.%d.%d.%d", id%200, u%250, 1+(id*7+u)%250),
			DIP:   fmt.Sprintf("192.168.%d.%d", id%250, 1+u%250),
			Dport: uint16(1 + (id*131+u*17)%60000), Proto: []uint8{6, 17, 1}[(id+u)%3],
			BR: 100 + id*1000 + u, BS: 7 + id + u*3, PR: 1 + u, PS: 2 + id%5})
	}
	for i := 0; i < w.Bulk; i++ {
		fl = append(fl, Flow{V4: true,
			SIP: fmt.Sprintf("10.9.%d.1", id%200), DIP: "192.168.77.1",
			Dport: uint16(1000 + i), Proto: 6, BR: 1500, BS: 60, PR: 2, PS: 1})
	}
	for i := 0; i < w.NV6; i++ {
		u := uint64(i)
		fl = append(fl, Flow{V4: false,
			SIP:   fmt.Sprintf("2001:db8:%x::%x", 1+id, 1+u),
			DIP:   fmt.Sprintf("2001:db8:ffff::%x", 1+u+id*3),
			Dport: uint16(1 + (id*37+u*101)%60000), Proto: []uint8{6, 17, 58}[(id+u)%3],
			BR: 5000 + id*10 + u, BS: 1 + u, PR: 3 + id, PS: 1 + u*2})
	}
	return fl
}

// Tot is the contribution of the write-out to the day totals
func (w WriteOut) Tot() Totals {
	t := Totals{V4: uint64(w.NV4 + w.Bulk), V6: uint64(w.NV6), Drops: w.Drops}
	for _, f := range w.Flows() {
		t.BR += f.BR
		t.BS += f.BS
		t.PR += f.PR
		t.PS += f.PS
	}
	return t
}

// ChildWriteResult is printed (one JSON line per write-out) by the writer child
type ChildWriteResult struct {
	J   int    `json:"j"`
	Err string `json:"err"`
	OK  bool   `json:"ok"`
}

// BlockView is what the reader child reports per (iface, block timestamp)
type BlockView struct {
	Iface string `json:"iface"`
	TS    int64  `json:"ts"`
	Rows  []Flow `json:"rows"`
}

// IfaceListing is the ReadMetadata result of one interface
type IfaceListing struct {
	Iface string `json:"iface"`
	Tot   Totals `json:"tot"`
	First int64  `json:"first"`
	Last  int64  `json:"last"`
}

// ReadResult is the reader child's output
type ReadResult struct {
	Status  string         `json:"status"` // ok | err | panic
	Msg     string         `json:"msg,omitempty"`
	Blocks  []BlockView    `json:"blocks"`
	Listing []IfaceListing `json:"listing"`
	Ifaces  []string       `json:"ifaces"`
}

// MaybeChild runs a child mode if requested on the command line (and exits)
func MaybeChild() {
	if len(os.Args) < 2 {
		return
	}
	switch os.Args[1] {
	case "child-write":
		childWrite()
		os.Exit(0)
	case "child-read":
		childRead()
		os.Exit(0)
	case "child-serve":
		childServe()
		os.Exit(0)
	}
}

// child-write <dbroot> <history.json> <from> <to> : runs write-outs [from,to) with the real DBWriter
func childWrite() {
	if len(os.Args) < 6 {
		fmt.Fprintln(os.Stderr, "usage: child-write dbroot history.json from to")
		os.Exit(4)
	}
	root := os.Args[2]
	raw, err := os.ReadFile(os.Args[3])
	if err != nil {
		fmt.Fprintln(os.Stderr, err)
		os.Exit(4)
	}
	var hist []WriteOut
	if err := json.Unmarshal(raw, &hist); err != nil {
		fmt.Fprintln(os.Stderr, err)
		os.Exit(4)
	}
	var from, to int
	fmt.Sscan(os.Args[4], &from)
	fmt.Sscan(os.Args[5], &to)
	// all flow maps are built before the first DB call, so that nothing but the writer runs in between
	maps := make([]*hashmap.AggFlowMap, len(hist))
	for j := from; j < to && j < len(hist); j++ {
		maps[j] = BuildMap(hist[j])
	}
	out := os.NewFile(3, "progress") // progress pipe (fd 3) so that fd 1/2 stay free for diagnostics
	if out == nil {
		out = os.Stdout
	}
	for j := from; j < to && j < len(hist); j++ {
		w := hist[j]
		dw := goDB.NewDBWriter(root, w.Iface, encoders.EncoderTypeLZ4)
		res := ChildWriteResult{J: j}
		func() {
			defer func() {
				if r := recover(); r != nil {
					res.Err = fmt.Sprint("panic: ", r)
				}
			}()
			if err := dw.Write(maps[j], capturetypes.CaptureStats{Dropped: w.Drops}, w.TS); err != nil {
				res.Err = err.Error()
			} else {
				res.OK = true
			}
		}()
		b, _ := json.Marshal(res)
		out.Write(append(b, '\n'))
	}
}

// BuildMap builds the flow map of a write-out
func BuildMap(w WriteOut) *hashmap.AggFlowMap {
	m := hashmap.NewAggFlowMap()
	for _, f := range w.Flows() {
		sip, dip := mustIP(f.SIP), mustIP(f.DIP)
		dport := []byte{byte(f.Dport >> 8), byte(f.Dport)}
		m.SetOrUpdate(types.NewKey(sip, dip, dport, f.Proto), f.V4, f.BR, f.BS, f.PR, f.PS)
	}
	return m
}

func mustIP(s string) []byte {
	b, _, err := types.IPStringToBytes(s)
	if err != nil {
		panic(err)
	}
	return b
}

// child-read <dbroot> <tfirst> <tlast> : real query (time,sip,dip,dport,proto over all interfaces) + ReadMetadata
func childRead() {
	root := os.Args[2]
	var tfirst, tlast int64
	fmt.Sscan(os.Args[3], &tfirst)
	fmt.Sscan(os.Args[4], &tlast)
	res := ReadResult{Status: "ok"}
	done := make(chan struct{})
	go func() {
		// watchdog inside the child as well (the parent has its own)
		select {
		case <-done:
		case <-time.After(20 * time.Second):
			fmt.Fprintln(os.Stderr, "child-read: watchdog timeout")
			os.Exit(5)
		}
	}()
	func() {
		defer func() {
			if r := recover(); r != nil {
				res.Status, res.Msg = "panic", fmt.Sprint(r)
			}
		}()
		if err := doRead(root, tfirst, tlast, &res); err != nil {
			res.Status, res.Msg = "err", err.Error()
		}
	}()
	close(done)
	b, _ := json.Marshal(res)
	os.Stdout.Write(append(b, '\n'))
}

var tStart = time.Now()

func doRead(root string, tfirst, tlast int64, res *ReadResult) error {
	if os.Getenv("VH_TIMING") != "" {
		fmt.Fprintln(os.Stderr, "start", time.Since(tStart))
	}
	ifaces, err := info.GetInterfaces(root)
	if err != nil {
		return err
	}
	res.Ifaces = ifaces
	// listing: what `goquery list` does
	for _, iface := range ifaces {
		wm, err := goDB.NewDBWorkManager(goDB.NewMetadataQuery(), root, iface, 2)
		if err != nil {
			return err
		}
		im, err := wm.ReadMetadata(tfirst, tlast)
		if err != nil {
			return fmt.Errorf("listing %s: %w", iface, err)
		}
		res.Listing = append(res.Listing, IfaceListing{Iface: iface, First: im.First.Unix(), Last: im.Last.Unix(),
			Tot: Totals{V4: im.Traffic.NumV4Entries, V6: im.Traffic.NumV6Entries, Drops: im.Traffic.NumDrops,
				BR: im.Counts.BytesRcvd, BS: im.Counts.BytesSent, PR: im.Counts.PacketsRcvd, PS: im.Counts.PacketsSent}})
	}
	if os.Getenv("VH_TIMING") != "" {
		fmt.Fprintln(os.Stderr, "listing done", time.Since(tStart))
	}
	if len(ifaces) == 0 {
		return nil
	}
	// query over all interfaces with per-block resolution
	stmt := &query.Statement{
		Ifaces:        ifaces,
		QueryType:     "time,iface,sip,dip,dport,proto",
		LabelSelector: types.LabelSelector{Timestamp: true, Iface: true},
		First:         tfirst,
		Last:          tlast,
		NumResults:    1 << 30,
		MaxMemPct:     query.DefaultMaxMemPct,
		Format:        "json",
		SortBy:        results.SortTime,
		Direction:     types.DirectionBoth,
	}
	t0 := time.Now()
	r, err := engine.NewQueryRunner(root).RunStatement(context.Background(), stmt, nil)
	if os.Getenv("VH_TIMING") != "" {
		fmt.Fprintln(os.Stderr, "query took", time.Since(t0))
	}
	if err != nil {
		return fmt.Errorf("query: %w", err)
	}
	if r == nil {
		return fmt.Errorf("query: nil result")
	}
	by := map[string]*BlockView{}
	for _, row := range r.Rows {
		k := fmt.Sprintf("%s|%d", row.Labels.Iface, row.Labels.Timestamp.Unix())
		bv := by[k]
		if bv == nil {
			bv = &BlockView{Iface: row.Labels.Iface, TS: row.Labels.Timestamp.Unix()}
			by[k] = bv
		}
		bv.Rows = append(bv.Rows, Flow{V4: row.Attributes.SrcIP.Is4(), SIP: row.Attributes.SrcIP.String(), DIP: row.Attributes.DstIP.String(),
			Dport: row.Attributes.DstPort, Proto: row.Attributes.IPProto,
			BR: row.Counters.BytesRcvd, BS: row.Counters.BytesSent, PR: row.Counters.PacketsRcvd, PS: row.Counters.PacketsSent})
	}
	for _, bv := range by {
		SortFlows(bv.Rows)
		res.Blocks = append(res.Blocks, *bv)
	}
	sort.Slice(res.Blocks, func(i, j int) bool {
		if res.Blocks[i].Iface != res.Blocks[j].Iface {
			return res.Blocks[i].Iface < res.Blocks[j].Iface
		}
		return res.Blocks[i].TS < res.Blocks[j].TS
	})
	_ = gpfile.EpochDay
	return nil
}

// SortFlows orders flows canonically
func SortFlows(fl []Flow) {
	sort.Slice(fl, func(i, j int) bool {
		a, b := fl[i], fl[j]
		if a.SIP != b.SIP {
			return a.SIP < b.SIP
		}
		if a.DIP != b.DIP {
			return a.DIP < b.DIP
		}
		if a.Dport != b.Dport {
			return a.Dport < b.Dport
		}
		return a.Proto < b.Proto
	})
}

// ServeReq is one request to a persistent worker child (reader, and untraced writer for recovery runs)
type ServeReq struct {
	Op     string `json:"op"` // read | write
	Root   string `json:"root"`
	TFirst int64  `json:"tfirst"`
	TLast  int64  `json:"tlast"`
	Hist   string `json:"hist"`
	From   int    `json:"from"`
	To     int    `json:"to"`
}

// ServeResp is the answer
type ServeResp struct {
	Read   *ReadResult        `json:"read,omitempty"`
	Writes []ChildWriteResult `json:"writes,omitempty"`
	Err    string             `json:"err,omitempty"`
}

func childServe() {
	in := bufio.NewScanner(os.Stdin)
	in.Buffer(make([]byte, 1<<20), 1<<26)
	for in.Scan() {
		var rq ServeReq
		var rs ServeResp
		if err := json.Unmarshal(in.Bytes(), &rq); err != nil {
			rs.Err = err.Error()
		} else if rq.Op == "read" {
			res := ReadResult{Status: "ok"}
			func() {
				defer func() {
					if r := recover(); r != nil {
						res.Status, res.Msg = "panic", fmt.Sprint(r)
					}
				}()
				if err := doRead(rq.Root, rq.TFirst, rq.TLast, &res); err != nil {
					res.Status, res.Msg = "err", err.Error()
				}
			}()
			rs.Read = &res
		} else if rq.Op == "write" {
			raw, err := os.ReadFile(rq.Hist)
			var hist []WriteOut
			if err == nil {
				err = json.Unmarshal(raw, &hist)
			}
			if err != nil {
				rs.Err = err.Error()
			}
			for j := rq.From; err == nil && j < rq.To && j < len(hist); j++ {
				w := hist[j]
				res := ChildWriteResult{J: j}
				func() {
					defer func() {
						if r := recover(); r != nil {
							res.Err = fmt.Sprint("panic: ", r)
						}
					}()
					dw := goDB.NewDBWriter(rq.Root, w.Iface, encoders.EncoderTypeLZ4)
					if err := dw.Write(BuildMap(w), capturetypes.CaptureStats{Dropped: w.Drops}, w.TS); err != nil {
						res.Err = err.Error()
					} else {
						res.OK = true
					}
				}()
				rs.Writes = append(rs.Writes, res)
			}
		}
		b, _ := json.Marshal(rs)
		os.Stdout.Write(append(b, '\n'))
	}
}
