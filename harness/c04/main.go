// C04 harness: a crash during a write-out leaves the database consistent and queryable.
// The real writer (DBWriter.Write) runs in a child process under strace; the harness compares the
// normalised system-call trace with the model's operation list (CTrace) and, for every DB-related call,
// kills the child right before that call and runs the real reader on the resulting tree (CCrash).
package main

import (
	"encoding/json"
	"errors"
	"flag"
	"fmt"
	"os"
	"sync"

	"verifharness/c04/wo"
	"verifharness/vhlib"
)

var (
	env     wo.Env
	planMu  sync.Mutex
	plan    []wo.Input
	planKey string
	cache   sync.Map // input json -> *vhlib.Case or error
)

type cached struct {
	c   *vhlib.Case
	err error
}

// buildPlan enumerates the cases of a run: per history one trace case, then one crash case per DB-related
// call boundary (positions are taken from that history's own calibration trace)
func buildPlan(seed uint64, n int, tier string, search bool) []wo.Input {
	r := vhlib.NewRand(seed)
	hists := append(append(wo.FixedHists(), wo.BulkHists()...), wo.BackfillHists()...)
	nh := 6
	if tier == "thorough" {
		nh = 40
	}
	if search {
		nh += 3
	}
	for len(hists) < nh {
		hr := r.Fork()
		hists = append(hists, wo.GenHist(hr, nw(tier, hr), 0, 1700000100+int64(hr.Intn(40))*86400+int64(hr.Intn(200))*300))
	}
	// calibrations in parallel
	var wg sync.WaitGroup
	cals := make([]*wo.Calib, len(hists))
	errs := make([]error, len(hists))
	sem := make(chan struct{}, 8)
	for i := range hists {
		wg.Add(1)
		go func(i int) {
			defer wg.Done()
			sem <- struct{}{}
			defer func() { <-sem }()
			cals[i], errs[i] = env.Calibrate(hists[i])
		}(i)
	}
	wg.Wait()
	var p []wo.Input
	for i, h := range hists {
		if errs[i] != nil {
			fatal(errs[i])
		}
		p = append(p, wo.Input{Kind: "trace", Hist: h})
		hr := r.Fork()
		last := h[len(h)-1]
		for k := 0; k <= len(cals[i].Ops); k++ {
			in := wo.Input{Kind: "crash", Hist: h, K: k}
			if k%3 == i%3 || search {
				// recovery: a further write-out to the day of the last one and one to a new day
				// the first one carries repetitive multi-flow data: its columns are stored compressed, so that the
				// writer depends on the position at which it opened the column files (behind crash leftovers or not)
				in.Hist2 = []wo.WriteOut{
					{ID: len(h), Iface: last.Iface, TS: last.TS + 300, NV4: 1 + hr.Intn(2), NV6: hr.Intn(2), Drops: 1, Bulk: 40 + hr.Intn(10)},
					{ID: len(h) + 1, Iface: last.Iface, TS: last.TS + 86400 + 600, NV4: 1, NV6: 0, Drops: 0},
				}
			}
			if k < len(cals[i].Ops) && wo.StaleSuffix(cals[i].Ops, k) {
				// the kill point between the two renames: the state before the next write-out (known finding) ...
				in.Hist2 = nil
				p = append(p, in)
				// ... and, judged on its own, the state after a completed write-out to that very day
				p = append(p, wo.Input{Kind: "crash", Hist: h, K: k, Post: true, Hist2: wo.RecoveryFor(h, cals[i].Ops[k], 40+hr.Intn(10))})
				continue
			}
			p = append(p, in)
			if tier == "thorough" && k > 0 && cals[i].Ops[k-1].Kind == "write" && cals[i].Ops[k-1].Len >= 4 {
				for part := 1; part <= 3; part++ {
					p = append(p, wo.Input{Kind: "crash", Hist: h, K: k, Part: part})
				}
			}
		}
	}
	if len(p) > n {
		p = p[:n]
	}
	// the generated data must really exercise compressed column blocks
	probe, err := wo.Measure(env.Work+"/c04/probe", []wo.WriteOut{{ID: 0, Iface: "eth0", TS: 1702000200, NV4: 1, Bulk: 40}})
	if err != nil {
		fatal(err)
	}
	if !probe[0].Compressed() {
		fatal(fmt.Errorf("generator: the bulk write-out is not stored compressed (lens %v raw %v)", probe[0].Lens, probe[0].Raw))
	}
	nrec := 0
	for _, in := range p {
		if len(in.Hist2) > 0 {
			nrec++
		}
	}
	if len(p) > 20 && nrec*5 < len(p) {
		fatal(fmt.Errorf("generator: only %d of %d cases have a compressed recovery write-out", nrec, len(p)))
	}
	return p
}

func nw(tier string, r *vhlib.Rand) int {
	if tier == "thorough" {
		return 2 + r.Intn(4)
	}
	return 2
}

func fatal(err error) {
	if errors.Is(err, wo.ErrInfra) {
		fmt.Fprintln(os.Stderr, "HARNESS ERROR (infrastructure, not a property violation):", err)
	} else {
		fmt.Fprintln(os.Stderr, "HARNESS ERROR:", err)
	}
	os.Exit(3)
}

func getPlan(o vhlib.Opts) []wo.Input {
	planMu.Lock()
	defer planMu.Unlock()
	key := fmt.Sprint(o.Seed, o.N, o.Tier, o.Search)
	if plan == nil || planKey != key {
		plan, planKey = buildPlan(o.Seed, o.N, o.Tier, o.Search), key
		prefetch(plan)
	}
	return plan
}

// prefetch runs all cases with a worker pool; run() then only looks the results up
func prefetch(p []wo.Input) {
	var wg sync.WaitGroup
	sem := make(chan struct{}, 8)
	for _, in := range p {
		raw, _ := json.Marshal(in)
		wg.Add(1)
		go func(in wo.Input, key string) {
			defer wg.Done()
			sem <- struct{}{}
			defer func() { <-sem }()
			c, err := env.RunCase(in)
			cache.Store(key, cached{c, err})
		}(in, string(raw))
	}
	wg.Wait()
}

func gen(r *vhlib.Rand, i int, o vhlib.Opts) any {
	p := getPlan(o)
	if i >= len(p) {
		return nil
	}
	return p[i]
}

func run(raw json.RawMessage, o vhlib.Opts) (*vhlib.Case, error) {
	var in wo.Input
	if err := json.Unmarshal(raw, &in); err != nil {
		return nil, err
	}
	key, _ := json.Marshal(in)
	if v, ok := cache.Load(string(key)); ok {
		cv := v.(cached)
		return cv.c, cv.err
	}
	return env.RunCase(in)
}

func main() {
	wo.MaybeChild()
	exe, err := os.Executable()
	if err != nil {
		fatal(err)
	}
	env.Bin = exe
	// the work directory is needed before vhlib parses the flags
	fs := flag.NewFlagSet("pre", flag.ContinueOnError)
	fs.SetOutput(new(nullWriter))
	work := fs.String("work", ".", "")
	for _, f := range []string{"seed", "n", "tier", "out", "in"} {
		fs.String(f, "", "")
	}
	fs.Bool("search", false, "")
	if len(os.Args) > 2 {
		_ = fs.Parse(os.Args[2:])
	}
	env.Work = *work
	vhlib.Main(gen, run)
}

type nullWriter struct{}

func (nullWriter) Write(p []byte) (int, error) { return len(p), nil }
