// C12 correspondence harness: generated databases (1-2 interfaces, 1-4 day directories around month,
// year and leap-day boundaries, 0-6 blocks per day, per-block IPv4 / IPv6 flows and drops) are written
// with the real goDB.DBWriter; for a list of time ranges (on, between and outside block timestamps,
// on and next to day boundaries) the real DBWorkManager.ReadMetadata (what `goquery list` prints) and a
// real query (engine.NewQueryRunner(...).RunStatement) are run over the same interface and range.
package main

import (
	"context"
	"crypto/sha256"
	"encoding/hex"
	"encoding/json"
	"fmt"
	"os"
	"path/filepath"
	"sort"
	"strings"
	"sync"
	"time"

	"verifharness/vhlib"

	"github.com/els0r/goProbe/v4/pkg/capture/capturetypes"
	"github.com/els0r/goProbe/v4/pkg/goDB"
	"github.com/els0r/goProbe/v4/pkg/goDB/encoder/encoders"
	"github.com/els0r/goProbe/v4/pkg/goDB/engine"
	"github.com/els0r/goProbe/v4/pkg/query"
	"github.com/els0r/goProbe/v4/pkg/results"
	"github.com/els0r/goProbe/v4/pkg/types"
	"github.com/els0r/goProbe/v4/pkg/types/hashmap"
)

const epochDay = int64(86400)
const queryWorkers = 4

// anchors: the first day of a generated interface
var anchors = []int64{
	1704844800, // 2024-01-10 mid month
	1706659200, // 2024-01-31 -> month boundary
	1703980800, // 2023-12-31 -> year boundary
	1709078400, // 2024-02-28 -> leap day, month boundary
	1703894400, // 2023-12-30
}

type blockIn struct {
	Off   int64  `json:"o"`           // seconds after the start of the day
	V4    int    `json:"a"`           // number of IPv4 flows
	V6    int    `json:"b"`           // number of IPv6 flows
	Drops uint64 `json:"d"`           // CaptureStats.Dropped
	Seed  int    `json:"s"`           // counter seed
	Big   bool   `json:"g,omitempty"` // first flow carries counters near 2^63 (uint64 wrap-around of sums)
}
type dayIn struct {
	Day    int64     `json:"t"` // timestamp of the day directory
	Blocks []blockIn `json:"b"`
}
type ifaceIn struct {
	Name string  `json:"n"`
	Days []dayIn `json:"d"`
}
type rangeIn struct {
	If    int    `json:"i"`
	First int64  `json:"f"`
	Last  int64  `json:"l"`
	Kind  string `json:"k"`
}
type input struct {
	Ifaces []ifaceIn `json:"ifaces"`
	Ranges []rangeIn `json:"ranges"`
}

// counters of flow k of a block
func flowCounters(b blockIn, k int) types.Counters {
	s := uint64(b.Seed)
	c := types.Counters{
		BytesRcvd:   (s*7+uint64(k)*13)%900 + 1,
		BytesSent:   (s*3 + uint64(k)*5) % 700,
		PacketsRcvd: (s+uint64(k))%50 + 1,
		PacketsSent: (s * uint64(k+1)) % 40,
	}
	if b.Big && k == 0 {
		c.BytesRcvd += 1 << 63
		c.PacketsSent += 1<<63 + 1<<62
	}
	return c
}

func flowMap(b blockIn) *hashmap.AggFlowMap {
	m := hashmap.NewAggFlowMap()
	for k := 0; k < b.V4; k++ {
		m.PrimaryMap.Set(types.NewV4KeyStatic([4]byte{10, 0, byte(b.Seed), byte(k)}, [4]byte{10, 0, 0, 2}, []byte{0, byte(80 + k)}, 6), flowCounters(b, k))
	}
	for k := 0; k < b.V6; k++ {
		var sip, dip [16]byte
		sip[0], sip[15], dip[0], dip[15] = 0x20, byte(b.Seed), 0xfe, byte(k)
		m.SecondaryMap.Set(types.NewV6KeyStatic(sip, dip, []byte{1, byte(k)}, 17), flowCounters(b, b.V4+k))
	}
	return m
}

// the seven figures of a block as they were handed to the writer
func blockFigures(b blockIn) [7]uint64 {
	var f [7]uint64
	f[0], f[1], f[2] = uint64(b.V4), uint64(b.V6), b.Drops
	for k := 0; k < b.V4+b.V6; k++ {
		c := flowCounters(b, k)
		f[3] += c.BytesRcvd
		f[4] += c.BytesSent
		f[5] += c.PacketsRcvd
		f[6] += c.PacketsSent
	}
	return f
}

// ------------------------------------------------------------------ generation

func mkBlock(r *vhlib.Rand, off int64, o vhlib.Opts) blockIn {
	b := blockIn{Off: off, V4: r.Intn(4), V6: r.Intn(3), Seed: 1 + r.Intn(250)}
	if r.Chance(70) {
		b.Drops = uint64(1 + r.Intn(60))
	}
	if r.Chance(8) {
		b.V4, b.V6 = 0, 0 // block without flows (an idle interface)
	}
	return b
}

func genIface(r *vhlib.Rand, name string, o vhlib.Opts) ifaceIn {
	ifc := ifaceIn{Name: name}
	day := vhlib.Pick(r, anchors)
	nd := 1 + r.Intn(4)
	big := r.Chance(6)
	for d := 0; d < nd; d++ {
		maxb := 6
		if o.Search || o.Tier == "thorough" {
			maxb = 9
		}
		nb := r.Intn(maxb + 1)
		offs := map[int64]bool{}
		for k := 0; k < nb; k++ {
			var off int64
			switch r.Intn(10) {
			case 0:
				off = 0 // midnight: first second of the day directory
			case 1:
				off = epochDay - 1 - int64(r.Intn(3))*100 // 86399, 86299, 86199: within 300 s of the next day
			case 2:
				off = epochDay - 300
			case 3:
				off = int64(r.Intn(int(epochDay))) // not aligned
			default:
				off = 300 * int64(1+r.Intn(287))
				if r.Chance(50) {
					off = 300 * int64(1+r.Intn(12)) // clustered, so ranges fall between neighbours
				}
			}
			offs[off] = true
		}
		var sorted []int64
		for off := range offs {
			sorted = append(sorted, off)
		}
		sort.Slice(sorted, func(i, j int) bool { return sorted[i] < sorted[j] })
		di := dayIn{Day: day}
		for _, off := range sorted {
			b := mkBlock(r, off, o)
			if big && r.Chance(50) && b.V4+b.V6 > 0 {
				b.Big = true
			}
			di.Blocks = append(di.Blocks, b)
		}
		if len(di.Blocks) > 0 { // a day without blocks has no directory
			ifc.Days = append(ifc.Days, di)
		}
		day += epochDay * int64(1+r.Intn(10)/7) // mostly consecutive days, sometimes a gap
		if r.Chance(5) {
			day += epochDay * 30
		}
	}
	return ifc
}

func allTS(ifc ifaceIn) []int64 {
	var ts []int64
	for _, d := range ifc.Days {
		for _, b := range d.Blocks {
			ts = append(ts, d.Day+b.Off)
		}
	}
	return ts
}

func genRanges(r *vhlib.Rand, in *input, o vhlib.Opts) {
	n := 6
	if o.Search {
		n = 12
	}
	for q := 0; q < n; q++ {
		i := r.Intn(len(in.Ifaces))
		ifc := in.Ifaces[i]
		ts := allTS(ifc)
		var days []int64
		for _, d := range ifc.Days {
			days = append(days, d.Day)
		}
		if len(ts) == 0 {
			in.Ranges = append(in.Ranges, rangeIn{If: i, First: anchors[0], Last: anchors[0] + 1000, Kind: "emptydb"})
			continue
		}
		// a bound: on a block, next to a block, between blocks, on / next to a day boundary, outside
		bound := func() (int64, string) {
			switch r.Intn(9) {
			case 0:
				return vhlib.Pick(r, ts), "on"
			case 1:
				return vhlib.Pick(r, ts) + 1, "on+1"
			case 2:
				return vhlib.Pick(r, ts) - 1, "on-1"
			case 3:
				return vhlib.Pick(r, ts) + int64(1+r.Intn(299)), "between"
			case 4:
				return vhlib.Pick(r, days) + epochDay*int64(r.Intn(2)), "day"
			case 5:
				return vhlib.Pick(r, days) + epochDay - int64(1+r.Intn(299)), "day-300"
			case 6:
				return vhlib.Pick(r, days) + epochDay*int64(r.Intn(2)) + int64(r.Intn(3)-1), "day+-1"
			case 7:
				return ts[0] - int64(1+r.Intn(200000)), "before"
			default:
				return ts[len(ts)-1] + int64(1+r.Intn(200000)), "after"
			}
		}
		f, fk := bound()
		l, lk := bound()
		if q == 0 {
			f, fk, l, lk = 0, "zero", ts[len(ts)-1]+100000, "after" // the whole database (goquery list without arguments)
		}
		if f > l && !r.Chance(6) { // first > last is refused by the command line; kept rarely for the model only
			f, l, fk, lk = l, f, lk, fk
		}
		in.Ranges = append(in.Ranges, rangeIn{If: i, First: f, Last: l, Kind: fk + "/" + lk})
	}
}

// hand-picked boundary cases
func fixedCase(i int) *input {
	d1, d2 := int64(1703980800), int64(1704067200) // 2023-12-31, 2024-01-01
	four := func(day int64) dayIn {
		di := dayIn{Day: day}
		for k := 1; k <= 4; k++ {
			di.Blocks = append(di.Blocks, blockIn{Off: 300 * int64(k), V4: 1 + k%2, V6: k % 3, Drops: uint64(7 * k), Seed: 10 + k})
		}
		return di
	}
	switch i {
	case 0: // DESIGN §8-12: 4 blocks x 7*i drops; sub-ranges; a range ending at +700 s
		in := &input{Ifaces: []ifaceIn{{Name: "eth0", Days: []dayIn{four(d1)}}}}
		for _, fl := range [][2]int64{{0, d1 + 100000}, {d1 + 300, d1 + 700}, {d1 + 600, d1 + 900}, {d1 + 601, d1 + 899}, {d1 + 1200, d1 + 1200},
			{d1 + 1201, d1 + 5000}, {d1 + 100, d1 + 200}, {d1 + 300, d1 + 300}, {d1 + 301, d1 + 1199}} {
			in.Ranges = append(in.Ranges, rangeIn{If: 0, First: fl[0], Last: fl[1], Kind: "fixed"})
		}
		return in
	case 1: // two days across the year boundary, block at midnight, range ending shortly before midnight
		day1 := four(d1)
		day1.Blocks = append(day1.Blocks, blockIn{Off: 86350, V4: 2, V6: 1, Drops: 3, Seed: 77})
		day2 := dayIn{Day: d2, Blocks: []blockIn{{Off: 0, V4: 1, Drops: 5, Seed: 5}, {Off: 300, V4: 2, V6: 2, Drops: 9, Seed: 6}}}
		in := &input{Ifaces: []ifaceIn{{Name: "eth0", Days: []dayIn{day1, day2}}}}
		for _, fl := range [][2]int64{{d1 + 301, d2 - 100}, {d1 + 301, d2 - 1}, {d1 + 301, d2}, {d2, d2}, {d2 - 50, d2 + 299}, {d2 + 1, d2 + 100000},
			{d1, d2 - 300}, {d1 + 86350, d2 + 300}, {d2 - 299, d2 - 1}, {d1 - 500, d1 + 299}} {
			in.Ranges = append(in.Ranges, rangeIn{If: 0, First: fl[0], Last: fl[1], Kind: "fixed"})
		}
		return in
	case 2: // two interfaces, the second one with other days; blocks without flows but with drops
		a := ifaceIn{Name: "eth0", Days: []dayIn{four(d1), {Day: d2 + epochDay, Blocks: []blockIn{{Off: 600, Drops: 4, Seed: 1}, {Off: 900, V6: 2, Drops: 0, Seed: 2}, {Off: 1200, Drops: 11, Seed: 3}}}}}
		b := ifaceIn{Name: "t4_1", Days: []dayIn{{Day: d2, Blocks: []blockIn{{Off: 300, V4: 3, Drops: 1, Seed: 9}, {Off: 86399, V4: 1, V6: 1, Drops: 2, Seed: 8}}}}}
		in := &input{Ifaces: []ifaceIn{a, b}}
		for _, fl := range [][3]int64{{0, 0, d2 + 10*epochDay}, {1, 0, d2 + 10*epochDay}, {0, d1 + 900, d2 + epochDay + 900}, {0, d2 + epochDay + 601, d2 + epochDay + 1199},
			{0, d2 + epochDay + 600, d2 + epochDay + 600}, {1, d2 + 301, d2 + 86398}, {1, d2 + 86399, d2 + 86399}, {1, d2 + 86400, d2 + 90000}, {0, d2, d2 + 1000}} {
			in.Ranges = append(in.Ranges, rangeIn{If: int(fl[0]), First: fl[1], Last: fl[2], Kind: "fixed"})
		}
		return in
	case 3: // a single block; counters near 2^63 wrap around in the sums
		in := &input{Ifaces: []ifaceIn{{Name: "eth0", Days: []dayIn{{Day: d1, Blocks: []blockIn{{Off: 300, V4: 1, Seed: 3, Drops: 1, Big: true}}},
			{Day: d2, Blocks: []blockIn{{Off: 300, V4: 2, Seed: 4, Drops: 2, Big: true}, {Off: 600, V6: 1, Seed: 5, Drops: 3, Big: true}}}}}}}
		for _, fl := range [][2]int64{{0, d2 + 100000}, {d1 + 300, d1 + 300}, {d1 + 299, d1 + 299}, {d1 + 301, d2 + 300}, {d2 + 300, d2 + 599}, {d2 + 301, d2 + 600}, {d1, d2}} {
			in.Ranges = append(in.Ranges, rangeIn{If: 0, First: fl[0], Last: fl[1], Kind: "fixed"})
		}
		return in
	}
	return nil
}

const nFixed = 4

func gen(r *vhlib.Rand, i int, o vhlib.Opts) any {
	if i < nFixed {
		return fixedCase(i)
	}
	in := &input{}
	names := []string{"eth0", "t4_1"}
	ni := 1
	if r.Chance(30) {
		ni = 2
	}
	for k := 0; k < ni; k++ {
		in.Ifaces = append(in.Ifaces, genIface(r, names[k], o))
	}
	genRanges(r, in, o)
	return in
}

// ------------------------------------------------------------------ running the real code

type rangeObs struct {
	Err   int       `json:"err"` // 0 ok, 1 error, 2 panic
	Msg   string    `json:"msg,omitempty"`
	Stats [7]uint64 `json:"stats"`
	First int64     `json:"first"`
	Last  int64     `json:"last"`
	HasQ  bool      `json:"hasq"`
	QMsg  string    `json:"qmsg,omitempty"`
	QTot  [4]uint64 `json:"qtot"`
	QTS   []int64   `json:"qts"`
}

func writeDB(root string, in *input) error {
	for _, ifc := range in.Ifaces {
		if err := os.MkdirAll(filepath.Join(root, ifc.Name), 0o755); err != nil {
			return err
		}
		w := goDB.NewDBWriter(root, ifc.Name, encoders.EncoderTypeLZ4)
		for _, d := range ifc.Days {
			for _, b := range d.Blocks {
				if err := w.Write(flowMap(b), capturetypes.CaptureStats{Dropped: b.Drops}, d.Day+b.Off); err != nil {
					return fmt.Errorf("write %s %d: %w", ifc.Name, d.Day+b.Off, err)
				}
			}
		}
	}
	return nil
}

func listing(root, iface string, first, last int64, ob *rangeObs) {
	p, msg := vhlib.Recover(func() {
		wm, err := goDB.NewDBWorkManager(goDB.NewMetadataQuery(), root, iface, 1)
		if err != nil {
			ob.Err, ob.Msg = 1, err.Error()
			return
		}
		im, err := wm.ReadMetadata(first, last)
		if err != nil {
			ob.Err, ob.Msg = 1, err.Error()
			return
		}
		ob.Stats = [7]uint64{im.Traffic.NumV4Entries, im.Traffic.NumV6Entries, im.Traffic.NumDrops,
			im.Counts.BytesRcvd, im.Counts.BytesSent, im.Counts.PacketsRcvd, im.Counts.PacketsSent}
		ob.First, ob.Last = im.First.Unix(), im.Last.Unix()
	})
	if p {
		ob.Err, ob.Msg = 2, msg
	}
}

func runQuery(root, iface string, first, last int64, ob *rangeObs) {
	stmt := &query.Statement{
		Ifaces:        []string{iface},
		QueryType:     "sip,dip,dport,proto",
		LabelSelector: types.LabelSelector{Timestamp: true, Iface: true},
		First:         first,
		Last:          last,
		NumResults:    1 << 30,
		MaxMemPct:     query.DefaultMaxMemPct,
		Format:        "json",
		SortBy:        results.SortTime,
		Direction:     types.DirectionBoth,
	}
	p, msg := vhlib.Recover(func() {
		res, err := engine.NewQueryRunner(root).RunStatement(context.Background(), stmt, nil)
		if err != nil {
			ob.QMsg = err.Error()
			return
		}
		if res == nil {
			ob.QMsg = "nil result"
			return
		}
		t := res.Summary.Totals
		ob.QTot = [4]uint64{t.BytesRcvd, t.BytesSent, t.PacketsRcvd, t.PacketsSent}
		seen := map[int64]bool{}
		for _, row := range res.Rows {
			if row.Labels.Iface != iface {
				ob.QMsg = "row of another interface: " + row.Labels.Iface
				return
			}
			seen[row.Labels.Timestamp.Unix()] = true
		}
		for ts := range seen {
			ob.QTS = append(ob.QTS, ts)
		}
		sort.Slice(ob.QTS, func(i, j int) bool { return ob.QTS[i] < ob.QTS[j] })
		ob.HasQ = true
	})
	if p {
		ob.QMsg = "panic: " + msg
	}
}

func z(v int64) string  { return fmt.Sprintf("%d", v) }
func u(v uint64) string { return fmt.Sprintf("%d", v) }

func run(raw json.RawMessage, o vhlib.Opts) (*vhlib.Case, error) {
	var in input
	if err := json.Unmarshal(raw, &in); err != nil {
		return nil, err
	}
	h := sha256.Sum256(raw)
	root := filepath.Join(o.Work, "c12db_"+hex.EncodeToString(h[:8]))
	_ = os.RemoveAll(root)
	if err := os.MkdirAll(root, 0o755); err != nil {
		return nil, err
	}
	defer os.RemoveAll(root)
	t0 := time.Now()
	if err := writeDB(root, &in); err != nil {
		return nil, err
	}
	tWrite += time.Since(t0)

	obs := make([]rangeObs, len(in.Ranges))
	tags := map[string]bool{}
	partial := false
	nblocks := 0
	for _, ifc := range in.Ifaces {
		nblocks += len(allTS(ifc))
		tags[fmt.Sprintf("days=%d", len(ifc.Days))] = true
		for _, d := range ifc.Days {
			for _, b := range d.Blocks {
				if b.Big {
					tags["wrap"] = true
				}
				if b.V4+b.V6 == 0 {
					tags["emptyblock"] = true
				}
			}
		}
	}
	tags[fmt.Sprintf("ifaces=%d", len(in.Ifaces))] = true
	// the queries are independent of each other: a few at a time (the engine spends most of its time in
	// forced garbage collections)
	t2 := time.Now()
	var wg sync.WaitGroup
	sem := make(chan struct{}, queryWorkers)
	for i, rg := range in.Ranges {
		if rg.First <= rg.Last {
			wg.Add(1)
			sem <- struct{}{}
			go func(i int, rg rangeIn) {
				defer wg.Done()
				runQuery(root, in.Ifaces[rg.If].Name, rg.First, rg.Last, &obs[i])
				<-sem
			}(i, rg)
		}
	}
	wg.Wait()
	tQuery += time.Since(t2)
	t1 := time.Now()
	for i, rg := range in.Ranges {
		ifc := in.Ifaces[rg.If]
		listing(root, ifc.Name, rg.First, rg.Last, &obs[i])
		if rg.First > rg.Last {
			tags["first>last"] = true
		}
		tags["range="+rg.Kind] = true
		// does the range cut a day (some of its blocks inside, some outside)?
		for _, d := range ifc.Days {
			inside, outside := 0, 0
			for _, b := range d.Blocks {
				if ts := d.Day + b.Off; rg.First <= ts && ts <= rg.Last {
					inside++
				} else {
					outside++
				}
			}
			if inside > 0 && outside > 0 {
				partial = true
			}
		}
		if rg.First <= rg.Last && rg.Last%epochDay >= epochDay-300 {
			tags["last-near-midnight"] = true
		}
	}
	tList += time.Since(t1)
	if partial {
		tags["cuts-a-day"] = true
	}

	// Coq term
	var sb strings.Builder
	sb.WriteString("mkCase [")
	for i, ifc := range in.Ifaces {
		if i > 0 {
			sb.WriteString("; ")
		}
		sb.WriteString("[")
		for j, d := range ifc.Days {
			if j > 0 {
				sb.WriteString("; ")
			}
			sb.WriteString("D " + z(d.Day) + " [")
			for k, b := range d.Blocks {
				if k > 0 {
					sb.WriteString("; ")
				}
				f := blockFigures(b)
				sb.WriteString("B " + z(d.Day+b.Off))
				for _, v := range f {
					sb.WriteString(" " + u(v))
				}
			}
			sb.WriteString("]")
		}
		sb.WriteString("]")
	}
	sb.WriteString("] [")
	for i, rg := range in.Ranges {
		if i > 0 {
			sb.WriteString("; ")
		}
		ob := obs[i]
		sb.WriteString(fmt.Sprintf("Q %d %s %s %d (mkS", rg.If, zp(rg.First), zp(rg.Last), ob.Err))
		for _, v := range ob.Stats {
			sb.WriteString(" " + u(v))
		}
		sb.WriteString(fmt.Sprintf(") %s %s %s", zp(ob.First), zp(ob.Last), vhlib.CoqBool(ob.HasQ)))
		for _, v := range ob.QTot {
			sb.WriteString(" " + u(v))
		}
		ts := make([]string, len(ob.QTS))
		for k, t := range ob.QTS {
			ts[k] = zp(t)
		}
		sb.WriteString(" " + vhlib.CoqList(ts))
	}
	sb.WriteString("]")

	var tl []string
	for t := range tags {
		tl = append(tl, t)
	}
	sort.Strings(tl)
	return &vhlib.Case{Observed: obs, Tags: tl, Nontrivial: partial && nblocks > 1, Coq: sb.String()}, nil
}

// zp prints a possibly negative Z literal
func zp(v int64) string {
	if v < 0 {
		return fmt.Sprintf("(%d)", v)
	}
	return fmt.Sprintf("%d", v)
}

var tWrite, tList, tQuery time.Duration

func main() {
	vhlib.Main(gen, run)
	if os.Getenv("VH_TIMING") != "" {
		fmt.Fprintln(os.Stderr, "write", tWrite, "listing", tList, "query", tQuery)
	}
}
