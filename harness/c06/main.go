// C06 harness: corrupted or foreign files never crash a reader and stay contained.
//
// A small valid database is written with the REAL DBWriter (3 days of one interface, a few blocks each), then
// one mutation is applied to a private copy (truncation / bit flips / garbage / hostile header fields of
// `.blockmeta`, truncated / flipped / swapped / deleted column files, renamed day directories incl. hostile
// suffixes) and the REAL query engine (engine.QueryRunner.RunStatement, `time,sip,dip,dport,proto`) runs on it in
// a CHILD process (exit status, 20 s watchdog, `ulimit -v`), so that a crash / OOM / hang is an observation.
// The resulting directory state (names, metadata bytes, column bytes), the results of the real decoders on the
// stored blocks (the codec oracle of the model) and the observed rows / statistics are handed to the Coq model.
package main

import (
	"bytes"
	"context"
	"crypto/sha256"
	"encoding/binary"
	"encoding/hex"
	"encoding/json"
	"errors"
	"flag"
	"fmt"
	"io"
	"os"
	"os/exec"
	"path/filepath"
	"sort"
	"strconv"
	"strings"
	"sync"
	"sync/atomic"
	"time"

	"github.com/els0r/goProbe/v4/pkg/capture/capturetypes"
	"github.com/els0r/goProbe/v4/pkg/goDB"
	"github.com/els0r/goProbe/v4/pkg/goDB/encoder"
	"github.com/els0r/goProbe/v4/pkg/goDB/encoder/encoders"
	"github.com/els0r/goProbe/v4/pkg/goDB/engine"
	"github.com/els0r/goProbe/v4/pkg/query"
	"github.com/els0r/goProbe/v4/pkg/results"
	"github.com/els0r/goProbe/v4/pkg/types"
	"github.com/els0r/goProbe/v4/pkg/types/hashmap"

	"verifharness/vhlib"
)

const (
	iface     = "eth0"
	day0      = int64(1700006400) // 2023-11-15 00:00:00 UTC
	epochDay  = int64(86400)
	monthLo   = int64(1698796800) // 2023-11-01
	monthHi   = int64(1701388800) // 2023-12-01
	memLimit  = 4 << 20           // KiB of virtual memory for the reader child (4 GiB)
	watchdog  = 20 * time.Second
	nWorkers  = 8
	rowWidth  = 8 + 16 + 16 + 1 + 2 + 32
	keyWidth  = 8 + 16 + 16 + 1 + 2
	maxDecRaw = 1 << 20
)

var colNames = [8]string{"sip", "dip", "proto", "dport", "bytes_rcvd", "bytes_sent", "pkts_rcvd", "pkts_sent"}

// ---------------------------------------------------------------- base databases

// Flow is one stored flow
type Flow struct {
	V4    bool
	SIP   []byte
	DIP   []byte
	Proto byte
	Dport uint16
	C     [4]uint64
}

type blockInfo struct {
	TS    int64
	Flows []Flow
}
type dayInfo struct {
	TS     int64
	Name   string // directory name as written
	Blocks []blockInfo
}
type baseInfo struct {
	ID   int
	Root string // DB root
	Days []dayInfo
}

func (b *baseInfo) monthDir() string { return filepath.Join(b.Root, iface, "2023", "11") }

// flows of block (base, day, blk): a deterministic function of the indices
func genFlows(base, d, b int) []Flow {
	id := uint64(base*31 + d*7 + b*3)
	n4, n6 := 1+int(id%3), int((id/3)%2)
	if base == 1 && d == 1 && b == 0 {
		n4, n6 = 18, 2 // compressible block: some columns are stored LZ4-encoded
	}
	if base == 2 && d == 0 {
		n4, n6 = 2, 2
	}
	if base == 3 {
		n4, n6 = 2+(d+b)%2, b%2
	}
	if base == 4 {
		n4, n6 = 1, 0
		if d == 1 {
			n4 = 16 // bulk (n4 > 10: constant dip / proto / dport / counters, see below)
		}
	}
	var fl []Flow
	for i := 0; i < n4; i++ {
		u := uint64(i)
		f := Flow{V4: true, SIP: []byte{10, byte(base), byte(d*16 + b), byte(1 + i)}, DIP: []byte{192, 168, byte(d), byte(1 + (id+u)%200)},
			Proto: []byte{6, 17, 1}[(id+u)%3], Dport: uint16(1 + (id*131+u*17)%60000),
			C: [4]uint64{100 + id*1000 + u, 7 + id + u*3, 1 + u, 2 + id%5}}
		if n4 > 10 {
			f.Proto, f.Dport, f.DIP = 6, 443, []byte{192, 168, 0, 1}
			f.C = [4]uint64{1000, 1000, 10, 10}
		}
		fl = append(fl, f)
	}
	for i := 0; i < n6; i++ {
		u := uint64(i)
		sip := make([]byte, 16)
		dip := make([]byte, 16)
		copy(sip, []byte{0x20, 0x01, 0x0d, 0xb8, byte(base), byte(d), byte(b)})
		sip[15] = byte(1 + i)
		copy(dip, []byte{0x20, 0x01, 0x0d, 0xb8, 0xff, 0xff})
		dip[15] = byte(1 + (id+u)%200)
		fl = append(fl, Flow{V4: false, SIP: sip, DIP: dip, Proto: []byte{6, 17, 58}[(id+u)%3], Dport: uint16(1 + (id*37+u*101)%60000),
			C: [4]uint64{5000 + id*10 + u, 1 + u, 3 + id, 1 + u*2}})
	}
	return fl
}

func blocksOfDay(base, d int) []int64 {
	// block offsets (multiples of 300 s) inside the day
	if base == 3 {
		return []int64{300, 600, 900, 1200} // several blocks behind a damaged one (sequential reads)
	}
	if base == 4 {
		if d == 1 {
			return []int64{300, 600, 900} // three blocks of bulk flows: the columns are really stored LZ4-compressed
		}
		return []int64{7200}
	}
	switch (base + d) % 3 {
	case 0:
		return []int64{300, 600}
	case 1:
		return []int64{0, 43200, 86100}
	default:
		return []int64{7200}
	}
}

var (
	baseMu sync.Mutex
	bases  = map[string]*baseInfo{}
)

const nBases = 5

func buildBase(id int, work string) (*baseInfo, error) {
	baseMu.Lock()
	defer baseMu.Unlock()
	key := fmt.Sprint(work, "|", id)
	if b, ok := bases[key]; ok {
		return b, nil
	}
	dir := filepath.Join(work, fmt.Sprintf("c06-base-%d-%d", id, os.Getpid()))
	os.RemoveAll(dir)
	root := filepath.Join(dir, "db")
	b := &baseInfo{ID: id, Root: root}
	for d := 0; d < 3; d++ {
		di := dayInfo{TS: day0 + int64(d)*epochDay}
		for bi, off := range blocksOfDay(id, d) {
			ts := di.TS + off
			fl := genFlows(id, d, bi)
			m := hashmap.NewAggFlowMap()
			for _, f := range fl {
				m.SetOrUpdate(types.NewKey(f.SIP, f.DIP, []byte{byte(f.Dport >> 8), byte(f.Dport)}, f.Proto), f.V4, f.C[0], f.C[1], f.C[2], f.C[3])
			}
			dw := goDB.NewDBWriter(root, iface, encoders.EncoderTypeLZ4)
			if err := dw.Write(m, capturetypes.CaptureStats{Dropped: uint64(d + bi)}, ts); err != nil {
				return nil, fmt.Errorf("writing base %d: %w", id, err)
			}
			di.Blocks = append(di.Blocks, blockInfo{TS: ts, Flows: fl})
		}
		b.Days = append(b.Days, di)
	}
	ents, err := os.ReadDir(b.monthDir())
	if err != nil {
		return nil, err
	}
	if len(ents) != 3 {
		return nil, fmt.Errorf("base %d: %d day directories", id, len(ents))
	}
	for i, e := range ents {
		if !strings.HasPrefix(e.Name(), strconv.FormatInt(b.Days[i].TS, 10)) {
			return nil, fmt.Errorf("base %d: unexpected day directory %s", id, e.Name())
		}
		b.Days[i].Name = e.Name()
	}
	bases[key] = b
	return b, nil
}

// ---------------------------------------------------------------- inputs (mutants)

// Op is one file-system mutation, paths relative to the month directory
type Op struct {
	K   string `json:"k"` // write | delete | rename | rmdir
	P   string `json:"p"`
	To  string `json:"to,omitempty"`
	Hex string `json:"h,omitempty"`
}

// Input is one mutant
type Input struct {
	Base    int    `json:"base"`
	TFirst  int64  `json:"tfirst"`
	TLast   int64  `json:"tlast"`
	Class   string `json:"class"`
	Day     int    `json:"day"`     // touched day index (-1 none)
	Block   int    `json:"block"`   // touched block index when the damage is confined to one block of column files (-1: whole day)
	Foreign bool   `json:"foreign"` // directory names outside the database's own naming: the query may fail as a whole
	Attrs   int    `json:"attrs"`   // selected attributes: bit 0 sip, 1 dip, 2 proto, 3 dport (time is always selected)
	Ops     []Op   `json:"ops"`
}

func readFile(b *baseInfo, d int, name string) []byte {
	x, err := os.ReadFile(filepath.Join(b.monthDir(), b.Days[d].Name, name))
	if err != nil {
		panic(err)
	}
	return x
}

func wr(b *baseInfo, d int, name string, data []byte) Op {
	return Op{K: "write", P: b.Days[d].Name + "/" + name, Hex: hex.EncodeToString(data)}
}

func put32(x []byte, pos int, v uint32) []byte {
	y := append([]byte(nil), x...)
	if pos+4 <= len(y) {
		binary.BigEndian.PutUint32(y[pos:], v)
	}
	return y
}
func put64(x []byte, pos int, v uint64) []byte {
	y := append([]byte(nil), x...)
	if pos+8 <= len(y) {
		binary.BigEndian.PutUint64(y[pos:], v)
	}
	return y
}

// layout of `.blockmeta` with n blocks
func descPos(n, col, blk int) int { return 72 + col*(8+9*n) + 8 + 9*blk }
func tsPos(n int) int             { return 72 + 8*(8+9*n) }
func trafPos(n, blk int) int      { return tsPos(n) + 8 + 16*blk }

// emptyMeta is the `.blockmeta` of a day without blocks (what Marshal writes for nBlocks = 0)
func emptyMeta() []byte {
	x := make([]byte, 144)
	binary.BigEndian.PutUint64(x[0:], 1)
	return x
}

// descriptor fields of block blk of column col
func descOf(meta []byte, n, col, blk int) (l, raw uint32, enc byte) {
	p := descPos(n, col, blk)
	return binary.BigEndian.Uint32(meta[p:]), binary.BigEndian.Uint32(meta[p+4:]), meta[p+8]
}

// smaller non-zero values of v: 1, v-1, v/2 and the single-bit flips that decrease it
func smaller(v uint32, bitflips bool) []uint32 {
	seen := map[uint32]bool{}
	var out []uint32
	add := func(x uint32) {
		if x > 0 && x < v && !seen[x] {
			seen[x] = true
			out = append(out, x)
		}
	}
	add(1)
	add(v - 1)
	add(v / 2)
	if bitflips {
		for b := uint(0); b < 32; b++ {
			add(v ^ (1 << b))
		}
	}
	return out
}

// blockLevelInputs: metadata damage confined to ONE block (RawLen / Len of one descriptor decreased or increased) in
// a day with further blocks of the same column behind it, which are then read sequentially. must = always part of
// the deterministic prefix; the rest goes to the seed-dependent part.
func blockLevelInputs(work string, must bool) []Input {
	var ins []Input
	b, err := buildBase(3, work)
	if err != nil {
		fatal(err)
	}
	tf, tl := day0-1000, day0+3*epochDay+1000
	for d := 0; d < 3; d++ {
		meta := readFile(b, d, ".blockmeta")
		n := len(b.Days[d].Blocks)
		for blk := 0; blk < n-1; blk++ {
			primary := blk == d%(n-1)
			for col := 0; col < 8; col++ {
				l, raw, _ := descOf(meta, n, col, blk)
				p := descPos(n, col, blk)
				if must && primary {
					for _, v := range smaller(raw, false) {
						ins = append(ins, Input{Base: 3, TFirst: tf, TLast: tl, Attrs: 15, Class: "meta-rawlen-decrease", Day: d, Block: blk,
							Ops: []Op{wr(b, d, ".blockmeta", put32(meta, p+4, v))}})
					}
					ins = append(ins, Input{Base: 3, TFirst: tf, TLast: tl, Attrs: 15, Class: "meta-rawlen-increase", Day: d, Block: blk,
						Ops: []Op{wr(b, d, ".blockmeta", put32(meta, p+4, raw+1))}})
					if l > 1 {
						ins = append(ins, Input{Base: 3, TFirst: tf, TLast: tl, Attrs: 15, Class: "meta-len-decrease", Day: d, Block: -1,
							Ops: []Op{wr(b, d, ".blockmeta", put32(meta, p, l-1))}})
					}
				}
				if !must {
					bf := smaller(raw, true)
					if primary {
						bf = bf[min(len(bf), len(smaller(raw, false))):] // the rest: bit flips
					}
					for _, v := range bf {
						ins = append(ins, Input{Base: 3, TFirst: tf, TLast: tl, Attrs: 15, Class: "meta-rawlen-decrease", Day: d, Block: blk,
							Ops: []Op{wr(b, d, ".blockmeta", put32(meta, p+4, v))}})
					}
					for _, v := range smaller(l, true) {
						ins = append(ins, Input{Base: 3, TFirst: tf, TLast: tl, Attrs: 15, Class: "meta-len-decrease", Day: d, Block: -1,
							Ops: []Op{wr(b, d, ".blockmeta", put32(meta, p, v))}})
					}
					ins = append(ins, Input{Base: 3, TFirst: tf, TLast: tl, Attrs: 15, Class: "meta-len-increase", Day: d, Block: -1,
						Ops: []Op{wr(b, d, ".blockmeta", put32(meta, p, l+1))}})
					// both fields decreased together (a consistent shorter null block)
					if l > 1 && raw == l {
						ins = append(ins, Input{Base: 3, TFirst: tf, TLast: tl, Attrs: 15, Class: "meta-len-rawlen-decrease", Day: d, Block: -1,
							Ops: []Op{wr(b, d, ".blockmeta", put32(put32(meta, p, l-1), p+4, l-1))}})
					}
				}
			}
		}
	}
	return ins
}

// headerInputs: single-bit flips of the fixed-size metadata fields and hostile block counters, on the multi-day base 3
// (containment: the other days return exactly their flows, the damaged day is skipped and counted).
// must: every single-bit flip of the 64-bit block counter of the middle day, its top three bits on the other days, and
// the counter values k + m*2^61, 2^61, 2^62, 2^63, 2^64-1 (a product with the per-block size 88 = 11*8 wraps for them).
// !must: every single-bit flip of every byte of version, totals, current offsets, initial timestamp and of the first and
// last per-block records (descriptors of every column, traffic entries).
func headerInputs(work string, must bool) []Input {
	var ins []Input
	b, err := buildBase(3, work)
	if err != nil {
		fatal(err)
	}
	tf, tl := day0-1000, day0+3*epochDay+1000
	flip := func(meta []byte, pos int, bit uint) []byte {
		y := append([]byte(nil), meta...)
		y[pos] ^= 1 << bit
		return y
	}
	for d := 0; d < 3; d++ {
		meta := readFile(b, d, ".blockmeta")
		n := len(b.Days[d].Blocks)
		add := func(class string, y []byte) {
			ins = append(ins, Input{Base: 3, TFirst: tf, TLast: tl, Attrs: 15, Class: class, Day: d, Block: -1, Ops: []Op{wr(b, d, ".blockmeta", y)}})
		}
		if must {
			for pos := 8; pos < 16; pos++ {
				for bit := uint(0); bit < 8; bit++ {
					if d == 1 || (pos == 8 && bit >= 5) {
						add("meta-nblocks-bitflip", flip(meta, pos, bit))
					}
				}
			}
			if d == 1 {
				k := uint64(n)
				for _, v := range []uint64{k + 1<<61, k + 2<<61, k + 3<<61, k + 7<<61, 1 << 61, 1 << 62, 1 << 63, 1<<64 - 1, (k - 1) + 1<<61, 1 + 1<<63} {
					add("meta-nblocks-wrap", put64(meta, 8, v))
				}
			}
			continue
		}
		var positions []int
		for pos := 0; pos < 72; pos++ {
			if pos < 8 || pos >= 16 {
				positions = append(positions, pos)
			}
		}
		for col := 0; col < 8; col++ {
			for i := 0; i < 8; i++ {
				positions = append(positions, 72+col*(8+9*n)+i) // current offset of the column
			}
			for _, blk := range []int{0, n - 1} {
				for i := 0; i < 9; i++ {
					positions = append(positions, descPos(n, col, blk)+i)
				}
			}
		}
		for i := 0; i < 8; i++ {
			positions = append(positions, tsPos(n)+i)
		}
		for _, blk := range []int{0, n - 1} {
			for i := 0; i < 16; i++ {
				positions = append(positions, trafPos(n, blk)+i)
			}
		}
		for _, pos := range positions {
			for bit := uint(0); bit < 8; bit++ {
				add("meta-header-bitflip", flip(meta, pos, bit))
			}
		}
	}
	return ins
}

// encInputs: encoder-type byte of the first / middle block of a column of the bulk day of base 4, where that block AND the
// next block of the column are stored LZ4-compressed (so the follow-up read needs a decoder from the same column handle).
// must: 0 (deprecated type), 0x43 (single bit flip of 3), 255; !must: every other value 0..255.
func encInputs(work string, must bool) []Input {
	var ins []Input
	b, err := buildBase(4, work)
	if err != nil {
		fatal(err)
	}
	tf, tl := day0-1000, day0+3*epochDay+1000
	d := 1
	meta := readFile(b, d, ".blockmeta")
	n := len(b.Days[d].Blocks)
	found := 0
	for blk := 0; blk < n-1; blk++ {
		for col := 0; col < 8; col++ {
			_, raw, enc := descOf(meta, n, col, blk)
			_, raw2, enc2 := descOf(meta, n, col, blk+1)
			if enc != byte(encoders.EncoderTypeLZ4) || enc2 != byte(encoders.EncoderTypeLZ4) || raw == 0 || raw2 == 0 {
				continue
			}
			found++
			for v := 0; v < 256; v++ {
				isMust := v == 0 || v == 0x43 || v == 255
				if v == int(enc) || isMust != must {
					continue
				}
				y := append([]byte(nil), meta...)
				y[descPos(n, col, blk)+8] = byte(v)
				ins = append(ins, Input{Base: 4, TFirst: tf, TLast: tl, Attrs: 15, Class: "meta-enc", Day: d, Block: blk,
					Ops: []Op{wr(b, d, ".blockmeta", y)}})
			}
		}
	}
	if found < 4 {
		fatal(fmt.Errorf("base 4: only %d (column, block) pairs are stored LZ4-compressed with an LZ4 successor", found))
	}
	return ins
}

// fixed boundary cases (the first cases of every run)
func fixedInputs(work string) []Input {
	var ins []Input
	full := func(base int) (int64, int64) { return day0 - 1000, day0 + 3*epochDay + 1000 }
	add := func(in Input) {
		if in.TFirst == 0 {
			in.TFirst, in.TLast = full(in.Base)
		}
		in.Attrs = 15
		ins = append(ins, in)
	}
	for base := 0; base < nBases; base++ {
		b, err := buildBase(base, work)
		if err != nil {
			fatal(err)
		}
		add(Input{Base: base, Class: "none", Day: -1, Block: -1})
		for d := 0; d < 3; d++ {
			meta := readFile(b, d, ".blockmeta")
			n := len(b.Days[d].Blocks)
			// day without blocks
			add(Input{Base: base, Class: "meta-empty-day", Day: d, Block: -1, Ops: []Op{wr(b, d, ".blockmeta", emptyMeta())}})
			// RawLen >= 2^31, RawLen = 2^31-1, Len = 0 with a codec, Len hostile
			for _, col := range []int{0, 4} {
				p := descPos(n, col, 0)
				add(Input{Base: base, Class: "meta-rawlen-2^31", Day: d, Block: -1, Ops: []Op{wr(b, d, ".blockmeta", put32(meta, p+4, 1<<31))}})
				add(Input{Base: base, Class: "meta-rawlen-ffffffff", Day: d, Block: -1, Ops: []Op{wr(b, d, ".blockmeta", put32(meta, p+4, 0xffffffff))}})
				add(Input{Base: base, Class: "meta-rawlen-1GiB", Day: d, Block: -1, Ops: []Op{wr(b, d, ".blockmeta", put32(meta, p+4, 1<<30))}})
				y := put32(meta, p, 0)
				y[p+8] = byte(encoders.EncoderTypeLZ4)
				add(Input{Base: base, Class: "meta-len0-lz4", Day: d, Block: -1, Ops: []Op{wr(b, d, ".blockmeta", y)}})
				y = put32(meta, p, 0)
				y[p+8] = byte(encoders.EncoderTypeZSTD)
				add(Input{Base: base, Class: "meta-len0-zstd", Day: d, Block: -1, Ops: []Op{wr(b, d, ".blockmeta", y)}})
				add(Input{Base: base, Class: "meta-len-2^31", Day: d, Block: -1, Ops: []Op{wr(b, d, ".blockmeta", put32(meta, p, 1<<31))}})
				y = put32(meta, p, 1<<31)
				y[p+8] = byte(encoders.EncoderTypeLZ4)
				add(Input{Base: base, Class: "meta-len-2^31-lz4", Day: d, Block: -1, Ops: []Op{wr(b, d, ".blockmeta", y)}})
			}
			// nBlocks huge / zero / one more / one less
			for _, nb := range []uint64{0, uint64(n) + 1, 1 << 40, 1<<64 - 1, uint64(n) - 1} {
				add(Input{Base: base, Class: "meta-nblocks", Day: d, Block: -1, Ops: []Op{wr(b, d, ".blockmeta", put64(meta, 8, nb))}})
			}
			// NumV4Entries above the number of entries with empty IP columns
			{
				y := append([]byte(nil), meta...)
				ne := len(b.Days[d].Blocks[0].Flows)
				v4 := 0
				for v4*12 != 16*ne && v4 < 100 { // (ne - v4)*16 + v4*4 = 0
					v4++
				}
				if v4 < 100 && v4 > ne {
					for _, col := range []int{0, 1} {
						p := descPos(n, col, 0)
						binary.BigEndian.PutUint32(y[p:], 0)
						binary.BigEndian.PutUint32(y[p+4:], 0)
					}
					binary.BigEndian.PutUint32(y[trafPos(n, 0):], uint32(v4))
					add(Input{Base: base, Class: "meta-v4-above-entries", Day: d, Block: -1, Ops: []Op{wr(b, d, ".blockmeta", y)}})
				}
				add(Input{Base: base, Class: "meta-v4-hostile", Day: d, Block: -1, Ops: []Op{wr(b, d, ".blockmeta", put32(meta, trafPos(n, 0), 0xffffffff))}})
				add(Input{Base: base, Class: "meta-v4-hostile", Day: d, Block: -1, Ops: []Op{wr(b, d, ".blockmeta", put32(meta, trafPos(n, 0), uint32(ne+1)))}})
			}
			// timestamps: far future / zero / another day's block
			add(Input{Base: base, Class: "meta-ts-future", Day: d, Block: -1, Ops: []Op{wr(b, d, ".blockmeta", put64(meta, tsPos(n), 1<<40))}})
			add(Input{Base: base, Class: "meta-ts-zero", Day: d, Block: -1, Ops: []Op{wr(b, d, ".blockmeta", put64(meta, tsPos(n), 0))}})
			add(Input{Base: base, Class: "meta-ts-negative", Day: d, Block: -1, Ops: []Op{wr(b, d, ".blockmeta", put64(meta, tsPos(n), 1<<63+5))}})
			od := (d + 1) % 3
			add(Input{Base: base, Class: "meta-ts-other-day", Day: d, Block: -1, Ops: []Op{wr(b, d, ".blockmeta", put64(meta, tsPos(n), uint64(b.Days[od].Blocks[0].TS)))}})
			// metadata deleted / empty / of another day
			add(Input{Base: base, Class: "meta-delete", Day: d, Block: -1, Ops: []Op{{K: "delete", P: b.Days[d].Name + "/.blockmeta"}}})
			add(Input{Base: base, Class: "meta-trunc", Day: d, Block: -1, Ops: []Op{wr(b, d, ".blockmeta", nil)}})
			add(Input{Base: base, Class: "meta-swap-days", Day: d, Block: -1, Ops: []Op{wr(b, d, ".blockmeta", readFile(b, od, ".blockmeta"))}})
			// renamed directories
			ts := strconv.FormatInt(b.Days[d].TS, 10)
			for _, nn := range []string{ts, ts + "_{-0-0-0-0-0-0", ts + "_0-0-0-0-0-0-~", ts + "_0-0-0-\xc3\xa9-0-0-0", ts + "_1-2-3", ts + "_zzzzzzzzzzzz-0-0-0-0-0-0",
				ts + "_a_b", strconv.FormatInt(b.Days[d].TS+1, 10) + "_x", ts + "_"} {
				add(Input{Base: base, Class: "dir-rename", Day: d, Block: -1, Ops: []Op{{K: "rename", P: b.Days[d].Name, To: nn}}})
			}
			for _, nn := range []string{"lost+found", "_", "99999999999999999999_x", "5_x"} {
				add(Input{Base: base, Class: "dir-rename-foreign", Day: d, Block: -1, Foreign: true, Ops: []Op{{K: "rename", P: b.Days[d].Name, To: nn}}})
			}
			// column files
			for col := 0; col < 8; col++ {
				add(Input{Base: base, Class: "col-delete", Day: d, Block: -1, Ops: []Op{{K: "delete", P: b.Days[d].Name + "/" + colNames[col] + ".gpf"}}})
				add(Input{Base: base, Class: "col-trunc", Day: d, Block: -1, Ops: []Op{wr(b, d, colNames[col]+".gpf", nil)}})
			}
			add(Input{Base: base, Class: "col-swap", Day: d, Block: -1, Ops: []Op{wr(b, d, "sip.gpf", readFile(b, d, "dip.gpf")), wr(b, d, "dip.gpf", readFile(b, d, "sip.gpf"))}})
			add(Input{Base: base, Class: "col-swap", Day: d, Block: -1, Ops: []Op{wr(b, d, "bytes_rcvd.gpf", readFile(b, d, "pkts_sent.gpf")), wr(b, d, "pkts_sent.gpf", readFile(b, d, "bytes_rcvd.gpf"))}})
			add(Input{Base: base, Class: "col-swap", Day: d, Block: -1, Ops: []Op{wr(b, d, "proto.gpf", readFile(b, d, "bytes_sent.gpf")), wr(b, d, "bytes_sent.gpf", readFile(b, d, "proto.gpf"))}})
		}
	}
	return ins
}

// truncation points: every field boundary of `.blockmeta` with n blocks
func metaBoundaries(n int) []int {
	var ps []int
	for p := 0; p <= 72; p += 8 {
		ps = append(ps, p)
	}
	for col := 0; col < 8; col++ {
		ps = append(ps, 72+col*(8+9*n))
		for blk := 0; blk < n; blk++ {
			p := descPos(n, col, blk)
			ps = append(ps, p, p+4, p+8)
		}
	}
	ps = append(ps, tsPos(n))
	for blk := 0; blk < n; blk++ {
		p := trafPos(n, blk)
		ps = append(ps, p, p+4, p+8, p+12)
	}
	return ps
}

func genRandom(r *vhlib.Rand, work string, o vhlib.Opts) Input {
	base := r.Intn(nBases)
	b, err := buildBase(base, work)
	if err != nil {
		fatal(err)
	}
	d := r.Intn(3)
	in := Input{Base: base, Day: d, Block: -1, TFirst: day0 - 1000, TLast: day0 + 3*epochDay + 1000, Attrs: 15}
	if r.Chance(25) {
		in.Attrs = r.Intn(16)
	}
	// query window: mostly everything, sometimes clipped inside the first / last day
	switch r.Intn(6) {
	case 0:
		in.TFirst = day0 + int64(r.Intn(3))*epochDay + int64(r.Intn(288))*300
	case 1:
		in.TLast = day0 + int64(r.Intn(3))*epochDay + int64(r.Intn(288))*300
	case 2:
		in.TFirst = day0 + int64(r.Intn(2))*epochDay + int64(r.Intn(288))*300
		in.TLast = in.TFirst + int64(r.Intn(2*288))*300
	}
	meta := readFile(b, d, ".blockmeta")
	n := len(b.Days[d].Blocks)
	dn := b.Days[d].Name
	garbage := func(l int) []byte {
		x := make([]byte, l)
		for i := range x {
			x[i] = byte(r.U64())
		}
		return x
	}
	k := r.Intn(100)
	switch {
	case k < 14:
		in.Class = "meta-trunc"
		bs := metaBoundaries(n)
		p := vhlib.Pick(r, bs)
		if r.Chance(25) {
			p = r.Intn(len(meta) + 1)
		}
		in.Ops = []Op{wr(b, d, ".blockmeta", meta[:p])}
	case k < 34:
		in.Class = "meta-bitflip"
		y := append([]byte(nil), meta...)
		nf := 1 + r.Intn(3)
		for i := 0; i < nf; i++ {
			y[r.Intn(len(y))] ^= 1 << uint(r.Intn(8))
		}
		in.Ops = []Op{wr(b, d, ".blockmeta", y)}
	case k < 46:
		in.Class = "meta-field"
		// one descriptor / traffic / header field set to a hostile value
		vals := []uint32{0, 1, 2, 3, 4, 8, 0x7fffffff, 0x80000000, 0xffffffff, 1 << 30, 1 << 20, 65536, uint32(r.U64()), uint32(r.Intn(64))}
		y := meta
		blkSel := -1 // the damage is confined to this block (RawLen, encoder type, entry counts: no effect on offsets / timestamps)
		switch r.Intn(6) {
		case 0:
			y = put32(meta, descPos(n, r.Intn(8), r.Intn(n)), vhlib.Pick(r, vals))
		case 1:
			blkSel = r.Intn(n)
			y = put32(meta, descPos(n, r.Intn(8), blkSel)+4, vhlib.Pick(r, vals))
		case 2:
			blkSel = r.Intn(n)
			y = append([]byte(nil), meta...)
			y[descPos(n, r.Intn(8), blkSel)+8] = byte(vhlib.Pick(r, []int{0, 1, 2, 3, 4, 255}))
		case 3:
			bs, f := r.Intn(n), r.Intn(4)
			if f < 3 {
				blkSel = bs
			}
			y = put32(meta, trafPos(n, bs)+4*f, vhlib.Pick(r, vals))
		case 4:
			y = put64(meta, 8*r.Intn(9), vhlib.Pick(r, []uint64{0, 1, 2, 3, 1 << 32, 1 << 63, 1<<64 - 1, r.U64()}))
		case 5:
			// RawLen of one block decreased to a smaller non-zero value
			blkSel = r.Intn(n)
			col := r.Intn(8)
			_, raw, _ := descOf(meta, n, col, blkSel)
			if sm := smaller(raw, true); len(sm) > 0 {
				y = put32(meta, descPos(n, col, blkSel)+4, vhlib.Pick(r, sm))
			}
		}
		if r.Chance(25) { // two fields
			blkSel = -1
			y = put32(y, descPos(n, r.Intn(8), r.Intn(n))+4*r.Intn(2), vhlib.Pick(r, vals))
		}
		in.Block = blkSel
		in.Ops = []Op{wr(b, d, ".blockmeta", y)}
	case k < 52:
		in.Class = "meta-garbage"
		l := vhlib.Pick(r, []int{0, 1, 143, 144, 145, 232, 320, len(meta), len(meta) + 1, r.Intn(400)})
		y := garbage(l)
		if r.Chance(50) && l >= 16 { // plausible header in front of garbage
			binary.BigEndian.PutUint64(y[0:], 1)
			binary.BigEndian.PutUint64(y[8:], uint64(r.Intn(4)))
		}
		in.Ops = []Op{wr(b, d, ".blockmeta", y)}
	case k < 55:
		in.Class = "meta-delete"
		in.Ops = []Op{{K: "delete", P: dn + "/.blockmeta"}}
	case k < 58:
		in.Class = "meta-swap-days"
		in.Ops = []Op{wr(b, d, ".blockmeta", readFile(b, (d+1+r.Intn(2))%3, ".blockmeta"))}
	case k < 70:
		col := r.Intn(8)
		f := readFile(b, d, colNames[col]+".gpf")
		in.Class = "col-bitflip"
		y := append([]byte(nil), f...)
		if len(y) > 0 {
			pos := r.Intn(len(y))
			y[pos] ^= 1 << uint(r.Intn(8))
			// the block the flipped byte belongs to
			off := 0
			for blk := 0; blk < n; blk++ {
				l, _, _ := descOf(meta, n, col, blk)
				if pos >= off && pos < off+int(l) {
					in.Block = blk
				}
				off += int(l)
			}
		}
		in.Ops = []Op{wr(b, d, colNames[col]+".gpf", y)}
	case k < 78:
		col := r.Intn(8)
		f := readFile(b, d, colNames[col]+".gpf")
		in.Class = "col-trunc"
		in.Ops = []Op{wr(b, d, colNames[col]+".gpf", f[:r.Intn(len(f)+1)])}
	case k < 83:
		col := r.Intn(8)
		f := readFile(b, d, colNames[col]+".gpf")
		in.Class = "col-garbage"
		l := len(f)
		if r.Chance(40) {
			l = r.Intn(2*len(f) + 2)
		}
		in.Ops = []Op{wr(b, d, colNames[col]+".gpf", garbage(l))}
	case k < 87:
		in.Class = "col-delete"
		in.Ops = []Op{{K: "delete", P: dn + "/" + colNames[r.Intn(8)] + ".gpf"}}
		if r.Chance(30) {
			in.Ops = append(in.Ops, Op{K: "delete", P: dn + "/" + colNames[r.Intn(8)] + ".gpf"})
		}
	case k < 92:
		in.Class = "col-swap"
		c1, c2 := r.Intn(8), r.Intn(8)
		if r.Chance(50) { // same column of another day
			od := (d + 1 + r.Intn(2)) % 3
			in.Class = "col-swap-days"
			in.Ops = []Op{wr(b, d, colNames[c1]+".gpf", readFile(b, od, colNames[c1]+".gpf"))}
		} else {
			in.Ops = []Op{wr(b, d, colNames[c1]+".gpf", readFile(b, d, colNames[c2]+".gpf")), wr(b, d, colNames[c2]+".gpf", readFile(b, d, colNames[c1]+".gpf"))}
		}
	default:
		in.Class = "dir-rename"
		ts := strconv.FormatInt(b.Days[d].TS, 10)
		alphabet := "0123456789abcxyzABCXYZ{|}~-_ ."
		suf := ""
		nf := vhlib.Pick(r, []int{7, 7, 7, 6, 8, 1})
		for i := 0; i < nf; i++ {
			if i > 0 {
				suf += "-"
			}
			l := r.Intn(4)
			for j := 0; j < l; j++ {
				suf += string(alphabet[r.Intn(len(alphabet))])
			}
			if r.Chance(5) {
				suf += "\xff"
			}
		}
		in.Ops = []Op{{K: "rename", P: dn, To: ts + "_" + suf}}
		if strings.Contains(suf, "/") {
			in.Ops = nil
		}
	}
	return in
}

// ---------------------------------------------------------------- reader child

// ChildResult is what the reader child prints
type ChildResult struct {
	Status string            `json:"status"` // ok | err | panic
	Msg    string            `json:"msg,omitempty"`
	Rows   string            `json:"rows"` // hex, rowWidth bytes per row, sorted
	Stats  map[string]uint64 `json:"stats"`
}

func childQuery() {
	root := os.Args[2]
	tfirst, _ := strconv.ParseInt(os.Args[3], 10, 64)
	tlast, _ := strconv.ParseInt(os.Args[4], 10, 64)
	attrs, _ := strconv.Atoi(os.Args[5])
	qt := "time"
	for i, a := range []string{"sip", "dip", "proto", "dport"} {
		if attrs&(1<<i) != 0 {
			qt += "," + a
		}
	}
	go func() {
		time.Sleep(6*watchdog + 5*time.Second)
		fmt.Fprintln(os.Stderr, "child-query: internal watchdog")
		os.Exit(7)
	}()
	res := ChildResult{Status: "ok"}
	func() {
		defer func() {
			if r := recover(); r != nil {
				res.Status, res.Msg = "panic", fmt.Sprint(r)
			}
		}()
		stmt := &query.Statement{
			Ifaces:        []string{iface},
			QueryType:     qt,
			LabelSelector: types.LabelSelector{Timestamp: true},
			First:         tfirst,
			Last:          tlast,
			NumResults:    1 << 30,
			MaxMemPct:     query.DefaultMaxMemPct,
			Format:        "json",
			SortBy:        results.SortTime,
			Direction:     types.DirectionBoth,
		}
		r, err := engine.NewQueryRunner(root).RunStatement(context.Background(), stmt, nil)
		if err != nil {
			res.Status, res.Msg = "err", err.Error()
			return
		}
		if r == nil {
			res.Status, res.Msg = "err", "nil result"
			return
		}
		rows := make([][]byte, 0, len(r.Rows))
		for _, row := range r.Rows {
			x := make([]byte, rowWidth)
			binary.BigEndian.PutUint64(x[0:], uint64(row.Labels.Timestamp.Unix()))
			copy(x[8:24], row.Attributes.SrcIP.AsSlice())
			copy(x[24:40], row.Attributes.DstIP.AsSlice())
			x[40] = row.Attributes.IPProto
			binary.BigEndian.PutUint16(x[41:], row.Attributes.DstPort)
			binary.BigEndian.PutUint64(x[43:], row.Counters.BytesRcvd)
			binary.BigEndian.PutUint64(x[51:], row.Counters.BytesSent)
			binary.BigEndian.PutUint64(x[59:], row.Counters.PacketsRcvd)
			binary.BigEndian.PutUint64(x[67:], row.Counters.PacketsSent)
			rows = append(rows, x)
		}
		res.Rows = hex.EncodeToString(canonRows(rows))
		if r.Summary.Stats != nil {
			b, _ := json.Marshal(r.Summary.Stats)
			_ = json.Unmarshal(b, &res.Stats)
		}
	}()
	b, _ := json.Marshal(res)
	os.Stdout.Write(append(b, '\n'))
}

// canonRows sorts rows by key and merges rows with equal keys (the canonical padded form can identify an
// IPv4 row with an IPv6 row whose addresses end in twelve zero bytes)
func canonRows(rows [][]byte) []byte {
	sort.SliceStable(rows, func(i, j int) bool { return bytes.Compare(rows[i][:keyWidth], rows[j][:keyWidth]) < 0 })
	var out [][]byte
	for _, x := range rows {
		if n := len(out); n > 0 && bytes.Equal(out[n-1][:keyWidth], x[:keyWidth]) {
			for c := 0; c < 4; c++ {
				p := keyWidth + 8*c
				binary.BigEndian.PutUint64(out[n-1][p:], binary.BigEndian.Uint64(out[n-1][p:])+binary.BigEndian.Uint64(x[p:]))
			}
			continue
		}
		out = append(out, append([]byte(nil), x...))
	}
	return bytes.Join(out, nil)
}

// project keeps the selected attributes of a flow
func project(f Flow, attrs int) Flow {
	g := Flow{C: f.C}
	if attrs&1 != 0 {
		g.SIP = f.SIP
	}
	if attrs&2 != 0 {
		g.DIP = f.DIP
	}
	if attrs&4 != 0 {
		g.Proto = f.Proto
	}
	if attrs&8 != 0 {
		g.Dport = f.Dport
	}
	return g
}

func flowRow(ts int64, f Flow) []byte {
	x := make([]byte, rowWidth)
	binary.BigEndian.PutUint64(x[0:], uint64(ts))
	copy(x[8:24], f.SIP)
	copy(x[24:40], f.DIP)
	x[40] = f.Proto
	binary.BigEndian.PutUint16(x[41:], f.Dport)
	for c := 0; c < 4; c++ {
		binary.BigEndian.PutUint64(x[43+8*c:], f.C[c])
	}
	return x
}

// Observed is the projected observation of one mutant
type Observed struct {
	Status string   `json:"status"` // ok | err | panic | crash | oom | hang
	Msg    string   `json:"msg,omitempty"`
	Rows   string   `json:"rows"`
	Stats  []uint64 `json:"stats"` // blocks_processed, blocks_corrupted, directories_processed, directories_corrupted
}

var exePath string

func runChild(root string, tfirst, tlast int64, attrs int, watchdog time.Duration) (*Observed, error) {
	ctx, cancel := context.WithTimeout(context.Background(), watchdog)
	defer cancel()
	script := fmt.Sprintf("ulimit -v %d; exec \"$0\" child-query \"$1\" \"$2\" \"$3\" \"$4\"", memLimit)
	cmd := exec.CommandContext(ctx, "/bin/sh", "-c", script, exePath, root, strconv.FormatInt(tfirst, 10), strconv.FormatInt(tlast, 10), strconv.Itoa(attrs))
	cmd.Env = append(os.Environ(), "TZ=UTC", "GOMAXPROCS=2")
	var so, se bytes.Buffer
	cmd.Stdout = &so
	cmd.Stderr = &limitedWriter{w: &se, n: 1 << 16}
	err := cmd.Run()
	if ctx.Err() != nil {
		return &Observed{Status: "hang", Msg: "watchdog: no answer within " + watchdog.String()}, nil
	}
	if err != nil {
		var ee *exec.ExitError
		if !errors.As(err, &ee) {
			return nil, fmt.Errorf("cannot run the reader child: %w", err)
		}
		msg := se.String()
		st := "crash"
		if strings.Contains(msg, "out of memory") || strings.Contains(msg, "cannot allocate memory") {
			st = "oom"
		}
		// keep the first line that names the failure
		short := ""
		for _, l := range strings.Split(msg, "\n") {
			if strings.HasPrefix(l, "panic:") || strings.HasPrefix(l, "fatal error:") || strings.Contains(l, "SIGSEGV") {
				short = l
				break
			}
		}
		if short == "" {
			if len(msg) > 300 {
				msg = msg[len(msg)-300:]
			}
			short = fmt.Sprintf("exit %d: %s", ee.ExitCode(), msg)
		}
		return &Observed{Status: st, Msg: short}, nil
	}
	var cr ChildResult
	line := bytes.TrimSpace(so.Bytes())
	if i := bytes.LastIndexByte(line, '\n'); i >= 0 {
		line = line[i+1:]
	}
	if err := json.Unmarshal(line, &cr); err != nil {
		return nil, fmt.Errorf("bad reader child answer %q: %w", so.String(), err)
	}
	ob := &Observed{Status: cr.Status, Msg: cr.Msg, Rows: cr.Rows,
		Stats: []uint64{cr.Stats["blocks_processed"], cr.Stats["blocks_corrupted"], cr.Stats["directories_processed"], cr.Stats["directories_corrupted"]}}
	return ob, nil
}

type limitedWriter struct {
	w io.Writer
	n int
}

func (l *limitedWriter) Write(p []byte) (int, error) {
	if l.n > 0 {
		q := p
		if len(q) > l.n {
			q = q[:l.n]
		}
		l.w.Write(q)
		l.n -= len(q)
	}
	return len(p), nil
}

// ---------------------------------------------------------------- running one mutant

type dayState struct {
	Name string
	Meta *[]byte
	Cols [8]*[]byte
}

func snapshot(month string) ([]dayState, error) {
	ents, err := os.ReadDir(month)
	if err != nil {
		return nil, err
	}
	var ds []dayState
	for _, e := range ents {
		if !e.IsDir() {
			continue
		}
		s := dayState{Name: e.Name()}
		if x, err := os.ReadFile(filepath.Join(month, e.Name(), ".blockmeta")); err == nil {
			s.Meta = &x
		}
		for c := 0; c < 8; c++ {
			if x, err := os.ReadFile(filepath.Join(month, e.Name(), colNames[c]+".gpf")); err == nil {
				s.Cols[c] = &x
			}
		}
		ds = append(ds, s)
	}
	return ds, nil
}

type decEntry struct {
	Enc int
	In  []byte
	Raw uint32
	Out *[]byte
}

// decTable runs the real decoders on every stored block a reader can hand to a codec: the model's `dec` oracle.
// The slices are determined from the metadata bytes exactly as Unmarshal does (offset = running sum of Len).
func decTable(ds []dayState) []decEntry {
	var tab []decEntry
	seen := map[string]bool{}
	for _, s := range ds {
		if s.Meta == nil || len(*s.Meta) < 144 {
			continue
		}
		m := *s.Meta
		nb := binary.BigEndian.Uint64(m[8:16])
		if nb > (uint64(len(m))-144)/88 {
			continue
		}
		n := int(nb)
		for c := 0; c < 8; c++ {
			if s.Cols[c] == nil {
				continue
			}
			f := *s.Cols[c]
			off := uint64(0)
			for b := 0; b < n; b++ {
				p := descPos(n, c, b)
				l, raw, enc := binary.BigEndian.Uint32(m[p:]), binary.BigEndian.Uint32(m[p+4:]), int(m[p+8])
				o := off
				off += uint64(l)
				if (enc != 2 && enc != 3) || raw == 0 || l == 0 || raw > maxDecRaw || o+uint64(l) > uint64(len(f)) {
					continue
				}
				in := f[o : o+uint64(l)]
				key := fmt.Sprint(enc, "|", raw, "|", hex.EncodeToString(in))
				if seen[key] {
					continue
				}
				seen[key] = true
				e := decEntry{Enc: enc, In: in, Raw: raw}
				dec, err := encoder.New(encoders.Type(enc))
				if err == nil {
					out := make([]byte, raw)
					inb := make([]byte, l)
					nRead, derr := dec.Decompress(inb, out, bytes.NewReader(in))
					dec.Close()
					if derr == nil {
						o2 := out[:min(nRead, len(out))]
						e.Out = &o2
					}
				}
				tab = append(tab, e)
			}
		}
	}
	return tab
}

// chunks prints a byte string as a Coq list of hexadecimal numbers, 16 bytes each, with a leading 1 digit
func chunks(b []byte) string {
	var parts []string
	for i := 0; i < len(b); i += 16 {
		parts = append(parts, "0x1"+hex.EncodeToString(b[i:min(i+16, len(b))]))
	}
	return "[" + strings.Join(parts, "; ") + "]"
}

func hexOpt(x *[]byte) string {
	if x == nil {
		return "None"
	}
	return "(Some " + chunks(*x) + ")"
}

func coqName(s string) string { return chunks([]byte(s)) }

func statusCode(s string) int {
	switch s {
	case "ok":
		return 0
	case "err":
		return 1
	case "panic", "crash":
		return 2
	case "oom":
		return 3
	default:
		return 4 // hang
	}
}

func runCase(in Input, work string) (*vhlib.Case, error) {
	b, err := buildBase(in.Base, work)
	if err != nil {
		return nil, err
	}
	raw, _ := json.Marshal(in)
	h := sha256.Sum256(raw)
	dir := filepath.Join(work, fmt.Sprintf("c06-m-%s-%d-%d", hex.EncodeToString(h[:8]), os.Getpid(), dirSeq.Add(1)))
	os.RemoveAll(dir)
	if os.Getenv("C06_KEEP") == "" {
		defer os.RemoveAll(dir)
	}
	root := filepath.Join(dir, "db")
	if err := os.MkdirAll(dir, 0755); err != nil {
		return nil, err
	}
	if out, err := exec.Command("cp", "-a", b.Root, root).CombinedOutput(); err != nil {
		return nil, fmt.Errorf("cp: %v %s", err, out)
	}
	month := filepath.Join(root, iface, "2023", "11")
	for _, op := range in.Ops {
		p := filepath.Join(month, op.P)
		switch op.K {
		case "write":
			data, err := hex.DecodeString(op.Hex)
			if err != nil {
				return nil, err
			}
			if err := os.WriteFile(p, data, 0644); err != nil {
				return nil, err
			}
		case "delete":
			if err := os.Remove(p); err != nil && !errors.Is(err, os.ErrNotExist) {
				return nil, err
			}
		case "rename":
			if err := os.Rename(p, filepath.Join(month, op.To)); err != nil {
				return nil, err
			}
		}
	}
	ds, err := snapshot(month)
	if err != nil {
		return nil, err
	}
	tab := decTable(ds)
	ob, err := runChild(root, in.TFirst, in.TLast, in.Attrs, watchdog)
	if err != nil {
		// one more attempt after an infrastructure failure
		if ob, err = runChild(root, in.TFirst, in.TLast, in.Attrs, watchdog); err != nil {
			return nil, err
		}
	}
	// a hang must reproduce (with a longer watchdog) before it is reported: an overloaded machine can delay the
	// start of the child beyond the watchdog
	for try := 0; try < 2 && ob.Status == "hang"; try++ {
		ob2, err := runChild(root, in.TFirst, in.TLast, in.Attrs, 6*watchdog)
		if err != nil {
			return nil, err
		}
		ob = ob2
	}

	// ---- Coq term
	var days []string
	for _, s := range ds {
		var cols []string
		for c := 0; c < 8; c++ {
			cols = append(cols, hexOpt(s.Cols[c]))
		}
		days = append(days, "("+coqName(s.Name)+", "+hexOpt(s.Meta)+", "+vhlib.CoqList(cols)+")")
	}
	var decs []string
	for _, e := range tab {
		decs = append(decs, fmt.Sprintf("(%d%%N, %s, %d%%N, %s)", e.Enc, chunks(e.In), e.Raw, hexOpt(e.Out)))
	}
	var spec []string
	for d, di := range b.Days {
		var rows [][]byte
		for _, bl := range di.Blocks {
			for _, f := range bl.Flows {
				rows = append(rows, flowRow(bl.TS, project(f, in.Attrs)))
			}
		}
		var bts []string
		for _, bl := range di.Blocks {
			bts = append(bts, vhlib.CoqZ(bl.TS))
		}
		spec = append(spec, fmt.Sprintf("(%s, %s, %s, %s)", vhlib.CoqZ(di.TS), vhlib.CoqBool(d == in.Day), vhlib.CoqList(bts), chunks(canonRows(rows))))
	}
	stats := []string{}
	for _, s := range ob.Stats {
		stats = append(stats, vhlib.CoqN(s))
	}
	colOnly := strings.HasPrefix(in.Class, "col-") || in.Block >= 0 // block structure of the metadata intact
	obsRows, _ := hex.DecodeString(ob.Rows)
	coq := fmt.Sprintf("mkCase %s %s %s %s %s %s %d%%N %d%%N %s %s %s %s %s %s",
		vhlib.CoqList(days), vhlib.CoqList(decs), vhlib.CoqZ(in.TFirst), vhlib.CoqZ(in.TLast), vhlib.CoqZ(monthLo), vhlib.CoqZ(monthHi),
		in.Attrs, statusCode(ob.Status), chunks(obsRows), vhlib.CoqList(stats), vhlib.CoqList(spec), vhlib.CoqBool(in.Foreign), vhlib.CoqBool(colOnly), vhlib.CoqZ(int64(in.Block)))
	tags := []string{"class:" + in.Class, "status:" + ob.Status, fmt.Sprint("base:", in.Base)}
	if len(ob.Stats) == 4 {
		if ob.Stats[1] > 0 {
			tags = append(tags, "blocks-corrupted")
		}
		if ob.Stats[3] > 0 {
			tags = append(tags, "day-corrupted")
		}
	}
	if len(tab) > 0 {
		tags = append(tags, "codec-blocks")
	}
	if in.Attrs != 15 {
		tags = append(tags, "attr-subset")
	}
	if in.Block >= 0 {
		tags = append(tags, "block-level")
	}
	if in.TFirst != day0-1000 || in.TLast != day0+3*epochDay+1000 {
		tags = append(tags, "window-clipped")
	}
	return &vhlib.Case{Observed: ob, Tags: tags, Nontrivial: in.Class != "none", Coq: coq}, nil
}

var dirSeq atomic.Int64

// ---------------------------------------------------------------- plan / prefetch (parallel children)

var (
	planMu  sync.Mutex
	plan    []Input
	planKey string
	cache   sync.Map
	workDir string
)

type cached struct {
	c   *vhlib.Case
	err error
}

func getPlan(o vhlib.Opts) []Input {
	planMu.Lock()
	defer planMu.Unlock()
	key := fmt.Sprint(o.Seed, o.N, o.Tier, o.Search)
	if plan != nil && planKey == key {
		return plan
	}
	r := vhlib.NewRand(o.Seed ^ 0xc06)
	fixed := append(fixedInputs(o.Work), blockLevelInputs(o.Work, false)...)
	fixed = append(fixed, headerInputs(o.Work, false)...)
	fixed = append(fixed, encInputs(o.Work, false)...)
	var p []Input
	mustN := 0
	// quick: a seed-dependent third of the fixed boundary list (all of it in thorough / search), then random mutants
	seen := map[string]bool{}
	for _, in := range append(append(encInputs(o.Work, true), headerInputs(o.Work, true)...), blockLevelInputs(o.Work, true)...) {
		raw, _ := json.Marshal(in)
		if !seen[string(raw)] {
			seen[string(raw)] = true
			p = append(p, in)
		}
	}
	mustN = len(p)
	// quick: a seed-dependent slice of the fixed list, spread over all of its classes (every stride-th entry)
	stride := uint64(4)
	if room := o.N*2/3 - mustN; room > 0 && uint64(len(fixed)/room+1) > stride {
		stride = uint64(len(fixed)/room + 1)
	}
	for i, in := range fixed {
		raw, _ := json.Marshal(in)
		if seen[string(raw)] {
			continue
		}
		if o.Tier == "thorough" || o.Search || (uint64(i)+o.Seed)%stride == 0 || in.Class == "none" {
			seen[string(raw)] = true
			p = append(p, in)
		}
	}
	if lim := max(mustN, o.N*2/3); len(p) > lim {
		p = p[:lim]
	}
	for len(p) < o.N {
		in := genRandom(r.Fork(), o.Work, o)
		if in.Ops == nil {
			continue
		}
		raw, _ := json.Marshal(in)
		if seen[string(raw)] {
			continue
		}
		seen[string(raw)] = true
		p = append(p, in)
	}
	plan, planKey = p, key
	var wg sync.WaitGroup
	sem := make(chan struct{}, nWorkers)
	for _, in := range p {
		raw, _ := json.Marshal(in)
		wg.Add(1)
		go func(in Input, key string) {
			defer wg.Done()
			sem <- struct{}{}
			defer func() { <-sem }()
			c, err := runCase(in, o.Work)
			cache.Store(key, cached{c, err})
		}(in, string(raw))
	}
	wg.Wait()
	return plan
}

func gen(r *vhlib.Rand, i int, o vhlib.Opts) any {
	p := getPlan(o)
	if i >= len(p) {
		return nil
	}
	return p[i]
}

func run(raw json.RawMessage, o vhlib.Opts) (*vhlib.Case, error) {
	var in Input
	if err := json.Unmarshal(raw, &in); err != nil {
		return nil, err
	}
	key, _ := json.Marshal(in)
	if v, ok := cache.Load(string(key)); ok {
		cv := v.(cached)
		return cv.c, cv.err
	}
	return runCase(in, o.Work)
}

func fatal(err error) {
	fmt.Fprintln(os.Stderr, "HARNESS ERROR:", err)
	os.Exit(3)
}

type nullWriter struct{}

func (nullWriter) Write(p []byte) (int, error) { return len(p), nil }

func main() {
	if len(os.Args) > 1 && os.Args[1] == "child-query" {
		childQuery()
		os.Exit(0)
	}
	var err error
	if exePath, err = os.Executable(); err != nil {
		fatal(err)
	}
	fs := flag.NewFlagSet("pre", flag.ContinueOnError)
	fs.SetOutput(nullWriter{})
	work := fs.String("work", ".", "")
	for _, f := range []string{"seed", "n", "tier", "out", "in"} {
		fs.String(f, "", "")
	}
	fs.Bool("search", false, "")
	if len(os.Args) > 2 {
		_ = fs.Parse(os.Args[2:])
	}
	workDir = *work
	defer func() {
		baseMu.Lock()
		for _, b := range bases {
			os.RemoveAll(filepath.Dir(b.Root))
		}
		baseMu.Unlock()
	}()
	vhlib.Main(gen, run)
}
