// C11 correspondence harness: the real query engine (query.NewArgs(...).Prepare inside
// engine.NewQueryRunner(db).Run) on generated databases written with the real DBWriter, with the
// number of processing units forced to 1..16 (verif hook), one real `taskset -c 0` child run
// (runtime.NumCPU() = 1, no hook), low-memory mode on/off, GOMAXPROCS varied, repetitions.
// Rows and totals (canonically sorted) are compared across all configurations and handed to the
// Coq model together with the flows that were written. A termination probe runs a database with
// more day directories than the original work queue could hold at one processing unit in a child
// process under a watchdog.
package main

import (
	"context"
	"encoding/binary"
	"encoding/json"
	"fmt"
	"hash/fnv"
	"io"
	"log/slog"
	"net/netip"
	"os"
	"os/exec"
	"path/filepath"
	"runtime"
	"sort"
	"strconv"
	"strings"
	"time"

	"verifharness/vhlib"

	"github.com/els0r/goProbe/v4/pkg/capture/capturetypes"
	"github.com/els0r/goProbe/v4/pkg/goDB"
	"github.com/els0r/goProbe/v4/pkg/goDB/encoder/encoders"
	"github.com/els0r/goProbe/v4/pkg/goDB/engine"
	"github.com/els0r/goProbe/v4/pkg/query"
	"github.com/els0r/goProbe/v4/pkg/types"
	"github.com/els0r/goProbe/v4/pkg/types/hashmap"
	"github.com/els0r/telemetry/logging"
)

const (
	baseTS       = int64(1577836800) // 2020-01-01 00:00:00 UTC, a day boundary
	day          = int64(86400)
	childLimit   = 120 * time.Second // watchdog of a child process (termination probe, taskset run); generous: the host may be loaded
	inprocLimit  = 60 * time.Second  // watchdog of an in-process query
	afterHang    = 15 * time.Second  // both, once one query of this harness run did not end
	origCapacity = 64                // workloads per processing unit the original queue could hold
	bulk         = 32                // goDB.WorkBulkSize
	writers      = 12                // goroutines writing day directories
	kaSleep      = 10 * time.Millisecond
)

// address table: index 0 = attribute absent; 1..4 IPv4, 5..7 IPv6
var addrs = []string{"", "10.0.0.1", "10.0.0.2", "192.168.1.77", "172.16.255.254", "2001:db8::1", "2001:db8::2", "fe80::ffff"}

func isV4(i int) bool { return i >= 1 && i <= 4 }

var dports = []int{0, 53, 80, 443, 8080, 65535}
var protos = []int{1, 6, 17, 58, 255}
var bigs = []uint64{0, 1, 2, 3, 7, 40, 1500, 65536, 1 << 32, 1<<63 - 1, 1 << 63, ^uint64(0), ^uint64(0) - 5}
var queryTypes = []string{"sip,dip,dport,proto", "sip", "dip", "dport", "proto", "sip,dip", "dport,proto",
	"time", "time,sip", "time,dport,proto", "sip,dport", "dip,proto", "time,sip,dip,dport,proto"}

type flow struct {
	B     int       `json:"b"` // block index within the day: block timestamp = day + 300*(b+1)
	Sip   int       `json:"sip"`
	Dip   int       `json:"dip"`
	Dport int       `json:"dport"`
	Proto int       `json:"proto"`
	C     [4]uint64 `json:"c"` // bytes rcvd, bytes sent, packets rcvd, packets sent
}

// run-length encoded list of template indices: Count consecutive days use template T
type rle struct {
	Count int `json:"n"`
	T     int `json:"t"`
}

type ifaceIn struct {
	Name      string   `json:"name"`
	Templates [][]flow `json:"templates"` // each template: the flows of one day, ordered by block
	Days      []rle    `json:"days"`
}

type config struct {
	Mode   string `json:"mode"` // "hook": in-process; "child": child process with hook; "taskset": child under `taskset -c 0`, no hook
	P      int    `json:"p"`
	LowMem bool   `json:"lowmem"`
	Procs  int    `json:"procs"` // GOMAXPROCS (0 = leave)
	// KA: keepalives enabled (Args.KeepAlive = 1ns: a stats update is logged at every block) and a slow
	// log sink (the handler sleeps kaSleep between picking up the "processing stats update" record and
	// resolving its attributes). Only timing is changed. Child modes only (the logger is process-global).
	KA bool `json:"ka,omitempty"`
}

type input struct {
	Kind    string    `json:"kind"` // "eq" | "term"
	Query   string    `json:"query"`
	Ifaces  []ifaceIn `json:"ifaces"`
	Configs []config  `json:"configs"`
	Sched   []int     `json:"sched"` // scheduler choices for the model run
}

// ------------------------------------------------------------------ canonical rows

type row struct {
	If, T, Sip, Dip, Dport, Proto int64
	C                             [4]uint64
}

type qresult struct {
	NumCPU int       `json:"numcpu"`
	Rows   []row     `json:"rows"`
	Totals [4]uint64 `json:"totals"`
	Err    string    `json:"err,omitempty"`
	Ended  bool      `json:"ended"`
}

func lessRow(a, b row) bool {
	ka := [6]int64{a.If, a.T, a.Sip, a.Dip, a.Dport, a.Proto}
	kb := [6]int64{b.If, b.T, b.Sip, b.Dip, b.Dport, b.Proto}
	for i := range ka {
		if ka[i] != kb[i] {
			return ka[i] < kb[i]
		}
	}
	for i := range a.C {
		if a.C[i] != b.C[i] {
			return a.C[i] < b.C[i]
		}
	}
	return false
}

func digest(q *qresult) uint64 {
	h := fnv.New64a()
	fmt.Fprintf(h, "%v|%s|", q.Totals, q.Err)
	for _, r := range q.Rows {
		fmt.Fprintf(h, "%d,%d,%d,%d,%d,%d,%v;", r.If, r.T, r.Sip, r.Dip, r.Dport, r.Proto, r.C)
	}
	return h.Sum64() >> 4 // 60 bits: keeps the Coq literal short
}

// ------------------------------------------------------------------ database

func addrBytes(i int) []byte {
	a := netip.MustParseAddr(addrs[i])
	return a.AsSlice()
}

func writeDay(w *goDB.DBWriter, dayTS int64, flows []flow) error {
	var wls []goDB.BulkWorkload
	cur := -1
	var m *hashmap.AggFlowMap
	for _, f := range flows {
		if f.B != cur {
			m = hashmap.NewAggFlowMap()
			wls = append(wls, goDB.BulkWorkload{FlowMap: m, CaptureStats: capturetypes.CaptureStats{}, Timestamp: dayTS + 300*int64(f.B+1)})
			cur = f.B
		}
		dp := make([]byte, 2)
		binary.BigEndian.PutUint16(dp, uint16(f.Dport))
		val := types.Counters{BytesRcvd: f.C[0], BytesSent: f.C[1], PacketsRcvd: f.C[2], PacketsSent: f.C[3]}
		if isV4(f.Sip) {
			m.PrimaryMap.Set(types.NewV4Key(addrBytes(f.Sip), addrBytes(f.Dip), dp, byte(f.Proto)), val)
		} else {
			m.SecondaryMap.Set(types.NewV6Key(addrBytes(f.Sip), addrBytes(f.Dip), dp, byte(f.Proto)), val)
		}
	}
	return w.WriteBulk(wls, dayTS)
}

func numDays(ifc ifaceIn) int {
	n := 0
	for _, r := range ifc.Days {
		n += r.Count
	}
	return n
}

func writeDB(db string, in *input) error {
	type job struct {
		w  *goDB.DBWriter
		ts int64
		fl []flow
	}
	// day directories are independent of each other: write them with a few goroutines
	jobs := make(chan job, 256)
	errs := make(chan error, writers)
	for k := 0; k < writers; k++ {
		go func() {
			var first error
			for j := range jobs {
				if err := writeDay(j.w, j.ts, j.fl); err != nil && first == nil {
					first = err
				}
			}
			errs <- first
		}()
	}
	var ferr error
	for _, ifc := range in.Ifaces {
		if err := os.MkdirAll(filepath.Join(db, ifc.Name), 0o755); err != nil {
			ferr = err
			break
		}
		w := goDB.NewDBWriter(db, ifc.Name, encoders.EncoderTypeLZ4)
		d := int64(0)
		for _, r := range ifc.Days {
			for k := 0; k < r.Count; k++ {
				jobs <- job{w, baseTS + d*day, ifc.Templates[r.T]}
				d++
			}
		}
	}
	close(jobs)
	for k := 0; k < writers; k++ {
		if err := <-errs; err != nil && ferr == nil {
			ferr = err
		}
	}
	return ferr
}

// ------------------------------------------------------------------ running one query

func maxDays(in *input) int {
	n := 0
	for _, ifc := range in.Ifaces {
		if k := numDays(ifc); k > n {
			n = k
		}
	}
	return n
}

func ifaceArg(in *input) string {
	var ns []string
	for _, ifc := range in.Ifaces {
		ns = append(ns, ifc.Name)
	}
	return strings.Join(ns, ",")
}

// queryOnce runs the real engine in this process. No watchdog here.
func queryOnce(db, q, ifaces string, ndays int, lowmem bool, ka bool) *qresult {
	res := &qresult{NumCPU: runtime.NumCPU()}
	a := query.NewArgs(q, ifaces,
		query.WithFirst(strconv.FormatInt(baseTS-day, 10)),
		query.WithLast(strconv.FormatInt(baseTS+int64(ndays+2)*day, 10)),
		query.WithNumResults(query.MaxResults), query.WithFormat(types.FormatJSON))
	a.LowMem = lowmem
	if ka {
		a.KeepAlive = time.Nanosecond
	}
	out, err := engine.NewQueryRunner(db).Run(context.Background(), a)
	res.Ended = true
	if err != nil {
		res.Err = err.Error()
		return res
	}
	names := strings.Split(ifaces, ",")
	ifIdx := map[string]int64{}
	for i, n := range names {
		ifIdx[n] = int64(i)
	}
	aIdx := map[string]int64{}
	for i, s := range addrs {
		if i > 0 {
			aIdx[s] = int64(i)
		}
	}
	for _, rw := range out.Rows {
		cr := row{If: ifIdx[rw.Labels.Iface]}
		if !rw.Labels.Timestamp.IsZero() {
			cr.T = (rw.Labels.Timestamp.Unix() - baseTS) / 300
		}
		if rw.Attributes.SrcIP.IsValid() {
			cr.Sip = aIdx[rw.Attributes.SrcIP.String()]
		}
		if rw.Attributes.DstIP.IsValid() {
			cr.Dip = aIdx[rw.Attributes.DstIP.String()]
		}
		cr.Dport = int64(rw.Attributes.DstPort)
		cr.Proto = int64(rw.Attributes.IPProto)
		cr.C = [4]uint64{rw.Counters.BytesRcvd, rw.Counters.BytesSent, rw.Counters.PacketsRcvd, rw.Counters.PacketsSent}
		res.Rows = append(res.Rows, cr)
	}
	sort.Slice(res.Rows, func(i, j int) bool { return lessRow(res.Rows[i], res.Rows[j]) })
	t := out.Summary.Totals
	res.Totals = [4]uint64{t.BytesRcvd, t.BytesSent, t.PacketsRcvd, t.PacketsSent}
	return res
}

var hungOnce bool
var lastDB string

func runInProc(db string, in *input, c config) *qresult {
	if c.Procs > 0 {
		defer runtime.GOMAXPROCS(runtime.GOMAXPROCS(c.Procs))
	}
	defer engine.VerifSetNumProcessingUnits(engine.VerifSetNumProcessingUnits(c.P))
	done := make(chan *qresult, 1)
	go func() {
		var res *qresult
		if p, msg := vhlib.Recover(func() { res = queryOnce(db, in.Query, ifaceArg(in), maxDays(in), c.LowMem, false) }); p {
			res = &qresult{Ended: true, Err: "panic: " + msg}
		}
		done <- res
	}()
	limit := inprocLimit
	if hungOnce {
		limit = afterHang
	}
	select {
	case r := <-done:
		return r
	case <-time.After(limit):
		hungOnce = true
		return &qresult{Ended: false, Err: "watchdog: query did not end"}
	}
}

func runChild(db string, in *input, c config) *qresult {
	self, err := os.Executable()
	if err != nil {
		return &qresult{Ended: true, Err: "harness: " + err.Error()}
	}
	p := c.P
	if c.Mode == "taskset" {
		p = 0
	}
	args := []string{self, "child", db, in.Query, ifaceArg(in), strconv.Itoa(maxDays(in)), strconv.FormatBool(c.LowMem), strconv.Itoa(p), strconv.Itoa(c.Procs), strconv.FormatBool(c.KA)}
	if c.Mode == "taskset" {
		args = append([]string{"taskset", "-c", "0"}, args...)
	}
	limit := childLimit
	if hungOnce {
		limit = afterHang
	}
	ctx, cancel := context.WithTimeout(context.Background(), limit)
	defer cancel()
	cmd := exec.CommandContext(ctx, args[0], args[1:]...)
	cmd.Stderr = nil
	out, err := cmd.Output()
	if ctx.Err() != nil {
		hungOnce = true
		return &qresult{Ended: false, Err: "watchdog: query did not end"}
	}
	if err != nil {
		return &qresult{Ended: true, Err: "child failed: " + err.Error()}
	}
	var res qresult
	if err := json.Unmarshal(out, &res); err != nil {
		return &qresult{Ended: true, Err: "child output: " + err.Error()}
	}
	if c.Mode == "taskset" && res.NumCPU != 1 {
		res.Err = fmt.Sprintf("taskset run saw NumCPU=%d", res.NumCPU)
	}
	return &res
}

// child: db query ifaces ndays lowmem p procs ka
func childMain(a []string) {
	if len(a) != 8 {
		os.Exit(2)
	}
	nd, _ := strconv.Atoi(a[3])
	lm, _ := strconv.ParseBool(a[4])
	p, _ := strconv.Atoi(a[5])
	procs, _ := strconv.Atoi(a[6])
	if procs > 0 {
		runtime.GOMAXPROCS(procs)
	}
	if p > 0 {
		engine.VerifSetNumProcessingUnits(p)
	}
	ka, _ := strconv.ParseBool(a[7])
	if ka {
		// info-level logger (the default level) with a slow sink; output discarded
		if _, err := logging.Init(slog.LevelInfo, logging.EncodingJSON, logging.WithOutput(io.Discard),
			logging.WithReplaceAttr(func(_ []string, at slog.Attr) slog.Attr {
				if at.Key == slog.MessageKey && at.Value.String() == "processing stats update" {
					time.Sleep(kaSleep)
				}
				return at
			})); err != nil {
			b, _ := json.Marshal(&qresult{Ended: true, Err: "harness: logger: " + err.Error()})
			os.Stdout.Write(b)
			return
		}
	}
	res := queryOnce(a[0], a[1], a[2], nd, lm, ka)
	b, _ := json.Marshal(res)
	os.Stdout.Write(b)
}

// ------------------------------------------------------------------ generation

func genTemplate(r *vhlib.Rand, small bool) []flow {
	var fl []flow
	nb := 1 + r.Intn(2)
	b := r.Intn(100)
	for k := 0; k < nb; k++ {
		nf := 1 + r.Intn(2)
		if small {
			nf = 1
		}
		seen := map[[4]int]bool{}
		for j := 0; j < nf; j++ {
			f := flow{B: b}
			if r.Chance(70) {
				f.Sip, f.Dip = 1+r.Intn(4), 1+r.Intn(4)
			} else {
				f.Sip, f.Dip = 5+r.Intn(3), 5+r.Intn(3)
			}
			f.Dport, f.Proto = vhlib.Pick(r, dports), vhlib.Pick(r, protos)
			k4 := [4]int{f.Sip, f.Dip, f.Dport, f.Proto}
			if seen[k4] {
				continue
			}
			seen[k4] = true
			for i := range f.C {
				if r.Chance(12) {
					f.C[i] = vhlib.Pick(r, bigs)
				} else {
					f.C[i] = uint64(r.Intn(2000))
				}
			}
			fl = append(fl, f)
		}
		b += 1 + r.Intn(100)
	}
	return fl
}

func genIface(r *vhlib.Rand, name string, nd int) ifaceIn {
	ifc := ifaceIn{Name: name}
	nt := 1 + r.Intn(5)
	for i := 0; i < nt; i++ {
		ifc.Templates = append(ifc.Templates, genTemplate(r, nd > 120))
	}
	for left := nd; left > 0; {
		n := 1 + r.Intn(6)
		if r.Chance(20) {
			n = 1 + r.Intn(40)
		}
		if n > left {
			n = left
		}
		ifc.Days = append(ifc.Days, rle{Count: n, T: r.Intn(nt)})
		left -= n
	}
	return ifc
}

func genSched(r *vhlib.Rand) []int {
	s := make([]int, 24)
	for i := range s {
		s[i] = r.Intn(1000)
	}
	return s
}

var boundaryDays = []int{0, 1, 31, 32, 33, 63, 64, 65, 96, 97, 129}

func termInput(nd int, cfgs []config) input {
	return input{Kind: "term", Query: "sip,dip,dport,proto",
		Ifaces:  []ifaceIn{{Name: "t0", Templates: [][]flow{{{B: 0, Sip: 1, Dip: 2, Dport: 443, Proto: 6, C: [4]uint64{3, 5, 1, 2}}}}, Days: []rle{{Count: nd, T: 0}}}},
		Configs: cfgs, Sched: []int{1, 2, 3, 5, 8, 13, 21, 34}}
}

func gen(r *vhlib.Rand, i int, o vhlib.Opts) any {
	thorough := o.Tier == "thorough"
	// termination probes: one more workload than the original queue could hold
	if i == 0 {
		nd := origCapacity*bulk + 1 // 2049 days = 65 workloads > 64 * 1
		if thorough || o.Search {
			nd = 5000
		}
		return termInput(nd, []config{{Mode: "taskset", P: 1}, {Mode: "child", P: 1, LowMem: true}})
	}
	if i == 1 {
		nd := origCapacity*bulk + 1
		cfgs := []config{{Mode: "child", P: 1, Procs: 1}}
		if thorough || o.Search {
			nd = 2*origCapacity*bulk + 1 // 4097 days = 129 workloads > 64 * 2
			cfgs = []config{{Mode: "child", P: 2}, {Mode: "child", P: 1, LowMem: true, Procs: 2}}
		}
		return termInput(nd, cfgs)
	}
	if i == 2 || i == 3 {
		// keepalive probes: >= 2 workloads, several worker counts, keepalive at every block, slow log sink
		nd := []int{70, 97}[i-2] // 3 and 4 workloads
		if thorough || o.Search {
			nd = []int{130, 161}[i-2]
		}
		in := input{Kind: "ka", Query: []string{"sip,dip", "dport,proto"}[i-2], Sched: genSched(r)}
		in.Ifaces = []ifaceIn{genIface(r, "eth0", nd)}
		in.Configs = []config{{Mode: "hook", P: 3}}
		for j, p := range [][]int{{2, 4, 16}, {3, 1, 8}}[i-2] {
			in.Configs = append(in.Configs, config{Mode: "child", P: p, LowMem: j%2 == 1, KA: true})
		}
		return in
	}
	k := i - 4
	if k < len(boundaryDays) {
		// boundary day counts with every worker count 1..16 and one real one-CPU run
		in := input{Kind: "eq", Query: queryTypes[k%len(queryTypes)], Sched: genSched(r)}
		in.Ifaces = []ifaceIn{genIface(r, "eth0", boundaryDays[k])}
		for p := 1; p <= 16; p++ {
			in.Configs = append(in.Configs, config{Mode: "hook", P: p, LowMem: (p+k)%2 == 0, Procs: []int{0, 1, 2, 4}[p%4]})
		}
		if k%4 == 1 {
			in.Configs = append(in.Configs, config{Mode: "taskset", P: 1, LowMem: k%8 == 1})
		}
		return in
	}
	in := input{Kind: "eq", Query: vhlib.Pick(r, queryTypes), Sched: genSched(r)}
	maxd := 140
	if o.Search || thorough {
		maxd = 330
	}
	if strings.Contains(in.Query, "time") { // one row per block: keep the Coq term small
		maxd = 70
	}
	nif := 1
	if r.Chance(30) {
		nif = 2
	}
	for j := 0; j < nif; j++ {
		nd := 1 + r.Intn(maxd)
		if r.Chance(25) {
			nd = vhlib.Pick(r, boundaryDays[1:]) + 32*r.Intn(3)
		}
		in.Ifaces = append(in.Ifaces, genIface(r, []string{"eth0", "wan1"}[j], nd))
	}
	nc := 6
	if o.Search {
		nc = 10
	}
	lm := r.Bool()
	for j := 0; j < nc; j++ {
		c := config{Mode: "hook", P: 1 + r.Intn(16), LowMem: lm, Procs: vhlib.Pick(r, []int{0, 1, 2, 3, 8, 16})}
		lm = !lm
		if j == nc-1 { // a repetition of the first configuration with the other memory mode
			c = in.Configs[0]
			c.LowMem = !c.LowMem
		}
		in.Configs = append(in.Configs, c)
	}
	if maxDays(&in) > bulk && maxDays(&in) <= 100 && r.Chance(20) {
		in.Configs = append(in.Configs, config{Mode: "child", P: 1 + r.Intn(6), LowMem: r.Bool(), KA: true})
	}
	return in
}

// ------------------------------------------------------------------ Coq printing

func coqN(v uint64) string { return strconv.FormatUint(v, 10) }

func coqC(c [4]uint64) string {
	return "(" + coqN(c[0]) + "," + coqN(c[1]) + "," + coqN(c[2]) + "," + coqN(c[3]) + ")"
}

func coqFlow(f flow) string {
	return fmt.Sprintf("(%d,%d,%d,%d,%d,%s)", f.B, f.Sip, f.Dip, f.Dport, f.Proto, coqC(f.C))
}

func maskOf(q string) int {
	m := 0
	for _, a := range strings.Split(q, ",") {
		switch a {
		case "time":
			m |= 1
		case "sip":
			m |= 2
		case "dip":
			m |= 4
		case "dport":
			m |= 8
		case "proto":
			m |= 16
		}
	}
	return m
}

func run(raw json.RawMessage, o vhlib.Opts) (*vhlib.Case, error) {
	var in input
	if err := json.Unmarshal(raw, &in); err != nil {
		return nil, err
	}
	if len(in.Configs) == 0 || len(in.Ifaces) == 0 {
		return nil, fmt.Errorf("empty case")
	}
	// the database is a function of in.Ifaces only; the one of the previous case is kept so that
	// consecutive cases over the same (large) database do not write it twice
	ib, _ := json.Marshal(in.Ifaces)
	h := fnv.New64a()
	h.Write(ib)
	db := filepath.Join(o.Work, fmt.Sprintf("c11db-%d-%016x", os.Getpid(), h.Sum64()))
	if db != lastDB {
		if lastDB != "" {
			_ = os.RemoveAll(lastDB)
		}
		_ = os.RemoveAll(db)
		lastDB = db
		tw := time.Now()
		if err := writeDB(db, &in); err != nil {
			return nil, fmt.Errorf("writing the database: %w", err)
		}
		if os.Getenv("VERIF_C11_TIMING") != "" {
			fmt.Fprintf(os.Stderr, "db: %d days written in %v\n", maxDays(&in), time.Since(tw))
		}
	}

	var results []*qresult
	tq := time.Now()
	defer func() {
		if os.Getenv("VERIF_C11_TIMING") != "" {
			fmt.Fprintf(os.Stderr, "case: %d configs, queries+print %v\n", len(in.Configs), time.Since(tq))
		}
	}()
	for _, c := range in.Configs {
		if c.Mode == "hook" {
			results = append(results, runInProc(db, &in, c))
		} else {
			results = append(results, runChild(db, &in, c))
		}
	}

	// observed summary
	type obsRun struct {
		Config config `json:"config"`
		Ended  bool   `json:"ended"`
		Err    string `json:"err,omitempty"`
		Digest uint64 `json:"digest"`
		NRows  int    `json:"nrows"`
	}
	var obs struct {
		Runs   []obsRun  `json:"runs"`
		Rows   []row     `json:"rows"`
		Totals [4]uint64 `json:"totals"`
	}
	var runs []string
	allEnded, allSame := true, true
	for j, q := range results {
		ok := q.Ended && q.Err == ""
		d := digest(q)
		obs.Runs = append(obs.Runs, obsRun{Config: in.Configs[j], Ended: q.Ended, Err: q.Err, Digest: d, NRows: len(q.Rows)})
		runs = append(runs, fmt.Sprintf("(%d,%s,%s,%d)", in.Configs[j].P, vhlib.CoqBool(in.Configs[j].LowMem), vhlib.CoqBool(ok), d))
		allEnded = allEnded && ok
		allSame = allSame && d == digest(results[0])
	}
	obs.Rows, obs.Totals = results[0].Rows, results[0].Totals

	// Coq term
	var ifs []string
	total := 0
	for _, ifc := range in.Ifaces {
		var ts []string
		for _, t := range ifc.Templates {
			var fs []string
			for _, f := range t {
				fs = append(fs, coqFlow(f))
			}
			ts = append(ts, vhlib.CoqList(fs))
		}
		var ds []string
		for _, d := range ifc.Days {
			ds = append(ds, fmt.Sprintf("(%d,%d)", d.Count, d.T))
		}
		ifs = append(ifs, "("+vhlib.CoqList(ts)+","+vhlib.CoqList(ds)+")")
		total += numDays(ifc)
	}
	rowsPer := make([][]string, len(in.Ifaces))
	for _, rw := range results[0].Rows {
		if rw.If < 0 || int(rw.If) >= len(in.Ifaces) {
			continue
		}
		rowsPer[rw.If] = append(rowsPer[rw.If], fmt.Sprintf("((%d,%d,%d,%d,%d),%s)", rw.T, rw.Sip, rw.Dip, rw.Dport, rw.Proto, coqC(rw.C)))
	}
	var rowsCoq []string
	for _, rs := range rowsPer {
		rowsCoq = append(rowsCoq, vhlib.CoqList(rs))
	}
	var sched []string
	for _, s := range in.Sched {
		sched = append(sched, strconv.Itoa(s))
	}
	coq := fmt.Sprintf("(mkCase %d %s %s %s %s %s)%%N", maskOf(in.Query), vhlib.CoqList(ifs), vhlib.CoqList(sched),
		vhlib.CoqList(runs), vhlib.CoqList(rowsCoq), coqC(results[0].Totals))

	tags := []string{"kind:" + in.Kind, "query:" + in.Query, fmt.Sprintf("ifaces:%d", len(in.Ifaces)), fmt.Sprintf("configs:%d", len(in.Configs))}
	switch {
	case total == 0:
		tags = append(tags, "days:0")
	case total <= bulk:
		tags = append(tags, "days:1-32(1 workload)")
	case total <= 4*bulk:
		tags = append(tags, "days:33-128")
	case total <= origCapacity*bulk:
		tags = append(tags, "days:129-2048")
	default:
		tags = append(tags, "days:>2048(exceeds original queue at P=1)")
	}
	for _, c := range in.Configs {
		if c.Mode != "hook" {
			tags = append(tags, "mode:"+c.Mode)
		}
		if c.KA {
			tags = append(tags, fmt.Sprintf("keepalive:P=%d", c.P))
		}
	}
	if !allEnded {
		tags = append(tags, "NOT-ENDED")
	}
	if !allSame {
		tags = append(tags, "CONFIGS-DIFFER")
	}
	return &vhlib.Case{Observed: obs, Tags: tags, Nontrivial: total > bulk || in.Kind != "eq", Coq: coq}, nil
}

func main() {
	if len(os.Args) >= 2 && os.Args[1] == "child" {
		childMain(os.Args[2:])
		return
	}
	if len(os.Args) >= 4 && os.Args[1] == "mkdb" { // timing aid: mkdb <dir> <ndays>
		n, _ := strconv.Atoi(os.Args[3])
		in := termInput(n, nil)
		t0 := time.Now()
		err := writeDB(os.Args[2], &in)
		fmt.Println("wrote", n, "days in", time.Since(t0), err)
		return
	}
	vhlib.Main(gen, run)
	if lastDB != "" {
		_ = os.RemoveAll(lastDB)
	}
}
