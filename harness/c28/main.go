// C28 correspondence harness: query.ParseTimeArgument / query.ParseTimeRange on formatted instants
// (every supported layout, several local zones and offsets), relative specifications, decimal time
// stamps and malformed / fuzzed / empty strings. Panics are recovered. "now" is bracketed by two
// clock readings which both go into the case.
package main

import (
	"encoding/json"
	"fmt"
	"strconv"
	"strings"
	"time"
	_ "time/tzdata" // the zone database, embedded: DST zones are loaded without touching the host

	"verifharness/vhlib"

	"github.com/danielgtaylor/huma/v2"
	"github.com/els0r/goProbe/v4/pkg/query"
)

// arg describes how one time argument text is produced
type arg struct {
	K      string `json:"k"` // abs rel int raw empty
	Layout int    `json:"layout,omitempty"`
	Off    int    `json:"off,omitempty"`
	T      int64  `json:"t,omitempty"`
	Syn    int    `json:"syn,omitempty"` // 0: -XdYhZm   1: -Xd:Yh:Zm
	Has    int    `json:"has,omitempty"` // bit 0: d, 1: h, 2: m
	D      int64  `json:"d,omitempty"`
	H      int64  `json:"h,omitempty"`
	M      int64  `json:"m,omitempty"`
	N      int64  `json:"n,omitempty"`
	Plus   bool   `json:"plus,omitempty"`
	Raw    []byte `json:"raw,omitempty"`
	// Pad (kind rel): the numbers are zero-padded to this width ("-01d:08h:09m"); still decimal
	Pad int `json:"pad,omitempty"`
	// NowRel (kinds int, abs): N resp. T is the clock reading at the start of the run plus Delta;
	// kind rels: "-<n>s" (Delta <= 0, past) or "--<n>s" (Delta > 0: the sign accepted by
	// time.ParseDuration makes it a future instant)
	NowRel bool  `json:"nowrel,omitempty"`
	Delta  int64 `json:"delta,omitempty"`
}

type input struct {
	Loc int `json:"loc"`
	// TZ: time.Local is this DST-observing zone instead of the fixed offset Loc. Only used with
	// relative (and empty) arguments: "now minus a duration" must not depend on the zone.
	TZ      string `json:"tz,omitempty"`
	Range   bool   `json:"range,omitempty"`
	Collect bool   `json:"collect,omitempty"` // ParseTimeRangeCollectErrors instead of ParseTimeRange
	A       arg    `json:"a"`
	B       arg    `json:"b,omitempty"`
}

// the supported layouts (the specification's list: time.go at the time the check was written, in
// the order default ++ custom); kept here so that a layout dropped from the code is seen as a
// text that is no longer understood
var layouts = []string{
	"2006-01-02T15:04:05Z07:00",
	"Mon Jan _2 15:04:05 2006",
	"Mon Jan 02 15:04:05 -0700 2006",
	"02 Jan 06 15:04 -0700",
	"Mon, 02 Jan 2006 15:04:05 -0700",
	"2006-01-02 15:04:05",
	"2006-01-02 15:04:05 -0700",
	"2006-01-02 15:04 -0700",
	"2006-01-02 15:04:05",
	"2006-01-02 15:04",
	"06-01-02 15:04:05 -0700",
	"06-01-02 15:04 -0700",
	"06-01-02 15:04:05",
	"06-01-02 15:04",
	"02-01-2006 15:04:05 -0700",
	"02-01-2006 15:04 -0700",
	"02-01-2006 15:04:05",
	"02-01-2006 15:04",
	"02-01-06 15:04:05 -0700",
	"02-01-06 15:04 -0700",
	"02-01-06 15:04:05",
	"02-01-06 15:04",
	"02.01.2006 15:04",
	"02.01.2006 15:04 -0700",
	"02.01.06 15:04",
	"02.01.06 15:04 -0700",
	"2.1.06 15:04:05",
	"2.1.06 15:04:05 -0700",
	"2.1.06 15:04",
	"2.1.06 15:04 -0700",
	"2.1.2006 15:04:05",
	"2.1.2006 15:04:05 -0700",
	"2.1.2006 15:04",
	"2.1.2006 15:04 -0700",
	"02.1.2006 15:04:05",
	"02.1.2006 15:04:05 -0700",
	"02.1.2006 15:04",
	"02.1.2006 15:04 -0700",
	"2.01.2006 15:04:05",
	"2.01.2006 15:04:05 -0700",
	"2.01.2006 15:04",
	"2.01.2006 15:04 -0700",
	"02.1.06 15:04:05",
	"02.1.06 15:04:05 -0700",
	"02.1.06 15:04",
	"02.1.06 15:04 -0700",
	"2.01.06 15:04:05",
	"2.01.06 15:04:05 -0700",
	"2.01.06 15:04",
	"2.01.06 15:04 -0700",
}

func hasTZ(l string) bool  { return strings.Contains(l, "07") }
func hasSec(l string) bool { return strings.Contains(l, "05") }

var locs = []int{0, 0, 3600, 7200, -18000, 19800, 45900, -34200, 50400, -43200}
var offs = []int{0, 0, 3600, -3600, 7200, -25200, 19800, 20700, 45900, -34200, 50400, -43200, 60, -60, 86340, -86340}

const (
	civLo = -31536000  // 1969-01-01T00:00:00 civil
	civHi = 3124224000 // 2069-01-01T00:00:00 civil
)

// civil instants (seconds, as if UTC) at which formatting is delicate
var civilEdges = []string{
	"1969-01-01 00:00:00", "1969-12-31 23:59:59", "1970-01-01 00:00:00", "1970-01-01 00:00:01",
	"1999-12-31 23:59:59", "2000-01-01 00:00:00", "2000-02-29 12:34:56", "2000-03-01 00:00:00",
	"2024-02-29 23:59:59", "2023-02-28 23:59:00", "2024-03-01 00:00:00", "2068-12-31 23:59:59",
	"2068-02-29 00:00:00", "2038-01-19 03:14:07", "2038-01-19 03:14:08", "2001-09-09 01:46:40",
	"2010-10-10 10:10:10", "2011-11-11 11:11:11", "2012-12-12 12:12:12", "2009-09-09 09:09:09",
	"2001-01-01 01:01:01", "2031-12-01 00:00:00", "2012-01-31 23:00:00", "2069-01-01 00:00:00",
	"1968-12-31 23:59:59", "2100-02-28 12:00:00",
}

func civilEdge(i int) int64 {
	t, err := time.ParseInLocation("2006-01-02 15:04:05", civilEdges[i%len(civilEdges)], time.UTC)
	if err != nil {
		panic(err)
	}
	return t.Unix()
}

func genAbs(r *vhlib.Rand, loc int, search bool) arg {
	a := arg{K: "abs", Layout: r.Intn(len(layouts)), Off: vhlib.Pick(r, offs)}
	if r.Chance(25) {
		a.Off = (r.Intn(2*1439) - 1439) * 60
	}
	zone := loc
	if hasTZ(layouts[a.Layout]) {
		zone = a.Off
	}
	var civ int64
	switch {
	case r.Chance(30):
		civ = civilEdge(r.Intn(len(civilEdges)))
		if civ < civLo || civ >= civHi {
			civ = civLo + int64(r.U64()%uint64(civHi-civLo))
		}
	case r.Chance(20):
		// single-digit days and months, month ends
		y := 1969 + r.Intn(100)
		m := 1 + r.Intn(12)
		d := 1 + r.Intn(9)
		if r.Chance(30) {
			d = 28 + r.Intn(4)
		}
		civ = time.Date(y, time.Month(m), d, r.Intn(24), r.Intn(60), r.Intn(60), 0, time.UTC).Unix()
		if civ < civLo || civ >= civHi {
			civ = civLo
		}
	default:
		civ = civLo + int64(r.U64()%uint64(civHi-civLo))
	}
	if !hasSec(layouts[a.Layout]) {
		civ -= ((civ % 60) + 60) % 60
	}
	a.T = civ - int64(zone)
	return a
}

func genRel(r *vhlib.Rand) arg {
	a := arg{K: "rel", Syn: r.Intn(2), Has: 1 + r.Intn(7)}
	small := func() int64 {
		switch r.Intn(6) {
		case 0:
			return 0
		case 1:
			return int64(r.Intn(10))
		case 2:
			return int64(r.Intn(100))
		case 3:
			return int64(r.Intn(100000))
		default:
			return int64(r.Intn(400))
		}
	}
	a.D, a.H, a.M = small(), small(), small()
	if r.Chance(10) {
		a.H = vhlib.Pick(r, []int64{2562047, 2562046, 1 << 20, 24, 23, 25})
		a.M = int64(r.Intn(47)) // 2562047h47m is the largest Duration in whole minutes
	}
	if r.Chance(8) {
		a.D = vhlib.Pick(r, []int64{106751991167300, 1 << 40, 99999999, 36500, 365})
		if a.Syn == 1 && r.Chance(50) {
			a.H = vhlib.Pick(r, []int64{1 << 50, 2562048, 1 << 33})
		}
	}
	if r.Chance(30) {
		a.Pad = 2 + r.Intn(2)
		if r.Chance(50) {
			a.D, a.H, a.M = int64(r.Intn(100)), int64(r.Intn(100)), int64(r.Intn(100))
		}
	}
	if a.Syn == 1 && (a.Has == 1 || a.Has == 2 || a.Has == 4) {
		a.Has |= vhlib.Pick(r, []int{1, 2, 4}) // may stay a single part: then it is the first syntax
	}
	return a
}

var curated = []string{
	"", "-", "--", "-d", "-1d", "-1d1d", "-:", "-1d:", "-1h:30m", "-5", "-0", "+5", "0x10", "1_000", "0", "007",
	"9223372036854775807", "9223372036854775808", "-9223372036854775808d", "-9223372036854775807d",
	"-1.5h", "-1h30m15s", "-1d12h", "-1dd2h", "-d1h", "-1d:2h:3m:4s", "-1x", "-1d:2x", "-:1d", "-1d::2h",
	"-2562047h47m", "-2562047h48m", "-2562048h", "-106751991167301d", "-213503982334601d",
	"-1d2562047h47m", "-1h1h", "-1m1h", "-90m", "-1h0.5m", "-.5h", "-1.h", "-.h", "-1", "-1d1", "-1dh",
	"-+1h", "--1h", "-+1d", "--1d", "--1d:1h", "-1d:-1h", "-1D", "-1d 2h", "- 1d", "-1ms", "-1500ms", "-1us", "-1ns", "-999ms",
	"-1\xc2\xb5s", "-1\xce\xbcs", "-1d1\xc2\xb5s",
	"2024-02-30 10:00", "2023-02-29 10:00:00", "2024-02-29 10:00:00", "2024-04-31 10:00", "2024-01-00 10:00",
	"2024-13-01 10:00", "2024-00-10 10:00", "2024-01-02 24:00", "2024-01-02 23:60", "2024-01-02 23:59:60",
	"5.3.24 7:05", "5.3.24 7:5", "5.3.2024 07:05:09", "05.3.24 7:05", "5.03.24 17:05 +0100", "31.12.99 23:59",
	"mon jan  2 15:04:05 2006", "MON JAN 02 15:04:05 2006", "Mon Jan 2 15:04:05 2006", "Tue Jan  2 15:04:05 2006",
	"Mon Jan _2 15:04:05 2006", "Mon Jax  2 15:04:05 2006", "Mon, 02 Jan 2006 15:04:05 -0700", "Mon,02 Jan 2006 15:04:05 -0700",
	"Mon,  02 Jan 2006 15:04:05  -0700", "02 Jan 06 15:04 -0700", "02 Jan 69 15:04 -0700", "02 Jan 68 15:04 +0000",
	"02 Jan +6 15:04 -0700", "02 Jan -6 15:04 -0700", "02 Jan 6 15:04 -0700",
	"2024-01-02 15:04:05.123", "2024-01-02 15:04:05,123456789012", "2024-01-02 15:04:05.", "2024-01-02 15:04:05.x",
	"2024-01-02T15:04:05.5Z", "2024-01-02T15:04:05Z", "2024-01-02T15:04:05z", "2024-01-02T15:04:05+24:00",
	"2024-01-02T15:04:05+25:00", "2024-01-02T15:04:05+00:60", "2024-01-02T15:04:05+00:61", "2024-01-02T15:04:05-00:00",
	"2024-01-02T15:04:05+0100", "2024-01-02T15:04:05 +01:00", "2024-01-02t15:04:05Z", "2024-01-02T5:04:05Z",
	"2024-01-02 15:04:05 +0100", "2024-01-02 15:04:05 0100", "2024-01-02 15:04:05 *0100", "2024-01-02 15:04:05 -2400",
	"2024-01-02 15:04:05 -2401", "2024-01-02 15:04:05 -0a00", "2024-01-02 15:04:05  -0700", "2024-01-02  15:04:05",
	"2024-01-0215:04:05", "2024-01-02 15:04:05 ", " 2024-01-02 15:04:05", "2024-01-02", "2024-01-02 15", "2024-01-02 15:",
	"2024-1-02 15:04", "24-01-02 15:04", "+4-01-02 15:04", "0000-01-01 00:00", "9999-12-31 23:59:59", "0069-01-01 00:00",
	"69-01-01 00:00", "68-12-31 23:59", "00-01-01 00:00", "31-12-99 00:00", "99-12-31 00:00", "12-11-10 09:08", "32-01-02 00:00",
	"01.02.03 04:05", "1.2.3 4:5", "1.2.03 4:05", "10.11.12 13:14:15 +0000", "10.11.2012 13:14", "\xff\xfe", "2024-01-02 15:04\x00",
	"-01d:08h:09m", "-0d:010h:030m", "-011d:00h:59m", "-0x1d:1h", "-0b1d:1h", "-0o7d:1h", "-1_0d:1h", "-0X1Fd:0h", "-1d:0x10h", "-1d:1_0m:0b11s", "-08d", "-010d08h09m",
	"１２３", "-１d", "1e9", " 12", "12 ", "+", "+-1", "-+", "1234567890123456789012345",
}

func mutate(r *vhlib.Rand, s string) []byte {
	b := []byte(s)
	n := 1 + r.Intn(2)
	for k := 0; k < n; k++ {
		switch r.Intn(5) {
		case 0: // replace a byte
			if len(b) > 0 {
				b[r.Intn(len(b))] = vhlib.Pick(r, []byte("0123456789-+:. ,TZdhmsx_a/"))
			}
		case 1: // delete a byte
			if len(b) > 0 {
				i := r.Intn(len(b))
				b = append(b[:i:i], b[i+1:]...)
			}
		case 2: // insert a byte
			i := r.Intn(len(b) + 1)
			c := vhlib.Pick(r, []byte("0123456789-+:. ,TZdhmsx"))
			b = append(b[:i:i], append([]byte{c}, b[i:]...)...)
		case 3: // truncate
			b = b[:r.Intn(len(b)+1)]
		case 4: // duplicate a space / change case
			if len(b) > 0 {
				i := r.Intn(len(b))
				if b[i] == ' ' {
					b = append(b[:i:i], append([]byte{' '}, b[i:]...)...)
				} else if b[i] >= 'A' && b[i] <= 'z' {
					b[i] ^= 0x20
				}
			}
		}
	}
	return b
}

func genRaw(r *vhlib.Rand, loc int, i int, search bool) arg {
	switch {
	case r.Chance(35):
		a := genAbs(r, loc, search)
		s, _ := render(a, loc)
		return arg{K: "raw", Raw: mutate(r, s)}
	case r.Chance(35):
		a := genRel(r)
		s, _ := render(a, loc)
		if r.Chance(30) {
			s += vhlib.Pick(r, []string{"30s", "1s", "500ms", "1.5h", "0.25m", "2h", "d", ":", ":5s"})
		}
		return arg{K: "raw", Raw: mutate(r, s)}
	case r.Chance(50):
		return arg{K: "raw", Raw: mutate(r, vhlib.Pick(r, curated))}
	default:
		n := r.Intn(12)
		b := make([]byte, n)
		for k := range b {
			if r.Chance(85) {
				b[k] = vhlib.Pick(r, []byte("0123456789-+:. dhms"))
			} else {
				b[k] = byte(r.Intn(256))
			}
		}
		return arg{K: "raw", Raw: b}
	}
}

func genInt(r *vhlib.Rand) arg {
	a := arg{K: "int", Plus: r.Chance(15)}
	switch r.Intn(5) {
	case 0:
		a.N = vhlib.Pick(r, []int64{0, 1, 9, 10, 59, 60, 86399, 86400, 1<<31 - 1, 1 << 31, 1<<63 - 1, 2006, 20060102, 1700000000})
	case 1:
		a.N = int64(r.U64() >> 1)
	default:
		a.N = int64(r.Intn(2000000000))
	}
	return a
}

func genArg(r *vhlib.Rand, loc int, i int, search bool) arg {
	p := r.Intn(100)
	switch {
	case p < 45:
		return genAbs(r, loc, search)
	case p < 65:
		return genRel(r)
	case p < 72:
		return genInt(r)
	default:
		return genRaw(r, loc, i, search)
	}
}

var padded = [][3]int64{{1, 8, 9}, {0, 10, 30}, {11, 0, 59}, {7, 7, 7}, {9, 9, 9}, {10, 30, 11}, {8, 0, 0}, {0, 0, 19}}

var dstZones = []string{"Europe/Zurich", "America/New_York", "Australia/Lord_Howe"}
var dstDays = []int64{1, 30, 90, 150, 177, 178, 200, 250, 300, 365, 400}

var nowDeltas = []int64{-3600, -1, 0, 1, 3600, 315360000}

func layoutIndex(l string) int {
	for i, x := range layouts {
		if x == l {
			return i
		}
	}
	panic("no such layout " + l)
}

// nowRelArg: a text denoting now+delta, as a Unix integer, in three absolute layouts, or relative
func nowRelArg(kind int, delta int64) arg {
	switch kind {
	case 0:
		return arg{K: "int", NowRel: true, Delta: delta}
	case 1:
		return arg{K: "abs", Layout: layoutIndex("2006-01-02 15:04:05"), NowRel: true, Delta: delta}
	case 2:
		return arg{K: "abs", Layout: layoutIndex("2006-01-02T15:04:05Z07:00"), Off: 7200, NowRel: true, Delta: delta}
	case 3:
		return arg{K: "abs", Layout: layoutIndex("02.01.2006 15:04"), NowRel: true, Delta: delta}
	}
	return arg{K: "rels", Delta: delta}
}

// resolve fixes the clock-relative parts of an argument to the reading n0
func resolve(a *arg, n0 int64) {
	if !a.NowRel {
		return
	}
	switch a.K {
	case "int":
		a.N = n0 + a.Delta
	case "abs":
		a.T = n0 + a.Delta
		if !hasSec(layouts[a.Layout]) {
			a.T -= ((a.T % 60) + 60) % 60 // zones are whole minutes
		}
	}
}

func gen(r *vhlib.Rand, i int, o vhlib.Opts) any {
	// deterministic prefix: the curated strings, then every layout at two fixed instants
	if i < len(curated) {
		return input{Loc: locs[i%3], A: arg{K: "raw", Raw: []byte(curated[i])}}
	}
	k := i - len(curated)
	if k < 2*len(layouts) {
		civ := civilEdge(6 + k/len(layouts)*4) // 2000-02-29 12:34:56 / 2024-02-29 23:59:59
		l := k % len(layouts)
		loc := locs[1+k%5]
		off := offs[k%len(offs)]
		if !hasSec(layouts[l]) {
			civ -= civ % 60
		}
		zone := loc
		if hasTZ(layouts[l]) {
			zone = off
		}
		return input{Loc: loc, A: arg{K: "abs", Layout: l, Off: off, T: civ - int64(zone)}}
	}
	if g := k - 2*len(layouts) - 120 - len(dstZones)*len(dstDays)*2; g >= 0 && g < len(padded)*4 {
		// zero-padded components are decimal (08, 09, 010, 030, 011 are not octal)
		p := padded[g%len(padded)]
		w := (g / len(padded)) % 2
		return input{Loc: locs[g%3], A: arg{K: "rel", Syn: 1 - g/(2*len(padded)), Has: 7, D: p[0], H: p[1], M: p[2], Pad: 2 + w}}
	}
	if g := k - 2*len(layouts) - 120; g >= 0 && g < len(dstZones)*len(dstDays)*2 {
		// relative times under zones with DST: X days back is 86400*X seconds, whatever the calendar says
		z := dstZones[g%len(dstZones)]
		x := dstDays[(g/len(dstZones))%len(dstDays)]
		syn := g / (len(dstZones) * len(dstDays))
		return input{TZ: z, A: arg{K: "rel", Syn: syn, Has: 7, D: x, H: int64(g % 24), M: int64(g % 60)}}
	}
	if g := k - 2*len(layouts); g < 120 {
		// open-ended / explicit end x start in the past, around now, in the future x text kinds x both functions
		in := input{Loc: locs[1+g%5], Range: true, Collect: g%2 == 1}
		if (g/2)%2 == 0 {
			in.B = arg{K: "empty"}
		} else {
			in.B = arg{K: "int", NowRel: true}
		}
		in.A = nowRelArg((g/4)%5, nowDeltas[(g/20)%6])
		return in
	}
	loc := vhlib.Pick(r, locs)
	in := input{Loc: loc}
	if r.Chance(26) {
		in.Range = true
		in.Collect = r.Chance(40)
		in.A = genArg(r, loc, i, o.Search)
		in.B = genArg(r, loc, i, o.Search)
		if r.Chance(25) {
			in.A = nowRelArg(r.Intn(5), vhlib.Pick(r, []int64{-3600, -1, 0, 1, 2, 60, 3600, 315360000, -31536000, int64(r.Intn(7200)) - 3600}))
			if r.Chance(60) {
				in.B = arg{K: "empty"}
			} else {
				in.B = arg{K: "int", NowRel: true, Delta: vhlib.Pick(r, []int64{0, 0, 1, -1, 3600, -3600})}
			}
			return in
		}
		if r.Chance(12) {
			in.A = arg{K: "empty"}
		}
		if r.Chance(15) {
			in.B = arg{K: "empty"}
		}
		// make orderings close: same kind of thing on both sides, nearby
		if r.Chance(30) && in.A.K == "abs" {
			in.B = in.A
			in.B.Layout = r.Intn(len(layouts))
			za, zb := loc, loc
			if hasTZ(layouts[in.A.Layout]) {
				za = in.A.Off
			}
			if hasTZ(layouts[in.B.Layout]) {
				zb = in.B.Off
			}
			civ := in.A.T + int64(za)
			civ -= ((civ % 60) + 60) % 60
			in.A.T = civ - int64(za)
			step := []int{0, 0, 60, -60, 3600, -3600}
			if hasSec(layouts[in.A.Layout]) && hasSec(layouts[in.B.Layout]) {
				step = []int{0, 0, 1, -1, 1, -1, 60, -60}
			}
			in.B.T = civ - int64(zb) + int64(vhlib.Pick(r, step))
			if c := in.B.T + int64(zb); c < civLo || c >= civHi {
				in.B.T = in.A.T + int64(za-zb)
			}
		}
		if r.Chance(60) && in.A.K == "int" {
			in.B = arg{K: "int", N: in.A.N + int64(vhlib.Pick(r, []int{0, -1, 1, -1, 2}))}
			if in.B.N < 0 {
				in.B.N = in.A.N
			}
		}
		if r.Chance(30) && in.A.K == "rel" {
			in.B = in.A
			in.B.M += int64(vhlib.Pick(r, []int{0, 0, 1, -1, 2}))
			if in.B.M < 0 {
				in.B.M = 0
			}
			in.B.Has |= 4
		}
		return in
	}
	in.A = genArg(r, loc, i, o.Search)
	if in.A.K == "rel" && r.Chance(40) {
		in.TZ = vhlib.Pick(r, dstZones)
		if r.Chance(60) {
			in.A.Has |= 1
			in.A.D = vhlib.Pick(r, dstDays) + int64(r.Intn(3))
		}
		if r.Chance(30) {
			in.Range, in.Collect, in.B = true, r.Bool(), arg{K: "empty"}
		}
	}
	return in
}

// render produces the text of an argument and reports whether the relative form is inside the
// domain of the specification (no overflow of int64 seconds / of time.Duration)
func render(a arg, loc int) (string, bool) {
	switch a.K {
	case "abs":
		zone := loc
		if hasTZ(layouts[a.Layout]) {
			zone = a.Off
		}
		return time.Unix(a.T, 0).In(time.FixedZone("", zone)).Format(layouts[a.Layout]), true
	case "rel":
		var parts []string
		num := func(v int64) string { return fmt.Sprintf("%0*d", a.Pad, v) }
		if a.Has&1 != 0 {
			parts = append(parts, num(a.D)+"d")
		}
		if a.Has&2 != 0 {
			parts = append(parts, num(a.H)+"h")
		}
		if a.Has&4 != 0 {
			parts = append(parts, num(a.M)+"m")
		}
		sep := ""
		if a.Syn == 1 {
			sep = ":"
		}
		return "-" + strings.Join(parts, sep), true
	case "int":
		s := strconv.FormatInt(a.N, 10)
		if a.Plus {
			s = "+" + s
		}
		return s, true
	case "raw":
		return string(a.Raw), true
	case "rels":
		if a.Delta > 0 {
			return "--" + strconv.FormatInt(a.Delta, 10) + "s", true
		}
		return "-" + strconv.FormatInt(-a.Delta, 10) + "s", true
	}
	return "", true
}

// relDelta: the duration denoted and whether the specification covers it
func relDelta(a arg) (int64, bool) {
	d, h, m := a.D, a.H, a.M
	if a.Has&1 == 0 {
		d = 0
	}
	if a.Has&2 == 0 {
		h = 0
	}
	if a.Has&4 == 0 {
		m = 0
	}
	const lim = int64(1) << 60
	if d > lim/86400 || h > lim/3600 || m > lim/60 {
		return 0, false
	}
	total := 86400*d + 3600*h + 60*m
	single := a.Has == 1 || a.Has == 2 || a.Has == 4
	if a.Syn == 0 || single {
		// the h/m part goes through time.ParseDuration: at most 2^63-1 ns
		if 3600*h+60*m > 9223372036 {
			return 0, false
		}
	}
	return total, true
}

func coqStr(s string) string {
	if vhlib.IsPlain(s) {
		return vhlib.CoqString(s)
	}
	return "(bstr " + vhlib.CoqBytes([]byte(s)) + ")"
}

func expectOf(a arg, s string) (string, []string) {
	switch a.K {
	case "int":
		return "(EInt " + vhlib.CoqZ(a.N) + ")", []string{"int"}
	case "rel":
		d, ok := relDelta(a)
		if !ok {
			return "ENone", []string{"rel-outside-domain"}
		}
		tags := []string{fmt.Sprintf("rel-syn%d-has%d", a.Syn, a.Has)}
		if a.Pad > 0 {
			tags = append(tags, "rel-zero-padded")
		}
		return "(ERel " + vhlib.CoqZ(d) + ")", tags
	case "abs":
		var rs []string
		amb := false
		for j, l := range layouts {
			if t, err := time.ParseInLocation(l, s, time.Local); err == nil {
				rs = append(rs, vhlib.CoqPair(vhlib.CoqNat(j), vhlib.CoqZ(t.Unix())))
				if j != a.Layout && t.Unix() != a.T {
					amb = true
				}
			}
		}
		tags := []string{"abs", "layout:" + layouts[a.Layout]}
		if amb {
			tags = append(tags, "abs-ambiguous")
		}
		return fmt.Sprintf("(EAbs %s %s %s %s)", vhlib.CoqNat(a.Layout), vhlib.CoqZ(int64(a.Off)), vhlib.CoqZ(a.T), vhlib.CoqList(rs)), tags
	case "empty":
		return "ENone", []string{"empty"}
	case "rels":
		tag := "rels-past"
		if a.Delta > 0 {
			tag = "rels-future"
		}
		return "(ERel " + vhlib.CoqZ(-a.Delta) + ")", []string{tag}
	}
	return "ENone", []string{"raw"}
}

// clock runs f between two readings of the wall clock and repeats until the readings are at most
// 2 s apart (and ordered); a run on which that never happens is an infrastructure error, not a case
func clock(f func()) (lo, hi int64, err error) {
	const tries = 200
	for try := 0; try < tries; try++ {
		lo = time.Now().Unix()
		f()
		hi = time.Now().Unix()
		if lo <= hi && hi-lo <= 2 {
			return lo, hi, nil
		}
		time.Sleep(10 * time.Millisecond)
	}
	return lo, hi, fmt.Errorf("clock readings around the call never came within 2 s of each other in %d tries (last: %d .. %d): machine stalled or clock stepping", tries, lo, hi)
}

func resZ(panicked bool, err error, v string) (string, string) {
	if panicked {
		return "Panic", "panic"
	}
	if err != nil {
		return "Err", "err"
	}
	return "(Ok " + v + ")", "ok"
}

func run(raw json.RawMessage, o vhlib.Opts) (*vhlib.Case, error) {
	var in input
	if err := json.Unmarshal(raw, &in); err != nil {
		return nil, err
	}
	time.Local = time.FixedZone("L", in.Loc)
	if in.TZ != "" {
		l, err := time.LoadLocation(in.TZ)
		if err != nil {
			return nil, fmt.Errorf("zone %q not available: %w", in.TZ, err)
		}
		time.Local = l
	}
	c := &vhlib.Case{}
	n0 := time.Now().Unix()
	resolve(&in.A, n0)
	resolve(&in.B, n0)
	sa, _ := render(in.A, in.Loc)
	ea, ta := expectOf(in.A, sa)
	if !in.Range {
		var v int64
		var err error
		var panicked bool
		var pmsg string
		lo, hi, cerr := clock(func() {
			panicked, pmsg = vhlib.Recover(func() { v, err = query.ParseTimeArgument(sa) })
		})
		if cerr != nil {
			return nil, cerr
		}
		obs, cls := resZ(panicked, err, vhlib.CoqZ(v))
		c.Tags = append(append([]string{"arg"}, ta...), cls)
		if in.TZ != "" {
			c.Tags = append(c.Tags, "dst-zone:"+in.TZ)
		}
		c.Nontrivial = in.A.K != "raw" || cls == "ok"
		ob := map[string]any{"text": sa, "class": cls, "lo": lo, "hi": hi}
		if cls == "ok" {
			ob["value"] = v
		}
		if panicked {
			ob["panic"] = pmsg
		}
		if err != nil {
			ob["error"] = err.Error()
		}
		c.Observed = ob
		c.Coq = fmt.Sprintf("CArg %s %s %s %s %s %s", vhlib.CoqZ(int64(in.Loc)), coqStr(sa), vhlib.CoqZ(lo), vhlib.CoqZ(hi), ea, obs)
		return c, nil
	}
	sb, _ := render(in.B, in.Loc)
	eb, tb := expectOf(in.B, sb)
	if in.Collect {
		return runCollect(in, c, sa, sb, ea, eb, ta, tb)
	}
	var f, l int64
	var err error
	var panicked bool
	var pmsg string
	lo, hi, cerr := clock(func() {
		panicked, pmsg = vhlib.Recover(func() { f, l, err = query.ParseTimeRange(sa, sb) })
	})
	if cerr != nil {
		return nil, cerr
	}
	obs, cls := resZ(panicked, err, vhlib.CoqPair(vhlib.CoqZ(f), vhlib.CoqZ(l)))
	c.Tags = []string{"range", "range-" + cls, "first-" + ta[0], "last-" + tb[0], nowTag(in.A)}
	c.Nontrivial = true
	ob := map[string]any{"first_text": sa, "last_text": sb, "class": cls, "lo": lo, "hi": hi}
	if cls == "ok" {
		ob["first"], ob["last"] = f, l
	}
	if panicked {
		ob["panic"] = pmsg
	}
	if err != nil {
		ob["error"] = err.Error()
	}
	c.Observed = ob
	c.Coq = fmt.Sprintf("CRange %s %s %s %s %s %s %s %s", vhlib.CoqZ(int64(in.Loc)), coqStr(sa), coqStr(sb),
		vhlib.CoqZ(lo), vhlib.CoqZ(hi), ea, eb, obs)
	return c, nil
}

func nowTag(a arg) string {
	if a.NowRel || a.K == "rels" {
		switch {
		case a.Delta > 2:
			return "first-future"
		case a.Delta < -2:
			return "first-past"
		}
		return "first-about-now"
	}
	return "first-fixed"
}

func runCollect(in input, c *vhlib.Case, sa, sb, ea, eb string, ta, tb []string) (*vhlib.Case, error) {
	var f, l int64
	var codes []string
	var msgs []string
	var panicked bool
	var pmsg string
	lo, hi, cerr := clock(func() {
		codes, msgs = nil, nil
		panicked, pmsg = vhlib.Recover(func() {
			var details []*huma.ErrorDetail
			f, l, details = query.ParseTimeRangeCollectErrors(sa, sb)
			for _, d := range details {
				msgs = append(msgs, d.Location+": "+d.Message)
				switch {
				case strings.HasPrefix(d.Message, "invalid time interval"):
					codes = append(codes, "3%Z")
				case d.Location == "body.first":
					codes = append(codes, "1%Z")
				case d.Location == "body.last":
					codes = append(codes, "2%Z")
				default:
					codes = append(codes, "9%Z")
				}
			}
		})
	})
	if cerr != nil {
		return nil, cerr
	}
	obs, cls := "Panic", "panic"
	if !panicked {
		cls = "ok"
		if len(codes) > 0 {
			cls = "details"
		}
		obs = fmt.Sprintf("(Ok (%s, %s, %s))", vhlib.CoqZ(f), vhlib.CoqZ(l), vhlib.CoqList(codes))
	}
	c.Tags = []string{"collect", "collect-" + cls, "first-" + ta[0], "last-" + tb[0], nowTag(in.A)}
	c.Nontrivial = true
	ob := map[string]any{"first_text": sa, "last_text": sb, "class": cls, "lo": lo, "hi": hi, "first": f, "last": l, "details": msgs}
	if panicked {
		ob["panic"] = pmsg
	}
	c.Observed = ob
	c.Coq = fmt.Sprintf("CCollect %s %s %s %s %s %s %s %s", vhlib.CoqZ(int64(in.Loc)), coqStr(sa), coqStr(sb),
		vhlib.CoqZ(lo), vhlib.CoqZ(hi), ea, eb, obs)
	return c, nil
}

func main() { vhlib.Main(gen, run) }
