// C17 correspondence harness: enum <-> string maps and JSON round trips of rows, Args,
// Statement and Result, with encoding/json and jsoniter, by value and by pointer.
package main

import (
	"encoding/json"
	"fmt"
	"net/netip"
	"reflect"
	"strconv"
	"strings"
	"time"

	"verifharness/vhlib"

	"github.com/els0r/goProbe/v4/pkg/query"
	"github.com/els0r/goProbe/v4/pkg/results"
	"github.com/els0r/goProbe/v4/pkg/types"
	jsoniter "github.com/json-iterator/go"
)

type input struct {
	Kind string `json:"kind"` // dir sort dirfrom sortfrom row eq
	V    int64  `json:"v,omitempty"`
	S    string `json:"s,omitempty"`
	// row
	Row *rowIn `json:"row,omitempty"`
	// eq: which value, which library, value/pointer, and the seed the value is derived from
	What string `json:"what,omitempty"`
	Lib  string `json:"lib,omitempty"`
	Ptr  bool   `json:"ptr,omitempty"`
	Seed uint64 `json:"seed,omitempty"`
}

type rowIn struct {
	TsSec   int64  `json:"ts_sec"` // with ts_set=false: 0 => zero time
	TsSet   bool   `json:"ts_set,omitempty"` // timestamp is set explicitly (ts_sec may be 0 or negative)
	TsNano  int64  `json:"ts_nano,omitempty"`
	TsZone  int    `json:"ts_zone"`
	Iface   string `json:"iface"`
	Host    string `json:"host"`
	HostID  string `json:"host_id"`
	Sip     string `json:"sip"`
	Dip     string `json:"dip"`
	Proto   uint8  `json:"proto"`
	Dport   uint16 `json:"dport"`
	C       [4]uint64
	Lib     string `json:"lib"`
	Ptr     bool   `json:"ptr"`
}

var names = []string{"", "eth0", "eth1", "t4", "hostA", "b", "123456"}
var addrs = []string{"", "10.0.0.1", "192.168.1.255", "0.0.0.0", "::", "2001:db8::1", "::ffff:1.2.3.4", "fe80::1"}
var bigs = []uint64{0, 1, 2, 255, 65536, 1 << 32, 1<<53 + 1, 1<<63 - 1, 1 << 63, ^uint64(0)}
var dirStrings = []string{"sum", "in", "out", "bi-directional", "unknown", "", "both", "Sum", "bidirectional", "packets", "bytes", "time", "x"}

func genRow(r *vhlib.Rand) *rowIn {
	ri := &rowIn{Iface: vhlib.Pick(r, names), Host: vhlib.Pick(r, names), HostID: vhlib.Pick(r, names),
		Sip: vhlib.Pick(r, addrs), Dip: vhlib.Pick(r, addrs)}
	if r.Chance(70) {
		ri.TsSec = int64(1 + r.Intn(2000000000))
		ri.TsZone = vhlib.Pick(r, []int{0, 0, 3600, -7200, 19800})
	}
	if r.Chance(15) {
		// set time labels at and around the Unix epoch and before it (still "set": IsZero() is false)
		ri.TsSet = true
		ri.TsSec = vhlib.Pick(r, []int64{0, 0, 1, -1, -300, 300, -86400, -2208988800})
		ri.TsNano = vhlib.Pick(r, []int64{0, 0, 500, 999999999})
		ri.TsZone = vhlib.Pick(r, []int{0, 3600, -7200})
	}
	if r.Chance(60) {
		ri.Proto = uint8(vhlib.Pick(r, []int{1, 6, 17, 255, 58}))
	}
	if r.Chance(60) {
		ri.Dport = uint16(vhlib.Pick(r, []int{1, 53, 80, 443, 65535}))
	}
	for i := range ri.C {
		ri.C[i] = vhlib.Pick(r, bigs)
	}
	ri.Lib = vhlib.Pick(r, []string{"std", "jsoniter"})
	ri.Ptr = r.Bool()
	return ri
}

func gen(r *vhlib.Rand, i int, o vhlib.Opts) any {
	// deterministic exhaustive prefix: every enum member and a margin around the range
	if i < 12 {
		return input{Kind: "dir", V: int64(i - 3)}
	}
	if i < 24 {
		return input{Kind: "sort", V: int64(i - 12 - 3)}
	}
	if i < 24+len(dirStrings) {
		return input{Kind: "dirfrom", S: dirStrings[i-24]}
	}
	if i < 24+2*len(dirStrings) {
		return input{Kind: "sortfrom", S: dirStrings[i-24-len(dirStrings)]}
	}
	k := i - 24 - 2*len(dirStrings)
	whats := []string{"args", "statement", "result"}
	if k < 12 {
		return input{Kind: "eq", What: whats[k%3], Lib: []string{"std", "jsoniter"}[(k/3)%2], Ptr: k/6 == 0, Seed: r.U64()}
	}
	if k < 24 {
		// fixed boundary rows: time labels at / around / before the Unix epoch, v4-mapped addresses
		secs := []int64{0, 0, 1, -1, -300, 300}
		nanos := []int64{0, 500, 0, 0, 0, 999999999}
		j := k - 12
		ri := &rowIn{TsSet: true, TsSec: secs[j%6], TsNano: nanos[j%6], TsZone: []int{0, 3600}[j/6], Iface: "eth0",
			Sip: []string{"10.0.0.1", "::ffff:10.0.0.1"}[j/6], Dip: "2001:db8::1", Proto: 6, Dport: 443,
			Lib: []string{"std", "jsoniter"}[j%2], Ptr: j%3 == 0}
		ri.C = [4]uint64{1, 2, 3, 4}
		return input{Kind: "row", Row: ri}
	}
	if r.Chance(35) {
		return input{Kind: "eq", What: vhlib.Pick(r, whats), Lib: vhlib.Pick(r, []string{"std", "jsoniter"}), Ptr: r.Bool(), Seed: r.U64()}
	}
	return input{Kind: "row", Row: genRow(r)}
}

func marshal(lib string, v any) ([]byte, error) {
	if lib == "std" {
		return json.Marshal(v)
	}
	return jsoniter.Marshal(v)
}
func unmarshal(lib string, b []byte, v any) error {
	if lib == "std" {
		return json.Unmarshal(b, v)
	}
	return jsoniter.Unmarshal(b, v)
}

func mkAddr(s string) netip.Addr {
	if s == "" {
		return netip.Addr{}
	}
	return netip.MustParseAddr(s)
}

func mkRow(ri *rowIn) results.Row {
	var row results.Row
	if ri.TsSet {
		row.Labels.Timestamp = time.Unix(ri.TsSec, ri.TsNano).In(time.FixedZone("", ri.TsZone))
	} else if ri.TsSec != 0 {
		row.Labels.Timestamp = time.Unix(ri.TsSec, 0).In(time.FixedZone("", ri.TsZone))
	}
	row.Labels.Iface, row.Labels.Hostname, row.Labels.HostID = ri.Iface, ri.Host, ri.HostID
	row.Attributes.SrcIP, row.Attributes.DstIP = mkAddr(ri.Sip), mkAddr(ri.Dip)
	row.Attributes.IPProto, row.Attributes.DstPort = ri.Proto, ri.Dport
	row.Counters = types.Counters{BytesRcvd: ri.C[0], BytesSent: ri.C[1], PacketsRcvd: ri.C[2], PacketsSent: ri.C[3]}
	return row
}

func optStr(valid bool, s string) string {
	if !valid {
		return "None"
	}
	return "(Some " + vhlib.CoqString(s) + ")"
}

func coqRow(row results.Row) string {
	ts := "None"
	if !row.Labels.Timestamp.IsZero() {
		ts = "(Some " + vhlib.CoqString(row.Labels.Timestamp.Format(time.RFC3339Nano)) + ")"
	}
	u := func(v uint64) string { return strconv.FormatUint(v, 10) + "%Z" }
	return fmt.Sprintf("{| r_labels := {| l_ts := %s; l_iface := %s; l_host := %s; l_hostid := %s |}; "+
		"r_attrs := {| a_sip := %s; a_dip := %s; a_proto := %d%%Z; a_dport := %d%%Z |}; "+
		"r_counters := {| c_br := %s; c_bs := %s; c_pr := %s; c_ps := %s |} |}",
		ts, vhlib.CoqString(row.Labels.Iface), vhlib.CoqString(row.Labels.Hostname), vhlib.CoqString(row.Labels.HostID),
		optStr(row.Attributes.SrcIP.IsValid(), row.Attributes.SrcIP.String()),
		optStr(row.Attributes.DstIP.IsValid(), row.Attributes.DstIP.String()),
		row.Attributes.IPProto, row.Attributes.DstPort,
		u(row.Counters.BytesRcvd), u(row.Counters.BytesSent), u(row.Counters.PacketsRcvd), u(row.Counters.PacketsSent))
}

// projection of arbitrary values into (field, text) pairs; time.Time as UnixNano (zone-normalised)
func project(prefix string, v reflect.Value, out *[][2]string) {
	if v.Type() == reflect.TypeOf(time.Time{}) {
		t := v.Interface().(time.Time)
		if t.IsZero() {
			*out = append(*out, [2]string{prefix, "zero"})
		} else {
			*out = append(*out, [2]string{prefix, strconv.FormatInt(t.UnixNano(), 10)})
		}
		return
	}
	if v.Type() == reflect.TypeOf(netip.Addr{}) {
		*out = append(*out, [2]string{prefix, v.Interface().(netip.Addr).String()})
		return
	}
	switch v.Kind() {
	case reflect.Struct:
		for i := 0; i < v.NumField(); i++ {
			f := v.Type().Field(i)
			if !f.IsExported() || strings.HasPrefix(f.Tag.Get("json"), "-") {
				continue
			}
			project(prefix+"."+f.Name, v.Field(i), out)
		}
	case reflect.Slice:
		*out = append(*out, [2]string{prefix + ".len", strconv.Itoa(v.Len())})
		for i := 0; i < v.Len(); i++ {
			project(prefix+"["+strconv.Itoa(i)+"]", v.Index(i), out)
		}
	case reflect.Map:
		keys := v.MapKeys()
		ks := make([]string, len(keys))
		m := map[string]reflect.Value{}
		for i, k := range keys {
			ks[i] = fmt.Sprint(k.Interface())
			m[ks[i]] = v.MapIndex(k)
		}
		ks = vhlib.SortedCopy(ks)
		*out = append(*out, [2]string{prefix + ".len", strconv.Itoa(len(ks))})
		for _, k := range ks {
			project(prefix+"{"+k+"}", m[k], out)
		}
	case reflect.Ptr, reflect.Interface:
		if v.IsNil() {
			*out = append(*out, [2]string{prefix, "nil"})
		} else {
			project(prefix, v.Elem(), out)
		}
	default:
		*out = append(*out, [2]string{prefix, fmt.Sprint(v.Interface())})
	}
}

func genArgs(r *vhlib.Rand) *query.Args {
	a := &query.Args{Query: vhlib.Pick(r, []string{"sip,dip", "talk_conv", "time,iface,dport"}),
		Ifaces: vhlib.Pick(r, []string{"eth0", "eth0,eth1", "any"}), Condition: vhlib.Pick(r, []string{"", "dport = 80", "sip = 10.0.0.1 & proto = tcp"}),
		In: r.Bool(), Out: r.Bool(), Sum: r.Bool(), First: vhlib.Pick(r, []string{"", "-24h", "1700000000"}), Last: vhlib.Pick(r, []string{"", "-1h"}),
		Format: vhlib.Pick(r, []string{"", "json", "txt", "csv"}), SortBy: vhlib.Pick(r, []string{"", "bytes", "packets", "time"}),
		NumResults: vhlib.Pick(r, bigs), SortAscending: r.Bool(), MaxMemPct: r.Intn(101), LowMem: r.Bool(),
		KeepAlive: time.Duration(r.Intn(5)) * time.Second, Caller: vhlib.Pick(r, names), Live: r.Bool(),
		QueryHosts: vhlib.Pick(r, names), Hostname: vhlib.Pick(r, names), HostID: uint(r.Intn(3)), TimeResolution: vhlib.Pick(r, []string{"", "auto", "10m"})}
	a.DNSResolution.Enabled = r.Bool()
	a.DNSResolution.Timeout = time.Duration(r.Intn(3)) * time.Second
	a.DNSResolution.MaxRows = r.Intn(30)
	return a
}

func genStatement(r *vhlib.Rand) *query.Statement {
	s := &query.Statement{Ifaces: vhlib.Pick(r, [][]string{{"eth0"}, {"eth0", "eth1"}, {}}), QueryType: "sip,dip",
		Condition: vhlib.Pick(r, []string{"", "dport = 80"}), Direction: types.Direction(r.Intn(5)),
		First: int64(r.Intn(2000000000)), Last: int64(r.Intn(2000000000)), TimeBinSize: time.Duration(r.Intn(4)) * 300 * time.Second,
		Format: vhlib.Pick(r, []string{"json", "txt"}), NumResults: vhlib.Pick(r, bigs), SortBy: results.SortOrder(r.Intn(4)),
		SortAscending: r.Bool(), Caller: vhlib.Pick(r, names), MaxMemPct: r.Intn(100), LowMem: r.Bool(),
		KeepAliveDuration: time.Duration(r.Intn(3)) * time.Second, Live: r.Bool()}
	s.LabelSelector.Timestamp, s.LabelSelector.Iface, s.LabelSelector.Hostname, s.LabelSelector.HostID = r.Bool(), r.Bool(), r.Bool(), r.Bool()
	s.DNSResolution.Enabled = r.Bool()
	return s
}

func genResult(r *vhlib.Rand) *results.Result {
	res := results.New()
	res.Hostname = vhlib.Pick(r, names)
	res.Status.Code = vhlib.Pick(r, []types.Status{types.StatusOK, types.StatusEmpty, types.StatusError, types.StatusMissingData})
	res.Status.Message = vhlib.Pick(r, names)
	for i := 0; i < r.Intn(3); i++ {
		res.HostsStatuses["h"+strconv.Itoa(i)] = results.Status{Code: types.StatusOK, Message: vhlib.Pick(r, names)}
	}
	res.Summary.Interfaces = vhlib.Pick(r, [][]string{{"eth0"}, {"a", "b"}, nil})
	if r.Bool() {
		res.Summary.First = time.Unix(int64(1+r.Intn(2000000000)), 0).In(time.FixedZone("", vhlib.Pick(r, []int{0, 3600})))
		res.Summary.Last = time.Unix(int64(1+r.Intn(2000000000)), 0).UTC()
	}
	res.Summary.Totals = types.Counters{BytesRcvd: vhlib.Pick(r, bigs), PacketsSent: vhlib.Pick(r, bigs)}
	res.Summary.Hits.Total, res.Summary.Hits.Displayed = r.Intn(1000), r.Intn(100)
	res.Summary.DataAvailable = r.Bool()
	res.Query.Attributes = vhlib.Pick(r, [][]string{{"sip", "dip"}, {"dport"}})
	res.Query.Condition = vhlib.Pick(r, []string{"", "dport = 80"})
	for i := 0; i < r.Intn(4); i++ {
		res.Rows = append(res.Rows, mkRow(genRow(r)))
	}
	return res
}

func run(raw json.RawMessage, o vhlib.Opts) (*vhlib.Case, error) {
	var in input
	if err := json.Unmarshal(raw, &in); err != nil {
		return nil, err
	}
	c := &vhlib.Case{Tags: []string{in.Kind}}
	switch in.Kind {
	case "dir":
		d := types.Direction(in.V)
		s := d.String()
		back := types.DirectionFromString(s)
		jb := "None"
		b, err := json.Marshal(&d)
		var d2 types.Direction = -77
		if err == nil && json.Unmarshal(b, &d2) == nil {
			jb = "(Some " + vhlib.CoqZ(int64(d2)) + ")"
		}
		c.Observed = map[string]any{"string": s, "back": int(back), "json": string(b), "json_back": int(d2)}
		c.Coq = fmt.Sprintf("CDir %s %s %s %s", vhlib.CoqZ(in.V), vhlib.CoqString(s), vhlib.CoqZ(int64(back)), jb)
		c.Nontrivial = in.V >= 0 && in.V <= 4
	case "sort":
		d := results.SortOrder(in.V)
		s := d.String()
		back := results.SortOrderFromString(s)
		jb := "None"
		b, err := json.Marshal(&d)
		var d2 results.SortOrder = -77
		if err == nil && json.Unmarshal(b, &d2) == nil {
			jb = "(Some " + vhlib.CoqZ(int64(d2)) + ")"
		}
		c.Observed = map[string]any{"string": s, "back": int(back), "json": string(b), "json_back": int(d2)}
		c.Coq = fmt.Sprintf("CSort %s %s %s %s", vhlib.CoqZ(in.V), vhlib.CoqString(s), vhlib.CoqZ(int64(back)), jb)
		c.Nontrivial = in.V >= 0 && in.V <= 3
	case "dirfrom":
		v := types.DirectionFromString(in.S)
		c.Observed = int(v)
		c.Coq = fmt.Sprintf("CDirFrom %s %s", vhlib.CoqString(in.S), vhlib.CoqZ(int64(v)))
	case "sortfrom":
		v := results.SortOrderFromString(in.S)
		c.Observed = int(v)
		c.Coq = fmt.Sprintf("CSortFrom %s %s", vhlib.CoqString(in.S), vhlib.CoqZ(int64(v)))
	case "row":
		row := mkRow(in.Row)
		var b []byte
		var err error
		if in.Row.Ptr {
			b, err = marshal(in.Row.Lib, &row)
		} else {
			b, err = marshal(in.Row.Lib, row)
		}
		if err != nil {
			return nil, fmt.Errorf("marshal row: %w", err)
		}
		tree, err := vhlib.JSONToCoq(b)
		if err != nil {
			return nil, fmt.Errorf("json tree: %w (%s)", err, b)
		}
		var back results.Row
		backCoq := "None"
		if err := unmarshal(in.Row.Lib, b, &back); err == nil {
			backCoq = "(Some " + coqRow(back) + ")"
		}
		// zone-normalised instants agree?
		same := row.Labels.Timestamp.Equal(back.Labels.Timestamp)
		c.Observed = map[string]any{"json": string(b), "instant_equal": same}
		c.Coq = fmt.Sprintf("CRow (%s) %s %s %s", coqRow(row), tree, backCoq, vhlib.CoqBool(same))
		c.Nontrivial = true
		c.Tags = append(c.Tags, in.Row.Lib)
	case "eq":
		r := vhlib.NewRand(in.Seed)
		var orig, back any
		switch in.What {
		case "args":
			orig, back = genArgs(r), &query.Args{}
		case "statement":
			orig, back = genStatement(r), &query.Statement{}
		case "result":
			orig, back = genResult(r), &results.Result{}
		}
		var b []byte
		var err error
		if in.Ptr {
			b, err = marshal(in.Lib, orig)
		} else {
			b, err = marshal(in.Lib, reflect.ValueOf(orig).Elem().Interface())
		}
		var pa, pb [][2]string
		project(in.What, reflect.ValueOf(orig).Elem(), &pa)
		errs := ""
		if err != nil {
			errs = "marshal: " + err.Error()
		} else if err := unmarshal(in.Lib, b, back); err != nil {
			errs = "unmarshal: " + err.Error()
		}
		project(in.What, reflect.ValueOf(back).Elem(), &pb)
		var items []string
		diff := []string{}
		m := map[string]string{}
		for _, kv := range pb {
			m[kv[0]] = kv[1]
		}
		for _, kv := range pa {
			v2, ok := m[kv[0]]
			if !ok {
				v2 = "<absent>"
			}
			// nil and empty slices/maps are the documented-equivalent JSON forms
			if kv[1] != v2 {
				diff = append(diff, kv[0]+": "+kv[1]+" -> "+v2)
			}
			if vhlib.IsPlain(kv[1]) && vhlib.IsPlain(v2) {
				items = append(items, "("+vhlib.CoqString(kv[0])+", "+vhlib.CoqString(kv[1])+", "+vhlib.CoqString(v2)+")")
			}
		}
		c.Observed = map[string]any{"json": string(b), "err": errs, "diff": diff}
		c.Coq = fmt.Sprintf("CEq %s %s %s", vhlib.CoqString(in.What), vhlib.CoqBool(errs == ""), vhlib.CoqList(items))
		c.Nontrivial = true
		c.Tags = append(c.Tags, in.What, in.Lib, map[bool]string{true: "ptr", false: "value"}[in.Ptr])
	default:
		return nil, fmt.Errorf("unknown kind %q", in.Kind)
	}
	return c, nil
}

func main() { vhlib.Main(gen, run) }
