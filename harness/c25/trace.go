package main

import (
	"bufio"
	"bytes"
	"context"
	"encoding/hex"
	"encoding/json"
	"errors"
	"fmt"
	"hash/fnv"
	"io"
	"io/fs"
	"os"
	"os/exec"
	"path/filepath"
	"regexp"
	"runtime"
	"sort"
	"strconv"
	"strings"
	"syscall"
	"time"

	"verifharness/vhlib"

	"github.com/els0r/goProbe/v4/pkg/capture/capturetypes"
	"github.com/els0r/goProbe/v4/pkg/goDB"
	"github.com/els0r/goProbe/v4/pkg/goDB/encoder/encoders"
	"github.com/els0r/goProbe/v4/pkg/goDB/info"
	"github.com/els0r/goProbe/v4/pkg/goDB/storage/gpfile"
	"github.com/els0r/goProbe/v4/pkg/types"
	"github.com/els0r/goProbe/v4/pkg/types/hashmap"
	"github.com/fako1024/gotools/bitpack"
)

func init() {
	// strace's `when=` counters are per thread: every file-system call of a child must be issued by
	// the main thread
	if len(os.Args) > 1 && strings.HasPrefix(os.Args[1], "child-") {
		runtime.LockOSThread()
		setZone(os.Getenv("C25_TZOFF"))
	}
}

// setZone makes time.Local a fixed zone east of UTC by off seconds (the driver runs with TZ=UTC)
func setZone(off string) {
	if v, err := strconv.Atoi(off); err == nil && v != 0 {
		time.Local = time.FixedZone("C25", v)
	} else {
		time.Local = time.UTC
	}
}

// ---------------------------------------------------------------- children

func maybeChild() bool {
	if len(os.Args) < 2 {
		return false
	}
	switch os.Args[1] {
	case "child-merge":
		childMerge()
		return true
	case "child-read":
		childRead()
		return true
	case "child-after":
		childAfter()
		return true
	case "child-write":
		childWrite()
		return true
	}
	return false
}

// child-merge SRC DST IFACES(csv) OVERWRITE DRYRUN TOLSEC
func childMerge() {
	a := os.Args[2:]
	var ifaces []string
	if a[2] != "" {
		ifaces = strings.Split(a[2], ",")
	}
	tol, _ := strconv.ParseInt(a[5], 10, 64)
	fmt.Printf("pid %d\n", os.Getpid())
	_, err := goDB.MergeDatabases(context.Background(), goDB.MergeOptions{
		SourcePath: a[0], DestinationPath: a[1], Interfaces: ifaces,
		Overwrite: a[3] == "1", DryRun: a[4] == "1", CompleteTolerance: time.Duration(tol) * time.Second,
	})
	if err != nil {
		fmt.Fprintln(os.Stderr, "merge error:", err)
		os.Exit(3)
	}
	os.Exit(0)
}

type rawBlock struct {
	TS   int64  `json:"ts"`
	Hash string `json:"h"`
	BR   uint64 `json:"br"`
}
type rawDay struct {
	TS      int64      `json:"ts"`
	Name    string     `json:"name"`
	ReadErr bool       `json:"read_err,omitempty"`
	Blocks  []rawBlock `json:"blocks"`
}
type targetObs struct {
	TS      int64  `json:"ts"`
	Write   string `json:"write"`   // directory name a DirWriter for TS would open
	Recover string `json:"recover"` // directory name a DirReader falls back to (prefix search), "" = none
}
type rawIface struct {
	Targets []targetObs `json:"targets"`
	Iface   string      `json:"iface"`
	Exists  bool        `json:"exists"`
	WalkErr string      `json:"walk_err,omitempty"`
	Walk    []rawDay    `json:"walk"`
	ListErr string      `json:"list_err,omitempty"`
	List    []rawDay    `json:"list"`
}
type rawState struct {
	IfacesErr string     `json:"ifaces_err,omitempty"`
	Ifaces    []string   `json:"ifaces"`
	Per       []rawIface `json:"per"`
}

// readDay reads all blocks of one day directory exactly like the query path opens it
func readDay(ifaceDir string, ts int64, suffix string) ([]rawBlock, error) {
	d := gpfile.NewDirReader(ifaceDir, ts, suffix)
	if err := d.Open(); err != nil {
		return nil, err
	}
	defer d.Close()
	var out []rawBlock
	for bi, b := range d.BlockMetadata[0].Blocks() {
		h := fnv.New64a()
		var br uint64
		for ci := 0; ci < int(types.ColIdxCount); ci++ {
			data, err := d.ReadBlockAtIndex(types.ColumnIndex(ci), bi)
			if err != nil {
				return nil, err
			}
			fmt.Fprintf(h, "%d:%d:", ci, len(data))
			h.Write(data)
			if types.ColumnIndex(ci) == types.BytesRcvdColIdx {
				for _, v := range bitpack.UnpackInto(data, nil) {
					br += v
				}
			}
		}
		out = append(out, rawBlock{TS: b.Timestamp, Hash: hex.EncodeToString(h.Sum(nil)), BR: br})
	}
	return out, nil
}

func dayName(ts int64, suffix string) string {
	if suffix == "" {
		return strconv.FormatInt(ts, 10)
	}
	return strconv.FormatInt(ts, 10) + "_" + suffix
}

// child-read DB PROBE(csv)
func childRead() {
	st := readRaw(os.Args[2], os.Args[3])
	b, _ := json.Marshal(st)
	os.Stdout.Write(b)
}

// child-write DB IFACE TS ID: one real DBWriter write-out (a block with one flow, BytesRcvd = ID) at TS
func childWrite() {
	a := os.Args[2:]
	ts, _ := strconv.ParseInt(a[2], 10, 64)
	id, _ := strconv.ParseUint(a[3], 10, 64)
	m := hashmap.NewAggFlowMap()
	m.PrimaryMap.Set(types.NewV4KeyStatic([4]byte{10, 0, 0, 1}, [4]byte{10, 0, 0, 2}, []byte{0, 80}, 6),
		types.Counters{BytesRcvd: id, BytesSent: 1, PacketsRcvd: 1, PacketsSent: 1})
	if err := goDB.NewDBWriter(a[0], a[1], encoders.EncoderTypeLZ4).Write(m, capturetypes.CaptureStats{}, ts); err != nil {
		fmt.Fprintln(os.Stderr, "write error:", err)
		os.Exit(3)
	}
}

type afterOut struct {
	S1      rawState `json:"s1"`
	LaterOK bool     `json:"later_ok"`
	Msg     string   `json:"msg"`
	S2      rawState `json:"s2"`
}

// child-after PROBE(csv) SRC DST IFACES OVERWRITE DRYRUN TOLSEC: read the tree, run a later uninterrupted merge, read again
func childAfter() {
	a := os.Args[3:]
	var out afterOut
	out.S1 = readRaw(a[1], os.Args[2])
	var ifaces []string
	if a[2] != "" {
		ifaces = strings.Split(a[2], ",")
	}
	tol, _ := strconv.ParseInt(a[5], 10, 64)
	func() {
		defer func() {
			if r := recover(); r != nil {
				out.Msg = fmt.Sprint("panic: ", r)
			}
		}()
		_, err := goDB.MergeDatabases(context.Background(), goDB.MergeOptions{
			SourcePath: a[0], DestinationPath: a[1], Interfaces: ifaces,
			Overwrite: a[3] == "1", DryRun: a[4] == "1", CompleteTolerance: time.Duration(tol) * time.Second,
		})
		out.LaterOK = err == nil
		if err != nil {
			out.Msg = err.Error()
		}
	}()
	out.S2 = readRaw(a[1], os.Args[2])
	b, _ := json.Marshal(out)
	os.Stdout.Write(b)
}

func readRaw(db, probeArg string) rawState {
	var st rawState
	probe, tsCSV, _ := strings.Cut(probeArg, "|")
	var tss []int64
	for _, t := range strings.Split(tsCSV, ",") {
		if v, err := strconv.ParseInt(t, 10, 64); err == nil {
			tss = append(tss, v)
		}
	}
	func() {
		defer func() {
			if r := recover(); r != nil {
				st.IfacesErr = fmt.Sprint("panic: ", r)
			}
		}()
		ifs, err := info.GetInterfaces(db)
		if err != nil {
			st.IfacesErr = err.Error()
		}
		st.Ifaces = ifs
		names := map[string]bool{}
		for _, n := range ifs {
			names[n] = true
		}
		if probe != "" {
			for _, n := range strings.Split(probe, ",") {
				names[n] = true
			}
		}
		var sorted []string
		for n := range names {
			sorted = append(sorted, n)
		}
		sort.Strings(sorted)
		for _, n := range sorted {
			st.Per = append(st.Per, readIface(db, n, tss))
		}
	}()
	return st
}

func readIface(db, n string, tss []int64) (ri rawIface) {
	ri.Iface = n
	ri.Targets = []targetObs{}
	defer func() {
		if r := recover(); r != nil {
			ri.WalkErr = fmt.Sprint("panic: ", r)
		}
	}()
	ifDir := filepath.Join(db, n)
	if fi, err := os.Stat(ifDir); err != nil || !fi.IsDir() {
		return ri // an interface that does not exist holds no data
	}
	ri.Exists = true
	for _, ts := range tss {
		to := targetObs{TS: ts, Write: filepath.Base(gpfile.VerifWritePath(ifDir, ts))}
		if p, err := gpfile.VerifRecoverPath(ifDir, ts, "0-0-0-0-0-0-stale"); err == nil {
			to.Recover = filepath.Base(p)
		}
		ri.Targets = append(ri.Targets, to)
	}
	days, err := goDB.VerifWalkDB(db, n, 0, 4102444800)
	if err != nil {
		ri.WalkErr = err.Error()
	}
	for _, d := range days {
		rd := rawDay{TS: d.Timestamp, Name: dayName(d.Timestamp, d.Suffix)}
		bl, err := readDay(ifDir, d.Timestamp, d.Suffix)
		if err != nil {
			rd.ReadErr = true
		}
		rd.Blocks = bl
		ri.Walk = append(ri.Walk, rd)
	}
	ld, err := goDB.VerifListInterfaceDays(ifDir)
	if err != nil {
		ri.ListErr = err.Error()
	}
	for _, d := range ld {
		ri.List = append(ri.List, rawDay{TS: d.Timestamp, Name: d.DirName})
	}
	return ri
}

// ---------------------------------------------------------------- observed state (hashes mapped to block IDs)

type DayObs struct {
	TS      int64      `json:"ts"`
	Name    string     `json:"name"`
	ReadErr bool       `json:"read_err,omitempty"`
	Blocks  [][2]int64 `json:"blocks"`
}
type PerIface struct {
	Targets []targetObs `json:"targets"`
	Iface   string      `json:"iface"`
	Exists  bool        `json:"exists"`
	WalkErr bool        `json:"walk_err,omitempty"`
	Walk    []DayObs    `json:"walk"`
	ListErr bool        `json:"list_err,omitempty"`
	List    []DayObs    `json:"list"`
	Msg     string      `json:"msg,omitempty"`
}
type State struct {
	IfacesErr bool       `json:"ifaces_err,omitempty"`
	Ifaces    []string   `json:"ifaces"`
	Per       []PerIface `json:"per"`
}

func (s *State) per(n string) *PerIface {
	for i := range s.Per {
		if s.Per[i].Iface == n {
			return &s.Per[i]
		}
	}
	return nil
}

func self() string {
	p, err := os.Executable()
	if err != nil {
		return os.Args[0]
	}
	return p
}

func readState(db string, probe string, hashes map[string]int) (*State, error) {
	ctx, cancel := context.WithTimeout(context.Background(), 60*time.Second)
	defer cancel()
	cmd := exec.CommandContext(ctx, self(), "child-read", db, probe)
	var out, eb bytes.Buffer
	cmd.Stdout, cmd.Stderr = &out, &eb
	if err := cmd.Run(); err != nil {
		return nil, fmt.Errorf("reader child: %v: %s", err, eb.String())
	}
	var rs rawState
	if err := json.Unmarshal(out.Bytes(), &rs); err != nil {
		return nil, fmt.Errorf("reader child output: %v: %q", err, out.String())
	}
	return convState(&rs, hashes), nil
}

func convState(rs *rawState, hashes map[string]int) *State {
	st := &State{IfacesErr: rs.IfacesErr != "", Ifaces: rs.Ifaces}
	if st.Ifaces == nil {
		st.Ifaces = []string{}
	}
	conv := func(ds []rawDay) []DayObs {
		out := []DayObs{}
		for _, d := range ds {
			o := DayObs{TS: d.TS, Name: d.Name, ReadErr: d.ReadErr, Blocks: [][2]int64{}}
			for _, b := range d.Blocks {
				o.Blocks = append(o.Blocks, [2]int64{b.TS, int64(hashes[b.Hash])}) // unknown content: 0
			}
			out = append(out, o)
		}
		return out
	}
	for _, p := range rs.Per {
		st.Per = append(st.Per, PerIface{Targets: p.Targets, Iface: p.Iface, Exists: p.Exists, WalkErr: p.WalkErr != "", Walk: conv(p.Walk),
			ListErr: p.ListErr != "", List: conv(p.List), Msg: strings.TrimSpace(firstN(p.WalkErr+" "+p.ListErr, 160))})
	}
	return st
}

func firstN(s string, n int) string {
	s = strings.TrimSpace(s)
	if len(s) > n {
		return s[:n]
	}
	return s
}

// ---------------------------------------------------------------- building the databases

func writeDB(root string, db []Iface) error {
	if err := os.MkdirAll(root, 0o755); err != nil {
		return err
	}
	for _, ifc := range db {
		w := goDB.NewDBWriter(root, ifc.Name, encoders.EncoderTypeLZ4)
		for _, d := range ifc.Days {
			var wl []goDB.BulkWorkload
			for _, b := range d.Blocks {
				m := hashmap.NewAggFlowMap()
				m.PrimaryMap.Set(types.NewV4KeyStatic([4]byte{10, 0, 0, 1}, [4]byte{10, 0, 0, 2}, []byte{0, 80}, 6),
					types.Counters{BytesRcvd: uint64(b.ID), BytesSent: 1, PacketsRcvd: 1, PacketsSent: 1})
				wl = append(wl, goDB.BulkWorkload{FlowMap: m, CaptureStats: capturetypes.CaptureStats{}, Timestamp: b.TS})
			}
			if err := w.WriteBulk(wl, d.TS); err != nil {
				return err
			}
		}
	}
	return nil
}

const junkStageName = ".gpdb-merge-stage-old1x"
const junkBackupSfx = ".gpdb-merge-backup-5"

func buildBase(in *Input, base string) error {
	dst, src := filepath.Join(base, "dst"), filepath.Join(base, "src")
	if err := writeDB(dst, in.Dst); err != nil {
		return err
	}
	if err := writeDB(src, in.Src); err != nil {
		return err
	}
	if (in.JunkStage || in.JunkBackup) && len(in.Dst) > 0 {
		// first day directory of the first destination interface
		var dayPath string
		_ = filepath.WalkDir(filepath.Join(dst, in.Dst[0].Name), func(p string, d fs.DirEntry, err error) error {
			if err == nil && d.IsDir() && dayPath == "" {
				if _, e := os.Stat(filepath.Join(p, ".blockmeta")); e == nil {
					dayPath = p
				}
			}
			return nil
		})
		if dayPath == "" {
			return errors.New("no day directory for junk")
		}
		rel, _ := filepath.Rel(dst, dayPath)
		if in.JunkStage {
			if err := copyTree(dayPath, filepath.Join(dst, junkStageName, rel)); err != nil {
				return err
			}
		}
		if in.JunkBackup {
			if err := copyTree(dayPath, dayPath+junkBackupSfx); err != nil {
				return err
			}
		}
	}
	return nil
}

func copyTree(src, dst string) error {
	return filepath.WalkDir(src, func(p string, d fs.DirEntry, err error) error {
		if err != nil {
			return err
		}
		rel, _ := filepath.Rel(src, p)
		t := filepath.Join(dst, rel)
		if d.IsDir() {
			return os.MkdirAll(t, 0o755)
		}
		in, err := os.Open(p)
		if err != nil {
			return err
		}
		defer in.Close()
		out, err := os.OpenFile(t, os.O_CREATE|os.O_TRUNC|os.O_WRONLY, 0o644)
		if err != nil {
			return err
		}
		if _, err := io.Copy(out, in); err != nil {
			out.Close()
			return err
		}
		return out.Close()
	})
}

// ---------------------------------------------------------------- raw tree (the model's view of a DB)

type treeEntry struct {
	Path   []string
	Kind   string // dir day partial file
	Blocks [][2]int64
}

// rawTree lists a DB directory with os.ReadDir only; a directory holding a .blockmeta file is a day
// directory whose content is read block by block. It also fills the hash -> block ID table.
func rawTree(root string, hashes map[string]int, in *Input) ([]treeEntry, error) {
	var out []treeEntry
	var rec func(dir string, comps []string) error
	rec = func(dir string, comps []string) error {
		ents, err := os.ReadDir(dir)
		if err != nil {
			return err
		}
		for _, e := range ents {
			p := append(append([]string(nil), comps...), e.Name())
			full := filepath.Join(dir, e.Name())
			if !e.IsDir() {
				out = append(out, treeEntry{Path: p, Kind: "file"})
				continue
			}
			if _, err := os.Stat(filepath.Join(full, ".blockmeta")); err == nil && len(p) >= 4 {
				ts, suffix, perr := gpfile.ExtractTimestampMetadataSuffix(e.Name())
				if perr != nil {
					out = append(out, treeEntry{Path: p, Kind: "partial"})
					continue
				}
				ifDir := filepath.Join(root, filepath.Join(p[:len(p)-3]...))
				bl, rerr := readDay(ifDir, ts, suffix)
				if rerr != nil {
					out = append(out, treeEntry{Path: p, Kind: "partial"})
					continue
				}
				te := treeEntry{Path: p, Kind: "day", Blocks: [][2]int64{}}
				for _, b := range bl {
					if id, ok := hashes[b.Hash]; ok && id != int(b.BR) {
						return fmt.Errorf("hash collision between blocks %d and %d", id, b.BR)
					}
					hashes[b.Hash] = int(b.BR)
					te.Blocks = append(te.Blocks, [2]int64{b.TS, int64(b.BR)})
				}
				out = append(out, te)
				continue
			}
			out = append(out, treeEntry{Path: p, Kind: "dir"})
			if err := rec(full, p); err != nil {
				return err
			}
		}
		return nil
	}
	if err := rec(root, nil); err != nil {
		return nil, err
	}
	return out, nil
}

// ---------------------------------------------------------------- strace

type event struct {
	sys      string // syscall name (inject target)
	idx      int    // 1-based index among the main thread's calls of that name
	dirLevel bool
	norm     string // normalised text, e.g. "mkdir STAGE/eth0"
	kind     string // mkdir rename_out rename_in rename_stage rmdir | fcreate frename funlink
	a, b     []string
	// the previous directory-level call moved an existing day aside
	afterRenameOut bool
}

type traceResult struct {
	exitOK bool
	events []event
}

var stageRe = regexp.MustCompile(`^\.gpdb-merge-stage-[0-9]+$`)
var backupRe = regexp.MustCompile(`\.gpdb-merge-backup-[0-9]{6,}$`)

const modelStage = ".gpdb-merge-stage-X"
const modelNS = "N"

func normComp(c string) string {
	if stageRe.MatchString(c) {
		return modelStage
	}
	if loc := backupRe.FindStringIndex(c); loc != nil {
		return c[:loc[0]] + ".gpdb-merge-backup-" + modelNS
	}
	return c
}

func relComps(dstRoot, p string) ([]string, bool) {
	p = filepath.Clean(p)
	if p == dstRoot {
		return nil, true
	}
	if !strings.HasPrefix(p, dstRoot+"/") {
		return nil, false
	}
	cs := strings.Split(p[len(dstRoot)+1:], "/")
	for i := range cs {
		cs[i] = normComp(cs[i])
	}
	return cs, true
}

func mergeArgs(in *Input, dir string) []string {
	b := func(x bool) string {
		if x {
			return "1"
		}
		return "0"
	}
	return []string{"child-merge", filepath.Join(dir, "src"), filepath.Join(dir, "dst"), strings.Join(in.Ifaces, ","),
		b(in.Overwrite), b(in.DryRun), strconv.FormatInt(in.TolSec, 10)}
}

const traceSet = "trace=mkdirat,mkdir,renameat,renameat2,rename,unlinkat,unlink,rmdir,openat"

// tracedMerge runs the merge child under strace. inject = "" for the calibration run.
func tracedMerge(in *Input, dir, traceFile, inject string) (*traceResult, error) {
	ctx, cancel := context.WithTimeout(context.Background(), 120*time.Second)
	defer cancel()
	args := []string{"-f", "-y", "-s", "4096", "-e", traceSet}
	if inject != "" {
		args = append(args, "-e", "inject="+inject)
	}
	args = append(args, "-o", traceFile, self())
	args = append(args, mergeArgs(in, dir)...)
	cmd := exec.CommandContext(ctx, "strace", args...)
	cmd.Env = append(os.Environ(), "TZ=UTC")
	var out, eb bytes.Buffer
	cmd.Stdout, cmd.Stderr = &out, &eb
	err := cmd.Run()
	killed := false
	exitOK := err == nil
	if err != nil {
		var ee *exec.ExitError
		if !errors.As(err, &ee) {
			return nil, fmt.Errorf("strace: %v: %s", err, eb.String())
		}
		ws := ee.Sys().(syscall.WaitStatus)
		if ws.Signaled() && ws.Signal() == syscall.SIGKILL || ws.ExitStatus() == 137 {
			killed = true
		} else if ws.ExitStatus() != 3 {
			return nil, fmt.Errorf("strace/merge child failed: %v: %s", err, eb.String())
		}
	}
	if inject != "" {
		if !killed {
			return nil, fmt.Errorf("injected kill did not fire (%s): %s", inject, eb.String())
		}
		return &traceResult{}, nil
	}
	if killed {
		return nil, errors.New("calibration run was killed")
	}
	m := regexp.MustCompile(`pid (\d+)`).FindStringSubmatch(out.String())
	if m == nil {
		return nil, fmt.Errorf("merge child printed no pid: %q %q", out.String(), eb.String())
	}
	evs, err := parseTrace(traceFile, m[1], filepath.Join(dir, "dst"))
	if err != nil {
		return nil, err
	}
	return &traceResult{exitOK: exitOK, events: evs}, nil
}

var lineRe = regexp.MustCompile(`^(\d+)\s+(\w+)\((.*)\)\s+= (-?\d+|\?)`)
var unfinRe = regexp.MustCompile(`^(\d+)\s+(\w+)\((.*) <unfinished \.\.\.>$`)
var resumRe = regexp.MustCompile(`^(\d+)\s+<\.\.\. (\w+) resumed>(.*)\)\s+= (-?\d+|\?)`)

// strArgs extracts the path-like arguments: "quoted strings" and fd<path> decorations, in order
var argRe = regexp.MustCompile(`(AT_FDCWD|\d+)<([^>]*)>|"((?:[^"\\]|\\.)*)"|AT_FDCWD`)

func parseTrace(file, mainTID, dstRoot string) ([]event, error) {
	f, err := os.Open(file)
	if err != nil {
		return nil, err
	}
	defer f.Close()
	sc := bufio.NewScanner(f)
	sc.Buffer(make([]byte, 1<<20), 1<<26)
	counts := map[string]int{}
	pending := map[string]string{}
	var evs []event
	lastDirKind := ""
	for sc.Scan() {
		ln := sc.Text()
		var tid, sys, args, ret string
		if m := unfinRe.FindStringSubmatch(ln); m != nil {
			if m[1] == mainTID {
				counts[m[2]]++ // the call is counted when it is entered
				pending[m[2]] = m[3]
			}
			continue
		} else if m := resumRe.FindStringSubmatch(ln); m != nil {
			tid, sys, args, ret = m[1], m[2], pending[m[2]]+m[3], m[4]
			if tid != mainTID {
				continue
			}
		} else if m := lineRe.FindStringSubmatch(ln); m != nil {
			tid, sys, args, ret = m[1], m[2], m[3], m[4]
			if tid != mainTID {
				continue
			}
			counts[sys]++
		} else {
			continue
		}
		if ret != "0" && !(sys == "openat" && ret != "?" && !strings.HasPrefix(ret, "-")) {
			continue
		}
		idx := counts[sys]
		// resolve path arguments
		var paths []string
		am := argRe.FindAllStringSubmatch(args, -1)
		cur := ""
		for _, a := range am {
			switch {
			case a[0] == "AT_FDCWD":
				cur = ""
			case a[1] != "":
				if a[1] == "AT_FDCWD" {
					cur = ""
				} else {
					cur = a[2]
				}
			default:
				s, err := strconv.Unquote(`"` + a[3] + `"`)
				if err != nil {
					s = a[3]
				}
				if !filepath.IsAbs(s) && cur != "" {
					s = filepath.Join(cur, s)
				}
				paths = append(paths, s)
				cur = ""
			}
		}
		ev := event{sys: sys, idx: idx}
		switch sys {
		case "mkdirat", "mkdir":
			if len(paths) < 1 {
				continue
			}
			c, ok := relComps(dstRoot, paths[0])
			if !ok {
				continue
			}
			ev.kind, ev.a, ev.dirLevel = "mkdir", c, true
		case "renameat", "renameat2", "rename":
			if len(paths) < 2 {
				continue
			}
			a, ok1 := relComps(dstRoot, paths[0])
			b, ok2 := relComps(dstRoot, paths[1])
			if !ok1 || !ok2 || len(a) == 0 || len(b) == 0 {
				continue
			}
			ev.a, ev.b = a, b
			switch {
			case strings.HasPrefix(a[len(a)-1], ".tmp-metadata-"):
				ev.kind = "frename"
			case strings.Contains(b[len(b)-1], ".gpdb-merge-backup-"):
				ev.kind, ev.dirLevel = "rename_out", true
			case a[0] == modelStage && b[0] != modelStage:
				ev.kind, ev.dirLevel = "rename_in", true
			case strings.Contains(a[len(a)-1], ".gpdb-merge-backup-"):
				ev.kind, ev.dirLevel = "rename_back", true
			default:
				ev.kind, ev.dirLevel = "rename_stage", true
			}
		case "unlinkat", "unlink", "rmdir":
			if len(paths) < 1 {
				continue
			}
			c, ok := relComps(dstRoot, paths[0])
			if !ok {
				continue
			}
			ev.a = c
			if sys == "rmdir" || strings.Contains(args, "AT_REMOVEDIR") {
				ev.kind, ev.dirLevel = "rmdir", true
			} else {
				ev.kind = "funlink"
			}
		case "openat":
			if !strings.Contains(args, "O_CREAT") || len(paths) < 1 {
				continue
			}
			c, ok := relComps(dstRoot, paths[0])
			if !ok {
				continue
			}
			ev.kind, ev.a = "fcreate", c
		default:
			continue
		}
		ev.norm = ev.kind + " " + strings.Join(ev.a, "/")
		if ev.b != nil {
			ev.norm += " " + strings.Join(ev.b, "/")
		}
		ev.afterRenameOut = lastDirKind == "rename_out"
		if ev.dirLevel {
			lastDirKind = ev.kind
		}
		evs = append(evs, ev)
	}
	return evs, sc.Err()
}

// selectPoints: every directory-level call, and up to n calls of every run of file-level calls
func selectPoints(evs []event, n int) []int {
	var out []int
	i := 0
	for i < len(evs) {
		if evs[i].dirLevel {
			out = append(out, i)
			i++
			continue
		}
		j := i
		for j < len(evs) && !evs[j].dirLevel {
			j++
		}
		// run [i, j)
		picks := map[int]bool{}
		if n >= 1 {
			picks[i+(j-i)/2] = true
		}
		if n >= 2 {
			picks[i] = true
			picks[j-1] = true
		}
		for k := i; k < j; k++ {
			if picks[k] {
				out = append(out, k)
			}
		}
		i = j
	}
	return out
}

func crashPoint(in *Input, base, wd string, tr *traceResult, k int, probe string, hashes map[string]int) (crashObs, [2]*State, error) {
	ev := tr.events[k]
	co := crashObs{K: k, Next: ev.norm}
	for i := 0; i < k; i++ {
		if tr.events[i].dirLevel {
			co.D++
			co.F = 0
		} else {
			co.F = 1
		}
	}
	if ev.dirLevel && co.F == 1 {
		co.F = 2
	}
	if !ev.dirLevel && co.F == 1 {
		co.F = 1
	}
	dir := filepath.Join(wd, fmt.Sprintf("crash%d", k))
	if os.Getenv("C25_KEEP") == "" {
		defer os.RemoveAll(dir)
	}
	if err := copyTree(base, dir); err != nil {
		return co, [2]*State{}, err
	}
	tf := filepath.Join(wd, fmt.Sprintf("trace%d.txt", k))
	if _, err := tracedMerge(in, dir, tf, fmt.Sprintf("%s:signal=SIGKILL:when=%d", ev.sys, ev.idx)); err != nil {
		return co, [2]*State{}, err
	}
	// the kill must have landed on the intended call: the tree must not contain its effect; check the last line
	if b, err := os.ReadFile(tf); err == nil {
		want := ev.a[len(ev.a)-1]
		lines := strings.Split(strings.TrimSpace(string(b)), "\n")
		found := false
		for i := len(lines) - 1; i >= 0 && i >= len(lines)-200; i-- {
			if strings.Contains(lines[i], "= ?") && strings.Contains(lines[i], ev.sys) {
				found = true
				if !strings.Contains(lines[i], "resumed>") && !stageRe.MatchString(want) && !backupRe.MatchString(want) && !strings.HasPrefix(want, ".tmp-metadata-") &&
					want != modelStage && !strings.Contains(want, ".gpdb-merge-backup-"+modelNS) && !strings.Contains(lines[i], want) {
					return co, [2]*State{}, fmt.Errorf("kill landed on a different call: %s (wanted %s)", lines[i], ev.norm)
				}
				break
			}
		}
		if !found {
			return co, [2]*State{}, fmt.Errorf("no killed call found in trace of crash point %d", k)
		}
	}
	if os.Getenv("C25_KEEP") == "" {
		os.Remove(tf)
	}
	// read the crashed tree, run a later uninterrupted merge with the same arguments, read again
	ctx, cancel := context.WithTimeout(context.Background(), 120*time.Second)
	defer cancel()
	args := append([]string{"child-after", probe}, mergeArgs(in, dir)[1:]...)
	cmd := exec.CommandContext(ctx, self(), args...)
	cmd.Env = append(os.Environ(), "TZ=UTC")
	var ob, eb bytes.Buffer
	cmd.Stdout, cmd.Stderr = &ob, &eb
	if err := cmd.Run(); err != nil {
		return co, [2]*State{}, fmt.Errorf("after child: %v: %s", err, eb.String())
	}
	var ao afterOut
	if err := json.Unmarshal(ob.Bytes(), &ao); err != nil {
		return co, [2]*State{}, fmt.Errorf("after child output: %v", err)
	}
	co.LaterOK = ao.LaterOK
	co.LaterMsg = firstN(ao.Msg, 200)
	return co, [2]*State{convState(&ao.S1, hashes), convState(&ao.S2, hashes)}, nil
}

// nameTable: the day directory names seen in any observed state (the name suffix encodes counters, which
// the model does not have): (iface, ts, blocks) -> name
type nameEnt struct {
	Iface  string
	TS     int64
	Blocks [][2]int64
	Name   string
}

func nameTable(states []*State) []nameEnt {
	var out []nameEnt
	seen := map[string]bool{}
	for _, st := range states {
		for _, p := range st.Per {
			for _, d := range p.Walk {
				if d.ReadErr || isArtifact(d.Name) {
					continue
				}
				k := fmt.Sprint(p.Iface, d.TS, d.Blocks, d.Name)
				if !seen[k] {
					seen[k] = true
					out = append(out, nameEnt{p.Iface, d.TS, d.Blocks, d.Name})
				}
			}
		}
	}
	return out
}

// ---------------------------------------------------------------- Coq term

func coqPath(p []string) string { return vhlib.CoqStrings(p) }

func coqBlocks(bl [][2]int64) string {
	xs := make([]string, len(bl))
	for i, b := range bl {
		xs[i] = fmt.Sprintf("(%d,%d)", b[0], b[1])
	}
	return "[" + strings.Join(xs, ";") + "]"
}

func coqTree(t []treeEntry) string {
	xs := make([]string, len(t))
	for i, e := range t {
		var n string
		switch e.Kind {
		case "file":
			n = "NFile"
		case "dir":
			n = "NDir Empty"
		case "partial":
			n = "NDir Partial"
		default:
			n = "NDir (Data " + coqBlocks(e.Blocks) + ")"
		}
		xs[i] = "(" + coqPath(e.Path) + ", " + n + ")"
	}
	return "[" + strings.Join(xs, ";\n   ") + "]"
}

func coqDays(ds []DayObs, withContent bool) string {
	xs := make([]string, len(ds))
	for i, d := range ds {
		if withContent {
			c := "Ok " + coqBlocks(d.Blocks)
			if d.ReadErr {
				c = "Err"
			}
			xs[i] = fmt.Sprintf("(%d, %s, %s)", d.TS, vhlib.CoqString(d.Name), c)
		} else {
			xs[i] = fmt.Sprintf("(%d, %s)", d.TS, vhlib.CoqString(d.Name))
		}
	}
	return "[" + strings.Join(xs, "; ") + "]"
}

func coqState(s *State) string {
	var per []string
	for _, p := range s.Per {
		w := "Ok " + coqDays(p.Walk, true)
		if p.WalkErr {
			w = "Err"
		}
		l := "Ok " + coqDays(p.List, false)
		if p.ListErr {
			l = "Err"
		}
		var tg []string
		for _, t := range p.Targets {
			tg = append(tg, fmt.Sprintf("(%d, %s, %s)", t.TS, vhlib.CoqString(t.Write), vhlib.CoqString(t.Recover)))
		}
		per = append(per, fmt.Sprintf("(%s, %s, %s, [%s])", vhlib.CoqString(p.Iface), w, l, strings.Join(tg, "; ")))
	}
	ifs := "Ok " + vhlib.CoqStrings(s.Ifaces)
	if s.IfacesErr {
		ifs = "Err"
	}
	return fmt.Sprintf("mkOState (%s) [%s]", ifs, strings.Join(per, ";\n     "))
}

func coqOp(e event) string {
	switch e.kind {
	case "mkdir":
		return "Mkdir " + coqPath(e.a)
	case "rmdir":
		return "Rmdir " + coqPath(e.a)
	default:
		return "Rename " + coqPath(e.a) + " " + coqPath(e.b)
	}
}

func coqCase(in *Input, dst, src []treeEntry, probe []string, probeTS []int64, names []nameEnt, tr *traceResult, obs *observed) string {
	var sb strings.Builder
	sb.WriteString("mkCase\n  ")
	sb.WriteString(coqTree(dst))
	sb.WriteString("\n  ")
	sb.WriteString(coqTree(src))
	fmt.Fprintf(&sb, "\n  (mkOpts %s %s %s %d)", vhlib.CoqStrings(in.Ifaces), vhlib.CoqBool(in.Overwrite), vhlib.CoqBool(in.DryRun), in.TolSec)
	fmt.Fprintf(&sb, "\n  %s", vhlib.CoqStrings(probe))
	var pts []string
	for _, t := range probeTS {
		pts = append(pts, fmt.Sprint(t))
	}
	fmt.Fprintf(&sb, "\n  [%s]", strings.Join(pts, "; "))
	fmt.Fprintf(&sb, "\n  (%d)", in.TZOff)
	ns := make([]string, len(names))
	for i, n := range names {
		ns[i] = fmt.Sprintf("(%s, %d, %s, %s)", vhlib.CoqString(n.Iface), n.TS, coqBlocks(n.Blocks), vhlib.CoqString(n.Name))
	}
	fmt.Fprintf(&sb, "\n  [%s]", strings.Join(ns, "; "))
	fmt.Fprintf(&sb, "\n  %s", vhlib.CoqBool(obs.MergeOK))
	var ops []string
	for _, e := range tr.events {
		if e.dirLevel {
			ops = append(ops, coqOp(e))
		}
	}
	fmt.Fprintf(&sb, "\n  [%s]", strings.Join(ops, ";\n   "))
	fmt.Fprintf(&sb, "\n  %d%%nat %d%%nat", obs.Before, obs.Final)
	ps := make([]string, len(obs.Points))
	for i, p := range obs.Points {
		ps[i] = fmt.Sprintf("mkPoint %d%%nat %d%%nat %d%%nat %s %d%%nat", p.D, p.F, p.State, vhlib.CoqBool(p.LaterOK), p.Later)
	}
	fmt.Fprintf(&sb, "\n  [%s]", strings.Join(ps, "; "))
	ss := make([]string, len(obs.States))
	for i, s := range obs.States {
		ss[i] = coqState(s)
	}
	fmt.Fprintf(&sb, "\n  [%s]", strings.Join(ss, ";\n   "))
	return "(" + sb.String() + ")"
}
