// C25 correspondence harness: an interrupted merge never duplicates or hides data.
//
// The REAL merge (goDB.MergeDatabases) runs as a child process of this binary (`child-merge`) on tiny
// generated source/destination DBs written with the real DBWriter. It is traced with strace, killed
// before every directory-level (and sampled file-level) system call, and the REAL readers
// (info.GetInterfaces, the query walk walkDB, the merge listing listInterfaceDays, gpfile block reads)
// are run by a second child (`child-read`) on every resulting tree. See trace.go for the OS part.
package main

import (
	"encoding/json"
	"fmt"
	"os"
	"path/filepath"
	"sort"
	"strings"

	"verifharness/vhlib"
)

// ---------------------------------------------------------------- input

type Block struct {
	TS int64 `json:"ts"`
	ID int   `json:"id"` // the block holds one flow with BytesRcvd = ID; IDs are unique within a case
}
type Day struct {
	TS     int64   `json:"ts"` // day start
	Blocks []Block `json:"blocks"`
}
type Iface struct {
	Name string `json:"name"`
	Days []Day  `json:"days"`
}
type Input struct {
	Dst       []Iface  `json:"dst"`
	Src       []Iface  `json:"src"`
	Ifaces    []string `json:"ifaces,omitempty"` // --iface filter
	Overwrite bool     `json:"overwrite,omitempty"`
	DryRun    bool     `json:"dry_run,omitempty"`
	TolSec    int64    `json:"tol_sec"`
	// leftovers of an earlier interrupted merge already present in the destination
	JunkStage  bool `json:"junk_stage,omitempty"`  // .gpdb-merge-stage-777/<iface>/2024/01/<copy of a day>
	JunkBackup bool `json:"junk_backup,omitempty"` // <first dst day>.gpdb-merge-backup-5 (copy of the day)
	FilePoints int  `json:"file_points"`           // how many file-level crash points per run of file calls
	TZOff      int  `json:"tz_off,omitempty"`      // process time zone of writer, merge and readers: seconds east of UTC
}

const dayLen = 86400

var dayStarts = []int64{1704844800 /* 2024-01-10 */, 1706659200 /* 2024-01-31 */, 1706745600 /* 2024-02-01 */, 1703980800 /* 2023-12-31 */}
var offsets = []int64{300, 600, 43200, 86100, 86399}
var ifNames = []string{"eth0", "eth1", "t4"}

// days of January 2024 used to build month directories with up to 8 day entries
var janDays = []int64{1704240000 /* 03 */, 1704412800 /* 05 */, 1704672000 /* 08 */, 1704844800, /* 10 */
	1705190400 /* 14 */, 1705536000 /* 18 */, 1705881600 /* 22 */, 1706227200 /* 26 */}

// monthCase: a destination month directory with n day entries; the day at position pos is replaced by the merge.
// before=true: copy of a smaller complete source day over a complete day (the merged day sorts directly BEFORE its
// backup: <ts>_2-... < <ts>_3-...backup); false: rebuild (the backup sorts before the merged day)
func monthCase(n, pos int, before bool) Input {
	g := &idgen{}
	var dst Iface
	dst.Name = "eth0"
	for k := 0; k < n; k++ {
		if k == pos {
			if before {
				dst.Days = append(dst.Days, g.day(janDays[k], 300, 43200, 86100))
			} else {
				dst.Days = append(dst.Days, g.day(janDays[k], 300, 600))
			}
		} else {
			dst.Days = append(dst.Days, g.day(janDays[k], 43200))
		}
	}
	in := Input{Dst: []Iface{dst}}
	if before {
		in.Src = []Iface{{"eth0", []Day{g.day(janDays[pos], 300, 86100)}}}
		in.Overwrite = true
		in.TolSec = 0
	} else {
		in.Src = []Iface{{"eth0", []Day{g.day(janDays[pos], 600, 43200)}}}
		in.TolSec = 150
	}
	return in
}

type idgen struct{ n int }

func (g *idgen) day(ts int64, offs ...int64) Day {
	d := Day{TS: ts}
	for _, o := range offs {
		g.n++
		d.Blocks = append(d.Blocks, Block{TS: ts + o, ID: g.n})
	}
	return d
}

func fixedCases() []Input {
	d0, d1, d2 := dayStarts[0], dayStarts[1], dayStarts[2]
	var out []Input
	g := &idgen{}
	// 0 rebuild replacing an existing (both incomplete, overlapping block)
	out = append(out, Input{Dst: []Iface{{"eth0", []Day{g.day(d0, 300, 600)}}}, Src: []Iface{{"eth0", []Day{g.day(d0, 600, 43200)}}}, TolSec: 150, FilePoints: 2})
	g = &idgen{}
	// 1 copy replacing an existing (both complete, overwrite)
	out = append(out, Input{Dst: []Iface{{"eth0", []Day{g.day(d0, 300, 86100)}}}, Src: []Iface{{"eth0", []Day{g.day(d0, 300, 43200, 86100)}}}, TolSec: 0, Overwrite: true, FilePoints: 2})
	g = &idgen{}
	// 2 copy into an empty destination
	out = append(out, Input{Src: []Iface{{"eth0", []Day{g.day(d0, 300, 86100)}}}, TolSec: 0, FilePoints: 1})
	g = &idgen{}
	// 3 rebuild into an empty destination
	out = append(out, Input{Src: []Iface{{"eth1", []Day{g.day(d1, 43200)}}}, TolSec: 150, FilePoints: 1})
	g = &idgen{}
	// 4 skip: both complete, no overwrite
	out = append(out, Input{Dst: []Iface{{"eth0", []Day{g.day(d0, 300, 86100)}}}, Src: []Iface{{"eth0", []Day{g.day(d0, 300, 86100)}}}, TolSec: 0})
	g = &idgen{}
	// 5 two interfaces, several days, mixed actions
	out = append(out, Input{
		Dst:    []Iface{{"eth0", []Day{g.day(d0, 300, 600), g.day(d2, 300, 86100)}}, {"t4", []Day{g.day(d1, 600)}}},
		Src:    []Iface{{"eth0", []Day{g.day(d0, 600, 86399), g.day(d1, 300, 86100), g.day(d2, 300, 86100)}}, {"eth1", []Day{g.day(d1, 300)}}},
		TolSec: 150, FilePoints: 1})
	g = &idgen{}
	// 6 destination already holds leftovers of an earlier interrupted merge
	out = append(out, Input{Dst: []Iface{{"eth0", []Day{g.day(d0, 300, 600)}}}, Src: []Iface{{"eth0", []Day{g.day(d0, 600, 43200)}}}, TolSec: 150, Overwrite: true,
		JunkStage: true, JunkBackup: true, FilePoints: 1})
	g = &idgen{}
	// 7 dry run
	out = append(out, Input{Dst: []Iface{{"eth0", []Day{g.day(d0, 300)}}}, Src: []Iface{{"eth0", []Day{g.day(d0, 600)}}}, TolSec: 150, DryRun: true})
	g = &idgen{}
	// 8 interface filter
	out = append(out, Input{Src: []Iface{{"eth0", []Day{g.day(d0, 300)}}, {"eth1", []Day{g.day(d0, 300)}}}, Ifaces: []string{"eth1"}, TolSec: 150, FilePoints: 1})
	g = &idgen{}
	// 9 requested interface missing in the source: the merge fails before touching anything
	out = append(out, Input{Src: []Iface{{"eth0", []Day{g.day(d0, 300)}}}, Ifaces: []string{"t4"}, TolSec: 150})
	g = &idgen{}
	// 10 overwrite with complete source over incomplete destination (copy replacing)
	out = append(out, Input{Dst: []Iface{{"eth0", []Day{g.day(d0, 43200)}}}, Src: []Iface{{"eth0", []Day{g.day(d0, 300, 86100)}}}, TolSec: 0, Overwrite: true, FilePoints: 1})
	g = &idgen{}
	// 11 huge tolerance: every non-empty day is complete
	out = append(out, Input{Dst: []Iface{{"eth0", []Day{g.day(d0, 43200)}}}, Src: []Iface{{"eth0", []Day{g.day(d0, 600)}}}, TolSec: 100000, Overwrite: true, FilePoints: 1})
	// process time zones away from UTC, days on month and year boundaries, plan action copy
	for _, z := range []struct {
		off  int
		ts   int64
		over bool
	}{{-18000, 1706745600, false}, {-43200, 1704067200, true}, {19800, 1706745600, false}, {50400, 1704067200, true}, {-18000, 1704067200, false}} {
		g := &idgen{}
		in := Input{Src: []Iface{{"eth0", []Day{g.day(z.ts, 300, 86100)}}}, TolSec: 0, TZOff: z.off}
		if z.over {
			in.Dst = []Iface{{"eth0", []Day{g.day(z.ts, 300, 43200, 86100)}}}
			in.Overwrite = true
		}
		out = append(out, in)
	}
	// month directories of several shapes: the merged day first / in the middle / last
	out = append(out, monthCase(3, 0, true), monthCase(7, 4, true), monthCase(4, 0, true), monthCase(8, 7, true),
		monthCase(5, 2, false), monthCase(2, 0, true))
	return out
}

func genInput(r *vhlib.Rand, i int, o vhlib.Opts) any {
	fc := fixedCases()
	if i < len(fc) && !o.Search {
		return fc[i]
	}
	if r.Chance(35) {
		n := 1 + r.Intn(8)
		return monthCase(n, r.Intn(n), r.Chance(70))
	}
	g := &idgen{}
	maxIf, maxDays := 2, 2
	if o.Tier == "thorough" || o.Search {
		maxIf, maxDays = 3, 3
	}
	genDB := func(must bool) []Iface {
		var out []Iface
		names := append([]string(nil), ifNames...)
		n := r.Intn(maxIf + 1)
		if must && n == 0 {
			n = 1
		}
		for k := 0; k < n; k++ {
			j := r.Intn(len(names))
			nm := names[j]
			names = append(names[:j], names[j+1:]...)
			ifc := Iface{Name: nm}
			nd := 1 + r.Intn(maxDays)
			ds := append([]int64(nil), dayStarts...)
			for d := 0; d < nd; d++ {
				// bias to the first two days so that source and destination collide
				var j int
				if r.Chance(70) {
					j = r.Intn(2)
					if j >= len(ds) {
						j = 0
					}
				} else {
					j = r.Intn(len(ds))
				}
				ts := ds[j]
				ds = append(ds[:j], ds[j+1:]...)
				var offs []int64
				switch r.Intn(4) {
				case 0: // complete under the default tolerance
					offs = []int64{300, 86100}
				case 1:
					offs = []int64{300, 43200, 86100}
				default:
					for _, of := range offsets {
						if r.Chance(40) {
							offs = append(offs, of)
						}
					}
					if len(offs) == 0 {
						offs = []int64{vhlib.Pick(r, offsets)}
					}
				}
				ifc.Days = append(ifc.Days, g.day(ts, offs...))
			}
			sort.Slice(ifc.Days, func(a, b int) bool { return ifc.Days[a].TS < ifc.Days[b].TS })
			out = append(out, ifc)
		}
		sort.Slice(out, func(a, b int) bool { return out[a].Name < out[b].Name })
		return out
	}
	in := Input{Dst: genDB(false), Src: genDB(true)}
	in.TolSec = vhlib.Pick(r, []int64{0, 150, 150, 100000})
	in.Overwrite = r.Chance(45)
	in.DryRun = r.Chance(6)
	if r.Chance(20) {
		for _, s := range in.Src {
			if r.Bool() {
				in.Ifaces = append(in.Ifaces, s.Name)
			}
		}
		if r.Chance(15) {
			in.Ifaces = append(in.Ifaces, "nosuch")
		}
	}
	if len(in.Dst) > 0 {
		in.JunkStage = r.Chance(15)
		in.JunkBackup = r.Chance(15)
	}
	in.FilePoints = r.Intn(3)
	if r.Chance(25) {
		in.TZOff = vhlib.Pick(r, []int{-18000, -43200, 19800, 50400, -3600})
	}
	return in
}

// ---------------------------------------------------------------- run

func main() {
	if maybeChild() {
		return
	}
	vhlib.Main(genInput, run)
}

type crashObs struct {
	K        int    `json:"k"`        // index of the call in the normalised event list (kill lands before it)
	D        int    `json:"d"`        // directory-level calls completed before the kill
	F        int    `json:"f"`        // 0: no file-level call since then, 1: inside a run of file calls, 2: run finished
	Next     string `json:"next"`     // the call that was about to be issued
	State    int    `json:"state"`    // index into States
	LaterOK  bool   `json:"later_ok"` // a second, uninterrupted merge on the crashed tree succeeded
	Later    int    `json:"later"`    // state after it
	LaterMsg string `json:"later_msg,omitempty"`
}

type badPoint struct {
	K    int    `json:"k"`
	Next string `json:"next"`
	// the call about to be issued moves the staged day in after the existing day was moved aside
	Window bool   `json:"window"`
	Why    string `json:"why"`
}

type observed struct {
	MergeOK bool       `json:"merge_ok"`
	Ops     []string   `json:"ops"` // normalised directory-level calls of the full merge
	Before  int        `json:"before"`
	Final   int        `json:"final"`
	Points  []crashObs `json:"points"`
	States  []*State   `json:"states"`
	Bad     []badPoint `json:"bad"`
}

func run(raw json.RawMessage, o vhlib.Opts) (*vhlib.Case, error) {
	var in Input
	if err := json.Unmarshal(raw, &in); err != nil {
		return nil, err
	}
	var last error
	for attempt := 0; attempt < 3; attempt++ {
		c, err := runOnce(&in, raw, o, attempt)
		if err == nil {
			return c, nil
		}
		last = err
	}
	return nil, fmt.Errorf("infrastructure failure (3 attempts): %w", last)
}

func runOnce(in *Input, raw json.RawMessage, o vhlib.Opts, attempt int) (*vhlib.Case, error) {
	// every process of this case (this one writes the DBs, the children merge and read) lives in the case's zone
	os.Setenv("C25_TZOFF", fmt.Sprint(in.TZOff))
	setZone(fmt.Sprint(in.TZOff))
	defer setZone("0")
	wd, err := os.MkdirTemp(o.Work, "c25case-")
	if err != nil {
		return nil, err
	}
	if os.Getenv("C25_KEEP") == "" {
		defer os.RemoveAll(wd)
	}
	wd, _ = filepath.Abs(wd)

	base := filepath.Join(wd, "base")
	if err := buildBase(in, base); err != nil {
		return nil, fmt.Errorf("build base: %w", err)
	}
	probeList := probeNames(in)
	probe := strings.Join(probeList, ",") + "|" + probeTimes(in)
	hashes := map[string]int{}
	// model inputs: raw trees of destination and source (own lister; contents via gpfile reads)
	dstTree, err := rawTree(filepath.Join(base, "dst"), hashes, in)
	if err != nil {
		return nil, err
	}
	srcTree, err := rawTree(filepath.Join(base, "src"), hashes, in)
	if err != nil {
		return nil, err
	}

	st := &stateTable{}
	before, err := readState(filepath.Join(base, "dst"), probe, hashes)
	if err != nil {
		return nil, fmt.Errorf("read before: %w", err)
	}
	obs := &observed{Before: st.add(before)}

	// full traced merge
	full := filepath.Join(wd, "full")
	if err := copyTree(base, full); err != nil {
		return nil, err
	}
	tr, err := tracedMerge(in, full, filepath.Join(wd, "trace.txt"), "")
	if err != nil {
		return nil, fmt.Errorf("traced merge: %w", err)
	}
	obs.MergeOK = tr.exitOK
	final, err := readState(filepath.Join(full, "dst"), probe, hashes)
	if err != nil {
		return nil, fmt.Errorf("read final: %w", err)
	}
	obs.Final = st.add(final)
	for _, e := range tr.events {
		if e.dirLevel {
			obs.Ops = append(obs.Ops, e.norm)
		}
	}

	// crash sweep
	points := selectPoints(tr.events, in.FilePoints)
	res := make([]crashObs, len(points))
	states := make([][2]*State, len(points))
	errs := make([]error, len(points))
	parallel(len(points), 16, func(j int) {
		res[j], states[j], errs[j] = crashPoint(in, base, wd, tr, points[j], probe, hashes)
	})
	for j := range points {
		if errs[j] != nil {
			return nil, fmt.Errorf("crash point %d (%s): %w", points[j], tr.events[points[j]].norm, errs[j])
		}
		res[j].State = st.add(states[j][0])
		res[j].Later = st.add(states[j][1])
	}
	obs.Points = res
	obs.States = st.list

	// names the model cannot compute (the directory-name suffix encodes counters): ts -> name, from the final state
	names := nameTable(obs.States)
	obs.Bad = specCheck(obs, tr)

	tags := []string{}
	if in.DryRun {
		tags = append(tags, "dry-run")
	}
	if !tr.exitOK {
		tags = append(tags, "merge-error")
	}
	if in.Overwrite {
		tags = append(tags, "overwrite")
	}
	if in.JunkStage || in.JunkBackup {
		tags = append(tags, "junk-in-dst")
	}
	nren := 0
	for _, op := range obs.Ops {
		if strings.HasPrefix(op, "rename_out") {
			nren++
		}
	}
	if nren > 0 {
		tags = append(tags, "replaces-existing-day")
	}
	tags = append(tags, fmt.Sprintf("crash-points-%d", (len(points)+9)/10*10))
	if len(obs.Bad) > 0 {
		tags = append(tags, "spec-fail")
	}

	c := &vhlib.Case{Observed: obs, Tags: tags, Nontrivial: len(points) > 0}
	c.Coq = coqCase(in, dstTree, srcTree, probeList, probeTSList(in), names, tr, obs)
	return c, nil
}

func probeTSList(in *Input) []int64 {
	m := map[int64]bool{}
	for _, db := range [][]Iface{in.Dst, in.Src} {
		for _, i := range db {
			for _, d := range i.Days {
				m[d.TS] = true
			}
		}
	}
	var out []int64
	for k := range m {
		out = append(out, k)
	}
	sort.Slice(out, func(a, b int) bool { return out[a] < out[b] })
	return out
}

func probeTimes(in *Input) string {
	var xs []string
	for _, t := range probeTSList(in) {
		xs = append(xs, fmt.Sprint(t))
	}
	return strings.Join(xs, ",")
}

func probeNames(in *Input) []string {
	m := map[string]bool{}
	for _, i := range in.Dst {
		m[i.Name] = true
	}
	for _, i := range in.Src {
		m[i.Name] = true
	}
	var out []string
	for k := range m {
		out = append(out, k)
	}
	sort.Strings(out)
	return out
}

type stateTable struct {
	list []*State
	keys []string
}

func (t *stateTable) add(s *State) int {
	b, _ := json.Marshal(s)
	k := string(b)
	for i, x := range t.keys {
		if x == k {
			return i
		}
	}
	t.keys = append(t.keys, k)
	t.list = append(t.list, s)
	return len(t.list) - 1
}

func parallel(n, workers int, f func(int)) {
	ch := make(chan int)
	done := make(chan struct{})
	if workers > n {
		workers = n
	}
	for w := 0; w < workers; w++ {
		go func() {
			for j := range ch {
				f(j)
			}
			done <- struct{}{}
		}()
	}
	for j := 0; j < n; j++ {
		ch <- j
	}
	close(ch)
	for w := 0; w < workers; w++ {
		<-done
	}
}

// specCheck is the Go-side mirror of Corr.holds, used only to classify failing crash points for the
// known-findings predicate (the verdict itself is computed in Coq from the observed data).
func specCheck(obs *observed, tr *traceResult) []badPoint {
	var bad []badPoint
	before, final := obs.States[obs.Before], obs.States[obs.Final]
	for _, p := range obs.Points {
		s := obs.States[p.State]
		why := stateOldOrNew(s, before, final)
		if why == "" && tr.exitOK {
			if !p.LaterOK {
				why = "later-merge-fails"
			} else if w := sameViews(obs.States[p.Later], final); w != "" {
				why = "later-merge-differs:" + w
			}
		}
		if why != "" {
			ev := tr.events[p.K]
			bad = append(bad, badPoint{K: p.K, Next: ev.norm, Window: strings.HasPrefix(ev.norm, "rename_in") && ev.afterRenameOut, Why: why})
		}
	}
	return bad
}

func isArtifact(n string) bool {
	return strings.HasPrefix(n, ".gpdb-merge-") || strings.Contains(n, ".gpdb-merge-backup-")
}

func stateOldOrNew(s, before, final *State) string {
	if s.IfacesErr {
		return "interfaces-error"
	}
	for _, n := range s.Ifaces {
		if isArtifact(n) {
			return "artifact-listed-as-interface:" + n
		}
		if !contains(before.Ifaces, n) && !contains(final.Ifaces, n) {
			return "unknown-interface:" + n
		}
	}
	for _, pi := range s.Per {
		bi, fi := before.per(pi.Iface), final.per(pi.Iface)
		if pi.WalkErr && !(bi != nil && bi.WalkErr) {
			return "walk-error:" + pi.Iface
		}
		if pi.ListErr && !(bi != nil && bi.ListErr) {
			return "list-error:" + pi.Iface
		}
		for _, d := range pi.Walk {
			if isArtifact(d.Name) {
				return "artifact-listed-as-day:" + d.Name
			}
		}
		for _, t := range pi.Targets {
			var names []string
			for _, d := range pi.Walk {
				if d.TS == t.TS {
					names = append(names, d.Name)
				}
			}
			if len(names) > 0 && (!contains(names, t.Write) || !contains(names, t.Recover)) {
				return fmt.Sprintf("prefix-search-misses-day:%d write=%s recover=%s", t.TS, t.Write, t.Recover)
			}
			if isArtifact(t.Write) {
				return "writer-would-open-artifact:" + t.Write
			}
			if isArtifact(t.Recover) {
				return "reader-recovery-picks-artifact:" + t.Recover
			}
		}
		// every day: view is the old one or the new one
		tss := map[int64]bool{}
		for _, x := range []*PerIface{&pi, bi, fi} {
			if x != nil {
				for _, d := range x.Walk {
					tss[d.TS] = true
				}
			}
		}
		for ts := range tss {
			v := dayView(&pi, ts)
			if v != dayView(bi, ts) && v != dayView(fi, ts) {
				return fmt.Sprintf("day-neither-old-nor-new:%s/%d", pi.Iface, ts)
			}
		}
	}
	return ""
}

func sameViews(a, b *State) string {
	if strings.Join(a.Ifaces, ",") != strings.Join(b.Ifaces, ",") {
		return "interfaces"
	}
	for _, pi := range a.Per {
		bi := b.per(pi.Iface)
		x, _ := json.Marshal(pi.Walk)
		var y []byte
		if bi != nil {
			y, _ = json.Marshal(bi.Walk)
		} else {
			y = []byte("null")
		}
		if string(x) != string(y) || (bi != nil && (pi.WalkErr != bi.WalkErr || pi.ListErr != bi.ListErr)) {
			return "days:" + pi.Iface
		}
	}
	return ""
}

func dayView(p *PerIface, ts int64) string {
	if p == nil {
		return "[]"
	}
	var ds []DayObs
	for _, d := range p.Walk {
		if d.TS == ts {
			ds = append(ds, d)
		}
	}
	if len(ds) == 0 {
		return "[]"
	}
	b, _ := json.Marshal(ds)
	return string(b)
}

func contains(xs []string, x string) bool {
	for _, y := range xs {
		if x == y {
			return true
		}
	}
	return false
}
