// C13 correspondence harness: drives the real results.BinTimestamp, results.CalcTimeBinSize,
// (*results.TimeBinner).BinTime, (*query.Statement).PostProcess and (*query.Args).Prepare on generated
// inputs and prints each observation as a Coq term of type GoProbe.C13.Corr.case.
package main

import (
	"context"
	"encoding/json"
	"fmt"
	"net/netip"
	"strconv"
	"time"

	"verifharness/vhlib"

	"github.com/els0r/goProbe/v4/pkg/query"
	"github.com/els0r/goProbe/v4/pkg/results"
	"github.com/els0r/goProbe/v4/pkg/types"
)

const zeroSec = int64(-62135596800) // Unix seconds of time.Time{}

type rowIn struct {
	Sec  int64     `json:"sec"`
	Nsec int64     `json:"nsec"`
	Zone int       `json:"zone"` // 0 UTC (nil loc), 1 time.Local, 2.. fixed zones
	F    [5]int    `json:"f"`    // pool indexes: iface host hostid sip dip
	P    uint8     `json:"p"`
	Q    uint16    `json:"q"`
	C    [4]uint64 `json:"c"`
}

type input struct {
	Kind string `json:"kind"` // bints auto bin post prep
	Ts   int64  `json:"ts,omitempty"`
	Size int64  `json:"size,omitempty"` // time.Duration in ns
	Res  int64  `json:"res,omitempty"`
	Dur  int64  `json:"dur,omitempty"`

	Rows   []rowIn `json:"rows,omitempty"`
	SelTs  bool    `json:"sel_ts,omitempty"`
	NumRes uint64  `json:"numres,omitempty"`
	HitsIn int     `json:"hits_in,omitempty"`

	First  int64  `json:"first,omitempty"`
	Last   int64  `json:"last,omitempty"`
	ResArg string `json:"resarg,omitempty"`
}

// pools of pairwise distinct values; the model sees only the index
var (
	zones    = []*time.Location{nil, time.Local, time.FixedZone("CET", 3600), time.FixedZone("EST", -18000), time.FixedZone("IST", 19800)}
	ifaces   = []string{"", "eth0", "eth1", "wg0"}
	hosts    = []string{"", "hostA", "hostB"}
	hostids  = []string{"", "1", "22"}
	addrStrs = []string{"", "10.0.0.1", "10.0.0.2", "::1", "2001:db8::1", "::ffff:10.0.0.1", "fe80::1%eth0"}
	addrs    []netip.Addr
	addrIdx  = map[netip.Addr]int{}
)

func init() {
	for i, s := range addrStrs {
		var a netip.Addr
		if s != "" {
			a = netip.MustParseAddr(s)
		}
		if _, dup := addrIdx[a]; dup {
			panic("address pool is not duplicate free")
		}
		addrs = append(addrs, a)
		addrIdx[a] = i
	}
}

func idx(pool []string, s string) int {
	for i, p := range pool {
		if p == s {
			return i
		}
	}
	return -1
}

func mkTime(sec, nsec int64, zone int) time.Time {
	t := time.Unix(sec, nsec) // location time.Local
	switch {
	case zone == 0:
		return t.UTC() // location nil; time.Unix(zeroSec, 0).UTC() == time.Time{}
	case zone == 1:
		return t
	}
	return t.In(zones[zone])
}

func zoneOf(t time.Time) int {
	l := t.Location()
	if l == time.UTC {
		return 0
	}
	for i := 1; i < len(zones); i++ {
		if l == zones[i] {
			return i
		}
	}
	return 99
}

func mkRow(ri rowIn) results.Row {
	var row results.Row
	row.Labels.Timestamp = mkTime(ri.Sec, ri.Nsec, ri.Zone)
	row.Labels.Iface, row.Labels.Hostname, row.Labels.HostID = ifaces[ri.F[0]], hosts[ri.F[1]], hostids[ri.F[2]]
	row.Attributes.SrcIP, row.Attributes.DstIP = addrs[ri.F[3]], addrs[ri.F[4]]
	row.Attributes.IPProto, row.Attributes.DstPort = ri.P, ri.Q
	row.Counters = types.Counters{BytesRcvd: ri.C[0], BytesSent: ri.C[1], PacketsRcvd: ri.C[2], PacketsSent: ri.C[3]}
	return row
}

func z(v int64) string {
	if v < 0 {
		return "(" + strconv.FormatInt(v, 10) + ")"
	}
	return strconv.FormatInt(v, 10)
}

// projection of a real row onto the model's observables
type rowOut struct {
	Sec  int64     `json:"sec"`
	Nsec int64     `json:"nsec"`
	Zone int       `json:"zone"`
	F    [5]int    `json:"f"`
	P    uint8     `json:"p"`
	Q    uint16    `json:"q"`
	C    [4]uint64 `json:"c"`
}

func project(row results.Row) (rowOut, error) {
	t := row.Labels.Timestamp
	o := rowOut{Sec: t.Unix(), Nsec: int64(t.Nanosecond()), Zone: zoneOf(t), P: row.Attributes.IPProto, Q: row.Attributes.DstPort,
		C: [4]uint64{row.Counters.BytesRcvd, row.Counters.BytesSent, row.Counters.PacketsRcvd, row.Counters.PacketsSent}}
	si, ok1 := addrIdx[row.Attributes.SrcIP]
	di, ok2 := addrIdx[row.Attributes.DstIP]
	o.F = [5]int{idx(ifaces, row.Labels.Iface), idx(hosts, row.Labels.Hostname), idx(hostids, row.Labels.HostID), si, di}
	if !ok1 || !ok2 || o.F[0] < 0 || o.F[1] < 0 || o.F[2] < 0 || o.Zone == 99 {
		return o, fmt.Errorf("row value outside the pools: %v", row)
	}
	return o, nil
}

func coqRowOut(o rowOut) string {
	return fmt.Sprintf("(R %s %d %d %d %d %d %d %d %d %d %d %d %d %d)", z(o.Sec), o.Nsec, o.Zone,
		o.F[0], o.F[1], o.F[2], o.F[3], o.F[4], o.P, o.Q, o.C[0], o.C[1], o.C[2], o.C[3])
}

func projectRows(rows results.Rows) ([]rowOut, string, error) {
	outs := make([]rowOut, 0, len(rows))
	cs := make([]string, 0, len(rows))
	for _, r := range rows {
		o, err := project(r)
		if err != nil {
			return nil, "", err
		}
		outs = append(outs, o)
		cs = append(cs, coqRowOut(o))
	}
	return outs, vhlib.CoqList(cs), nil
}

func mkRows(in []rowIn) results.Rows {
	rows := make(results.Rows, 0, len(in))
	for _, ri := range in {
		rows = append(rows, mkRow(ri))
	}
	return rows
}

// ---------------------------------------------------------------- generators

const (
	ns  = int64(1)
	sec = int64(time.Second)
	min = int64(time.Minute)
	hr  = int64(time.Hour)
	day = 24 * hr
)

var binSizes = []int64{5 * min, 10 * min, 15 * min, 30 * min, hr, 2 * hr, 6 * hr, 12 * hr, day}
var oddSizes = []int64{0, -5 * min, 1, sec - 1, sec, sec + sec/2, 7 * sec, 7 * min, 7 * day, 365 * day}
var bigs = []uint64{0, 1, 2, 255, 1500, 65536, 1 << 32, 1<<53 + 1, 1<<63 - 1, 1 << 63, ^uint64(0)}

type bt struct{ ts, size int64 }

var binTsFixed = []bt{
	{-1, 5 * min}, {0, 5 * min}, {1, 5 * min}, {299, 5 * min}, {300, 5 * min}, {301, 5 * min},
	{-299, 5 * min}, {-300, 5 * min}, {-301, 5 * min}, {-600, 5 * min}, {-1, day}, {-86400, day}, {-86401, day},
	{1700000000, hr}, {1700000123, hr}, {1699999200, hr}, {1700000123, day}, {1700000123, 0}, {1700000123, -5 * min},
	{1700000123, 1}, {1700000123, sec - 1}, {1700000123, sec}, {1700000123, sec + sec/2}, {-7, sec + sec/2},
	{zeroSec, 5 * min}, {zeroSec + 1, 5 * min}, {zeroSec - 1, 5 * min}, {1 << 40, day}, {-(1 << 40), day},
	{1 << 61, 365 * day}, {-(1 << 61), 365 * day}, {5, 10 * sec}, {-5, 10 * sec}, {-10, 10 * sec}, {-15, 10 * sec},
}

type au struct{ res, dur int64 }

var autoFixed = []au{
	{5 * min, 1}, {5 * min, 287}, {5 * min, 288}, {5 * min, 289}, {5 * min, sec}, {5 * min, 5 * min}, {5 * min, day - 1},
	{5 * min, day}, {5 * min, day + 1}, {5 * min, day + 287}, {5 * min, day + 288}, {5 * min, day + sec}, {5 * min, 2 * day},
	{5 * min, 2*day + sec}, {5 * min, 7 * day}, {5 * min, 30 * day}, {5 * min, 365 * day}, {5 * min, 3650 * day},
	{5 * min, 1<<63 - 1}, {5 * min, 0}, {5 * min, -1}, {5 * min, -day}, {0, day}, {-1, day}, {1, day}, {sec, day},
	{min, 7 * day}, {hr, 7 * day}, {day, 7 * day}, {day + 1, 7 * day}, {25 * hr, day}, {7 * min, 3 * day}, {day, 1<<63 - 1},
}

var resArgs = []string{"", "auto", "5m", "300s", "10m", "15m", "1h", "24h", "7m", "4m", "1s", "0s", "-10m", "1h30m", "90m", "5m1s", "300000000001ns", "bogus", "10"}

func genRest(r *vhlib.Rand) rowIn {
	ri := rowIn{}
	// few distinct label/attribute combinations so that rows meet in one bin
	ri.F = [5]int{r.Intn(2), r.Intn(2), 0, 1 + r.Intn(2), vhlib.Pick(r, []int{0, 2, 3, 5})}
	if r.Chance(15) {
		ri.F = [5]int{r.Intn(len(ifaces)), r.Intn(len(hosts)), r.Intn(len(hostids)), r.Intn(len(addrs)), r.Intn(len(addrs))}
	}
	ri.P = uint8(vhlib.Pick(r, []int{6, 6, 17}))
	ri.Q = uint16(vhlib.Pick(r, []int{0, 443, 443, 53}))
	return ri
}

func genRows(r *vhlib.Rand, size int64, maxRows int) []rowIn {
	n := r.Intn(maxRows + 1)
	if r.Chance(5) {
		n = 0
	}
	base := int64(1700000000) - int64(1700000000)%86400 + int64(r.Intn(10))*3600
	mode := r.Intn(10) // 0: before the epoch, 1: around the epoch, else: realistic
	step := size / sec
	if step <= 0 {
		step = 300
	}
	rests := []rowIn{genRest(r), genRest(r), genRest(r)}
	var rows []rowIn
	for len(rows) < n {
		ri := rests[r.Intn(len(rests))]
		if r.Chance(10) {
			ri = genRest(r)
		}
		// native 5-minute write-out timestamps, sometimes off the grid
		t := base + int64(r.Intn(4))*step + int64(r.Intn(13))*300
		if r.Chance(25) {
			t += int64(r.Intn(600)) - 300
		}
		if r.Chance(10) {
			t = base + int64(r.Intn(4))*step // exactly on a bin end
		}
		switch mode {
		case 0:
			t -= base + 86400*int64(1+r.Intn(3))
		case 1:
			t -= base + 900
		}
		ri.Sec, ri.Nsec, ri.Zone = t, 0, 1
		if r.Chance(30) {
			ri.Zone = r.Intn(len(zones))
		}
		if r.Chance(10) {
			ri.Nsec = int64(vhlib.Pick(r, []int{1, 500000000, 999999999}))
		}
		if r.Chance(12) { // no time label: the zero time.Time, rarely in another location
			ri.Sec, ri.Nsec, ri.Zone = zeroSec, 0, 0
			if r.Chance(25) {
				ri.Zone = r.Intn(len(zones))
			}
		}
		for i := range ri.C {
			ri.C[i] = uint64(r.Intn(100000))
			if r.Chance(20) {
				ri.C[i] = vhlib.Pick(r, bigs)
			}
		}
		rows = append(rows, ri)
		if r.Chance(12) && len(rows) < n { // exact duplicate of the key with other counters
			d := ri
			d.C = [4]uint64{vhlib.Pick(r, bigs), 1, uint64(r.Intn(1000)), vhlib.Pick(r, bigs)}
			rows = append(rows, d)
		}
	}
	return rows
}

func pickSize(r *vhlib.Rand) int64 {
	if r.Chance(15) {
		return vhlib.Pick(r, oddSizes)
	}
	return vhlib.Pick(r, binSizes)
}

func gen(r *vhlib.Rand, i int, o vhlib.Opts) any {
	if i < len(binTsFixed) {
		return input{Kind: "bints", Ts: binTsFixed[i].ts, Size: binTsFixed[i].size}
	}
	i -= len(binTsFixed)
	if i < len(autoFixed) {
		return input{Kind: "auto", Res: autoFixed[i].res, Dur: autoFixed[i].dur}
	}
	i -= len(autoFixed)
	if i < len(resArgs) {
		return input{Kind: "prep", First: 1700000000, Last: 1700000000 + int64(i)*40000, ResArg: resArgs[i]}
	}
	// vhlib seeds are consecutive states of one splitmix64 sequence (seed s+1 = seed s advanced by one
	// step), so without this re-keying seed 2 would replay the cases of seed 1 shifted by one index
	r = vhlib.NewRand(r.U64() ^ (o.Seed+1)*0xD6E8FEB86659FD93 ^ uint64(i)<<40)
	maxRows := 10
	if o.Search {
		maxRows = 16
	}
	switch k := r.Intn(100); {
	case k < 12:
		ts := int64(r.Intn(2000000000))
		switch r.Intn(4) {
		case 0:
			ts = -ts
		case 1:
			ts = int64(r.Intn(2000)) - 1000
		}
		size := pickSize(r)
		if r.Chance(40) {
			ts -= ts % max64(size/sec, 1) // on a multiple
		}
		return input{Kind: "bints", Ts: ts, Size: size}
	case k < 24:
		d := vhlib.Pick(r, []int64{ns, sec, min, hr, day, 7 * day, 30 * day, 365 * day})
		dur := int64(r.Intn(400))*d + vhlib.Pick(r, []int64{0, 0, 1, -1, 287, 288, sec})
		if r.Chance(30) {
			dur = int64(r.Intn(3650))*day + int64(r.Intn(86400))*sec
		}
		res := 5 * min
		if r.Chance(12) {
			res = vhlib.Pick(r, []int64{sec, min, 10 * min, hr, day, day + 1, 0})
		}
		return input{Kind: "auto", Res: res, Dur: dur}
	case k < 34:
		first := int64(1600000000 + r.Intn(100000000))
		span := vhlib.Pick(r, []int64{0, 1, 299, 300, 3600, 86399, 86400, 86401, 7 * 86400, 365 * 86400, 3650 * 86400})
		if r.Chance(50) {
			span = int64(r.Intn(40000000))
		}
		if r.Chance(5) {
			span = -span
		}
		return input{Kind: "prep", First: first, Last: first + span, ResArg: vhlib.Pick(r, resArgs)}
	case k < 67:
		size := pickSize(r)
		return input{Kind: "bin", Size: size, Rows: genRows(r, size, maxRows)}
	default:
		size := pickSize(r)
		if r.Chance(10) {
			size = 5 * min
		}
		in := input{Kind: "post", Size: size, Rows: genRows(r, size, maxRows), SelTs: r.Chance(85), HitsIn: r.Intn(50)}
		if r.Chance(35) {
			in.NumRes = uint64(1 + r.Intn(6))
		} else if r.Chance(30) {
			in.NumRes = query.MaxResults
		}
		return in
	}
}

func max64(a, b int64) int64 {
	if a > b {
		return a
	}
	return b
}

// ---------------------------------------------------------------- run

func run(raw json.RawMessage, o vhlib.Opts) (*vhlib.Case, error) {
	var in input
	if err := json.Unmarshal(raw, &in); err != nil {
		return nil, err
	}
	c := &vhlib.Case{Tags: []string{in.Kind}}
	ctx := context.Background()
	switch in.Kind {
	case "bints":
		var got int64
		if p, msg := vhlib.Recover(func() { got = results.BinTimestamp(in.Ts, time.Duration(in.Size)) }); p {
			return nil, fmt.Errorf("BinTimestamp panicked: %s", msg)
		}
		c.Observed = got
		s := in.Size / sec
		switch {
		case s <= 0:
			c.Tags = append(c.Tags, "size<=0")
		case in.Ts%s == 0:
			c.Tags = append(c.Tags, "on-multiple")
		case in.Ts < 0:
			c.Tags = append(c.Tags, "negative-ts")
		default:
			c.Tags = append(c.Tags, "positive-ts")
		}
		c.Nontrivial = s > 0
		c.Coq = fmt.Sprintf("CBinTs %s %s %s", z(in.Ts), z(in.Size), z(got))

	case "auto":
		var got time.Duration
		p, _ := vhlib.Recover(func() { got = results.CalcTimeBinSize(time.Duration(in.Res), time.Duration(in.Dur)) })
		obs := "(Ok " + z(int64(got)) + ")"
		c.Observed = int64(got)
		if p {
			obs, c.Observed = "Panic", "panic"
			c.Tags = append(c.Tags, "panic")
		}
		switch {
		case in.Res != 5*min:
			c.Tags = append(c.Tags, "other-resolution")
		case in.Dur <= 0:
			c.Tags = append(c.Tags, "dur<=0")
		case in.Dur < 288:
			c.Tags = append(c.Tags, "dur<288ns")
		case in.Dur <= day:
			c.Tags = append(c.Tags, "dur<=1d")
		default:
			c.Tags = append(c.Tags, "dur>1d")
		}
		c.Nontrivial = in.Res == 5*min && in.Dur > 0
		c.Coq = fmt.Sprintf("CAuto %s %s %s", z(in.Res), z(in.Dur), obs)

	case "bin":
		res := &results.Result{Rows: mkRows(in.Rows)}
		b := results.NewTimeBinner(0, time.Duration(in.Size))
		var err error
		if p, msg := vhlib.Recover(func() { err = b.BinTime(ctx, res) }); p || err != nil {
			return nil, fmt.Errorf("BinTime failed: %s %v", msg, err)
		}
		out1, coq1, err := projectRows(res.Rows)
		if err != nil {
			return nil, err
		}
		// a second pass over its own output
		res2 := &results.Result{Rows: append(results.Rows(nil), res.Rows...)}
		if p, msg := vhlib.Recover(func() { err = b.BinTime(ctx, res2) }); p || err != nil {
			return nil, fmt.Errorf("BinTime (2nd) failed: %s %v", msg, err)
		}
		out2, coq2, err := projectRows(res2.Rows)
		if err != nil {
			return nil, err
		}
		c.Observed = map[string]any{"rows": out1, "rows2": out2}
		c.Tags = append(c.Tags, rowTags(in, len(out1))...)
		c.Nontrivial = len(out1) >= 2 && len(out1) < len(in.Rows)
		_, coqIn, _ := projectRows(mkRows(in.Rows))
		c.Coq = fmt.Sprintf("CBin %s %s %s %s", z(in.Size), coqIn, coq1, coq2)

	case "post":
		stmt := &query.Statement{TimeBinSize: time.Duration(in.Size), NumResults: in.NumRes}
		stmt.LabelSelector.Timestamp = in.SelTs
		res := &results.Result{Rows: mkRows(in.Rows)}
		res.Summary.Hits.Total = in.HitsIn
		res.Summary.First, res.Summary.Last = time.Unix(1700000000, 0), time.Unix(1700086400, 0)
		var err error
		if p, msg := vhlib.Recover(func() { err = stmt.PostProcess(ctx, res) }); p || err != nil {
			return nil, fmt.Errorf("PostProcess failed: %s %v", msg, err)
		}
		out, coqOut, err := projectRows(res.Rows)
		if err != nil {
			return nil, err
		}
		c.Observed = map[string]any{"rows": out, "total": res.Summary.Hits.Total, "displayed": res.Summary.Hits.Displayed}
		c.Tags = append(c.Tags, rowTags(in, len(out))...)
		if in.NumRes != 0 && in.NumRes <= uint64(len(in.Rows)) {
			c.Tags = append(c.Tags, "limit")
		}
		if !in.SelTs || in.Size == 5*min {
			c.Tags = append(c.Tags, "not-rebinned")
		}
		c.Nontrivial = in.SelTs && in.Size != 5*min && len(out) >= 1 && len(out) < len(in.Rows)
		_, coqIn, _ := projectRows(mkRows(in.Rows))
		nr := in.NumRes
		c.Coq = fmt.Sprintf("CPost %s %s %s %d %s %s %d %d", vhlib.CoqBool(in.SelTs), z(in.Size), strconv.FormatUint(nr, 10),
			in.HitsIn, coqIn, coqOut, res.Summary.Hits.Total, res.Summary.Hits.Displayed)

	case "prep":
		a := query.NewArgs("time,sip", "eth0")
		a.Format = "json"
		a.First, a.Last = strconv.FormatInt(in.First, 10), strconv.FormatInt(in.Last, 10)
		a.TimeResolution = in.ResArg
		var stmt *query.Statement
		var err error
		if p, msg := vhlib.Recover(func() { stmt, err = a.Prepare() }); p || stmt == nil {
			return nil, fmt.Errorf("Prepare failed: %s %v", msg, err)
		}
		if !stmt.LabelSelector.Timestamp {
			return nil, fmt.Errorf("time label not selected")
		}
		if err != nil {
			de, ok := err.(*query.DetailError)
			if !ok {
				return nil, fmt.Errorf("unexpected Prepare error: %v", err)
			}
			for _, d := range de.Errors {
				if d.Location != "body.time_resolution" && !(d.Location == "body.first" && in.First > in.Last) {
					return nil, fmt.Errorf("unexpected Prepare error at %s: %s", d.Location, d.Message)
				}
			}
		}
		arg := "RNone"
		switch in.ResArg {
		case "":
		case "auto":
			arg = "RAuto"
			c.Tags = append(c.Tags, "auto")
		default:
			d, perr := time.ParseDuration(in.ResArg)
			arg = "(RDur " + vhlib.CoqOption(perr == nil, z(int64(d))) + ")"
			c.Tags = append(c.Tags, "explicit")
		}
		c.Observed = map[string]any{"err": err != nil, "size": int64(stmt.TimeBinSize)}
		c.Nontrivial = in.ResArg != "" && err == nil
		c.Coq = fmt.Sprintf("CPrep %s %s %s %s %s", z(in.First), z(in.Last), arg, vhlib.CoqBool(err != nil), z(int64(stmt.TimeBinSize)))
	default:
		return nil, fmt.Errorf("unknown kind %q", in.Kind)
	}
	return c, nil
}

func rowTags(in input, nOut int) []string {
	var tags []string
	neg, zero, zoned, nsec := false, false, false, false
	for _, r := range in.Rows {
		if r.Sec == zeroSec && r.Nsec == 0 {
			zero = true
			continue
		}
		neg = neg || r.Sec < 0
		zoned = zoned || r.Zone != 1
		nsec = nsec || r.Nsec != 0
	}
	for k, v := range map[string]bool{"negative-ts": neg, "zero-ts": zero, "zones": zoned, "nsec": nsec} {
		if v {
			tags = append(tags, k)
		}
	}
	tags = vhlib.SortedCopy(tags)
	switch {
	case len(in.Rows) == 0:
		tags = append(tags, "empty")
	case nOut < len(in.Rows):
		tags = append(tags, "merged")
	default:
		tags = append(tags, "no-merge")
	}
	if in.Size/sec <= 0 || in.Size%(5*min) != 0 {
		tags = append(tags, "odd-size")
	}
	return tags
}

func main() { vhlib.Main(gen, run) }
