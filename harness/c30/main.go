// C30 harness: queries / listings running during write-outs see a consistent snapshot per day.
//
// The REAL writer (DBWriter.Write, child `child-write30`) and the REAL reader (query path
// of every interface run on one thread through the hook goDB.VerifQueryInline, or DBWorkManager.ReadMetadata;
// child `child-read30`) run as two processes traced with ptrace by a controller. Each process is stopped at
// the ENTRY of every system call that touches the DB tree; the controller lets exactly one of them execute its
// pending call (and run on to its next DB call) at a time, following the schedule of the case input
// (writer calls, reader calls, writer calls, ...). The schedule is therefore deterministic and replayable.
// Observed: the reader's DB system calls (kind, target, success) and its result; compared in Coq with the
// model run on the same schedule (corr) and with the specification (holds).
package main

import (
	"crypto/sha1"
	"encoding/hex"
	"encoding/json"
	"errors"
	"flag"
	"fmt"
	"os"
	"os/exec"
	"path/filepath"
	"runtime"
	"sort"
	"strconv"
	"strings"
	"sync"
	"sync/atomic"
	"syscall"
	"time"

	"verifharness/c04/wo"
	"verifharness/vhlib"

	"github.com/els0r/goProbe/v4/pkg/capture/capturetypes"
	"github.com/els0r/goProbe/v4/pkg/goDB"
	"github.com/els0r/goProbe/v4/pkg/goDB/encoder/encoders"
	"github.com/els0r/goProbe/v4/pkg/goDB/info"
	"github.com/els0r/goProbe/v4/pkg/goDB/storage/gpfile"
	"github.com/els0r/goProbe/v4/pkg/types"
	"github.com/els0r/goProbe/v4/pkg/types/hashmap"
)

func init() {
	// every file-system call of the reader child must be issued by the main thread (the only traced one)
	if len(os.Args) > 1 && (os.Args[1] == "child-read30" || os.Args[1] == "child-write30") {
		runtime.LockOSThread()
	}
}

// ready stops the child (SIGSTOP to itself): the controller lets it run freely up to this point and
// traces its system calls from here on
func ready() {
	if os.Getenv("C30_TRACED") != "" {
		syscall.Kill(syscall.Getpid(), syscall.SIGSTOP)
	}
}

// child-write30 <dbroot> <history.json>: all write-outs of the history with the real DBWriter (as the C04
// library's child-write: main thread locked, one progress line per write-out on fd 3)
func childWrite30() {
	root := os.Args[2]
	raw, err := os.ReadFile(os.Args[3])
	if err != nil {
		fmt.Fprintln(os.Stderr, err)
		os.Exit(4)
	}
	var hist []wo.WriteOut
	if err := json.Unmarshal(raw, &hist); err != nil {
		fmt.Fprintln(os.Stderr, err)
		os.Exit(4)
	}
	maps := make([]*hashmap.AggFlowMap, len(hist))
	for j := range hist {
		maps[j] = wo.BuildMap(hist[j])
	}
	out := os.NewFile(3, "progress")
	ready()
	for j, w := range hist {
		dw := goDB.NewDBWriter(root, w.Iface, encoders.EncoderTypeLZ4)
		res := wo.ChildWriteResult{J: j}
		func() {
			defer func() {
				if r := recover(); r != nil {
					res.Err = fmt.Sprint("panic: ", r)
				}
			}()
			if err := dw.Write(maps[j], capturetypes.CaptureStats{Dropped: w.Drops}, w.TS); err != nil {
				res.Err = err.Error()
			} else {
				res.OK = true
			}
		}()
		b, _ := json.Marshal(res)
		out.Write(append(b, '\n'))
	}
}

const big = 4000

// stepDeadline: a resumed child that reaches neither its next system call nor its exit within this time hangs
// (every step normally takes milliseconds; the reader's own watchdog is far above)
const stepDeadline = 20 * time.Second

// Input is one case: a history, the reader kind and the schedule
type Input struct {
	Hist  []wo.WriteOut `json:"hist"`
	Query bool          `json:"query"`
	Sched []int         `json:"sched"` // writer calls, reader calls, writer calls, ...
	Why   string        `json:"why"`
	// Backup: after the first burst of writer calls a leftover merge backup directory
	// `<day>_!.gpdb-merge-backup-1` is placed next to every day directory that exists at that moment (it
	// sorts right before the renamed day: the reader's recovery has to search past it)
	Backup bool `json:"backup,omitempty"`
}

// makeBackups creates the leftover backup directories
func makeBackups(root string) error {
	months, _ := filepath.Glob(filepath.Join(root, "*", "*", "*"))
	for _, m := range months {
		ents, err := os.ReadDir(m)
		if err != nil {
			return err
		}
		for _, e := range ents {
			if !e.IsDir() || gpfile.IsMergeBackupDir(e.Name()) {
				continue
			}
			ts := strings.SplitN(e.Name(), "_", 2)[0]
			if err := os.MkdirAll(filepath.Join(m, ts+"_!"+gpfile.MergeBackupInfix+"1"), 0o755); err != nil {
				return err
			}
		}
	}
	return nil
}

// ---------------------------------------------------------------- reader child

type readOut struct {
	wo.ReadResult
	Broken int `json:"broken"`
}

func childRead30() {
	root := os.Args[2]
	query := os.Args[3] == "query"
	var tfirst, tlast int64
	fmt.Sscan(os.Args[4], &tfirst)
	fmt.Sscan(os.Args[5], &tlast)
	res := readOut{ReadResult: wo.ReadResult{Status: "ok"}}
	ready()
	func() {
		defer func() {
			if r := recover(); r != nil {
				res.Status, res.Msg = "panic", fmt.Sprint(r)
			}
		}()
		if err := doRead30(root, query, tfirst, tlast, &res); err != nil {
			res.Status, res.Msg = "err", err.Error()
		}
	}()
	b, _ := json.Marshal(res)
	os.Stdout.Write(append(b, '\n'))
}

func doRead30(root string, query bool, tfirst, tlast int64, res *readOut) error {
	ifaces, err := info.GetInterfaces(root)
	if err != nil {
		return err
	}
	res.Ifaces = ifaces
	for _, iface := range ifaces {
		if !query {
			wm, err := goDB.NewDBWorkManager(goDB.NewMetadataQuery(), root, iface, 1)
			if err != nil {
				return err
			}
			im, err := wm.ReadMetadata(tfirst, tlast)
			if err != nil {
				return fmt.Errorf("listing %s: %w", iface, err)
			}
			res.Listing = append(res.Listing, wo.IfaceListing{Iface: iface, First: im.First.Unix(), Last: im.Last.Unix(),
				Tot: wo.Totals{V4: im.Traffic.NumV4Entries, V6: im.Traffic.NumV6Entries, Drops: im.Traffic.NumDrops,
					BR: im.Counts.BytesRcvd, BS: im.Counts.BytesSent, PR: im.Counts.PacketsRcvd, PS: im.Counts.PacketsSent}})
			continue
		}
		rows, broken, err := goDB.VerifQueryInline(root, iface, tfirst, tlast)
		if err != nil {
			return fmt.Errorf("query %s: %w", iface, err)
		}
		res.Broken += broken
		by := map[int64]*wo.BlockView{}
		for _, r := range rows {
			bv := by[r.TS]
			if bv == nil {
				bv = &wo.BlockView{Iface: iface, TS: r.TS}
				by[r.TS] = bv
			}
			bv.Rows = append(bv.Rows, wo.Flow{V4: r.V4, SIP: types.RawIPToString(r.SIP), DIP: types.RawIPToString(r.DIP),
				Dport: r.Dport, Proto: r.Proto, BR: r.BR, BS: r.BS, PR: r.PR, PS: r.PS})
		}
		var tss []int64
		for ts := range by {
			tss = append(tss, ts)
		}
		sort.Slice(tss, func(i, j int) bool { return tss[i] < tss[j] })
		for _, ts := range tss {
			wo.SortFlows(by[ts].Rows)
			res.Blocks = append(res.Blocks, *by[ts])
		}
	}
	return nil
}

// ---------------------------------------------------------------- ptrace stepping

type sysEvent struct {
	nr          uint64
	name        string
	a           [6]uint64
	path, path2 string
	buf         string
	ret         int64
}

// label of a reader step (same encoding as Model.rlabel)
type label struct {
	Kind, A, B int
	OK         bool
}

type proc struct {
	pid     int
	root    string
	writer  bool
	keys    map[[2]int64]int
	mem     *os.File
	pending *sysEvent
	sig     int
	exited  bool
	code    int
	fds     map[int]bool
	calls   []wo.Sys
	counts  map[string]int
	nsteps  int
	labels  []label
	proc    *os.Process
	hung    bool        // no further ptrace stop within stepDeadline although the process was resumed
	hungF   atomic.Bool // set by the deadline timer
}

var sysNames = map[uint64]string{1: "write", 3: "close", 8: "lseek", 18: "pwrite64", 77: "ftruncate", 91: "fchmod",
	257: "openat", 258: "mkdirat", 262: "newfstatat", 263: "unlinkat", 264: "renameat", 268: "fchmodat", 316: "renameat2", 332: "statx"}

func infra(format string, a ...any) error {
	return fmt.Errorf("%w: "+format, append([]any{wo.ErrInfra}, a...)...)
}

func (p *proc) readStr(addr uint64) string {
	buf := make([]byte, 512)
	n, _ := p.mem.ReadAt(buf, int64(addr))
	for i := 0; i < n; i++ {
		if buf[i] == 0 {
			return string(buf[:i])
		}
	}
	return string(buf[:n])
}

func startProc(args []string, extra []*os.File, stdout *os.File, root string, writer bool, keys map[[2]int64]int) (*proc, error) {
	cmd := exec.Command(args[0], args[1:]...)
	cmd.SysProcAttr = &syscall.SysProcAttr{Ptrace: true, Pdeathsig: syscall.SIGKILL}
	cmd.Env = append(os.Environ(), "TZ=UTC", "GOMAXPROCS=2", "C30_TRACED=1")
	cmd.Stdout = stdout
	cmd.Stderr = stdout
	cmd.ExtraFiles = extra
	if err := cmd.Start(); err != nil {
		return nil, infra("cannot start %v: %v", args, err)
	}
	p := &proc{pid: cmd.Process.Pid, root: root, writer: writer, keys: keys, fds: map[int]bool{}, counts: map[string]int{}, proc: cmd.Process}
	var ws syscall.WaitStatus
	if _, err := syscall.Wait4(p.pid, &ws, 0, nil); err != nil || !ws.Stopped() {
		p.kill()
		return nil, infra("child did not stop after exec: %v", err)
	}
	const exitKill = 0x100000
	if err := syscall.PtraceSetOptions(p.pid, syscall.PTRACE_O_TRACESYSGOOD|exitKill); err != nil {
		p.kill()
		return nil, infra("ptrace options: %v", err)
	}
	mem, err := os.Open(fmt.Sprintf("/proc/%d/mem", p.pid))
	if err != nil {
		p.kill()
		return nil, infra("open mem: %v", err)
	}
	p.mem = mem
	// the child runs freely until it stops itself (start-up done), system calls are traced from there on
	sig := 0
	for {
		if err := syscall.PtraceCont(p.pid, sig); err != nil {
			p.kill()
			return nil, infra("ptrace cont: %v", err)
		}
		sig = 0
		if _, err := syscall.Wait4(p.pid, &ws, 0, nil); err != nil {
			p.kill()
			return nil, infra("wait4: %v", err)
		}
		if ws.Exited() || ws.Signaled() {
			p.exited = true
			p.kill()
			return nil, infra("child %v ended during start-up (status %v)", args[1], ws)
		}
		if ws.Stopped() && ws.StopSignal() == syscall.SIGSTOP {
			break
		}
		if ws.Stopped() && ws.StopSignal() != syscall.SIGTRAP {
			sig = int(ws.StopSignal())
		}
	}
	// run to the entry of the first DB call
	if err := p.step(); err != nil {
		p.kill()
		return nil, err
	}
	if p.hung {
		p.kill()
		return nil, infra("child %v made no progress before its first DB call", args[1])
	}
	return p, nil
}

func (p *proc) kill() {
	if !p.exited {
		syscall.Kill(p.pid, syscall.SIGKILL)
		var ws syscall.WaitStatus
		syscall.Wait4(p.pid, &ws, 0, nil)
		p.exited = true
	}
	if p.mem != nil {
		p.mem.Close()
		p.mem = nil
	}
	p.proc.Release()
}

// resume lets the tracee run to its next ptrace stop; returns the kind of stop
func (p *proc) resume() (syscallStop bool, err error) {
	for {
		sig := p.sig
		p.sig = 0
		if err := syscall.PtraceSyscall(p.pid, sig); err != nil {
			return false, infra("ptrace syscall (pid %d): %v", p.pid, err)
		}
		var ws syscall.WaitStatus
		timer := time.AfterFunc(stepDeadline, func() {
			p.hungF.Store(true)
			syscall.Kill(p.pid, syscall.SIGKILL)
		})
		_, werr := syscall.Wait4(p.pid, &ws, 0, nil)
		timer.Stop()
		if werr != nil {
			return false, infra("wait4: %v", werr)
		}
		if p.hungF.Load() && (ws.Signaled() || ws.Exited()) {
			p.hung = true
		}
		switch {
		case ws.Exited():
			p.exited, p.code = true, ws.ExitStatus()
			return false, nil
		case ws.Signaled():
			p.exited, p.code = true, 128+int(ws.Signal())
			return false, nil
		case ws.Stopped() && ws.StopSignal() == syscall.SIGTRAP|0x80:
			return true, nil
		case ws.Stopped():
			if s := ws.StopSignal(); s != syscall.SIGTRAP {
				p.sig = int(s) // deliver the signal (Go runtime preemption etc.)
			}
		}
	}
}

func (p *proc) decode() (*sysEvent, error) {
	var regs syscall.PtraceRegs
	if err := syscall.PtraceGetRegs(p.pid, &regs); err != nil {
		return nil, infra("getregs: %v", err)
	}
	ev := &sysEvent{nr: regs.Orig_rax, name: sysNames[regs.Orig_rax], a: [6]uint64{regs.Rdi, regs.Rsi, regs.Rdx, regs.R10, regs.R8, regs.R9}}
	switch ev.name {
	case "openat", "mkdirat", "newfstatat", "unlinkat", "fchmodat", "statx":
		ev.path = p.readStr(ev.a[1])
	case "renameat", "renameat2":
		ev.path, ev.path2 = p.readStr(ev.a[1]), p.readStr(ev.a[3])
	case "write":
		if ev.a[0] == 3 {
			n := ev.a[2]
			if n > 24 {
				n = 24
			}
			b := make([]byte, n)
			p.mem.ReadAt(b, int64(ev.a[1]))
			ev.buf = string(b)
		}
	}
	return ev, nil
}

func (p *proc) isDB(ev *sysEvent) bool {
	under := func(s string) bool { return s == p.root || strings.HasPrefix(s, p.root+"/") }
	if !p.writer {
		switch ev.name {
		case "openat", "newfstatat", "statx":
			return under(ev.path)
		}
		return false
	}
	db := func(s string) bool { _, ok := wo.PathRef(p.root, s, 0); return ok }
	switch ev.name {
	case "openat", "mkdirat", "unlinkat", "fchmodat":
		return db(ev.path)
	case "renameat", "renameat2":
		return db(ev.path) || db(ev.path2)
	case "write", "pwrite64", "lseek", "close", "fchmod", "ftruncate":
		return p.fds[int(ev.a[0])]
	}
	return false
}

var errnoNames = map[int64]string{2: "ENOENT", 17: "EEXIST", 20: "ENOTDIR", 21: "EISDIR", 39: "ENOTEMPTY", 13: "EACCES", 4: "EINTR"}

func (p *proc) finish(ev *sysEvent, db bool) {
	if p.writer && ev.name != "" && ev.name != "newfstatat" && ev.name != "statx" {
		var args string
		q := func(s string) string { return `"` + s + `"` }
		switch ev.name {
		case "openat":
			fl := ev.a[2]
			s := []string{"O_RDONLY", "O_WRONLY", "O_RDWR", "O_ACCMODE"}[fl&3]
			if fl&0x40 != 0 {
				s += "|O_CREAT"
			}
			if fl&0x80 != 0 {
				s += "|O_EXCL"
			}
			if fl&0x10000 != 0 {
				s += "|O_DIRECTORY"
			}
			args = "AT_FDCWD, " + q(ev.path) + ", " + s
			if db && ev.ret >= 0 {
				p.fds[int(ev.ret)] = true
			}
		case "mkdirat", "fchmodat":
			args = "AT_FDCWD, " + q(ev.path) + ", 0755"
		case "unlinkat":
			args = "AT_FDCWD, " + q(ev.path) + ", 0"
			if ev.a[2]&0x200 != 0 {
				args = "AT_FDCWD, " + q(ev.path) + ", AT_REMOVEDIR"
			}
		case "renameat", "renameat2":
			args = "AT_FDCWD, " + q(ev.path) + ", AT_FDCWD, " + q(ev.path2)
		case "write", "pwrite64":
			args = fmt.Sprintf("%d, %s, %d", ev.a[0], q(strings.ReplaceAll(ev.buf, `"`, `\"`)), ev.a[2])
		case "lseek":
			args = fmt.Sprintf("%d, %d, SEEK_SET", ev.a[0], ev.a[1])
		default:
			args = fmt.Sprintf("%d", ev.a[0])
		}
		if ev.name == "close" && ev.ret >= 0 && db {
			delete(p.fds, int(ev.a[0]))
		}
		ret := strconv.FormatInt(ev.ret, 10)
		if ev.ret < 0 {
			n := errnoNames[-ev.ret]
			if n == "" {
				n = fmt.Sprintf("E%d", -ev.ret)
			}
			ret = "-1 " + n + " (x)"
		}
		p.counts[ev.name]++
		p.calls = append(p.calls, wo.Sys{Name: ev.name, Args: args, Ret: ret, Ord: p.counts[ev.name]})
	}
	if !db {
		return
	}
	p.nsteps++
	if p.writer {
		return
	}
	l := label{Kind: 9, OK: ev.ret >= 0}
	stat := ev.name != "openat"
	if ev.path == p.root {
		l.Kind = 0
		l.OK = true
	} else if ref, ok := wo.PathRef(p.root, ev.path, 0); ok {
		ki := p.keys[[2]int64{int64(ref.Iface), ref.Day}]
		switch ref.Kind {
		case "up-i":
			l.Kind, l.A, l.OK = 1, ref.Iface, true
		case "up-y":
			l.Kind, l.A, l.B, l.OK = 2, ref.Iface, ref.Year, true
		case "up-m":
			l.Kind, l.A, l.B, l.OK = 3, ref.Iface, ref.Month, true
		case "day":
			l.Kind, l.A = 5, ki
		case "meta":
			l.Kind, l.A = 6, ki
			if stat {
				l.Kind = 4
			}
		case "col":
			l.Kind, l.A, l.B = 7, ki, ref.Col
		}
	}
	p.labels = append(p.labels, l)
}

// toExit continues from the entry stop of ev to its exit stop
func (p *proc) toExit(ev *sysEvent) error {
	ss, err := p.resume()
	if err != nil {
		return err
	}
	if p.exited {
		return nil
	}
	if !ss {
		return infra("unexpected stop inside a system call")
	}
	var regs syscall.PtraceRegs
	if err := syscall.PtraceGetRegs(p.pid, &regs); err != nil {
		return infra("getregs: %v", err)
	}
	ev.ret = int64(regs.Rax)
	return nil
}

// step executes the pending DB call (if any) and runs the process to the entry of its next DB call (or exit)
func (p *proc) step() error {
	if p.exited {
		return nil
	}
	if ev := p.pending; ev != nil {
		p.pending = nil
		if err := p.toExit(ev); err != nil {
			return err
		}
		if p.exited {
			return nil
		}
		p.finish(ev, true)
	}
	for {
		ss, err := p.resume()
		if err != nil || p.exited {
			return err
		}
		if !ss {
			continue
		}
		ev, err := p.decode()
		if err != nil {
			return err
		}
		if p.isDB(ev) {
			p.pending = ev
			return nil
		}
		if err := p.toExit(ev); err != nil || p.exited {
			return err
		}
		p.finish(ev, false)
	}
}

// ---------------------------------------------------------------- one scheduled run

type env struct{ Bin, Work string }

var e env

func hashOf(v any) string {
	b, _ := json.Marshal(v)
	h := sha1.Sum(b)
	return hex.EncodeToString(h[:8])
}

func keysOf(hist []wo.WriteOut) ([][2]int64, map[[2]int64]int) {
	var ks [][2]int64
	m := map[[2]int64]int{}
	for _, w := range hist {
		id, _ := wo.IfaceID(w.Iface)
		k := [2]int64{int64(id), gpfile.DirTimestamp(w.TS)}
		if _, ok := m[k]; !ok {
			m[k] = len(ks)
			ks = append(ks, k)
		}
	}
	return ks, m
}

type outcome struct {
	read     readOut
	labels   []label
	wops     []wo.Op
	wsteps   int
	rsteps   int
	writeOK  bool
	writeErr string
}

func window(h []wo.WriteOut) (int64, int64) {
	var lo, hi int64 = 1 << 62, 0
	for _, w := range h {
		if w.TS < lo {
			lo = w.TS
		}
		if w.TS > hi {
			hi = w.TS
		}
	}
	return lo - 200000, hi + 200000
}

func runOnce(in Input, tag string) (*outcome, error) {
	runtime.LockOSThread()
	defer runtime.UnlockOSThread()
	dir := filepath.Join(e.Work, "c30", tag+"-"+hashOf(in))
	os.RemoveAll(dir)
	root := filepath.Join(dir, "db")
	if err := os.MkdirAll(root, 0o755); err != nil {
		return nil, err
	}
	defer os.RemoveAll(dir)
	hf := filepath.Join(dir, "hist.json")
	if err := wo.WriteHist(hf, in.Hist); err != nil {
		return nil, err
	}
	prog, err := os.Create(filepath.Join(dir, "prog.txt"))
	if err != nil {
		return nil, err
	}
	defer prog.Close()
	wout, _ := os.Create(filepath.Join(dir, "writer.out"))
	defer wout.Close()
	rout, _ := os.Create(filepath.Join(dir, "reader.out"))
	defer rout.Close()
	_, keys := keysOf(in.Hist)
	lo, hi := window(in.Hist)
	mode := "list"
	if in.Query {
		mode = "query"
	}
	var w, r *proc
	done := make(chan struct{})
	defer close(done)
	var mu sync.Mutex
	timedOut := false
	go func() { // watchdog: a hanging child must not hang the harness
		select {
		case <-done:
		case <-time.After(90 * time.Second):
			mu.Lock()
			timedOut = true
			for _, p := range []*proc{w, r} {
				if p != nil {
					syscall.Kill(p.pid, syscall.SIGKILL)
				}
			}
			mu.Unlock()
		}
	}()
	wp, err := startProc([]string{e.Bin, "child-write30", root, hf}, []*os.File{prog}, wout, root, true, keys)
	if err != nil {
		return nil, err
	}
	mu.Lock()
	w = wp
	mu.Unlock()
	defer w.kill()
	rp, err := startProc([]string{e.Bin, "child-read30", root, mode, strconv.FormatInt(lo, 10), strconv.FormatInt(hi, 10)}, nil, rout, root, false, keys)
	if err != nil {
		return nil, err
	}
	mu.Lock()
	r = rp
	mu.Unlock()
	defer r.kill()
	wturn := true
	for si, n := range in.Sched {
		p := r
		if wturn {
			p = w
		}
		for i := 0; i < n && !p.exited; i++ {
			if err := p.step(); err != nil {
				return nil, err
			}
		}
		if in.Backup && si == 0 {
			if err := makeBackups(root); err != nil {
				return nil, infra("cannot create the leftover backup directories: %v", err)
			}
		}
		wturn = !wturn
	}
	for !r.exited {
		if err := r.step(); err != nil {
			return nil, err
		}
	}
	for !w.exited {
		if err := w.step(); err != nil {
			return nil, err
		}
	}
	if timedOut {
		return nil, infra("watchdog timeout")
	}
	out := &outcome{labels: r.labels, wsteps: w.nsteps, rsteps: r.nsteps}
	if w.hung {
		return nil, infra("writer child made no progress for %v", stepDeadline)
	}
	if r.hung {
		// the resumed reader reached neither a system call nor its end: an observation about the code under test
		out.read = readOut{ReadResult: wo.ReadResult{Status: "hang", Msg: fmt.Sprintf("reader made no progress for %v after its DB call %d (killed)", stepDeadline, r.nsteps)}}
	} else if r.code != 0 {
		b, _ := os.ReadFile(rout.Name())
		out.read = readOut{ReadResult: wo.ReadResult{Status: "panic", Msg: fmt.Sprintf("reader exit %d: %s", r.code, tail(string(b)))}}
		if r.code > 128 {
			return nil, infra("reader child killed by a signal (%d)", r.code-128)
		}
	} else {
		b, _ := os.ReadFile(rout.Name())
		lines := strings.Split(strings.TrimSpace(string(b)), "\n")
		if err := json.Unmarshal([]byte(lines[len(lines)-1]), &out.read); err != nil {
			return nil, infra("bad reader output %q: %v", tail(string(b)), err)
		}
	}
	if w.code != 0 {
		b, _ := os.ReadFile(wout.Name())
		return nil, infra("writer child exit %d: %s", w.code, tail(string(b)))
	}
	var ids []int
	for _, x := range in.Hist {
		ids = append(ids, x.ID)
	}
	if out.wops, err = wo.Normalise(w.calls, root, ids); err != nil {
		return nil, infra("writer trace: %v", err)
	}
	if len(out.wops) != w.nsteps {
		return nil, infra("writer stop points (%d) differ from its normalised DB calls (%d)", w.nsteps, len(out.wops))
	}
	out.writeOK = true
	pb, _ := os.ReadFile(prog.Name())
	nl := 0
	for _, l := range strings.Split(string(pb), "\n") {
		var cr wo.ChildWriteResult
		if l != "" && json.Unmarshal([]byte(l), &cr) == nil {
			nl++
			if !cr.OK {
				out.writeOK = false
				out.writeErr = cr.Err
			}
		}
	}
	if nl != len(in.Hist) {
		return nil, infra("writer reported %d of %d write-outs", nl, len(in.Hist))
	}
	return out, nil
}

func tail(s string) string {
	if len(s) > 600 {
		return s[len(s)-600:]
	}
	return s
}

func retry[T any](n int, f func() (T, error)) (T, error) {
	var last error
	var zero T
	for i := 0; i < n; i++ {
		v, err := f()
		if err == nil {
			return v, nil
		}
		last = err
		if !errors.Is(err, wo.ErrInfra) {
			return zero, err
		}
	}
	return zero, last
}

// measured write-outs (column lengths) per history
var (
	mwMu    sync.Mutex
	mwCache = map[string][]wo.MW{}
)

func measure(hist []wo.WriteOut) ([]wo.MW, error) {
	key := hashOf(hist)
	mwMu.Lock()
	defer mwMu.Unlock()
	if m, ok := mwCache[key]; ok {
		return m, nil
	}
	m, err := wo.Measure(filepath.Join(e.Work, "c30", "measure-"+key), hist)
	if err == nil {
		mwCache[key] = m
	}
	return m, err
}

func runCase(in Input) (*vhlib.Case, error) {
	mw, err := measure(in.Hist)
	if err != nil {
		return nil, err
	}
	out, err := retry(3, func() (*outcome, error) { return runOnce(in, "run") })
	if err != nil {
		return nil, err
	}
	obs := wo.Abstract(&out.read.ReadResult, in.Hist)
	ls := make([]string, len(out.labels))
	nEnoent := 0
	for i, l := range out.labels {
		ls[i] = fmt.Sprintf("(%d,%d,%d,%s)", l.Kind, l.A, l.B, vhlib.CoqBool(l.OK))
		if !l.OK && l.Kind >= 6 {
			nEnoent++
		}
	}
	sc := make([]string, len(in.Sched))
	for i, n := range in.Sched {
		sc[i] = strconv.Itoa(n)
	}
	c := &vhlib.Case{}
	c.Coq = fmt.Sprintf("(CSched %s %s %s %s %s %d)", wo.CoqWs(mw), vhlib.CoqBool(in.Query), vhlib.CoqList(sc),
		vhlib.CoqList(ls), wo.CoqRead(obs), out.read.Broken)
	c.Observed = map[string]any{"read": obs, "broken": out.read.Broken, "rsteps": out.rsteps, "wsteps": out.wsteps,
		"write_ok": out.writeOK, "enoent_opens": nEnoent}
	mode := "list"
	if in.Query {
		mode = "query"
	}
	c.Tags = []string{mode, in.Why, fmt.Sprintf("enoent-%d", min(nEnoent, 3))}
	if out.read.Status == "hang" {
		c.Tags = append(c.Tags, "reader-hang")
	}
	if !out.writeOK {
		return nil, infra("a fault-free write-out failed: %s (input %s)", out.writeErr, hashOf(in))
	}
	c.Nontrivial = len(in.Sched) > 0
	return c, nil
}

// ---------------------------------------------------------------- plan

type calib struct {
	nW, nRq, nRl int
	renames      []int // indices of the directory renames among the writer's DB calls
	opensQ       []int // indices of the open(.blockmeta)/open(column) calls among the reader's DB calls (final DB)
	opensL       []int
}

func calibrate(hist []wo.WriteOut) (*calib, error) {
	c := &calib{}
	for _, q := range []bool{true, false} {
		out, err := retry(3, func() (*outcome, error) { return runOnce(Input{Hist: hist, Query: q, Sched: []int{big}}, "cal") })
		if err != nil {
			return nil, err
		}
		c.nW = out.wsteps
		c.renames = nil
		for i, o := range out.wops {
			if o.Kind == "renamedir" {
				c.renames = append(c.renames, i)
			}
		}
		var opens []int
		for i, l := range out.labels {
			if l.Kind == 6 || l.Kind == 7 || l.Kind == 4 || l.Kind == 3 {
				opens = append(opens, i)
			}
		}
		if q {
			c.nRq, c.opensQ = out.rsteps, opens
		} else {
			c.nRl, c.opensL = out.rsteps, opens
		}
	}
	return c, nil
}

// ownHists: histories with write-outs WITHOUT flows before write-outs with flows within one day: reading the
// flow-less block creates the handles of the attribute columns without opening their files (RawLen = 0)
func ownHists() [][]wo.WriteOut {
	return [][]wo.WriteOut{{
		{ID: 0, Iface: "eth0", TS: 1700300100, NV4: 0, NV6: 0, Drops: 1},
		{ID: 1, Iface: "eth0", TS: 1700300400, NV4: 2, NV6: 1, Drops: 0},
		{ID: 2, Iface: "eth0", TS: 1700300700, NV4: 1, NV6: 1, Drops: 2},
		{ID: 3, Iface: "eth0", TS: 1700301000, NV4: 0, NV6: 0, Drops: 1},
		{ID: 4, Iface: "eth0", TS: 1700301300, NV4: 1, NV6: 0, Drops: 0},
	}}
}

// prefixCal: the writer's number of DB calls for a history and the reader's column opens on the resulting DB
type prefixCal struct {
	nW       int
	colOpens []int
	colOf    map[int]int // reader step index -> column opened
}

func calibPrefix(h []wo.WriteOut) (*prefixCal, error) {
	out, err := retry(3, func() (*outcome, error) { return runOnce(Input{Hist: h, Query: true, Sched: []int{big}}, "pcal") })
	if err != nil {
		return nil, err
	}
	c := &prefixCal{nW: out.wsteps, colOf: map[int]int{}}
	for i, l := range out.labels {
		if l.Kind == 7 {
			c.colOpens = append(c.colOpens, i)
			c.colOf[i] = l.B
		}
	}
	return c, nil
}

// staleHandle: the reader has processed the blocks committed by the first j write-outs up to one of its column
// opens, then write-out j+1 runs completely (commit + directory rename), then the reader goes on: column handles
// created under the old name (opened or not) meet the renamed directory
func staleHandle(h []wo.WriteOut) ([]Input, error) {
	var res []Input
	cals := make([]*prefixCal, len(h)+1)
	for j := 1; j <= len(h); j++ {
		c, err := calibPrefix(h[:j])
		if err != nil {
			return nil, err
		}
		cals[j] = c
	}
	for j := 1; j < len(h); j++ {
		for _, eo := range cals[j].colOpens {
			res = append(res, Input{Hist: h, Query: true, Sched: []int{cals[j].nW, eo, cals[j+1].nW - cals[j].nW, big}, Why: "stale-handle"})
			res = append(res, Input{Hist: h, Query: true, Sched: []int{cals[j].nW, eo + 1, cals[j+1].nW - cals[j].nW, big}, Why: "stale-handle"})
		}
	}
	// two complete write-outs: the second one lands r reader calls after the first, i.e. somewhere inside the
	// recoveries the first one causes (stale handles of the attribute columns: the first open of sip / dip)
	for j := 1; j+2 <= len(h); j++ {
		seenCol := map[int]bool{}
		for _, eo := range cals[j].colOpens {
			col := cals[j].colOf[eo]
			if col > 1 || seenCol[col] {
				continue
			}
			seenCol[col] = true
			for r := 1; r <= 9; r++ {
				res = append(res, Input{Hist: h, Query: true, Why: "stale-handle-2",
					Sched: []int{cals[j].nW, eo, cals[j+1].nW - cals[j].nW, r, cals[j+2].nW - cals[j+1].nW, big}})
			}
		}
	}
	return res, nil
}

func buildPlan(seed uint64, n int, tier string, search bool) []Input {
	r := vhlib.NewRand(seed)
	hists := append(wo.FixedHists()[:2:2], ownHists()...)
	nh, nrand, stride := 4, 60, 2
	if tier == "thorough" {
		nh, nrand, stride = 9, 2000, 1
	}
	if search {
		nh, nrand = nh+2, nrand*3
	}
	for len(hists) < nh {
		hr := r.Fork()
		hists = append(hists, wo.GenHist(hr, 2+hr.Intn(3), 0, 1700000100+int64(hr.Intn(40))*86400+int64(hr.Intn(200))*300))
	}
	cals := make([]*calib, len(hists))
	errs := make([]error, len(hists))
	var wg sync.WaitGroup
	for i := range hists {
		wg.Add(1)
		go func(i int) {
			defer wg.Done()
			cals[i], errs[i] = calibrate(hists[i])
		}(i)
	}
	wg.Wait()
	for _, err := range errs {
		if err != nil {
			fatal(err)
		}
	}
	var p []Input
	// (1) targeted: the reader is stopped right before one of its opens / listings, the writer renames the
	// day directory, the reader goes on; and the double rename: a second rename while the reader recovers
	for i, h := range hists {
		c := cals[i]
		for _, q := range []bool{true, false} {
			opens := c.opensL
			if q {
				opens = c.opensQ
			}
			for ri, d := range c.renames {
				for _, eo := range opens {
					p = append(p, Input{Hist: h, Query: q, Sched: []int{d, eo, 1, big}, Why: "rename-before-open"})
					if ri+1 < len(c.renames) {
						d2 := c.renames[ri+1]
						p = append(p, Input{Hist: h, Query: q, Sched: []int{d, eo, 1, 2, d2 - d, big}, Why: "double-rename"})
						// the second rename lands after the re-Open has found the directory, before the column is opened again
						p = append(p, Input{Hist: h, Query: q, Sched: []int{d, eo, 1, 4, d2 - d, big}, Why: "rename-during-reopen"})
					}
				}
			}
		}
	}
	// (1a) the same rename-before-open schedules with a leftover merge backup next to the day (histories 0 and 2):
	// the recovery's prefix search has to step over the backup
	var mustB []Input
	for _, in := range p {
		if in.Why == "rename-before-open" && (hashOf(in.Hist) == hashOf(hists[0]) || hashOf(in.Hist) == hashOf(hists[2])) {
			b := in
			b.Backup, b.Why = true, "rename-with-backup"
			mustB = append(mustB, b)
		}
	}
	// (1b) a complete write-out between two of the reader's column opens (stale column handles); kept in full
	// for the own history, sampled for the others
	var must []Input
	for i, h := range hists {
		sh, err := staleHandle(h)
		if err != nil {
			fatal(err)
		}
		if i == 2 {
			must = append(must, sh...)
		} else {
			p = append(p, sh...)
		}
	}
	// (2) reader atomic at the writer's call boundaries: EVERY boundary of history 0 for the query (kept
	// in full, never sampled away), strided for the other histories and for the listing
	for i, h := range hists {
		for k := 0; k <= cals[i].nW; k++ {
			if i == 0 {
				must = append(must, Input{Hist: h, Query: true, Sched: []int{k, big}, Why: "atomic"})
			} else if (k+i)%stride == 0 {
				p = append(p, Input{Hist: h, Query: true, Sched: []int{k, big}, Why: "atomic"})
			}
			if (k+i)%(2*stride) == 0 {
				p = append(p, Input{Hist: h, Query: false, Sched: []int{k, big}, Why: "atomic"})
			}
		}
	}
	// (3) random fine-grained schedules
	for j := 0; j < nrand; j++ {
		i := j % len(hists)
		rr := r.Fork()
		c := cals[i]
		sc := []int{rr.Intn(c.nW + 1)}
		if len(c.renames) > 0 && rr.Chance(60) {
			sc[0] = max(0, vhlib.Pick(rr, c.renames)-rr.Intn(4))
		}
		for len(sc) < 30 {
			sc = append(sc, vhlib.Pick(rr, []int{1, 1, 1, 2, 2, 3, 5}))
			sc = append(sc, vhlib.Pick(rr, []int{0, 1, 1, 1, 2, 3, 5, 8, 20, 45}))
		}
		rin := Input{Hist: hists[i], Query: !rr.Chance(35), Sched: sc, Why: "random"}
		if j < 30 {
			must = append(must, rin) // the first 30 random schedules are always run
		} else {
			p = append(p, rin)
		}
	}
	if len(must) > n {
		must = must[:n]
	}
	if len(mustB) > n-len(must) {
		mustB = mustB[:n-len(must)]
	}
	if len(p) > n-len(must)-len(mustB) {
		// keep a mixture of the rest: take evenly
		m := n - len(must) - len(mustB)
		q := make([]Input, 0, m)
		for i := 0; i < m; i++ {
			q = append(q, p[i*len(p)/m])
		}
		p = q
	}
	p = append(p, must...)
	p = append(p, mustB...)
	// identical inputs would share a scratch directory: keep the first of each
	seen := map[string]bool{}
	uniq := p[:0]
	for _, in := range p {
		k := hashOf(in)
		if !seen[k] {
			seen[k] = true
			uniq = append(uniq, in)
		}
	}
	p = uniq
	return p
}

func fatal(err error) {
	if errors.Is(err, wo.ErrInfra) {
		fmt.Fprintln(os.Stderr, "HARNESS ERROR (infrastructure, not a property violation):", err)
	} else {
		fmt.Fprintln(os.Stderr, "HARNESS ERROR:", err)
	}
	os.Exit(3)
}

var (
	planMu  sync.Mutex
	plan    []Input
	planKey string
	cache   sync.Map
)

type cached struct {
	c   *vhlib.Case
	err error
}

func getPlan(o vhlib.Opts) []Input {
	planMu.Lock()
	defer planMu.Unlock()
	key := fmt.Sprint(o.Seed, o.N, o.Tier, o.Search)
	if plan == nil || planKey != key {
		plan, planKey = buildPlan(o.Seed, o.N, o.Tier, o.Search), key
		var wg sync.WaitGroup
		sem := make(chan struct{}, 8)
		for _, in := range plan {
			raw, _ := json.Marshal(in)
			wg.Add(1)
			go func(in Input, key string) {
				defer wg.Done()
				sem <- struct{}{}
				defer func() { <-sem }()
				c, err := runCase(in)
				cache.Store(key, cached{c, err})
			}(in, string(raw))
		}
		wg.Wait()
	}
	return plan
}

func gen(r *vhlib.Rand, i int, o vhlib.Opts) any {
	p := getPlan(o)
	if i >= len(p) {
		return nil
	}
	return p[i]
}

func run(raw json.RawMessage, o vhlib.Opts) (*vhlib.Case, error) {
	var in Input
	if err := json.Unmarshal(raw, &in); err != nil {
		return nil, err
	}
	key, _ := json.Marshal(in)
	if v, ok := cache.Load(string(key)); ok {
		cv := v.(cached)
		if cv.err != nil && errors.Is(cv.err, wo.ErrInfra) {
			fatal(cv.err)
		}
		return cv.c, cv.err
	}
	c, err := runCase(in)
	if err != nil && errors.Is(err, wo.ErrInfra) {
		fatal(err)
	}
	return c, err
}

func main() {
	if len(os.Args) > 1 && os.Args[1] == "child-read30" {
		childRead30()
		os.Exit(0)
	}
	if len(os.Args) > 1 && os.Args[1] == "child-write30" {
		childWrite30()
		os.Exit(0)
	}
	wo.MaybeChild()
	exe, err := os.Executable()
	if err != nil {
		fatal(err)
	}
	e.Bin = exe
	fs := flag.NewFlagSet("pre", flag.ContinueOnError)
	fs.SetOutput(new(nullWriter))
	work := fs.String("work", ".", "")
	for _, f := range []string{"seed", "n", "tier", "out", "in"} {
		fs.String(f, "", "")
	}
	fs.Bool("search", false, "")
	if len(os.Args) > 2 {
		_ = fs.Parse(os.Args[2:])
	}
	e.Work, _ = filepath.Abs(*work)
	vhlib.Main(gen, run)
}

type nullWriter struct{}

func (nullWriter) Write(p []byte) (int, error) { return len(p), nil }
