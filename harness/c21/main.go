// C21 correspondence harness: the REAL capture.Manager / Capture / three-point lock driven by the
// scripted deterministic source of package vsrc with generated schedules of IPv4 / IPv6 packets and
// lock windows (status call, write-out, live query). Every schedule is run twice on the real code:
// as generated (packets arrive during the pauses) and with every lock window emptied (the same
// packets delivered directly after the window). Both observations go to Coq: corr compares each with
// the model, holds compares the two observations with each other.
package main

import (
	"encoding/hex"
	"encoding/json"
	"fmt"

	"verifharness/c21/vsrc"
	"verifharness/vhlib"
)

type pktIn struct {
	D string `json:"d"`
	T uint8  `json:"t"`
	S uint32 `json:"s"`
}

type evIn struct {
	K  string `json:"k"`            // p | lock | unlock
	I  int    `json:"i,omitempty"`  // packet index
	W  string `json:"w,omitempty"`  // status | writeout | query
	AP int    `json:"ap,omitempty"` // model side: the window's actions happen after its AP-th packet
}

type input struct {
	Init  int     `json:"init"`
	Limit int     `json:"limit"`
	Pkts  []pktIn `json:"pkts"`
	Evs   []evIn  `json:"evs"`
}

// ---------------------------------------------------------------- packet construction

type conv struct {
	v6           bool
	proto        byte
	a, b         []byte // addresses (client, server)
	cport, sport uint16
}

func mkPkt(c conv, rev bool, flags byte, icmpType byte, cport uint16) []byte {
	src, dst, sp, dp := c.a, c.b, cport, c.sport
	if rev {
		src, dst, sp, dp = c.b, c.a, c.sport, cport
	}
	var b []byte
	off := 20
	if c.v6 {
		off = 40
		b = make([]byte, 40+14)
		b[0] = 0x60
		b[6] = c.proto
		copy(b[8:24], src)
		copy(b[24:40], dst)
	} else {
		b = make([]byte, 20+14)
		b[0] = 0x45
		b[8] = 64
		b[9] = c.proto
		copy(b[12:16], src)
		copy(b[16:20], dst)
	}
	switch c.proto {
	case 6, 17:
		b[off], b[off+1] = byte(sp>>8), byte(sp)
		b[off+2], b[off+3] = byte(dp>>8), byte(dp)
		if c.proto == 6 {
			b[off+13] = flags
		} else {
			b = b[:off+8]
		}
	case 1, 58:
		b[off] = icmpType
		b = b[:off+8]
	default:
		b = b[:off+4]
	}
	return b
}

func ip4(a, b, c, d byte) []byte { return []byte{a, b, c, d} }
func ip6(hi byte, lo byte) []byte {
	x := make([]byte, 16)
	x[0], x[1], x[15] = 0x20, hi, lo
	return x
}

var (
	c4ssh  = conv{false, 6, ip4(10, 0, 0, 1), ip4(10, 0, 0, 2), 50000, 22}
	c4dns  = conv{false, 17, ip4(192, 168, 1, 7), ip4(8, 8, 8, 8), 40001, 53}
	c4icmp = conv{false, 1, ip4(10, 0, 0, 1), ip4(10, 0, 0, 9), 0, 0}
	c4esp  = conv{false, 50, ip4(172, 16, 0, 1), ip4(172, 16, 0, 2), 0, 0}
	c6web  = conv{true, 6, ip6(0, 1), ip6(0, 2), 49152, 80}
	c6hi   = conv{true, 6, ip6(1, 1), ip6(1, 2), 51000, 8443}
	c6dns  = conv{true, 17, ip6(0, 3), ip6(0, 4), 33333, 53}
	c6icmp = conv{true, 58, ip6(0, 5), ip6(0, 6), 0, 0}
	// client port below the server port on non-common ports (IsProbablyReverse() true for the forward hash),
	// multicast / broadcast UDP with sport < dport: the second lookup of the probably-reverse fast path
	c6low  = conv{true, 6, ip6(2, 1), ip6(2, 2), 40000, 50000}
	c4low  = conv{false, 6, ip4(10, 0, 2, 1), ip4(10, 0, 2, 2), 1024, 3306}
	c6dhcp = conv{true, 17, ip6(2, 7), []byte{0xff, 2, 0, 0, 0, 0, 0, 0, 0, 0, 0, 0, 0, 1, 0, 2}, 546, 547}
	c4bc   = conv{false, 17, ip4(10, 0, 2, 7), ip4(255, 255, 255, 255), 137, 138}
	// both ports in the common-port table: both are zeroed, the two directions are each other's Reverse()
	c6cc  = conv{true, 6, ip6(3, 1), ip6(3, 2), 8080, 443}
	c4cc  = conv{false, 6, ip4(10, 1, 1, 1), ip4(10, 1, 1, 2), 443, 80}
	c6dd  = conv{true, 17, ip6(3, 3), ip6(3, 4), 53, 53}
	c4dd  = conv{false, 17, ip4(10, 1, 2, 1), ip4(10, 1, 2, 2), 443, 53}
	c4smb = conv{false, 6, ip4(10, 1, 3, 1), ip4(10, 1, 3, 2), 80, 445}
	convs = []conv{c4ssh, c4dns, c4icmp, c4esp, c6web, c6hi, c6dns, c6icmp, c6low, c4low, c6dhcp, c4bc, c6cc, c4cc, c6dd, c4dd, c4smb}
)

func hx(b []byte) string { return hex.EncodeToString(b) }

type builder struct {
	in  input
	idx map[string]int
}

func newBuilder(init, limit int) *builder {
	return &builder{in: input{Init: init, Limit: limit}, idx: map[string]int{}}
}
func (b *builder) pkt(d []byte, t uint8, s uint32) *builder {
	key := fmt.Sprintf("%s/%d/%d", hx(d), t, s)
	i, ok := b.idx[key]
	if !ok {
		i = len(b.in.Pkts)
		b.idx[key] = i
		b.in.Pkts = append(b.in.Pkts, pktIn{hx(d), t, s})
	}
	b.in.Evs = append(b.in.Evs, evIn{K: "p", I: i})
	return b
}
func (b *builder) lock(w string, ap int) *builder {
	b.in.Evs = append(b.in.Evs, evIn{K: "lock", W: w, AP: ap})
	return b
}
func (b *builder) unlock() *builder {
	b.in.Evs = append(b.in.Evs, evIn{K: "unlock"})
	return b
}

const big = 1 << 20

// hand-picked boundary schedules
func fixedCases() []input {
	var out []input
	web := mkPkt(c6web, false, 0x10, 0, c6web.cport) // 2000::1 -> 2000::2 tcp/80, ACK
	webR := mkPkt(c6web, true, 0x10, 0, c6web.cport) // the reply direction
	ssh := mkPkt(c4ssh, false, 0x10, 0, c4ssh.cport)
	sshR := mkPkt(c4ssh, true, 0x18, 0, c4ssh.cport)
	for _, w := range []string{"status", "writeout", "query"} {
		// an IPv6 packet arrives during the pause (the defect of DESIGN.md section 8, row 21)
		out = append(out, newBuilder(128, big).lock(w, 0).pkt(web, 0, 100).unlock().in)
		// both directions and both versions, before / during / after
		out = append(out, newBuilder(128, big).pkt(web, 0, 100).pkt(ssh, 4, 60).lock(w, 1).pkt(webR, 4, 1500).pkt(sshR, 0, 52).pkt(web, 0, 40).unlock().pkt(webR, 4, 9).in)
		// first packet of the conversation arrives during the pause, reply direction first
		out = append(out, newBuilder(64, big).lock(w, 2).pkt(webR, 4, 1000).pkt(sshR, 0, 77).unlock().pkt(web, 0, 1).pkt(ssh, 4, 2).lock(w, 0).unlock().in)
		// empty window
		out = append(out, newBuilder(128, big).pkt(ssh, 4, 60).lock(w, 0).unlock().pkt(web, 0, 3).in)
	}
	// two write-outs: the flow seen during the first pause is written by the second one; idle flow pruned by the third
	out = append(out, newBuilder(128, big).pkt(ssh, 4, 60).lock("writeout", 0).pkt(web, 0, 100).pkt(ssh, 4, 61).unlock().
		lock("writeout", 0).unlock().lock("writeout", 0).pkt(web, 0, 5).unlock().lock("query", 0).unlock().in)
	// overflow: limit = initial size = 64 holds 3 IPv4 records (63 bytes); the 4th is lost, the 5th waits in the source
	b := newBuilder(64, 64).lock("status", 0)
	for i := 0; i < 5; i++ {
		b.pkt(ssh, 4, uint32(60+i))
	}
	out = append(out, b.unlock().pkt(ssh, 4, 9).in)
	// overflow with IPv6 records (45 bytes): one fits into 64
	out = append(out, newBuilder(64, 64).pkt(web, 0, 1).lock("writeout", 1).pkt(web, 0, 2).pkt(webR, 4, 3).pkt(ssh, 4, 4).unlock().pkt(webR, 4, 5).in)
	// growth 64 -> 128 -> limit 150: 45+45+21+21 = 132 fits, the next IPv4 record (153) does not
	out = append(out, newBuilder(64, 150).lock("query", 3).pkt(web, 0, 2).pkt(webR, 4, 3).pkt(ssh, 4, 4).pkt(sshR, 0, 5).pkt(ssh, 4, 6).pkt(web, 0, 7).unlock().in)
	// overflow in two consecutive windows
	out = append(out, newBuilder(64, 64).lock("status", 0).pkt(web, 0, 2).pkt(web, 0, 3).unlock().lock("status", 0).pkt(webR, 4, 2).pkt(webR, 4, 3).pkt(ssh, 4, 4).unlock().in)
	// fragment, truncated and invalid-version packets inside and outside a window
	frag := append([]byte(nil), ssh...)
	frag[6], frag[7] = 0x20, 0x10
	trunc4 := ssh[:30]
	trunc6 := web[:50]
	inval := append([]byte(nil), ssh...)
	inval[0] = 0x55
	out = append(out, newBuilder(128, big).pkt(frag, 0, 10).pkt(trunc4, 0, 11).pkt(trunc6, 0, 12).pkt(inval, 0, 13).
		lock("status", 2).pkt(frag, 0, 10).pkt(trunc4, 0, 11).pkt(trunc6, 0, 12).pkt(ssh, 4, 14).unlock().lock("status", 0).unlock().in)
	// an invalid-version packet inside a window is not tracked (documented in bufferPackets)
	out = append(out, newBuilder(128, big).lock("status", 0).pkt(inval, 0, 13).pkt(web, 0, 14).unlock().pkt(inval, 0, 15).lock("status", 0).unlock().in)
	// invalid-version packet after an overflow in the same window: the source keeps it, it is counted after the unlock
	out = append(out, newBuilder(64, 64).lock("status", 0).pkt(web, 0, 1).pkt(web, 0, 2).pkt(inval, 0, 3).pkt(ssh, 4, 4).unlock().lock("status", 0).unlock().in)
	// packet types and size boundaries
	out = append(out, newBuilder(128, big).lock("writeout", 0).pkt(web, 255, 0xffffffff).pkt(web, 4, 0xffffffff).pkt(webR, 1, 0).pkt(ssh, 3, 1<<24+5).pkt(web, 2, 7).unlock().lock("writeout", 0).unlock().in)
	// source-port aggregation: two client ports to the same server inside a window, then a write-out
	out = append(out, newBuilder(128, big).lock("query", 0).pkt(mkPkt(c6hi, false, 0x10, 0, 51000), 0, 10).pkt(mkPkt(c6hi, false, 0x10, 0, 51001), 0, 20).
		pkt(mkPkt(c6hi, true, 0x10, 0, 51000), 4, 30).unlock().lock("writeout", 0).unlock().in)
	// same-direction repeats of a flow whose forward hash has sport < dport, before / inside / after a pause
	low := mkPkt(c6low, false, 0x02, 0, c6low.cport)
	dh := mkPkt(c6dhcp, false, 0, 0, c6dhcp.cport)
	out = append(out, newBuilder(128, big).pkt(low, 4, 60).lock("writeout", 1).pkt(low, 4, 60).pkt(mkPkt(c6low, false, 0x10, 0, c6low.cport), 4, 52).unlock().pkt(low, 4, 61).
		pkt(dh, 4, 100).lock("status", 0).pkt(dh, 4, 101).pkt(dh, 4, 102).unlock().pkt(dh, 4, 103).lock("query", 0).unlock().in)
	// both ports common, both directions, before / inside / after a pause
	b2 := newBuilder(128, big)
	for _, c := range []conv{c6cc, c4cc, c6dd, c4dd, c4smb} {
		b2.pkt(mkPkt(c, false, 0x18, 0, c.cport), 4, 100)
	}
	b2.lock("writeout", 2)
	for _, c := range []conv{c6cc, c4cc, c6dd, c4dd, c4smb} {
		b2.pkt(mkPkt(c, true, 0x18, 0, c.cport), 0, 200)
	}
	b2.unlock()
	for _, c := range []conv{c6cc, c4cc} {
		b2.pkt(mkPkt(c, false, 0x10, 0, c.cport), 4, 300)
	}
	out = append(out, b2.lock("writeout", 0).unlock().in)
	// direction must come from the packet type, not from the aux byte: IPv6 / IPv4 outgoing, inbound TCP with flags
	// exactly 0x04 and inbound ICMPv6 type 4, inside each kind of window
	for _, w := range []string{"status", "writeout", "query"} {
		out = append(out, newBuilder(128, big).pkt(web, 0, 70).lock(w, 1).pkt(webR, 4, 1500).pkt(mkPkt(c6web, false, 0x04, 0, c6web.cport), 0, 41).
			pkt(mkPkt(c6icmp, true, 0, 4, 0), 0, 90).pkt(mkPkt(c6icmp, false, 0, 128, 0), 4, 91).
			pkt(mkPkt(c4ssh, true, 0x04, 0, c4ssh.cport), 0, 42).pkt(ssh, 4, 43).unlock().lock("writeout", 0).unlock().in)
	}
	return out
}

var fixed = fixedCases()

func gen(r *vhlib.Rand, i int, o vhlib.Opts) any {
	if i < len(fixed) {
		return fixed[i]
	}
	init := vhlib.Pick(r, []int{64, 90, 128})
	limit := big
	small := r.Chance(30)
	if small {
		limit = vhlib.Pick(r, []int{45, 64, 66, 70, 90, 100, 128, 135, 150, 200})
	}
	b := newBuilder(init, limit)
	// conversations of this case
	nc := 2 + r.Intn(3)
	cs := make([]conv, nc)
	for k := range cs {
		cs[k] = vhlib.Pick(r, convs)
		if r.Chance(60) { // bias to IPv6
			cs[k] = vhlib.Pick(r, []conv{c6web, c6hi, c6dns, c6icmp, c6low, c6low, c6dhcp, c6cc, c6dd})
		}
	}
	lastC, lastRev := -1, false
	onePkt := func() {
		ci, rev := r.Intn(len(cs)), r.Bool()
		if lastC >= 0 && r.Chance(40) {
			ci, rev = lastC, lastRev // another packet of the same conversation in the same direction
		}
		lastC, lastRev = ci, rev
		c := cs[ci]
		flags := vhlib.Pick(r, []byte{0x10, 0x18, 0x02, 0x12, 0x11, 0x00, 0x04, 0x80, 0x81})
		var ity byte
		if c.proto == 1 {
			ity = map[bool]byte{false: 8, true: 0}[rev]
		} else if c.proto == 58 {
			ity = map[bool]byte{false: 128, true: 129}[rev]
		}
		cport := c.cport
		if r.Chance(20) {
			cport++
		}
		d := mkPkt(c, rev, flags, ity, cport)
		switch r.Intn(25) {
		case 0:
			if !c.v6 {
				d[6], d[7] = 0x20, byte(1+r.Intn(255)) // non-first fragment
			}
		case 1:
			if hdr := map[bool]int{false: 20, true: 40}[c.v6]; len(d)-5 >= hdr {
				d = d[:len(d)-5] // truncated transport header (the fixed IP header stays complete)
			}
		case 2:
			d[0] = byte(vhlib.Pick(r, []int{0x05, 0x55, 0x75, 0xf0})) // neither IPv4 nor IPv6
		}
		// packet type (direction w.r.t. the interface) is a dimension of its own: inbound 0 / outgoing 4, rarely others
		t := vhlib.Pick(r, []uint8{0, 4})
		if r.Chance(6) {
			t = vhlib.Pick(r, []uint8{1, 2, 3, 255})
		}
		s := uint32(40 + r.Intn(1460))
		if r.Chance(4) {
			s = vhlib.Pick(r, []uint32{0, 1, 65535, 1 << 24, 0xffffffff})
		}
		b.pkt(d, t, s)
	}
	nw := 1 + r.Intn(3)
	if o.Tier == "thorough" || o.Search {
		nw = 1 + r.Intn(4)
	}
	for w := 0; w < nw; w++ {
		for k := r.Intn(3); k > 0; k-- {
			onePkt()
		}
		n := r.Intn(5)
		if small {
			n = 1 + r.Intn(7)
		}
		b.lock(vhlib.Pick(r, []string{"status", "writeout", "writeout", "query"}), r.Intn(n+1))
		for k := 0; k < n; k++ {
			onePkt()
		}
		b.unlock()
	}
	for k := r.Intn(3); k > 0; k-- {
		onePkt()
	}
	if r.Chance(50) {
		b.lock(vhlib.Pick(r, []string{"status", "writeout", "query"}), 0).unlock()
	}
	return b.in
}

// ---------------------------------------------------------------- run

func isInvalid(p pktIn) bool {
	b, _ := hex.DecodeString(p.D)
	return len(b) > 0 && b[0]>>4 != 4 && b[0]>>4 != 6
}

func schedule(in input, evs []evIn) (vsrc.Schedule, error) {
	s := vsrc.Schedule{Init: in.Init, Limit: in.Limit}
	for _, e := range evs {
		switch e.K {
		case "p":
			if e.I < 0 || e.I >= len(in.Pkts) {
				return s, fmt.Errorf("packet index %d out of range", e.I)
			}
			p := in.Pkts[e.I]
			b, err := hex.DecodeString(p.D)
			if err != nil || len(b) == 0 {
				return s, fmt.Errorf("bad packet %d", e.I)
			}
			if v := b[0] >> 4; (v == 4 && len(b) < 20) || (v == 6 && len(b) < 40) {
				return s, fmt.Errorf("packet %d is shorter than its fixed header (the parser would panic)", e.I)
			}
			s.Evs = append(s.Evs, vsrc.Ev{K: "p", D: p.D, T: p.T, S: p.S})
		default:
			s.Evs = append(s.Evs, vsrc.Ev{K: e.K, W: e.W})
		}
	}
	return s, nil
}

// refEvents empties every lock window: packets of a window are delivered directly after it; the
// packet lost to a reported overflow and the untracked invalid-version packets seen before it are removed
func refEvents(in input, lost map[int]bool) []evIn {
	var out, pend []evIn
	inWin, overflowed := false, false
	for i, e := range in.Evs {
		switch e.K {
		case "lock":
			inWin, overflowed = true, false
			out = append(out, e)
		case "unlock":
			inWin = false
			out = append(out, e)
			out = append(out, pend...)
			pend = nil
		default:
			if !inWin {
				out = append(out, e)
				continue
			}
			if lost[i] {
				overflowed = true
				continue
			}
			if !overflowed && isInvalid(in.Pkts[e.I]) {
				continue
			}
			pend = append(pend, e)
		}
	}
	return out
}

func coqFlows(fs []vsrc.Flow) string {
	xs := make([]string, len(fs))
	for i, f := range fs {
		xs[i] = fmt.Sprintf("(%s,(%d,%d,%d,%d))", vhlib.CoqStr(f.Key), f.BR, f.BS, f.PR, f.PS)
	}
	return vhlib.CoqList(xs)
}
func coqAgg(a vsrc.Agg) string {
	if a.Nil {
		return "None"
	}
	return "(Some (" + coqFlows(a.V4) + "," + coqFlows(a.V6) + "))"
}
func coqAggs(as []vsrc.Agg) string {
	xs := make([]string, len(as))
	for i, a := range as {
		xs[i] = coqAgg(a)
	}
	return vhlib.CoqList(xs)
}
func coqInts(xs []int) string {
	ys := make([]string, len(xs))
	for i, x := range xs {
		ys[i] = vhlib.CoqZ(int64(x))
	}
	return vhlib.CoqList(ys)
}
func coqObs(r *vsrc.Result, in input) string {
	st := make([]string, len(r.Statuses))
	for i, s := range r.Statuses {
		st[i] = fmt.Sprintf("(%d,%d,%s)", s.Processed, s.ProcessedTotal, coqInts(s.Errs))
	}
	lost := make([]string, len(r.Lost))
	for i, l := range r.Lost {
		lost[i] = vhlib.CoqNat(in.Evs[l].I)
	}
	return fmt.Sprintf("(mk_obs %s %s %d %d %s %s %s %s %s %s %s)", coqFlows(r.V4), coqFlows(r.V6), r.Processed, r.ProcessedTotal,
		coqInts(r.Errs), vhlib.CoqList(st), coqAggs(r.Written), coqAggs(r.Queries), vhlib.CoqList(lost), vhlib.CoqNat(r.Overflows), vhlib.CoqNat(r.Stalled))
}

// model-side event list: the actions of a window happen after its AP-th packet
func coqEvs(evs []evIn) string {
	var xs []string
	var acts []string
	ap, k := 0, 0
	inWin := false
	flush := func() {
		xs = append(xs, acts...)
		acts = nil
	}
	for _, e := range evs {
		switch e.K {
		case "lock":
			xs = append(xs, "CL")
			inWin, ap, k = true, e.AP, 0
			switch e.W {
			case "status":
				acts = []string{"CA AStatus"}
			case "writeout":
				acts = []string{"CA AStatus", "CA ARotate"}
			case "query":
				acts = []string{"CA AQuery"}
			}
			if ap <= 0 {
				flush()
			}
		case "unlock":
			flush()
			inWin = false
			xs = append(xs, "CU")
		default:
			xs = append(xs, fmt.Sprintf("CP %d", e.I))
			if inWin {
				k++
				if k == ap {
					flush()
				}
			}
		}
	}
	return vhlib.CoqList(xs)
}

func run(raw json.RawMessage, o vhlib.Opts) (*vhlib.Case, error) {
	var in input
	if err := json.Unmarshal(raw, &in); err != nil {
		return nil, err
	}
	s, err := schedule(in, in.Evs)
	if err != nil {
		return nil, err
	}
	res, err := vsrc.Run(s, nil)
	if err != nil {
		return nil, err
	}
	lost := map[int]bool{}
	for _, l := range res.Lost {
		lost[l] = true
	}
	refEvs := refEvents(in, lost)
	rs, err := schedule(in, refEvs)
	if err != nil {
		return nil, err
	}
	ref, err := vsrc.Run(rs, nil)
	if err != nil {
		return nil, err
	}
	// tags / non-triviality
	tags := map[string]bool{}
	inWin, nIn, v6In, v4In := false, 0, false, false
	for _, e := range in.Evs {
		switch e.K {
		case "lock":
			inWin = true
			tags["win:"+e.W] = true
		case "unlock":
			inWin = false
		default:
			b, _ := hex.DecodeString(in.Pkts[e.I].D)
			if inWin {
				nIn++
				switch b[0] >> 4 {
				case 6:
					v6In = true
				case 4:
					v4In = true
				default:
					tags["invalid-in-window"] = true
				}
			}
		}
	}
	if v6In {
		tags["v6-in-window"] = true
	}
	if v4In {
		tags["v4-in-window"] = true
	}
	if res.Overflows > 0 {
		tags["overflow"] = true
	}
	if in.Limit < big {
		tags["small-limit"] = true
	}
	parseErr := func(e []int) bool { return len(e) == 3 && e[0]+e[2] > 0 }
	if parseErr(res.Errs) {
		tags["parse-errors"] = true
	}
	for _, s := range res.Statuses {
		if parseErr(s.Errs) {
			tags["parse-errors"] = true
		}
	}
	if res.Stalled > 0 || ref.Stalled > 0 {
		tags["stalled"] = true
	}
	if nIn == 0 {
		tags["no-packet-in-window"] = true
	}
	var tl []string
	for t := range tags {
		tl = append(tl, t)
	}

	pk := make([]string, len(in.Pkts))
	for i, p := range in.Pkts {
		pk[i] = fmt.Sprintf("(%s,%d,%d)", vhlib.CoqStr(p.D), p.T, p.S)
	}
	coq := fmt.Sprintf("(mk_case %d %d %s %s %s %s %s)", in.Init, in.Limit, vhlib.CoqList(pk),
		coqEvs(in.Evs), coqObs(res, in), coqEvs(refEvs), coqObs(ref, input{Evs: refEvs, Pkts: in.Pkts}))
	return &vhlib.Case{
		Observed:   map[string]any{"paused": res, "reference": ref},
		Tags:       vhlib.SortedCopy(tl),
		Nontrivial: v6In || v4In,
		Coq:        coq,
	}, nil
}

func main() { vhlib.Main(gen, run) }
