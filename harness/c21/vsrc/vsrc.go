// Package vsrc is the scripted deterministic capture source shared by the C20 and C21 harnesses and the
// runner that drives the REAL capture.Manager / Capture / three-point lock with a schedule of packets
// and lock windows (status call, write-out, live query).
//
// Determinism (no sleeps, no timing assumptions):
//   - the source is a queue guarded by one mutex / condition variable; an Unblock() request always has
//     priority over queued packets, and the runner only requests a lock after the capture routine is
//     parked inside NextIPPacketZeroCopy() with an empty queue (WaitIdle);
//   - packets of a lock window are handed out from inside the source's Stats() method (which
//     Manager.Status() and the rotation call exactly while the capture is locked) or from the call-out of
//     the VerifC21QueryWindow hook, one by one, waiting after each until the capture routine has come
//     back for the next one or has reported a local buffer overflow (the report is observed where the
//     product emits it: the error log line written by Manager.logErrors).
//   - every wait is bounded (WaitDeadline, generous; far beyond what a loaded machine needs). On the
//     unchanged code no wait ever expires, so the deadline is not a synchronisation device. If one
//     expires (e.g. a packet was taken by the capture routine, the routine neither came back nor was an
//     overflow reported) this is recorded in the observation (Result.Stalled, the packet is listed as
//     lost while Overflows stays what was actually reported) and the run carries on or is abandoned
//     cleanly; after the first expiry in a process the later waits use ShortDeadline.
package vsrc

import (
	"bytes"
	"context"
	"encoding/hex"
	"errors"
	"fmt"
	"log/slog"
	"sort"
	"sync"
	"sync/atomic"
	"time"

	"github.com/els0r/goProbe/v4/cmd/goProbe/config"
	"github.com/els0r/goProbe/v4/pkg/capture"
	"github.com/els0r/goProbe/v4/pkg/capture/capturetypes"
	"github.com/els0r/goProbe/v4/pkg/types/hashmap"
	"github.com/els0r/telemetry/logging"
	"github.com/fako1024/gotools/link"
	slimcap "github.com/fako1024/slimcap/capture"
)

// Iface is the name of the single scripted interface
const Iface = "vif0"

type qitem struct {
	data []byte
	typ  byte
	size uint32
}

// Source implements slimcap's capture.SourceZeroCopy
type Source struct {
	mu        sync.Mutex
	cond      *sync.Cond
	queue     []qitem
	unblock   bool
	closed    bool
	waiting   bool
	overflows int
	inStats   func()
	stalled   int // number of waits that expired
}

// deadlines of the bounded waits
var (
	WaitDeadline  = 25 * time.Second
	ShortDeadline = 400 * time.Millisecond
	expiredOnce   atomic.Bool
)

// waitUntil waits (mu held) until cond() holds or the deadline passes; it reports whether cond() holds
func (s *Source) waitUntil(cond func() bool) bool {
	if cond() {
		return true
	}
	d := WaitDeadline
	if expiredOnce.Load() {
		d = ShortDeadline
	}
	deadline := time.Now().Add(d)
	t := time.AfterFunc(d, func() {
		s.mu.Lock()
		s.cond.Broadcast()
		s.mu.Unlock()
	})
	defer t.Stop()
	for !cond() {
		if !time.Now().Before(deadline) {
			expiredOnce.Store(true)
			s.stalled++
			return false
		}
		s.cond.Wait()
	}
	return true
}

var errUnsupported = errors.New("not supported by the scripted source")

func NewSource() *Source {
	s := &Source{}
	s.cond = sync.NewCond(&s.mu)
	return s
}

func (s *Source) NextIPPacketZeroCopy() (slimcap.IPLayer, slimcap.PacketType, uint32, error) {
	s.mu.Lock()
	defer s.mu.Unlock()
	for {
		if s.closed {
			return nil, 0, 0, slimcap.ErrCaptureStopped
		}
		if s.unblock {
			s.unblock = false
			return nil, 0, 0, slimcap.ErrCaptureUnblocked
		}
		if len(s.queue) > 0 {
			it := s.queue[0]
			s.queue = s.queue[1:]
			return slimcap.IPLayer(it.data), it.typ, it.size, nil
		}
		s.waiting = true
		s.cond.Broadcast()
		s.cond.Wait()
		s.waiting = false
	}
}

func (s *Source) Unblock() error {
	s.mu.Lock()
	s.unblock = true
	s.cond.Broadcast()
	s.mu.Unlock()
	return nil
}

func (s *Source) Close() error {
	s.mu.Lock()
	s.closed = true
	s.cond.Broadcast()
	s.mu.Unlock()
	return nil
}

// Stats is called by Capture.status() while the capture is locked
func (s *Source) Stats() (slimcap.Stats, error) {
	s.mu.Lock()
	fn := s.inStats
	s.inStats = nil
	s.mu.Unlock()
	if fn != nil {
		fn()
	}
	return slimcap.Stats{}, nil
}

func (s *Source) Link() *link.Link          { return nil }
func (s *Source) NewPacket() slimcap.Packet { return nil }
func (s *Source) NextPacket(slimcap.Packet) (slimcap.Packet, error) {
	return nil, errUnsupported
}
func (s *Source) NextPayload([]byte) ([]byte, byte, uint32, error) { return nil, 0, 0, errUnsupported }
func (s *Source) NextIPPacket(slimcap.IPLayer) (slimcap.IPLayer, slimcap.PacketType, uint32, error) {
	return nil, 0, 0, errUnsupported
}
func (s *Source) NextPacketFn(func([]byte, uint32, slimcap.PacketType, byte) error) error {
	return errUnsupported
}
func (s *Source) NextPayloadZeroCopy() ([]byte, slimcap.PacketType, uint32, error) {
	return nil, 0, 0, errUnsupported
}

func (s *Source) idle() bool { return len(s.queue) == 0 && s.waiting && !s.unblock }

// WaitIdle returns true when every queued packet has been fully processed (the capture routine is
// parked in NextIPPacketZeroCopy with nothing to do), false if that did not happen within the deadline
func (s *Source) WaitIdle() bool {
	s.mu.Lock()
	defer s.mu.Unlock()
	return s.waitUntil(s.idle)
}

// Feed hands out the packets one by one. It returns len(pkts) when all were taken and processed, or
// the index of the packet after whose delivery a local buffer overflow was reported (that packet is
// the one the capture routine could not buffer; the later ones were not handed out). stalled = true:
// after the delivery of that packet the routine neither came back for the next one nor was an overflow
// reported within the deadline (the packet is gone without a report).
func (s *Source) Feed(pkts []qitem) (n int, stalled, taken bool) {
	s.mu.Lock()
	defer s.mu.Unlock()
	for i, p := range pkts {
		before := s.overflows
		s.queue = append(s.queue, p)
		s.cond.Broadcast()
		ok := s.waitUntil(func() bool { return s.idle() || s.overflows != before })
		if !ok {
			if len(s.queue) > 0 { // not even taken: withdraw it
				s.queue = s.queue[:len(s.queue)-1]
				return i, true, false
			}
			return i, true, true
		}
		if s.overflows != before {
			return i, false, true
		}
	}
	return len(pkts), false, true
}

// deadlines for calls into the Manager (its three-point lock has 30 s timeouts of its own, after which
// it closes the capture; memory pool and WaitGroup waits inside it have none)
var (
	CallDeadline      = 75 * time.Second
	ShortCallDeadline = 5 * time.Second
)

// bounded runs f and reports whether it returned within the deadline (if not, f's goroutine is abandoned)
func bounded(f func()) bool {
	done := make(chan struct{})
	go func() {
		defer close(done)
		f()
	}()
	d := CallDeadline
	if expiredOnce.Load() {
		d = ShortCallDeadline
	}
	t := time.NewTimer(d)
	defer t.Stop()
	select {
	case <-done:
		return true
	case <-t.C:
		expiredOnce.Store(true)
		return false
	}
}

func (s *Source) noteOverflow() {
	s.mu.Lock()
	s.overflows++
	s.cond.Broadcast()
	s.mu.Unlock()
}

// ---- observation of the product's error log (Manager.logErrors -> "capture error" ... overflow)

var current atomic.Pointer[Source]
var logOnce sync.Once

type logWriter struct{}

func (logWriter) Write(p []byte) (int, error) {
	if bytes.Contains(p, []byte(capture.ErrLocalBufferOverflow.Error())) {
		if s := current.Load(); s != nil {
			s.noteOverflow()
		}
	}
	return len(p), nil
}

func initLog() {
	logOnce.Do(func() {
		if _, err := logging.Init(slog.LevelError, logging.EncodingLogfmt,
			logging.WithOutput(logWriter{}), logging.WithErrorOutput(logWriter{})); err != nil {
			panic(err)
		}
	})
}

// ---- schedule and results

// Ev is one event of a schedule: a packet ("p"), the start of a lock window ("lock", W = status |
// writeout | query) or its end ("unlock")
type Ev struct {
	K string `json:"k"`
	D string `json:"d,omitempty"` // IP layer, hex
	T uint8  `json:"t,omitempty"` // packet type (4 = outgoing)
	S uint32 `json:"s,omitempty"` // packet size
	W string `json:"w,omitempty"`
}

type Schedule struct {
	Init  int  `json:"init"`  // initial local buffer size (page size in production)
	Limit int  `json:"limit"` // local buffer size limit
	Evs   []Ev `json:"evs"`
}

type Flow struct {
	Key            string `json:"k"` // hex
	BR, BS, PR, PS uint64
}

// Agg is an aggregated flow map as handed to the write-out handler / returned to a live query
type Agg struct {
	Nil bool   `json:"nil,omitempty"`
	V4  []Flow `json:"v4,omitempty"`
	V6  []Flow `json:"v6,omitempty"`
}

type Status struct {
	Processed, ProcessedTotal uint64
	Errs                      []int
}

type Result struct {
	V4, V6         []Flow // flow log at the end, sorted by key
	Processed      uint64
	ProcessedTotal uint64
	Errs           []int
	Statuses       []Status // one per status / write-out window, in order
	Written        []Agg    // one per write-out window
	Queries        []Agg    // one per live-query window
	Lost           []int    // indices (into Evs) of the packets lost to a reported overflow
	Overflows      int      // number of overflow reports
	Stalled        int      // number of waits for the capture routine that expired (0 on a healthy run)
	Aborted        string   `json:",omitempty"` // why the run was abandoned (only with Stalled > 0)
}

// Handler records what reaches the write-out handler and optionally forwards it to a real handler
type Handler struct {
	mu      sync.Mutex
	Written []Agg
	Stats   []Status
	Times   []int64
	Forward func(ctx context.Context, timestamp time.Time, ch <-chan capturetypes.TaggedAggFlowMap) <-chan struct{}
}

func (h *Handler) HandleWriteout(ctx context.Context, timestamp time.Time, ch <-chan capturetypes.TaggedAggFlowMap) <-chan struct{} {
	done := make(chan struct{})
	go func() {
		var fwd chan capturetypes.TaggedAggFlowMap
		var fwdDone <-chan struct{}
		if h.Forward != nil {
			fwd = make(chan capturetypes.TaggedAggFlowMap, 16)
			fwdDone = h.Forward(ctx, timestamp, fwd)
		}
		for m := range ch {
			h.mu.Lock()
			h.Written = append(h.Written, AggOf(m.Map))
			h.Stats = append(h.Stats, Status{m.Stats.Processed, m.Stats.ProcessedTotal, append([]int(nil), m.Stats.ParsingErrors[:]...)})
			h.Times = append(h.Times, timestamp.Unix())
			h.mu.Unlock()
			if fwd != nil {
				fwd <- m
			}
		}
		if fwd != nil {
			close(fwd)
			<-fwdDone
		}
		done <- struct{}{}
	}()
	return done
}

func sortFlows(fs []Flow) []Flow {
	sort.Slice(fs, func(i, j int) bool { return fs[i].Key < fs[j].Key })
	return fs
}

// AggOf copies an aggregated flow map (sorted by key)
func AggOf(m *hashmap.AggFlowMap) Agg {
	if m == nil {
		return Agg{Nil: true}
	}
	var a Agg
	v4, v6 := m.Flatten()
	for _, it := range v4 {
		a.V4 = append(a.V4, Flow{hex.EncodeToString(it.Key), it.BytesRcvd, it.BytesSent, it.PacketsRcvd, it.PacketsSent})
	}
	for _, it := range v6 {
		a.V6 = append(a.V6, Flow{hex.EncodeToString(it.Key), it.BytesRcvd, it.BytesSent, it.PacketsRcvd, it.PacketsSent})
	}
	sortFlows(a.V4)
	sortFlows(a.V6)
	return a
}

func item(e Ev) (qitem, error) {
	b, err := hex.DecodeString(e.D)
	if err != nil {
		return qitem{}, err
	}
	if len(b) == 0 {
		return qitem{}, errors.New("empty IP layer")
	}
	return qitem{data: b, typ: e.T, size: e.S}, nil
}

// BaseTime is the timestamp of the first write-out; the k-th one is 300 s later each
const BaseTime = 1700000100

// Run drives the real Manager with the schedule. forward (optional) receives what the write-out
// handler gets (e.g. the real GoDB handler of the C20 harness).
func Run(s Schedule, forward func(ctx context.Context, timestamp time.Time, ch <-chan capturetypes.TaggedAggFlowMap) <-chan struct{}) (res *Result, err error) {
	initLog()
	old := capture.VerifC21SetInitialBufferSize(s.Init)
	defer capture.VerifC21SetInitialBufferSize(old)

	src := NewSource()
	current.Store(src)
	defer current.Store(nil)

	ctx := context.Background()
	h := &Handler{Forward: forward}
	cm := capture.NewManager(h,
		capture.WithSourceInitFn(func(c *capture.Capture) (slimcap.SourceZeroCopy, error) { return src, nil }),
		capture.WithLocalBuffers(1, s.Limit),
		capture.WithSkipWriteoutSchedule(true),
	)
	if _, _, _, err = cm.Update(ctx, &config.Config{Interfaces: config.Ifaces{Iface: config.DefaultCaptureConfig()}}); err != nil {
		return nil, err
	}
	closed := false
	defer func() {
		if !closed {
			bounded(func() { cm.Close(ctx, Iface) })
		}
	}()

	res = &Result{}
	callStalls := 0
	// abort abandons the run cleanly: the observation says why, the capture is not closed through the
	// Manager (that could wait for a routine that is stuck), its goroutines are left behind
	abort := func(reason string, stall bool) (*Result, error) {
		if stall {
			callStalls++
		}
		src.mu.Lock()
		res.Stalled = src.stalled + callStalls
		res.Overflows = src.overflows
		src.mu.Unlock()
		if res.Stalled == 0 {
			res.Stalled = 1
		}
		res.Aborted = reason
		_ = src.Close()
		closed = true
		return res, nil
	}
	nWriteouts := 0
	i := 0
	for i < len(s.Evs) {
		e := s.Evs[i]
		switch e.K {
		case "p":
			it, err := item(e)
			if err != nil {
				return nil, err
			}
			if _, stalled, _ := src.Feed([]qitem{it}); stalled {
				return abort(fmt.Sprintf("event %d: packet outside a lock window was not processed within the deadline", i), false)
			}
			i++
		case "lock":
			// collect the packets of the window
			var win []qitem
			var idx []int
			j := i + 1
			for ; j < len(s.Evs) && s.Evs[j].K != "unlock"; j++ {
				if s.Evs[j].K != "p" {
					return nil, fmt.Errorf("event %d: %q inside a lock window", j, s.Evs[j].K)
				}
				it, err := item(s.Evs[j])
				if err != nil {
					return nil, err
				}
				win = append(win, it)
				idx = append(idx, j)
			}
			if j >= len(s.Evs) {
				return nil, errors.New("lock window without unlock")
			}
			var held []qitem
			inWindow := func() {
				n, stalled, taken := src.Feed(win)
				switch {
				case n >= len(win):
				case stalled && !taken:
					held = win[n:] // the routine does not read at all: try again after the unlock
				default:
					// reported overflow, or (stalled) the packet was taken and the routine neither came back nor
					// reported anything: either way the packet is gone; Overflows counts the reports actually seen
					res.Lost = append(res.Lost, idx[n])
					held = win[n+1:]
				}
			}
			if !src.WaitIdle() {
				return abort(fmt.Sprintf("event %d: capture routine not idle before the lock request", i), false)
			}
			switch e.W {
			case "status":
				src.mu.Lock()
				src.inStats = inWindow
				src.mu.Unlock()
				var st capturetypes.CaptureStats
				var ok bool
				if !bounded(func() { st, ok = cm.Status(ctx, Iface)[Iface] }) {
					return abort(fmt.Sprintf("event %d: Status() did not return", i), true)
				}
				if !ok {
					return abort(fmt.Sprintf("event %d: Status() returned nothing for the interface (lock failed)", i), true)
				}
				res.Statuses = append(res.Statuses, Status{st.Processed, st.ProcessedTotal, append([]int(nil), st.ParsingErrors[:]...)})
			case "writeout":
				src.mu.Lock()
				src.inStats = inWindow
				src.mu.Unlock()
				h.mu.Lock()
				before := len(h.Written)
				h.mu.Unlock()
				if !bounded(func() { cm.VerifC21Writeout(ctx, time.Unix(BaseTime+300*int64(nWriteouts), 0)) }) {
					return abort(fmt.Sprintf("event %d: write-out did not return", i), true)
				}
				nWriteouts++
				h.mu.Lock()
				if len(h.Written) != before+1 {
					n := len(h.Written) - before
					h.mu.Unlock()
					return abort(fmt.Sprintf("event %d: write-out handed %d maps to the handler (lock failed)", i, n), true)
				}
				res.Written = append(res.Written, h.Written[before])
				res.Statuses = append(res.Statuses, h.Stats[before])
				h.mu.Unlock()
			case "query":
				if len(win) == 0 {
					ch := make(chan hashmap.AggFlowMapWithMetadata, 1)
					if !bounded(func() { cm.GetFlowMaps(ctx, nil, ch, Iface) }) {
						return abort(fmt.Sprintf("event %d: GetFlowMaps() did not return", i), true)
					}
					select {
					case m := <-ch:
						res.Queries = append(res.Queries, AggOf(m.AggFlowMap))
					default:
						res.Queries = append(res.Queries, Agg{Nil: true})
					}
				} else {
					var m *hashmap.AggFlowMap
					var qerr error
					if !bounded(func() { m, qerr = cm.VerifC21QueryWindow(ctx, Iface, inWindow) }) {
						return abort(fmt.Sprintf("event %d: query window did not return", i), true)
					}
					if qerr != nil {
						return abort(fmt.Sprintf("event %d: query window: %v", i, qerr), true)
					}
					res.Queries = append(res.Queries, AggOf(m))
				}
			default:
				return nil, fmt.Errorf("unknown window kind %q", e.W)
			}
			// packets the source still holds after an overflow are delivered after the unlock
			if _, stalled, _ := src.Feed(held); stalled {
				return abort(fmt.Sprintf("event %d: packets held back during the window were not processed after it", i), false)
			}
			i = j + 1
		default:
			return nil, fmt.Errorf("event %d: unexpected %q", i, e.K)
		}
	}
	if !src.WaitIdle() {
		return abort("capture routine not idle at the end", false)
	}
	var st *capture.VerifC21State
	var derr error
	if !bounded(func() { st, derr = cm.VerifC21Dump(Iface) }) {
		return abort("flow log dump under the lock did not return", true)
	}
	if derr != nil {
		return abort(fmt.Sprintf("flow log dump: %v", derr), true)
	}
	for _, f := range st.V4 {
		res.V4 = append(res.V4, Flow{hex.EncodeToString(f.Key), f.BytesRcvd, f.BytesSent, f.PacketsRcvd, f.PacketsSent})
	}
	for _, f := range st.V6 {
		res.V6 = append(res.V6, Flow{hex.EncodeToString(f.Key), f.BytesRcvd, f.BytesSent, f.PacketsRcvd, f.PacketsSent})
	}
	sortFlows(res.V4)
	sortFlows(res.V6)
	res.Processed, res.ProcessedTotal, res.Errs = st.Processed, st.ProcessedTotal, st.ParsingErrors
	src.mu.Lock()
	res.Overflows = src.overflows
	res.Stalled = src.stalled + callStalls
	src.mu.Unlock()
	closed = true
	if !bounded(func() { cm.Close(ctx, Iface) }) {
		res.Stalled++
		res.Aborted = "closing the capture did not return"
		_ = src.Close()
	}
	return res, nil
}
