// C10 correspondence harness: condition text -> SanitizeUserInput -> Tokenize -> parseConditional ->
// canonical string, and Args.Prepare end to end. Fuzzed strings, grammar-generated conditions rendered
// with every documented operator spelling, long inputs (nesting depth, token length).
package main

import (
	"encoding/json"
	"errors"
	"fmt"
	"net"
	"sort"
	"strconv"
	"strings"
	"time"

	"verifharness/vhlib"

	"github.com/els0r/goProbe/v4/pkg/goDB/conditions"
	"github.com/els0r/goProbe/v4/pkg/goDB/conditions/node"
	"github.com/els0r/goProbe/v4/pkg/query"
)

type piece struct {
	S string `json:"s"`
	N int    `json:"n"`
}

type input struct {
	Kind   string   `json:"kind"`            // fuzz gen big
	Text   []byte   `json:"text,omitempty"`  // the condition text (fuzz, gen)
	Sym    string   `json:"sym,omitempty"`   // gen: the same condition written with symbols only
	Order  []string `json:"order,omitempty"` // explicit order of the conversion map keys
	Seed   uint64   `json:"seed,omitempty"`  // orders used for the insensitivity probe
	Pieces []piece  `json:"pieces,omitempty"`
	Tag    string   `json:"tag,omitempty"`
	Raw    bool     `json:"raw,omitempty"` // big: no sanitizer (evaluating it on 64 KiB inside Coq is slow)
}

var groupKeys = []string{"!", "!(", "&", "|", "(", ")", "=", "!=", "<=", ">=", ">", "<"}
var groupCoq = map[string]string{"!": "GNot", "!(": "GNotP", "&": "GAnd", "|": "GOr", "(": "GLp", ")": "GRp",
	"=": "GEq", "!=": "GNe", "<=": "GLe", ">=": "GGe", ">": "GGt", "<": "GLt"}

// documented spellings (cmd/goQuery/cmd/help.go, COMPARATIVE / LOGICAL OPERATORS)
var wordSpellings = map[string][]string{
	"=":  {"eq", "-eq", "equals"},
	"!=": {"neq", "-neq", "ne", "-ne"},
	"<=": {"le", "-le", "leq", "-leq"},
	">=": {"ge", "-ge", "geq", "-geq"},
	"<":  {"less", "l", "-l", "lt", "-lt"},
	">":  {"greater", "g", "-g", "gt", "-gt"},
	"&":  {"and"},
	"|":  {"or"},
}
var symSpellings = map[string][]string{
	"=": {"=", "==", "==="}, "!=": {"!="}, "<=": {"<="}, ">=": {">="}, "<": {"<"}, ">": {">"},
	"&": {"&", "&&", "*"}, "|": {"|", "||", "+"},
}
var wsChars = []string{" ", " ", " ", "\t", "\n", "\r", "  "}

func perm(r *vhlib.Rand) []string {
	p := append([]string(nil), groupKeys...)
	for i := len(p) - 1; i > 0; i-- {
		j := r.Intn(i + 1)
		p[i], p[j] = p[j], p[i]
	}
	return p
}

// ---------------------------------------------------------------- grammar generator

type gtree struct {
	kind       string // leaf not and or
	attr, val  string
	cmp        string
	l, r       *gtree
}

var ipv4 = []string{"10.0.0.1", "192.168.1.34", "0.0.0.0", "255.255.255.255", "172.16.22.7"}
var ipv6 = []string{"::1", "2001:db8::1", "fe80::abcd:ce23", "::ffff:1.2.3.4"}
var nets = []string{"10.0.0.0/8", "192.168.1.0/25", "2001:db8::/32", "0.0.0.0/0"}
var protos = []string{"tcp", "udp", "icmp", "6", "17", "TCP", "UDP"}
var ports = []string{"0", "22", "80", "443", "8080", "65535", "1024"}

func genLeaf(r *vhlib.Rand) *gtree {
	switch r.Intn(6) {
	case 0:
		return &gtree{kind: "leaf", attr: vhlib.Pick(r, []string{"sip", "dip", "host", "src", "dst"}),
			cmp: vhlib.Pick(r, []string{"=", "!="}), val: vhlib.Pick(r, append(append([]string{}, ipv4...), ipv6...))}
	case 1:
		return &gtree{kind: "leaf", attr: vhlib.Pick(r, []string{"snet", "dnet", "net"}),
			cmp: vhlib.Pick(r, []string{"=", "!="}), val: vhlib.Pick(r, nets)}
	case 2:
		return &gtree{kind: "leaf", attr: vhlib.Pick(r, []string{"proto", "protocol", "ipproto"}),
			cmp: vhlib.Pick(r, []string{"=", "!="}), val: vhlib.Pick(r, protos)}
	default:
		return &gtree{kind: "leaf", attr: vhlib.Pick(r, []string{"dport", "port"}),
			cmp: vhlib.Pick(r, []string{"=", "!=", "<", ">", "<=", ">="}), val: vhlib.Pick(r, ports)}
	}
}

func genTree(r *vhlib.Rand, depth int) *gtree {
	if depth <= 0 || r.Chance(30) {
		return genLeaf(r)
	}
	switch r.Intn(5) {
	case 0:
		return &gtree{kind: "not", l: genTree(r, depth-1)}
	case 1, 2:
		return &gtree{kind: "and", l: genTree(r, depth-1), r: genTree(r, depth-1)}
	default:
		return &gtree{kind: "or", l: genTree(r, depth-1), r: genTree(r, depth-1)}
	}
}

func randCase(r *vhlib.Rand, s string) string {
	switch r.Intn(6) {
	case 0:
		return strings.ToUpper(s)
	case 1:
		b := []byte(s)
		for i := range b {
			if r.Bool() {
				b[i] = strings.ToUpper(string(b[i]))[0]
			}
		}
		return string(b)
	}
	return s
}

// renderer: pieces are appended through emit, which knows whether white space is required before
// the next piece (after a word operator) and whether the text so far ends in white space
type renderer struct {
	r     *vhlib.Rand
	sb    strings.Builder
	sym   strings.Builder
	words bool // use word spellings at all
}

func (g *renderer) ws(min int) string {
	n := min
	if g.r.Chance(40) {
		n++
	}
	s := ""
	for i := 0; i < n; i++ {
		s += vhlib.Pick(g.r, wsChars)
	}
	return s
}

func (g *renderer) endsWS() bool {
	s := g.sb.String()
	return s == "" || strings.ContainsAny(s[len(s)-1:], " \t\n\r")
}

// binary operator (comparison or logical)
func (g *renderer) op(o string) {
	g.sym.WriteString(o)
	if g.words && g.r.Chance(60) {
		w := randCase(g.r, vhlib.Pick(g.r, wordSpellings[o]))
		if !g.endsWS() {
			g.sb.WriteString(g.ws(1))
		} else {
			g.sb.WriteString(g.ws(0))
		}
		g.sb.WriteString(w)
		g.sb.WriteString(g.ws(1))
		return
	}
	g.sb.WriteString(g.ws(0))
	g.sb.WriteString(vhlib.Pick(g.r, symSpellings[o]))
	g.sb.WriteString(g.ws(0))
}

func (g *renderer) open() string {
	k := g.r.Intn(3)
	g.sym.WriteString("(")
	g.sb.WriteString([]string{"(", "[", "{"}[k])
	g.sb.WriteString(g.ws(0))
	return []string{")", "]", "}"}[k]
}

func (g *renderer) close(c string) {
	g.sym.WriteString(")")
	g.sb.WriteString(g.ws(0))
	g.sb.WriteString(c)
}

func (g *renderer) render(t *gtree, prec int) {
	// prec: 0 top/or level, 1 and level, 2 operand of not
	switch t.kind {
	case "leaf":
		g.sb.WriteString(randCase(g.r, t.attr))
		g.sym.WriteString(t.attr)
		g.op(t.cmp)
		g.sb.WriteString(t.val)
		g.sym.WriteString(t.val)
	case "not":
		g.sym.WriteString("!")
		if g.words && g.r.Chance(60) {
			// "not" requires enclosing white space (or the start of the text); a bracket may follow directly
			if !g.endsWS() {
				g.sb.WriteString(g.ws(1))
			}
			g.sb.WriteString(randCase(g.r, "not"))
			if t.l.kind == "leaf" || g.r.Bool() {
				g.sb.WriteString(g.ws(1))
			}
		} else {
			g.sb.WriteString("!")
			g.sb.WriteString(g.ws(0))
		}
		if t.l.kind == "leaf" {
			g.render(t.l, 2)
		} else {
			c := g.open()
			g.render(t.l, 0)
			g.close(c)
		}
	case "and", "or":
		my := 1
		o := "&"
		if t.kind == "or" {
			my, o = 0, "|"
		}
		paren := my < prec || g.r.Chance(15)
		c := ""
		if paren {
			c = g.open()
		}
		// the parser builds right-hanging chains: a left operand of the same kind needs parentheses
		g.renderOperand(t.l, my, t.kind)
		g.op(o)
		g.render(t.r, my)
		if paren {
			g.close(c)
		}
	}
}

func (g *renderer) renderOperand(t *gtree, prec int, parent string) {
	if t.kind == parent {
		c := g.open()
		g.render(t, 0)
		g.close(c)
		return
	}
	g.render(t, prec)
}

// ---------------------------------------------------------------- fuzz generator

var fuzzPieces = []string{
	"sip", "dip", "dport", "proto", "snet", "dnet", "dir", "host", "net", "port", "src", "dst", "direction",
	"and", "or", "not", "eq", "-eq", "equals", "neq", "-neq", "ne", "-ne", "le", "-le", "leq", "-leq", "ge", "-ge", "geq", "-geq",
	"g", "-g", "gt", "-gt", "greater", "l", "-l", "lt", "-lt", "less", "AND", "Or", "NOT",
	"=", "==", "===", "!=", "<=", ">=", "<", ">", "!", "&", "&&", "|", "||", "*", "+", "(", ")", "{", "}", "[", "]", "!(", "not(", "not{", "not[",
	"80", "443", "1.2.3.4", "10.0.0.0/8", "::1", "tcp", "udp", "in", "out", "x", "-", "/", ".", ":",
}
var fuzzWS = []string{" ", " ", " ", "  ", "\t", "\n", "\r", "\f", "\v", ""}

func genFuzz(r *vhlib.Rand, o vhlib.Opts) []byte {
	var sb strings.Builder
	n := 1 + r.Intn(9)
	if o.Search {
		n = 1 + r.Intn(14)
	}
	mode := r.Intn(10)
	for i := 0; i < n; i++ {
		switch {
		case mode == 0: // raw bytes
			k := 1 + r.Intn(4)
			for j := 0; j < k; j++ {
				switch r.Intn(10) {
				case 0:
					sb.WriteByte(byte(r.Intn(256)))
				case 1:
					sb.WriteByte(byte(r.Intn(32)))
				default:
					sb.WriteByte(byte(32 + r.Intn(95)))
				}
			}
		case mode <= 2 && r.Chance(25):
			sb.WriteByte(byte(32 + r.Intn(95)))
		default:
			sb.WriteString(vhlib.Pick(r, fuzzPieces))
		}
		if r.Chance(65) {
			sb.WriteString(vhlib.Pick(r, fuzzWS))
		}
	}
	return []byte(sb.String())
}

// ---------------------------------------------------------------- hand-picked prefix

func fixedCases() []input {
	var out []input
	add := func(kind, text, sym, tag string) {
		out = append(out, input{Kind: kind, Text: []byte(text), Sym: sym, Tag: tag})
	}
	for _, s := range []string{"", " ", "\t\n", "!", "<", ">", "!=", "<=", "=", "(", ")", "x", "sip", "sip =", "sip = (", "sip = =", "dport=80)", "(dport=80",
		"()", "! ! dport = 80", "dport = 80 &", "& dport = 80", "dport < = 80", "dport !== 80", "dport <== 80", "dport =< 80",
		"sip = l & dport = 80", "sip=l&dport=80", "proto = and & dport = 80", "dport = 80 and", "not", "not ", " not x", "nothing = 1",
		"(not dport = 80)", "dport = 80 &not proto = tcp", "dport = 80 and!proto = tcp", "a\fand\fb", "a\vand\vb", "dport = 80 AND NOT proto = tcp",
		"x and not", "x and not not y", "x and  not(y)", "x or\nnot\t{y}", "x and or not y", "dport\xff=80", "\xc3\x84ND", "dport = 80 \xe2\x84\xaa",
		"dport = 80 and nothing = 1", "dport = 80 andnot proto = tcp", "dir = in & dport = 80", "dir = in"} {
		add("fuzz", s, "", "fixed")
	}
	// every documented spelling of every operator, alone
	for _, o := range []string{"=", "!=", "<=", ">=", "<", ">"} {
		for _, w := range append(append([]string{}, wordSpellings[o]...), symSpellings[o]...) {
			add("gen", "dport "+w+" 80", "dport"+o+"80", "spelling")
		}
	}
	for _, o := range []string{"&", "|"} {
		for _, w := range append(append([]string{}, wordSpellings[o]...), symSpellings[o]...) {
			add("gen", "dport = 80 "+w+" proto = tcp", "dport=80"+o+"proto=tcp", "spelling")
			// operator pairs: binary word operator followed by every form of not
			for _, nt := range []string{"not ", "not(", "not (", "not{", "not [", "!", "! (", "NOT\t", "not\n"} {
				cl := ""
				symn := "!"
				switch {
				case strings.ContainsAny(nt, "("):
					cl, symn = ")", "!("
				case strings.ContainsAny(nt, "{"):
					cl, symn = "}", "!("
				case strings.ContainsAny(nt, "["):
					cl, symn = "]", "!("
				}
				symcl := ""
				if cl != "" {
					symcl = ")"
				}
				add("gen", "dport = 80 "+w+" "+nt+"proto = tcp"+cl, "dport=80"+o+symn+"proto=tcp"+symcl, "pair")
			}
		}
	}
	for _, s := range [][2]string{{"not dport = 80", "!dport=80"}, {"not(dport = 80)", "!(dport=80)"}, {"( not dport = 80 )", "(!dport=80)"},
		{"not{dport = 80}", "!(dport=80)"}, {"not[dport = 80]", "!(dport=80)"}, {" not\tdport = 80", "!dport=80"},
		{"( proto eq  TCP and snet neq 1.2.0.0/16 )\nand ( dport   le 1024 or dport   ge 443 )", "(proto=tcp&snet!=1.2.0.0/16)&(dport<=1024|dport>=443)"},
		{"[ proto  =  TCP   * snet  != 1.2.0.0/16 ]\n  * [ dport   <= 1024  + dport   >= 443 ]", "(proto=tcp&snet!=1.2.0.0/16)&(dport<=1024|dport>=443)"},
		{"{ proto -eq TCP  && snet -ne 1.2.0.0/16 }\n  * { dport -leq 1024 || dport -geq 443 }", "(proto=tcp&snet!=1.2.0.0/16)&(dport<=1024|dport>=443)"},
		{"! dport = 8080 | dport = 443 & proto = TCP", "!dport=8080|dport=443&proto=tcp"}} {
		add("gen", s[0], s[1], "help")
	}
	big := func(tag string, ps ...piece) { out = append(out, input{Kind: "big", Pieces: ps, Tag: tag}) }
	big("depth512", piece{"(", 512}, piece{"dport=80", 1}, piece{")", 512})
	big("depth513", piece{"( ", 513}, piece{"dport=80", 1}, piece{")", 513})
	big("depth600open", piece{"(", 600})
	big("notdepth", piece{"!(", 513}, piece{"dport=80", 1}, piece{")", 513})
	big("tok65535", piece{"dport = ", 1}, piece{"1", 65535})
	out[len(out)-1].Raw = true
	big("tok65536mid", piece{"dport = 80 | dport = ", 1}, piece{"1", 65536}, piece{" | dport = 81", 1})
	out[len(out)-1].Raw = true
	big("chain", piece{"dport=80|", 300}, piece{"dport = 1", 1})
	// the nesting limit must not depend on what stands beside the groups: n plain conditions before /
	// behind / around a group nested d deep, and plain conditions interleaved with the nesting
	for _, n := range []int{1, 2, 5, 600} {
		seen := map[int]bool{}
		for _, d := range []int{511, 512, 513, 512 + n - 1, 512 + n, 512 + n + 1} {
			if seen[d] {
				continue
			}
			seen[d] = true
			op := []string{"&", "|"}[(n+d)%2]
			tag := fmt.Sprintf("n%d-d%d", n, d)
			big("sib-first-"+tag, piece{"dport=80" + op, n}, piece{"(", d}, piece{"dport=81", 1}, piece{")", d})
			out[len(out)-1].Raw = true
			big("group-first-"+tag, piece{"(", d}, piece{"dport=81", 1}, piece{")", d}, piece{op + "dport=80", n})
			out[len(out)-1].Raw = true
			big("sib-around-"+tag, piece{"dport=80|", n}, piece{"!(", d}, piece{"dport=81", 1}, piece{")", d}, piece{"&dport=82", n})
			out[len(out)-1].Raw = true
		}
	}
	for _, d := range []int{511, 512, 513, 600} {
		big(fmt.Sprintf("interleaved-d%d", d), piece{"(dport=80&", d}, piece{"dport=81", 1}, piece{")", d})
		out[len(out)-1].Raw = true
	}
	return out
}

var fixed = fixedCases()

func gen(r *vhlib.Rand, i int, o vhlib.Opts) any {
	if i < len(fixed) && !o.Search {
		in := fixed[i]
		in.Order = perm(r)
		in.Seed = r.U64()
		return in
	}
	in := input{Order: perm(r), Seed: r.U64()}
	switch {
	case r.Chance(45):
		in.Kind = "gen"
		g := &renderer{r: r, words: r.Chance(85)}
		d := 1 + r.Intn(3)
		if o.Search {
			d = 1 + r.Intn(4)
		}
		g.render(genTree(r, d), 0)
		in.Text = []byte(g.sb.String())
		in.Sym = g.sym.String()
		in.Tag = "tree"
		if len(in.Text) > 110 { // keep the Coq term small
			g = &renderer{r: r, words: true}
			g.render(genTree(r, 1), 0)
			in.Text, in.Sym = []byte(g.sb.String()), g.sym.String()
		}
	default:
		in.Kind = "fuzz"
		in.Text = genFuzz(r, o)
		in.Tag = "random"
	}
	return in
}

// ---------------------------------------------------------------- running the implementation

func cstr(s string) string {
	if vhlib.IsPlain(s) {
		return "\"" + strings.ReplaceAll(s, "\"", "\"\"") + "\""
	}
	xs := make([]string, len(s))
	for i := 0; i < len(s); i++ {
		xs[i] = strconv.Itoa(int(s[i]))
	}
	return "(X [" + strings.Join(xs, ";") + "]%N)"
}

func cstrs(ss []string) string {
	xs := make([]string, len(ss))
	for i, s := range ss {
		xs[i] = cstr(s)
	}
	return "[" + strings.Join(xs, ";") + "]"
}

func ctree(t *node.VerifTree) string {
	switch t.Kind {
	case "leaf":
		return "(L " + cstr(t.Attr) + " " + cstr(t.Cmp) + " " + cstr(t.Val) + ")"
	case "not":
		return "(Nt " + ctree(t.L) + ")"
	case "and":
		return "(An " + ctree(t.L) + " " + ctree(t.R) + ")"
	case "or":
		return "(Or' " + ctree(t.L) + " " + ctree(t.R) + ")"
	}
	return "(L \"?\" \"?\" \"?\")"
}

type parseObs struct {
	Class string          `json:"class"` // accepted empty rejected panic
	Pos   int             `json:"pos,omitempty"`
	Err   string          `json:"err,omitempty"`
	Tree  *node.VerifTree `json:"tree,omitempty"`
}

func (p parseObs) coq() string {
	switch p.Class {
	case "accepted":
		return "(OAcc " + ctree(p.Tree) + ")"
	case "empty":
		return "OEmpty"
	case "rejected":
		return "(ORej " + strconv.Itoa(p.Pos) + ")"
	}
	return "OPanic"
}

func doParse(tokens []string) (po parseObs) {
	panicked, msg := vhlib.Recover(func() {
		tree, pos, text := node.VerifParse(tokens)
		switch {
		case tree != nil:
			po = parseObs{Class: "accepted", Tree: tree}
		case pos < 0:
			po = parseObs{Class: "empty", Err: text}
		default:
			po = parseObs{Class: "rejected", Pos: pos, Err: text}
		}
	})
	if panicked {
		po = parseObs{Class: "panic", Err: msg}
	}
	return
}

type prepObs struct {
	Panic     bool   `json:"panic"`
	PanicMsg  string `json:"panic_msg,omitempty"`
	Rejected  bool   `json:"condition_rejected"`
	Condition string `json:"condition"`
}

func doPrepare(cond string) (po prepObs) {
	a := &query.Args{Query: "sip,dip", Ifaces: "eth0", Condition: cond, First: "1700000000", Last: "1700003600",
		Format: "json", SortBy: "bytes", NumResults: 10, MaxMemPct: 60, In: true, Out: true}
	a.DNSResolution.Timeout = time.Nanosecond
	a.DNSResolution.MaxRows = 1
	panicked, msg := vhlib.Recover(func() {
		s, err := a.Prepare()
		if s != nil {
			po.Condition = s.Condition
		}
		var de *query.DetailError
		if errors.As(err, &de) {
			for _, e := range de.Errors {
				if e != nil && e.Location == "body.condition" {
					po.Rejected = true
				}
			}
		}
	})
	if panicked {
		po.Panic, po.PanicMsg = true, msg
	}
	return
}

func tokenize(s string) ([]string, bool) {
	t, err := conditions.Tokenize(s)
	if t == nil {
		t = []string{}
	}
	return t, err == nil
}

// whether the full preparation would have to consult the DNS (sip/dip with a non-IP value): its
// verdict is then not a function of the input
func needsDNS(t *node.VerifTree) bool {
	if t == nil {
		return false
	}
	if t.Kind == "leaf" {
		switch t.Attr {
		case "sip", "dip", "host", "src", "dst":
			return net.ParseIP(t.Val) == nil
		}
		return false
	}
	return needsDNS(t.L) || needsDNS(t.R)
}

func run(raw json.RawMessage, o vhlib.Opts) (*vhlib.Case, error) {
	var in input
	if err := json.Unmarshal(raw, &in); err != nil {
		return nil, err
	}
	c := &vhlib.Case{Tags: []string{in.Kind, tagFamily(in.Tag)}}
	if in.Kind == "big" {
		var sb strings.Builder
		var ps []string
		for _, p := range in.Pieces {
			sb.WriteString(strings.Repeat(p.S, p.N))
			ps = append(ps, "("+cstr(p.S)+", "+strconv.Itoa(p.N)+"%N)")
		}
		text := sb.String()
		sorted := append([]string(nil), groupKeys...)
		san := conditions.VerifSanitizeOrdered(text, sorted)
		if in.Raw {
			san = text
		}
		toks, ok := tokenize(san)
		pr := doParse(toks)
		prep := doPrepare(text)
		c.Observed = map[string]any{"tokens": len(toks), "tokenize_ok": ok, "parse": map[string]any{"class": pr.Class, "pos": pr.Pos, "err": pr.Err},
			"canonical_len": len(prep.Condition), "prepare_panic": prep.Panic, "prepare_rejected": prep.Rejected}
		cls := map[string]int{"accepted": 0, "empty": 1, "rejected": 2, "panic": 3}[pr.Class]
		c.Coq = fmt.Sprintf("CBig "+vhlib.CoqBool(in.Raw)+" [%s] %d%%N %s %d %d %d%%N %s %s", strings.Join(ps, ";"), len(toks), vhlib.CoqBool(ok), cls, pr.Pos,
			len(strings.Join(toks, " ")), vhlib.CoqBool(prep.Panic), vhlib.CoqBool(prep.Rejected))
		c.Nontrivial = true
		return c, nil
	}

	text := string(in.Text)
	if len(in.Order) != len(groupKeys) {
		return nil, fmt.Errorf("bad order %v", in.Order)
	}
	have := conditions.VerifGroups()
	sort.Strings(have)
	want := append([]string(nil), groupKeys...)
	sort.Strings(want)
	if strings.Join(have, " ") != strings.Join(want, " ") {
		return nil, fmt.Errorf("conversion map keys changed: %q", have)
	}

	san := conditions.VerifSanitizeOrdered(text, in.Order)
	toks, tokOK := tokenize(san)
	pr := doParse(toks)
	canon := strings.Join(toks, " ")
	ctoks, _ := tokenize(canon)
	cpr := doParse(ctoks)

	// is the outcome the same for many different orders?
	insens := true
	pr2 := vhlib.NewRand(in.Seed)
	for k := 0; k < 64 && insens; k++ {
		var ord []string
		switch k {
		case 0:
			ord = append([]string(nil), groupKeys...)
		case 1:
			for j := len(groupKeys) - 1; j >= 0; j-- {
				ord = append(ord, groupKeys[j])
			}
		default:
			ord = perm(pr2)
		}
		if conditions.VerifSanitizeOrdered(text, ord) != san {
			insens = false
		}
	}

	// the real sanitizer, many times (Go picks a map order each time)
	seen := map[string]bool{}
	var runs [][]string
	for k := 0; k < 24; k++ {
		var out string
		if p, msg := vhlib.Recover(func() { out = conditions.SanitizeUserInput(text) }); p {
			return nil, fmt.Errorf("SanitizeUserInput panicked: %s", msg)
		}
		t, _ := tokenize(out)
		key := strings.Join(t, "\x00")
		if !seen[key] {
			seen[key] = true
			runs = append(runs, t)
		}
	}
	sort.Slice(runs, func(i, j int) bool { return strings.Join(runs[i], "\x00") < strings.Join(runs[j], "\x00") })

	prep := doPrepare(text)
	c1toks, _ := tokenize(prep.Condition)
	prep2 := doPrepare(prep.Condition)
	dns := needsDNS(doParse(c1toks).Tree)

	symToks := []string{}
	symPr := parseObs{Class: "empty"}
	if in.Kind == "gen" {
		symToks, _ = tokenize(conditions.SanitizeUserInput(in.Sym))
		symPr = doParse(symToks)
	}

	obs := map[string]any{"sanitized": san, "tokens": toks, "parse": pr, "canonical": canon, "canonical_tokens": ctoks,
		"canonical_parse": pr.Class == cpr.Class, "prepare_panic": prep.Panic || prep2.Panic, "statement_condition": prep.Condition,
		"statement_condition_again": prep2.Condition, "order_insensitive": insens, "sanitizer_runs": runs}
	if !dns {
		obs["prepare_rejected"] = prep.Rejected
	}
	if prep.Panic {
		obs["panic_msg"] = prep.PanicMsg
	}
	c.Observed = obs
	runsCoq := make([]string, len(runs))
	for i, t := range runs {
		runsCoq[i] = cstrs(t)
	}
	ord := make([]string, len(in.Order))
	for i, k := range in.Order {
		ord[i] = groupCoq[k]
		if ord[i] == "" {
			return nil, fmt.Errorf("unknown group %q", k)
		}
	}
	// a rejection that may stem from the DNS is not reported as one (it is only ever used as "rejected")
	c.Coq = fmt.Sprintf("CText %s %s [%s] %s %s %s %s %s %s %s %s %s %s %s %s %s [%s] %s %s",
		vhlib.CoqBool(in.Kind == "gen"), cstr(text), strings.Join(ord, ";"), cstr(san), cstrs(toks), vhlib.CoqBool(tokOK), pr.coq(),
		cstr(canon), cstrs(ctoks), cpr.coq(), vhlib.CoqBool(prep.Panic || prep2.Panic), vhlib.CoqBool(prep.Rejected),
		cstr(prep.Condition), cstrs(c1toks), cstr(prep2.Condition), vhlib.CoqBool(insens), strings.Join(runsCoq, ";"), cstrs(symToks), symPr.coq())
	c.Tags = append(c.Tags, pr.Class)
	if len(runs) > 1 {
		c.Tags = append(c.Tags, "order-sensitive")
	}
	if dns {
		c.Tags = append(c.Tags, "dns")
	}
	c.Nontrivial = len(toks) >= 3
	return c, nil
}

// tagFamily drops the parameters from a tag ("sib-first-n2-d514" -> "sib-first")
func tagFamily(t string) string {
	for _, p := range []string{"sib-first", "group-first", "sib-around", "interleaved"} {
		if strings.HasPrefix(t, p) {
			return p
		}
	}
	return t
}

func main() { vhlib.Main(gen, run) }
