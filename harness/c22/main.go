// C22 correspondence harness: the real direction classifier (ClassifyPacketDirectionV4/V6), the real
// EPHash Reverse() and the real first-packet insertion (addToFlowLogV4/V6 through the verif hook
// capture.VerifC22StoredKeys) on generated keys.
//
// Case kinds
//
//	ports  one source port x a 20x20 grid of destination ports (boundary bytes), key and Reverse(key)
//	aux    one key x all 256 aux bytes (TCP flags / ICMP types), key and Reverse(key)
//	store  the two packets of a conversation fed into an empty flow map in both orders
package main

import (
	"bytes"
	"encoding/json"
	"fmt"
	"math/big"
	"sort"

	"verifharness/vhlib"

	"github.com/els0r/goProbe/v4/pkg/capture"
	"github.com/els0r/goProbe/v4/pkg/capture/capturetypes"
)

type input struct {
	Kind  string `json:"kind"` // ports aux store
	V6    bool   `json:"v6"`
	Sip   []int  `json:"sip"`
	Dip   []int  `json:"dip"`
	Proto int    `json:"proto"`
	A     int    `json:"a"` // aux byte of the key's direction
	B     int    `json:"b"` // aux byte of the reverse direction
	Sport int    `json:"sport"`
	Dport int    `json:"dport,omitempty"` // aux, store
	His   []int  `json:"his,omitempty"`   // ports: destination port high bytes
	Los   []int  `json:"los,omitempty"`   // ports: destination port low bytes
}

// boundary bytes: 0/1, around the ephemeral threshold 128, around 255, well known low bytes
var bHis = []int{0, 1, 2, 3, 4, 31, 63, 64, 126, 127, 128, 129, 130, 156, 191, 192, 238, 253, 254, 255}
var bLos = []int{0, 1, 2, 20, 21, 22, 53, 80, 123, 127, 128, 129, 144, 187, 200, 251, 252, 253, 254, 255}

var protos = []int{6, 17, 1, 58, 50, 0, 47, 132, 255}

var addrs4 = [][]int{
	{10, 0, 0, 1}, {10, 0, 0, 2}, {192, 168, 1, 7}, {255, 255, 255, 255}, {255, 255, 255, 254}, {224, 0, 0, 251},
	{224, 0, 1, 1}, {224, 0, 2, 1}, {224, 1, 0, 1}, {223, 0, 0, 1}, {0, 0, 0, 0}, {239, 255, 255, 250}, {255, 0, 0, 1},
	{224, 0, 0, 0}, {225, 0, 0, 1}, {127, 0, 0, 1},
}

func a6(first, second, last int) []int {
	a := make([]int, 16)
	a[0], a[1], a[15] = first, second, last
	return a
}

var addrs6 = [][]int{
	a6(0x20, 0x01, 1), a6(0x20, 0x01, 2), a6(0xfe, 0x80, 1), a6(0xff, 0x02, 1), a6(0xff, 0x02, 0xfb), a6(0xfe, 0xff, 1),
	a6(0, 0, 1), a6(0, 0, 0), a6(0xff, 0xff, 0xff), a6(0xfd, 0, 9), a6(0x7f, 0xff, 3),
}

func pickAddr(r *vhlib.Rand, v6 bool) []int {
	n := 4
	pool := addrs4
	if v6 {
		n, pool = 16, addrs6
	}
	if r.Chance(75) {
		return append([]int(nil), vhlib.Pick(r, pool)...)
	}
	a := make([]int, n)
	for i := range a {
		a[i] = r.Intn(256)
	}
	if r.Chance(30) { // random address with a boundary first byte
		a[0] = vhlib.Pick(r, []int{255, 224, 254, 0})
	}
	return a
}

func pickPort(r *vhlib.Rand) int {
	switch r.Intn(4) {
	case 0:
		return vhlib.Pick(r, []int{0, 1, 20, 22, 53, 80, 123, 443, 1023, 1024, 5353, 8080, 32767, 32768, 32769, 40000, 49151, 49152, 60999, 61000, 65534, 65535, 255, 256, 257})
	case 1:
		return vhlib.Pick(r, bHis)*256 + vhlib.Pick(r, bLos)
	default:
		return r.Intn(65536)
	}
}

func pickFlags(r *vhlib.Rand) int {
	switch r.Intn(5) {
	case 0:
		return vhlib.Pick(r, []int{0x02, 0xC2, 0x42, 0x0A}) // SYN (+ECE/CWR/PSH)
	case 1:
		return vhlib.Pick(r, []int{0x12, 0x52, 0xD2, 0x1A}) // SYN-ACK
	case 2:
		return vhlib.Pick(r, []int{0x10, 0x18, 0x11, 0x14, 0x04, 0x00, 0x01, 0x19, 0xFD, 0xED}) // no SYN
	default:
		return r.Intn(256)
	}
}

func pickICMP(r *vhlib.Rand, v6 bool) int {
	if r.Chance(70) {
		if v6 {
			return vhlib.Pick(r, []int{128, 129, 1, 2, 3, 4, 133, 134, 135, 136, 0, 127, 130, 255})
		}
		return vhlib.Pick(r, []int{0, 3, 8, 11, 12, 13, 14, 5, 9, 15, 16, 17, 18, 1, 255})
	}
	return r.Intn(256)
}

type fixedStore struct {
	v6       bool
	sip, dip []int
	proto    int
	sp, dp   int
	a, b     int
}

var fixed = []fixedStore{
	{false, addrs4[0], addrs4[1], 6, 40000, 80, 0x02, 0x12},    // SYN / SYN-ACK, usual ports
	{false, addrs4[0], addrs4[1], 6, 40000, 80, 0x12, 0x02},    // the key is the SYN-ACK direction
	{false, addrs4[0], addrs4[1], 6, 20, 40000, 0x02, 0x12},    // handshake against the port heuristic
	{false, addrs4[0], addrs4[1], 6, 20, 40000, 0xC2, 0x52},    // with ECE / CWR
	{false, addrs4[0], addrs4[1], 6, 40000, 80, 0x10, 0x18},    // mid-stream, ports decide
	{false, addrs4[0], addrs4[1], 6, 80, 40000, 0x18, 0x10},    //
	{false, addrs4[0], addrs4[1], 6, 50000, 40000, 0x10, 0x10}, // both ephemeral
	{false, addrs4[0], addrs4[1], 6, 22, 80, 0x10, 0x10},       // both low
	{false, addrs4[0], addrs4[1], 6, 32767, 32768, 0x10, 0x10}, // threshold
	{false, addrs4[0], addrs4[1], 6, 0, 32768, 0x10, 0x10},     // port 0 counts as ephemeral
	{false, addrs4[0], addrs4[1], 6, 0, 80, 0x10, 0x10},
	{false, addrs4[0], addrs4[1], 6, 443, 443, 0x10, 0x10},     // identical ports: default
	{false, addrs4[0], addrs4[1], 6, 256, 255, 0x10, 0x10},     // byte-wise compare
	{false, addrs4[0], addrs4[1], 6, 33024, 33023, 0x10, 0x10}, // 0x8100 / 0x80FF
	{false, addrs4[0], addrs4[1], 17, 5353, 5353, 0, 0},        // UDP identical
	{false, addrs4[0], addrs4[1], 17, 50000, 53, 0, 0},         // UDP by ports
	{false, addrs4[0], addrs4[5], 17, 5353, 5353, 0, 0},        // to 224.0.0.251
	{false, addrs4[0], addrs4[3], 17, 68, 67, 0, 0},            // limited broadcast
	{false, addrs4[0], addrs4[7], 17, 80, 40000, 0, 0},         // 224.0.2.1 is not in the tested ranges
	{false, addrs4[0], addrs4[1], 1, 0, 0, 8, 0},               // echo request / reply
	{false, addrs4[0], addrs4[1], 1, 0, 0, 0, 8},
	{false, addrs4[0], addrs4[1], 1, 0, 0, 13, 14}, // timestamp
	{false, addrs4[0], addrs4[1], 1, 0, 0, 14, 13},
	{false, addrs4[0], addrs4[1], 1, 0, 0, 3, 8},      // unreachable
	{false, addrs4[0], addrs4[1], 58, 0, 0, 128, 129}, // ICMPv6 number inside IPv4
	{true, addrs6[0], addrs6[1], 58, 0, 0, 128, 129},  // ICMPv6 echo
	{true, addrs6[0], addrs6[1], 58, 0, 0, 129, 128},
	{true, addrs6[0], addrs6[3], 58, 0, 0, 128, 129}, // echo request to ff02::1
	{true, addrs6[3], addrs6[1], 58, 0, 0, 128, 129}, // requester address multicast (invalid)
	{true, addrs6[0], addrs6[1], 1, 0, 0, 8, 0},      // ICMP number inside IPv6
	{true, addrs6[0], addrs6[1], 6, 40000, 443, 0x02, 0x12},
	{true, addrs6[0], addrs6[1], 6, 443, 40000, 0x10, 0x10},
	{true, addrs6[0], addrs6[1], 17, 546, 547, 0, 0},
	{true, addrs6[2], addrs6[4], 17, 5353, 5353, 0, 0}, // to ff02::fb
	{true, addrs6[0], addrs6[1], 50, 0, 0, 0, 0},       // ESP
}

func gen(r *vhlib.Rand, i int, o vhlib.Opts) any {
	if i < len(fixed) {
		f := fixed[i]
		return input{Kind: "store", V6: f.v6, Sip: f.sip, Dip: f.dip, Proto: f.proto, A: f.a, B: f.b, Sport: f.sp, Dport: f.dp}
	}
	k := i - len(fixed)
	nGrid := len(bHis) * len(bLos)
	// systematic part: every boundary source port x {TCP, UDP} x {v4, v6} in thorough,
	// a PRNG sample of them in quick
	sys := 4 * nGrid
	if o.Tier != "thorough" || o.Search {
		sys = 120
	}
	if k < sys {
		var sp, combo int
		if o.Tier == "thorough" && !o.Search {
			sp, combo = k%nGrid, k/nGrid
		} else {
			sp, combo = r.Intn(nGrid), k%4
		}
		in := input{Kind: "ports", V6: combo >= 2, Proto: []int{6, 17}[combo%2], His: bHis, Los: bLos,
			Sport: bHis[sp/len(bLos)]*256 + bLos[sp%len(bLos)]}
		pool := addrs4
		if in.V6 {
			pool = addrs6
		}
		in.Sip, in.Dip = pool[0], pool[1]
		if in.Proto == 6 {
			in.A, in.B = 0x10, 0x18
		}
		return in
	}
	v6 := r.Bool()
	in := input{V6: v6, Sip: pickAddr(r, v6), Dip: pickAddr(r, v6)}
	in.Proto = vhlib.Pick(r, []int{6, 6, 6, 17, 17, 1, 58})
	if r.Chance(12) {
		in.Proto = vhlib.Pick(r, protos)
	}
	in.Sport, in.Dport = pickPort(r), pickPort(r)
	if r.Chance(10) {
		in.Dport = in.Sport
	}
	switch in.Proto {
	case 6:
		in.A, in.B = pickFlags(r), pickFlags(r)
	case 1, 58:
		in.A, in.B = pickICMP(r, v6), pickICMP(r, v6)
		if r.Chance(85) {
			in.Sport, in.Dport = 0, 0 // what the parser produces for ICMP
		}
	default:
		in.A, in.B = r.Intn(256), r.Intn(256)
	}
	switch c := r.Intn(100); {
	case c < 35:
		in.Kind = "ports"
		in.Dport = 0
		if in.Proto != 6 && in.Proto != 17 && r.Chance(70) {
			in.Proto = vhlib.Pick(r, []int{6, 17})
			in.A, in.B = pickFlags(r), pickFlags(r)
		}
		if r.Chance(50) {
			in.His, in.Los = bHis, bLos
		} else { // random grid, always containing the source port itself
			in.His, in.Los = make([]int, 20), make([]int, 20)
			for j := range in.His {
				in.His[j], in.Los[j] = r.Intn(256), r.Intn(256)
			}
			in.His[r.Intn(20)], in.Los[r.Intn(20)] = in.Sport/256, in.Sport%256
		}
	case c < 55:
		in.Kind = "aux"
		in.A, in.B = 0, 0
	default:
		in.Kind = "store"
	}
	return in
}

func mkHash(v6 bool, sip, dip []int, sp, dp, proto int) []byte {
	var h []byte
	for _, b := range sip {
		h = append(h, byte(b))
	}
	h = append(h, byte(sp>>8), byte(sp))
	for _, b := range dip {
		h = append(h, byte(b))
	}
	h = append(h, byte(dp>>8), byte(dp), byte(proto))
	return h
}

func classify(v6 bool, h []byte, aux byte) int {
	if v6 {
		return int(capturetypes.ClassifyPacketDirectionV6(capturetypes.EPHashV6(h), aux))
	}
	return int(capturetypes.ClassifyPacketDirectionV4(capturetypes.EPHashV4(h), aux))
}

func reverse(v6 bool, h []byte) []byte {
	if v6 {
		r := capturetypes.EPHashV6(h).Reverse()
		return r[:]
	}
	r := capturetypes.EPHashV4(h).Reverse()
	return r[:]
}

// pack verdicts as base-4 digits, least significant first
func pack(ds []int) string {
	x := new(big.Int)
	for j := len(ds) - 1; j >= 0; j-- {
		x.Lsh(x, 2)
		x.Or(x, big.NewInt(int64(ds[j]&3)))
	}
	return x.String() + "%N"
}

func digits(ds []int) string {
	b := make([]byte, len(ds))
	for i, d := range ds {
		b[i] = byte('0' + d)
	}
	return string(b)
}

func coqInts(xs []int) string {
	b := make([]byte, len(xs))
	for i, x := range xs {
		b[i] = byte(x)
	}
	return vhlib.CoqBytes(b)
}

func coqKeys(ks [][]byte) string {
	xs := make([]string, len(ks))
	for i, k := range ks {
		xs[i] = vhlib.CoqBytes(k)
	}
	return vhlib.CoqList(xs)
}

func sortedKeys(ks [][]byte) [][]byte {
	sort.Slice(ks, func(i, j int) bool { return bytes.Compare(ks[i], ks[j]) < 0 })
	return ks
}

func keyStrings(ks [][]byte) []string {
	out := make([]string, len(ks))
	for i, k := range ks {
		out[i] = fmt.Sprintf("%x", k)
	}
	return out
}

func isMcast(v6 bool, ip []int) bool {
	if v6 {
		return ip[0] == 0xff
	}
	return (ip[0] == 255 && ip[1] == 255 && ip[2] == 255 && ip[3] == 255) || (ip[0] == 224 && ip[1] == 0 && ip[2] <= 1)
}

func protoTag(p int) string {
	switch p {
	case 6:
		return "tcp"
	case 17:
		return "udp"
	case 1:
		return "icmp"
	case 58:
		return "icmpv6"
	}
	return "other-proto"
}

func validate(in *input) error {
	n := 4
	if in.V6 {
		n = 16
	}
	if len(in.Sip) != n || len(in.Dip) != n {
		return fmt.Errorf("address length")
	}
	for _, xs := range [][]int{in.Sip, in.Dip, in.His, in.Los, {in.Proto, in.A, in.B, in.Sport >> 8, in.Dport >> 8}} {
		for _, x := range xs {
			if x < 0 || x > 255 {
				return fmt.Errorf("byte out of range: %d", x)
			}
		}
	}
	if in.Kind == "ports" && (len(in.His) == 0 || len(in.Los) == 0 || len(in.His)*len(in.Los) > 1024) {
		return fmt.Errorf("bad grid")
	}
	return nil
}

func run(raw json.RawMessage, o vhlib.Opts) (*vhlib.Case, error) {
	var in input
	if err := json.Unmarshal(raw, &in); err != nil {
		return nil, err
	}
	if err := validate(&in); err != nil {
		return nil, err
	}
	fam := map[bool]string{false: "v4", true: "v6"}[in.V6]
	c := &vhlib.Case{Tags: []string{in.Kind, fam, protoTag(in.Proto)}}
	if isMcast(in.V6, in.Sip) || isMcast(in.V6, in.Dip) {
		c.Tags = append(c.Tags, "mcast")
	}
	switch in.Kind {
	case "ports":
		var fwd, rev []int
		dec := 0
		for _, hi := range in.His {
			for _, lo := range in.Los {
				h := mkHash(in.V6, in.Sip, in.Dip, in.Sport, hi*256+lo, in.Proto)
				d1 := classify(in.V6, h, byte(in.A))
				d2 := classify(in.V6, reverse(in.V6, h), byte(in.B))
				fwd, rev = append(fwd, d1), append(rev, d2)
				if d1 != 0 && d2 != 0 && hi*256+lo != in.Sport {
					dec++
				}
			}
		}
		c.Observed = map[string]any{"fwd": digits(fwd), "rev": digits(rev)}
		c.Coq = fmt.Sprintf("CPorts %s %s %s %d %d %d %d %d %s %s %s %s", vhlib.CoqBool(in.V6), coqInts(in.Sip), coqInts(in.Dip),
			in.Proto, in.A, in.B, in.Sport>>8, in.Sport&255, coqInts(in.His), coqInts(in.Los), pack(fwd), pack(rev))
		c.Nontrivial = dec > 0
		if in.Proto == 6 && (in.A&2 != 0 || in.B&2 != 0) {
			c.Tags = append(c.Tags, "syn")
		}
	case "aux":
		h := mkHash(in.V6, in.Sip, in.Dip, in.Sport, in.Dport, in.Proto)
		r := reverse(in.V6, h)
		var fwd, rev []int
		for a := 0; a < 256; a++ {
			fwd, rev = append(fwd, classify(in.V6, h, byte(a))), append(rev, classify(in.V6, r, byte(a)))
		}
		c.Observed = map[string]any{"fwd": digits(fwd), "rev": digits(rev)}
		c.Coq = fmt.Sprintf("CAux %s %s %s %s", vhlib.CoqBool(in.V6), vhlib.CoqBytes(h), pack(fwd), pack(rev))
		c.Nontrivial = in.Proto == 6 || (in.Proto == 1 && !in.V6) || (in.Proto == 58 && in.V6)
		if in.Sport == in.Dport {
			c.Tags = append(c.Tags, "equal-ports")
		}
	case "store":
		h := mkHash(in.V6, in.Sip, in.Dip, in.Sport, in.Dport, in.Proto)
		r := reverse(in.V6, h)
		p1, p2 := capture.VerifC22Pkt{Hash: h, Aux: byte(in.A)}, capture.VerifC22Pkt{Hash: r, Aux: byte(in.B)}
		k1 := sortedKeys(capture.VerifC22StoredKeys(in.V6, []capture.VerifC22Pkt{p1, p2}))
		k2 := sortedKeys(capture.VerifC22StoredKeys(in.V6, []capture.VerifC22Pkt{p2, p1}))
		d1, d2 := classify(in.V6, h, byte(in.A)), classify(in.V6, r, byte(in.B))
		c.Observed = map[string]any{"reverse": fmt.Sprintf("%x", r), "verdict_fwd": d1, "verdict_rev": d2,
			"keys_fwd_first": keyStrings(k1), "keys_rev_first": keyStrings(k2)}
		c.Coq = fmt.Sprintf("CStore %s %s %s %d %d %s %s", vhlib.CoqBool(in.V6), vhlib.CoqBytes(h), vhlib.CoqBytes(r),
			in.A, in.B, coqKeys(k1), coqKeys(k2))
		c.Nontrivial = d1 != 0 && d2 != 0 && !bytes.Equal(h, r)
		if in.Sport == in.Dport {
			c.Tags = append(c.Tags, "equal-ports")
		}
		if d1 != 0 && d1 == d2 {
			c.Tags = append(c.Tags, "same-verdict")
		}
	default:
		return nil, fmt.Errorf("unknown kind %q", in.Kind)
	}
	return c, nil
}

func main() { vhlib.Main(gen, run) }
